(* C01 — executable model of the elastic-quota accounting kept by GroupQuotaManager
   (pkg/scheduler/plugins/elasticquota/core/group_quota_manager.go, quota_info.go).

   Quantities are 2-dimensional vectors (cpu, memory): every quota's Max names the same fixed
   dimension set, so quotav1.Mask(…, ResourceNames(Max)) is the projection on these dimensions
   and a missing ResourceList key reads as 0 (Lib/Vec2.v).
   Names are integers: 0 = koordinator-root-quota (never stored: the code's root entry only
   accumulates and is not reported by GetQuotaSummaries), 1 = system quota, 2 = default quota,
   >= 3 user quotas. The runtime-quota calculators, shared weight, scale-min manager and the
   cluster total are not part of the accounting and are left out (C02 covers the calculators).

   No proofs in this file. *)
From Coq Require Import List ZArith Bool.
From Verif Require Import Lib.Vec2.
Import ListNotations.
Open Scope Z_scope.

(* ---------- objects ---------- *)

(* what the handlers read of a *v1.Pod *)
Record pod := mkPod {
  p_id : Z;          (* namespace/name *)
  p_req : vec;       (* PodRequests(pod) masked to the quota dimensions *)
  p_np : bool;       (* extension.IsPodNonPreemptible *)
  p_bound : bool;    (* Spec.NodeName != "" && !IsPodTerminated *)
  p_ign : bool       (* shouldBeIgnored *)
}.
Definition p_npreq (p : pod) : vec := if p_np p then p_req p else vzero.

(* PodInfo of the PodCache. pi_a* are GHOST fields (never read by the transitions): what of this
   pod is currently counted in the request / non-preemptible request / used / non-preemptible
   used aggregates. The specification sums them. *)
Record pinfo := mkPI {
  pi_id : Z;
  pi_asg : bool;     (* isAssigned *)
  pi_areq : vec; pi_anp : vec; pi_aused : vec; pi_anpused : vec
}.

(* request-side and used-side aggregates of QuotaCalculateInfo *)
Record racc := mkR { r_req : vec; r_creq : vec; r_sreq : vec; r_np : vec; r_snp : vec }.
Record uacc := mkU { u_used : vec; u_sused : vec; u_np : vec; u_snp : vec }.
Definition r0 : racc := mkR vzero vzero vzero vzero vzero.
Definition u0 : uacc := mkU vzero vzero vzero vzero.

Record qinfo := mkQ {
  q_name : Z; q_parent : Z; q_isparent : bool; q_lend : bool;
  q_max : vec; q_min : vec;
  q_r : racc; q_u : uacc;
  q_pods : list pinfo
}.

Notation state := (list qinfo).

Definition set_r (qi : qinfo) (r : racc) : qinfo :=
  mkQ (q_name qi) (q_parent qi) (q_isparent qi) (q_lend qi) (q_max qi) (q_min qi) r (q_u qi) (q_pods qi).
Definition set_u (qi : qinfo) (u : uacc) : qinfo :=
  mkQ (q_name qi) (q_parent qi) (q_isparent qi) (q_lend qi) (q_max qi) (q_min qi) (q_r qi) u (q_pods qi).
Definition set_pods (qi : qinfo) (ps : list pinfo) : qinfo :=
  mkQ (q_name qi) (q_parent qi) (q_isparent qi) (q_lend qi) (q_max qi) (q_min qi) (q_r qi) (q_u qi) ps.
Definition set_max (qi : qinfo) (m : vec) : qinfo :=
  mkQ (q_name qi) (q_parent qi) (q_isparent qi) (q_lend qi) m (q_min qi) (q_r qi) (q_u qi) (q_pods qi).
Definition set_min (qi : qinfo) (m : vec) : qinfo :=
  mkQ (q_name qi) (q_parent qi) (q_isparent qi) (q_lend qi) (q_max qi) m (q_r qi) (q_u qi) (q_pods qi).

(* ---------- the quota map ---------- *)

Fixpoint find (s : state) (n : Z) : option qinfo :=
  match s with
  | [] => None
  | qi :: t => if q_name qi =? n then Some qi else find t n
  end.

Definition upd (s : state) (n : Z) (f : qinfo -> qinfo) : state :=
  map (fun qi => if q_name qi =? n then f qi else qi) s.

Definition remove_q (s : state) (n : Z) : state :=
  filter (fun qi => negb (q_name qi =? n)) s.

(* getCurToAllParentGroupQuotaInfoNoLock: the quota and its ancestors, bottom-up. The root entry
   (and the stop at a missing parent) is where the list ends. *)
Fixpoint path (fuel : nat) (s : state) (n : Z) : list Z :=
  match fuel with
  | O => []
  | S f => match find s n with
           | None => []
           | Some qi => n :: path f s (q_parent qi)
           end
  end.
Definition pathf (s : state) (n : Z) : list Z := path (S (length s)) s n.

(* getLimitRequestNoLock: min(Request, Max) *)
Definition lim (qi : qinfo) : vec := vmin (r_req (q_r qi)) (q_max qi).
(* Request as a function of ChildRequest: a quota that does not lend asks for at least its min *)
Definition freq (qi : qinfo) (creq : vec) : vec := if q_lend qi then creq else vmax creq (q_min qi).

(* ---------- delta propagation ---------- *)

(* one iteration of recursiveUpdateGroupTreeWithDeltaRequest on a non-root quota:
   addRequestNonNegativeNoLock (its write to Request is overwritten below),
   addChildRequestNonNegativeNoLock, Request := ChildRequest raised to Min unless lending *)
Definition req_node (d dnp : vec) (self : bool) (qi : qinfo) : qinfo :=
  let r := q_r qi in
  let creq' := vclamp (vadd (r_creq r) d) in
  set_r qi (mkR (freq qi creq') creq'
                (if self then vclamp (vadd (r_sreq r) d) else r_sreq r)
                (vclamp (vadd (r_np r) dnp))
                (if self then vclamp (vadd (r_snp r) dnp) else r_snp r)).

(* recursiveUpdateGroupTreeWithDeltaRequest over the bottom-up list [l]; [self] = the first
   element is the quota the pods belong to (selfQuotaIndex 0; -1 otherwise). The delta handed to
   the parent is the change of the max-limited request; the non-preemptible delta is unchanged. *)
Fixpoint walk_req (s : state) (l : list Z) (d dnp : vec) (self : bool) : state :=
  match l with
  | [] => s
  | n :: rest =>
      match find s n with
      | None => s
      | Some qi =>
          let qi' := req_node d dnp self qi in
          walk_req (upd s n (fun _ => qi')) rest (vsub (lim qi') (lim qi)) dnp false
      end
  end.

(* addUsedNonNegativeNoLock *)
Definition used_node (d dnp : vec) (self : bool) (qi : qinfo) : qinfo :=
  let u := q_u qi in
  set_u qi (mkU (vclamp (vadd (u_used u) d))
                (if self then vclamp (vadd (u_sused u) d) else u_sused u)
                (vclamp (vadd (u_np u) dnp))
                (if self then vclamp (vadd (u_snp u) dnp) else u_snp u)).

(* updateGroupDeltaUsedNoLock: the same delta on every quota of the list *)
Fixpoint walk_used (s : state) (l : list Z) (d dnp : vec) (self : bool) : state :=
  match l with
  | [] => s
  | n :: rest => walk_used (upd s n (used_node d dnp self)) rest d dnp false
  end.

(* updateGroupDeltaRequestNoLock / updateGroupDeltaUsedNoLock *)
Definition delta_req (s : state) (n : Z) (d dnp : vec) (self : bool) : state :=
  walk_req s (pathf s n) d dnp self.
Definition delta_used (s : state) (n : Z) (d dnp : vec) (self : bool) : state :=
  walk_used s (pathf s n) d dnp self.

(* ---------- pod cache ---------- *)

Definition has_pod (qi : qinfo) (id : Z) : bool := existsb (fun pi => pi_id pi =? id) (q_pods qi).
Definition asg_pod (qi : qinfo) (id : Z) : bool :=
  existsb (fun pi => (pi_id pi =? id) && pi_asg pi) (q_pods qi).
Definition exists_in (s : state) (q id : Z) : bool :=
  match find s q with Some qi => has_pod qi id | None => false end.
Definition is_asg (s : state) (q id : Z) : bool :=
  match find s q with Some qi => asg_pod qi id | None => false end.

Definition upd_pod (s : state) (q id : Z) (f : pinfo -> pinfo) : state :=
  upd s q (fun qi => set_pods qi (map (fun pi => if pi_id pi =? id then f pi else pi) (q_pods qi))).

(* addPodIfNotPresent / removePodIfPresent *)
Definition cache_add (s : state) (q id : Z) : state :=
  upd s q (fun qi => if has_pod qi id then qi
                     else set_pods qi (q_pods qi ++ [mkPI id false vzero vzero vzero vzero])).
Definition cache_del (s : state) (q id : Z) : state :=
  upd s q (fun qi => set_pods qi (filter (fun pi => negb (pi_id pi =? id)) (q_pods qi))).
(* UpdatePodIsAssigned (setting the flag it already has is an error return without effect) *)
Definition set_asg (s : state) (q id : Z) (b : bool) : state :=
  upd_pod s q id (fun pi => mkPI (pi_id pi) b (pi_areq pi) (pi_anp pi) (pi_aused pi) (pi_anpused pi)).

Definition oreq (o : option pod) : vec := match o with Some p => p_req p | None => vzero end.
Definition onp (o : option pod) : vec := match o with Some p => p_npreq p | None => vzero end.
Definition oid (old new : option pod) : Z :=
  match old, new with Some p, _ => p_id p | None, Some p => p_id p | None, None => 0 end.
Definition oasg (qi : qinfo) (o : option pod) : bool :=
  match o with Some p => asg_pod qi (p_id p) | None => false end.

(* updatePodRequestNoLock (one atomic section: the path locks are held for the whole walk) *)
Definition pod_req_sec (s : state) (q : Z) (old new : option pod) : state :=
  match find s q with
  | None => s
  | Some _ =>
      let d := vsub (oreq new) (oreq old) in
      let dnp := vsub (onp new) (onp old) in
      (* ghost: this pod now counts with new's request *)
      let s0 := upd_pod s q (oid old new) (fun pi =>
                  mkPI (pi_id pi) (pi_asg pi) (oreq new) (onp new) (pi_aused pi) (pi_anpused pi)) in
      if viszero d && viszero dnp then s0 else delta_req s0 q d dnp true
  end.

(* updatePodUsedNoLock *)
Definition pod_used_sec (s : state) (q : Z) (old new : option pod) : state :=
  match find s q with
  | None => s
  | Some qi =>
      if negb (oasg qi new) && negb (oasg qi old) then s
      else
        let d := vsub (oreq new) (oreq old) in
        let dnp := vsub (onp new) (onp old) in
        let s0 := upd_pod s q (oid old new) (fun pi =>
                    mkPI (pi_id pi) (pi_asg pi) (pi_areq pi) (pi_anp pi) (oreq new) (onp new)) in
        if viszero d && viszero dnp then s0 else delta_used s0 q d dnp true
  end.

(* ---------- pod handlers ---------- *)

(* tail shared by OnPodAdd and both add branches of OnPodUpdate *)
Definition add_new_pod (s : state) (q : Z) (p : pod) : state :=
  let s1 := pod_req_sec (cache_add s q (p_id p)) q None (Some p) in
  if p_bound p && negb (is_asg s1 q (p_id p))
  then pod_used_sec (set_asg s1 q (p_id p) true) q None (Some p)
  else s1.

Definition on_pod_add (s : state) (q : Z) (p : pod) : state :=
  if p_ign p then s
  else match find s q with
       | None => s
       | Some qi => if has_pod qi (p_id p) then s else add_new_pod s q p
       end.

Definition remove_pod_req_first (s : state) (q : Z) (p : pod) : state :=
  let s1 := pod_req_sec s q (Some p) None in
  let s2 := if is_asg s1 q (p_id p) then pod_used_sec s1 q (Some p) None else s1 in
  cache_del s2 q (p_id p).

Definition on_pod_delete (s : state) (q : Z) (p : pod) : state :=
  if exists_in s q (p_id p) then remove_pod_req_first s q p else s.

Definition on_pod_update (s : state) (qn qo : Z) (pn po : pod) : state :=
  if qo =? qn then
    match find s qn with
    | None => s
    | Some qi =>
        if negb (p_ign pn) then
          let s1 := if has_pod qi (p_id pn)
                    then pod_req_sec s qn (Some po) (Some pn)
                    else pod_req_sec (cache_add s qn (p_id pn)) qn None (Some pn) in
          if is_asg s1 qn (p_id pn) then pod_used_sec s1 qn (Some po) (Some pn)
          else if p_bound pn
               then pod_used_sec (set_asg s1 qn (p_id pn) true) qn None (Some pn)
               else s1
        else if has_pod qi (p_id po) then remove_pod_req_first s qo po else s
    end
  else
    let s1 := if exists_in s qo (p_id po) then
                let s' := if is_asg s qo (p_id po) then pod_used_sec s qo (Some po) None else s in
                cache_del (pod_req_sec s' qo (Some po) None) qo (p_id po)
              else s in
    match find s1 qn with
    | None => s1
    | Some qi =>
        if negb (has_pod qi (p_id pn)) && negb (p_ign pn) then add_new_pod s1 qn pn else s1
    end.

Definition reserve_pod (s : state) (q : Z) (p : pod) : state :=
  if exists_in s q (p_id p) && negb (is_asg s q (p_id p))
  then pod_used_sec (set_asg s q (p_id p) true) q None (Some p)
  else s.

Definition unreserve_pod (s : state) (q : Z) (p : pod) : state :=
  if exists_in s q (p_id p) && is_asg s q (p_id p)
  then set_asg (pod_used_sec s q (Some p) None) q (p_id p) false
  else s.

(* MigratePod (the code dereferences a nil quota when [qin] does not exist; the model is the
   identity on the missing side) *)
Definition migrate_pod (s : state) (p : pod) (qout qin : Z) : state :=
  let a := is_asg s qout (p_id p) in
  let s1 := pod_req_sec s qout (Some p) None in
  let s2 := if a then pod_used_sec s1 qout (Some p) None else s1 in
  let s3 := cache_del s2 qout (p_id p) in
  let s4 := cache_add s3 qin (p_id p) in
  let s5 := set_asg s4 qin (p_id p) a in
  let s6 := pod_req_sec s5 qin None (Some p) in
  if a then pod_used_sec s6 qin None (Some p) else s6.

(* ---------- quota handlers ---------- *)

(* the fields of an ElasticQuota object that NewQuotaInfoFromQuota reads (shared weight does
   not enter the accounting) *)
Record qspec := mkSpec {
  qs_name : Z; qs_parent : Z; qs_isparent : bool; qs_lend : bool; qs_max : vec; qs_min : vec
}.

(* doUpdateOneGroupMaxQuotaNoLock *)
Definition do_update_max (s : state) (n : Z) (m : vec) : state :=
  match pathf s n, find s n with
  | _ :: rest, Some qi =>
      let qi' := set_max qi m in
      walk_req (upd s n (fun _ => qi')) rest (vsub (lim qi') (lim qi)) vzero false
  | _, _ => s
  end.

(* doUpdateOneGroupMinQuotaNoLock *)
Definition do_update_min (s : state) (n : Z) (m : vec) : state :=
  match pathf s n, find s n with
  | _ :: rest, Some qi =>
      let qi1 := set_min qi m in
      let r := q_r qi1 in
      let qi' := set_r qi1 (mkR (freq qi1 (r_creq r)) (r_creq r) (r_sreq r) (r_np r) (r_snp r)) in
      walk_req (upd s n (fun _ => qi')) rest (vsub (lim qi') (lim qi1)) vzero false
  | _, _ => s
  end.

(* deleteQuotaNoLock *)
Definition delete_quota (s : state) (n : Z) : state :=
  match find s n with
  | None => s
  | Some qi =>
      let s1 := remove_q s n in
      let d := vsub vzero (lim qi) in
      let dnp := vsub vzero (r_np (q_r qi)) in
      let s2 := if negb (viszero d) || negb (viszero dnp) then delta_req s1 (q_parent qi) d dnp false else s1 in
      let du := vsub vzero (u_used (q_u qi)) in
      let dnpu := vsub vzero (u_np (q_u qi)) in
      if negb (viszero du) || negb (viszero dnpu) then delta_used s2 (q_parent qi) du dnpu false else s2
  end.

(* updateQuotaInternalNoLock *)
Definition update_internal (s : state) (sp : qspec) (old : option qinfo) : state :=
  let n := qs_name sp in
  let s1 := match old with
            | Some _ => s
            | None => s ++ [mkQ n (qs_parent sp) (qs_isparent sp) (qs_lend sp) vzero vzero r0 u0 []]
            end in
  let max_changed := match old with Some o => negb (veqb (qs_max sp) (q_max o)) | None => true end in
  let s2 := if max_changed then do_update_max s1 n (qs_max sp) else s1 in
  let min_changed := match old with Some o => negb (veqb (qs_min sp) (q_min o)) | None => true end in
  if min_changed then do_update_min s2 n (qs_min sp) else s2.

(* updateQuotaNoLockWhenParentChange *)
Definition parent_change (s : state) (sp : qspec) : state :=
  let n := qs_name sp in
  match find s n with
  | None => s
  | Some old =>
      let s1 := delete_quota s n in
      let s2 := s1 ++ [mkQ n (qs_parent sp) (qs_isparent sp) (qs_lend sp) vzero vzero r0 u0 (q_pods old)] in
      let s3 := do_update_max s2 n (qs_max sp) in
      let s4 := do_update_min s3 n (qs_min sp) in
      let ro := q_r old in
      let uo := q_u old in
      let s5 := if negb (viszero (r_sreq ro)) || negb (viszero (r_snp ro))
                then delta_req s4 n (r_sreq ro) (r_snp ro) true else s4 in
      let dc := vsub (r_creq ro) (r_sreq ro) in
      let dcnp := vsub (r_np ro) (r_snp ro) in
      let s6 := if q_isparent old && (negb (viszero dc) || negb (viszero dcnp))
                then delta_req s5 n dc dcnp false else s5 in
      let s7 := if negb (viszero (u_sused uo)) || negb (viszero (u_snp uo))
                then delta_used s6 n (u_sused uo) (u_snp uo) true else s6 in
      let du := vsub (u_used uo) (u_sused uo) in
      let dunp := vsub (u_np uo) (u_snp uo) in
      if q_isparent old && (negb (viszero du) || negb (viszero dunp))
      then delta_used s7 n du dunp false else s7
  end.

Definition special (n : Z) : bool := (n =? 1) || (n =? 2).

(* clearForResetNoLock *)
Definition clear_q (qi : qinfo) : qinfo := set_u (set_r qi r0) u0.

(* what rebuildAllGroupQuotaNoLock re-adds for a quota *)
Definition saved_of (qi : qinfo) : Z * (vec * vec * vec * vec) :=
  let r := q_r qi in let u := q_u qi in
  (q_name qi,
   if q_isparent qi then (r_sreq r, r_snp r, u_sused u, u_snp u)
   else (r_creq r, r_np r, u_used u, u_np u)).

Definition readd (st : state) (x : Z * (vec * vec * vec * vec)) : state :=
  let '(n, (a, b, c, d)) := x in
  delta_used (delta_req st n a b true) n c d true.

(* resetQuotaNoLock: every quota of the topology (all but system/default) is cleared, then its own
   amounts are propagated again. The code walks a Go map; the model walks the list. *)
Definition reset (s : state) : state :=
  let topo := filter (fun qi => negb (special (q_name qi))) s in
  let s0 := map (fun qi => if special (q_name qi) then qi else clear_q qi) s in
  fold_left readd (map saved_of topo) s0.

(* updateQuotaInfoFromRemote *)
Definition from_remote (sp : qspec) (qi : qinfo) : qinfo :=
  mkQ (q_name qi) (qs_parent sp) (qs_isparent sp) (qs_lend sp) (qs_max sp) (qs_min sp)
      (q_r qi) (q_u qi) (q_pods qi).

(* UpdateQuota *)
Definition update_quota (s : state) (sp : qspec) : state :=
  let n := qs_name sp in
  match find s n with
  | None => update_internal s sp None
  | Some loc =>
      let meta_same := Bool.eqb (q_lend loc) (qs_lend sp) && Bool.eqb (q_isparent loc) (qs_isparent sp)
                       && (q_parent loc =? qs_parent sp) in
      if meta_same then update_internal s sp (Some loc)
      else if negb (q_parent loc =? qs_parent sp) then parent_change s sp
      else reset (upd s n (from_remote sp))
  end.

(* ---------- operations ---------- *)

Inductive op :=
| OpPodAdd (q : Z) (p : pod)
| OpPodUpdate (qn qo : Z) (pn po : pod)
| OpPodDelete (q : Z) (p : pod)
| OpReserve (q : Z) (p : pod)
| OpUnreserve (q : Z) (p : pod)
| OpMigrate (p : pod) (qout qin : Z)
| OpQuotaUpdate (sp : qspec)
| OpQuotaDelete (n : Z)
| OpReset
| OpNode.            (* OnNodeAdd/Update/Delete: cluster total only *)

Definition step (s : state) (o : op) : state :=
  match o with
  | OpPodAdd q p => on_pod_add s q p
  | OpPodUpdate qn qo pn po => on_pod_update s qn qo pn po
  | OpPodDelete q p => on_pod_delete s q p
  | OpReserve q p => reserve_pod s q p
  | OpUnreserve q p => unreserve_pod s q p
  | OpMigrate p a b => migrate_pod s p a b
  | OpQuotaUpdate sp => update_quota s sp
  | OpQuotaDelete n => delete_quota s n
  | OpReset => reset s
  | OpNode => s
  end.

(* NewGroupQuotaManager(""): system and default quota under the root *)
Definition init (sysmax defmax : vec) : state :=
  [ mkQ 1 0 false true sysmax vzero r0 u0 [];
    mkQ 2 0 false true defmax vzero r0 u0 [] ].

Definition run (s : state) (h : list op) : state := fold_left step h s.

(* every intermediate state, in order (what the harness observes after each operation) *)
Fixpoint trace (s : state) (h : list op) : list state :=
  match h with
  | [] => []
  | o :: t => let s' := step s o in s' :: trace s' t
  end.
