(* C01 — executable model of the elastic-quota accounting kept by GroupQuotaManager
   (pkg/scheduler/plugins/elasticquota/core/group_quota_manager.go, quota_info.go).

   Quantities are 2-dimensional vectors (cpu, memory): every quota's Max names the same fixed
   dimension set, so quotav1.Mask(…, ResourceNames(Max)) is the projection on these dimensions
   and a missing ResourceList key reads as 0 (Lib/Vec2.v).
   Names are integers: 0 = koordinator-root-quota (never stored: the code's root entry only
   accumulates and is not reported by GetQuotaSummaries), 1 = system quota, 2 = default quota,
   >= 3 user quotas. The runtime-quota calculators, shared weight, scale-min manager and the
   cluster total are not part of the accounting and are left out (C02 covers the calculators).

   The quotaInfoMap is represented column-wise: the list of quota "shapes" (name, parent, flags,
   max, min) and three maps from names to the request aggregates, the used aggregates and the
   PodCache. No proofs in this file. *)
From Coq Require Import List ZArith Bool.
From Verif Require Import Lib.VecN.
Import ListNotations.
Open Scope Z_scope.

Section WithDim.
Context {D : Dim}.

(* ---------- objects ---------- *)

(* what the handlers read of a *v1.Pod *)
Record pod := mkPod {
  p_id : Z;          (* namespace/name *)
  p_req : vec;       (* PodRequests(pod) masked to the quota dimensions *)
  p_np : bool;       (* extension.IsPodNonPreemptible *)
  p_bound : bool;    (* Spec.NodeName != "" && !IsPodTerminated *)
  p_ign : bool       (* shouldBeIgnored *)
}.
Definition p_npreq (p : pod) : vec := if p_np p then p_req p else vzero.

(* PodInfo of the PodCache. pi_a* are GHOST fields (never read by the transitions): what of this
   pod is currently counted in the request / non-preemptible request / used / non-preemptible
   used aggregates. The specification sums them. *)
Record pinfo := mkPI {
  pi_id : Z;
  pi_asg : bool;     (* isAssigned *)
  pi_areq : vec; pi_anp : vec; pi_aused : vec; pi_anpused : vec
}.

(* request-side and used-side aggregates of QuotaCalculateInfo *)
Record racc := mkR { r_req : vec; r_creq : vec; r_sreq : vec; r_np : vec; r_snp : vec }.
Record uacc := mkU { u_used : vec; u_sused : vec; u_np : vec; u_snp : vec }.
Definition r0 : racc := mkR vzero vzero vzero vzero vzero.
Definition u0 : uacc := mkU vzero vzero vzero vzero.

Record qshape := mkQ {
  q_name : Z; q_parent : Z; q_isparent : bool; q_lend : bool; q_max : vec; q_min : vec
}.

Record state := mkSt {
  st_sh : list qshape;          (* the quotas that exist *)
  st_r : Z -> racc;
  st_u : Z -> uacc;
  st_p : Z -> list pinfo
}.

Definition fupd {A} (f : Z -> A) (n : Z) (v : A) : Z -> A := fun m => if m =? n then v else f m.

Definition set_sh (s : state) (sh : list qshape) : state := mkSt sh (st_r s) (st_u s) (st_p s).
Definition set_R (s : state) (R : Z -> racc) : state := mkSt (st_sh s) R (st_u s) (st_p s).
Definition set_U (s : state) (U : Z -> uacc) : state := mkSt (st_sh s) (st_r s) U (st_p s).
Definition set_P (s : state) (P : Z -> list pinfo) : state := mkSt (st_sh s) (st_r s) (st_u s) P.

(* ---------- the quota map ---------- *)

Fixpoint find (sh : list qshape) (n : Z) : option qshape :=
  match sh with
  | [] => None
  | q :: t => if q_name q =? n then Some q else find t n
  end.

Definition upd_sh (sh : list qshape) (n : Z) (f : qshape -> qshape) : list qshape :=
  map (fun q => if q_name q =? n then f q else q) sh.

Definition remove_sh (sh : list qshape) (n : Z) : list qshape :=
  filter (fun q => negb (q_name q =? n)) sh.

(* getCurToAllParentGroupQuotaInfoNoLock: the quota and its ancestors, bottom-up. The root entry
   (and the stop at a missing parent) is where the list ends. *)
Fixpoint path (fuel : nat) (sh : list qshape) (n : Z) : list Z :=
  match fuel with
  | O => []
  | S f => match find sh n with
           | None => []
           | Some q => n :: path f sh (q_parent q)
           end
  end.
Definition pathf (sh : list qshape) (n : Z) : list Z := path (S (length sh)) sh n.

(* getLimitRequestNoLock: min(Request, Max) *)
Definition lim (q : qshape) (r : racc) : vec := vmin (r_req r) (q_max q).
(* Request as a function of ChildRequest: a quota that does not lend asks for at least its min *)
Definition freq (q : qshape) (creq : vec) : vec := if q_lend q then creq else vmax creq (q_min q).

(* ---------- delta propagation ---------- *)

(* one iteration of recursiveUpdateGroupTreeWithDeltaRequest on a non-root quota:
   addRequestNonNegativeNoLock (its write to Request is overwritten below),
   addChildRequestNonNegativeNoLock, Request := ChildRequest raised to Min unless lending *)
Definition req_node (q : qshape) (d dnp : vec) (self : bool) (r : racc) : racc :=
  let creq' := vclamp (vadd (r_creq r) d) in
  mkR (freq q creq') creq'
      (if self then vclamp (vadd (r_sreq r) d) else r_sreq r)
      (vclamp (vadd (r_np r) dnp))
      (if self then vclamp (vadd (r_snp r) dnp) else r_snp r).

(* recursiveUpdateGroupTreeWithDeltaRequest over the bottom-up list [l]; [self] = the first
   element is the quota the pods belong to (selfQuotaIndex 0; -1 otherwise). The delta handed to
   the parent is the change of the max-limited request; the non-preemptible delta is unchanged. *)
Fixpoint walk_req (sh : list qshape) (R : Z -> racc) (l : list Z) (d dnp : vec) (self : bool)
  : Z -> racc :=
  match l with
  | [] => R
  | n :: rest =>
      match find sh n with
      | None => R
      | Some q =>
          let r' := req_node q d dnp self (R n) in
          walk_req sh (fupd R n r') rest (vsub (lim q r') (lim q (R n))) dnp false
      end
  end.

(* addUsedNonNegativeNoLock *)
Definition used_node (d dnp : vec) (self : bool) (u : uacc) : uacc :=
  mkU (vclamp (vadd (u_used u) d))
      (if self then vclamp (vadd (u_sused u) d) else u_sused u)
      (vclamp (vadd (u_np u) dnp))
      (if self then vclamp (vadd (u_snp u) dnp) else u_snp u).

(* updateGroupDeltaUsedNoLock: the same delta on every quota of the list *)
Fixpoint walk_used (U : Z -> uacc) (l : list Z) (d dnp : vec) (self : bool) : Z -> uacc :=
  match l with
  | [] => U
  | n :: rest => walk_used (fupd U n (used_node d dnp self (U n))) rest d dnp false
  end.

(* updateGroupDeltaRequestNoLock / updateGroupDeltaUsedNoLock *)
Definition delta_req (s : state) (n : Z) (d dnp : vec) (self : bool) : state :=
  set_R s (walk_req (st_sh s) (st_r s) (pathf (st_sh s) n) d dnp self).
Definition delta_used (s : state) (n : Z) (d dnp : vec) (self : bool) : state :=
  set_U s (walk_used (st_u s) (pathf (st_sh s) n) d dnp self).

(* ---------- pod cache ---------- *)

Definition has_pod (ps : list pinfo) (id : Z) : bool := existsb (fun pi => pi_id pi =? id) ps.
Definition asg_pod (ps : list pinfo) (id : Z) : bool :=
  existsb (fun pi => (pi_id pi =? id) && pi_asg pi) ps.
Definition exists_q (s : state) (q : Z) : bool :=
  match find (st_sh s) q with Some _ => true | None => false end.
Definition exists_in (s : state) (q id : Z) : bool := exists_q s q && has_pod (st_p s q) id.
Definition is_asg (s : state) (q id : Z) : bool := exists_q s q && asg_pod (st_p s q) id.

Definition map_pod (ps : list pinfo) (id : Z) (f : pinfo -> pinfo) : list pinfo :=
  map (fun pi => if pi_id pi =? id then f pi else pi) ps.
Definition upd_pod (s : state) (q id : Z) (f : pinfo -> pinfo) : state :=
  set_P s (fupd (st_p s) q (map_pod (st_p s q) id f)).

(* addPodIfNotPresent / removePodIfPresent (no-ops on a quota that does not exist) *)
Definition cache_add (s : state) (q id : Z) : state :=
  if exists_q s q && negb (has_pod (st_p s q) id)
  then set_P s (fupd (st_p s) q (st_p s q ++ [mkPI id false vzero vzero vzero vzero]))
  else s.
Definition cache_del (s : state) (q id : Z) : state :=
  if exists_q s q
  then set_P s (fupd (st_p s) q (filter (fun pi => negb (pi_id pi =? id)) (st_p s q)))
  else s.
(* UpdatePodIsAssigned (setting the flag it already has is an error return without effect) *)
Definition set_asg (s : state) (q id : Z) (b : bool) : state :=
  if exists_q s q
  then upd_pod s q id (fun pi => mkPI (pi_id pi) b (pi_areq pi) (pi_anp pi) (pi_aused pi) (pi_anpused pi))
  else s.

Definition oreq (o : option pod) : vec := match o with Some p => p_req p | None => vzero end.
Definition onp (o : option pod) : vec := match o with Some p => p_npreq p | None => vzero end.
Definition oid (old new : option pod) : Z :=
  match old, new with Some p, _ => p_id p | None, Some p => p_id p | None, None => 0 end.
Definition oasg (ps : list pinfo) (o : option pod) : bool :=
  match o with Some p => asg_pod ps (p_id p) | None => false end.

(* updatePodRequestNoLock (one atomic section: the path locks are held for the whole walk) *)
Definition pod_req_sec (s : state) (q : Z) (old new : option pod) : state :=
  if exists_q s q then
    let d := vsub (oreq new) (oreq old) in
    let dnp := vsub (onp new) (onp old) in
    (* ghost: this pod now counts with new's request *)
    let s0 := upd_pod s q (oid old new) (fun pi =>
                mkPI (pi_id pi) (pi_asg pi) (oreq new) (onp new) (pi_aused pi) (pi_anpused pi)) in
    if viszero d && viszero dnp then s0 else delta_req s0 q d dnp true
  else s.

(* updatePodUsedNoLock *)
Definition pod_used_sec (s : state) (q : Z) (old new : option pod) : state :=
  if exists_q s q then
    if negb (oasg (st_p s q) new) && negb (oasg (st_p s q) old) then s
    else
      let d := vsub (oreq new) (oreq old) in
      let dnp := vsub (onp new) (onp old) in
      let s0 := upd_pod s q (oid old new) (fun pi =>
                  mkPI (pi_id pi) (pi_asg pi) (pi_areq pi) (pi_anp pi) (oreq new) (onp new)) in
      if viszero d && viszero dnp then s0 else delta_used s0 q d dnp true
  else s.

(* ---------- pod handlers ---------- *)

(* tail shared by OnPodAdd and both add branches of OnPodUpdate *)
Definition add_new_pod (s : state) (q : Z) (p : pod) : state :=
  let s1 := pod_req_sec (cache_add s q (p_id p)) q None (Some p) in
  if p_bound p && negb (is_asg s1 q (p_id p))
  then pod_used_sec (set_asg s1 q (p_id p) true) q None (Some p)
  else s1.

Definition on_pod_add (s : state) (q : Z) (p : pod) : state :=
  if p_ign p then s
  else if exists_q s q && negb (has_pod (st_p s q) (p_id p)) then add_new_pod s q p else s.

Definition remove_pod_req_first (s : state) (q : Z) (p : pod) : state :=
  let s1 := pod_req_sec s q (Some p) None in
  let s2 := if is_asg s1 q (p_id p) then pod_used_sec s1 q (Some p) None else s1 in
  cache_del s2 q (p_id p).

Definition on_pod_delete (s : state) (q : Z) (p : pod) : state :=
  if exists_in s q (p_id p) then remove_pod_req_first s q p else s.

Definition on_pod_update (s : state) (qn qo : Z) (pn po : pod) : state :=
  if qo =? qn then
    if exists_q s qn then
      if negb (p_ign pn) then
        let s1 := if has_pod (st_p s qn) (p_id pn)
                  then pod_req_sec s qn (Some po) (Some pn)
                  else pod_req_sec (cache_add s qn (p_id pn)) qn None (Some pn) in
        if is_asg s1 qn (p_id pn) then pod_used_sec s1 qn (Some po) (Some pn)
        else if p_bound pn
             then pod_used_sec (set_asg s1 qn (p_id pn) true) qn None (Some pn)
             else s1
      else if has_pod (st_p s qn) (p_id po) then remove_pod_req_first s qo po else s
    else s
  else
    let s1 := if exists_in s qo (p_id po) then
                let s' := if is_asg s qo (p_id po) then pod_used_sec s qo (Some po) None else s in
                cache_del (pod_req_sec s' qo (Some po) None) qo (p_id po)
              else s in
    if exists_q s1 qn && negb (has_pod (st_p s1 qn) (p_id pn)) && negb (p_ign pn)
    then add_new_pod s1 qn pn else s1.

Definition reserve_pod (s : state) (q : Z) (p : pod) : state :=
  if exists_in s q (p_id p) && negb (is_asg s q (p_id p))
  then pod_used_sec (set_asg s q (p_id p) true) q None (Some p)
  else s.

Definition unreserve_pod (s : state) (q : Z) (p : pod) : state :=
  if exists_in s q (p_id p) && is_asg s q (p_id p)
  then set_asg (pod_used_sec s q (Some p) None) q (p_id p) false
  else s.

(* MigratePod (the code dereferences a nil quota when [qin] does not exist; the model is the
   identity on the missing side) *)
Definition migrate_pod (s : state) (p : pod) (qout qin : Z) : state :=
  let a := is_asg s qout (p_id p) in
  let s1 := pod_req_sec s qout (Some p) None in
  let s2 := if a then pod_used_sec s1 qout (Some p) None else s1 in
  let s3 := cache_del s2 qout (p_id p) in
  let s4 := cache_add s3 qin (p_id p) in
  let s5 := set_asg s4 qin (p_id p) a in
  let s6 := pod_req_sec s5 qin None (Some p) in
  if a then pod_used_sec s6 qin None (Some p) else s6.

(* ---------- quota handlers ---------- *)

(* doUpdateOneGroupMaxQuotaNoLock *)
Definition do_update_max (s : state) (n : Z) (m : vec) : state :=
  match pathf (st_sh s) n, find (st_sh s) n with
  | _ :: rest, Some q =>
      let q' := mkQ (q_name q) (q_parent q) (q_isparent q) (q_lend q) m (q_min q) in
      let sh' := upd_sh (st_sh s) n (fun _ => q') in
      let r := st_r s n in
      mkSt sh' (walk_req sh' (st_r s) rest (vsub (lim q' r) (lim q r)) vzero false) (st_u s) (st_p s)
  | _, _ => s
  end.

(* doUpdateOneGroupMinQuotaNoLock *)
Definition do_update_min (s : state) (n : Z) (m : vec) : state :=
  match pathf (st_sh s) n, find (st_sh s) n with
  | _ :: rest, Some q =>
      let q' := mkQ (q_name q) (q_parent q) (q_isparent q) (q_lend q) (q_max q) m in
      let sh' := upd_sh (st_sh s) n (fun _ => q') in
      let r := st_r s n in
      let r' := mkR (freq q' (r_creq r)) (r_creq r) (r_sreq r) (r_np r) (r_snp r) in
      mkSt sh' (walk_req sh' (fupd (st_r s) n r') rest (vsub (lim q' r') (lim q' r)) vzero false)
           (st_u s) (st_p s)
  | _, _ => s
  end.

(* deleteQuotaNoLock (the entry leaves the map with its aggregates and its PodCache) *)
Definition delete_quota (s : state) (n : Z) : state :=
  match find (st_sh s) n with
  | None => s
  | Some q =>
      let r := st_r s n in
      let u := st_u s n in
      let s1 := mkSt (remove_sh (st_sh s) n) (fupd (st_r s) n r0) (fupd (st_u s) n u0) (fupd (st_p s) n []) in
      let d := vsub vzero (lim q r) in
      let dnp := vsub vzero (r_np r) in
      let s2 := if negb (viszero d) || negb (viszero dnp) then delta_req s1 (q_parent q) d dnp false else s1 in
      let du := vsub vzero (u_used u) in
      let dnpu := vsub vzero (u_np u) in
      if negb (viszero du) || negb (viszero dnpu) then delta_used s2 (q_parent q) du dnpu false else s2
  end.

(* a quota entry as NewQuotaInfo makes it: no max, no min, zero aggregates *)
Definition add_blank (s : state) (q : qshape) (pods : list pinfo) : state :=
  let n := q_name q in
  mkSt (st_sh s ++ [mkQ n (q_parent q) (q_isparent q) (q_lend q) vzero vzero])
       (fupd (st_r s) n r0) (fupd (st_u s) n u0) (fupd (st_p s) n pods).

(* updateQuotaInternalNoLock; [sp] = the fields NewQuotaInfoFromQuota reads of the ElasticQuota
   object (shared weight does not enter the accounting) *)
Definition update_internal (s : state) (sp : qshape) (old : option qshape) : state :=
  let n := q_name sp in
  let s1 := match old with Some _ => s | None => add_blank s sp [] end in
  let max_changed := match old with Some o => negb (veqb (q_max sp) (q_max o)) | None => true end in
  let s2 := if max_changed then do_update_max s1 n (q_max sp) else s1 in
  let min_changed := match old with Some o => negb (veqb (q_min sp) (q_min o)) | None => true end in
  if min_changed then do_update_min s2 n (q_min sp) else s2.

(* updateQuotaNoLockWhenParentChange *)
Definition parent_change (s : state) (sp : qshape) : state :=
  let n := q_name sp in
  match find (st_sh s) n with
  | None => s
  | Some old =>
      let ro := st_r s n in
      let uo := st_u s n in
      let s1 := delete_quota s n in
      let s2 := add_blank s1 sp (st_p s n) in
      let s3 := do_update_max s2 n (q_max sp) in
      let s4 := do_update_min s3 n (q_min sp) in
      let s5 := if negb (viszero (r_sreq ro)) || negb (viszero (r_snp ro))
                then delta_req s4 n (r_sreq ro) (r_snp ro) true else s4 in
      let dc := vsub (r_creq ro) (r_sreq ro) in
      let dcnp := vsub (r_np ro) (r_snp ro) in
      let s6 := if q_isparent old && (negb (viszero dc) || negb (viszero dcnp))
                then delta_req s5 n dc dcnp false else s5 in
      let s7 := if negb (viszero (u_sused uo)) || negb (viszero (u_snp uo))
                then delta_used s6 n (u_sused uo) (u_snp uo) true else s6 in
      let du := vsub (u_used uo) (u_sused uo) in
      let dunp := vsub (u_np uo) (u_snp uo) in
      if q_isparent old && (negb (viszero du) || negb (viszero dunp))
      then delta_used s7 n du dunp false else s7
  end.

Definition special (n : Z) : bool := (n =? 1) || (n =? 2).

(* what rebuildAllGroupQuotaNoLock re-adds for a quota *)
Definition saved_of (s : state) (q : qshape) : Z * (vec * vec * vec * vec) :=
  let r := st_r s (q_name q) in let u := st_u s (q_name q) in
  (q_name q,
   if q_isparent q then (r_sreq r, r_snp r, u_sused u, u_snp u)
   else (r_creq r, r_np r, u_used u, u_np u)).

Definition readd (st : state) (x : Z * (vec * vec * vec * vec)) : state :=
  let '(n, (a, b, c, d)) := x in
  delta_used (delta_req st n a b true) n c d true.

(* resetQuotaNoLock: every quota of the topology (all but system/default) is cleared
   (clearForResetNoLock), then its own amounts are propagated again. The code walks a Go map;
   the model walks the list. *)
Definition reset (s : state) : state :=
  let topo := filter (fun q => negb (special (q_name q))) (st_sh s) in
  let s0 := mkSt (st_sh s)
                 (fun n => if special n then st_r s n else r0)
                 (fun n => if special n then st_u s n else u0) (st_p s) in
  fold_left readd (map (saved_of s) topo) s0.

(* updateQuotaInfoFromRemote *)
Definition from_remote (sp : qshape) (q : qshape) : qshape :=
  mkQ (q_name q) (q_parent sp) (q_isparent sp) (q_lend sp) (q_max sp) (q_min sp).

(* UpdateQuota *)
Definition update_quota (s : state) (sp : qshape) : state :=
  let n := q_name sp in
  match find (st_sh s) n with
  | None => update_internal s sp None
  | Some loc =>
      let meta_same := Bool.eqb (q_lend loc) (q_lend sp) && Bool.eqb (q_isparent loc) (q_isparent sp)
                       && (q_parent loc =? q_parent sp) in
      if meta_same then update_internal s sp (Some loc)
      else if negb (q_parent loc =? q_parent sp) then parent_change s sp
      else reset (set_sh s (upd_sh (st_sh s) n (from_remote sp)))
  end.

(* ---------- operations ---------- *)

Inductive op :=
| OpPodAdd (q : Z) (p : pod)
| OpPodUpdate (qn qo : Z) (pn po : pod)
| OpPodDelete (q : Z) (p : pod)
| OpReserve (q : Z) (p : pod)
| OpUnreserve (q : Z) (p : pod)
| OpMigrate (p : pod) (qout qin : Z)
| OpQuotaUpdate (sp : qshape)
| OpQuotaDelete (n : Z)
| OpReset
| OpNode.            (* OnNodeAdd/Update/Delete: cluster total only *)

Definition step (s : state) (o : op) : state :=
  match o with
  | OpPodAdd q p => on_pod_add s q p
  | OpPodUpdate qn qo pn po => on_pod_update s qn qo pn po
  | OpPodDelete q p => on_pod_delete s q p
  | OpReserve q p => reserve_pod s q p
  | OpUnreserve q p => unreserve_pod s q p
  | OpMigrate p a b => migrate_pod s p a b
  | OpQuotaUpdate sp => update_quota s sp
  | OpQuotaDelete n => delete_quota s n
  | OpReset => reset s
  | OpNode => s
  end.

(* NewGroupQuotaManager(""): system and default quota under the root *)
Definition init (sysmax defmax : vec) : state :=
  mkSt [ mkQ 1 0 false true sysmax vzero; mkQ 2 0 false true defmax vzero ]
       (fun _ => r0) (fun _ => u0) (fun _ => []).

Definition run (s : state) (h : list op) : state := fold_left step h s.

(* every intermediate state, in order (what the harness observes after each operation) *)
Fixpoint trace (s : state) (h : list op) : list state :=
  match h with
  | [] => []
  | o :: t => let s' := step s o in s' :: trace s' t
  end.

End WithDim.
