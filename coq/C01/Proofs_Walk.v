(* C01 — the delta propagation re-establishes the local equations along the ancestor chain. *)
From Coq Require Import List ZArith Bool Lia.
From Verif Require Import Lib.VecN C01.Model C01.Spec C01.Proofs_Base.
Import ListNotations.
Open Scope Z_scope.

Section WithDim.
Context {D : Dim}.

Definition PosR (sh : list qshape) (R : Z -> racc) : Prop :=
  forall q, In q sh -> nonneg_r (R (q_name q)) = true.
Definition PosU (sh : list qshape) (U : Z -> uacc) : Prop :=
  forall q, In q sh -> nonneg_u (U (q_name q)) = true.
Definition ValsOk (sh : list qshape) : Prop :=
  forall q, In q sh -> vnonneg (q_max q) /\ vnonneg (q_min q).

Lemma req_node_pos q d dnp self r :
  vnonneg (q_min q) -> nonneg_r r = true -> nonneg_r (req_node q d dnp self r) = true.
Proof.
  intros Hm Hr. apply nonneg_r_iff in Hr. destruct Hr as (H1 & H2 & H3 & H4 & H5).
  apply nonneg_r_iff. unfold req_node. cbn [r_req r_creq r_sreq r_np r_snp].
  refine (conj _ (conj _ (conj _ (conj _ _)))).
  - apply freq_nonneg; [exact Hm | apply vclamp_is_nonneg].
  - apply vclamp_is_nonneg.
  - destruct self; [apply vclamp_is_nonneg | exact H3].
  - apply vclamp_is_nonneg.
  - destruct self; [apply vclamp_is_nonneg | exact H5].
Qed.

Lemma used_node_pos d dnp self u : nonneg_u u = true -> nonneg_u (used_node d dnp self u) = true.
Proof.
  intros Hu. apply nonneg_u_iff in Hu. destruct Hu as (H1 & H2 & H3 & H4).
  apply nonneg_u_iff. unfold used_node. cbn [u_used u_sused u_np u_snp].
  refine (conj _ (conj _ (conj _ _))); try apply vclamp_is_nonneg; destruct self; try apply vclamp_is_nonneg; assumption.
Qed.

Lemma limR_nonneg sh R : ValsOk sh -> PosR sh R -> forall c, In c sh -> vnonneg (limR R c).
Proof. intros Hv Hp c Hc. unfold limR. apply lim_nonneg; [apply Hv; exact Hc | apply Hp; exact Hc]. Qed.
Lemma npR_nonneg sh R : PosR sh R -> forall c, In c sh -> vnonneg (npR R c).
Proof. intros Hp c Hc. specialize (Hp c Hc). apply nonneg_r_iff in Hp. unfold npR. tauto. Qed.
Lemma usedU_nonneg sh U : PosU sh U -> forall c, In c sh -> vnonneg (usedU U c).
Proof. intros Hp c Hc. specialize (Hp c Hc). apply nonneg_u_iff in Hp. unfold usedU. tauto. Qed.
Lemma unpU_nonneg sh U : PosU sh U -> forall c, In c sh -> vnonneg (unpU U c).
Proof. intros Hp c Hc. specialize (Hp c Hc). apply nonneg_u_iff in Hp. unfold unpU. tauto. Qed.

Lemma reaches_head sh n l : reaches sh n l -> n <> 0 -> exists t, l = n :: t.
Proof. intros H Hn. inversion H; subst; [congruence | eexists; reflexivity]. Qed.

Lemma reaches_inv sh n l : reaches sh n l -> n <> 0 ->
  exists q t, find sh n = Some q /\ l = n :: t /\ reaches sh (q_parent q) t.
Proof. intros H Hn. destruct H as [|n q l Hn' Hf Hr]; [congruence | eauto]. Qed.

Definition tl_ok {A} (l : list A) : list A := match l with [] => [] | _ :: t => t end.

Section WalkReq.
  Variable sh : list qshape.
  Hypothesis Hnd : NoDup (names sh).
  Hypothesis Hnz : forall q, In q sh -> q_name q <> 0.
  Hypothesis Hvals : ValsOk sh.

  Lemma walk_req_spec n l : reaches sh n l -> forall R d dnp self,
    PosR sh R ->
    let R' := walk_req sh R l d dnp self in
    (forall m, ~ In m l -> R' m = R m) /\
    PosR sh R' /\
    (forall m q, In m l -> find sh m = Some q -> okB R' q) /\
    (forall q, In q sh -> q_name q <> n -> okA sh R q -> okA sh R' q) /\
    ((n <> 0 -> vnonneg (vadd (r_np (R n)) dnp)) ->
     (forall q, In q sh -> In (q_name q) (tl_ok l) -> okN sh R q) ->
     forall q, In q sh -> q_name q <> n -> okN sh R q -> okN sh R' q) /\
    (forall q, find sh n = Some q -> R' n = req_node q d dnp self (R n)) /\
    sumc sh (limR R') n = sumc sh (limR R) n /\ sumc sh (npR R') n = sumc sh (npR R) n.
  Proof.
    induction 1 as [|n q l' Hn Hf Hr IH]; intros R d dnp self Hpos.
    - cbn [walk_req]. refine (conj _ (conj _ (conj _ (conj _ (conj _ (conj _ (conj _ _))))))); auto.
      + intros m q [].
      + intros q Hq. exfalso. apply (Hnz q); [eapply find_in; eauto | eapply find_name; eauto].
    - cbn [walk_req]. rewrite Hf.
      set (r' := req_node q d dnp self (R n)).
      set (R1 := fupd R n r').
      set (d' := vsub (lim q r') (lim q (R n))).
      set (p := q_parent q) in *.
      assert (Hqin : In q sh) by (eapply find_in; eauto).
      assert (Hqn : q_name q = n) by (eapply find_name; eauto).
      assert (Hchain : reaches sh n (n :: l')) by (econstructor; eauto).
      assert (Hnl : ~ In n l') by (pose proof (reaches_nodup _ _ _ Hchain) as Hd; inversion Hd; assumption).
      assert (Hpos1 : PosR sh R1).
      { intros c Hc. unfold R1, fupd. destruct (q_name c =? n) eqn:E; [|apply Hpos; exact Hc].
        apply req_node_pos; [apply Hvals; exact Hqin | rewrite <- Hqn; apply Hpos; exact Hqin]. }
      specialize (IH R1 d' dnp false Hpos1). cbn zeta in IH.
      set (R' := walk_req sh R1 l' d' dnp false) in *.
      destruct IH as (IHfr & IHpos & IHb & IHa & IHn & IHst & IHsl & IHsn).
      assert (HR'n : R' n = r').
      { rewrite (IHfr n Hnl). unfold R1. apply fupd_same. }
      assert (Hlim1 : forall m, sumc sh (limR R1) m =
                if p =? m then vadd (vsub (sumc sh (limR R) m) (limR R q)) (limR R1 q) else sumc sh (limR R) m).
      { intros m. apply (sumc_change sh (limR R) (limR R1) m n q Hnd Hf).
        intros c Hc Hcn. unfold limR, R1. rewrite fupd_other by exact Hcn. reflexivity. }
      assert (Hnp1 : forall m, sumc sh (npR R1) m =
                if p =? m then vadd (vsub (sumc sh (npR R) m) (npR R q)) (npR R1 q) else sumc sh (npR R) m).
      { intros m. apply (sumc_change sh (npR R) (npR R1) m n q Hnd Hf).
        intros c Hc Hcn. unfold npR, R1. rewrite fupd_other by exact Hcn. reflexivity. }
      assert (HlimRq : limR R q = lim q (R n)) by (unfold limR; rewrite Hqn; reflexivity).
      assert (HlimR1q : limR R1 q = lim q r') by (unfold limR, R1; rewrite Hqn, fupd_same; reflexivity).
      assert (HnpRq : npR R q = r_np (R n)) by (unfold npR; rewrite Hqn; reflexivity).
      assert (HnpR1q : npR R1 q = r_np r') by (unfold npR, R1; rewrite Hqn, fupd_same; reflexivity).
      refine (conj _ (conj _ (conj _ (conj _ (conj _ (conj _ (conj _ _))))))).
      + (* frame *)
        intros m Hm. rewrite IHfr by (intros H; apply Hm; right; exact H).
        unfold R1. apply fupd_other. intros ->. apply Hm. left. reflexivity.
      + exact IHpos.
      + (* okB on the chain *)
        intros m qm [<-|Hm] Hfm.
        * rewrite Hf in Hfm. injection Hfm as <-. unfold okB. rewrite Hqn, HR'n. reflexivity.
        * eapply IHb; eauto.
      + (* okA elsewhere *)
        intros q0 Hq0 Hne HA.
        destruct (Z.eq_dec (q_name q0) p) as [Hp|Hp].
        * assert (Hfp : find sh p = Some q0) by (rewrite <- Hp; apply in_find; assumption).
          assert (Hpn : p <> n) by (rewrite <- Hp; exact Hne).
          specialize (IHst q0 Hfp).
          unfold okA in *. rewrite Hp in *. rewrite IHsl, IHst.
          specialize (Hlim1 p). rewrite Z.eqb_refl in Hlim1.
          assert (HS1 : vnonneg (sumc sh (limR R1) p))
            by (apply sumc_nonneg; apply limR_nonneg; assumption).
          assert (Hsp : vnonneg (r_sreq (R p))).
          { pose proof (Hpos q0 Hq0) as Hx. rewrite Hp in Hx. apply nonneg_r_iff in Hx. tauto. }
          unfold R1 at 1 2. rewrite fupd_other by exact Hpn.
          unfold req_node. cbn [r_creq r_sreq].
          rewrite Hlim1, HlimRq, HlimR1q in *.
          revert HA HS1 Hsp. unfold d'.
          generalize (sumc sh (limR R) p) (r_creq (R p)) (r_sreq (R p)) (lim q r') (lim q (R n)).
          clear. intros. subst. vlia.
        * apply IHa; [exact Hq0 | exact Hp |].
          unfold okA in *. rewrite Hlim1.
          apply Z.eqb_neq in Hp. rewrite Z.eqb_sym in Hp. rewrite Hp.
          unfold R1. rewrite !fupd_other by exact Hne. exact HA.
      + (* okN elsewhere *)
        intros Hnc Hanc q0 Hq0 Hne HN. cbn [tl_ok] in Hanc.
        specialize (Hnc Hn).
        assert (Hnpn : r_np r' = vadd (r_np (R n)) dnp).
        { unfold r', req_node. cbn [r_np]. apply vclamp_nonneg. exact Hnc. }
        assert (Htr : forall qx, In qx sh -> q_name qx <> n -> q_name qx <> p -> okN sh R qx -> okN sh R1 qx).
        { intros qx Hx Hxn Hxp H. unfold okN in *. rewrite Hnp1.
          apply Z.eqb_neq in Hxp. rewrite Z.eqb_sym in Hxp. rewrite Hxp.
          unfold R1. rewrite !fupd_other by exact Hxn. exact H. }
        assert (HpN : forall qp, In qp sh -> q_name qp = p -> okN sh R qp ->
                  vadd (r_np (R p)) dnp = vadd (r_snp (R p)) (sumc sh (npR R1) p)).
        { intros qp Hqp Hpp H. unfold okN in H. rewrite Hpp in H.
          specialize (Hnp1 p). rewrite Z.eqb_refl in Hnp1. rewrite Hnp1, HnpRq, HnpR1q, Hnpn.
          revert H. generalize (sumc sh (npR R) p) (r_np (R p)) (r_snp (R p)) (r_np (R n)).
          clear. intros. subst. vlia. }
        assert (HS1 : vnonneg (sumc sh (npR R1) p))
          by (apply sumc_nonneg; apply npR_nonneg; assumption).
        assert (IHn' : forall qx, In qx sh -> q_name qx <> p -> okN sh R1 qx -> okN sh R' qx).
        { apply IHn.
          - intros Hp0. destruct (reaches_inv _ _ _ Hr Hp0) as (qp & t & Hfp & Ht & Hrp).
            assert (Hqpin : In qp sh) by (eapply find_in; eauto).
            assert (Hqpn : q_name qp = p) by (eapply find_name; eauto).
            assert (Hpn : p <> n) by (intros E; apply Hnl; rewrite <- E, Ht; left; reflexivity).
            unfold R1. rewrite fupd_other by exact Hpn.
            rewrite (HpN qp Hqpin Hqpn).
            + apply vnonneg_add; [|exact HS1].
              pose proof (Hpos qp Hqpin) as Hx. rewrite Hqpn in Hx. apply nonneg_r_iff in Hx. tauto.
            + apply Hanc; [exact Hqpin | rewrite Hqpn, Ht; left; reflexivity].
          - intros qx Hx Hin.
            assert (Hin' : In (q_name qx) l').
            { destruct l' as [|a t]; [destruct Hin | right; exact Hin]. }
            apply Htr; [exact Hx | intros E; apply Hnl; rewrite <- E; exact Hin' | | apply Hanc; assumption].
            intros E. destruct l' as [|a t]; [destruct Hin|]. cbn [tl_ok] in Hin.
            pose proof (reaches_nodup _ _ _ Hr) as Hd. inversion Hd as [|? ? Ha Ht].
            assert (Hp0 : p <> 0) by (rewrite <- E; apply Hnz; exact Hx).
            destruct (reaches_inv _ _ _ Hr Hp0) as (qp & t' & Hfp & Ht' & Hrp).
            injection Ht' as Hap _. apply Ha. rewrite Hap, <- E. exact Hin. }
        destruct (Z.eq_dec (q_name q0) p) as [Hp|Hp].
        * assert (Hfp : find sh p = Some q0) by (rewrite <- Hp; apply in_find; assumption).
          assert (Hpn : p <> n) by (rewrite <- Hp; exact Hne).
          specialize (IHst q0 Hfp).
          pose proof (HpN q0 Hq0 Hp HN) as Heq.
          assert (Hsp : vnonneg (r_snp (R p))).
          { pose proof (Hpos q0 Hq0) as Hx. rewrite Hp in Hx. apply nonneg_r_iff in Hx. tauto. }
          unfold okN. rewrite Hp. rewrite IHsn, IHst.
          unfold R1 at 1 2. rewrite fupd_other by exact Hpn.
          unfold req_node. cbn [r_np r_snp].
          revert Heq HS1 Hsp. generalize (sumc sh (npR R1) p) (r_np (R p)) (r_snp (R p)).
          clear. intros. vlia.
        * apply IHn'; [exact Hq0 | exact Hp | apply Htr; assumption].
      + (* the start node *)
        intros q2 Hf2. injection Hf2 as <-. exact HR'n.
      + (* sums over the children of n *)
        apply sumc_ext. intros c Hc Hcp. unfold limR. f_equal.
        assert (Hcn : ~ In (q_name c) (n :: l')).
        { apply (child_not_in_chain sh n (n :: l') c Hchain);
            [apply in_find; assumption | apply Hnz; exact Hc | exact Hcp]. }
        rewrite IHfr by (intros H; apply Hcn; right; exact H).
        unfold R1. apply fupd_other. intros E. apply Hcn. left. symmetry. exact E.
      + apply sumc_ext. intros c Hc Hcp. unfold npR. f_equal.
        assert (Hcn : ~ In (q_name c) (n :: l')).
        { apply (child_not_in_chain sh n (n :: l') c Hchain);
            [apply in_find; assumption | apply Hnz; exact Hc | exact Hcp]. }
        rewrite IHfr by (intros H; apply Hcn; right; exact H).
        unfold R1. apply fupd_other. intros E. apply Hcn. left. symmetry. exact E.
  Qed.
End WalkReq.

Section WalkUsed.
  Variable sh : list qshape.
  Hypothesis Hnd : NoDup (names sh).
  Hypothesis Hnz : forall q, In q sh -> q_name q <> 0.

  Lemma walk_used_frame l : forall U d dnp self m, ~ In m l -> walk_used U l d dnp self m = U m.
  Proof.
    induction l as [|n l IH]; intros U d dnp self m Hm; [reflexivity|].
    cbn [walk_used]. rewrite IH by (intros H; apply Hm; right; exact H).
    apply fupd_other. intros ->. apply Hm. left. reflexivity.
  Qed.

  Lemma walk_used_pos l : forall U d dnp self, PosU sh U -> PosU sh (walk_used U l d dnp self).
  Proof.
    induction l as [|n l IH]; intros U d dnp self Hp; [exact Hp|].
    cbn [walk_used]. apply IH. intros c Hc. unfold fupd.
    destruct (q_name c =? n) eqn:E; [|apply Hp; exact Hc].
    apply Z.eqb_eq in E. apply used_node_pos. rewrite <- E. apply Hp. exact Hc.
  Qed.

  (* one additive component (used with its delta, or non-preemptible used with its delta) *)
  Variables (proj selfp : uacc -> vec) (pick : vec -> vec -> vec).
  Hypothesis Hproj : forall d dnp self u, proj (used_node d dnp self u) = vclamp (vadd (proj u) (pick d dnp)).
  Hypothesis Hselfp : forall d dnp u, selfp (used_node d dnp false u) = selfp u.
  Hypothesis Hprojpos : forall u, nonneg_u u = true -> vnonneg (proj u) /\ vnonneg (selfp u).

  Definition projU (U : Z -> uacc) (c : qshape) : vec := proj (U (q_name c)).
  Definition okG (U : Z -> uacc) (q : qshape) : Prop :=
    proj (U (q_name q)) = vadd (selfp (U (q_name q))) (sumc sh (projU U) (q_name q)).

  Lemma walk_used_comp n l : reaches sh n l -> forall U d dnp self,
    PosU sh U ->
    let U' := walk_used U l d dnp self in
    ((n <> 0 -> vnonneg (vadd (proj (U n)) (pick d dnp))) ->
     (forall q, In q sh -> In (q_name q) (tl_ok l) -> okG U q) ->
     forall q, In q sh -> q_name q <> n -> okG U q -> okG U' q) /\
    (n <> 0 -> U' n = used_node d dnp self (U n)) /\
    sumc sh (projU U') n = sumc sh (projU U) n.
  Proof.
    induction 1 as [|n q l' Hn Hf Hr IH]; intros U d dnp self Hpos.
    - cbn [walk_used]. refine (conj _ (conj _ _)); auto. congruence.
    - cbn [walk_used].
      set (u' := used_node d dnp self (U n)).
      set (U1 := fupd U n u').
      set (p := q_parent q) in *.
      assert (Hqin : In q sh) by (eapply find_in; eauto).
      assert (Hqn : q_name q = n) by (eapply find_name; eauto).
      assert (Hchain : reaches sh n (n :: l')) by (econstructor; eauto).
      assert (Hnl : ~ In n l') by (pose proof (reaches_nodup _ _ _ Hchain) as Hd; inversion Hd; assumption).
      assert (Hpos1 : PosU sh U1).
      { intros c Hc. unfold U1, fupd. destruct (q_name c =? n) eqn:E; [|apply Hpos; exact Hc].
        apply used_node_pos. rewrite <- Hqn. apply Hpos. exact Hqin. }
      specialize (IH U1 d dnp false Hpos1). cbn zeta in IH.
      set (U' := walk_used U1 l' d dnp false) in *.
      destruct IH as (IHg & IHst & IHs).
      assert (HU'n : U' n = u').
      { unfold U'. rewrite walk_used_frame by exact Hnl. unfold U1. apply fupd_same. }
      assert (Hs1 : forall m, sumc sh (projU U1) m =
                if p =? m then vadd (vsub (sumc sh (projU U) m) (projU U q)) (projU U1 q) else sumc sh (projU U) m).
      { intros m. apply (sumc_change sh (projU U) (projU U1) m n q Hnd Hf).
        intros c Hc Hcn. unfold projU, U1. rewrite fupd_other by exact Hcn. reflexivity. }
      assert (HpUq : projU U q = proj (U n)) by (unfold projU; rewrite Hqn; reflexivity).
      assert (HpU1q : projU U1 q = proj u') by (unfold projU, U1; rewrite Hqn, fupd_same; reflexivity).
      refine (conj _ (conj _ _)).
      + intros Hnc Hanc q0 Hq0 Hne HG. cbn [tl_ok] in Hanc.
        specialize (Hnc Hn).
        assert (Hpn' : proj u' = vadd (proj (U n)) (pick d dnp)).
        { unfold u'. rewrite Hproj. apply vclamp_nonneg. exact Hnc. }
        assert (Htr : forall qx, In qx sh -> q_name qx <> n -> q_name qx <> p -> okG U qx -> okG U1 qx).
        { intros qx Hx Hxn Hxp H. unfold okG in *. rewrite Hs1.
          apply Z.eqb_neq in Hxp. rewrite Z.eqb_sym in Hxp. rewrite Hxp.
          unfold U1. rewrite !fupd_other by exact Hxn. exact H. }
        assert (HpG : forall qp, In qp sh -> q_name qp = p -> okG U qp ->
                  vadd (proj (U p)) (pick d dnp) = vadd (selfp (U p)) (sumc sh (projU U1) p)).
        { intros qp Hqp Hpp H. unfold okG in H. rewrite Hpp in H.
          specialize (Hs1 p). rewrite Z.eqb_refl in Hs1. rewrite Hs1, HpUq, HpU1q, Hpn'.
          revert H. generalize (sumc sh (projU U) p) (proj (U p)) (selfp (U p)) (proj (U n)) (pick d dnp).
          clear. intros. subst. vlia. }
        assert (HS1 : vnonneg (sumc sh (projU U1) p)).
        { apply sumc_nonneg. intros c Hc. unfold projU. apply Hprojpos. apply Hpos1. exact Hc. }
        assert (IHg' : forall qx, In qx sh -> q_name qx <> p -> okG U1 qx -> okG U' qx).
        { apply IHg.
          - intros Hp0. destruct (reaches_inv _ _ _ Hr Hp0) as (qp & t & Hfp & Ht & Hrp).
            assert (Hqpin : In qp sh) by (eapply find_in; eauto).
            assert (Hqpn : q_name qp = p) by (eapply find_name; eauto).
            assert (Hpn : p <> n) by (intros E; apply Hnl; rewrite <- E, Ht; left; reflexivity).
            unfold U1. rewrite fupd_other by exact Hpn.
            rewrite (HpG qp Hqpin Hqpn).
            + apply vnonneg_add; [|exact HS1].
              pose proof (Hpos qp Hqpin) as Hx. rewrite Hqpn in Hx. apply Hprojpos in Hx. tauto.
            + apply Hanc; [exact Hqpin | rewrite Hqpn, Ht; left; reflexivity].
          - intros qx Hx Hin.
            assert (Hin' : In (q_name qx) l').
            { destruct l' as [|a t]; [destruct Hin | right; exact Hin]. }
            apply Htr; [exact Hx | intros E; apply Hnl; rewrite <- E; exact Hin' | | apply Hanc; assumption].
            intros E. destruct l' as [|a t]; [destruct Hin|]. cbn [tl_ok] in Hin.
            pose proof (reaches_nodup _ _ _ Hr) as Hd. inversion Hd as [|? ? Ha Ht].
            assert (Hp0 : p <> 0) by (rewrite <- E; apply Hnz; exact Hx).
            destruct (reaches_inv _ _ _ Hr Hp0) as (qp & t' & Hfp & Ht' & Hrp).
            injection Ht' as Hap _. apply Ha. rewrite Hap, <- E. exact Hin. }
        destruct (Z.eq_dec (q_name q0) p) as [Hp|Hp].
        * assert (Hp0 : p <> 0) by (rewrite <- Hp; apply Hnz; exact Hq0).
          assert (Hpn : p <> n) by (rewrite <- Hp; exact Hne).
          specialize (IHst Hp0).
          pose proof (HpG q0 Hq0 Hp HG) as Heq.
          assert (Hsp : vnonneg (selfp (U p))).
          { pose proof (Hpos q0 Hq0) as Hx. rewrite Hp in Hx. apply Hprojpos in Hx. tauto. }
          unfold okG. rewrite Hp. rewrite IHs, IHst.
          unfold U1 at 1 2. rewrite fupd_other by exact Hpn.
          rewrite Hproj, Hselfp.
          revert Heq HS1 Hsp. generalize (sumc sh (projU U1) p) (proj (U p)) (selfp (U p)) (pick d dnp).
          clear. intros. vlia.
        * apply IHg'; [exact Hq0 | exact Hp | apply Htr; assumption].
      + intros _. exact HU'n.
      + apply sumc_ext. intros c Hc Hcp. unfold projU. f_equal.
        assert (Hcn : ~ In (q_name c) (n :: l')).
        { apply (child_not_in_chain sh n (n :: l') c Hchain);
            [apply in_find; assumption | apply Hnz; exact Hc | exact Hcp]. }
        unfold U'. rewrite walk_used_frame by (intros H; apply Hcn; right; exact H).
        unfold U1. apply fupd_other. intros E. apply Hcn. left. symmetry. exact E.
  Qed.
End WalkUsed.

(* the two instances *)
Lemma walk_used_U sh n l : NoDup (names sh) -> (forall q, In q sh -> q_name q <> 0) ->
  reaches sh n l -> forall U d dnp self, PosU sh U ->
  let U' := walk_used U l d dnp self in
  ((n <> 0 -> vnonneg (vadd (u_used (U n)) d)) ->
   (forall q, In q sh -> In (q_name q) (tl_ok l) -> okU sh U q) ->
   forall q, In q sh -> q_name q <> n -> okU sh U q -> okU sh U' q) /\
  (n <> 0 -> U' n = used_node d dnp self (U n)) /\
  sumc sh (usedU U') n = sumc sh (usedU U) n.
Proof.
  intros Hnd Hnz Hr U d dnp self Hpos.
  apply (walk_used_comp sh Hnd Hnz u_used u_sused (fun a _ => a)); auto.
  intros u Hu. apply nonneg_u_iff in Hu. tauto.
Qed.

Lemma walk_used_UN sh n l : NoDup (names sh) -> (forall q, In q sh -> q_name q <> 0) ->
  reaches sh n l -> forall U d dnp self, PosU sh U ->
  let U' := walk_used U l d dnp self in
  ((n <> 0 -> vnonneg (vadd (u_np (U n)) dnp)) ->
   (forall q, In q sh -> In (q_name q) (tl_ok l) -> okUN sh U q) ->
   forall q, In q sh -> q_name q <> n -> okUN sh U q -> okUN sh U' q) /\
  (n <> 0 -> U' n = used_node d dnp self (U n)) /\
  sumc sh (unpU U') n = sumc sh (unpU U) n.
Proof.
  intros Hnd Hnz Hr U d dnp self Hpos.
  apply (walk_used_comp sh Hnd Hnz u_np u_snp (fun _ b => b)); auto.
  intros u Hu. apply nonneg_u_iff in Hu. tauto.
Qed.

End WithDim.
