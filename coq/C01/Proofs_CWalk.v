(* C01 — the guarded propagations ("if the delta is not zero then walk") as single steps, in
   individual form. *)
From Coq Require Import List ZArith Bool Lia.
From Verif Require Import Lib.VecN C01.Model C01.Spec C01.Proofs_Base C01.Proofs_Walk C01.Proofs_Delta.
Import ListNotations.
Open Scope Z_scope.

Section WithDim.
Context {D : Dim}.

Definition nz2 (d dnp : vec) : bool := negb (viszero d) || negb (viszero dnp).

Lemma nz2_false d dnp : nz2 d dnp = false -> d = vzero /\ dnp = vzero.
Proof.
  unfold nz2. intros H. apply orb_false_elim in H. destruct H as [H1 H2].
  apply negb_false_iff in H1. apply negb_false_iff in H2.
  apply viszero_eq in H1. apply viszero_eq in H2. auto.
Qed.

Definition cwalk_req (sh : list qshape) (R : Z -> racc) (n : Z) (d dnp : vec) (self : bool) : Z -> racc :=
  if nz2 d dnp then walk_req sh R (pathf sh n) d dnp self else R.
Definition cwalk_used (sh : list qshape) (U : Z -> uacc) (n : Z) (d dnp : vec) (self : bool) : Z -> uacc :=
  if nz2 d dnp then walk_used U (pathf sh n) d dnp self else U.

Lemma pathf_zero sh : (forall q, In q sh -> q_name q <> 0) -> pathf sh 0 = [].
Proof.
  intros Hnz. unfold pathf. cbn [path]. destruct (find sh 0) as [q|] eqn:E; [|reflexivity].
  exfalso. apply (Hnz q); [eapply find_in; eauto | eapply find_name; eauto].
Qed.

Section CWalk.
  Variable sh : list qshape.
  Hypothesis Hnd : NoDup (names sh).
  Hypothesis Hnz : forall q, In q sh -> q_name q <> 0.
  Hypothesis Hvals : ValsOk sh.

  Lemma cwalk_req_root R d dnp self : cwalk_req sh R 0 d dnp self = R.
  Proof. unfold cwalk_req. rewrite (pathf_zero sh Hnz). destruct (nz2 d dnp); reflexivity. Qed.
  Lemma cwalk_used_root U d dnp self : cwalk_used sh U 0 d dnp self = U.
  Proof. unfold cwalk_used. rewrite (pathf_zero sh Hnz). destruct (nz2 d dnp); reflexivity. Qed.

  Lemma cwalk_req_ind n l q R d dnp self :
    reaches sh n l -> find sh n = Some q -> PosR sh R -> okB R q ->
    (forall q0, In q0 sh -> In (q_name q0) (tl_ok l) -> okN sh R q0) ->
    vnonneg (vadd (r_creq (R n)) d) -> vnonneg (vadd (r_np (R n)) dnp) ->
    (self = true -> vnonneg (vadd (r_sreq (R n)) d) /\ vnonneg (vadd (r_snp (R n)) dnp)) ->
    let R' := cwalk_req sh R n d dnp self in
    PosR sh R' /\
    (forall q0, In q0 sh -> okB R q0 -> okB R' q0) /\
    (forall q0, In q0 sh -> q_name q0 <> n -> okA sh R q0 -> okA sh R' q0) /\
    (forall q0, In q0 sh -> q_name q0 <> n -> okN sh R q0 -> okN sh R' q0) /\
    R' n = mkR (freq q (vadd (r_creq (R n)) d)) (vadd (r_creq (R n)) d)
               (if self then vadd (r_sreq (R n)) d else r_sreq (R n))
               (vadd (r_np (R n)) dnp)
               (if self then vadd (r_snp (R n)) dnp else r_snp (R n)) /\
    sumc sh (limR R') n = sumc sh (limR R) n /\ sumc sh (npR R') n = sumc sh (npR R) n /\
    (forall m, m <> n -> r_sreq (R' m) = r_sreq (R m) /\ r_snp (R' m) = r_snp (R m)) /\
    (forall m, ~ In m l -> R' m = R m).
  Proof.
    intros Hr Hf Hpos HBn Hanc Hc Hnp Hself R'. unfold R', cwalk_req.
    destruct (nz2 d dnp) eqn:Enz.
    - rewrite (pathf_reaches sh n l Hnd Hnz Hr).
      destruct (walk_req_ind sh Hnd Hnz Hvals n l q R d dnp self Hr Hf Hpos Hanc Hc Hnp Hself)
        as (H1 & H2 & H3 & H4 & H5 & H6 & H7 & H8 & H9).
      refine (conj H1 (conj _ (conj H3 (conj H4 (conj H5 (conj H6 (conj H7 (conj H8 H9)))))))).
      intros q0 Hq0 HB. apply H2; auto.
    - destruct (nz2_false _ _ Enz) as [-> ->].
      refine (conj Hpos (conj (fun _ _ H => H) (conj (fun _ _ _ H => H) (conj (fun _ _ _ H => H) (conj _ (conj eq_refl (conj eq_refl (conj (fun _ _ => conj eq_refl eq_refl) (fun _ _ => eq_refl))))))))).
      unfold okB in HBn. rewrite (find_name _ _ _ Hf) in HBn. rewrite !vadd_0_r, <- HBn.
      destruct self; destruct (R n); reflexivity.
  Qed.

  Lemma cwalk_used_ind n l q U d dnp self :
    reaches sh n l -> find sh n = Some q -> PosU sh U ->
    (forall q0, In q0 sh -> In (q_name q0) (tl_ok l) -> okU sh U q0 /\ okUN sh U q0) ->
    vnonneg (vadd (u_used (U n)) d) -> vnonneg (vadd (u_np (U n)) dnp) ->
    (self = true -> vnonneg (vadd (u_sused (U n)) d) /\ vnonneg (vadd (u_snp (U n)) dnp)) ->
    let U' := cwalk_used sh U n d dnp self in
    PosU sh U' /\
    (forall q0, In q0 sh -> q_name q0 <> n -> okU sh U q0 -> okU sh U' q0) /\
    (forall q0, In q0 sh -> q_name q0 <> n -> okUN sh U q0 -> okUN sh U' q0) /\
    U' n = mkU (vadd (u_used (U n)) d) (if self then vadd (u_sused (U n)) d else u_sused (U n))
               (vadd (u_np (U n)) dnp) (if self then vadd (u_snp (U n)) dnp else u_snp (U n)) /\
    sumc sh (usedU U') n = sumc sh (usedU U) n /\ sumc sh (unpU U') n = sumc sh (unpU U) n /\
    (forall m, m <> n -> u_sused (U' m) = u_sused (U m) /\ u_snp (U' m) = u_snp (U m)) /\
    (forall m, ~ In m l -> U' m = U m).
  Proof.
    intros Hr Hf Hpos Hanc Hc Hnp Hself U'. unfold U', cwalk_used.
    destruct (nz2 d dnp) eqn:Enz.
    - rewrite (pathf_reaches sh n l Hnd Hnz Hr).
      apply (walk_used_ind sh Hnd Hnz n l q U d dnp self Hr Hf Hpos Hanc Hc Hnp Hself).
    - destruct (nz2_false _ _ Enz) as [-> ->].
      refine (conj Hpos (conj (fun _ _ _ H => H) (conj (fun _ _ _ H => H) (conj _ (conj eq_refl (conj eq_refl (conj (fun _ _ => conj eq_refl eq_refl) (fun _ _ => eq_refl)))))))).
      rewrite !vadd_0_r. destruct self; destruct (U n); reflexivity.
  Qed.
End CWalk.

End WithDim.
