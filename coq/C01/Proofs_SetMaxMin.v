(* C01 — doUpdateOneGroupMaxQuotaNoLock / doUpdateOneGroupMinQuotaNoLock on the request side:
   the change of the quota's max-limited request is handed up the chain. "All but ex" form: the
   quota named [ex] (the one being re-attached, or nobody) is exempt from the equations. *)
From Coq Require Import List ZArith Bool Lia.
From Verif Require Import Lib.VecN C01.Model C01.Spec C01.Proofs_Base C01.Proofs_Walk C01.Proofs_Delta
  C01.Proofs_Shape.
Import ListNotations.
Open Scope Z_scope.

Section WithDim.
Context {D : Dim}.

Definition with_max (q : qshape) (m : vec) : qshape :=
  mkQ (q_name q) (q_parent q) (q_isparent q) (q_lend q) m (q_min q).
Definition with_min (q : qshape) (m : vec) : qshape :=
  mkQ (q_name q) (q_parent q) (q_isparent q) (q_lend q) (q_max q) m.

Definition AllBut (sh : list qshape) (R : Z -> racc) (ex : Z) : Prop :=
  forall q0, In q0 sh -> q_name q0 <> ex -> okA sh R q0 /\ okN sh R q0 /\ okB R q0.

Section SetShape.
  Variable sh : list qshape.
  Hypothesis Hshape : ShapeOk sh.
  Variables (n : Z) (q q' : qshape) (rest : list Z).
  Hypothesis Hf : find sh n = Some q.
  Hypothesis Hchain : reaches sh n (n :: rest).
  Hypothesis Hname : q_name q' = q_name q.
  Hypothesis Hpar : q_parent q' = q_parent q.
  Hypothesis Hisp : q_isparent q' = q_isparent q.
  Hypothesis Hmax : vnonneg (q_max q').
  Hypothesis Hmin : vnonneg (q_min q').

  Let sh' := upd_sh sh n (fun _ => q').
  Let par := q_parent q.

  Lemma setshape_shape : ShapeOk sh'.
  Proof.
    apply (shape_upd sh n q q' Hshape Hf Hname Hpar Hmax Hmin).
    destruct (q_isparent q') eqn:E; [left; reflexivity|]. right. intros c Hc Hpc.
    destruct (so_par _ Hshape c Hc) as [H0|[_ [pq [Hfp Hip]]]].
    - assert (n <> 0) by (rewrite <- (find_name _ _ _ Hf); apply (shape_nonzero _ Hshape); eapply find_in; eauto). congruence.
    - rewrite Hpc, Hf in Hfp. injection Hfp as <-. congruence.
  Qed.

  Lemma setshape_in x : In x sh' <-> exists c, In c sh /\ x = (if q_name c =? n then q' else c).
  Proof.
    unfold sh', upd_sh. rewrite in_map_iff. split; intros [c [H1 H2]]; exists c; auto.
  Qed.

  (* an entry of the new list that is not n is an entry of the old list *)
  Lemma setshape_in_other x : In x sh' -> q_name x <> n -> In x sh.
  Proof.
    intros Hx Hne. apply setshape_in in Hx. destruct Hx as [c [Hc ->]].
    destruct (q_name c =? n) eqn:E; [|exact Hc].
    exfalso. apply Hne. rewrite Hname. eapply find_name; eauto.
  Qed.
  Lemma setshape_in_n x : In x sh' -> q_name x = n -> x = q'.
  Proof.
    intros Hx He. apply setshape_in in Hx. destruct Hx as [c [Hc ->]].
    destruct (q_name c =? n) eqn:E; [reflexivity|]. apply Z.eqb_neq in E. contradiction.
  Qed.
  Lemma setshape_old_in x : In x sh -> q_name x <> n -> In x sh'.
  Proof.
    intros Hx Hne. apply setshape_in. exists x. split; [exact Hx|].
    apply Z.eqb_neq in Hne. rewrite Hne. reflexivity.
  Qed.

  Section Step.
    Variables (R R0 : Z -> racc) (r' : racc) (ex : Z).
    Hypothesis HR0 : forall m, m <> n -> R0 m = R m.
    Hypothesis HR0n : R0 n = r'.
    Hypothesis Hpos : PosR sh R.
    Hypothesis Hr'pos : nonneg_r r' = true.
    Hypothesis Hall : AllBut sh R ex.
    Hypothesis Hex : ~ In ex rest.
    Hypothesis Hc' : r_creq r' = r_creq (R n).
    Hypothesis Hs' : r_sreq r' = r_sreq (R n).
    Hypothesis Hn' : r_np r' = r_np (R n).
    Hypothesis Hsn' : r_snp r' = r_snp (R n).

    Let d := vsub (lim q' r') (lim q (R n)).
    Let R' := walk_req sh' R0 rest d vzero false.

    Lemma set_step :
      PosR sh' R' /\
      (forall x, In x sh' -> q_name x <> ex -> q_name x <> n -> okA sh' R' x /\ okN sh' R' x /\ okB R' x) /\
      (n <> ex -> okA sh' R' q' /\ okN sh' R' q') /\
      R' n = r' /\
      (forall m, m <> n -> r_sreq (R' m) = r_sreq (R m) /\ r_snp (R' m) = r_snp (R m)) /\
      (forall m, m <> n -> ~ In m rest -> R' m = R m).
    Proof.
      pose proof setshape_shape as Hshape'.
      pose proof (so_nodup _ Hshape) as Hnd.
      pose proof (so_nodup _ Hshape') as Hnd'.
      pose proof (shape_nonzero _ Hshape') as Hnz'.
      pose proof (shape_nonzero _ Hshape) as Hnz.
      assert (Hvals' : ValsOk sh') by (intros x Hx; apply (so_vals _ Hshape' x Hx)).
      assert (Hqn : q_name q = n) by (eapply find_name; eauto).
      assert (Hq'n : q_name q' = n) by congruence.
      assert (Hn0 : n <> 0) by (rewrite <- Hqn; apply Hnz; eapply find_in; eauto).
      assert (Hnrest : ~ In n rest) by (pose proof (reaches_nodup _ _ _ Hchain) as Hd; inversion Hd; assumption).
      assert (Hpos0 : PosR sh' R0).
      { intros x Hx. destruct (Z.eq_dec (q_name x) n) as [E|E]; [rewrite E, HR0n; exact Hr'pos|].
        rewrite (HR0 _ E). apply Hpos. apply setshape_in_other; assumption. }
      (* sums in the new shape with R0, in terms of the old *)
      assert (Hsl : forall m, sumc sh' (limR R0) m =
                if par =? m then vadd (sumc sh (limR R) m) d else sumc sh (limR R) m).
      { intros m. unfold sh'. rewrite (sumc_upd_const sh n q q' Hnd Hf Hname Hpar (limR R0) m).
        rewrite (sumc_change sh (limR R) (limR R0) m n q Hnd Hf)
          by (intros c Hc Hcn; unfold limR; rewrite HR0 by exact Hcn; reflexivity).
        fold par. destruct (par =? m); [|reflexivity].
        unfold limR at 2 3 4 5. rewrite Hqn, Hq'n, HR0n. unfold d.
        generalize (sumc sh (limR R) m) (lim q (R n)) (lim q r') (lim q' r'). clear. intros. vlia. }
      assert (Hsn : forall m, sumc sh' (npR R0) m = sumc sh (npR R) m).
      { intros m. unfold sh'. rewrite (sumc_upd_const sh n q q' Hnd Hf Hname Hpar (npR R0) m).
        rewrite (sumc_change sh (npR R) (npR R0) m n q Hnd Hf)
          by (intros c Hc Hcn; unfold npR; rewrite HR0 by exact Hcn; reflexivity).
        destruct (q_parent q =? m); [|reflexivity].
        unfold npR at 2 3 4 5. rewrite Hqn, Hq'n, HR0n, Hn'.
        generalize (sumc sh (npR R) m) (r_np (R n)). clear. intros. vlia. }
      (* equations for the quotas other than n, ex and the parent *)
      assert (H0 : forall x, In x sh' -> q_name x <> ex -> q_name x <> n ->
                (q_name x <> par -> okA sh' R0 x) /\ okN sh' R0 x /\ okB R0 x).
      { intros x Hx Hxe Hxn. pose proof (setshape_in_other x Hx Hxn) as Hx0.
        destruct (Hall x Hx0 Hxe) as (HA & HN & HB).
        unfold okA, okN, okB in *. rewrite Hsl, Hsn, (HR0 _ Hxn). refine (conj _ (conj HN HB)).
        intros Hp. apply Z.eqb_neq in Hp. rewrite Z.eqb_sym in Hp. rewrite Hp. exact HA. }
      assert (H0n : n <> ex -> n <> par -> okA sh' R0 q' /\ okN sh' R0 q').
      { intros Hne Hnp. destruct (Hall q (find_in _ _ _ Hf) ltac:(rewrite Hqn; exact Hne)) as (HA & HN & _).
        unfold okA, okN in *. rewrite Hq'n, Hsl, Hsn, HR0n, Hc', Hs', Hn', Hsn'. rewrite Hqn in HA, HN.
        apply Z.eqb_neq in Hnp. rewrite Z.eqb_sym in Hnp. rewrite Hnp. auto. }
      destruct (Z.eq_dec par 0) as [Hp0|Hp0].
      - (* top-level quota *)
        assert (Hrest : rest = []).
        { pose proof Hchain as Hc0. destruct (reaches_inv _ _ _ Hc0 Hn0) as (q2 & t & Hf2 & Ht & Hr2).
          injection Ht as <-. rewrite Hf in Hf2. injection Hf2 as <-. fold par in Hr2. rewrite Hp0 in Hr2.
          inversion Hr2; [reflexivity | congruence]. }
        assert (ER : R' = R0) by (unfold R'; rewrite Hrest; reflexivity).
        rewrite ER. refine (conj Hpos0 (conj _ (conj _ (conj HR0n (conj _ _))))).
        + intros x Hx Hxe Hxn. destruct (H0 x Hx Hxe Hxn) as (HA & HN & HB).
          refine (conj (HA _) (conj HN HB)). rewrite Hp0. apply Hnz'. exact Hx.
        + intros Hne. apply H0n; [exact Hne | rewrite Hp0; exact Hn0].
        + intros m Hm. rewrite (HR0 _ Hm). auto.
        + intros m Hm _. apply HR0. exact Hm.
      - (* the parent and its ancestors *)
        pose proof Hchain as Hc0. destruct (reaches_inv _ _ _ Hc0 Hn0) as (q2 & t & Hf2 & Ht & Hrp).
        injection Ht as <-. rewrite Hf in Hf2. injection Hf2 as <-. fold par in Hrp.
        destruct (reaches_inv _ _ _ Hrp Hp0) as (qp & t & Hfp & Ht & _).
        assert (Hpin : In par rest) by (rewrite Ht; left; reflexivity).
        assert (Hpn : par <> n) by (intros E; apply Hnrest; rewrite <- E; exact Hpin).
        assert (Hpe : par <> ex) by (intros E; apply Hex; rewrite <- E; exact Hpin).
        assert (Hqpin : In qp sh) by (eapply find_in; eauto).
        assert (Hqpn : q_name qp = par) by (eapply find_name; eauto).
        assert (Hfp' : find sh' par = Some qp).
        { unfold sh'. rewrite (upd_const_find_other sh n q q' Hnd Hf Hname Hpar par Hpn). exact Hfp. }
        assert (Hrp' : reaches sh' par rest).
        { eapply reaches_ext; [|exact Hrp]. intros x. unfold sh'.
          destruct (Z.eq_dec x n) as [->|E].
          - rewrite Hf, (upd_const_find_same sh n q q' Hf Hname Hpar). congruence.
          - rewrite (upd_const_find_other sh n q q' Hnd Hf Hname Hpar x E). destruct (find sh x); auto. }
        destruct (Hall qp Hqpin ltac:(rewrite Hqpn; exact Hpe)) as (HAp & HNp & HBp).
        unfold okA in HAp. unfold okN in HNp. rewrite Hqpn in HAp, HNp.
        pose proof (Hsl par) as Hslp. rewrite Z.eqb_refl in Hslp.
        assert (HS1 : vnonneg (sumc sh' (limR R0) par)) by (apply sumc_nonneg; apply limR_nonneg; assumption).
        assert (Hposp : nonneg_r (R par) = true) by (rewrite <- Hqpn; apply Hpos; exact Hqpin).
        apply nonneg_r_iff in Hposp. destruct Hposp as (_ & _ & Hps & Hpnp & _).
        destruct (walk_req_ind sh' Hnd' Hnz' Hvals' par rest qp R0 d vzero false Hrp' Hfp' Hpos0)
          as (W1 & W2 & W3 & W4 & W5 & W6 & W7 & W8 & W9).
        { intros x Hx Hin.
          assert (Hxr : In (q_name x) rest) by (rewrite Ht; right; rewrite Ht in Hin; exact Hin).
          apply (H0 x Hx); [intros E; apply Hex; rewrite <- E; exact Hxr | intros E; apply Hnrest; rewrite <- E; exact Hxr]. }
        { rewrite (HR0 _ Hpn), HAp. rewrite Hslp in HS1.
          revert HS1 Hps. generalize (r_sreq (R par)) (sumc sh (limR R) par) d. clear. intros x1 x2 x3 H1 H2. vlia. }
        { rewrite (HR0 _ Hpn), vadd_0_r. exact Hpnp. }
        { discriminate. }
        fold R' in W1, W2, W3, W4, W5, W6, W7, W8, W9.
        refine (conj W1 (conj _ (conj _ (conj _ (conj _ _))))).
        + intros x Hx Hxe Hxn. destruct (H0 x Hx Hxe Hxn) as (HA & HN & HB).
          destruct (Z.eq_dec (q_name x) par) as [E|E].
          * assert (x = qp) by (rewrite <- E in Hfp'; rewrite (in_find _ _ Hnd' Hx) in Hfp'; congruence). subst x.
            refine (conj _ (conj _ _)).
            -- unfold okA. rewrite Hqpn, W5, W6. cbn [r_creq r_sreq]. rewrite (HR0 _ Hpn), Hslp, HAp.
               generalize (r_sreq (R par)) (sumc sh (limR R) par) d. clear. intros x1 x2 x3. vlia.
            -- unfold okN. rewrite Hqpn, W5, W7. cbn [r_np r_snp]. rewrite (HR0 _ Hpn), Hsn, vadd_0_r. exact HNp.
            -- apply W2; [exact Hx | right; rewrite Hqpn; exact Hpin].
          * refine (conj (W3 x Hx E (HA E)) (conj (W4 x Hx E HN) _)). apply W2; [exact Hx | left; exact HB].
        + intros Hne. destruct (H0n Hne (not_eq_sym Hpn)) as [HA HN].
          assert (Hq'in : In q' sh').
          { apply setshape_in. exists q. split; [eapply find_in; eauto | rewrite Hqn, Z.eqb_refl; reflexivity]. }
          split; [apply W3 | apply W4]; auto; rewrite Hq'n; exact (not_eq_sym Hpn).
        + rewrite (W9 n Hnrest). exact HR0n.
        + intros m Hm. destruct (Z.eq_dec m par) as [->|E].
          * rewrite W5. cbn [r_sreq r_snp]. rewrite (HR0 _ Hpn). auto.
          * destruct (W8 m E) as [E1 E2]. rewrite E1, E2, (HR0 _ Hm). auto.
        + intros m Hm Hnin. rewrite (W9 m Hnin). apply HR0. exact Hm.
    Qed.
  End Step.
End SetShape.

End WithDim.
