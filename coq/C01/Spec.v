(* C01 — the property.

   From-scratch recomputation: from the surviving objects only (quota attributes, tree shape,
   the pods of every PodCache with their assigned flag and the request they currently count
   with) recompute every figure GetQuotaSummaries reports; the property is that the
   incrementally maintained figures equal the recomputed ones, are non-negative, and that no pod
   sits in two caches.

   [state_code] is the decision procedure (0 = holds, otherwise the number of the first failing
   clause); [state_ok] the Prop; [state_code_ok] connects them. [wf_op] is the informer
   discipline under which the property is claimed (boolean, evaluated on the model state). *)
From Coq Require Import List ZArith Bool Lia.
From Verif Require Import Lib.VecN C01.Model.
Import ListNotations.
Open Scope Z_scope.

Section WithDim.
Context {D : Dim}.

(* ---------- from-scratch recomputation ---------- *)

Definition children (sh : list qshape) (n : Z) : list qshape := filter (fun c => q_parent c =? n) sh.

Definition self_req (ps : list pinfo) : vec := vsum (map pi_areq ps).
Definition self_np (ps : list pinfo) : vec := vsum (map pi_anp ps).
Definition self_used (ps : list pinfo) : vec := vsum (map pi_aused ps).
Definition self_npused (ps : list pinfo) : vec := vsum (map pi_anpused ps).

(* ChildRequest: own pods plus the max-limited, min-raised request of every child *)
Fixpoint rc_creq (fuel : nat) (s : state) (q : qshape) : vec :=
  match fuel with
  | O => vzero
  | S f => vadd (self_req (st_p s (q_name q)))
                (vsum (map (fun c => vmin (freq c (rc_creq f s c)) (q_max c)) (children (st_sh s) (q_name q))))
  end.
Definition rc_req (fuel : nat) (s : state) (q : qshape) : vec := freq q (rc_creq fuel s q).

(* plain subtree sums: used, non-preemptible used, non-preemptible request *)
Fixpoint rc_sum (g : list pinfo -> vec) (fuel : nat) (s : state) (q : qshape) : vec :=
  match fuel with
  | O => vzero
  | S f => vadd (g (st_p s (q_name q))) (vsum (map (rc_sum g f s) (children (st_sh s) (q_name q))))
  end.

Definition fuel_of (s : state) : nat := S (length (st_sh s)).

(* a pod that is assigned counts its request as used, one that is not counts nothing *)
Definition pi_quiet (pi : pinfo) : bool :=
  if pi_asg pi then veqb (pi_aused pi) (pi_areq pi) && veqb (pi_anpused pi) (pi_anp pi)
  else viszero (pi_aused pi) && viszero (pi_anpused pi).

Definition all_pod_ids (s : state) : list Z :=
  flat_map (fun q => map pi_id (st_p s (q_name q))) (st_sh s).

Fixpoint nodupb (l : list Z) : bool :=
  match l with
  | [] => true
  | x :: t => negb (existsb (Z.eqb x) t) && nodupb t
  end.

Definition nonneg_r (r : racc) : bool :=
  vnonnegb (r_req r) && vnonnegb (r_creq r) && vnonnegb (r_sreq r) && vnonnegb (r_np r) && vnonnegb (r_snp r).
Definition nonneg_u (u : uacc) : bool :=
  vnonnegb (u_used u) && vnonnegb (u_sused u) && vnonnegb (u_np u) && vnonnegb (u_snp u).

(* clause numbers *)
Definition quota_code (s : state) (q : qshape) : Z :=
  let r := st_r s (q_name q) in let u := st_u s (q_name q) in let ps := st_p s (q_name q) in
  let f := fuel_of s in
  if negb (veqb (r_sreq r) (self_req ps)) then 1
  else if negb (veqb (r_snp r) (self_np ps)) then 2
  else if negb (veqb (u_sused u) (self_used ps)) then 3
  else if negb (veqb (u_snp u) (self_npused ps)) then 4
  else if negb (veqb (r_creq r) (rc_creq f s q)) then 5
  else if negb (veqb (r_req r) (rc_req f s q)) then 6
  else if negb (veqb (r_np r) (rc_sum self_np f s q)) then 7
  else if negb (veqb (u_used u) (rc_sum self_used f s q)) then 8
  else if negb (veqb (u_np u) (rc_sum self_npused f s q)) then 9
  else if negb (nonneg_r r && nonneg_u u) then 10
  else if negb (forallb pi_quiet ps) then 12
  else 0.

Fixpoint first_code (l : list Z) : Z :=
  match l with
  | [] => 0
  | c :: t => if c =? 0 then first_code t else c
  end.

Definition state_code (s : state) : Z :=
  if negb (nodupb (all_pod_ids s)) then 11
  else first_code (map (quota_code s) (st_sh s)).

(* the Prop *)
Definition quota_ok (s : state) (q : qshape) : Prop :=
  let r := st_r s (q_name q) in let u := st_u s (q_name q) in let ps := st_p s (q_name q) in
  let f := fuel_of s in
  r_sreq r = self_req ps /\ r_snp r = self_np ps /\
  u_sused u = self_used ps /\ u_snp u = self_npused ps /\
  r_creq r = rc_creq f s q /\ r_req r = rc_req f s q /\
  r_np r = rc_sum self_np f s q /\
  u_used u = rc_sum self_used f s q /\ u_np u = rc_sum self_npused f s q /\
  (nonneg_r r && nonneg_u u = true) /\ forallb pi_quiet ps = true.

Definition state_ok (s : state) : Prop :=
  NoDup (all_pod_ids s) /\ forall q, In q (st_sh s) -> quota_ok s q.

(* ---------- informer discipline ---------- *)

Definition find_pod (s : state) (q id : Z) : option pinfo :=
  if exists_q s q then List.find (fun pi => pi_id pi =? id) (st_p s q) else None.

(* the object handed in for a pod cached in q carries what that pod currently counts with *)
Definition matches (s : state) (q : Z) (p : pod) : bool :=
  match find_pod s q (p_id p) with
  | Some pi => veqb (pi_areq pi) (p_req p) && veqb (pi_anp pi) (p_npreq p)
  | None => true
  end.

Definition nowhere_else (s : state) (q id : Z) : bool :=
  forallb (fun x => (q_name x =? q) || negb (has_pod (st_p s (q_name x)) id)) (st_sh s).

Definition has_children (sh : list qshape) (n : Z) : bool := existsb (fun c => q_parent c =? n) sh.

Definition parent_ok (sh : list qshape) (p : Z) : bool :=
  (p =? 0) || match find sh p with Some pq => (3 <=? p) && q_isparent pq | None => false end.

Definition wf_op (s : state) (o : op) : bool :=
  match o with
  | OpPodAdd q p => vnonnegb (p_req p) && matches s q p && nowhere_else s q (p_id p)
  | OpPodUpdate qn qo pn po =>
      (p_id pn =? p_id po) && vnonnegb (p_req pn) && matches s qo po && nowhere_else s qo (p_id po)
  | OpPodDelete q p => matches s q p
  | OpReserve q p => matches s q p
  | OpUnreserve q p => matches s q p
  | OpMigrate p qout qin =>
      exists_in s qout (p_id p) && matches s qout p && nowhere_else s qout (p_id p)
      && exists_q s qin
  | OpQuotaUpdate sp =>
      let n := q_name sp in let sh := st_sh s in
      (3 <=? n) && vnonnegb (q_max sp) && vnonnegb (q_min sp)
      && parent_ok sh (q_parent sp)
      && negb (existsb (Z.eqb n) (pathf sh (q_parent sp))) && negb (q_parent sp =? n)
      && (q_isparent sp || negb (has_children sh n))
  | OpQuotaDelete n => (3 <=? n) && negb (has_children (st_sh s) n)
  | OpReset => true
  | OpNode => true
  end.

Fixpoint wf_history (s : state) (h : list op) : bool :=
  match h with
  | [] => true
  | o :: t => wf_op s o && wf_history (step s o) t
  end.

Definition wf_init (sysmax defmax : vec) : bool := vnonnegb sysmax && vnonnegb defmax.

(* ---------- the quota objects the history delivered ---------- *)

(* the attributes GetQuotaSummaries must report for every quota are those of the ElasticQuota
   object delivered last (the two built-in quotas keep what the constructor gave them); this is
   recomputed from the history alone, never from the manager's own bookkeeping *)
Definition sset (sh : list qshape) (sp : qshape) : list qshape :=
  match find sh (q_name sp) with
  | Some _ => upd_sh sh (q_name sp) (fun _ => sp)
  | None => sh ++ [sp]
  end.

Definition sstep (sh : list qshape) (o : op) : list qshape :=
  match o with
  | OpQuotaUpdate sp => sset sh sp
  | OpQuotaDelete n => remove_sh sh n
  | _ => sh
  end.

Definition spec_shapes (sh : list qshape) (h : list op) : list qshape := fold_left sstep h sh.

Definition qshape_eqb (a b : qshape) : bool :=
  (q_name a =? q_name b) && (q_parent a =? q_parent b) && Bool.eqb (q_isparent a) (q_isparent b)
  && Bool.eqb (q_lend a) (q_lend b) && veqb (q_max a) (q_max b) && veqb (q_min a) (q_min b).

(* [got] lists exactly the quotas of [want], with the same attributes *)
Definition shapes_eqb (got want : list qshape) : bool :=
  Nat.eqb (length got) (length want)
  && forallb (fun q => match find want (q_name q) with Some q' => qshape_eqb q q' | None => false end) got.

End WithDim.
