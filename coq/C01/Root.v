(* C01 — the root entry (koordinator-root-quota) of the quotaInfoMap.

   The root entry is not a quota of the tree model (Model.v: name 0 is "above everything" and is
   never stored) and GetQuotaSummaries skips it, but it is a quota group of the manager: every
   propagation walk ends by handing its last delta to it (recursiveUpdateGroupTreeWithDeltaRequest
   returns after addRequestNonNegativeNoLock on the root; updateGroupDeltaUsedNoLock adds the same
   used delta on every list element, root included), and GetQuotaSummary("koordinator-root-quota")
   / GetQuotaInfoByName report its Request, NonPreemptibleRequest, Used and NonPreemptibleUsed (the
   elastic-quota controller writes them into the root ElasticQuota's status).

   This file adds these four accumulators on top of the tree model, at operation granularity:

   * an operation that does not rebuild the tree changes the root's Request by the sum of the final
     deltas of its walks. Every walk that reaches the root hands up the change of the max-limited
     request of the top-level quota it passed through (or, for a walk that starts at the root
     itself — a top-level quota leaves or is re-created —, the limited request of that quota), so
     the sum is the change of   Σ { min(Request c, Max c) | c directly under the root }   across
     the operation; the non-preemptible request and the two used figures receive the unchanged pod
     deltas, i.e. the change of the corresponding plain sums. Each addition is clamped at 0
     (add*NonNegativeNoLock).
   * resetQuotaNoLock (ResetQuota, or UpdateQuota with a changed lend / is-parent flag) first
     overwrites the root with system + default (resetRootQuotaUsedAndRequest — which reads their
     UNLIMITED Request) and then re-adds every quota of the topology from zero.

   No proofs in this file. *)
From Coq Require Import List ZArith Bool.
From Verif Require Import Lib.VecN C01.Model C01.Spec.
Import ListNotations.
Open Scope Z_scope.

Section WithDim.
Context {D : Dim}.

Record rootacc := mkRoot { ro_req : vec; ro_np : vec; ro_used : vec; ro_npu : vec }.

Definition root0 : rootacc := mkRoot vzero vzero vzero vzero.

Definition radd (a b : rootacc) : rootacc :=
  mkRoot (vadd (ro_req a) (ro_req b)) (vadd (ro_np a) (ro_np b))
         (vadd (ro_used a) (ro_used b)) (vadd (ro_npu a) (ro_npu b)).
Definition rsub (a b : rootacc) : rootacc :=
  mkRoot (vsub (ro_req a) (ro_req b)) (vsub (ro_np a) (ro_np b))
         (vsub (ro_used a) (ro_used b)) (vsub (ro_npu a) (ro_npu b)).
Definition rclamp (a : rootacc) : rootacc :=
  mkRoot (vclamp (ro_req a)) (vclamp (ro_np a)) (vclamp (ro_used a)) (vclamp (ro_npu a)).

(* sums of the reported figures over a list of quotas; [lr] = max-limited request or plain Request *)
Definition sum_over (s : state) (lr : qshape -> racc -> vec) (l : list qshape) : rootacc :=
  mkRoot (vsum (map (fun c => lr c (st_r s (q_name c))) l))
         (vsum (map (fun c => r_np (st_r s (q_name c))) l))
         (vsum (map (fun c => u_used (st_u s (q_name c))) l))
         (vsum (map (fun c => u_np (st_u s (q_name c))) l)).

Definition plain (_ : qshape) (r : racc) : vec := r_req r.

(* what the quotas directly under the root currently pass up *)
Definition phi (s : state) : rootacc := sum_over s lim (children (st_sh s) 0).

Definition is_special (q : qshape) : bool := special (q_name q).

(* resetRootQuotaUsedAndRequest: system + default, Request taken WITHOUT the max limit *)
Definition special_sum (s : state) : rootacc := sum_over s plain (filter is_special (st_sh s)).
(* ... followed by the re-add walks of the topology, which start from cleared quotas *)
Definition topo_phi (s : state) : rootacc :=
  sum_over s lim (filter (fun c => negb (is_special c)) (children (st_sh s) 0)).

(* does the operation run resetQuotaNoLock? (same case analysis as Model.update_quota) *)
Definition resets (s : state) (o : op) : bool :=
  match o with
  | OpReset => true
  | OpQuotaUpdate sp =>
      match find (st_sh s) (q_name sp) with
      | None => false
      | Some loc =>
          let meta_same := Bool.eqb (q_lend loc) (q_lend sp) && Bool.eqb (q_isparent loc) (q_isparent sp)
                           && (q_parent loc =? q_parent sp) in
          negb meta_same && (q_parent loc =? q_parent sp)
      end
  | _ => false
  end.

Definition root_step (s : state) (ro : rootacc) (o : op) : rootacc :=
  let s' := step s o in
  if resets s o then radd (special_sum s') (topo_phi s')
  else rclamp (radd ro (rsub (phi s') (phi s))).

(* the manager = tree model + root entry *)
Record xstate := mkX { x_s : state; x_root : rootacc }.

Definition xinit (sm dm : vec) : xstate := mkX (init sm dm) root0.
Definition xstep (x : xstate) (o : op) : xstate := mkX (step (x_s x) o) (root_step (x_s x) (x_root x) o).
Definition xrun (x : xstate) (h : list op) : xstate := fold_left xstep h x.
Fixpoint xtrace (x : xstate) (h : list op) : list xstate :=
  match h with
  | [] => []
  | o :: t => let x' := xstep x o in x' :: xtrace x' t
  end.

(* ---------- the property for the root entry ---------- *)

(* from-scratch figures of the root: recomputed from the pods of the caches only, with Spec.rc_creq and Spec.rc_sum *)
Definition rc_root (s : state) : rootacc :=
  let f := fuel_of s in let top := children (st_sh s) 0 in
  mkRoot (vsum (map (fun c => vmin (rc_req f s c) (q_max c)) top))
         (vsum (map (rc_sum self_np f s) top))
         (vsum (map (rc_sum self_used f s) top))
         (vsum (map (rc_sum self_npused f s) top)).

Definition root_code (s : state) (ro : rootacc) : Z :=
  let w := rc_root s in
  if negb (veqb (ro_req ro) (ro_req w)) then 15
  else if negb (veqb (ro_np ro) (ro_np w)) then 16
  else if negb (veqb (ro_used ro) (ro_used w)) then 17
  else if negb (veqb (ro_npu ro) (ro_npu w)) then 18
  else 0.

Definition root_ok (s : state) (ro : rootacc) : Prop := ro = rc_root s.

(* a rebuild is harmless for the root iff system and default are not max-limited at that moment *)
Definition benign (s : state) : bool :=
  forallb (fun c => veqb (lim c (st_r s (q_name c))) (r_req (st_r s (q_name c))))
          (filter is_special (st_sh s)).

Fixpoint benign_history (s : state) (h : list op) : bool :=
  match h with
  | [] => true
  | o :: t => (negb (resets s o) || benign (step s o)) && benign_history (step s o) t
  end.

End WithDim.
