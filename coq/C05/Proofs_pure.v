(* C05 — the input-quantified parts: restricted fit, no over-allocation, allocate-once gate,
   owner matching. *)
From Coq Require Import List ZArith Bool Lia.
From Verif Require Import C05.Model C05.Spec C05.Proofs_base.
Import ListNotations.
Open Scope Z_scope.

(* ---------- restricted fit ---------- *)
Lemma fits_dim_spec i req pre k : fits_dim i req pre k = true <-> dim_within i req pre k.
Proof.
  unfold fits_dim, dim_within. destruct (hask k req) eqn:Eh; cbn [negb orb].
  - destruct (getv k req =? 0) eqn:Ez.
    + apply Z.eqb_eq in Ez. split; [intros _ _ Hne; congruence|reflexivity].
    + apply Z.eqb_neq in Ez. rewrite Z.leb_le. split.
      * intros H _ _. exact H.
      * intros H. apply H; [reflexivity|exact Ez].
  - split; [intros _ H; discriminate H|reflexivity].
Qed.

Lemma fits_pods_spec i pre : fits_pods i pre = true <-> pods_within i pre.
Proof.
  unfold fits_pods, pods_within. destruct (hask PODS (r_allocatable i)).
  - rewrite Z.leb_le. split; [intros H _; exact H|intros H; apply H; reflexivity].
  - split; [intros _ H; discriminate H|reflexivity].
Qed.

Lemma filter_nil_iff {A} (f : A -> bool) l : filter f l = [] <-> forall x, In x l -> f x = false.
Proof.
  induction l as [|a t IH]; cbn.
  - split; [intros _ x []|reflexivity].
  - destruct (f a) eqn:E.
    + split; [discriminate|]. intros H. specialize (H a (or_introl eq_refl)). congruence.
    + rewrite IH. split.
      * intros H x [->|Hx]; [exact E|apply H, Hx].
      * intros H x Hx. apply H. right. exact Hx.
Qed.

Lemma restricted_fit i req pre : fits_reservation i req pre = [] <-> fits_spec i req pre.
Proof.
  unfold fits_reservation, fits_spec. split.
  - intros H. apply app_eq_nil in H. destruct H as [H1 H2]. split.
    + apply fits_pods_spec. destruct (fits_pods i pre); [reflexivity|discriminate H1].
    + intros k Hk. apply fits_dim_spec. rewrite filter_nil_iff in H2.
      specialize (H2 k Hk). apply negb_false_iff in H2. exact H2.
  - intros [Hp Hd]. apply fits_pods_spec in Hp. rewrite Hp. cbn [app].
    apply filter_nil_iff. intros k Hk. apply negb_false_iff. apply fits_dim_spec, Hd, Hk.
Qed.

Lemma fits_specb_spec i req pre : fits_specb i req pre = true <-> fits_spec i req pre.
Proof.
  unfold fits_specb, fits_spec. rewrite andb_true_iff, forallb_forall, fits_pods_spec.
  split; intros [H1 H2]; (split; [exact H1|]); intros k Hk; apply fits_dim_spec, H2, Hk.
Qed.

Lemma dispatch_policy i req pre :
  fits_node_and_reservation i req pre
  = if s_policy (r_spec i) =? 2 then fits_reservation i req pre else [].
Proof. reflexivity. Qed.

(* a pod let in by the restricted check (nothing preemptible) does not take the reservation
   over what it reserved, in any dimension the pod asks for, nor over its pod count *)
Lemma no_overalloc i u req pre :
  fits_reservation i req pre = [] ->
  (forall k, getv k pre = 0) ->
  has_assigned u i = false ->
  let i' := add_assigned i u req in
  within_after i req (r_allocated i') (n_assigned i').
Proof.
  intros Hfit Hpre Hfresh i'. apply restricted_fit in Hfit. destruct Hfit as [Hp Hd].
  unfold i', add_assigned. rewrite Hfresh. cbn [r_allocated]. split.
  - intros k Hk Hh Hpos. rewrite getv_radd, getv_rmask.
    assert (memZ k (r_names i) = true) as -> by (apply memZ_In; exact Hk).
    specialize (Hd k Hk Hh). rewrite Hpre in Hd.
    assert (Hne : getv k req <> 0) by lia. specialize (Hd Hne).
    destruct (hask k (r_allocated i)) eqn:Ea.
    + lia.
    + rewrite (getv_nohask _ _ Ea). lia.
  - intros Hh. unfold n_assigned. cbn [r_assigned]. rewrite app_length. cbn [length].
    specialize (Hp Hh). rewrite Hpre in Hp. unfold n_assigned in Hp. lia.
Qed.

Lemma within_afterb_spec i req alloc' n' :
  within_afterb i req alloc' n' = true <-> within_after i req alloc' n'.
Proof.
  unfold within_afterb, within_after. rewrite andb_true_iff, forallb_forall. split.
  - intros [H1 H2]. split.
    + intros k Hk Hh Hpos. specialize (H1 k Hk). rewrite Hh in H1.
      assert (0 <? getv k req = true) as E by (apply Z.ltb_lt; exact Hpos).
      rewrite E in H1. cbn in H1. apply Z.leb_le. exact H1.
    + intros Hh. rewrite Hh in H2. cbn in H2. apply Z.leb_le. exact H2.
  - intros [H1 H2]. split.
    + intros k Hk. destruct (hask k req) eqn:Hh; [|reflexivity].
      destruct (0 <? getv k req) eqn:E; [|reflexivity]. cbn.
      apply Z.leb_le. apply H1; [exact Hk|exact Hh|apply Z.ltb_lt; exact E].
    + destruct (hask PODS (r_allocatable i)) eqn:Hh; [|reflexivity]. cbn.
      apply Z.leb_le. apply H2. reflexivity.
Qed.

(* ---------- allocate-once ---------- *)
Lemma allocate_once_gate i :
  s_once (r_spec i) = true -> r_assigned i <> [] ->
  is_matchable i = false /\ nominate_gate i = false.
Proof.
  intros Ho Ha. unfold is_matchable, nominate_gate, once_used. rewrite Ho.
  destruct (r_assigned i); [congruence|]. cbn. rewrite !andb_false_r. auto.
Qed.

(* ---------- owner matching ---------- *)
Lemma fld_spec want have : fld want have = true <-> (want = 0 \/ want = have).
Proof.
  unfold fld. rewrite orb_true_iff, !Z.eqb_eq. reflexivity.
Qed.

Lemma match_obj_spec p r : match_obj p (Some r) = true <-> obj_ok p r.
Proof.
  unfold match_obj, obj_ok. rewrite !andb_true_iff, !fld_spec. tauto.
Qed.

Lemma match_oref_spec c o : match_oref c o = true <-> oref_ok c o.
Proof.
  unfold match_oref, oref_ok. rewrite !andb_true_iff, !fld_spec, orb_true_iff, andb_true_iff.
  rewrite negb_true_iff, !Z.eqb_eq, Z.eqb_neq. tauto.
Qed.

Lemma match_ctrl_spec p r : match_ctrl p (Some r) = true <-> ctrl_ok p r.
Proof.
  unfold match_ctrl, ctrl_ok. rewrite andb_true_iff, fld_spec, existsb_exists.
  split; intros [H1 [o [Ho Hm]]]; (split; [exact H1|]); exists o; (split; [exact Ho|]);
    apply match_oref_spec; exact Hm.
Qed.

Lemma match_req_spec labels q : match_req labels q = true <-> req_ok labels q.
Proof.
  unfold match_req, req_ok.
  destruct (q_op q) as [|[p|p|]|]; try (split; [discriminate|tauto]).
  - (* 0 *) rewrite andb_true_iff, memZ_In. reflexivity.
  - (* 2p+1: 1 or 3 *)
    destruct p as [p|p|].
    + split; [discriminate|tauto].
    + split; [discriminate|tauto].
    + (* 3 *) reflexivity.
  - (* 2p: 2 or 4 *)
    destruct p as [p|p|].
    + split; [discriminate|tauto].
    + destruct p; try (split; [discriminate|tauto]).
      (* 4 *) rewrite negb_true_iff. reflexivity.
    + (* 2 *) rewrite orb_true_iff, !negb_true_iff, memZ_false_In. reflexivity.
  - (* 1 *) rewrite andb_true_iff, memZ_In. reflexivity.
Qed.

Lemma match_clause_spec p w : match_clause p w = true <-> clause_ok p w.
Proof.
  unfold match_clause, clause_ok. rewrite !andb_true_iff. split.
  - intros [[H1 H2] H3]. split; [|split].
    + intros r E. rewrite E in H1. apply match_obj_spec, H1.
    + intros r E. rewrite E in H2. apply match_ctrl_spec, H2.
    + intros l E q Hq. rewrite E in H3. cbn [match_sel] in H3. rewrite forallb_forall in H3.
      apply match_req_spec, H3, Hq.
  - intros [H1 [H2 H3]]. split; [split|].
    + destruct (w_obj w) as [r|]; [|reflexivity]. apply match_obj_spec, H1. reflexivity.
    + destruct (w_ctrl w) as [r|]; [|reflexivity]. apply match_ctrl_spec, H2. reflexivity.
    + destruct (w_sel w) as [l|]; [|reflexivity]. cbn [match_sel]. apply forallb_forall.
      intros q Hq. apply match_req_spec. apply (H3 l eq_refl q Hq).
Qed.

Lemma owner_match ws p : match_owners ws p = true <-> owners_spec ws p.
Proof.
  unfold match_owners, owners_spec. destruct (owners_bad ws).
  - split; [discriminate|intros [H _]; discriminate H].
  - rewrite existsb_exists. split.
    + intros [w [Hw Hm]]. split; [reflexivity|]. exists w. split; [exact Hw|].
      apply match_clause_spec, Hm.
    + intros [_ [w [Hw Hm]]]. exists w. split; [exact Hw|]. apply match_clause_spec, Hm.
Qed.

Lemma owner_none p : match_owners [] p = false.
Proof. reflexivity. Qed.

Lemma owners_specb_spec ws p : owners_specb ws p = true <-> owners_spec ws p.
Proof.
  rewrite <- owner_match. unfold owners_specb, match_owners, clause_okb.
  destruct (owners_bad ws); cbn; [split; discriminate|reflexivity].
Qed.
