(* C05 — executable model of the reservation ledger, the scheduler's reservation cache and
   the restricted fit / owner matching functions.

   Anchors (koordinator /repo):
     pkg/scheduler/frameworkext/reservation_info.go   NewReservationInfo, UpdateReservation,
        AddAssignedPod, RemoveAssignedPod, IsMatchable, MatchOwners
     pkg/scheduler/plugins/reservation/cache.go        updateReservation, updateReservationIfExists,
        DeleteReservation, addPods, updatePod, deletePods, ListAllNodes,
        ForEachMatchableReservationOnNode
     pkg/scheduler/plugins/reservation/eventhandler.go, pod_eventhandler.go   (dispatch)
     pkg/scheduler/plugins/reservation/plugin.go       fitsReservation, fitsNodeAndReservation,
        FilterNominateReservation (allocate-once gate)
     pkg/util/reservation/reservation.go               owner matchers, GetReservationRestrictedResources
     pkg/scheduler/frameworkext/eventhandlers/reservation_handler.go   the scheduler-wide handler
        of the Reservation informer (addReservation / updateReservation cases 0-6 / deleteReservation,
        tombstones) as far as it reaches ReservationCache.DeleteReservation

   Conventions: every string (uid, node, resource name, label, ...) is an integer id given in
   string order; 0 is the empty string.  Quantities are integers (milli-units for cpu).
   Total, executable, no proofs in this file. *)
From Coq Require Import List ZArith Bool.
Import ListNotations.
Open Scope Z_scope.

(* ------------------------------------------------------------------------------------ *)
(* small list helpers                                                                    *)

Definition memZ (x : Z) (l : list Z) : bool := existsb (Z.eqb x) l.
Definition is_nil {A} (l : list A) : bool := match l with [] => true | _ => false end.
Fixpoint sumZ (l : list Z) : Z := match l with [] => 0 | x :: t => x + sumZ t end.

Fixpoint ins_by {A} (key : A -> Z) (x : A) (l : list A) : list A :=
  match l with
  | [] => [x]
  | y :: t => if key x <=? key y then x :: l else y :: ins_by key x t
  end.
Definition sort_by {A} (key : A -> Z) (l : list A) : list A := fold_right (ins_by key) [] l.
Definition sortZ (l : list Z) : list Z := sort_by (fun x => x) l.

(* ------------------------------------------------------------------------------------ *)
(* corev1.ResourceList: association list resource-name id -> quantity, explicit presence *)

Notation res := (list (Z * Z)).

Fixpoint getv (k : Z) (r : res) : Z :=
  match r with
  | [] => 0
  | e :: t => if fst e =? k then snd e else getv k t
  end.
Fixpoint hask (k : Z) (r : res) : bool :=
  match r with
  | [] => false
  | e :: t => (fst e =? k) || hask k t
  end.
Definition keys (r : res) : list Z := map fst r.
Definition tab (ks : list Z) (f : Z -> Z) : res := map (fun k => (k, f k)) ks.

(* quotav1.Add, quotav1.SubtractWithNonNegativeResult, quotav1.Mask *)
Definition radd (a b : res) : res := tab (keys a ++ keys b) (fun k => getv k a + getv k b).
Definition rsub_nn (a b : res) : res :=
  tab (keys a ++ keys b) (fun k => Z.max 0 (getv k a - getv k b)).
Definition rmask (r : res) (names : list Z) : res := filter (fun e => memZ (fst e) names) r.

Definition res_nonneg (r : res) : bool := forallb (fun e : Z * Z => 0 <=? snd e) r.

(* resource-name ids (string order): 1 cpu, 2 ex.io/a, 3 ex.io/b, 4 memory, 5 pods *)
Definition PODS : Z := 5.

(* ------------------------------------------------------------------------------------ *)
(* the Reservation object as far as the cache looks at it                                *)

Record rspec := mkSpec {
  s_uid : Z;
  s_node : Z;              (* Status.NodeName, 0 = "" *)
  s_phase : Z;             (* 0 Pending, 1 Available, 2 Succeeded, 3 Failed, 4 Waiting *)
  s_term : bool;           (* DeletionTimestamp set *)
  s_once : bool;           (* Spec.AllocateOnce (nil counts as true) *)
  s_policy : Z;            (* 0 Default, 1 Aligned, 2 Restricted *)
  s_opts : Z;              (* restricted-options annotation: 0 absent, 1 well-formed, 2 malformed *)
  s_optres : list Z;       (* its resources *)
  s_alloc : res;           (* ReservationRequests(r): Status.Allocatable / template requests *)
  s_reserved : res;        (* node.koordinator.sh/reservation annotation resources *)
  s_ownbad : bool;         (* Spec.Owners / the reservation-owners annotation does not parse *)
  s_kind : Z               (* 0 Reservation object, 1 pod in reservation operating mode *)
}.

Definition set_phase (s : rspec) (ph : Z) : rspec :=
  mkSpec (s_uid s) (s_node s) ph (s_term s) (s_once s) (s_policy s) (s_opts s) (s_optres s)
         (s_alloc s) (s_reserved s) (s_ownbad s) (s_kind s).

(* IsReservationAvailable; for an operating pod: Running and Ready (phase 1), node not looked at *)
Definition set_node (s : rspec) (n : Z) : rspec :=
  mkSpec (s_uid s) n (s_phase s) (s_term s) (s_once s) (s_policy s) (s_opts s) (s_optres s)
         (s_alloc s) (s_reserved s) (s_ownbad s) (s_kind s).

Definition is_available (s : rspec) : bool :=
  ((s_kind s =? 1) || negb (s_node s =? 0)) && (s_phase s =? 1).
Definition is_active (s : rspec) : bool :=
  negb (s_node s =? 0) && ((s_phase s =? 1) || (s_phase s =? 4)).
Definition is_finished (s : rspec) : bool := (s_phase s =? 2) || (s_phase s =? 3).

(* GetReservationRestrictedResources *)
Definition restrict (base opt : list Z) : list Z :=
  let r := filter (fun k => memZ k opt) base in
  if is_nil r then base else r.

Definition names_of (s : rspec) : list Z :=
  let base := sortZ (keys (s_alloc s)) in
  if ((s_policy s =? 2) || (s_kind s =? 1)) && (s_opts s =? 1)
  then restrict base (s_optres s) else base.

Definition perr_of (s : rspec) : bool :=
  (((s_policy s =? 2) || (s_kind s =? 1)) && (s_opts s =? 2)) || s_ownbad s.

(* ------------------------------------------------------------------------------------ *)
(* ReservationInfo                                                                        *)

Notation preq := (Z * res)%type.       (* PodRequirement: pod uid, requests *)

Record rinfo := mkInfo {
  r_spec : rspec;                 (* ri.Reservation (latest object) *)
  r_names : list Z;               (* ResourceNames *)
  r_reserved : res;               (* Reserved *)
  r_allocated : res;              (* Allocated *)
  r_assigned : list preq;         (* AssignedPods *)
  r_perr : bool                   (* ParseError != nil *)
}.

Definition r_uid (i : rinfo) : Z := s_uid (r_spec i).
Definition r_node (i : rinfo) : Z := s_node (r_spec i).
Definition r_allocatable (i : rinfo) : res := s_alloc (r_spec i).
Definition n_assigned (i : rinfo) : Z := Z.of_nat (length (r_assigned i)).

Definition new_info (s : rspec) : rinfo :=
  mkInfo s (names_of s) (s_reserved s) [] [] (perr_of s).

(* allocatedByAssignedPods: what the assigned pods hold in the given names *)
Definition alloc_by_assigned (nm : list Z) (l : list preq) : res :=
  fold_left (fun acc (q : preq) => radd acc (rmask (snd q) nm)) l [].

(* UpdateReservation / UpdatePod.  [old = true] is the behaviour before fix 75e0c17 (Allocated
   masked with the new names instead of recomputed); it is kept only for the regression Example
   in Properties.v *)
Definition update_info_gen (old : bool) (i : rinfo) (s : rspec) : rinfo :=
  let nm := names_of s in
  mkInfo s nm
         (if is_nil (s_reserved s) then [] else rmask (s_reserved s) nm)
         (if old then rmask (r_allocated i) nm else alloc_by_assigned nm (r_assigned i))
         (r_assigned i)
         (perr_of s).
Definition update_info (i : rinfo) (s : rspec) : rinfo := update_info_gen false i s.

Definition has_assigned (u : Z) (i : rinfo) : bool :=
  existsb (fun q : preq => fst q =? u) (r_assigned i).

Definition add_assigned (i : rinfo) (u : Z) (req : res) : rinfo :=
  if has_assigned u i then i
  else mkInfo (r_spec i) (r_names i) (r_reserved i)
              (radd (r_allocated i) (rmask req (r_names i)))
              (r_assigned i ++ [(u, req)])
              (r_perr i).

Definition find_assigned (u : Z) (i : rinfo) : option preq :=
  find (fun q : preq => fst q =? u) (r_assigned i).

Definition remove_assigned (i : rinfo) (u : Z) : rinfo :=
  match find_assigned u i with
  | None => i
  | Some q =>
    mkInfo (r_spec i) (r_names i) (r_reserved i)
           (if is_nil (snd q) then r_allocated i
            else rsub_nn (r_allocated i) (rmask (snd q) (r_names i)))
           (filter (fun q' : preq => negb (fst q' =? u)) (r_assigned i))
           (r_perr i)
  end.

Definition once_used (i : rinfo) : bool := s_once (r_spec i) && negb (is_nil (r_assigned i)).

(* IsMatchable *)
Definition is_matchable (i : rinfo) : bool :=
  is_available (r_spec i) && negb (r_perr i) && negb (once_used i).

(* first check of FilterNominateReservation: true = may be nominated *)
Definition nominate_gate (i : rinfo) : bool := negb (once_used i).

(* ------------------------------------------------------------------------------------ *)
(* per-node indexes: node -> set of uids, with explicit key presence                     *)

Notation idx := (list (Z * list Z)).

Definition set_add (u : Z) (s : list Z) : list Z := if memZ u s then s else s ++ [u].
Definition set_del (u : Z) (s : list Z) : list Z := filter (fun x => negb (x =? u)) s.

Definition idx_haskey (n : Z) (ix : idx) : bool := existsb (fun e => fst e =? n) ix.
Definition idx_set (n : Z) (ix : idx) : list Z :=
  flat_map (fun e : Z * list Z => if fst e =? n then snd e else []) ix.
Definition idx_mem (n u : Z) (ix : idx) : bool := memZ u (idx_set n ix).

Definition idx_add (n u : Z) (ix : idx) : idx :=
  if idx_haskey n ix
  then map (fun e : Z * list Z => if fst e =? n then (fst e, set_add u (snd e)) else e) ix
  else ix ++ [(n, [u])].
(* delete(m[n], u) *)
Definition idx_del_keep (n u : Z) (ix : idx) : idx :=
  map (fun e : Z * list Z => if fst e =? n then (fst e, set_del u (snd e)) else e) ix.
(* delete(m[n], u); if len(m[n]) == 0 { delete(m, n) } *)
Definition idx_del_clean (n u : Z) (ix : idx) : idx :=
  filter (fun e : Z * list Z => negb ((fst e =? n) && is_nil (snd e))) (idx_del_keep n u ix).

(* ------------------------------------------------------------------------------------ *)
(* reservationCache                                                                       *)

Record cache := mkCache {
  infos : list rinfo;        (* reservationInfos *)
  on_node : idx;             (* reservationsOnNode *)
  matchable : idx;           (* matchableOnNode *)
  alloc_idx : idx            (* allocatedOnNode *)
}.

Definition init_cache : cache := mkCache [] [] [] [].

Definition find_info (u : Z) (l : list rinfo) : option rinfo := find (fun i => r_uid i =? u) l.
Definition set_info (i : rinfo) (l : list rinfo) : list rinfo :=
  if existsb (fun j => r_uid j =? r_uid i) l
  then map (fun j => if r_uid j =? r_uid i then i else j) l
  else l ++ [i].
Definition del_info (u : Z) (l : list rinfo) : list rinfo :=
  filter (fun i => negb (r_uid i =? u)) l.

(* the "refresh matchable and allocated" block shared by updateReservation and
   updateReservationIfExists *)
Definition refresh (n u : Z) (i : rinfo) (m a : idx) : idx * idx :=
  if is_matchable i
  then (idx_add n u m,
        if negb (is_nil (r_assigned i)) then idx_add n u a else idx_del_keep n u a)
  else (idx_del_clean n u m, idx_del_clean n u a).

(* updateReservationOperatingPod adds the current owner (a pod without requests) before the
   indexes are refreshed; own = 0: no current owner / not an operating pod *)
Definition add_owner (own : Z) (i : rinfo) : rinfo :=
  if own =? 0 then i else add_assigned i own [].

(* updateReservation (if_exists = false) / updateReservationIfExists (if_exists = true) /
   updateReservationOperatingPod (if_exists = false, own = current owner) *)
Definition c_update (if_exists : bool) (own : Z) (s : rspec) (c : cache) : cache :=
  match find_info (s_uid s) (infos c) with
  | None =>
    if if_exists then c
    else
      let i := add_owner own (new_info s) in
      let inf := set_info i (infos c) in
      if s_node s =? 0 then mkCache inf (on_node c) (matchable c) (alloc_idx c)
      else let '(m, a) := refresh (s_node s) (s_uid s) i (matchable c) (alloc_idx c) in
           mkCache inf (idx_add (s_node s) (s_uid s) (on_node c)) m a
  | Some i0 =>
    let i := add_owner own (update_info i0 s) in
    let inf := set_info i (infos c) in
    if s_node s =? 0 then mkCache inf (on_node c) (matchable c) (alloc_idx c)
    else let '(m, a) := refresh (s_node s) (s_uid s) i (matchable c) (alloc_idx c) in
         mkCache inf
                 (if if_exists then on_node c else idx_add (s_node s) (s_uid s) (on_node c))
                 m a
  end.

(* DeleteReservation(r) / deleteReservationOperatingPod(pod): only the uid and the node name
   are looked at *)
Definition c_delete (u n : Z) (c : cache) : cache :=
  mkCache (del_info u (infos c))
          (if n =? 0 then on_node c else idx_del_clean n u (on_node c))
          (idx_del_clean n u (matchable c))
          (idx_del_clean n u (alloc_idx c)).

(* the "update allocated cache" block after AddAssignedPod *)
Definition mark_allocated (i : rinfo) (a : idx) : idx :=
  if is_matchable i && negb (is_nil (r_assigned i)) && negb (r_node i =? 0)
  then idx_add (r_node i) (r_uid i) a else a.
(* ... and after RemoveAssignedPod *)
Definition unmark_allocated (i : rinfo) (a : idx) : idx :=
  if is_nil (r_assigned i) && negb (r_node i =? 0)
  then idx_del_clean (r_node i) (r_uid i) a else a.

(* addPods(uid, [pod]): result code 0 ok, 1 cannot find target reservation, 2 terminating *)
Definition c_add_pod (ru pu : Z) (req : res) (c : cache) : cache * Z :=
  match find_info ru (infos c) with
  | None => (c, 1)
  | Some i0 =>
    if s_term (r_spec i0) then (c, 2)
    else let i := add_assigned i0 pu req in
         (mkCache (set_info i (infos c)) (on_node c) (matchable c)
                  (mark_allocated i (alloc_idx c)), 0)
  end.

(* deletePods(uid, [pod]) *)
Definition c_del_pod (ru pu : Z) (c : cache) : cache :=
  match find_info ru (infos c) with
  | None => c
  | Some i0 =>
    let i := remove_assigned i0 pu in
    mkCache (set_info i (infos c)) (on_node c) (matchable c) (unmark_allocated i (alloc_idx c))
  end.

(* updatePod(oldUID, newUID, oldPod, newPod); a nil pod is None *)
Definition c_update_pod (oru nru : Z) (oldp newp : option preq) (c : cache) : cache :=
  let c1 := match oldp with Some q => c_del_pod oru (fst q) c | None => c end in
  match newp with
  | Some q => match find_info nru (infos c1) with
              | None => c1
              | Some i0 =>
                let i := add_assigned i0 (fst q) (snd q) in
                mkCache (set_info i (infos c1)) (on_node c1) (matchable c1)
                        (mark_allocated i (alloc_idx c1))
              end
  | None => c1
  end.

(* cache-level operations *)
Inductive cop :=
| CUpdate (if_exists : bool) (own : Z) (s : rspec)
| CDelete (u n : Z)
| CAddPod (ru pu : Z) (req : res)
| CDelPod (ru pu : Z)
| CUpdatePod (oru nru : Z) (oldp newp : option preq).

Definition cstep (c : cache) (o : cop) : cache :=
  match o with
  | CUpdate b own s => c_update b own s c
  | CDelete u n => c_delete u n c
  | CAddPod ru pu req => fst (c_add_pod ru pu req c)
  | CDelPod ru pu => c_del_pod ru pu c
  | CUpdatePod oru nru op np => c_update_pod oru nru op np c
  end.
Definition crun (c : cache) (l : list cop) : cache := fold_left cstep l c.

(* ------------------------------------------------------------------------------------ *)
(* fitsReservation / fitsNodeAndReservation (node check skipped)                          *)

Definition TOO_MANY_PODS : Z := 100.

Definition fits_dim (i : rinfo) (req pre : res) (k : Z) : bool :=
  let requested := getv k req in
  if negb (hask k req) || (requested =? 0) then true
  else
    let capacity := getv k (r_allocatable i) - getv k (r_reserved i) in
    let used := if hask k (r_allocated i)
                then Z.max 0 (getv k (r_allocated i) - getv k pre) else 0 in
    requested <=? capacity - used.

Definition fits_pods (i : rinfo) (pre : res) : bool :=
  if hask PODS (r_allocatable i)
  then n_assigned i - getv PODS pre + 1 <=? getv PODS (r_allocatable i)
  else true.

Definition fits_reservation (i : rinfo) (req pre : res) : list Z :=
  (if fits_pods i pre then [] else [TOO_MANY_PODS])
  ++ filter (fun k => negb (fits_dim i req pre k)) (r_names i).

Definition fits_node_and_reservation (i : rinfo) (req pre : res) : list Z :=
  if s_policy (r_spec i) =? 2 then fits_reservation i req pre else [].

(* ------------------------------------------------------------------------------------ *)
(* the entry points the scheduler calls (event handlers + direct cache calls)            *)

Record opx := mkOpx {       (* what makes a pod a reservation-operating-mode pod *)
  x_ready : bool;           (* Running and Ready *)
  x_term : bool;            (* DeletionTimestamp set *)
  x_opts : Z; x_optres : list Z;   (* restricted-options annotation, as in rspec *)
  x_reserved : res;
  x_ownbad : bool;          (* reservation-owners annotation has a selector that does not parse *)
  x_owner : Z               (* uid in the reservation-current-owner annotation, 0 = none *)
}.

Record pev := mkPev {       (* a pod object as the pod event handler looks at it *)
  e_uid : Z;
  e_req : res;              (* PodRequests(pod) *)
  e_node : Z;               (* Spec.NodeName *)
  e_done : bool;            (* phase Succeeded/Failed *)
  e_rsv : Z;                (* uid in the reservation-allocated annotation, 0 = none *)
  e_op : option opx         (* operating-mode label and annotations *)
}.

(* an operating pod is cached under its own (pod) uid; pod uid p is reservation uid OPBASE + p *)
Definition OPBASE : Z := 100.
Definition op_spec (p : pev) (x : opx) : rspec :=
  mkSpec (OPBASE + e_uid p) (e_node p) (if x_ready x then 1 else 0) (x_term x) true 1
         (x_opts x) (x_optres x) (e_req p) (x_reserved x) (x_ownbad x) 1.

Inductive hop :=
| HRsvAdd (s : rspec)                    (* reservationEventHandler.OnAdd *)
| HRsvUpdate (s : rspec)                 (* reservationEventHandler.OnUpdate(old, new) *)
| HRsvDelete (s : rspec)                 (* reservationEventHandler.OnDelete *)
| HRsvAssume (s : rspec)                 (* cache.assumeReservation *)
| HRsvRemove (u n : Z)                   (* cache.DeleteReservation / forgetReservation *)
| HPodAssume (ru pu : Z) (req : res)     (* cache.assumePod *)
| HPodForget (ru pu : Z)                 (* cache.forgetPods / deletePod *)
| HPodAdd (p : pev)                      (* podEventHandler.OnAdd *)
| HPodUpdate (o p : pev)                 (* podEventHandler.OnUpdate *)
| HPodDelete (p : pev)                   (* podEventHandler.OnDelete *)
| HReserveRsv (s : rspec) (n : Z)        (* Plugin.Reserve(reserve pod of s, node n): s is the
                                            lister's object, the node comes from the call *)
| HUnreserveRsv (s : rspec) (n : Z)      (* Plugin.Unreserve(reserve pod of s, node n); also when
                                            the lister no longer has s (uid from the pod) *)
| HSchedule (pu : Z) (req : res) (n t : Z)
  (* one scheduling cycle of the plugin for pod pu (no reservation affinity, owner label of
     reservation t) on node n, which has room: BeforePreFilter -> Filter -> NominateReservation
     -> Reserve *)
(* one event of the Reservation informer, delivered to BOTH handlers registered on it: the
   plugin's reservationEventHandler and the scheduler-wide handler of
   frameworkext/eventhandlers/reservation_handler.go (the one that really removes a reservation from
   the cache).  The two listeners run on their own goroutines, so either may come first:
   who = 0 plugin handler then scheduler-wide handler, 1 the other way round, 2 the
   scheduler-wide handler alone (the plugin handler alone is HRsvAdd / HRsvUpdate / HRsvDelete) *)
| HInfAdd (s : rspec) (who : Z)
| HInfUpdate (o s : rspec) (who : Z)     (* old and new object of the update event *)
| HInfDelete (s : rspec) (who : Z) (tomb : bool).
  (* tomb: the event carries a cache.DeletedFinalStateUnknown tombstone (deletion noticed by a
     re-list); both handlers unwrap it, so the model does not look at the flag *)

Definition as_preq (p : pev) : preq := (e_uid p, e_req p).

(* podEventHandler.deletePod *)
Definition lower_pod_delete (p : pev) : list cop :=
  (if e_rsv p =? 0 then [] else [CDelPod (e_rsv p) (e_uid p)])
  ++ match e_op p with
     | Some _ => [CDelete (OPBASE + e_uid p) (e_node p)]
     | None => []
     end.

(* podEventHandler.updatePod *)
Definition lower_pod_update (o : option pev) (p : pev) : list cop :=
  if e_done p then lower_pod_delete p
  else if e_node p =? 0 then
    match o with
    | Some q => if e_node q =? 0 then [] else lower_pod_delete q
    | None => []
    end
  else
    let oru := match o with Some q => e_rsv q | None => 0 end in
    (if (oru =? 0) && (e_rsv p =? 0) then []
     else [CUpdatePod oru (e_rsv p) (option_map as_preq o) (Some (as_preq p))])
    ++ match e_op p with
       | Some x => [CUpdate false (x_owner x) (op_spec p x)]
       | None => []
       end.

(* NominateReservation for a pod without reservation affinity whose owner label selects
   reservation t only: t must be visited on node n (matchableOnNode), match the pod (owners parse,
   not terminating), and pass FilterNominateReservation: the allocate-once gate, a restricted
   dimension in common with the pod, and -- Restricted policy -- the fit check *)
Definition shares_name (i : rinfo) (req : res) : bool :=
  existsb (fun k => memZ k (keys req)) (r_names i).
Definition nominate_ok (i : rinfo) (req : res) : bool :=
  nominate_gate i && shares_name i req
  && (if s_policy (r_spec i) =? 2 then is_nil (fits_reservation i req []) else true).
Definition sched_target (c : cache) (req : res) (n t : Z) : option rinfo :=
  match find_info t (infos c) with
  | Some i =>
    if idx_mem n t (matchable c) && negb (r_perr i) && negb (s_term (r_spec i)) && nominate_ok i req
    then Some i else None
  | None => None
  end.

(* reservationEventHandler.OnAdd / OnUpdate / OnDelete of the plugin *)
Definition lower_rsv_add (s : rspec) : list cop := if is_active s then [CUpdate false 0 s] else [].
Definition lower_rsv_update (s : rspec) : list cop :=
  if is_active s then [CUpdate false 0 s]
  else if is_finished s then [CUpdate true 0 s] else [].
Definition lower_rsv_delete (s : rspec) : list cop :=
  [CUpdate true 0 (if is_available s then set_phase s 3 else s)].

(* the scheduler-wide handler (eventhandlers/reservation_handler.go), as far as it touches the
   reservation cache: deleteReservationFromSchedulerCache calls ReservationCache.DeleteReservation
   of every profile unless the object has no node name; addReservation only feeds the scheduler
   cache / queue.  isReservationActive of that file = no node name and not Failed / Succeeded *)
Definition is_unassigned (s : rspec) : bool := (s_node s =? 0) && negb (is_finished s).
Definition g_delete (s : rspec) : list cop :=
  if s_node s =? 0 then [] else [CDelete (s_uid s) (s_node s)].
Definition g_update (o s : rspec) : list cop :=
  if is_finished o && is_finished s then []                       (* case 0: keep terminated *)
  else if is_available o && is_available s then                   (* case 1: keep available *)
    (if negb (s_uid o =? s_uid s) || negb (s_node o =? s_node s) then g_delete o else [])
  else if is_unassigned o && is_available s then []               (* case 2: got scheduled *)
  else if is_available o && is_finished s then g_delete o         (* case 3: available -> terminated *)
  else if is_available o && is_unassigned s then g_delete o       (* case 4: rollback *)
  else [].
(* the two listeners of one informer event *)
Definition compose (who : Z) (p g : list cop) : list cop :=
  if who =? 1 then g ++ p else if who =? 2 then g else p ++ g.

Definition lower (c : cache) (h : hop) : list cop :=
  match h with
  | HRsvAdd s => lower_rsv_add s
  | HRsvUpdate s => lower_rsv_update s
  | HRsvDelete s => lower_rsv_delete s
  | HRsvAssume s => [CUpdate false 0 s]
  | HRsvRemove u n => [CDelete u n]
  | HPodAssume ru pu req => [CAddPod ru pu req]
  | HPodForget ru pu => [CDelPod ru pu]
  | HPodAdd p => lower_pod_update None p
  | HPodUpdate o p => lower_pod_update (Some o) p
  | HPodDelete p => lower_pod_delete p
  | HReserveRsv s n => [CUpdate false 0 (set_node s n)]
  | HUnreserveRsv s n => [CDelete (s_uid s) n]
  | HSchedule pu req n t =>
    match sched_target c req n t with
    | Some _ => [CAddPod t pu req]      (* Reserve: assumePods(nominated, pod) *)
    | None => []
    end
  | HInfAdd s who => compose who (lower_rsv_add s) []
  | HInfUpdate o s who => compose who (lower_rsv_update s) (g_update o s)
  | HInfDelete s who _ => compose who (lower_rsv_delete s) (g_delete s)
  end.

Definition hstep (c : cache) (h : hop) : cache := crun c (lower c h).
(* result code of the entry point: assumePod reports an error, a scheduling cycle the nominated
   reservation (0 = none) *)
Definition hcode (c : cache) (h : hop) : Z :=
  match h with
  | HPodAssume ru pu req => snd (c_add_pod ru pu req c)
  | HSchedule pu req n t => match sched_target c req n t with Some _ => t | None => 0 end
  | _ => 0
  end.
Definition hrun (c : cache) (l : list hop) : cache := fold_left hstep l c.

(* the cache operations of a whole history of entry points *)
Fixpoint hops_cops (c : cache) (l : list hop) : list cop :=
  match l with
  | [] => []
  | h :: t => lower c h ++ hops_cops (hstep c h) t
  end.

(* requests carried by an entry point are non-negative *)
Definition pev_nonneg (p : pev) : bool := res_nonneg (e_req p).
Definition hop_nonneg (h : hop) : bool :=
  match h with
  | HPodAssume _ _ req => res_nonneg req
  | HPodAdd p => pev_nonneg p
  | HPodUpdate o p => pev_nonneg o && pev_nonneg p
  | HPodDelete p => pev_nonneg p
  | HSchedule _ req _ _ => res_nonneg req
  | _ => true
  end.

(* states after every entry point, with its result code *)
Fixpoint htrace (c : cache) (l : list hop) : list (Z * cache) :=
  match l with
  | [] => []
  | h :: t => let c' := hstep c h in (hcode c h, c') :: htrace c' t
  end.

(* ------------------------------------------------------------------------------------ *)
(* hypotheses on histories, evaluated along the run                                      *)

(* the node name of a cached reservation never changes (k8s: status.nodeName is set once);
   updateReservation may also place a reservation that was cached without a node *)
Definition node_stable_op (c : cache) (o : cop) : bool :=
  match o with
  | CUpdate b _ s => match find_info (s_uid s) (infos c) with
                   | Some i => (negb b && (r_node i =? 0)) || (r_node i =? s_node s)
                   | None => true
                   end
  | CDelete u n => match find_info u (infos c) with
                   | Some i => (r_node i =? 0) || (r_node i =? n)
                   | None => true
                   end
  | _ => true
  end.

Definition op_nonneg (o : cop) : bool :=
  match o with
  | CAddPod _ _ req => res_nonneg req
  | CUpdatePod _ _ _ (Some q) => res_nonneg (snd q)
  | _ => true
  end.

(* the pod objects a cache operation records requests from (uid, requests) *)
Definition delivered_cop (o : cop) : list preq :=
  match o with
  | CAddPod _ pu req => [(pu, req)]
  | CUpdatePod _ _ _ (Some q) => [q]
  | CUpdate _ own _ => if own =? 0 then [] else [(own, [])]
  | _ => []
  end.
Definition res_eqb (a b : res) : bool :=
  forallb (fun k => getv k a =? getv k b) (keys a ++ keys b).
(* after the operation, every reservation that has a delivered pod assigned records the delivered
   requests (fails e.g. when the same pod is assumed twice with different requests, or sits in two
   reservations) *)
Definition sync_op (c : cache) (o : cop) : bool :=
  forallb (fun d : preq =>
             forallb (fun i => forallb (fun q : preq => negb (fst q =? fst d) || res_eqb (snd q) (snd d))
                                       (r_assigned i))
                     (infos (cstep c o)))
          (delivered_cop o).
Fixpoint last_req (u : Z) (L : list preq) : option res :=
  match L with
  | [] => None
  | d :: t => if fst d =? u then Some (snd d) else last_req u t
  end.
(* newest first *)
Definition deliver (L : list preq) (l : list cop) : list preq :=
  fold_left (fun L o => delivered_cop o ++ L) l L.

(* the Reservation objects (or operating pods, as rspec) delivered to the cache, newest first *)
Definition delivered_spec (o : cop) : list rspec :=
  match o with CUpdate _ _ s => [s] | _ => [] end.
Fixpoint last_spec (u : Z) (S : list rspec) : option rspec :=
  match S with
  | [] => None
  | s :: t => if s_uid s =? u then Some s else last_spec u t
  end.
Definition deliver_specs (S : list rspec) (l : list cop) : list rspec :=
  fold_left (fun S o => delivered_spec o ++ S) l S.

(* reservations the informer reported deleted (to the scheduler-wide handler) and that were not
   delivered again since: (uid, the delete event carried a node name) *)
Notation dead := (list (Z * bool)).
Definition touches (u : Z) (o : cop) : bool :=
  match o with CUpdate _ _ s => s_uid s =? u | _ => false end.
Definition undead (D : dead) (l : list cop) : dead :=
  filter (fun d : Z * bool => negb (existsb (touches (fst d)) l)) D.
Definition deleted_by (h : hop) : dead :=
  match h with
  | HInfDelete s _ _ => [(s_uid s, negb (s_node s =? 0))]
  | _ => []
  end.
Definition next_dead (c : cache) (h : hop) (D : dead) : dead := deleted_by h ++ undead D (lower c h).
(* the delete event names the node the reservation is cached on (part of the node-stability
   hypothesis: also checked when the scheduler-wide handler skips an object without node name) *)
Definition hop_stable (c : cache) (h : hop) : bool :=
  match h with
  | HInfDelete s _ _ => node_stable_op c (CDelete (s_uid s) (s_node s))
  | _ => true
  end.

Fixpoint all_along (P : cache -> cop -> bool) (c : cache) (l : list cop) : bool :=
  match l with
  | [] => true
  | o :: t => P c o && all_along P (cstep c o) t
  end.

(* ------------------------------------------------------------------------------------ *)
(* observation: what the harness dumps after every entry point                            *)

Definition dims : list Z := [1; 2; 3; 4; 5].
Definition node_ids : list Z := [1; 2].

Definition vals (r : res) : list Z := map (fun k => getv k r) dims.
Definition pvals (r : res) : list Z := map (fun k => if hask k r then getv k r else -1) dims.

Record iview := mkIview {
  v_uid : Z; v_node : Z;
  v_avail : bool; v_perr : bool; v_once : bool; v_term : bool;
  v_matchable : bool;               (* IsMatchable() *)
  v_gate : bool;                    (* FilterNominateReservation does not stop at the once gate *)
  v_assigned : list (Z * list Z);   (* uid, stored request per dim *)
  v_names : list Z;
  v_allocated : list Z;             (* per dim *)
  v_reserved : list Z;              (* per dim *)
  v_allocatable : list Z;           (* per dim, -1 = absent *)
  v_policy : Z;                     (* GetAllocatePolicy: 0 Default, 1 Aligned, 2 Restricted *)
  v_cap : list Z                    (* per dim: allocatable - reserved (absent = 0) *)
}.

Record cview := mkCview {
  o_code : Z;
  o_infos : list iview;
  o_onnode : idx; o_matchable : idx; o_alloc : idx;
  o_nodes_m : list Z;               (* ListAllNodes(true) *)
  o_nodes_a : list Z;               (* ListAllNodes(false) *)
  o_visit : list (list Z)           (* ForEachMatchableReservationOnNode per node id; -1 = nil info *)
}.

Definition info_view (i : rinfo) : iview :=
  mkIview (r_uid i) (r_node i) (is_available (r_spec i)) (r_perr i) (s_once (r_spec i))
          (s_term (r_spec i)) (is_matchable i) (nominate_gate i)
          (sort_by fst (map (fun q : preq => (fst q, vals (snd q))) (r_assigned i)))
          (r_names i) (vals (r_allocated i)) (vals (r_reserved i)) (pvals (r_allocatable i))
          (s_policy (r_spec i))
          (map (fun k => getv k (r_allocatable i) - getv k (r_reserved i)) dims).

Definition idx_view (ix : idx) : idx :=
  sort_by fst (map (fun e : Z * list Z => (fst e, sortZ (snd e))) ix).

Definition list_all_nodes (m : bool) (c : cache) : list Z :=
  if is_nil (matchable c) then []
  else sortZ (map fst (if m then matchable c else alloc_idx c)).

Definition visit (n : Z) (c : cache) : list Z :=
  sortZ (map (fun u => match find_info u (infos c) with Some _ => u | None => -1 end)
             (idx_set n (matchable c))).

Definition view (code : Z) (c : cache) : cview :=
  mkCview code (sort_by v_uid (map info_view (infos c)))
          (idx_view (on_node c)) (idx_view (matchable c)) (idx_view (alloc_idx c))
          (list_all_nodes true c) (list_all_nodes false c)
          (map (fun n => visit n c) node_ids).

(* ------------------------------------------------------------------------------------ *)
(* owner matching                                                                          *)

Record objref := mkObj { ob_uid : Z; ob_name : Z; ob_ns : Z; ob_apiver : Z }.
Record ctrlref := mkCtrl {
  ct_ns : Z;
  ct_ctrl : Z;            (* Controller *bool: 0 nil, 1 false, 2 true *)
  ct_uid : Z; ct_name : Z; ct_kind : Z; ct_apiver : Z }.
Record lreq := mkLreq {
  q_key : Z;
  q_op : Z;               (* 0 matchLabels entry, 1 In, 2 NotIn, 3 Exists, 4 DoesNotExist *)
  q_vals : list Z }.
Record oclause := mkClause {
  w_obj : option objref; w_ctrl : option ctrlref; w_sel : option (list lreq) }.
Record opod := mkOpod {
  d_uid : Z; d_name : Z; d_ns : Z; d_apiver : Z;
  d_labels : list (Z * Z);
  d_orefs : list ctrlref  (* pod.OwnerReferences; ct_ns unused *) }.

Definition fld (want have : Z) : bool := (want =? 0) || (want =? have).

Definition match_obj (p : opod) (o : option objref) : bool :=
  match o with
  | None => true
  | Some r => fld (ob_uid r) (d_uid p) && fld (ob_name r) (d_name p)
              && fld (ob_ns r) (d_ns p) && fld (ob_apiver r) (d_apiver p)
  end.

Definition match_oref (c o : ctrlref) : bool :=
  ((ct_ctrl c =? 0) || (negb (ct_ctrl o =? 0) && (ct_ctrl c =? ct_ctrl o)))
  && fld (ct_uid c) (ct_uid o) && fld (ct_name c) (ct_name o)
  && fld (ct_kind c) (ct_kind o) && fld (ct_apiver c) (ct_apiver o).

Definition match_ctrl (p : opod) (c : option ctrlref) : bool :=
  match c with
  | None => true
  | Some r => fld (ct_ns r) (d_ns p) && existsb (match_oref r) (d_orefs p)
  end.

Definition match_req (labels : list (Z * Z)) (q : lreq) : bool :=
  let has := hask (q_key q) labels in
  let v := getv (q_key q) labels in
  match q_op q with
  | 0 | 1 => has && memZ v (q_vals q)
  | 2 => negb has || negb (memZ v (q_vals q))
  | 3 => has
  | 4 => negb has
  | _ => false
  end.

Definition match_sel (p : opod) (s : option (list lreq)) : bool :=
  match s with
  | None => true
  | Some l => forallb (match_req (d_labels p)) l
  end.

Definition match_clause (p : opod) (w : oclause) : bool :=
  match_obj p (w_obj w) && match_ctrl p (w_ctrl w) && match_sel p (w_sel w).

(* LabelSelectorAsSelector rejects In/NotIn without values and Exists/DoesNotExist with values *)
Definition req_bad (q : lreq) : bool :=
  match q_op q with
  | 1 | 2 => is_nil (q_vals q)
  | 3 | 4 => negb (is_nil (q_vals q))
  | _ => false
  end.
Definition clause_bad (w : oclause) : bool :=
  match w_sel w with Some l => existsb req_bad l | None => false end.
Definition owners_bad (ws : list oclause) : bool := existsb clause_bad ws.

(* ReservationInfo.MatchOwners after NewReservationInfo / UpdateReservation with these owners *)
Definition match_owners (ws : list oclause) (p : opod) : bool :=
  if owners_bad ws then false else existsb (match_clause p) ws.
