(* C05 — exported theorems only: each is closed by [exact] and followed by Print Assumptions. *)
From Coq Require Import List ZArith Bool.
From Verif Require Import C05.Model C05.Spec C05.Codec C05.Trace
     C05.Proofs_base C05.Proofs_ledger C05.Proofs_index C05.Proofs_pure C05.Proofs_view
     C05.Proofs_codec C05.Proofs_ghost C05.Proofs_sched C05.Proofs_follow C05.Proofs_dead.
Import ListNotations.
Open Scope Z_scope.

(* ---- ledger: for ALL histories of cache operations with non-negative pod requests ---- *)

(* what a reservation reports as allocated is never negative and never more than what the
   pods assigned to it request in its restricted dimensions *)
Theorem c05_ledger_bounds : forall l,
  all_along (fun _ o => op_nonneg o) init_cache l = true ->
  forall i, In i (infos (crun init_cache l)) ->
  forall k, 0 <= getv k (r_allocated i) <= held i k.
Proof. exact ledger_bounds_all_histories. Qed.
Print Assumptions c05_ledger_bounds.

(* ... and equals it exactly (since fix 75e0c17 recomputes it on every update) *)
Theorem c05_ledger : forall l,
  all_along (fun _ o => op_nonneg o) init_cache l = true ->
  forall i, In i (infos (crun init_cache l)) ->
  forall k, getv k (r_allocated i) = held i k.
Proof. exact ledger_exact_all_histories. Qed.
Print Assumptions c05_ledger.

(* ---- restricted fit, for ALL (reservation state, request, preemptible) triples ---- *)

Theorem c05_restricted_fit : forall i req pre,
  fits_reservation i req pre = [] <-> fits_spec i req pre.
Proof. exact restricted_fit. Qed.
Print Assumptions c05_restricted_fit.

Theorem c05_fit_dispatch : forall i req pre,
  fits_node_and_reservation i req pre
  = if s_policy (r_spec i) =? 2 then fits_reservation i req pre else [].
Proof. exact dispatch_policy. Qed.
Print Assumptions c05_fit_dispatch.

Theorem c05_no_overalloc : forall i u req pre,
  fits_reservation i req pre = [] ->
  (forall k, getv k pre = 0) ->
  has_assigned u i = false ->
  let i' := add_assigned i u req in
  within_after i req (r_allocated i') (n_assigned i').
Proof. exact no_overalloc. Qed.
Print Assumptions c05_no_overalloc.

(* the admission sentence on reachable states: held + request <= allocatable - reserved *)
Theorem c05_restricted_admission : forall l,
  all_along (fun _ o => op_nonneg o) init_cache l = true ->
  forall i, In i (infos (crun init_cache l)) ->
  forall req, fits_reservation i req [] = [] ->
  forall k, In k (r_names i) -> hask k req = true -> 0 < getv k req ->
  held i k + getv k req <= getv k (r_allocatable i) - getv k (r_reserved i).
Proof. exact restricted_admission. Qed.
Print Assumptions c05_restricted_admission.

(* ---- recorded requests = last delivered object ---- *)

(* for every history in which deliveries are recorded consistently (sync_op along the run), the
   requests a reservation records for an assigned pod are those of the pod object delivered last
   (deliver [] l, newest first); with c05_ledger: allocated = sum over the assigned pods of
   mask(names, request of the last delivered object) *)
Theorem c05_recorded_is_last_delivered : forall l,
  all_along sync_op init_cache l = true ->
  forall i q, In i (infos (crun init_cache l)) -> In q (r_assigned i) ->
  exists r, last_req (fst q) (deliver [] l) = Some r /\ forall k, getv k (snd q) = getv k r.
Proof. exact (fun l H => ghost_run l [] init_cache H (ghost_init [])). Qed.
Print Assumptions c05_recorded_is_last_delivered.

(* ---- reserved dimensions / amounts = those of the object delivered last ---- *)

(* for ALL histories of cache operations: every cached reservation has, as its reserved dimensions
   (ResourceNames), exactly the resources reserved by the Reservation object / operating pod
   delivered last for its uid -- narrowed to the restricted-options only when those name at least
   one resource it reserves --, and that object's reserved amounts and allocate policy.  With
   c05_ledger and c05_recorded_is_last_delivered: allocated = sum over the assigned pods of the
   last delivered request, in the reserved dimensions of the last delivered reservation object *)
Theorem c05_reserved_dimensions : forall l i,
  In i (infos (crun init_cache l)) ->
  exists s, last_spec (r_uid i) (deliver_specs [] l) = Some s
            /\ names_spec s (r_names i) /\ r_allocatable i = s_alloc s
            /\ s_policy (r_spec i) = s_policy s.
Proof. exact specs_followed_all_histories. Qed.
Print Assumptions c05_reserved_dimensions.

(* the decision procedure of clause 12 decides that specification *)
Theorem c05_reserved_dimensions_decided : forall s nm,
  names_okb s nm = true <-> names_spec s nm.
Proof. exact names_okb_spec. Qed.
Print Assumptions c05_reserved_dimensions_decided.

(* a restricted reservation never ends up with no reserved dimension while it reserves something *)
Theorem c05_reserved_dimensions_nonempty : forall s k,
  hask k (s_alloc s) = true -> names_of s <> [].
Proof. exact names_nonempty. Qed.
Print Assumptions c05_reserved_dimensions_nonempty.

(* ---- deleted reservations ---- *)

(* for ALL node-stable histories of entry points, informer events included (each delivered to the
   plugin's handler and to the scheduler-wide handler in either order, delete events possibly as
   tombstones): a reservation reported deleted and not delivered again since (dead_of) is in none
   of the three per-node indexes, and is gone from the cache when the event carried its node name *)
Theorem c05_deleted_unreferenced : forall hs,
  stable_along init_cache hs = true ->
  dead_gone (dead_of init_cache [] hs) (hrun init_cache hs).
Proof. exact deleted_unreferenced. Qed.
Print Assumptions c05_deleted_unreferenced.

Theorem c05_deleted_needs_stable_nodes :
  stable_along init_cache witness_dead = false
  /\ dead_of init_cache [] witness_dead = [(1, true)]
  /\ idx_mem 1 1 (on_node (hrun init_cache witness_dead)) = true.
Proof. exact dead_needs_stable_nodes. Qed.
Print Assumptions c05_deleted_needs_stable_nodes.

(* observation on the real code, replayed as corpus cases r4d / r4e: a nodeName change of an available
   reservation delivered plugin-listener-first leaves a dangling matchableOnNode entry *)
Theorem c05_node_migration_dangling :
  (let c := hrun init_cache (witness_migration 0) in
   infos c = [] /\ idx_mem 2 1 (matchable c) = true /\ visit 2 c = [-1])
  /\ (let c := hrun init_cache (witness_migration 1) in
      map r_uid (infos c) = [1] /\ matchable c = [(2, [1])] /\ visit 2 c = [1])
  /\ stable_along init_cache (witness_migration 0) = false.
Proof. exact node_migration_dangling. Qed.
Print Assumptions c05_node_migration_dangling.

(* ---- scheduling cycles ---- *)

(* a pod is assumed into reservation t by a scheduling cycle only if t is visited on the node
   (matchableOnNode), is not allocate-once-and-used at that moment, and -- Restricted -- the
   fit check passes at that moment *)
Theorem c05_schedule_admits : forall c pu req n t,
  lower c (HSchedule pu req n t) = [CAddPod t pu req] ->
  exists i, find_info t (infos c) = Some i
            /\ idx_mem n t (matchable c) = true
            /\ nominate_gate i = true
            /\ (s_policy (r_spec i) = 2 -> fits_reservation i req [] = []).
Proof. exact schedule_admits. Qed.
Print Assumptions c05_schedule_admits.

Theorem c05_schedule_only_admits : forall c pu req n t,
  lower c (HSchedule pu req n t) = [CAddPod t pu req] \/ lower c (HSchedule pu req n t) = [].
Proof. exact schedule_nothing. Qed.
Print Assumptions c05_schedule_only_admits.

(* ---- allocate-once ---- *)

Theorem c05_allocate_once : forall i,
  s_once (r_spec i) = true -> r_assigned i <> [] ->
  is_matchable i = false /\ nominate_gate i = false.
Proof. exact allocate_once_gate. Qed.
Print Assumptions c05_allocate_once.

(* ---- owners ---- *)

Theorem c05_owner : forall ws p, match_owners ws p = true <-> owners_spec ws p.
Proof. exact owner_match. Qed.
Print Assumptions c05_owner.

Theorem c05_owner_none : forall p, match_owners [] p = false.
Proof. exact owner_none. Qed.
Print Assumptions c05_owner_none.

(* ---- per-node indexes: for ALL histories that keep node names stable ---- *)

Theorem c05_index : forall l,
  all_along node_stable_op init_cache l = true ->
  index_sound (crun init_cache l) /\ index_complete (crun init_cache l)
  /\ nomination_ok (crun init_cache l).
Proof. exact index_invariants_stable_histories. Qed.
Print Assumptions c05_index.

(* the same for histories of ENTRY POINTS (event handlers, assume/forget of pods,
   Plugin.Reserve / Plugin.Unreserve of a reserve pod on the node named by the call, and whole
   scheduling cycles BeforePreFilter -> Filter -> NominateReservation -> Reserve of a pod) *)
Theorem c05_index_entry_points : forall hs,
  all_along node_stable_op init_cache (hops_cops init_cache hs) = true ->
  index_sound (hrun init_cache hs) /\ index_complete (hrun init_cache hs)
  /\ nomination_ok (hrun init_cache hs).
Proof. exact index_invariants_entry_points. Qed.
Print Assumptions c05_index_entry_points.

(* the same from a hypothesis on the event list alone: every event of a reservation carries
   one and the same node name *)
Theorem c05_index_by_event_nodes : forall nodeof l,
  Forall (carries nodeof) l ->
  index_sound (crun init_cache l) /\ index_complete (crun init_cache l)
  /\ nomination_ok (crun init_cache l).
Proof. exact index_invariants_by_event_nodes. Qed.
Print Assumptions c05_index_by_event_nodes.

Theorem c05_index_needs_stable_nodes :
  all_along node_stable_op init_cache witness_unstable = false
  /\ idx_mem 1 1 (on_node (crun init_cache witness_unstable)) = true
  /\ find_info 1 (infos (crun init_cache witness_unstable)) = None.
Proof. exact index_sound_needs_stable_nodes. Qed.
Print Assumptions c05_index_needs_stable_nodes.

(* ---- the decision procedure that judges the implementation, on the model's own trace:
        every view dumped after every entry point of every history passes ---- *)

Theorem c05_trace : forall hs,
  hist_nonneg hs = true ->
  all_zero (codes (claims init_cache hs) hs (flags_of hs) [] (views_of hs)) = true.
Proof. exact trace_full. Qed.
Print Assumptions c05_trace.

(* ---- the same through the wire codec: the functions the extracted runner executes
        (Extract.v: run_case / prop_case of each stream), composed, give 0 ---- *)

Theorem c05_model_passes_own_check : forall inp,
  hist_nonneg (dec_history inp) = true ->
  prop_history inp (run_history inp) = 0.
Proof. exact model_passes_own_check. Qed.
Print Assumptions c05_model_passes_own_check.

Theorem c05_fits_model_passes : forall inp, prop_fits inp (run_fits inp) = 0.
Proof. exact fits_model_passes. Qed.
Print Assumptions c05_fits_model_passes.

Theorem c05_owners_model_passes : forall inp, prop_owners inp (run_owners inp) = 0.
Proof. exact owners_model_passes. Qed.
Print Assumptions c05_owners_model_passes.

(* regression for finding 1: the update as it was before 75e0c17 (model flag old = true) *)
Example c05_old_update_loses_held :
  getv 4 (r_allocated (update_info_gen true grow_info grow_spec)) = 0
  /\ held (update_info_gen true grow_info grow_spec) 4 = 7
  /\ getv 4 (r_allocated (update_info_gen false grow_info grow_spec)) = 7.
Proof. exact old_update_loses_held. Qed.

(* ---- non-vacuity ---- *)

Definition ex_spec (alloc : res) : rspec := mkSpec 1 1 1 false true 2 0 [] alloc [] false 0.
Definition ex_hist : list hop :=
  [ HRsvAdd (ex_spec [(1, 8); (4, 16)]);
    HPodAssume 1 1 [(1, 2); (4, 3)];
    HPodAdd (mkPev 2 [(1, 1)] 1 false 1 None);
    HPodAdd (mkPev 3 [(1, 4)] 2 false 0 (Some (mkOpx true false 0 [] [] false 4)));
    HRsvUpdate (ex_spec [(1, 8)]);
    HPodDelete (mkPev 1 [(1, 2); (4, 3)] 1 false 1 None);
    HPodDelete (mkPev 3 [(1, 4)] 2 false 0 (Some (mkOpx true false 0 [] [] false 4)));
    HRsvRemove 1 1 ].

Example ex_hist_hyps :
  hist_nonneg ex_hist = true
  /\ forallb (fun f : flag =>
                f_stable f && match f_last f with Some _ => true | None => false end) (flags_of ex_hist) = true.
Proof. vm_compute. auto. Qed.

Example ex_hist_nontrivial :
  existsb (fun v => existsb (fun i => negb (is_nil (v_assigned i))) (o_infos v))
          (views_of ex_hist) = true.
Proof. vm_compute. reflexivity. Qed.

(* Reserve on node 1, rollback, retry on node 2 of a pending reservation (lister object without
   node name): node-stable, and the indexes follow *)
Definition ex_pending : rspec := mkSpec 2 0 0 false true 0 0 [] [(1, 4)] [] false 0.
Definition ex_retry : list hop :=
  [ HReserveRsv ex_pending 1; HUnreserveRsv ex_pending 1; HReserveRsv ex_pending 2 ].
Example ex_retry_ok :
  all_along node_stable_op init_cache (hops_cops init_cache ex_retry) = true
  /\ on_node (hrun init_cache ex_retry) = [(2, [2])]
  /\ all_zero (codes (claims init_cache ex_retry) ex_retry (flags_of ex_retry) [] (views_of ex_retry)) = true.
Proof. vm_compute. auto. Qed.

(* scheduling into a Restricted reservation {cpu: 4}: 3 is admitted, a further 2 is not (the pod
   goes to the node's own resources), an in-place resize of the first pod is followed *)
Definition ex_sched : list hop :=
  [ HRsvAdd (mkSpec 1 1 1 false false 2 0 [] [(1, 4)] [] false 0);
    HSchedule 1 [(1, 3)] 1 1;
    HSchedule 2 [(1, 2)] 1 1;
    HPodUpdate (mkPev 1 [(1, 3)] 1 false 1 None) (mkPev 1 [(1, 1)] 1 false 1 None);
    HSchedule 2 [(1, 2)] 1 1 ].
Example ex_sched_ok :
  map fst (htrace init_cache ex_sched) = [0; 1; 0; 0; 1]
  /\ forallb (fun f : flag =>
                f_stable f && match f_last f with Some _ => true | None => false end) (flags_of ex_sched) = true
  /\ all_zero (codes (claims init_cache ex_sched) ex_sched (flags_of ex_sched) [] (views_of ex_sched)) = true.
Proof. vm_compute. auto. Qed.

(* informer events through both handlers: add, pods assumed, the update to Failed removes the
   reservation (scheduler-wide handler, case 3); re-created, then deleted by a tombstone with the
   scheduler-wide handler first: node-stable, the uid is dead at the end and nothing references it *)
Definition ex_inf_spec (ph : Z) : rspec := mkSpec 1 1 ph false false 2 1 [3] [(1, 4); (4, 8)] [] false 0.
Definition ex_inf : list hop :=
  [ HInfAdd (ex_inf_spec 1) 0;
    HPodAssume 1 1 [(1, 3); (4, 2)];
    HInfUpdate (ex_inf_spec 1) (ex_inf_spec 3) 0;
    HInfAdd (ex_inf_spec 1) 1;
    HPodAssume 1 2 [(1, 1)];
    HInfDelete (ex_inf_spec 1) 1 true ].
Example ex_inf_ok :
  stable_along init_cache ex_inf = true
  /\ dead_of init_cache [] ex_inf = [(1, true)]
  /\ map (fun p : Z * cache => length (infos (snd p))) (htrace init_cache ex_inf) = [1; 1; 0; 1; 1; 0]%nat
  /\ all_zero (codes (claims init_cache ex_inf) ex_inf (flags_of ex_inf) [] (views_of ex_inf)) = true.
Proof. vm_compute. auto. Qed.
(* options naming nothing the reservation reserves: every reserved resource stays restricted *)
Example ex_disjoint_options : names_of (ex_inf_spec 1) = [1; 4].
Proof. vm_compute. reflexivity. Qed.

Example ex_fit_admits :
  fits_reservation (mkInfo (ex_spec [(1, 8)]) [1] [(1, 1)] [(1, 4)] [] false) [(1, 3)] [] = [].
Proof. vm_compute. reflexivity. Qed.
Example ex_fit_rejects :
  fits_reservation (mkInfo (ex_spec [(1, 8)]) [1] [(1, 1)] [(1, 4)] [] false) [(1, 4)] [] = [1].
Proof. vm_compute. reflexivity. Qed.

Example ex_owner_matches :
  match_owners [mkClause None None (Some [mkLreq 1 0 [7]])] (mkOpod 1 1 1 0 [(1, 7)] []) = true.
Proof. vm_compute. reflexivity. Qed.
