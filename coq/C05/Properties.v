(* C05 — exported theorems only. *)
From Coq Require Import List ZArith Bool.
From Verif Require Import C05.Model C05.Spec C05.Proofs.
Import ListNotations.
Open Scope Z_scope.

Theorem c05_allocate_once : forall i,
  s_once (r_spec i) = true -> r_assigned i <> [] ->
  is_matchable i = false /\ nominate_gate i = false.
Proof. exact allocate_once_gate. Qed.
Print Assumptions c05_allocate_once.
