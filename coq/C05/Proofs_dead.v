(* C05 — a reservation the informer reported deleted (event handled by the scheduler-wide handler
   of frameworkext/eventhandlers, which calls ReservationCache.DeleteReservation) is referenced by
   no per-node index afterwards, until an object with its uid is delivered again; it is gone from
   the cache when the delete event carried its node name.  For all node-stable histories. *)
From Coq Require Import List ZArith Bool Lia.
From Verif Require Import C05.Model C05.Spec C05.Proofs_base C05.Proofs_index.
Import ListNotations.
Open Scope Z_scope.

Definition gone1 (u : Z) (hard : bool) (c : cache) : Prop :=
  (forall n, idx_mem n u (on_node c) = false /\ idx_mem n u (matchable c) = false
             /\ idx_mem n u (alloc_idx c) = false)
  /\ (forall i, find_info u (infos c) = Some i -> hard = false /\ r_node i = 0).

Lemma dead_gone_gone1 D c : dead_gone D c <-> (forall u hard, In (u, hard) D -> gone1 u hard c).
Proof. reflexivity. Qed.

Lemma not_true_false b : (b = true -> False) -> b = false.
Proof. destruct b; [intros H; exfalso; apply H; reflexivity|reflexivity]. Qed.

(* ---------- establishing it: DeleteReservation under node stability ---------- *)
Lemma delete_clears u n c :
  n <> 0 -> node_stable_op c (CDelete u n) = true -> jinv c -> gone1 u true (c_delete u n c).
Proof.
  intros Hnz Hst [Hs _]. cbn [node_stable_op] in Hst.
  assert (Hclean : forall n' ix, (idx_mem n' u ix = true -> in_any n' u c) ->
                                 idx_mem n' u (idx_del_clean n u ix) = false).
  { intros n' ix Hin. rewrite idx_mem_del_clean. destruct (idx_mem n' u ix) eqn:E; [|reflexivity].
    destruct (Hs n' u (Hin eq_refl)) as [i0 [Hf [Hn0 Hnz']]]. rewrite Hf in Hst.
    apply orb_true_iff in Hst. destruct Hst as [H|H]; apply Z.eqb_eq in H; [lia|].
    assert (n' = n) as -> by lia. rewrite !Z.eqb_refl. reflexivity. }
  split.
  - intros n'. unfold c_delete. cbn [on_node matchable alloc_idx].
    assert (n =? 0 = false) as -> by (apply Z.eqb_neq; exact Hnz).
    repeat split; apply Hclean; intros H; [left|right; left|right; right]; exact H.
  - intros i Hf. cbn [c_delete infos] in Hf. rewrite find_info_del, Z.eqb_refl in Hf. discriminate Hf.
Qed.

(* no entry of u anywhere when the cached object (if any) has no node *)
Lemma nodeless_gone u c :
  jinv c -> (forall i, find_info u (infos c) = Some i -> r_node i = 0) -> gone1 u false c.
Proof.
  intros [Hs _] Hn. split.
  - intros n.
    assert (H : forall ix, (idx_mem n u ix = true -> in_any n u c) -> idx_mem n u ix = false).
    { intros ix Hin. apply not_true_false. intros E. destruct (Hs n u (Hin E)) as [i [Hf [Hni Hnz]]].
      specialize (Hn i Hf). lia. }
    repeat split; apply H; intros E; [left|right; left|right; right]; exact E.
  - intros i Hf. split; [reflexivity|apply Hn, Hf].
Qed.

Lemma failed_uid s : s_uid (if is_available s then set_phase s 3 else s) = s_uid s.
Proof. destruct (is_available s); reflexivity. Qed.
Lemma failed_node s : s_node (if is_available s then set_phase s 3 else s) = s_node s.
Proof. destruct (is_available s); reflexivity. Qed.

Lemma update_absent own s c :
  find_info (s_uid s) (infos c) = None -> c_update true own s c = c.
Proof. intros H. unfold c_update. rewrite H. reflexivity. Qed.

Lemma all_along_one P c o : all_along P c [o] = P c o.
Proof. cbn. apply andb_true_r. Qed.
Lemma all_along_two P c o1 o2 : all_along P c [o1; o2] = P c o1 && P (cstep c o1) o2.
Proof. cbn. rewrite andb_true_r. reflexivity. Qed.

Lemma inf_delete_gone c s who tomb :
  jinv c ->
  hop_stable c (HInfDelete s who tomb) = true ->
  all_along node_stable_op c (lower c (HInfDelete s who tomb)) = true ->
  gone1 (s_uid s) (negb (s_node s =? 0)) (hstep c (HInfDelete s who tomb)).
Proof.
  intros Hj Hh Hst. unfold hstep. cbn [lower hop_stable] in *.
  set (s' := if is_available s then set_phase s 3 else s) in *.
  assert (Hu : s_uid s' = s_uid s) by apply failed_uid.
  assert (Hn : s_node s' = s_node s) by apply failed_node.
  unfold lower_rsv_delete, g_delete in *. fold s' in Hst |- *.
  destruct (s_node s =? 0) eqn:Ez.
  - (* the event has no node name: the scheduler-wide handler does nothing *)
    apply Z.eqb_eq in Ez. cbn [negb].
    assert (Hnode : forall i, find_info (s_uid s) (infos c) = Some i -> r_node i = 0).
    { intros i Hf. cbn [node_stable_op] in Hh. rewrite Hf in Hh.
      apply orb_true_iff in Hh. destruct Hh as [H|H]; apply Z.eqb_eq in H; lia. }
    pose proof (nodeless_gone (s_uid s) c Hj Hnode) as Hng.
    assert (Hupd : gone1 (s_uid s) false (c_update true 0 s' c)).
    { destruct (find_info (s_uid s) (infos c)) as [i0|] eqn:Ef.
      - destruct Hng as [Hidx _].
        unfold c_update. rewrite Hu, Ef. rewrite Hn.
        assert (s_node s =? 0 = true) as -> by (apply Z.eqb_eq; exact Ez).
        split; [exact Hidx|]. intros i Hf. cbn [infos] in Hf.
        rewrite find_info_set in Hf. unfold r_uid in Hf. rewrite add_owner_spec in Hf.
        cbn [update_info update_info_gen r_spec] in Hf. rewrite Hu, Z.eqb_refl in Hf.
        inversion Hf; subst i. split; [reflexivity|]. unfold r_node. rewrite add_owner_spec.
        cbn [update_info update_info_gen r_spec]. lia.
      - rewrite update_absent by (rewrite Hu; exact Ef). exact Hng. }
    unfold compose. destruct (who =? 1); [|destruct (who =? 2)]; cbn [app crun fold_left cstep].
    + exact Hupd.
    + exact Hng.
    + exact Hupd.
  - (* the event names the node: DeleteReservation *)
    assert (Hnz : s_node s <> 0) by (apply Z.eqb_neq; exact Ez). cbn [negb].
    unfold compose in *. destruct (who =? 1); [|destruct (who =? 2)];
      cbn [app] in *; cbn [crun fold_left cstep].
    + (* scheduler-wide handler first *)
      rewrite all_along_two in Hst. apply andb_true_iff in Hst. destruct Hst as [H1 _].
      pose proof (delete_clears (s_uid s) (s_node s) c Hnz H1 Hj) as Hg.
      rewrite update_absent; [exact Hg|]. rewrite Hu. cbn [c_delete infos].
      rewrite find_info_del, Z.eqb_refl. reflexivity.
    + rewrite all_along_one in Hst. apply delete_clears; assumption.
    + (* plugin handler first *)
      rewrite all_along_two in Hst. apply andb_true_iff in Hst. destruct Hst as [H1 H2].
      cbn [cstep] in H2. apply delete_clears; [exact Hnz|exact H2|].
      apply jinv_update; assumption.
Qed.

(* ---------- keeping it: operations that do not deliver an object of uid u ---------- *)
Lemma gone1_touch u hard c i0 I a :
  find_info (r_uid i0) (infos c) = Some i0 -> r_spec I = r_spec i0 ->
  (forall n, idx_mem n u a = true ->
             idx_mem n u (alloc_idx c) = true \/ (u = r_uid i0 /\ r_node i0 <> 0)) ->
  gone1 u hard c -> gone1 u hard (mkCache (set_info I (infos c)) (on_node c) (matchable c) a).
Proof.
  intros Hf Hsp Ha [Hidx Hinf]. split.
  - intros n. destruct (Hidx n) as [H1 [H2 H3]]. cbn [on_node matchable alloc_idx].
    repeat split; auto. apply not_true_false. intros E.
    destruct (Ha n E) as [H|[Hu Hnz]]; [congruence|]. subst u.
    destruct (Hinf i0 Hf) as [_ H0]. contradiction.
  - intros i Hfi. cbn [infos] in Hfi. rewrite find_info_set in Hfi.
    assert (Huid : r_uid I = r_uid i0) by (unfold r_uid; rewrite Hsp; reflexivity).
    rewrite Huid in Hfi. destruct (r_uid i0 =? u) eqn:E.
    + apply Z.eqb_eq in E. subst u. inversion Hfi; subst i.
      destruct (Hinf i0 Hf) as [Hh H0]. split; [exact Hh|]. unfold r_node in *. rewrite Hsp. exact H0.
    + apply Hinf, Hfi.
Qed.

Lemma gone1_del_pod u hard ru pu c : gone1 u hard c -> gone1 u hard (c_del_pod ru pu c).
Proof.
  intros Hg. unfold c_del_pod. destruct (find_info ru (infos c)) as [i0|] eqn:Ef; [|exact Hg].
  apply (gone1_touch u hard c i0); auto.
  - apply (find_info_uid _ _ _ Ef).
  - apply remove_assigned_spec.
  - intros n H. unfold unmark_allocated in H.
    destruct (is_nil (r_assigned (remove_assigned i0 pu)) && negb (r_node (remove_assigned i0 pu) =? 0));
      [|left; exact H].
    rewrite idx_mem_del_clean in H. apply andb_true_iff in H. left. apply H.
Qed.

Lemma mark_allocated_sub u i0 I a n :
  r_spec I = r_spec i0 ->
  idx_mem n u (mark_allocated I a) = true ->
  idx_mem n u a = true \/ (u = r_uid i0 /\ r_node i0 <> 0).
Proof.
  intros Hsp H. unfold mark_allocated in H.
  assert (Hu : r_uid I = r_uid i0) by (unfold r_uid; rewrite Hsp; reflexivity).
  assert (Hnd : r_node I = r_node i0) by (unfold r_node; rewrite Hsp; reflexivity).
  destruct (is_matchable I && negb (is_nil (r_assigned I)) && negb (r_node I =? 0)) eqn:E;
    [|left; exact H].
  rewrite idx_mem_add in H. apply orb_true_iff in H. destruct H as [H|H]; [left; exact H|].
  apply andb_true_iff in H. destruct H as [_ H2]. apply Z.eqb_eq in H2.
  apply andb_true_iff in E. destruct E as [_ E]. apply negb_true_iff, Z.eqb_neq in E.
  right. split; [congruence|congruence].
Qed.

Lemma gone1_cstep u hard c o : touches u o = false -> gone1 u hard c -> gone1 u hard (cstep c o).
Proof.
  intros Ht Hg. destruct o as [b own s|u' n'|ru pu req|ru pu|oru nru op np]; cbn [cstep].
  - (* CUpdate of another uid *)
    cbn [touches] in Ht. apply Z.eqb_neq in Ht. destruct Hg as [Hidx Hinf].
    assert (Hplace : forall (I : rinfo) (bb : bool), r_uid I = s_uid s ->
              gone1 u hard (if s_node s =? 0
                            then mkCache (set_info I (infos c)) (on_node c) (matchable c) (alloc_idx c)
                            else let '(m, a) := refresh (s_node s) (s_uid s) I (matchable c) (alloc_idx c) in
                                 mkCache (set_info I (infos c))
                                         (if bb then on_node c else idx_add (s_node s) (s_uid s) (on_node c)) m a)).
    { intros I bb HI.
      assert (Hfind : forall cc, infos cc = set_info I (infos c) ->
                forall i, find_info u (infos cc) = Some i -> hard = false /\ r_node i = 0).
      { intros cc Hcc i Hf. rewrite Hcc, find_info_set, HI in Hf.
        assert (s_uid s =? u = false) as E by (apply Z.eqb_neq; exact Ht). rewrite E in Hf.
        apply Hinf, Hf. }
      destruct (s_node s =? 0).
      - split; [exact Hidx|]. apply Hfind. reflexivity.
      - destruct (refresh (s_node s) (s_uid s) I (matchable c) (alloc_idx c)) as [m a] eqn:Er.
        split; [|apply Hfind; reflexivity].
        intros n. destruct (Hidx n) as [H1 [H2 H3]]. cbn [on_node matchable alloc_idx].
        assert (Hne : (n =? s_node s) && (u =? s_uid s) = false).
        { assert (u =? s_uid s = false) as -> by (apply Z.eqb_neq; intro E; apply Ht; auto).
          apply andb_false_r. }
        repeat split.
        + destruct bb; [exact H1|]. rewrite idx_mem_add, H1, Hne. reflexivity.
        + assert (Em : m = fst (refresh (s_node s) (s_uid s) I (matchable c) (alloc_idx c)))
            by (rewrite Er; reflexivity).
          rewrite Em, refresh_matchable, H2, Hne. destruct (is_matchable I); reflexivity.
        + apply not_true_false. intros E.
          assert (Ea : a = snd (refresh (s_node s) (s_uid s) I (matchable c) (alloc_idx c)))
            by (rewrite Er; reflexivity).
          rewrite Ea in E. apply refresh_alloc_sub in E. destruct E as [E|[_ E]]; [congruence|].
          apply Ht. auto. }
    unfold c_update. destruct (find_info (s_uid s) (infos c)) as [i0|].
    + apply Hplace. unfold r_uid. rewrite add_owner_spec. reflexivity.
    + destruct b; [split; assumption|].
      apply (Hplace _ false). unfold r_uid. rewrite add_owner_spec. reflexivity.
  - (* CDelete: entries only disappear *)
    destruct Hg as [Hidx Hinf]. split.
    + intros n. destruct (Hidx n) as [H1 [H2 H3]]. unfold c_delete. cbn [on_node matchable alloc_idx].
      repeat split.
      * destruct (n' =? 0); [exact H1|]. rewrite idx_mem_del_clean, H1. reflexivity.
      * rewrite idx_mem_del_clean, H2. reflexivity.
      * rewrite idx_mem_del_clean, H3. reflexivity.
    + intros i Hf. cbn [c_delete infos] in Hf. rewrite find_info_del in Hf.
      destruct (u =? u'); [discriminate Hf|]. apply Hinf, Hf.
  - (* CAddPod *)
    unfold c_add_pod. destruct (find_info ru (infos c)) as [i0|] eqn:Ef; [|exact Hg].
    destruct (s_term (r_spec i0)); [exact Hg|]. cbn [fst].
    apply (gone1_touch u hard c i0); auto.
    + apply (find_info_uid _ _ _ Ef).
    + apply add_assigned_spec.
    + intros n H. apply (mark_allocated_sub u i0 _ _ n (add_assigned_spec i0 pu req) H).
  - apply gone1_del_pod, Hg.
  - (* CUpdatePod *)
    unfold c_update_pod.
    set (c1 := match op with Some q => c_del_pod oru (fst q) c | None => c end).
    assert (H1 : gone1 u hard c1) by (unfold c1; destruct op; [apply gone1_del_pod, Hg|exact Hg]).
    destruct np as [q|]; [|exact H1].
    destruct (find_info nru (infos c1)) as [i0|] eqn:Ef; [|exact H1].
    apply (gone1_touch u hard c1 i0); auto.
    + apply (find_info_uid _ _ _ Ef).
    + apply add_assigned_spec.
    + intros n H. apply (mark_allocated_sub u i0 _ _ n (add_assigned_spec i0 (fst q) (snd q)) H).
Qed.

Lemma gone1_run u hard : forall l c,
  existsb (touches u) l = false -> gone1 u hard c -> gone1 u hard (crun c l).
Proof.
  induction l as [|o t IH]; intros c Ht Hg; [exact Hg|].
  cbn [existsb] in Ht. apply orb_false_iff in Ht. destruct Ht as [H1 H2].
  cbn [crun fold_left]. apply IH; [exact H2|]. apply gone1_cstep; assumption.
Qed.

Lemma In_undead d D l : In d (undead D l) <-> In d D /\ existsb (touches (fst d)) l = false.
Proof.
  unfold undead. rewrite filter_In. split; intros [H1 H2]; split; auto.
  - apply negb_true_iff. exact H2.
  - apply negb_true_iff. exact H2.
Qed.

(* one entry point of a node-stable history *)
Lemma dead_gone_hstep D c h :
  jinv c -> hop_stable c h = true -> all_along node_stable_op c (lower c h) = true ->
  dead_gone D c -> dead_gone (next_dead c h D) (hstep c h).
Proof.
  intros Hj Hh Hst Hd u hard Hin. unfold next_dead in Hin. apply in_app_iff in Hin.
  destruct Hin as [Hin|Hin].
  - destruct h; cbn [deleted_by] in Hin; try (destruct Hin; fail).
    destruct Hin as [Hin|[]]. inversion Hin; subst u hard. apply inf_delete_gone; assumption.
  - apply In_undead in Hin. destruct Hin as [Hin Ht]. cbn [fst] in Ht.
    unfold hstep. apply gone1_run; [exact Ht|]. apply (Hd u hard Hin).
Qed.

Lemma dead_gone_init : dead_gone [] init_cache.
Proof. intros u hard []. Qed.

(* whole node-stable histories of entry points: dead_of = the reservations reported deleted and
   not delivered again since *)
Fixpoint dead_of (c : cache) (D : dead) (hs : list hop) : dead :=
  match hs with
  | [] => D
  | h :: t => dead_of (hstep c h) (next_dead c h D) t
  end.
Fixpoint stable_along (c : cache) (hs : list hop) : bool :=
  match hs with
  | [] => true
  | h :: t => all_along node_stable_op c (lower c h) && hop_stable c h && stable_along (hstep c h) t
  end.

Lemma dead_gone_hrun : forall hs c D,
  stable_along c hs = true -> jinv c -> dead_gone D c -> dead_gone (dead_of c D hs) (hrun c hs).
Proof.
  induction hs as [|h t IH]; intros c D Hst Hj Hd; [exact Hd|].
  cbn [stable_along] in Hst. apply andb_true_iff in Hst. destruct Hst as [Hst Ht].
  apply andb_true_iff in Hst. destruct Hst as [H1 H2].
  cbn [dead_of hrun fold_left]. apply IH; [exact Ht| |].
  - unfold hstep. apply jinv_run; assumption.
  - apply dead_gone_hstep; assumption.
Qed.

Lemma deleted_unreferenced hs :
  stable_along init_cache hs = true ->
  dead_gone (dead_of init_cache [] hs) (hrun init_cache hs).
Proof. intros H. apply dead_gone_hrun; [exact H|apply jinv_init|apply dead_gone_init]. Qed.

(* without node stability the statement fails: the delete event names another node than the one
   the reservation is cached on *)
Definition witness_dead : list hop :=
  [ HRsvAdd (mkSpec 1 1 1 false false 0 0 [] [(1, 8)] [] false 0);
    HInfDelete (mkSpec 1 2 1 false false 0 0 [] [(1, 8)] [] false 0) 0 true ].
Lemma dead_needs_stable_nodes :
  stable_along init_cache witness_dead = false
  /\ dead_of init_cache [] witness_dead = [(1, true)]
  /\ idx_mem 1 1 (on_node (hrun init_cache witness_dead)) = true.
Proof. repeat split; vm_compute; reflexivity. Qed.

(* OBSERVATION on the real code (findings/C05-node-migration-dangling-index.md): an informer Update
   that moves an available reservation to another node ("case 1" of the scheduler-wide handler,
   nodeName change).  Plugin listener first: the plugin re-indexes the reservation under the new
   node, then the scheduler-wide handler deletes the ReservationInfo with the OLD object, so
   matchableOnNode[new node] keeps a uid without ReservationInfo (ForEachMatchableReservationOnNode
   hands nil to the plugin).  Scheduler-wide listener first: consistent.  Outside node stability. *)
Definition mig_spec (n : Z) : rspec := mkSpec 1 n 1 false false 0 0 [] [(1, 4000)] [] false 0.
Definition witness_migration (who : Z) : list hop :=
  [ HInfAdd (mig_spec 1) 0; HInfUpdate (mig_spec 1) (mig_spec 2) who ].
Lemma node_migration_dangling :
  (let c := hrun init_cache (witness_migration 0) in
   infos c = [] /\ idx_mem 2 1 (matchable c) = true /\ visit 2 c = [-1])
  /\ (let c := hrun init_cache (witness_migration 1) in
      map r_uid (infos c) = [1] /\ matchable c = [(2, [1])] /\ visit 2 c = [1])
  /\ stable_along init_cache (witness_migration 0) = false.
Proof. repeat split; vm_compute; reflexivity. Qed.
