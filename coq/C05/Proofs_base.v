(* C05 — basic lemmas: membership, sorting, resource lists, index operations. *)
From Coq Require Import List ZArith Bool Lia Permutation.
From Verif Require Import C05.Model.
Import ListNotations.
Open Scope Z_scope.

(* ---------- memZ ---------- *)
Lemma memZ_In x l : memZ x l = true <-> In x l.
Proof.
  unfold memZ. rewrite existsb_exists. split.
  - intros [y [Hy E]]. apply Z.eqb_eq in E. subst. exact Hy.
  - intros H. exists x. split; [exact H|apply Z.eqb_refl].
Qed.

Lemma memZ_false_In x l : memZ x l = false <-> ~ In x l.
Proof.
  rewrite <- memZ_In. destruct (memZ x l); split; intros; try congruence; try tauto.
Qed.

Lemma memZ_app x a b : memZ x (a ++ b) = memZ x a || memZ x b.
Proof. unfold memZ. apply existsb_app. Qed.

Lemma memZ_cons x y l : memZ x (y :: l) = (x =? y) || memZ x l.
Proof. reflexivity. Qed.

Lemma is_nil_true {A} (l : list A) : is_nil l = true <-> l = [].
Proof. destruct l; cbn; split; congruence. Qed.
Lemma is_nil_false {A} (l : list A) : is_nil l = false <-> l <> [].
Proof. destruct l; cbn; split; congruence. Qed.

(* ---------- insertion sort is a permutation ---------- *)
Lemma ins_by_perm {A} (key : A -> Z) x l : Permutation (x :: l) (ins_by key x l).
Proof.
  induction l as [|y t IH]; cbn; [apply Permutation_refl|].
  destruct (key x <=? key y); [apply Permutation_refl|].
  eapply Permutation_trans; [apply perm_swap|]. apply perm_skip. exact IH.
Qed.

Lemma sort_by_perm {A} (key : A -> Z) l : Permutation l (sort_by key l).
Proof.
  induction l as [|x t IH]; cbn; [apply Permutation_refl|].
  eapply Permutation_trans; [apply perm_skip; exact IH|]. apply ins_by_perm.
Qed.

Lemma In_sort_by {A} (key : A -> Z) l x : In x (sort_by key l) <-> In x l.
Proof.
  split; intros H.
  - eapply Permutation_in; [apply Permutation_sym, sort_by_perm|exact H].
  - eapply Permutation_in; [apply sort_by_perm|exact H].
Qed.

Lemma In_sortZ l x : In x (sortZ l) <-> In x l.
Proof. apply In_sort_by. Qed.

Lemma memZ_sortZ x l : memZ x (sortZ l) = memZ x l.
Proof.
  destruct (memZ x l) eqn:E.
  - apply memZ_In. apply In_sortZ. apply memZ_In. exact E.
  - apply memZ_false_In. intro H. apply (proj1 (In_sortZ l x)) in H.
    apply (proj2 (memZ_In x l)) in H. congruence.
Qed.

Lemma forallb_perm {A} (f : A -> bool) l l' : Permutation l l' -> forallb f l = forallb f l'.
Proof.
  induction 1; cbn; try congruence.
  - destruct (f x), (f y); reflexivity.
Qed.

Lemma forallb_sort_by {A} (key : A -> Z) (f : A -> bool) l :
  forallb f (sort_by key l) = forallb f l.
Proof. symmetry. apply forallb_perm, sort_by_perm. Qed.

Lemma sumZ_app a b : sumZ (a ++ b) = sumZ a + sumZ b.
Proof. induction a; cbn; lia. Qed.

Lemma sumZ_perm l l' : Permutation l l' -> sumZ l = sumZ l'.
Proof. induction 1; cbn; lia. Qed.

Lemma sumZ_map_sort_by {A} (key : A -> Z) (f : A -> Z) l :
  sumZ (map f (sort_by key l)) = sumZ (map f l).
Proof. symmetry. apply sumZ_perm, Permutation_map, sort_by_perm. Qed.

Lemma is_nil_sort_by {A} (key : A -> Z) (l : list A) : is_nil (sort_by key l) = is_nil l.
Proof.
  destruct l as [|x t]; [reflexivity|]. cbn [is_nil].
  destruct (sort_by key (x :: t)) eqn:E; [|reflexivity].
  exfalso. assert (H : In x (sort_by key (x :: t))) by (apply In_sort_by; left; reflexivity).
  rewrite E in H. destruct H.
Qed.

Lemma is_nil_map {A B} (f : A -> B) l : is_nil (map f l) = is_nil l.
Proof. destruct l; reflexivity. Qed.

Lemma sumZ_zero {A} (l : list A) : sumZ (map (fun _ => 0) l) = 0.
Proof. induction l; cbn; lia. Qed.

Lemma sumZ_nonneg l : (forall x, In x l -> 0 <= x) -> 0 <= sumZ l.
Proof.
  induction l as [|a t IH]; cbn; intros H; [lia|].
  assert (0 <= a) by (apply H; left; reflexivity).
  assert (0 <= sumZ t) by (apply IH; intros; apply H; right; assumption). lia.
Qed.

Lemma sumZ_le {A} (f g : A -> Z) l :
  (forall x, In x l -> f x <= g x) -> sumZ (map f l) <= sumZ (map g l).
Proof.
  induction l as [|a t IH]; cbn; intros H; [lia|].
  assert (f a <= g a) by (apply H; left; reflexivity).
  assert (sumZ (map f t) <= sumZ (map g t)) by (apply IH; intros; apply H; right; assumption).
  lia.
Qed.

Lemma sumZ_ext {A} (f g : A -> Z) l :
  (forall x, In x l -> f x = g x) -> sumZ (map f l) = sumZ (map g l).
Proof.
  induction l as [|a t IH]; cbn; intros H; [reflexivity|].
  rewrite (H a) by (left; reflexivity). rewrite IH; [reflexivity|].
  intros; apply H; right; assumption.
Qed.

(* ---------- resource lists ---------- *)
Lemma hask_keys k r : hask k r = memZ k (keys r).
Proof.
  induction r as [|e t IH]; cbn; [reflexivity|]. rewrite IH.
  rewrite (Z.eqb_sym k (fst e)). reflexivity.
Qed.

Lemma getv_nohask k r : hask k r = false -> getv k r = 0.
Proof.
  induction r as [|e t IH]; cbn; [reflexivity|]. intros H.
  apply orb_false_iff in H. destruct H as [H1 H2]. rewrite H1. apply IH, H2.
Qed.

Lemma getv_tab k ks f : getv k (tab ks f) = if memZ k ks then f k else 0.
Proof.
  induction ks as [|a t IH]; cbn; [reflexivity|].
  rewrite (Z.eqb_sym k a). destruct (a =? k) eqn:E.
  - apply Z.eqb_eq in E. subst. reflexivity.
  - cbn. exact IH.
Qed.

Lemma getv_radd k a b : getv k (radd a b) = getv k a + getv k b.
Proof.
  unfold radd. rewrite getv_tab, memZ_app, <- !hask_keys.
  destruct (hask k a) eqn:Ea, (hask k b) eqn:Eb; cbn; try reflexivity.
  rewrite (getv_nohask k a Ea), (getv_nohask k b Eb). reflexivity.
Qed.

Lemma getv_rsub_nn k a b : getv k (rsub_nn a b) = Z.max 0 (getv k a - getv k b).
Proof.
  unfold rsub_nn. rewrite getv_tab, memZ_app, <- !hask_keys.
  destruct (hask k a) eqn:Ea, (hask k b) eqn:Eb; cbn; try reflexivity.
  rewrite (getv_nohask k a Ea), (getv_nohask k b Eb). reflexivity.
Qed.

Lemma getv_rmask k r names : getv k (rmask r names) = if memZ k names then getv k r else 0.
Proof.
  induction r as [|e t IH]; cbn.
  - destruct (memZ k names); reflexivity.
  - destruct (memZ (fst e) names) eqn:Em; cbn.
    + destruct (fst e =? k) eqn:E.
      * apply Z.eqb_eq in E. subst. rewrite Em. reflexivity.
      * exact IH.
    + destruct (fst e =? k) eqn:E.
      * apply Z.eqb_eq in E. subst. rewrite Em in *. exact IH.
      * exact IH.
Qed.

Lemma getv_nil k : getv k [] = 0.
Proof. reflexivity. Qed.

Lemma res_nonneg_getv r k : res_nonneg r = true -> 0 <= getv k r.
Proof.
  unfold res_nonneg. induction r as [|e t IH]; cbn; intros H; [lia|].
  apply andb_true_iff in H. destruct H as [H1 H2].
  destruct (fst e =? k); [lia|apply IH, H2].
Qed.

(* ---------- per-node indexes ---------- *)
Lemma memZ_set_add x u s : memZ x (set_add u s) = memZ x s || (x =? u).
Proof.
  unfold set_add. destruct (memZ u s) eqn:E.
  - destruct (x =? u) eqn:Ex; [|rewrite orb_false_r; reflexivity].
    apply Z.eqb_eq in Ex. subst. rewrite E. reflexivity.
  - rewrite memZ_app. cbn. rewrite orb_false_r. reflexivity.
Qed.

Lemma memZ_set_del x u s : memZ x (set_del u s) = memZ x s && negb (x =? u).
Proof.
  unfold set_del. induction s as [|a t IH]; [reflexivity|].
  cbn [filter]. rewrite memZ_cons. destruct (a =? u) eqn:Ea; cbn [negb].
  - rewrite IH. destruct (x =? a) eqn:Exa; cbn [orb]; [|reflexivity].
    apply Z.eqb_eq in Exa, Ea. subst. rewrite Z.eqb_refl. cbn [negb].
    rewrite andb_false_r. reflexivity.
  - rewrite memZ_cons, IH. destruct (x =? a) eqn:Exa; cbn [orb andb]; [|reflexivity].
    apply Z.eqb_eq in Exa. subst. rewrite Ea. reflexivity.
Qed.

Lemma idx_mem_nil n u : idx_mem n u [] = false.
Proof. reflexivity. Qed.

Lemma idx_set_app n a b : idx_set n (a ++ b) = idx_set n a ++ idx_set n b.
Proof. unfold idx_set. apply flat_map_app. Qed.

Lemma idx_set_cons n e t :
  idx_set n (e :: t) = (if fst e =? n then snd e else []) ++ idx_set n t.
Proof. reflexivity. Qed.

Lemma idx_haskey_cons n e t : idx_haskey n (e :: t) = (fst e =? n) || idx_haskey n t.
Proof. reflexivity. Qed.

Lemma idx_mem_add_map n u n' u' ix :
  memZ u' (idx_set n' (map (fun e : Z * list Z =>
                             if fst e =? n then (fst e, set_add u (snd e)) else e) ix))
  = memZ u' (idx_set n' ix) || ((n' =? n) && (u' =? u) && idx_haskey n ix).
Proof.
  induction ix as [|e t IH].
  - cbn. rewrite andb_false_r. reflexivity.
  - cbn [map]. rewrite !idx_set_cons, !memZ_app, IH, idx_haskey_cons.
    destruct (fst e =? n) eqn:En; cbn [fst snd].
    + apply Z.eqb_eq in En. subst n. destruct (fst e =? n') eqn:En'.
      * apply Z.eqb_eq in En'. subst n'.
        rewrite memZ_set_add, Z.eqb_refl.
        destruct (memZ u' (snd e)), (u' =? u), (memZ u' (idx_set (fst e) t)),
          (idx_haskey (fst e) t); reflexivity.
      * rewrite (Z.eqb_sym n' (fst e)), En'. cbn. reflexivity.
    + destruct (memZ u' (if fst e =? n' then snd e else [])); cbn; reflexivity.
Qed.

Lemma idx_mem_add n u n' u' ix :
  idx_mem n' u' (idx_add n u ix) = idx_mem n' u' ix || ((n' =? n) && (u' =? u)).
Proof.
  unfold idx_mem, idx_add. destruct (idx_haskey n ix) eqn:Eh.
  - rewrite idx_mem_add_map, Eh, andb_true_r. reflexivity.
  - rewrite idx_set_app, memZ_app, idx_set_cons. cbn [fst snd idx_set flat_map].
    rewrite app_nil_r, (Z.eqb_sym n n'). destruct (n' =? n); cbn [andb].
    + rewrite memZ_cons. cbn. rewrite orb_false_r. reflexivity.
    + reflexivity.
Qed.

Lemma idx_mem_del_keep n u n' u' ix :
  idx_mem n' u' (idx_del_keep n u ix) = idx_mem n' u' ix && negb ((n' =? n) && (u' =? u)).
Proof.
  unfold idx_mem, idx_del_keep. induction ix as [|e t IH]; [reflexivity|].
  cbn [map]. rewrite !idx_set_cons, !memZ_app, IH.
  destruct (fst e =? n) eqn:En; cbn [fst snd].
  - apply Z.eqb_eq in En. subst n. destruct (fst e =? n') eqn:En'.
    + apply Z.eqb_eq in En'. subst n'.
      rewrite memZ_set_del, Z.eqb_refl.
      destruct (memZ u' (snd e)), (u' =? u), (memZ u' (idx_set (fst e) t)); reflexivity.
    + rewrite (Z.eqb_sym n' (fst e)), En'. cbn. rewrite andb_true_r. reflexivity.
  - destruct (fst e =? n') eqn:En'.
    + apply Z.eqb_eq in En'. subst n'. rewrite En.
      cbn. rewrite !andb_true_r. reflexivity.
    + cbn. reflexivity.
Qed.

Lemma idx_set_filter_nonempty n' (p : Z * list Z -> bool) ix :
  (forall e, p e = false -> snd e = []) ->
  idx_set n' (filter p ix) = idx_set n' ix.
Proof.
  intros Hp. induction ix as [|e t IH]; [reflexivity|].
  cbn [filter]. destruct (p e) eqn:E.
  - rewrite !idx_set_cons, IH. reflexivity.
  - rewrite idx_set_cons, IH, (Hp e E). destruct (fst e =? n'); reflexivity.
Qed.

Lemma idx_mem_del_clean n u n' u' ix :
  idx_mem n' u' (idx_del_clean n u ix) = idx_mem n' u' ix && negb ((n' =? n) && (u' =? u)).
Proof.
  unfold idx_del_clean, idx_mem. rewrite idx_set_filter_nonempty.
  - apply idx_mem_del_keep.
  - intros e H. apply negb_false_iff in H. apply andb_true_iff in H. destruct H as [_ H].
    apply is_nil_true in H. exact H.
Qed.

Lemma idx_mem_intro n s u ix : In (n, s) ix -> In u s -> idx_mem n u ix = true.
Proof.
  intros Hi Hu. unfold idx_mem. apply memZ_In. unfold idx_set. apply in_flat_map.
  exists (n, s). split; [exact Hi|]. cbn. rewrite Z.eqb_refl. exact Hu.
Qed.

Lemma idx_mem_elim n u ix : idx_mem n u ix = true -> exists s, In (n, s) ix /\ In u s.
Proof.
  unfold idx_mem. intros H. apply memZ_In in H. unfold idx_set in H.
  apply in_flat_map in H. destruct H as [[n0 s] [Hi Hu]]. cbn in Hu.
  destruct (n0 =? n) eqn:E; [|destruct Hu]. apply Z.eqb_eq in E. subst. exists s. auto.
Qed.

(* ---------- infos ---------- *)
Lemma find_info_some u l i : find_info u l = Some i -> In i l /\ r_uid i = u.
Proof.
  unfold find_info. intros H. apply find_some in H. destruct H as [H1 H2].
  apply Z.eqb_eq in H2. auto.
Qed.

Lemma find_app_last {A} (P : A -> bool) l x :
  find P (l ++ [x]) = match find P l with
                      | Some y => Some y
                      | None => if P x then Some x else None
                      end.
Proof.
  induction l as [|a t IH]; cbn; [reflexivity|]. destruct (P a); [reflexivity|exact IH].
Qed.

Lemma find_none_existsb {A} (P : A -> bool) l : existsb P l = false -> find P l = None.
Proof.
  induction l as [|a t IH]; cbn; [reflexivity|]. intros H.
  apply orb_false_iff in H. destruct H as [H1 H2]. rewrite H1. apply IH, H2.
Qed.

Lemma find_info_set u i l :
  find_info u (set_info i l) = if r_uid i =? u then Some i else find_info u l.
Proof.
  unfold set_info, find_info.
  destruct (existsb (fun j => r_uid j =? r_uid i) l) eqn:Ex.
  - destruct (r_uid i =? u) eqn:Eu.
    + apply Z.eqb_eq in Eu. subst u.
      induction l as [|a t IH]; [discriminate|].
      cbn [map find]. cbn [existsb] in Ex. destruct (r_uid a =? r_uid i) eqn:Ea.
      * rewrite Z.eqb_refl. reflexivity.
      * rewrite Ea. cbn [orb] in Ex. apply IH, Ex.
    + clear Ex. induction l as [|a t IH]; [reflexivity|].
      cbn [map find]. destruct (r_uid a =? r_uid i) eqn:Ea.
      * rewrite Eu. apply Z.eqb_eq in Ea. rewrite Ea, Eu. exact IH.
      * destruct (r_uid a =? u); [reflexivity|exact IH].
  - rewrite find_app_last. destruct (r_uid i =? u) eqn:Eu.
    + apply Z.eqb_eq in Eu. subst u. rewrite (find_none_existsb _ _ Ex). reflexivity.
    + destruct (find (fun i0 => r_uid i0 =? u) l); reflexivity.
Qed.

Lemma find_info_del u u' l :
  find_info u' (del_info u l) = if u' =? u then None else find_info u' l.
Proof.
  unfold find_info, del_info. induction l as [|a t IH]; cbn.
  - destruct (u' =? u); reflexivity.
  - destruct (r_uid a =? u) eqn:Ea; cbn.
    + rewrite IH. destruct (u' =? u) eqn:Eu; [reflexivity|].
      destruct (r_uid a =? u') eqn:Eau; [|reflexivity].
      apply Z.eqb_eq in Ea, Eau. apply Z.eqb_neq in Eu. lia.
    + destruct (r_uid a =? u') eqn:Eau.
      * destruct (u' =? u) eqn:Eu; [|reflexivity].
        apply Z.eqb_eq in Eau, Eu. apply Z.eqb_neq in Ea. lia.
      * exact IH.
Qed.

Lemma In_set_info j i l : In j (set_info i l) -> j = i \/ In j l.
Proof.
  unfold set_info. destruct (existsb (fun j0 => r_uid j0 =? r_uid i) l).
  - intros H. apply in_map_iff in H. destruct H as [x [Hx Hin]].
    destruct (r_uid x =? r_uid i); [left; congruence|right; subst; exact Hin].
  - intros H. apply in_app_iff in H. destruct H as [H|[H|[]]]; [right|left]; congruence.
Qed.

Lemma In_set_info_other j i l :
  In j (set_info i l) -> j = i \/ (In j l /\ r_uid j <> r_uid i).
Proof.
  unfold set_info. destruct (existsb (fun j0 => r_uid j0 =? r_uid i) l) eqn:Ex.
  - intros H. apply in_map_iff in H. destruct H as [x [Hx Hin]].
    destruct (r_uid x =? r_uid i) eqn:E; [left; congruence|].
    right. subst. split; [exact Hin|]. apply Z.eqb_neq. exact E.
  - intros H. apply in_app_iff in H. destruct H as [H|[H|[]]]; [|left; congruence].
    right. split; [exact H|]. intro E.
    assert (existsb (fun j0 => r_uid j0 =? r_uid i) l = true).
    { apply existsb_exists. exists j. split; [exact H|]. apply Z.eqb_eq. exact E. }
    congruence.
Qed.

Lemma In_del_info j u l : In j (del_info u l) -> In j l /\ r_uid j <> u.
Proof.
  unfold del_info. intros H. apply filter_In in H. destruct H as [H1 H2].
  split; [exact H1|]. apply negb_true_iff in H2. apply Z.eqb_neq. exact H2.
Qed.
