(* C05 / stream "history": op sequences against the reservation cache. *)
From Coq Require Import List ZArith Bool.
From Verif Require Import Lib.Wire C05.Model C05.Spec C05.Codec C05.Trace.
Import ListNotations.
Open Scope Z_scope.

Definition run_case (inp : list Z) : list Z := run_history inp.
Definition prop_case (inp obs : list Z) : Z := prop_history inp obs.
Definition nontrivial_case (inp : list Z) : bool := nontrivial_history inp.
Definition finding_sig (inp obs : list Z) : Z := sig_history inp obs.

Require Extraction.
Require Import ExtrOcamlBasic.
Extraction "model.ml" run_case prop_case nontrivial_case finding_sig.
