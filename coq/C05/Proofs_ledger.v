(* C05 — the ledger invariant: Allocated against the summed requests of the assigned pods. *)
From Coq Require Import List ZArith Bool Lia Permutation.
From Verif Require Import C05.Model C05.Spec C05.Proofs_base.
Import ListNotations.
Open Scope Z_scope.

(* well-formedness of the assigned-pod map: distinct uids, non-negative requests *)
Definition wfi (i : rinfo) : Prop :=
  NoDup (map fst (r_assigned i)) /\ forall q, In q (r_assigned i) -> res_nonneg (snd q) = true.

Definition held_of (names : list Z) (l : list preq) (k : Z) : Z :=
  sumZ (map (fun q : preq => getv k (rmask (snd q) names)) l).

Lemma held_unfold i k : held i k = held_of (r_names i) (r_assigned i) k.
Proof. reflexivity. Qed.

Lemma held_of_alt names l k :
  held_of names l k = if memZ k names then sumZ (map (fun q : preq => getv k (snd q)) l) else 0.
Proof.
  unfold held_of. destruct (memZ k names) eqn:E.
  - apply sumZ_ext. intros q _. rewrite getv_rmask, E. reflexivity.
  - rewrite <- (sumZ_zero l). apply sumZ_ext. intros q _. rewrite getv_rmask, E. reflexivity.
Qed.

Lemma held_of_nonneg names l k :
  (forall q, In q l -> res_nonneg (snd q) = true) -> 0 <= held_of names l k.
Proof.
  intros H. unfold held_of. apply sumZ_nonneg. intros x Hx. apply in_map_iff in Hx.
  destruct Hx as [q [Hq Hin]]. subst x. rewrite getv_rmask.
  destruct (memZ k names); [|lia]. apply res_nonneg_getv, H, Hin.
Qed.

Lemma raw_nonneg (l : list preq) k :
  (forall q, In q l -> res_nonneg (snd q) = true) ->
  0 <= sumZ (map (fun q : preq => getv k (snd q)) l).
Proof.
  intros H. apply sumZ_nonneg. intros x Hx. apply in_map_iff in Hx.
  destruct Hx as [q [Hq Hin]]. subst x. apply res_nonneg_getv, H, Hin.
Qed.

Lemma held_of_app names a b k : held_of names (a ++ b) k = held_of names a k + held_of names b k.
Proof. unfold held_of. rewrite map_app, sumZ_app. reflexivity. Qed.

(* removing the (unique) entry of uid u from the sum *)
Lemma held_of_remove names (l : list preq) u q k :
  NoDup (map fst l) -> find (fun q' : preq => fst q' =? u) l = Some q ->
  held_of names l k
  = getv k (rmask (snd q) names)
    + held_of names (filter (fun q' : preq => negb (fst q' =? u)) l) k.
Proof.
  unfold held_of. induction l as [|a t IH]; cbn [find]; [discriminate|].
  intros Hnd Hf. inversion Hnd as [|x xs Hnotin Hnd' E]; subst.
  destruct (fst a =? u) eqn:Ea.
  - inversion Hf; subst q. cbn [filter map sumZ]. rewrite Ea. cbn [negb].
    f_equal.
    (* no other entry has uid u *)
    assert (Hfil : filter (fun q' : preq => negb (fst q' =? u)) t = t).
    { apply Z.eqb_eq in Ea. subst u. clear - Hnotin.
      induction t as [|b t' IHt]; [reflexivity|]. cbn [filter].
      destruct (fst b =? fst a) eqn:Eb.
      - exfalso. apply Hnotin. apply Z.eqb_eq in Eb. cbn. left. exact Eb.
      - cbn [negb]. f_equal. apply IHt. intro H. apply Hnotin. cbn. right. exact H. }
    rewrite Hfil. reflexivity.
  - cbn [filter map sumZ]. rewrite Ea. cbn [negb map sumZ].
    rewrite (IH Hnd' Hf). lia.
Qed.

Lemma find_assigned_in u i q : find_assigned u i = Some q -> In q (r_assigned i) /\ fst q = u.
Proof.
  unfold find_assigned. intros H. apply find_some in H. destruct H as [H1 H2].
  apply Z.eqb_eq in H2. auto.
Qed.

(* ---------- wfi is preserved ---------- *)
Lemma wfi_new s : wfi (new_info s).
Proof. split; cbn; [constructor|intros q []]. Qed.

Lemma wfi_update i s : wfi i -> wfi (update_info i s).
Proof. intros H. exact H. Qed.

Lemma wfi_add i u req : res_nonneg req = true -> wfi i -> wfi (add_assigned i u req).
Proof.
  intros Hreq [Hnd Hnn]. unfold add_assigned. destruct (has_assigned u i) eqn:Eh.
  - split; assumption.
  - split; cbn [r_assigned].
    + rewrite map_app. cbn [map fst].
      apply Permutation_NoDup with (l := u :: map fst (r_assigned i)).
      * apply Permutation_cons_append.
      * constructor; [|exact Hnd]. intro Hin. apply in_map_iff in Hin.
        destruct Hin as [q [Hq Hin]]. unfold has_assigned in Eh.
        assert (existsb (fun q0 : preq => fst q0 =? u) (r_assigned i) = true).
        { apply existsb_exists. exists q. split; [exact Hin|]. apply Z.eqb_eq. exact Hq. }
        congruence.
    + intros q Hq. apply in_app_iff in Hq. destruct Hq as [Hq|[Hq|[]]].
      * apply Hnn, Hq.
      * subst q. exact Hreq.
Qed.

Lemma NoDup_map_filter {A B} (f : A -> B) (p : A -> bool) l :
  NoDup (map f l) -> NoDup (map f (filter p l)).
Proof.
  induction l as [|a t IH]; cbn; intros H; [constructor|].
  inversion H as [|x xs Hn Hnd]; subst. destruct (p a); cbn.
  - constructor; [|apply IH, Hnd]. intro Hin. apply Hn.
    apply in_map_iff in Hin. destruct Hin as [y [Hy Hin]]. apply filter_In in Hin.
    apply in_map_iff. exists y. tauto.
  - apply IH, Hnd.
Qed.

Lemma wfi_remove i u : wfi i -> wfi (remove_assigned i u).
Proof.
  intros [Hnd Hnn]. unfold remove_assigned. destruct (find_assigned u i) as [q|] eqn:Ef.
  - split; cbn [r_assigned].
    + apply NoDup_map_filter, Hnd.
    + intros q' Hq'. apply filter_In in Hq'. apply Hnn, Hq'.
  - split; assumption.
Qed.

(* ---------- bounds: 0 <= allocated <= held, for every history ---------- *)
Lemma bounds_new s : ledger_bounds (new_info s).
Proof. intros k. cbn. lia. Qed.

Lemma rmask_nonneg req names k : res_nonneg req = true -> 0 <= getv k (rmask req names).
Proof.
  intros H. rewrite getv_rmask. destruct (memZ k names); [apply res_nonneg_getv, H|lia].
Qed.

Lemma bounds_add i u req :
  res_nonneg req = true -> ledger_bounds i -> ledger_bounds (add_assigned i u req).
Proof.
  intros Hreq H k. unfold add_assigned. destruct (has_assigned u i); [apply H|].
  rewrite held_unfold. cbn [r_allocated r_names r_assigned].
  rewrite getv_radd, held_of_app. specialize (H k). rewrite held_unfold in H.
  unfold held_of at 2. cbn [map sumZ snd].
  pose proof (rmask_nonneg req (r_names i) k Hreq). lia.
Qed.

Lemma bounds_remove i u : wfi i -> ledger_bounds i -> ledger_bounds (remove_assigned i u).
Proof.
  intros [Hnd Hnn] H k. unfold remove_assigned.
  destruct (find_assigned u i) as [q|] eqn:Ef; [|apply H].
  rewrite held_unfold. cbn [r_allocated r_names r_assigned].
  specialize (H k). rewrite held_unfold in H.
  unfold find_assigned in Ef. rewrite (held_of_remove _ _ u q k Hnd Ef) in H.
  assert (Hrest : 0 <= held_of (r_names i)
                         (filter (fun q' : preq => negb (fst q' =? u)) (r_assigned i)) k).
  { apply held_of_nonneg. intros q' Hq'. apply filter_In in Hq'. apply Hnn, Hq'. }
  destruct (is_nil (snd q)) eqn:En.
  - apply is_nil_true in En. rewrite En in H. cbn [rmask filter getv] in H. lia.
  - rewrite getv_rsub_nn. lia.
Qed.

(* the recomputed ledger *)
Lemma getv_fold_alloc nm k : forall (l : list preq) acc,
  getv k (fold_left (fun a (q : preq) => radd a (rmask (snd q) nm)) l acc)
  = getv k acc + held_of nm l k.
Proof.
  induction l as [|q t IH]; intros acc; cbn [fold_left].
  - unfold held_of. cbn. lia.
  - rewrite IH, getv_radd. unfold held_of. cbn [map sumZ]. lia.
Qed.

Lemma getv_alloc_by_assigned nm l k : getv k (alloc_by_assigned nm l) = held_of nm l k.
Proof. unfold alloc_by_assigned. rewrite getv_fold_alloc. cbn. lia. Qed.

Lemma exact_update i s : ledger_exact (update_info i s).
Proof.
  intros k. rewrite held_unfold. unfold update_info, update_info_gen.
  cbn [r_allocated r_names r_assigned]. apply getv_alloc_by_assigned.
Qed.

Lemma bounds_update i s : wfi i -> ledger_bounds (update_info i s).
Proof.
  intros [Hnd Hnn] k. rewrite (exact_update i s k). split; [|lia].
  rewrite held_unfold. apply held_of_nonneg. exact Hnn.
Qed.

(* ---------- exactness: allocated = held, as long as no update grows the dimensions ---------- *)
Lemma exact_new s : ledger_exact (new_info s).
Proof. intros k. reflexivity. Qed.

Lemma exact_add i u req : ledger_exact i -> ledger_exact (add_assigned i u req).
Proof.
  intros H k. unfold add_assigned. destruct (has_assigned u i); [apply H|].
  rewrite held_unfold. cbn [r_allocated r_names r_assigned].
  rewrite getv_radd, held_of_app. specialize (H k). rewrite held_unfold in H.
  unfold held_of at 2. cbn [map sumZ snd]. lia.
Qed.

Lemma exact_remove i u : wfi i -> ledger_exact i -> ledger_exact (remove_assigned i u).
Proof.
  intros [Hnd Hnn] H k. unfold remove_assigned.
  destruct (find_assigned u i) as [q|] eqn:Ef; [|apply H].
  rewrite held_unfold. cbn [r_allocated r_names r_assigned].
  specialize (H k). rewrite held_unfold in H.
  unfold find_assigned in Ef. rewrite (held_of_remove _ _ u q k Hnd Ef) in H.
  assert (Hrest : 0 <= held_of (r_names i)
                         (filter (fun q' : preq => negb (fst q' =? u)) (r_assigned i)) k).
  { apply held_of_nonneg. intros q' Hq'. apply filter_In in Hq'. apply Hnn, Hq'. }
  destruct (is_nil (snd q)) eqn:En.
  - apply is_nil_true in En. rewrite En in H. cbn [rmask filter getv] in H. lia.
  - rewrite getv_rsub_nn. lia.
Qed.

(* ---------- lifting a per-reservation invariant to every cache operation ---------- *)
Lemma lift_cstep (P : rinfo -> Prop) (ok : cache -> cop -> Prop) :
  (forall s, P (new_info s)) ->
  (forall c b own s i, ok c (CUpdate b own s) -> find_info (s_uid s) (infos c) = Some i ->
                   P i -> P (update_info i s)) ->
  (forall i u req, res_nonneg req = true -> P i -> P (add_assigned i u req)) ->
  (forall i u, P i -> P (remove_assigned i u)) ->
  forall c o, op_nonneg o = true -> ok c o -> all_infos P c -> all_infos P (cstep c o).
Proof.
  intros Pnew Pupd Padd Prem.
  assert (Hdel : forall ru pu c, all_infos P c -> all_infos P (c_del_pod ru pu c)).
  { intros ru pu c Hc. unfold c_del_pod.
    destruct (find_info ru (infos c)) as [i0|] eqn:Ef; [|exact Hc].
    intros j Hj. cbn [infos] in Hj. apply In_set_info in Hj. destruct Hj as [->|Hj].
    - apply Prem. apply Hc. apply (find_info_some _ _ _ Ef).
    - apply Hc, Hj. }
  assert (Haddp : forall ru pu req c, res_nonneg req = true -> all_infos P c ->
                                      all_infos P (fst (c_add_pod ru pu req c))).
  { intros ru pu req c Hreq Hc. unfold c_add_pod.
    destruct (find_info ru (infos c)) as [i0|] eqn:Ef; [|exact Hc].
    destruct (s_term (r_spec i0)); [exact Hc|]. cbn [fst].
    intros j Hj. cbn [infos] in Hj. apply In_set_info in Hj. destruct Hj as [->|Hj].
    - apply Padd; [exact Hreq|]. apply Hc. apply (find_info_some _ _ _ Ef).
    - apply Hc, Hj. }
  intros c o Hnn Hok Hc. destruct o as [b own s|u n|ru pu req|ru pu|oru nru op np]; cbn [cstep].
  - (* CUpdate *)
    assert (Hown : forall i, P i -> P (add_owner own i)).
    { intros i Hi. unfold add_owner. destruct (own =? 0); [exact Hi|].
      apply Padd; [reflexivity|exact Hi]. }
    unfold c_update. destruct (find_info (s_uid s) (infos c)) as [i0|] eqn:Ef.
    + assert (Hi : P (add_owner own (update_info i0 s))).
      { apply Hown. eapply Pupd; [exact Hok|exact Ef|]. apply Hc. apply (find_info_some _ _ _ Ef). }
      assert (Hall : forall j, In j (set_info (add_owner own (update_info i0 s)) (infos c)) -> P j).
      { intros j Hj. apply In_set_info in Hj. destruct Hj as [->|Hj]; [exact Hi|apply Hc, Hj]. }
      destruct (s_node s =? 0); [exact Hall|].
      destruct (refresh (s_node s) (s_uid s) (add_owner own (update_info i0 s)) (matchable c) (alloc_idx c)).
      exact Hall.
    + destruct b; [exact Hc|].
      assert (Hall : forall j, In j (set_info (add_owner own (new_info s)) (infos c)) -> P j).
      { intros j Hj. apply In_set_info in Hj.
        destruct Hj as [->|Hj]; [apply Hown, Pnew|apply Hc, Hj]. }
      destruct (s_node s =? 0); [exact Hall|].
      destruct (refresh (s_node s) (s_uid s) (add_owner own (new_info s)) (matchable c) (alloc_idx c)).
      exact Hall.
  - (* CDelete *)
    intros j Hj. cbn [c_delete infos] in Hj. apply In_del_info in Hj. apply Hc, Hj.
  - apply Haddp; [exact Hnn|exact Hc].
  - apply Hdel, Hc.
  - (* CUpdatePod *)
    unfold c_update_pod.
    set (c1 := match op with Some q => c_del_pod oru (fst q) c | None => c end).
    assert (Hc1 : all_infos P c1).
    { unfold c1. destruct op; [apply Hdel, Hc|exact Hc]. }
    destruct np as [q|]; [|exact Hc1].
    destruct (find_info nru (infos c1)) as [i0|] eqn:Ef; [|exact Hc1].
    intros j Hj. cbn [infos] in Hj. apply In_set_info in Hj. destruct Hj as [->|Hj].
    + apply Padd; [exact Hnn|]. apply Hc1. apply (find_info_some _ _ _ Ef).
    + apply Hc1, Hj.
Qed.

Lemma all_infos_init P : all_infos P init_cache.
Proof. intros i []. Qed.

(* ---------- the ledger theorems over all histories of cache operations ---------- *)
Definition bounds_inv (i : rinfo) : Prop := wfi i /\ ledger_bounds i.
Definition exact_inv (i : rinfo) : Prop := wfi i /\ ledger_exact i.

Lemma bounds_run : forall l c,
  all_along (fun _ o => op_nonneg o) c l = true ->
  all_infos bounds_inv c -> all_infos bounds_inv (crun c l).
Proof.
  induction l as [|o t IH]; intros c Hnn Hc; [exact Hc|].
  cbn [all_along] in Hnn. apply andb_true_iff in Hnn. destruct Hnn as [Ho Ht].
  cbn [crun fold_left]. apply IH; [exact Ht|].
  apply (lift_cstep bounds_inv (fun _ _ => True)); auto.
  - intros s. split; [apply wfi_new|apply bounds_new].
  - intros c0 b own s i _ _ [Hw Hb]. split; [apply wfi_update, Hw|apply bounds_update, Hw].
  - intros i u req Hreq [Hw Hb]. split; [apply wfi_add; assumption|apply bounds_add; assumption].
  - intros i u [Hw Hb]. split; [apply wfi_remove, Hw|apply bounds_remove; assumption].
Qed.

Lemma exact_run : forall l c,
  all_along (fun _ o => op_nonneg o) c l = true ->
  all_infos exact_inv c -> all_infos exact_inv (crun c l).
Proof.
  induction l as [|o t IH]; intros c Hnn Hc; [exact Hc|].
  cbn [all_along] in Hnn. apply andb_true_iff in Hnn. destruct Hnn as [Ho Ht].
  cbn [crun fold_left]. apply IH; [exact Ht|].
  apply (lift_cstep exact_inv (fun _ _ => True)); auto.
  - intros s. split; [apply wfi_new|apply exact_new].
  - intros c0 b own s i _ _ [Hw He]. split; [apply wfi_update, Hw|apply exact_update].
  - intros i u req Hreq [Hw He]. split; [apply wfi_add; assumption|apply exact_add, He].
  - intros i u [Hw He]. split; [apply wfi_remove, Hw|apply exact_remove; assumption].
Qed.

Lemma ledger_bounds_all_histories l :
  all_along (fun _ o => op_nonneg o) init_cache l = true ->
  forall i, In i (infos (crun init_cache l)) -> ledger_bounds i.
Proof.
  intros Hnn i Hi. apply (bounds_run l init_cache Hnn (all_infos_init _) i Hi).
Qed.

Lemma ledger_exact_all_histories l :
  all_along (fun _ o => op_nonneg o) init_cache l = true ->
  forall i, In i (infos (crun init_cache l)) -> ledger_exact i.
Proof.
  intros Hnn i Hi. apply (exact_run l init_cache Hnn (all_infos_init _) i Hi).
Qed.

(* regression: the behaviour before fix 75e0c17 (old = true) loses what the assigned pod holds in
   the dimension the update adds; the repaired one does not *)
Definition grow_info : rinfo :=
  add_assigned (new_info (mkSpec 1 1 1 false false 2 0 [] [(1, 8)] [] false 0)) 1 [(4, 7)].
Definition grow_spec : rspec := mkSpec 1 1 1 false false 2 0 [] [(1, 8); (4, 8)] [] false 0.

Lemma old_update_loses_held :
  getv 4 (r_allocated (update_info_gen true grow_info grow_spec)) = 0
  /\ held (update_info_gen true grow_info grow_spec) 4 = 7
  /\ getv 4 (r_allocated (update_info_gen false grow_info grow_spec)) = 7.
Proof. repeat split; vm_compute; reflexivity. Qed.
