(* C05 — proofs (first instalment). *)
From Coq Require Import List ZArith Bool Lia.
From Verif Require Import C05.Model C05.Spec.
Import ListNotations.
Open Scope Z_scope.

Lemma allocate_once_gate i :
  s_once (r_spec i) = true -> r_assigned i <> [] ->
  is_matchable i = false /\ nominate_gate i = false.
Proof.
  intros Ho Ha. unfold is_matchable, nominate_gate, once_used. rewrite Ho.
  destruct (r_assigned i); [congruence|]. cbn. rewrite !andb_false_r. auto.
Qed.
