(* C05 / stream "owners": (pod, owner specification) pairs. *)
From Coq Require Import List ZArith Bool.
From Verif Require Import Lib.Wire C05.Model C05.Spec C05.Codec C05.Trace.
Import ListNotations.
Open Scope Z_scope.

Definition run_case (inp : list Z) : list Z := run_owners inp.
Definition prop_case (inp obs : list Z) : Z := prop_owners inp obs.
Definition nontrivial_case (inp : list Z) : bool := nontrivial_owners inp.
Definition finding_sig (inp obs : list Z) : Z := 0.

Require Extraction.
Require Import ExtrOcamlBasic.
Extraction "model.ml" run_case prop_case nontrivial_case finding_sig.
