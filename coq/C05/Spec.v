(* C05 — the property as Props over cache states / pure inputs, and the decision procedures
   that are executed on the IMPLEMENTATION's observables (0 = holds, else clause number). *)
From Coq Require Import List ZArith Bool.
From Verif Require Import C05.Model.
Import ListNotations.
Open Scope Z_scope.

(* ==================================================================================== *)
(* A. Props over model states (quantified over every resource name k, not only [dims])   *)

(* what the pods currently assigned hold in dimension k of the reservation *)
Definition held (i : rinfo) (k : Z) : Z :=
  sumZ (map (fun q : preq => getv k (rmask (snd q) (r_names i))) (r_assigned i)).

(* clause "allocated equals the summed requests of the assigned pods" *)
Definition ledger_exact (i : rinfo) : Prop := forall k, getv k (r_allocated i) = held i k.
(* what holds unconditionally: never negative, never more than held *)
Definition ledger_bounds (i : rinfo) : Prop := forall k, 0 <= getv k (r_allocated i) <= held i k.

Definition all_infos (P : rinfo -> Prop) (c : cache) : Prop := forall i, In i (infos c) -> P i.

(* the three per-node indexes never reference a reservation that is gone, and an entry under
   node n belongs to a reservation placed on n *)
Definition index_sound (c : cache) : Prop :=
  forall n u, idx_mem n u (on_node c) = true \/ idx_mem n u (matchable c) = true
              \/ idx_mem n u (alloc_idx c) = true ->
    exists i, find_info u (infos c) = Some i /\ r_node i = n /\ n <> 0.
(* every live reservation placed on a node is listed for that node *)
Definition index_complete (c : cache) : Prop :=
  forall i, In i (infos c) -> r_node i <> 0 -> idx_mem (r_node i) (r_uid i) (on_node c) = true.

(* whatever ForEachMatchableReservationOnNode visits is available and parsed; if it also
   passes the allocate-once gate of FilterNominateReservation it is matchable right now *)
Definition nomination_ok (c : cache) : Prop :=
  forall n u, idx_mem n u (matchable c) = true ->
    exists i, find_info u (infos c) = Some i /\ r_node i = n
              /\ is_available (r_spec i) = true /\ r_perr i = false
              /\ (nominate_gate i = true -> is_matchable i = true).

(* the reserved ("restricted") dimensions of a reservation, read off the Reservation object (or
   operating pod) delivered last: the resources it reserves; when it is Restricted (or an operating
   pod) and carries well-formed restricted-options naming at least one resource it reserves, only
   the named ones *)
Definition restricting (s : rspec) : bool :=
  ((s_policy s =? 2) || (s_kind s =? 1)) && (s_opts s =? 1).
Definition names_spec (s : rspec) (nm : list Z) : Prop :=
  forall k, In k nm <->
    (hask k (s_alloc s) = true
     /\ (restricting s = true ->
         (exists k', hask k' (s_alloc s) = true /\ In k' (s_optres s)) -> In k (s_optres s))).

(* every cached reservation follows the object delivered last for its uid (S: the delivered
   objects, newest first): reserved dimensions, reserved amounts, allocate policy *)
Definition specs_followed (S : list rspec) (c : cache) : Prop :=
  forall i, In i (infos c) ->
    exists s, last_spec (r_uid i) S = Some s
              /\ names_spec s (r_names i) /\ r_allocatable i = s_alloc s
              /\ s_policy (r_spec i) = s_policy s.

(* a reservation the informer reported deleted is referenced by no per-node index; it is gone from
   the cache altogether when the delete event carried its node name (otherwise what may be left
   is an entry without node) *)
Definition dead_gone (D : dead) (c : cache) : Prop :=
  forall u hard, In (u, hard) D ->
    (forall n, idx_mem n u (on_node c) = false /\ idx_mem n u (matchable c) = false
               /\ idx_mem n u (alloc_idx c) = false)
    /\ (forall i, find_info u (infos c) = Some i -> hard = false /\ r_node i = 0).

(* restricted fit: specification of the verdict *)
Definition dim_within (i : rinfo) (req pre : res) (k : Z) : Prop :=
  hask k req = true -> getv k req <> 0 ->
  getv k req <= getv k (r_allocatable i) - getv k (r_reserved i)
                - (if hask k (r_allocated i)
                   then Z.max 0 (getv k (r_allocated i) - getv k pre) else 0).
Definition pods_within (i : rinfo) (pre : res) : Prop :=
  hask PODS (r_allocatable i) = true ->
  n_assigned i - getv PODS pre + 1 <= getv PODS (r_allocatable i).
Definition fits_spec (i : rinfo) (req pre : res) : Prop :=
  pods_within i pre /\ forall k, In k (r_names i) -> dim_within i req pre k.

(* owner specification satisfied *)
Definition obj_ok (p : opod) (r : objref) : Prop :=
  (ob_uid r = 0 \/ ob_uid r = d_uid p) /\ (ob_name r = 0 \/ ob_name r = d_name p)
  /\ (ob_ns r = 0 \/ ob_ns r = d_ns p) /\ (ob_apiver r = 0 \/ ob_apiver r = d_apiver p).
Definition oref_ok (c o : ctrlref) : Prop :=
  (ct_ctrl c = 0 \/ (ct_ctrl o <> 0 /\ ct_ctrl c = ct_ctrl o))
  /\ (ct_uid c = 0 \/ ct_uid c = ct_uid o) /\ (ct_name c = 0 \/ ct_name c = ct_name o)
  /\ (ct_kind c = 0 \/ ct_kind c = ct_kind o) /\ (ct_apiver c = 0 \/ ct_apiver c = ct_apiver o).
Definition ctrl_ok (p : opod) (r : ctrlref) : Prop :=
  (ct_ns r = 0 \/ ct_ns r = d_ns p) /\ exists o, In o (d_orefs p) /\ oref_ok r o.
Definition req_ok (labels : list (Z * Z)) (q : lreq) : Prop :=
  match q_op q with
  | 0 | 1 => hask (q_key q) labels = true /\ In (getv (q_key q) labels) (q_vals q)
  | 2 => hask (q_key q) labels = false \/ ~ In (getv (q_key q) labels) (q_vals q)
  | 3 => hask (q_key q) labels = true
  | 4 => hask (q_key q) labels = false
  | _ => False
  end.
Definition clause_ok (p : opod) (w : oclause) : Prop :=
  (forall r, w_obj w = Some r -> obj_ok p r)
  /\ (forall r, w_ctrl w = Some r -> ctrl_ok p r)
  /\ (forall l, w_sel w = Some l -> forall q, In q l -> req_ok (d_labels p) q).
Definition owners_spec (ws : list oclause) (p : opod) : Prop :=
  owners_bad ws = false /\ exists w, In w ws /\ clause_ok p w.

(* ==================================================================================== *)
(* B. decision procedure on one dumped cache view                                        *)

Fixpoint eq_listZ (a b : list Z) : bool :=
  match a, b with
  | [], [] => true
  | x :: a', y :: b' => (x =? y) && eq_listZ a' b'
  | _, _ => false
  end.

Definition nthZ (n : nat) (l : list Z) : Z := nth n l 0.

(* held amount per dumped dimension, recomputed from the dumped assigned pods *)
Definition held_view (v : iview) (pos : nat) (k : Z) : Z :=
  if memZ k (v_names v)
  then sumZ (map (fun q : Z * list Z => nthZ pos (snd q)) (v_assigned v)) else 0.
Definition positions : list (nat * Z) := combine (seq 0 (length dims)) dims.

Definition v_bounds_ok (v : iview) : bool :=
  forallb (fun pk : nat * Z =>
             let a := nthZ (fst pk) (v_allocated v) in
             (0 <=? a) && (a <=? held_view v (fst pk) (snd pk))) positions.
Definition v_exact_ok (v : iview) : bool :=
  forallb (fun pk : nat * Z =>
             nthZ (fst pk) (v_allocated v) =? held_view v (fst pk) (snd pk)) positions.
Definition v_once_ok (v : iview) : bool :=
  negb (v_once v && negb (is_nil (v_assigned v))) || (negb (v_matchable v) && negb (v_gate v)).
Definition v_matchable_def (v : iview) : bool :=
  Bool.eqb (v_matchable v)
           (v_avail v && negb (v_perr v) && negb (v_once v && negb (is_nil (v_assigned v)))).

(* "some dumped reservation has uid u, sits on node n and satisfies extra" *)
Definition has_view (l : list iview) (u n : Z) (extra : iview -> bool) : bool :=
  existsb (fun v => (v_uid v =? u) && (v_node v =? n) && extra v) l.

Definition entry_sound (l : list iview) (e : Z * list Z) : bool :=
  forallb (fun u => negb (fst e =? 0) && has_view l u (fst e) (fun _ => true)) (snd e).
Definition o_sound (o : cview) : bool :=
  forallb (entry_sound (o_infos o)) (o_onnode o)
  && forallb (entry_sound (o_infos o)) (o_matchable o)
  && forallb (entry_sound (o_infos o)) (o_alloc o).
Definition o_complete (o : cview) : bool :=
  forallb (fun v => (v_node v =? 0) || idx_mem (v_node v) (v_uid v) (o_onnode o)) (o_infos o).

Definition visited_ok (v : iview) : bool :=
  v_avail v && negb (v_perr v) && (negb (v_gate v) || v_matchable v).
Definition visit_ok (o : cview) (n : Z) (us : list Z) : bool :=
  forallb (fun u => has_view (o_infos o) u n visited_ok) us.
Definition o_visit_ok (o : cview) : bool :=
  forallb (fun p : Z * list Z => visit_ok o (fst p) (snd p)) (combine node_ids (o_visit o))
  && forallb (fun e : Z * list Z => visit_ok o (fst e) (snd e)) (o_matchable o).

(* recorded requests of the assigned pods = requests of the object delivered last for each of
   them (L: delivered objects, newest first) *)
Definition v_ghost_ok (L : list preq) (v : iview) : bool :=
  forallb (fun q : Z * list Z =>
             match last_req (fst q) L with
             | Some r => eq_listZ (snd q) (vals r)
             | None => false
             end) (v_assigned v).

(* the dumped reservation follows the object delivered last for its uid *)
Definition names_okb (s : rspec) (nm : list Z) : bool :=
  forallb (fun k => memZ k (names_of s)) nm && forallb (fun k => memZ k nm) (names_of s).
Definition v_names_ok (S : list rspec) (v : iview) : bool :=
  match last_spec (v_uid v) S with
  | Some s => names_okb s (v_names v)
  | None => false
  end.
Definition v_amounts_ok (S : list rspec) (v : iview) : bool :=
  match last_spec (v_uid v) S with
  | Some s => eq_listZ (v_allocatable v) (pvals (s_alloc s)) && (v_policy v =? s_policy s)
  | None => false
  end.

(* no index entry, and no cached reservation with a node, for a reservation reported deleted *)
Definition is_dead (D : dead) (u : Z) : bool := existsb (fun d : Z * bool => fst d =? u) D.
Definition dead_entry_ok (D : dead) (e : Z * list Z) : bool :=
  forallb (fun u => negb (is_dead D u)) (snd e).
Definition o_dead_ok (D : dead) (o : cview) : bool :=
  forallb (dead_entry_ok D) (o_onnode o) && forallb (dead_entry_ok D) (o_matchable o)
  && forallb (dead_entry_ok D) (o_alloc o)
  && forallb (fun v => negb (existsb (fun d : Z * bool =>
                                        (fst d =? v_uid v) && (snd d || negb (v_node v =? 0))) D))
             (o_infos o).

(* clause numbers:
     1 ledger exact (allocated = held)      2 ledger bounds (0 <= allocated <= held)
     3 index soundness                      4 index completeness
     5 allocate-once gate                   6 visited reservations available / parsed / gated
     7 IsMatchable agrees with its definition
     9 recorded requests = last delivered object (with 1: allocated = sum over the assigned pods
       of mask(names, request of the last delivered object))
    12 reserved dimensions = those of the Reservation object / operating pod delivered last
       (with 1 and 9: allocated = sum over the assigned pods of the last delivered request, in the
       reserved dimensions of the last delivered reservation object)
    13 reserved amounts (allocatable) and allocate policy = those of the object delivered last
    14 a reservation the informer reported deleted is in no per-node index (nor cached with a node)
   [stable] : the history so far kept node names stable (hypothesis of 3, 4, 6, 14)
   [last]   : Some L while every delivery so far was recorded consistently (hypothesis of 9)
   [S]      : the reservation objects delivered so far, newest first
   [D]      : the reservations reported deleted and not delivered again since *)
Definition prop_view (stable : bool) (last : option (list preq)) (S : list rspec) (D : dead)
           (o : cview) : Z :=
  if negb (forallb v_bounds_ok (o_infos o)) then 2
  else if negb (forallb v_exact_ok (o_infos o)) then 1
  else if match last with Some L => negb (forallb (v_ghost_ok L) (o_infos o)) | None => false end then 9
  else if negb (forallb (v_names_ok S) (o_infos o)) then 12
  else if negb (forallb (v_amounts_ok S) (o_infos o)) then 13
  else if negb (forallb v_once_ok (o_infos o)) then 5
  else if negb (forallb v_matchable_def (o_infos o)) then 7
  else if stable && negb (o_sound o) then 3
  else if stable && negb (o_complete o) then 4
  else if stable && negb (o_visit_ok o) then 6
  else if stable && negb (o_dead_ok D o) then 14
  else 0.

(* a scheduling cycle that put pod pu into reservation t: judged on the dumps before (a) and
   after (b) the cycle.  10: t was allocate-once and already held a pod.  11: t is Restricted
   and now holds more than allocatable - reserved in a dimension the pod asked for, or more pods
   than it reserved *)
Definition has_pod (u : Z) (v : iview) : bool :=
  existsb (fun q : Z * list Z => fst q =? u) (v_assigned v).
Definition sched_gate_ok (a : iview) : bool := negb (v_once a && negb (is_nil (v_assigned a))).
Definition sched_fit_ok (a b : iview) (req : res) : bool :=
  negb (v_policy a =? 2)
  || (forallb (fun pk : nat * Z =>
                 negb (memZ (snd pk) (v_names a) && hask (snd pk) req && (0 <? getv (snd pk) req))
                 || (nthZ (fst pk) (v_allocated b) <=? nthZ (fst pk) (v_cap a))) positions
      && ((nthZ 4 (v_allocatable a) =? -1)
          || (Z.of_nat (length (v_assigned b)) <=? nthZ 4 (v_allocatable a)))).
Definition sched_pairs (pu t : Z) (prev cur : list iview) (f : iview -> iview -> bool) : bool :=
  forallb (fun b => negb ((v_uid b =? t) && has_pod pu b)
                    || forallb (fun a => negb (v_uid a =? t) || has_pod pu a || f a b) prev) cur.
Definition sched_code (h : hop) (prev cur : list iview) : Z :=
  match h with
  | HSchedule pu req n t =>
    if negb (sched_pairs pu t prev cur (fun a _ => sched_gate_ok a)) then 10
    else if negb (sched_pairs pu t prev cur (fun a b => sched_fit_ok a b req)) then 11
    else 0
  | _ => 0
  end.

(* ==================================================================================== *)
(* C. decision procedures for the pure streams                                           *)

Definition fits_specb (i : rinfo) (req pre : res) : bool :=
  fits_pods i pre && forallb (fits_dim i req pre) (r_names i).

(* after a pod was let in by the restricted check with nothing preemptible, the reservation
   is not over-allocated in any dimension the pod asked for, nor in its pod count *)
Definition within_after (i : rinfo) (req : res) (alloc' : res) (n' : Z) : Prop :=
  (forall k, In k (r_names i) -> hask k req = true -> 0 < getv k req ->
             getv k alloc' <= getv k (r_allocatable i) - getv k (r_reserved i))
  /\ (hask PODS (r_allocatable i) = true -> n' <= getv PODS (r_allocatable i)).
Definition within_afterb (i : rinfo) (req : res) (alloc' : res) (n' : Z) : bool :=
  forallb (fun k => negb (hask k req && (0 <? getv k req))
                    || (getv k alloc' <=? getv k (r_allocatable i) - getv k (r_reserved i)))
          (r_names i)
  && (negb (hask PODS (r_allocatable i)) || (n' <=? getv PODS (r_allocatable i))).

Definition clause_okb (p : opod) (w : oclause) : bool := match_clause p w.
Definition owners_specb (ws : list oclause) (p : opod) : bool :=
  negb (owners_bad ws) && existsb (clause_okb p) ws.
