(* C05 — flat-integer wire formats (inputs and observables) of the three streams.
   Decoders are total: malformed input decodes to defaults. *)
From Coq Require Import List ZArith Bool.
From Verif Require Import Lib.Wire C05.Model C05.Spec.
Import ListNotations.
Open Scope Z_scope.

Definition D : nat := length dims.

(* ---------- generic pieces ---------- *)
Definition dec_pair (l : list Z) : (Z * Z) * list Z :=
  match l with a :: b :: t => ((a, b), t) | _ => ((0, 0), []) end.
Definition dec_res (l : list Z) : res * list Z := decode_seq dec_pair l.
Definition enc_res (r : res) : list Z :=
  Z.of_nat (length r) :: flat_map (fun e : Z * Z => [fst e; snd e]) r.

(* ---------- history stream: input ---------- *)
Definition dec_spec (l : list Z) : rspec * list Z :=
  match l with
  | uid :: node :: ph :: term :: once :: pol :: opts :: t =>
    let '(optres, t1) := take_list t in
    let '(alloc, t2) := dec_res t1 in
    let '(rsvd, t3) := dec_res t2 in
    (mkSpec uid node ph (zb term) (zb once) pol opts optres alloc rsvd (zb (hdZ t3)) 0, tl t3)
  | _ => (mkSpec 0 0 0 false true 0 0 [] [] [] false 0, [])
  end.

(* operating-mode part of a pod event: 0 | 1 ready term opts (optres) (reserved) ownbad owner *)
Definition dec_opx (l : list Z) : option opx * list Z :=
  match l with
  | 0 :: t => (None, t)
  | _ :: ready :: term :: opts :: t =>
    let '(optres, t1) := take_list t in
    let '(rsvd, t2) := dec_res t1 in
    match t2 with
    | ownbad :: owner :: t3 => (Some (mkOpx (zb ready) (zb term) opts optres rsvd (zb ownbad) owner), t3)
    | _ => (None, [])
    end
  | _ => (None, [])
  end.

Definition dec_pev (l : list Z) : pev * list Z :=
  match l with
  | uid :: node :: done :: rsv :: t =>
    let '(req, t1) := dec_res t in
    let '(ox, t2) := dec_opx t1 in
    (mkPev uid req node (zb done) rsv ox, t2)
  | _ => (mkPev 0 [] 0 false 0 None, [])
  end.

Definition dec_hop (l : list Z) : hop * list Z :=
  match l with
  | 1 :: t => let '(s, r) := dec_spec t in (HRsvAdd s, r)
  | 2 :: t => let '(s, r) := dec_spec t in (HRsvUpdate s, r)
  | 3 :: t => let '(s, r) := dec_spec t in (HRsvDelete s, r)
  | 4 :: t => let '(s, r) := dec_spec t in (HRsvAssume s, r)
  | 5 :: u :: n :: t => (HRsvRemove u n, t)
  | 6 :: ru :: pu :: t => let '(req, r) := dec_res t in (HPodAssume ru pu req, r)
  | 7 :: ru :: pu :: t => (HPodForget ru pu, t)
  | 8 :: t => let '(p, r) := dec_pev t in (HPodAdd p, r)
  | 9 :: t => let '(o, r) := dec_pev t in let '(p, r') := dec_pev r in (HPodUpdate o p, r')
  | 10 :: t => let '(p, r) := dec_pev t in (HPodDelete p, r)
  | 11 :: t => let '(s, r) := dec_spec t in (HReserveRsv s (hdZ r), tl r)
  | 12 :: t => let '(s, r) := dec_spec t in (HUnreserveRsv s (hdZ r), tl (tl r))
  | 13 :: pu :: t => let '(req, r) := dec_res t in (HSchedule pu req (hdZ r) (hdZ (tl r)), tl (tl r))
  | 14 :: t => let '(s, r) := dec_spec t in (HInfAdd s (hdZ r), tl r)
  | 15 :: t => let '(o, r) := dec_spec t in let '(s, r') := dec_spec r in (HInfUpdate o s (hdZ r'), tl r')
  | 16 :: t => let '(s, r) := dec_spec t in (HInfDelete s (hdZ r) (zb (hdZ (tl r))), tl (tl r))
  | _ => (HRsvRemove 0 0, [])
  end.

Definition dec_history (inp : list Z) : list hop := fst (decode_seq dec_hop inp).

(* ---------- history stream: observable ---------- *)
Definition enc_iview (v : iview) : list Z :=
  [v_uid v; v_node v; bz (v_avail v); bz (v_perr v); bz (v_once v); bz (v_term v);
   bz (v_matchable v); bz (v_gate v)]
  ++ Z.of_nat (length (v_assigned v))
     :: flat_map (fun q : Z * list Z => fst q :: snd q) (v_assigned v)
  ++ encode_list (v_names v) ++ v_allocated v ++ v_reserved v ++ v_allocatable v
  ++ v_policy v :: v_cap v.

Definition enc_idx (ix : idx) : list Z :=
  Z.of_nat (length ix) :: flat_map (fun e : Z * list Z => fst e :: encode_list (snd e)) ix.

Definition enc_cview (o : cview) : list Z :=
  o_code o :: Z.of_nat (length (o_infos o)) :: flat_map enc_iview (o_infos o)
  ++ enc_idx (o_onnode o) ++ enc_idx (o_matchable o) ++ enc_idx (o_alloc o)
  ++ encode_list (o_nodes_m o) ++ encode_list (o_nodes_a o)
  ++ flat_map encode_list (o_visit o).

Definition dec_assigned (l : list Z) : (Z * list Z) * list Z :=
  match l with
  | u :: t => let '(vs, r) := take_n D t in ((u, vs), r)
  | [] => ((0, []), [])
  end.

Definition dec_iview (l : list Z) : iview * list Z :=
  match l with
  | uid :: node :: av :: pe :: on :: te :: ma :: ga :: t =>
    let '(asg, t1) := decode_seq dec_assigned t in
    let '(names, t2) := take_list t1 in
    let '(al, t3) := take_n D t2 in
    let '(rs, t4) := take_n D t3 in
    let '(ab, t5) := take_n D t4 in
    let '(cp, t6) := take_n D (tl t5) in
    (mkIview uid node (zb av) (zb pe) (zb on) (zb te) (zb ma) (zb ga) asg names al rs ab (hdZ t5) cp, t6)
  | _ => (mkIview 0 0 false false false false false false [] [] [] [] [] 0 [], [])
  end.

Definition dec_entry (l : list Z) : (Z * list Z) * list Z :=
  match l with
  | n :: t => let '(s, r) := take_list t in ((n, s), r)
  | [] => ((0, []), [])
  end.
Definition dec_idx (l : list Z) : idx * list Z := decode_seq dec_entry l.

Definition dec_cview (l : list Z) : cview * list Z :=
  match l with
  | code :: t =>
    let '(vs, t1) := decode_seq dec_iview t in
    let '(a, t2) := dec_idx t1 in
    let '(b, t3) := dec_idx t2 in
    let '(c, t4) := dec_idx t3 in
    let '(nm, t5) := take_list t4 in
    let '(na, t6) := take_list t5 in
    let '(vis, t7) := decode_many take_list (length node_ids) t6 in
    (mkCview code vs a b c nm na vis, t7)
  | [] => (mkCview 0 [] [] [] [] [] [] [], [])
  end.

(* ---------- fits stream ---------- *)
(* input: policy nassigned (names) (allocatable) (allocated) (reserved) (request) (preemptible) *)
Definition dec_fits (inp : list Z) : rinfo * res * res :=
  match inp with
  | pol :: n :: t =>
    let '(names, t1) := take_list t in
    let '(alloc, t2) := dec_res t1 in
    let '(used, t3) := dec_res t2 in
    let '(rsvd, t4) := dec_res t3 in
    let '(req, t5) := dec_res t4 in
    let '(pre, _) := dec_res t5 in
    (mkInfo (mkSpec 1 1 1 false false pol 0 [] alloc [] false 0) names rsvd used
            (map (fun j => (1000 + Z.of_nat j, [])) (seq 0 (Z.to_nat n))) false, req, pre)
  | _ => (new_info (mkSpec 1 1 1 false false 0 0 [] [] [] false 0), [], [])
  end.

(* ---------- owners stream ---------- *)
Definition dec_ctrl (l : list Z) : ctrlref * list Z :=
  match l with
  | a :: b :: c :: d :: e :: f :: t => (mkCtrl a b c d e f, t)
  | _ => (mkCtrl 0 0 0 0 0 0, [])
  end.
Definition dec_lreq (l : list Z) : lreq * list Z :=
  match l with
  | k :: op :: t => let '(vs, r) := take_list t in (mkLreq k op vs, r)
  | _ => (mkLreq 0 0 [], [])
  end.
Definition dec_clause (l : list Z) : oclause * list Z :=
  let '(ob, t1) :=
    match l with
    | 0 :: t => (None, t)
    | _ :: a :: b :: c :: d :: t => (Some (mkObj a b c d), t)
    | _ => (None, [])
    end in
  let '(ct, t2) :=
    match t1 with
    | 0 :: t => (None, t)
    | _ :: t => let '(c, r) := dec_ctrl t in (Some c, r)
    | [] => (None, [])
    end in
  match t2 with
  | 0 :: t => (mkClause ob ct None, t)
  | _ :: t => let '(qs, r) := decode_seq dec_lreq t in (mkClause ob ct (Some qs), r)
  | [] => (mkClause ob ct None, [])
  end.
(* input: pod-uid name ns apiver (labels) (ownerrefs) (clauses) *)
Definition dec_owners (inp : list Z) : opod * list oclause :=
  match inp with
  | u :: nm :: ns :: av :: t =>
    let '(labels, t1) := dec_res t in
    let '(orefs, t2) := decode_seq dec_ctrl t1 in
    let '(ws, _) := decode_seq dec_clause t2 in
    (mkOpod u nm ns av labels orefs, ws)
  | _ => (mkOpod 0 0 0 0 [] [], [])
  end.
