(* C05 — every cached reservation follows the Reservation object (or operating pod) delivered
   last for its uid: its reserved dimensions (ResourceNames), reserved amounts and allocate policy
   are those computed from that object.  For ALL histories of cache operations. *)
From Coq Require Import List ZArith Bool Lia.
From Verif Require Import C05.Model C05.Spec C05.Proofs_base C05.Proofs_index.
Import ListNotations.
Open Scope Z_scope.

(* ---------- the reserved dimensions computed by the code meet their specification ---------- *)
Lemma existsb_memZ_exists (base opt : list Z) :
  is_nil (filter (fun k => memZ k opt) base) = false <-> exists k, In k base /\ In k opt.
Proof.
  split.
  - intros H. apply is_nil_false in H.
    destruct (filter (fun k => memZ k opt) base) as [|k t] eqn:E; [congruence|].
    assert (Hk : In k (filter (fun k => memZ k opt) base)) by (rewrite E; left; reflexivity).
    apply filter_In in Hk. destruct Hk as [H1 H2]. exists k. split; [exact H1|apply memZ_In, H2].
  - intros [k [H1 H2]]. apply is_nil_false. intro E.
    assert (Hk : In k (filter (fun k => memZ k opt) base)).
    { apply filter_In. split; [exact H1|apply memZ_In, H2]. }
    rewrite E in Hk. destruct Hk.
Qed.

Lemma In_base s k : In k (sortZ (keys (s_alloc s))) <-> hask k (s_alloc s) = true.
Proof. rewrite In_sortZ, hask_keys. symmetry. apply memZ_In. Qed.

Lemma names_of_spec s : names_spec s (names_of s).
Proof.
  intros k. unfold names_of. fold (restricting s).
  destruct (restricting s) eqn:Er.
  - unfold restrict. destruct (is_nil (filter (fun k0 => memZ k0 (s_optres s)) (sortZ (keys (s_alloc s))))) eqn:En.
    + rewrite In_base. split.
      * intros H. split; [exact H|]. intros _ [k' [H1 H2]]. exfalso.
        assert (Hne : is_nil (filter (fun k0 => memZ k0 (s_optres s)) (sortZ (keys (s_alloc s)))) = false).
        { apply existsb_memZ_exists. exists k'. split; [apply In_base, H1|exact H2]. }
        congruence.
      * intros [H _]. exact H.
    + rewrite filter_In, In_base. split.
      * intros [H1 H2]. split; [exact H1|]. intros _ _. apply memZ_In, H2.
      * intros [H1 H2]. split; [exact H1|]. apply memZ_In. apply H2; [reflexivity|].
        apply existsb_memZ_exists in En. destruct En as [k' [Hb Ho]].
        exists k'. split; [apply In_base, Hb|exact Ho].
  - rewrite In_base. split.
    + intros H. split; [exact H|]. intros E. discriminate E.
    + intros [H _]. exact H.
Qed.

Lemma names_nonempty s k : hask k (s_alloc s) = true -> names_of s <> [].
Proof.
  intros Hk E. unfold names_of in E.
  assert (Hb : sortZ (keys (s_alloc s)) <> []).
  { intro E0. apply In_base in Hk. rewrite E0 in Hk. destruct Hk. }
  destruct (((s_policy s =? 2) || (s_kind s =? 1)) && (s_opts s =? 1)); [|contradiction].
  unfold restrict in E.
  destruct (is_nil (filter (fun k0 => memZ k0 (s_optres s)) (sortZ (keys (s_alloc s))))) eqn:En;
    [contradiction|]. apply is_nil_false in En. contradiction.
Qed.

Lemma names_okb_iff s nm :
  names_okb s nm = true <-> (forall k, In k nm <-> In k (names_of s)).
Proof.
  unfold names_okb. rewrite andb_true_iff, !forallb_forall. split.
  - intros [H1 H2] k. split; intros H; apply memZ_In; auto.
  - intros H. split; intros k Hk; apply memZ_In, H, Hk.
Qed.

(* the decision procedure of clause 12 decides the specification *)
Lemma names_okb_spec s nm : names_okb s nm = true <-> names_spec s nm.
Proof.
  rewrite names_okb_iff. pose proof (names_of_spec s) as Hs. unfold names_spec in *. split.
  - intros H k. rewrite H. apply Hs.
  - intros H k. rewrite H. symmetry. apply Hs.
Qed.

Lemma names_okb_refl s : names_okb s (names_of s) = true.
Proof. apply names_okb_iff. intros k. reflexivity. Qed.

(* ---------- the invariant ---------- *)
Definition follows (S : list rspec) (c : cache) : Prop :=
  forall i, In i (infos c) ->
    last_spec (r_uid i) S = Some (r_spec i) /\ r_names i = names_of (r_spec i).

Lemma follows_init S : follows S init_cache.
Proof. intros i []. Qed.

Lemma add_assigned_names i u req : r_names (add_assigned i u req) = r_names i.
Proof. unfold add_assigned. destruct (has_assigned u i); reflexivity. Qed.
Lemma remove_assigned_names i u : r_names (remove_assigned i u) = r_names i.
Proof. unfold remove_assigned. destruct (find_assigned u i); reflexivity. Qed.
Lemma add_owner_names own i : r_names (add_owner own i) = r_names i.
Proof. unfold add_owner. destruct (own =? 0); [reflexivity|apply add_assigned_names]. Qed.

Lemma find_info_none u l i : find_info u l = None -> In i l -> r_uid i <> u.
Proof.
  unfold find_info. intros H Hi E. apply (find_none _ _ H) in Hi. apply Z.eqb_neq in Hi. auto.
Qed.

(* where a cached reservation comes from: an old entry with the same object and dimensions whose
   uid the operation does not deliver, or the object the operation delivers *)
Definition from_old (c : cache) (o : cop) (i' : rinfo) : Prop :=
  exists i, In i (infos c) /\ r_spec i' = r_spec i /\ r_names i' = r_names i
            /\ touches (r_uid i) o = false.
Definition from_new (o : cop) (i' : rinfo) : Prop :=
  exists b own s, o = CUpdate b own s /\ r_spec i' = s /\ r_names i' = names_of s.

Lemma origin_del_pod_spec ru pu c i' :
  In i' (infos (c_del_pod ru pu c)) ->
  exists i, In i (infos c) /\ r_spec i' = r_spec i /\ r_names i' = r_names i.
Proof.
  unfold c_del_pod. destruct (find_info ru (infos c)) as [i0|] eqn:Ef; [|eauto].
  cbn [infos]. intros Hi. apply In_set_info in Hi. destruct Hi as [->|Hi]; [|eauto].
  exists i0. split; [apply (find_info_some _ _ _ Ef)|].
  split; [apply remove_assigned_spec|apply remove_assigned_names].
Qed.

Lemma info_origin c o i' : In i' (infos (cstep c o)) -> from_old c o i' \/ from_new o i'.
Proof.
  destruct o as [b own s|u n|ru pu req|ru pu|oru nru op np]; cbn [cstep].
  - (* CUpdate *)
    assert (Hset : forall I, r_spec I = s -> r_names I = names_of s ->
                             In i' (set_info I (infos c)) ->
                             from_old c (CUpdate b own s) i' \/ from_new (CUpdate b own s) i').
    { intros I Hs Hn Hi. apply In_set_info_other in Hi. destruct Hi as [->|[Hi Hne]].
      - right. exists b, own, s. auto.
      - left. exists i'. repeat split; auto. cbn [touches]. apply Z.eqb_neq.
        unfold r_uid in Hne. rewrite Hs in Hne. intro E. apply Hne. symmetry. exact E. }
    unfold c_update. destruct (find_info (s_uid s) (infos c)) as [i0|] eqn:Ef.
    + intros Hi. apply (Hset (add_owner own (update_info i0 s))).
      * rewrite add_owner_spec. reflexivity.
      * rewrite add_owner_names. reflexivity.
      * destruct (s_node s =? 0); [exact Hi|].
        destruct (refresh (s_node s) (s_uid s) (add_owner own (update_info i0 s)) (matchable c) (alloc_idx c)).
        exact Hi.
    + destruct b.
      * intros Hi. left. exists i'. repeat split; auto. cbn [touches]. apply Z.eqb_neq.
        intro E. apply (find_info_none _ _ _ Ef Hi). symmetry. exact E.
      * intros Hi. apply (Hset (add_owner own (new_info s))).
        -- rewrite add_owner_spec. reflexivity.
        -- rewrite add_owner_names. reflexivity.
        -- destruct (s_node s =? 0); [exact Hi|].
           destruct (refresh (s_node s) (s_uid s) (add_owner own (new_info s)) (matchable c) (alloc_idx c)).
           exact Hi.
  - intros Hi. cbn [c_delete infos] in Hi. apply In_del_info in Hi. left. exists i'. tauto.
  - unfold c_add_pod. destruct (find_info ru (infos c)) as [i0|] eqn:Ef;
      [|intros Hi; left; exists i'; tauto].
    destruct (s_term (r_spec i0)); [intros Hi; left; exists i'; tauto|]. cbn [fst infos].
    intros Hi. apply In_set_info in Hi. destruct Hi as [->|Hi]; [|left; exists i'; tauto].
    left. exists i0. split; [apply (find_info_some _ _ _ Ef)|].
    split; [apply add_assigned_spec|]. split; [apply add_assigned_names|reflexivity].
  - intros Hi. destruct (origin_del_pod_spec _ _ _ _ Hi) as [i [H1 [H2 H3]]].
    left. exists i. tauto.
  - unfold c_update_pod.
    set (c1 := match op with Some q0 => c_del_pod oru (fst q0) c | None => c end).
    assert (H1 : forall i1, In i1 (infos c1) ->
                            exists i, In i (infos c) /\ r_spec i1 = r_spec i /\ r_names i1 = r_names i).
    { unfold c1. destruct op; [apply origin_del_pod_spec|eauto]. }
    assert (Hold : In i' (infos c1) -> from_old c (CUpdatePod oru nru op np) i' \/ from_new (CUpdatePod oru nru op np) i').
    { intros Hi. destruct (H1 i' Hi) as [i [Ha [Hb Hc]]]. left. exists i. tauto. }
    destruct np as [qn|]; [|exact Hold].
    destruct (find_info nru (infos c1)) as [i0|] eqn:Ef; [|exact Hold].
    cbn [infos]. intros Hi. apply In_set_info in Hi. destruct Hi as [->|Hi]; [|apply Hold, Hi].
    destruct (H1 i0 (proj1 (find_info_some _ _ _ Ef))) as [i [Ha [Hb Hc]]].
    left. exists i. split; [exact Ha|]. rewrite add_assigned_spec, add_assigned_names. tauto.
Qed.

Lemma follows_cstep S c o : follows S c -> follows (delivered_spec o ++ S) (cstep c o).
Proof.
  intros Hf i' Hi. destruct (info_origin c o i' Hi) as [[i [Hin [Hs [Hn Ht]]]]|[b [own [s [-> [Hs Hn]]]]]].
  - destruct (Hf i Hin) as [H1 H2]. unfold r_uid. rewrite Hs, Hn. split; [|exact H2].
    fold (r_uid i). destruct o as [b own s| | | |]; cbn [delivered_spec app]; try exact H1.
    cbn [touches] in Ht. cbn [last_spec]. rewrite Ht. exact H1.
  - cbn [delivered_spec app last_spec]. unfold r_uid. rewrite Hs, Hn, Z.eqb_refl. auto.
Qed.

Lemma follows_run : forall l S c, follows S c -> follows (deliver_specs S l) (crun c l).
Proof.
  induction l as [|o t IH]; intros S c Hf; [exact Hf|].
  unfold deliver_specs. cbn [fold_left crun]. apply IH. apply follows_cstep, Hf.
Qed.

Lemma follows_specs S c : follows S c -> specs_followed S c.
Proof.
  intros Hf i Hi. destruct (Hf i Hi) as [H1 H2]. exists (r_spec i).
  split; [exact H1|]. split; [rewrite H2; apply names_of_spec|]. split; reflexivity.
Qed.

(* for every history of cache operations: a cached reservation's reserved dimensions, reserved
   amounts and policy are those of the object delivered last for its uid *)
Lemma specs_followed_all_histories l :
  specs_followed (deliver_specs [] l) (crun init_cache l).
Proof. apply follows_specs, follows_run, follows_init. Qed.

(* ---------- on the dumped views ---------- *)
Lemma eq_listZ_refl' l : eq_listZ l l = true.
Proof. induction l as [|x t IH]; cbn; [reflexivity|]. rewrite Z.eqb_refl. exact IH. Qed.

Lemma v_names_ok_view S c i : follows S c -> In i (infos c) -> v_names_ok S (info_view i) = true.
Proof.
  intros Hf Hi. destruct (Hf i Hi) as [H1 H2]. unfold v_names_ok.
  cbn [info_view v_uid v_names]. rewrite H1, H2. apply names_okb_refl.
Qed.

Lemma v_amounts_ok_view S c i : follows S c -> In i (infos c) -> v_amounts_ok S (info_view i) = true.
Proof.
  intros Hf Hi. destruct (Hf i Hi) as [H1 _]. unfold v_amounts_ok.
  cbn [info_view v_uid v_allocatable v_policy]. rewrite H1. unfold r_allocatable.
  rewrite eq_listZ_refl', Z.eqb_refl. reflexivity.
Qed.
