(* C05 — the requests a reservation records for an assigned pod are those of the pod object
   delivered last (as long as deliveries are recorded consistently), and reservation uids are
   unique in the cache. *)
From Coq Require Import List ZArith Bool Lia.
From Verif Require Import C05.Model C05.Spec C05.Proofs_base.
Import ListNotations.
Open Scope Z_scope.

Definition ghost (L : list preq) (c : cache) : Prop :=
  forall i q, In i (infos c) -> In q (r_assigned i) ->
    exists r, last_req (fst q) L = Some r /\ forall k, getv k (snd q) = getv k r.

Lemma ghost_init L : ghost L init_cache.
Proof. intros i q []. Qed.

Lemma res_eqb_getv a b : res_eqb a b = true -> forall k, getv k a = getv k b.
Proof.
  unfold res_eqb. intros H k. rewrite forallb_forall in H.
  destruct (memZ k (keys a ++ keys b)) eqn:E.
  - apply memZ_In in E. apply Z.eqb_eq. apply H, E.
  - rewrite memZ_app in E. apply orb_false_iff in E. destruct E as [Ea Eb].
    rewrite <- hask_keys in Ea, Eb. rewrite (getv_nohask _ _ Ea), (getv_nohask _ _ Eb). reflexivity.
Qed.

Lemma last_req_app_skip u (D L : list preq) :
  (forall d, In d D -> fst d <> u) -> last_req u (D ++ L) = last_req u L.
Proof.
  induction D as [|d t IH]; intros H; [reflexivity|]. cbn [app last_req].
  assert (fst d =? u = false) as -> by (apply Z.eqb_neq, H; left; reflexivity).
  apply IH. intros d' Hd'. apply H. right. exact Hd'.
Qed.

Lemma last_req_app_hit u (D L : list preq) :
  (exists d, In d D /\ fst d = u) ->
  exists d0, In d0 D /\ fst d0 = u /\ last_req u (D ++ L) = Some (snd d0).
Proof.
  induction D as [|d t IH]; intros [d' [Hin Hu]]; [destruct Hin|]. cbn [app last_req].
  destruct (fst d =? u) eqn:E.
  - apply Z.eqb_eq in E. exists d. repeat split; auto. left. reflexivity.
  - destruct Hin as [->|Hin]; [apply Z.eqb_neq in E; congruence|].
    destruct IH as [d0 [H0 [H1 H2]]]; [exists d'; auto|]. exists d0. repeat split; auto. right. exact H0.
Qed.

(* every recorded (pod, requests) entry after an operation is an old entry or a delivered one *)
Lemma In_add_assigned q i u req :
  In q (r_assigned (add_assigned i u req)) -> In q (r_assigned i) \/ q = (u, req).
Proof.
  unfold add_assigned. destruct (has_assigned u i); [auto|]. cbn [r_assigned].
  intros H. apply in_app_iff in H. destruct H as [H|[H|[]]]; [left|right]; auto.
Qed.

Lemma In_remove_assigned q i u : In q (r_assigned (remove_assigned i u)) -> In q (r_assigned i).
Proof.
  unfold remove_assigned. destruct (find_assigned u i); [|auto]. cbn [r_assigned].
  intros H. apply filter_In in H. apply H.
Qed.

Lemma In_add_owner q own i :
  In q (r_assigned (add_owner own i)) ->
  In q (r_assigned i) \/ (own <> 0 /\ q = (own, [])).
Proof.
  unfold add_owner. destruct (own =? 0) eqn:E; [auto|]. apply Z.eqb_neq in E.
  intros H. apply In_add_assigned in H. destruct H; auto.
Qed.

Definition old_or_delivered (c : cache) (o : cop) (q : preq) : Prop :=
  (exists i, In i (infos c) /\ In q (r_assigned i)) \/ In q (delivered_cop o).

Lemma origin_del_pod ru pu c i' q :
  In i' (infos (c_del_pod ru pu c)) -> In q (r_assigned i') ->
  exists i, In i (infos c) /\ In q (r_assigned i).
Proof.
  unfold c_del_pod. destruct (find_info ru (infos c)) as [i0|] eqn:Ef; [|eauto].
  cbn [infos]. intros Hi Hq. apply In_set_info in Hi. destruct Hi as [->|Hi]; [|eauto].
  exists i0. split; [apply (find_info_some _ _ _ Ef)|apply (In_remove_assigned _ _ _ Hq)].
Qed.

Lemma assigned_origin c o i' q :
  In i' (infos (cstep c o)) -> In q (r_assigned i') -> old_or_delivered c o q.
Proof.
  unfold old_or_delivered.
  destruct o as [b own s|u n|ru pu req|ru pu|oru nru op np]; cbn [cstep delivered_cop].
  - (* CUpdate *)
    assert (Hgen : forall I, (In q (r_assigned I) ->
                              (exists i, In i (infos c) /\ In q (r_assigned i))
                              \/ In q (if own =? 0 then [] else [(own, [])])) ->
                   In i' (set_info I (infos c)) -> In q (r_assigned i') ->
                   (exists i, In i (infos c) /\ In q (r_assigned i))
                   \/ In q (if own =? 0 then [] else [(own, [])])).
    { intros I HI Hi Hq. apply In_set_info in Hi. destruct Hi as [->|Hi]; [auto|left; eauto]. }
    assert (Hown : forall I0, (forall q0, In q0 (r_assigned I0) -> exists i, In i (infos c) /\ In q0 (r_assigned i)) ->
                   In q (r_assigned (add_owner own I0)) ->
                   (exists i, In i (infos c) /\ In q (r_assigned i))
                   \/ In q (if own =? 0 then [] else [(own, [])])).
    { intros I0 H0 Hq. apply In_add_owner in Hq. destruct Hq as [Hq|[Hne ->]]; [left; auto|].
      right. assert (own =? 0 = false) as -> by (apply Z.eqb_neq; exact Hne). left. reflexivity. }
    unfold c_update. destruct (find_info (s_uid s) (infos c)) as [i0|] eqn:Ef.
    + intros Hi Hq. apply (Hgen (add_owner own (update_info i0 s))); auto.
      * apply Hown. intros q0 Hq0. exists i0. split; [apply (find_info_some _ _ _ Ef)|exact Hq0].
      * destruct (s_node s =? 0); [exact Hi|].
        destruct (refresh (s_node s) (s_uid s) (add_owner own (update_info i0 s)) (matchable c) (alloc_idx c)).
        exact Hi.
    + destruct b; [intros Hi Hq; left; eauto|].
      intros Hi Hq. apply (Hgen (add_owner own (new_info s))); auto.
      * apply Hown. intros q0 [].
      * destruct (s_node s =? 0); [exact Hi|].
        destruct (refresh (s_node s) (s_uid s) (add_owner own (new_info s)) (matchable c) (alloc_idx c)).
        exact Hi.
  - intros Hi Hq. cbn [c_delete infos] in Hi. apply In_del_info in Hi. left. exists i'. tauto.
  - unfold c_add_pod. destruct (find_info ru (infos c)) as [i0|] eqn:Ef; [|intros; left; eauto].
    destruct (s_term (r_spec i0)); [intros; left; eauto|]. cbn [fst infos].
    intros Hi Hq. apply In_set_info in Hi. destruct Hi as [->|Hi]; [|left; eauto].
    apply In_add_assigned in Hq. destruct Hq as [Hq| ->]; [|right; left; reflexivity].
    left. exists i0. split; [apply (find_info_some _ _ _ Ef)|exact Hq].
  - intros Hi Hq. left. apply (origin_del_pod _ _ _ _ _ Hi Hq).
  - unfold c_update_pod.
    set (c1 := match op with Some q0 => c_del_pod oru (fst q0) c | None => c end).
    assert (H1 : forall i1 q1, In i1 (infos c1) -> In q1 (r_assigned i1) ->
                               exists i, In i (infos c) /\ In q1 (r_assigned i)).
    { unfold c1. destruct op; [apply origin_del_pod|eauto]. }
    destruct np as [qn|]; [|intros Hi Hq; left; eauto].
    destruct (find_info nru (infos c1)) as [i0|] eqn:Ef; [|intros Hi Hq; left; eauto].
    cbn [infos]. intros Hi Hq. apply In_set_info in Hi. destruct Hi as [->|Hi]; [|left; eauto].
    apply In_add_assigned in Hq. destruct Hq as [Hq| ->].
    + left. apply (H1 i0 q); [apply (find_info_some _ _ _ Ef)|exact Hq].
    + right. destruct qn. left. reflexivity.
Qed.

Lemma ghost_cstep L c o :
  sync_op c o = true -> ghost L c -> ghost (delivered_cop o ++ L) (cstep c o).
Proof.
  intros Hs Hg i' q Hi Hq.
  destruct (existsb (fun d : preq => fst d =? fst q) (delivered_cop o)) eqn:Ex.
  - apply existsb_exists in Ex. destruct Ex as [d [Hd Hu]]. apply Z.eqb_eq in Hu.
    destruct (last_req_app_hit (fst q) (delivered_cop o) L) as [d0 [H0 [H1 H2]]]; [exists d; auto|].
    exists (snd d0). split; [exact H2|]. apply res_eqb_getv.
    unfold sync_op in Hs. rewrite forallb_forall in Hs. specialize (Hs d0 H0).
    rewrite forallb_forall in Hs. specialize (Hs i' Hi).
    rewrite forallb_forall in Hs. specialize (Hs q Hq).
    rewrite H1, Z.eqb_refl in Hs. exact Hs.
  - assert (Hno : forall d, In d (delivered_cop o) -> fst d <> fst q).
    { intros d Hd E. assert (existsb (fun d0 : preq => fst d0 =? fst q) (delivered_cop o) = true).
      { apply existsb_exists. exists d. split; [exact Hd|apply Z.eqb_eq, E]. } congruence. }
    rewrite (last_req_app_skip _ _ _ Hno).
    destruct (assigned_origin c o i' q Hi Hq) as [[i [Hi0 Hq0]]|Hd].
    + apply (Hg i q Hi0 Hq0).
    + exfalso. apply (Hno q Hd). reflexivity.
Qed.

Lemma ghost_run : forall l L c,
  all_along sync_op c l = true -> ghost L c -> ghost (deliver L l) (crun c l).
Proof.
  induction l as [|o t IH]; intros L c Hs Hg; [exact Hg|].
  cbn [all_along] in Hs. apply andb_true_iff in Hs. destruct Hs as [Ho Ht].
  unfold deliver. cbn [fold_left crun]. apply IH; [exact Ht|]. apply ghost_cstep; assumption.
Qed.

(* ---------- reservation uids are unique in the cache ---------- *)
Definition uniq (c : cache) : Prop := NoDup (map r_uid (infos c)).

Lemma uids_set_info i l :
  NoDup (map r_uid l) -> NoDup (map r_uid (set_info i l)).
Proof.
  intros H. unfold set_info. destruct (existsb (fun j => r_uid j =? r_uid i) l) eqn:Ex.
  - assert (E : map r_uid (map (fun j => if r_uid j =? r_uid i then i else j) l) = map r_uid l).
    { rewrite map_map. apply map_ext. intros j. destruct (r_uid j =? r_uid i) eqn:Ej; [|reflexivity].
      apply Z.eqb_eq in Ej. auto. }
    rewrite E. exact H.
  - rewrite map_app. cbn [map].
    apply Permutation.Permutation_NoDup with (l := r_uid i :: map r_uid l).
    + apply Permutation.Permutation_cons_append.
    + constructor; [|exact H]. intro Hin. apply in_map_iff in Hin. destruct Hin as [j [Hj Hin]].
      assert (existsb (fun j0 => r_uid j0 =? r_uid i) l = true).
      { apply existsb_exists. exists j. split; [exact Hin|apply Z.eqb_eq, Hj]. }
      congruence.
Qed.

Lemma uids_del_info u l : NoDup (map r_uid l) -> NoDup (map r_uid (del_info u l)).
Proof.
  unfold del_info. induction l as [|a t IH]; cbn; intros H; [constructor|].
  inversion H as [|x xs Hn Hnd]; subst. destruct (negb (r_uid a =? u)); cbn.
  - constructor; [|apply IH, Hnd]. intro Hin. apply Hn. apply in_map_iff in Hin.
    destruct Hin as [y [Hy Hin]]. apply filter_In in Hin. apply in_map_iff. exists y. tauto.
  - apply IH, Hnd.
Qed.

Lemma uniq_init : uniq init_cache.
Proof. constructor. Qed.

Lemma uniq_cstep c o : uniq c -> uniq (cstep c o).
Proof.
  unfold uniq. intros H.
  assert (Hdel : forall ru pu c0, NoDup (map r_uid (infos c0)) ->
                                  NoDup (map r_uid (infos (c_del_pod ru pu c0)))).
  { intros ru pu c0 H0. unfold c_del_pod. destruct (find_info ru (infos c0)); [|exact H0].
    cbn [infos]. apply uids_set_info, H0. }
  destruct o as [b own s|u n|ru pu req|ru pu|oru nru op np]; cbn [cstep].
  - unfold c_update. destruct (find_info (s_uid s) (infos c)) as [i0|].
    + destruct (s_node s =? 0); [cbn [infos]; apply uids_set_info, H|].
      destruct (refresh (s_node s) (s_uid s) (add_owner own (update_info i0 s)) (matchable c) (alloc_idx c)).
      cbn [infos]. apply uids_set_info, H.
    + destruct b; [exact H|].
      destruct (s_node s =? 0); [cbn [infos]; apply uids_set_info, H|].
      destruct (refresh (s_node s) (s_uid s) (add_owner own (new_info s)) (matchable c) (alloc_idx c)).
      cbn [infos]. apply uids_set_info, H.
  - cbn [c_delete infos]. apply uids_del_info, H.
  - unfold c_add_pod. destruct (find_info ru (infos c)); [|exact H].
    destruct (s_term (r_spec r)); [exact H|]. cbn [fst infos]. apply uids_set_info, H.
  - apply Hdel, H.
  - unfold c_update_pod.
    set (c1 := match op with Some q0 => c_del_pod oru (fst q0) c | None => c end).
    assert (H1 : NoDup (map r_uid (infos c1))) by (unfold c1; destruct op; [apply Hdel, H|exact H]).
    destruct np; [|exact H1]. destruct (find_info nru (infos c1)); [|exact H1].
    cbn [infos]. apply uids_set_info, H1.
Qed.

Lemma uniq_run : forall l c, uniq c -> uniq (crun c l).
Proof.
  induction l as [|o t IH]; intros c H; [exact H|]. cbn [crun fold_left]. apply IH, uniq_cstep, H.
Qed.

Lemma uniq_find c i : uniq c -> In i (infos c) -> find_info (r_uid i) (infos c) = Some i.
Proof.
  unfold uniq, find_info. induction (infos c) as [|a t IH]; intros Hn Hi; [destruct Hi|].
  cbn [map] in Hn. inversion Hn as [|x xs Hnot Hnd]; subst. cbn [find].
  destruct Hi as [->|Hi]; [rewrite Z.eqb_refl; reflexivity|].
  destruct (r_uid a =? r_uid i) eqn:E; [|apply IH; assumption].
  exfalso. apply Hnot. apply Z.eqb_eq in E. rewrite E. apply in_map, Hi.
Qed.
