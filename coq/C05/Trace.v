(* C05 — the functions the extracted runner executes (model observable, property decision on
   the implementation's observable, non-triviality rule, finding signature), defined here so
   that the theorems of Properties.v are stated over exactly these definitions. *)
From Coq Require Import List ZArith Bool.
From Verif Require Import Lib.Wire C05.Model C05.Spec C05.Codec.
Import ListNotations.
Open Scope Z_scope.

Definition CRASH : Z := -777777.
Definition crashed (obs : list Z) : bool :=
  match obs with [x] => x =? CRASH | _ => false end.

Fixpoint first_nonzero (l : list Z) : Z :=
  match l with
  | [] => 0
  | x :: t => if x =? 0 then first_nonzero t else x
  end.

(* ==================================================================================== *)
(* history stream                                                                        *)

Definition views_of (hs : list hop) : list cview :=
  map (fun p : Z * cache => view (fst p) (snd p)) (htrace init_cache hs).

Definition run_history (inp : list Z) : list Z :=
  flat_map enc_cview (views_of (dec_history inp)).

(* hypotheses and reference figures recomputed from the history, per entry point *)
Record flag := mkFlag {
  f_stable : bool;                  (* node names stable so far (clauses 3, 4, 6, 14) *)
  f_last : option (list preq);      (* clause 9 *)
  f_specs : list rspec;             (* reservation objects delivered so far, newest first (12, 13) *)
  f_dead : dead                     (* reported deleted, not delivered again since (14) *)
}.

Definition next_last (c : cache) (l : list cop) (last : option (list preq)) : option (list preq) :=
  match last with
  | Some L => if all_along sync_op c l then Some (deliver L l) else None
  | None => None
  end.

Definition next_flag (c : cache) (h : hop) (f : flag) : flag :=
  mkFlag (f_stable f && all_along node_stable_op c (lower c h) && hop_stable c h)
         (next_last c (lower c h) (f_last f))
         (deliver_specs (f_specs f) (lower c h))
         (next_dead c h (f_dead f)).
Fixpoint flags (c : cache) (f : flag) (hs : list hop) : list flag :=
  match hs with
  | [] => []
  | h :: t => let f' := next_flag c h f in f' :: flags (hstep c h) f' t
  end.
Definition flag0 : flag := mkFlag true (Some []) [] [].
Definition flags_of (hs : list hop) := flags init_cache flag0 hs.

Definition dec_views (n : nat) (obs : list Z) : list cview := fst (decode_many dec_cview n obs).

(* an operating pod that names a current owner must come out with that owner assigned (so that,
   being allocate-once, it is not offered again): (reservation uid, owner uid) claimed by h *)
Definition owner_claim (c : cache) (h : hop) : option (Z * Z) :=
  match rev (lower c h) with
  | CUpdate false own s :: _ => if own =? 0 then None else Some (s_uid s, own)
  | _ => None
  end.
Definition claim_ok (cl : option (Z * Z)) (o : cview) : bool :=
  match cl with
  | None => true
  | Some (u, own) =>
    existsb (fun v => (v_uid v =? u) && existsb (fun q : Z * list Z => fst q =? own) (v_assigned v))
            (o_infos o)
  end.

(* one step: the state clauses of prop_view, then 8 (the current owner of an operating pod is
   assigned), then 10 / 11 (a scheduling cycle respected the allocate-once gate / the restricted
   fit), judged on the dumps before and after the step *)
Definition step_code (cl : option (Z * Z)) (h : hop) (f : flag) (prev : list iview) (v : cview) : Z :=
  let s := sched_code h prev (o_infos v) in
  if negb (s =? 0) then s
  else let c := prop_view (f_stable f) (f_last f) (f_specs f) (f_dead f) v in
       if c =? 0 then (if claim_ok cl v then 0 else 8) else c.

(* claims are computed along the model's run *)
Fixpoint claims (c : cache) (hs : list hop) : list (option (Z * Z)) :=
  match hs with
  | [] => []
  | h :: t => owner_claim c h :: claims (hstep c h) t
  end.

Fixpoint codes (cls : list (option (Z * Z))) (hs : list hop) (fl : list flag) (prev : list iview)
         (vs : list cview) : list Z :=
  match cls, hs, fl, vs with
  | cl :: cls', h :: hs', f :: fl', v :: vs' =>
    step_code cl h f prev v :: codes cls' hs' fl' (o_infos v) vs'
  | _, _, _, _ => []
  end.

Definition prop_history (inp obs : list Z) : Z :=
  if crashed obs then 99
  else
    let hs := dec_history inp in
    first_nonzero (codes (claims init_cache hs) hs (flags_of hs) [] (dec_views (length hs) obs)).

(* no known finding shape is left for this stream (finding 1 was repaired by 75e0c17): every
   failure of the decision procedure is a violation *)
Definition sig_history (inp obs : list Z) : Z := 0.

(* non-trivial: at least three entry points, and at some point a cached reservation has a
   pod assigned *)
Definition nontrivial_history (inp : list Z) : bool :=
  let hs := dec_history inp in
  (3 <=? Z.of_nat (length hs))
  && existsb (fun p : Z * cache => existsb (fun i => negb (is_nil (r_assigned i))) (infos (snd p)))
             (htrace init_cache hs).

(* ==================================================================================== *)
(* fits stream                                                                           *)

Definition FRESH : Z := 999.
Definition res_of_vals (vs : list Z) : res := combine dims vs.

Definition run_fits (inp : list Z) : list Z :=
  let '(i, req, pre) := dec_fits inp in
  let r1 := fits_reservation i req pre in
  encode_list r1 ++ encode_list (fits_node_and_reservation i req pre)
  ++ (if is_nil r1
      then let i' := add_assigned i FRESH req in vals (r_allocated i') ++ [n_assigned i']
      else []).

Definition pre_zero (pre : res) : bool := forallb (fun e : Z * Z => snd e =? 0) pre.

(* the ledger step: after AddAssignedPod every dimension grew by the pod's request if the
   dimension is restricted, and by nothing otherwise; the pod count grew by one *)
Definition step_exactb (i : rinfo) (req : res) (alloc' : list Z) (n' : Z) : bool :=
  eq_listZ alloc' (map (fun k => getv k (r_allocated i)
                                 + (if memZ k (r_names i) then getv k req else 0)) dims)
  && (n' =? n_assigned i + 1).

(* clauses: 1 verdict <-> specification, 2 policy dispatch, 3 no over-allocation after the
   admitted pod was added, 4 the ledger step is exact *)
Definition prop_fits (inp obs : list Z) : Z :=
  if crashed obs then 99
  else
    let '(i, req, pre) := dec_fits inp in
    let '(r1, t1) := take_list obs in
    let '(r2, t2) := take_list t1 in
    if negb (Bool.eqb (is_nil r1) (fits_specb i req pre)) then 1
    else if negb (eq_listZ r2 (if s_policy (r_spec i) =? 2 then r1 else [])) then 2
    else if is_nil r1 && pre_zero pre
            && negb (within_afterb i req (res_of_vals (firstn D t2)) (hdZ (skipn D t2)))
    then 3
    else if is_nil r1 && negb (step_exactb i req (firstn D t2) (hdZ (skipn D t2))) then 4
    else 0.

Definition nontrivial_fits (inp : list Z) : bool :=
  let '(i, req, pre) := dec_fits inp in
  (s_policy (r_spec i) =? 2)
  && existsb (fun k => hask k req && (0 <? getv k req)) (r_names i).

(* ==================================================================================== *)
(* owners stream                                                                         *)

Definition run_owners (inp : list Z) : list Z :=
  let '(p, ws) := dec_owners inp in
  [bz (match_owners ws p); bz (match_owners ws p); bz (owners_bad ws)].

(* clauses: 1 matched <-> the pod satisfies the owner specification, 2 the update path
   (UpdateReservation) agrees with the construction path *)
Definition prop_owners (inp obs : list Z) : Z :=
  if crashed obs then 99
  else
    let '(p, ws) := dec_owners inp in
    match obs with
    | m1 :: m2 :: _ =>
      if negb (Bool.eqb (zb m1) (owners_specb ws p)) then 1
      else if negb (m1 =? m2) then 2 else 0
    | _ => 98
    end.

Definition nontrivial_owners (inp : list Z) : bool :=
  let '(p, ws) := dec_owners inp in negb (is_nil ws) && negb (owners_bad ws).
