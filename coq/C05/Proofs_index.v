(* C05 — the per-node indexes: soundness, completeness, and what a visited reservation
   satisfies, for every history whose node names are stable. *)
From Coq Require Import List ZArith Bool Lia.
From Verif Require Import C05.Model C05.Spec C05.Proofs_base.
Import ListNotations.
Open Scope Z_scope.

Definition in_any (n u : Z) (c : cache) : Prop :=
  idx_mem n u (on_node c) = true \/ idx_mem n u (matchable c) = true
  \/ idx_mem n u (alloc_idx c) = true.

Definition jinv (c : cache) : Prop :=
  index_sound c /\ index_complete c /\ nomination_ok c.

Lemma jinv_init : jinv init_cache.
Proof.
  split; [|split].
  - intros n u [H|[H|H]]; discriminate H.
  - intros i [].
  - intros n u H. discriminate H.
Qed.

(* ---------- small facts ---------- *)
Lemma add_assigned_spec i u req : r_spec (add_assigned i u req) = r_spec i.
Proof. unfold add_assigned. destruct (has_assigned u i); reflexivity. Qed.
Lemma add_assigned_perr i u req : r_perr (add_assigned i u req) = r_perr i.
Proof. unfold add_assigned. destruct (has_assigned u i); reflexivity. Qed.
Lemma remove_assigned_spec i u : r_spec (remove_assigned i u) = r_spec i.
Proof. unfold remove_assigned. destruct (find_assigned u i); reflexivity. Qed.
Lemma remove_assigned_perr i u : r_perr (remove_assigned i u) = r_perr i.
Proof. unfold remove_assigned. destruct (find_assigned u i); reflexivity. Qed.

Lemma gate_matchable i :
  is_available (r_spec i) = true -> r_perr i = false ->
  nominate_gate i = true -> is_matchable i = true.
Proof.
  intros Ha Hp Hg. unfold is_matchable, nominate_gate in *. rewrite Ha, Hp, Hg. reflexivity.
Qed.

Lemma matchable_avail i :
  is_matchable i = true -> is_available (r_spec i) = true /\ r_perr i = false.
Proof.
  unfold is_matchable. intros H. apply andb_true_iff in H. destruct H as [H _].
  apply andb_true_iff in H. destruct H as [H1 H2]. apply negb_true_iff in H2. auto.
Qed.

(* what refresh does to membership *)
Lemma refresh_matchable n u i m a n' u' :
  idx_mem n' u' (fst (refresh n u i m a))
  = if is_matchable i then idx_mem n' u' m || ((n' =? n) && (u' =? u))
    else idx_mem n' u' m && negb ((n' =? n) && (u' =? u)).
Proof.
  unfold refresh. destruct (is_matchable i); cbn [fst].
  - apply idx_mem_add.
  - apply idx_mem_del_clean.
Qed.

Lemma refresh_alloc_sub n u i m a n' u' :
  idx_mem n' u' (snd (refresh n u i m a)) = true ->
  idx_mem n' u' a = true \/ (n' = n /\ u' = u).
Proof.
  unfold refresh. destruct (is_matchable i); cbn [snd].
  - destruct (negb (is_nil (r_assigned i))).
    + rewrite idx_mem_add. intros H. apply orb_true_iff in H. destruct H as [H|H]; [left; exact H|].
      apply andb_true_iff in H. destruct H as [H1 H2]. apply Z.eqb_eq in H1, H2. right. auto.
    + rewrite idx_mem_del_keep. intros H. apply andb_true_iff in H. left. apply H.
  - rewrite idx_mem_del_clean. intros H. apply andb_true_iff in H. left. apply H.
Qed.

(* a single reservation (re)placed in the cache: generic preservation lemma.
   [i] is the new info of uid u = r_uid i placed on node r_node i; indexes are changed only at
   the pair (r_node i, u). *)
Section Replace.
  Variable c : cache.
  Variable i : rinfo.
  Variables onn m a : idx.
  Let u := r_uid i.
  Let n := r_node i.
  Let c' := mkCache (set_info i (infos c)) onn m a.

  (* the previous info of the same uid, if any, sat on the same node (or on none) *)
  Hypothesis Hstable : forall i0, find_info u (infos c) = Some i0 -> r_node i0 = 0 \/ r_node i0 = n.
  (* new index entries are old ones or the pair (n, u) with n <> 0 *)
  Hypothesis Honn : forall n' u', idx_mem n' u' onn = true ->
                                  idx_mem n' u' (on_node c) = true \/ (n' = n /\ u' = u /\ n <> 0).
  Hypothesis Hm : forall n' u', idx_mem n' u' m = true ->
                                (idx_mem n' u' (matchable c) = true /\ (u' <> u \/ n' <> n))
                                \/ (n' = n /\ u' = u /\ n <> 0 /\ is_matchable i = true).
  Hypothesis Ha : forall n' u', idx_mem n' u' a = true ->
                                idx_mem n' u' (alloc_idx c) = true \/ (n' = n /\ u' = u /\ n <> 0).
  (* old on_node entries survive, and the new info is listed if it has a node *)
  Hypothesis Hkeep : forall n' u', idx_mem n' u' (on_node c) = true -> idx_mem n' u' onn = true.
  Hypothesis Hlisted : n <> 0 -> idx_mem n u onn = true.

  Lemma replace_find u' : find_info u' (infos c') = if u =? u' then Some i else find_info u' (infos c).
  Proof. unfold c'. cbn [infos]. apply find_info_set. Qed.

  (* an old entry of uid u sits on node n *)
  Lemma old_entry_node n' : in_any n' u c -> index_sound c -> n' = n /\ n <> 0.
  Proof.
    intros Hin Hs. destruct (Hs n' u Hin) as [i0 [Hf [Hn Hnz]]].
    destruct (Hstable i0 Hf) as [H0|H0]; [lia|]. split; lia.
  Qed.

  Lemma replace_jinv : jinv c -> jinv c'.
  Proof.
    intros [Hs [Hc Hn]]. split; [|split].
    - (* sound *)
      intros n' u' Hin.
      assert (Hcases : in_any n' u' c \/ (n' = n /\ u' = u /\ n <> 0)).
      { destruct Hin as [H|[H|H]]; cbn [on_node matchable alloc_idx c'] in H.
        - destruct (Honn _ _ H) as [H1|H1]; [left; left; exact H1|right; exact H1].
        - destruct (Hm _ _ H) as [[H1 _]|[H1 [H2 [H3 _]]]]; [left; right; left; exact H1|right; auto].
        - destruct (Ha _ _ H) as [H1|H1]; [left; right; right; exact H1|right; exact H1]. }
      rewrite replace_find. destruct Hcases as [Hold|[-> [-> Hnz]]].
      + destruct (u =? u') eqn:Eu.
        * apply Z.eqb_eq in Eu. subst u'. destruct (old_entry_node n' Hold Hs) as [-> Hnz].
          exists i. auto.
        * apply (Hs n' u' Hold).
      + rewrite Z.eqb_refl. exists i. auto.
    - (* complete *)
      intros j Hj Hjn. cbn [infos c'] in Hj. cbn [on_node c'].
      apply In_set_info_other in Hj. destruct Hj as [->|[Hj Hne]].
      + apply Hlisted, Hjn.
      + apply Hkeep. apply Hc; assumption.
    - (* nomination *)
      intros n' u' Hin. cbn [matchable c'] in Hin. rewrite replace_find.
      destruct (Hm _ _ Hin) as [[Hold Hdiff]|[-> [-> [Hnz Hma]]]].
      + destruct (u =? u') eqn:Eu.
        * apply Z.eqb_eq in Eu. subst u'.
          assert (Hany : in_any n' u c) by (right; left; exact Hold).
          destruct (old_entry_node n' Hany Hs) as [-> _]. destruct Hdiff; congruence.
        * apply (Hn n' u' Hold).
      + rewrite Z.eqb_refl. exists i. destruct (matchable_avail i Hma) as [Hav Hpe].
        repeat split; auto.
  Qed.
End Replace.

(* ---------- the operations ---------- *)
Lemma stable_cases b i0 s :
  (negb b && (r_node i0 =? 0)) || (r_node i0 =? s_node s) = true ->
  (b = false /\ r_node i0 = 0) \/ r_node i0 = s_node s.
Proof.
  intros H. apply orb_true_iff in H. destruct H as [H|H].
  - apply andb_true_iff in H. destruct H as [H1 H2]. apply negb_true_iff in H1.
    apply Z.eqb_eq in H2. left. auto.
  - apply Z.eqb_eq in H. right. exact H.
Qed.

(* membership facts about the refreshed indexes, in the shape replace_jinv wants *)
Lemma refresh_m_shape n u i m a n' u' :
  n <> 0 ->
  idx_mem n' u' (fst (refresh n u i m a)) = true ->
  (idx_mem n' u' m = true /\ (u' <> u \/ n' <> n))
  \/ (n' = n /\ u' = u /\ n <> 0 /\ is_matchable i = true).
Proof.
  intros Hnz H. rewrite refresh_matchable in H. destruct (is_matchable i) eqn:Ema.
  - apply orb_true_iff in H. destruct H as [H|H].
    + destruct (Z.eq_dec u' u) as [E1|E1]; [|left; split; [exact H|left; exact E1]].
      destruct (Z.eq_dec n' n) as [E2|E2]; [|left; split; [exact H|right; exact E2]].
      right. auto.
    + apply andb_true_iff in H. destruct H as [H1 H2]. apply Z.eqb_eq in H1, H2. right. auto.
  - apply andb_true_iff in H. destruct H as [H H'].
    left. split; [exact H|]. apply negb_true_iff, andb_false_iff in H'.
    destruct H' as [H'|H']; apply Z.eqb_neq in H'; [right|left]; exact H'.
Qed.

Lemma refresh_a_shape n u i m a n' u' :
  n <> 0 ->
  idx_mem n' u' (snd (refresh n u i m a)) = true ->
  idx_mem n' u' a = true \/ (n' = n /\ u' = u /\ n <> 0).
Proof.
  intros Hnz H. apply refresh_alloc_sub in H. destruct H as [H|[H1 H2]]; [left; exact H|right; auto].
Qed.

Lemma idx_add_shape n u ix n' u' :
  n <> 0 -> idx_mem n' u' (idx_add n u ix) = true ->
  idx_mem n' u' ix = true \/ (n' = n /\ u' = u /\ n <> 0).
Proof.
  intros Hnz H. rewrite idx_mem_add in H. apply orb_true_iff in H. destruct H as [H|H]; [left; exact H|].
  apply andb_true_iff in H. destruct H as [H1 H2]. apply Z.eqb_eq in H1, H2. right. auto.
Qed.

(* placing info i (uid u, node n) with the indexes refreshed the way updateReservation /
   updateReservationIfExists / updateReservationOperatingPod do *)
Lemma jinv_place c i n u (b : bool) :
  r_node i = n -> r_uid i = u ->
  (forall i0, find_info u (infos c) = Some i0 -> r_node i0 = 0 \/ r_node i0 = n) ->
  (* updateReservationIfExists leaves reservationsOnNode alone: it must be listed already *)
  (b = true -> n <> 0 -> idx_mem n u (on_node c) = true) ->
  jinv c ->
  jinv (if n =? 0
        then mkCache (set_info i (infos c)) (on_node c) (matchable c) (alloc_idx c)
        else let '(m, a) := refresh n u i (matchable c) (alloc_idx c) in
             mkCache (set_info i (infos c))
                     (if b then on_node c else idx_add n u (on_node c)) m a).
Proof.
  intros En Eu Hst Hl Hj. subst n u. destruct (r_node i =? 0) eqn:Ez.
  - apply Z.eqb_eq in Ez.
    apply (replace_jinv c i (on_node c) (matchable c) (alloc_idx c)).
    + exact Hst.
    + intros n' u' H. left. exact H.
    + intros n' u' H. left. split; [exact H|].
      destruct Hj as [Hs _]. destruct (Z.eq_dec u' (r_uid i)) as [E|E]; [|left; exact E].
      right. subst u'. destruct (Hs n' (r_uid i)) as [i1 [Hf1 [Hn1 Hnz]]]; [right; left; exact H|].
      destruct (Hst i1 Hf1); lia.
    + intros n' u' H. left. exact H.
    + intros n' u' H. exact H.
    + intros H. exfalso. apply H, Ez.
    + exact Hj.
  - apply Z.eqb_neq in Ez.
    destruct (refresh (r_node i) (r_uid i) i (matchable c) (alloc_idx c)) as [m a] eqn:Er.
    assert (Em : m = fst (refresh (r_node i) (r_uid i) i (matchable c) (alloc_idx c)))
      by (rewrite Er; reflexivity).
    assert (Ea : a = snd (refresh (r_node i) (r_uid i) i (matchable c) (alloc_idx c)))
      by (rewrite Er; reflexivity).
    apply (replace_jinv c i _ m a).
    + exact Hst.
    + intros n' u' H. destruct b; [left; exact H|]. apply idx_add_shape; assumption.
    + intros n' u' H. rewrite Em in H. apply refresh_m_shape in H; assumption.
    + intros n' u' H. rewrite Ea in H. apply refresh_a_shape in H; assumption.
    + intros n' u' H. destruct b; [exact H|]. rewrite idx_mem_add, H. reflexivity.
    + intros Hnz. destruct b; [apply Hl; auto|].
      rewrite idx_mem_add, !Z.eqb_refl. apply orb_true_r.
    + exact Hj.
Qed.

Lemma add_owner_spec own i : r_spec (add_owner own i) = r_spec i.
Proof. unfold add_owner. destruct (own =? 0); [reflexivity|apply add_assigned_spec]. Qed.

Lemma jinv_update b own s c :
  node_stable_op c (CUpdate b own s) = true -> jinv c -> jinv (c_update b own s c).
Proof.
  intros Hst Hj. unfold c_update. cbn [node_stable_op] in Hst.
  destruct (find_info (s_uid s) (infos c)) as [i0|] eqn:Ef.
  - apply stable_cases in Hst.
    apply (jinv_place c (add_owner own (update_info i0 s)) (s_node s) (s_uid s) b); [| | | |exact Hj].
    + unfold r_node. rewrite add_owner_spec. reflexivity.
    + unfold r_uid. rewrite add_owner_spec. reflexivity.
    + intros i1 Hf. rewrite Ef in Hf. inversion Hf; subst i1.
      destruct Hst as [[_ H]|H]; [left|right]; exact H.
    + intros Hb Hnz. destruct Hst as [[Hb' _]|H]; [congruence|].
      destruct Hj as [_ [Hc _]]. destruct (find_info_some _ _ _ Ef) as [Hin Hu0].
      specialize (Hc i0 Hin). rewrite H, Hu0 in Hc. apply Hc, Hnz.
  - destruct b; [exact Hj|].
    apply (jinv_place c (add_owner own (new_info s)) (s_node s) (s_uid s) false); [| | | |exact Hj].
    + unfold r_node. rewrite add_owner_spec. reflexivity.
    + unfold r_uid. rewrite add_owner_spec. reflexivity.
    + intros i1 Hf. rewrite Ef in Hf. discriminate Hf.
    + intros Hb. discriminate Hb.
Qed.

Lemma jinv_delete u n c :
  node_stable_op c (CDelete u n) = true -> jinv c -> jinv (c_delete u n c).
Proof.
  intros Hst [Hs [Hc Hn]]. cbn [node_stable_op] in Hst.
  (* every old entry of uid u sits on node n *)
  assert (Hnode : forall n', in_any n' u c -> n' = n).
  { intros n' Hin. destruct (Hs n' u Hin) as [i0 [Hf [Hn0 Hnz]]]. rewrite Hf in Hst.
    apply orb_true_iff in Hst. destruct Hst as [H|H]; apply Z.eqb_eq in H; lia. }
  assert (Hsub : forall n' u', in_any n' u' (c_delete u n c) -> in_any n' u' c /\ u' <> u).
  { intros n' u' Hin. unfold c_delete in Hin.
    assert (Hold : in_any n' u' c /\ (n' <> n \/ u' <> u \/ (n = 0 /\ n' = n /\ u' = u))).
    { destruct Hin as [H|[H|H]]; cbn [on_node matchable alloc_idx] in H.
      - destruct (n =? 0) eqn:Ez.
        + apply Z.eqb_eq in Ez. split; [left; exact H|].
          destruct (Z.eq_dec n' n); [|left; assumption].
          destruct (Z.eq_dec u' u); [|right; left; assumption]. right. right. auto.
        + rewrite idx_mem_del_clean in H. apply andb_true_iff in H. destruct H as [H H'].
          split; [left; exact H|]. apply negb_true_iff, andb_false_iff in H'.
          destruct H' as [H'|H']; apply Z.eqb_neq in H'; [left|right; left]; exact H'.
      - rewrite idx_mem_del_clean in H. apply andb_true_iff in H. destruct H as [H H'].
        split; [right; left; exact H|]. apply negb_true_iff, andb_false_iff in H'.
        destruct H' as [H'|H']; apply Z.eqb_neq in H'; [left|right; left]; exact H'.
      - rewrite idx_mem_del_clean in H. apply andb_true_iff in H. destruct H as [H H'].
        split; [right; right; exact H|]. apply negb_true_iff, andb_false_iff in H'.
        destruct H' as [H'|H']; apply Z.eqb_neq in H'; [left|right; left]; exact H'. }
    destruct Hold as [Hold Hd]. split; [exact Hold|]. intro E. subst u'.
    pose proof (Hnode n' Hold) as En. destruct (Hs n' u Hold) as [_ [_ [_ Hnz]]].
    destruct Hd as [Hd|[Hd|[Hd _]]]; congruence. }
  split; [|split].
  - intros n' u' Hin. destruct (Hsub n' u' Hin) as [Hold Hne].
    cbn [c_delete infos]. rewrite find_info_del.
    destruct (u' =? u) eqn:E; [apply Z.eqb_eq in E; congruence|]. apply (Hs n' u' Hold).
  - intros j Hj Hjn. cbn [c_delete infos] in Hj. apply In_del_info in Hj. destruct Hj as [Hj Hne].
    cbn [c_delete on_node]. specialize (Hc j Hj Hjn).
    destruct (n =? 0); [exact Hc|]. rewrite idx_mem_del_clean, Hc.
    assert (r_uid j =? u = false) as -> by (apply Z.eqb_neq; exact Hne).
    rewrite andb_false_r. reflexivity.
  - intros n' u' Hin.
    assert (Hany : in_any n' u' (c_delete u n c)) by (right; left; exact Hin).
    destruct (Hsub n' u' Hany) as [_ Hne].
    cbn [c_delete matchable] in Hin. rewrite idx_mem_del_clean in Hin.
    apply andb_true_iff in Hin. destruct Hin as [Hin _].
    cbn [c_delete infos]. rewrite find_info_del.
    destruct (u' =? u) eqn:E; [apply Z.eqb_eq in E; congruence|]. apply (Hn n' u' Hin).
Qed.

(* pod operations: same reservation object, only the allocated index may change at the
   reservation's own (node, uid) *)
Lemma jinv_touch c i0 i a :
  find_info (r_uid i0) (infos c) = Some i0 ->
  r_spec i = r_spec i0 -> r_perr i = r_perr i0 ->
  (forall n' u', idx_mem n' u' a = true ->
                 idx_mem n' u' (alloc_idx c) = true
                 \/ (n' = r_node i0 /\ u' = r_uid i0 /\ r_node i0 <> 0)) ->
  jinv c -> jinv (mkCache (set_info i (infos c)) (on_node c) (matchable c) a).
Proof.
  intros Hf Hsp Hpe Ha [Hs [Hc Hn]].
  assert (Hu : r_uid i = r_uid i0) by (unfold r_uid; rewrite Hsp; reflexivity).
  assert (Hnd : r_node i = r_node i0) by (unfold r_node; rewrite Hsp; reflexivity).
  split; [|split].
  - intros n' u' Hin. cbn [infos]. rewrite find_info_set, Hu.
    assert (Hcases : in_any n' u' c \/ (n' = r_node i0 /\ u' = r_uid i0 /\ r_node i0 <> 0)).
    { destruct Hin as [H|[H|H]]; cbn [on_node matchable alloc_idx] in H.
      - left; left; exact H.
      - left; right; left; exact H.
      - destruct (Ha _ _ H) as [H1|H1]; [left; right; right; exact H1|right; exact H1]. }
    destruct Hcases as [Hold|[-> [-> Hnz]]].
    + destruct (r_uid i0 =? u') eqn:E.
      * apply Z.eqb_eq in E. subst u'. destruct (Hs _ _ Hold) as [i1 [Hf1 [Hn1 Hnz]]].
        rewrite Hf in Hf1. inversion Hf1; subst i1. exists i. rewrite Hnd. auto.
      * apply (Hs _ _ Hold).
    + rewrite Z.eqb_refl. exists i. auto.
  - intros j Hj Hjn. cbn [infos] in Hj. cbn [on_node].
    apply In_set_info_other in Hj. destruct Hj as [->|[Hj _]].
    + rewrite Hnd, Hu. rewrite Hnd in Hjn. apply Hc; [|exact Hjn].
      apply (find_info_some _ _ _ Hf).
    + apply Hc; assumption.
  - intros n' u' Hin. cbn [matchable] in Hin. cbn [infos]. rewrite find_info_set, Hu.
    destruct (Hn _ _ Hin) as [i1 [Hf1 [Hn1 [Hav [Hpe1 Hg]]]]].
    destruct (r_uid i0 =? u') eqn:E.
    + apply Z.eqb_eq in E. subst u'. rewrite Hf in Hf1. inversion Hf1; subst i1.
      exists i. rewrite Hnd, Hsp, Hpe. repeat split; auto.
      intros Hgate. apply gate_matchable; [rewrite Hsp; exact Hav|rewrite Hpe; exact Hpe1|exact Hgate].
    + exists i1. repeat split; auto.
Qed.

Lemma find_info_uid u l i : find_info u l = Some i -> find_info (r_uid i) l = Some i.
Proof. intros H. destruct (find_info_some _ _ _ H) as [_ E]. rewrite E. exact H. Qed.

Lemma jinv_add_pod ru pu req c : jinv c -> jinv (fst (c_add_pod ru pu req c)).
Proof.
  intros Hj. unfold c_add_pod. destruct (find_info ru (infos c)) as [i0|] eqn:Ef; [|exact Hj].
  destruct (s_term (r_spec i0)); [exact Hj|]. cbn [fst].
  apply (jinv_touch c i0); auto.
  - apply (find_info_uid _ _ _ Ef).
  - apply add_assigned_spec.
  - apply add_assigned_perr.
  - intros n' u' H. unfold mark_allocated in H.
    set (i := add_assigned i0 pu req) in *.
    assert (Hu : r_uid i = r_uid i0) by (unfold r_uid, i; rewrite add_assigned_spec; reflexivity).
    assert (Hnd : r_node i = r_node i0) by (unfold r_node, i; rewrite add_assigned_spec; reflexivity).
    destruct (is_matchable i && negb (is_nil (r_assigned i)) && negb (r_node i =? 0)) eqn:E;
      [|left; exact H].
    rewrite idx_mem_add in H. apply orb_true_iff in H. destruct H as [H|H]; [left; exact H|].
    apply andb_true_iff in H. destruct H as [H1 H2]. apply Z.eqb_eq in H1, H2.
    apply andb_true_iff in E. destruct E as [_ E]. apply negb_true_iff, Z.eqb_neq in E.
    right. rewrite <- Hnd, <- Hu. auto.
Qed.

Lemma jinv_del_pod ru pu c : jinv c -> jinv (c_del_pod ru pu c).
Proof.
  intros Hj. unfold c_del_pod. destruct (find_info ru (infos c)) as [i0|] eqn:Ef; [|exact Hj].
  apply (jinv_touch c i0); auto.
  - apply (find_info_uid _ _ _ Ef).
  - apply remove_assigned_spec.
  - apply remove_assigned_perr.
  - intros n' u' H. unfold unmark_allocated in H.
    destruct (is_nil (r_assigned (remove_assigned i0 pu))
              && negb (r_node (remove_assigned i0 pu) =? 0)); [|left; exact H].
    rewrite idx_mem_del_clean in H. apply andb_true_iff in H. left. apply H.
Qed.

Lemma jinv_update_pod oru nru op np c : jinv c -> jinv (c_update_pod oru nru op np c).
Proof.
  intros Hj. unfold c_update_pod.
  set (c1 := match op with Some q => c_del_pod oru (fst q) c | None => c end).
  assert (Hj1 : jinv c1) by (unfold c1; destruct op; [apply jinv_del_pod, Hj|exact Hj]).
  destruct np as [q|]; [|exact Hj1].
  pose proof (jinv_add_pod nru (fst q) (snd q) c1 Hj1) as H. unfold c_add_pod in H.
  destruct (find_info nru (infos c1)) as [i0|] eqn:Ef; [|exact Hj1].
  (* updatePod does not look at the terminating flag *)
  apply (jinv_touch c1 i0); auto.
  - apply (find_info_uid _ _ _ Ef).
  - apply add_assigned_spec.
  - apply add_assigned_perr.
  - intros n' u' H'. unfold mark_allocated in H'.
    set (i := add_assigned i0 (fst q) (snd q)) in *.
    assert (Hu : r_uid i = r_uid i0) by (unfold r_uid, i; rewrite add_assigned_spec; reflexivity).
    assert (Hnd : r_node i = r_node i0) by (unfold r_node, i; rewrite add_assigned_spec; reflexivity).
    destruct (is_matchable i && negb (is_nil (r_assigned i)) && negb (r_node i =? 0)) eqn:E;
      [|left; exact H'].
    rewrite idx_mem_add in H'. apply orb_true_iff in H'. destruct H' as [H'|H']; [left; exact H'|].
    apply andb_true_iff in H'. destruct H' as [H1 H2]. apply Z.eqb_eq in H1, H2.
    apply andb_true_iff in E. destruct E as [_ E]. apply negb_true_iff, Z.eqb_neq in E.
    right. rewrite <- Hnd, <- Hu. auto.
Qed.

Lemma jinv_cstep c o : node_stable_op c o = true -> jinv c -> jinv (cstep c o).
Proof.
  intros Hst Hj. destruct o; cbn [cstep].
  - apply jinv_update; assumption.
  - apply jinv_delete; assumption.
  - apply jinv_add_pod, Hj.
  - apply jinv_del_pod, Hj.
  - apply jinv_update_pod, Hj.
Qed.

Lemma jinv_run : forall l c, all_along node_stable_op c l = true -> jinv c -> jinv (crun c l).
Proof.
  induction l as [|o t IH]; intros c Hst Hj; [exact Hj|].
  cbn [all_along] in Hst. apply andb_true_iff in Hst. destruct Hst as [Ho Ht].
  cbn [crun fold_left]. apply IH; [exact Ht|]. apply jinv_cstep; assumption.
Qed.

Lemma index_invariants_stable_histories l :
  all_along node_stable_op init_cache l = true ->
  index_sound (crun init_cache l) /\ index_complete (crun init_cache l)
  /\ nomination_ok (crun init_cache l).
Proof. intros H. apply (jinv_run l init_cache H jinv_init). Qed.

(* a hypothesis on the event list alone: every reservation event of uid u carries the node
   name [nodeof u] (status.nodeName / spec.nodeName never changes) *)
Definition carries (nodeof : Z -> Z) (o : cop) : Prop :=
  match o with
  | CUpdate _ _ s => s_node s = nodeof (s_uid s)
  | CDelete u n => n = nodeof u
  | _ => True
  end.

Definition placed (nodeof : Z -> Z) (c : cache) : Prop :=
  forall i, In i (infos c) -> r_node i = nodeof (r_uid i).

Lemma placed_cstep nodeof c o : carries nodeof o -> placed nodeof c -> placed nodeof (cstep c o).
Proof.
  intros Hc Hp.
  assert (Hset : forall i l, (forall j, In j l -> r_node j = nodeof (r_uid j)) ->
                             r_node i = nodeof (r_uid i) ->
                             forall j, In j (set_info i l) -> r_node j = nodeof (r_uid j)).
  { intros i l Hl Hi j Hj. apply In_set_info in Hj. destruct Hj as [->|Hj]; [exact Hi|apply Hl, Hj]. }
  assert (Hdel : forall ru pu c0, placed nodeof c0 -> placed nodeof (c_del_pod ru pu c0)).
  { intros ru pu c0 H0. unfold c_del_pod. destruct (find_info ru (infos c0)) as [i0|] eqn:Ef; [|exact H0].
    intros j Hj. cbn [infos] in Hj. revert j Hj. apply Hset; [exact H0|].
    unfold r_node, r_uid. rewrite remove_assigned_spec. apply H0, (find_info_some _ _ _ Ef). }
  destruct o as [b own s|u n|ru pu req|ru pu|oru nru op np]; cbn [cstep].
  - cbn [carries] in Hc. unfold c_update.
    destruct (find_info (s_uid s) (infos c)) as [i0|] eqn:Ef.
    + assert (Hall : forall j, In j (set_info (add_owner own (update_info i0 s)) (infos c)) ->
                               r_node j = nodeof (r_uid j)).
      { apply Hset; [exact Hp|]. unfold r_node, r_uid. rewrite add_owner_spec. exact Hc. }
      destruct (s_node s =? 0); [exact Hall|].
      destruct (refresh (s_node s) (s_uid s) (add_owner own (update_info i0 s)) (matchable c) (alloc_idx c)).
      exact Hall.
    + destruct b; [exact Hp|].
      assert (Hall : forall j, In j (set_info (add_owner own (new_info s)) (infos c)) ->
                               r_node j = nodeof (r_uid j)).
      { apply Hset; [exact Hp|]. unfold r_node, r_uid. rewrite add_owner_spec. exact Hc. }
      destruct (s_node s =? 0); [exact Hall|].
      destruct (refresh (s_node s) (s_uid s) (add_owner own (new_info s)) (matchable c) (alloc_idx c)).
      exact Hall.
  - intros j Hj. cbn [c_delete infos] in Hj. apply In_del_info in Hj. apply Hp, Hj.
  - unfold c_add_pod. destruct (find_info ru (infos c)) as [i0|] eqn:Ef; [|exact Hp].
    destruct (s_term (r_spec i0)); [exact Hp|]. cbn [fst].
    intros j Hj. cbn [infos] in Hj. revert j Hj. apply Hset; [exact Hp|].
    unfold r_node, r_uid. rewrite add_assigned_spec. apply Hp, (find_info_some _ _ _ Ef).
  - apply Hdel, Hp.
  - unfold c_update_pod.
    set (c1 := match op with Some q => c_del_pod oru (fst q) c | None => c end).
    assert (H1 : placed nodeof c1) by (unfold c1; destruct op; [apply Hdel, Hp|exact Hp]).
    destruct np as [q|]; [|exact H1].
    destruct (find_info nru (infos c1)) as [i0|] eqn:Ef; [|exact H1].
    intros j Hj. cbn [infos] in Hj. revert j Hj. apply Hset; [exact H1|].
    unfold r_node, r_uid. rewrite add_assigned_spec. apply H1, (find_info_some _ _ _ Ef).
Qed.

Lemma carries_stable nodeof c o : carries nodeof o -> placed nodeof c -> node_stable_op c o = true.
Proof.
  intros Hc Hp. destruct o as [b own s|u n| | |]; try reflexivity; cbn [node_stable_op carries] in *.
  - destruct (find_info (s_uid s) (infos c)) as [i0|] eqn:Ef; [|reflexivity].
    destruct (find_info_some _ _ _ Ef) as [Hi Hu]. rewrite (Hp i0 Hi), Hu, Hc, Z.eqb_refl.
    apply orb_true_r.
  - destruct (find_info u (infos c)) as [i0|] eqn:Ef; [|reflexivity].
    destruct (find_info_some _ _ _ Ef) as [Hi Hu]. rewrite (Hp i0 Hi), Hu, Hc, Z.eqb_refl.
    apply orb_true_r.
Qed.

Lemma carries_all_along nodeof : forall l c,
  Forall (carries nodeof) l -> placed nodeof c -> all_along node_stable_op c l = true.
Proof.
  induction l as [|o t IH]; intros c Hl Hp; [reflexivity|].
  inversion Hl as [|x xs Ho Ht]; subst. cbn [all_along].
  rewrite (carries_stable nodeof c o Ho Hp). cbn [andb].
  apply IH; [exact Ht|]. apply placed_cstep; assumption.
Qed.

Lemma index_invariants_by_event_nodes nodeof l :
  Forall (carries nodeof) l ->
  index_sound (crun init_cache l) /\ index_complete (crun init_cache l)
  /\ nomination_ok (crun init_cache l).
Proof.
  intros H. apply index_invariants_stable_histories.
  apply (carries_all_along nodeof); [exact H|]. intros i [].
Qed.

(* without the stability hypothesis the indexes can reference a deleted reservation:
   DeleteReservation cleans the node named by the EVENT *)
Definition witness_unstable : list cop :=
  [ CUpdate false 0 (mkSpec 1 1 1 false false 0 0 [] [(1, 8)] [] false 0); CDelete 1 2 ].

Lemma index_sound_needs_stable_nodes :
  all_along node_stable_op init_cache witness_unstable = false
  /\ idx_mem 1 1 (on_node (crun init_cache witness_unstable)) = true
  /\ find_info 1 (infos (crun init_cache witness_unstable)) = None.
Proof. repeat split; vm_compute; reflexivity. Qed.
