(* C05 — a pod that a scheduling cycle puts into a reservation passed the allocate-once gate and
   the restricted fit at that moment; judged on the dumps before and after the cycle. *)
From Coq Require Import List ZArith Bool Lia Permutation.
From Verif Require Import C05.Model C05.Spec C05.Proofs_base C05.Proofs_pure C05.Proofs_ghost
     C05.Proofs_index.
Import ListNotations.
Open Scope Z_scope.

Lemma existsb_perm {A} (f : A -> bool) l l' : Permutation l l' -> existsb f l = existsb f l'.
Proof.
  induction 1; cbn; try congruence.
  destruct (f x), (f y); reflexivity.
Qed.

Lemma positions_nth_map (f : Z -> Z) pk : In pk positions -> nthZ (fst pk) (map f dims) = f (snd pk).
Proof.
  unfold positions, dims. cbn. intros H.
  repeat (destruct H as [<-|H]; [reflexivity|]). destruct H.
Qed.

Lemma has_pod_view u i : has_pod u (info_view i) = has_assigned u i.
Proof.
  unfold has_pod, has_assigned. cbn [info_view v_assigned].
  rewrite <- (existsb_perm _ _ _ (sort_by_perm fst _)).
  induction (r_assigned i) as [|q t IH]; [reflexivity|]. cbn [map existsb fst]. rewrite IH. reflexivity.
Qed.

Lemma view_assigned_length i : Z.of_nat (length (v_assigned (info_view i))) = n_assigned i.
Proof.
  unfold n_assigned. cbn [info_view v_assigned].
  rewrite <- (Permutation_length (sort_by_perm fst _)), map_length. reflexivity.
Qed.

(* the state-level statement: what a scheduling cycle admits *)
Lemma schedule_admits c pu req n t :
  lower c (HSchedule pu req n t) = [CAddPod t pu req] ->
  exists i, find_info t (infos c) = Some i
            /\ idx_mem n t (matchable c) = true
            /\ nominate_gate i = true
            /\ (s_policy (r_spec i) = 2 -> fits_reservation i req [] = []).
Proof.
  cbn [lower]. unfold sched_target. destruct (find_info t (infos c)) as [i|]; [|discriminate].
  destruct (idx_mem n t (matchable c) && negb (r_perr i) && negb (s_term (r_spec i)) && nominate_ok i req) eqn:E;
    [|discriminate].
  intros _. exists i. apply andb_true_iff in E. destruct E as [E Hn].
  apply andb_true_iff in E. destruct E as [E _]. apply andb_true_iff in E. destruct E as [Hm _].
  unfold nominate_ok in Hn. apply andb_true_iff in Hn. destruct Hn as [Hn Hf].
  apply andb_true_iff in Hn. destruct Hn as [Hg _].
  repeat split; auto. intros Hp. rewrite Hp in Hf. cbn in Hf. apply is_nil_true. exact Hf.
Qed.

Lemma schedule_nothing c pu req n t :
  lower c (HSchedule pu req n t) = [CAddPod t pu req] \/ lower c (HSchedule pu req n t) = [].
Proof. cbn [lower]. destruct (sched_target c req n t); auto. Qed.

Lemma view_in code c v : In v (o_infos (view code c)) -> exists i, In i (infos c) /\ v = info_view i.
Proof.
  cbn [view o_infos]. intros H. apply (proj1 (In_sort_by _ _ _)) in H. apply in_map_iff in H.
  destruct H as [i [<- Hi]]. eauto.
Qed.

Lemma sched_fit_view i pu req :
  has_assigned pu i = false ->
  (s_policy (r_spec i) = 2 -> fits_reservation i req [] = []) ->
  sched_fit_ok (info_view i) (info_view (add_assigned i pu req)) req = true.
Proof.
  intros Hfresh Hfit. unfold sched_fit_ok. cbn [info_view v_policy].
  destruct (s_policy (r_spec i) =? 2) eqn:Ep; [|reflexivity]. cbn [negb orb].
  apply Z.eqb_eq in Ep. specialize (Hfit Ep).
  pose proof (no_overalloc i pu req [] Hfit (fun k => eq_refl) Hfresh) as [Hw1 Hw2].
  apply andb_true_iff. split.
  - apply forallb_forall. intros pk Hp. cbn [info_view v_names v_allocated v_cap].
    unfold vals. rewrite !positions_nth_map by exact Hp.
    destruct (memZ (snd pk) (r_names i)) eqn:Em; [|reflexivity].
    destruct (hask (snd pk) req) eqn:Eh; [|reflexivity].
    destruct (0 <? getv (snd pk) req) eqn:Epos; [|reflexivity]. cbn.
    apply Z.leb_le. apply Hw1; [apply memZ_In; exact Em|exact Eh|apply Z.ltb_lt; exact Epos].
  - rewrite view_assigned_length. cbn [info_view v_allocatable]. unfold pvals.
    change (nthZ 4 (map (fun k => if hask k (r_allocatable i) then getv k (r_allocatable i) else -1) dims))
      with (if hask PODS (r_allocatable i) then getv PODS (r_allocatable i) else -1).
    destruct (hask PODS (r_allocatable i)) eqn:Eh; [|reflexivity].
    destruct (getv PODS (r_allocatable i) =? -1); [reflexivity|]. cbn.
    apply Z.leb_le. apply Hw2. reflexivity.
Qed.

Lemma sched_code_ok c h code code' :
  uniq c -> sched_code h (o_infos (view code c)) (o_infos (view code' (hstep c h))) = 0.
Proof.
  intros Hu. destruct h; try reflexivity. rename pu into p, t into tg.
  unfold sched_code.
  assert (Hpairs : forall f : iview -> iview -> bool,
            (forall i, find_info tg (infos c) = Some i -> has_assigned p i = false ->
                       lower c (HSchedule p req n tg) = [CAddPod tg p req] ->
                       f (info_view i) (info_view (add_assigned i p req)) = true) ->
            sched_pairs p tg (o_infos (view code c)) (o_infos (view code' (hstep c (HSchedule p req n tg)))) f = true).
  { intros f Hf. unfold sched_pairs. apply forallb_forall. intros b Hb.
    destruct ((v_uid b =? tg) && has_pod p b) eqn:Eb; [|reflexivity]. cbn [negb orb].
    apply andb_true_iff in Eb. destruct Eb as [Ebu Ebp]. apply Z.eqb_eq in Ebu.
    apply forallb_forall. intros a Ha.
    destruct (v_uid a =? tg) eqn:Eau; [|reflexivity]. cbn [negb orb]. apply Z.eqb_eq in Eau.
    destruct (has_pod p a) eqn:Eap; [reflexivity|]. cbn [orb].
    apply view_in in Ha. destruct Ha as [ia [Hia ->]].
    apply view_in in Hb. destruct Hb as [ib [Hib ->]].
    cbn [info_view v_uid] in Eau, Ebu. rewrite has_pod_view in Eap, Ebp.
    pose proof (uniq_find c ia Hu Hia) as Hfa. rewrite Eau in Hfa.
    unfold hstep in Hib. destruct (schedule_nothing c p req n tg) as [El|El]; rewrite El in Hib.
    - (* the pod was assumed *)
      destruct (schedule_admits c p req n tg El) as [i [Hfi _]].
      rewrite Hfa in Hfi. inversion Hfi; subst i.
      cbn [crun fold_left cstep] in Hib. unfold c_add_pod in Hib. rewrite Hfa in Hib.
      destruct (s_term (r_spec ia)).
      + cbn [fst] in Hib. pose proof (uniq_find c ib Hu Hib) as Hfb. rewrite Ebu, Hfa in Hfb.
        inversion Hfb; subst ib. congruence.
      + cbn [fst infos] in Hib. apply In_set_info_other in Hib. destruct Hib as [->|[Hib Hne]].
        * apply Hf; assumption.
        * exfalso. apply Hne. unfold r_uid. rewrite add_assigned_spec. fold (r_uid ia) (r_uid ib). congruence.
    - (* nothing happened *)
      cbn [crun fold_left] in Hib. pose proof (uniq_find c ib Hu Hib) as Hfb. rewrite Ebu, Hfa in Hfb.
      inversion Hfb; subst ib. congruence. }
  rewrite (Hpairs (fun a _ => sched_gate_ok a)).
  - rewrite (Hpairs (fun a b => sched_fit_ok a b req)); [reflexivity|].
    intros i Hfi Hfresh El. destruct (schedule_admits c p req n tg El) as [i' [Hfi' [_ [_ Hfit]]]].
    rewrite Hfi in Hfi'. inversion Hfi'; subst i'. apply sched_fit_view; assumption.
  - intros i Hfi Hfresh El. destruct (schedule_admits c p req n tg El) as [i' [Hfi' [_ [Hg _]]]].
    rewrite Hfi in Hfi'. inversion Hfi'; subst i'.
    unfold sched_gate_ok. cbn [info_view v_once v_assigned]. rewrite is_nil_sort_by, is_nil_map.
    unfold nominate_gate, once_used in Hg. apply negb_true_iff in Hg. rewrite Hg. reflexivity.
Qed.
