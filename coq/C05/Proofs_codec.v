(* C05 — the observable codec round-trips on the views the model produces, hence the
   decision procedure run on the model's own encoded trace is the one of Proofs_view. *)
From Coq Require Import List ZArith Bool Lia.
From Verif Require Import Lib.Wire C05.Model C05.Spec C05.Codec C05.Trace
     C05.Proofs_base C05.Proofs_view.
Import ListNotations.
Open Scope Z_scope.

Lemma take_n_app {A} (a b : list A) : take_n (length a) (a ++ b) = (a, b).
Proof.
  unfold take_n. rewrite firstn_app, skipn_app, Nat.sub_diag, firstn_all, skipn_all.
  cbn. rewrite app_nil_r. reflexivity.
Qed.

Lemma take_list_enc l r : take_list (encode_list l ++ r) = (l, r).
Proof.
  unfold take_list, encode_list. cbn [app]. rewrite Nat2Z.id. apply take_n_app.
Qed.

Lemma zb_bz b : zb (bz b) = b.
Proof. destruct b; reflexivity. Qed.

Lemma decode_many_enc {A} (f : list Z -> A * list Z) (enc : A -> list Z) (P : A -> Prop) :
  (forall x r, P x -> f (enc x ++ r) = (x, r)) ->
  forall xs r, Forall P xs -> decode_many f (length xs) (flat_map enc xs ++ r) = (xs, r).
Proof.
  intros Hf. induction xs as [|x t IH]; intros r HP; [reflexivity|].
  inversion HP as [|y ys Hx Ht]; subst.
  cbn [length decode_many flat_map]. rewrite <- app_assoc, (Hf x _ Hx), (IH r Ht). reflexivity.
Qed.

Lemma decode_seq_enc {A} (f : list Z -> A * list Z) (enc : A -> list Z) (P : A -> Prop) :
  (forall x r, P x -> f (enc x ++ r) = (x, r)) ->
  forall xs r, Forall P xs ->
    decode_seq f (Z.of_nat (length xs) :: flat_map enc xs ++ r) = (xs, r).
Proof.
  intros Hf xs r HP. unfold decode_seq. rewrite Nat2Z.id. apply (decode_many_enc f enc P Hf xs r HP).
Qed.

(* ---------- well-formed views ---------- *)
Definition wf_asg (q : Z * list Z) : Prop := length (snd q) = D.
Definition wf_iview (v : iview) : Prop :=
  Forall wf_asg (v_assigned v) /\ length (v_allocated v) = D
  /\ length (v_reserved v) = D /\ length (v_allocatable v) = D /\ length (v_cap v) = D.
Definition wf_cview (o : cview) : Prop :=
  Forall wf_iview (o_infos o) /\ length (o_visit o) = length node_ids.

Lemma dec_assigned_enc q r : wf_asg q -> dec_assigned ((fst q :: snd q) ++ r) = (q, r).
Proof.
  intros H. unfold dec_assigned. cbn [app]. unfold wf_asg in H. rewrite <- H, take_n_app.
  destruct q; reflexivity.
Qed.

Lemma dec_iview_enc v r : wf_iview v -> dec_iview (enc_iview v ++ r) = (v, r).
Proof.
  intros [Ha [H1 [H2 [H3 H4]]]]. destruct v as [uid node av pe on te ma ga asg names al rs ab pol cp].
  cbn [v_assigned v_allocated v_reserved v_allocatable v_cap] in *.
  unfold enc_iview.
  cbn [v_uid v_node v_avail v_perr v_once v_term v_matchable v_gate v_assigned v_names
       v_allocated v_reserved v_allocatable v_policy v_cap app].
  unfold dec_iview.
  rewrite <- !app_assoc.
  rewrite (decode_seq_enc dec_assigned (fun q : Z * list Z => fst q :: snd q) wf_asg
             dec_assigned_enc asg _ Ha).
  rewrite take_list_enc.
  rewrite <- H1, take_n_app. rewrite H1, <- H2, take_n_app. rewrite H2, <- H3, take_n_app.
  cbn [app tl hdZ]. rewrite H3, <- H4, take_n_app.
  rewrite !zb_bz. reflexivity.
Qed.

Lemma dec_entry_enc (e : Z * list Z) r : dec_entry ((fst e :: encode_list (snd e)) ++ r) = (e, r).
Proof.
  unfold dec_entry. cbn [app]. rewrite take_list_enc. destruct e; reflexivity.
Qed.

Lemma dec_idx_enc ix r : dec_idx (enc_idx ix ++ r) = (ix, r).
Proof.
  unfold dec_idx, enc_idx. cbn [app].
  apply (decode_seq_enc dec_entry (fun e : Z * list Z => fst e :: encode_list (snd e))
           (fun _ => True)).
  - intros e r' _. apply dec_entry_enc.
  - apply Forall_forall. auto.
Qed.

Lemma dec_cview_enc o r : wf_cview o -> dec_cview (enc_cview o ++ r) = (o, r).
Proof.
  intros [Hi Hv]. destruct o as [code vs a b c nm na vis].
  cbn [o_infos o_visit] in *. unfold enc_cview.
  cbn [o_code o_infos o_onnode o_matchable o_alloc o_nodes_m o_nodes_a o_visit app].
  unfold dec_cview. rewrite <- !app_assoc.
  rewrite (decode_seq_enc dec_iview enc_iview wf_iview dec_iview_enc vs _ Hi).
  rewrite !dec_idx_enc, !take_list_enc.
  rewrite <- Hv.
  rewrite (decode_many_enc take_list encode_list (fun _ => True)).
  - reflexivity.
  - intros l r' _. apply take_list_enc.
  - apply Forall_forall. auto.
Qed.

Lemma dec_views_enc vs :
  Forall wf_cview vs -> dec_views (length vs) (flat_map enc_cview vs) = vs.
Proof.
  intros H. unfold dec_views. rewrite <- (app_nil_r (flat_map enc_cview vs)).
  rewrite (decode_many_enc dec_cview enc_cview wf_cview dec_cview_enc vs [] H). reflexivity.
Qed.

(* ---------- the model's views are well-formed ---------- *)
Lemma vals_length r : length (vals r) = D.
Proof. reflexivity. Qed.
Lemma pvals_length r : length (pvals r) = D.
Proof. reflexivity. Qed.

Lemma wf_info_view i : wf_iview (info_view i).
Proof.
  unfold wf_iview. cbn [info_view v_assigned v_allocated v_reserved v_allocatable v_cap].
  repeat split; try reflexivity.
  apply Forall_forall. intros q Hq. apply (proj1 (In_sort_by _ _ _)) in Hq.
  apply in_map_iff in Hq. destruct Hq as [p [<- _]]. reflexivity.
Qed.

Lemma wf_view code c : wf_cview (view code c).
Proof.
  split.
  - cbn [view o_infos]. apply Forall_forall. intros v Hv.
    apply (proj1 (In_sort_by _ _ _)) in Hv. apply in_map_iff in Hv.
    destruct Hv as [i [<- _]]. apply wf_info_view.
  - cbn [view o_visit]. apply map_length.
Qed.

Lemma wf_views_of hs : Forall wf_cview (views_of hs).
Proof.
  unfold views_of. apply Forall_forall. intros v Hv. apply in_map_iff in Hv.
  destruct Hv as [p [<- _]]. apply wf_view.
Qed.

Lemma views_of_length hs : length (views_of hs) = length hs.
Proof.
  unfold views_of. rewrite map_length. generalize init_cache.
  induction hs as [|h t IH]; intros c; cbn; [reflexivity|]. rewrite IH. reflexivity.
Qed.

Lemma enc_cview_long o : exists x y t, enc_cview o = x :: y :: t.
Proof. unfold enc_cview. eexists _, _, _. reflexivity. Qed.

Lemma not_crashed vs : crashed (flat_map enc_cview vs) = false.
Proof.
  destruct vs as [|o t]; [reflexivity|]. cbn [flat_map].
  destruct (enc_cview_long o) as [x [y [t' ->]]]. reflexivity.
Qed.

(* ---------- the model passes its own check ---------- *)
Lemma prop_history_on_model inp :
  prop_history inp (run_history inp)
  = first_nonzero (codes (claims init_cache (dec_history inp)) (dec_history inp)
                         (flags_of (dec_history inp)) [] (views_of (dec_history inp))).
Proof.
  unfold prop_history, run_history. rewrite not_crashed. cbv zeta.
  rewrite <- (views_of_length (dec_history inp)).
  rewrite dec_views_enc by apply wf_views_of. reflexivity.
Qed.

Lemma model_passes_own_check inp :
  hist_nonneg (dec_history inp) = true ->
  prop_history inp (run_history inp) = 0.
Proof.
  intros Hnn. rewrite prop_history_on_model.
  apply first_nonzero_all_zero. apply trace_full; assumption.
Qed.

(* ---------- pure streams: the model passes its own check on every input ---------- *)
From Verif Require Import C05.Proofs_pure.

Lemma pre_zero_getv pre : pre_zero pre = true -> forall k, getv k pre = 0.
Proof.
  unfold pre_zero. induction pre as [|e t IH]; cbn; intros H k; [reflexivity|].
  apply andb_true_iff in H. destruct H as [H1 H2]. apply Z.eqb_eq in H1.
  destruct (fst e =? k); [exact H1|apply IH, H2].
Qed.

Lemma getv_res_of_vals r k : In k dims -> getv k (res_of_vals (vals r)) = getv k r.
Proof.
  unfold dims. cbn. intros H.
  repeat (destruct H as [<-|H]; [reflexivity|]). destruct H.
Qed.

Lemma keys_res_of_vals r : keys (res_of_vals (vals r)) = dims.
Proof. reflexivity. Qed.

Lemma getv_res_of_vals_out r k : ~ In k dims -> getv k (res_of_vals (vals r)) = 0.
Proof.
  intros H. apply getv_nohask. rewrite hask_keys, keys_res_of_vals. apply memZ_false_In, H.
Qed.

Lemma dec_fits_fresh inp :
  let '(i, _, _) := dec_fits inp in has_assigned FRESH i = false.
Proof.
  unfold dec_fits. destruct inp as [|pol [|n t]]; try reflexivity.
  destruct (take_list t) as [names t1]. destruct (dec_res t1) as [alloc t2].
  destruct (dec_res t2) as [used t3]. destruct (dec_res t3) as [rsvd t4].
  destruct (dec_res t4) as [req t5]. destruct (dec_res t5) as [pre t6].
  unfold has_assigned. cbn [r_assigned]. generalize (Z.to_nat n). intros m.
  assert (H : forall start, existsb (fun q : preq => fst q =? FRESH)
                (map (fun j => (1000 + Z.of_nat j, @nil (Z * Z))) (seq start m)) = false).
  { induction m as [|m IH]; intros start; [reflexivity|].
    cbn [seq map existsb fst]. rewrite IH, orb_false_r. apply Z.eqb_neq. unfold FRESH. lia. }
  apply H.
Qed.

Lemma add_assigned_fresh_alloc i u req k :
  has_assigned u i = false ->
  getv k (r_allocated (add_assigned i u req))
  = getv k (r_allocated i) + (if memZ k (r_names i) then getv k req else 0).
Proof.
  intros H. unfold add_assigned. rewrite H. cbn [r_allocated]. rewrite getv_radd, getv_rmask.
  reflexivity.
Qed.

Lemma fits_model_passes inp : prop_fits inp (run_fits inp) = 0.
Proof.
  unfold prop_fits, run_fits. pose proof (dec_fits_fresh inp) as Hfresh.
  destruct (dec_fits inp) as [[i req] pre].
  set (r1 := fits_reservation i req pre).
  set (tail := if is_nil r1
               then vals (r_allocated (add_assigned i FRESH req)) ++ [n_assigned (add_assigned i FRESH req)]
               else []).
  assert (Hnc : crashed (encode_list r1 ++ encode_list (fits_node_and_reservation i req pre) ++ tail)
                = false).
  { unfold encode_list. cbn [app]. destruct r1; reflexivity. }
  rewrite Hnc, take_list_enc, take_list_enc.
  (* clause 1 *)
  assert (H1 : Bool.eqb (is_nil r1) (fits_specb i req pre) = true).
  { destruct (fits_specb i req pre) eqn:E.
    - apply fits_specb_spec, restricted_fit in E. fold r1 in E. rewrite E. reflexivity.
    - destruct (is_nil r1) eqn:En; [|reflexivity]. apply is_nil_true in En.
      apply restricted_fit, fits_specb_spec in En. congruence. }
  rewrite H1. cbn [negb].
  (* clause 2 *)
  rewrite dispatch_policy. fold r1. rewrite eq_listZ_refl. cbn [negb].
  destruct (is_nil r1) eqn:En; [|reflexivity]. cbn [andb].
  assert (Hfit : fits_reservation i req pre = []) by (apply is_nil_true; exact En).
  unfold tail.
  assert (Hf : firstn D (vals (r_allocated (add_assigned i FRESH req))
                         ++ [n_assigned (add_assigned i FRESH req)])
               = vals (r_allocated (add_assigned i FRESH req))) by reflexivity.
  assert (Hs : hdZ (skipn D (vals (r_allocated (add_assigned i FRESH req))
                             ++ [n_assigned (add_assigned i FRESH req)]))
               = n_assigned (add_assigned i FRESH req)) by reflexivity.
  rewrite Hf, Hs.
  (* clause 4 *)
  assert (H4 : step_exactb i req (vals (r_allocated (add_assigned i FRESH req)))
                           (n_assigned (add_assigned i FRESH req)) = true).
  { unfold step_exactb. apply andb_true_iff. split.
    - unfold vals. assert (Hm : forall l, eq_listZ (map (fun k => getv k (r_allocated (add_assigned i FRESH req))) l)
                (map (fun k => getv k (r_allocated i) + (if memZ k (r_names i) then getv k req else 0)) l) = true).
      { induction l as [|k t IH]; [reflexivity|]. cbn [map eq_listZ].
        rewrite add_assigned_fresh_alloc by exact Hfresh. rewrite Z.eqb_refl. exact IH. }
      apply Hm.
    - unfold add_assigned. rewrite Hfresh. unfold n_assigned. cbn [r_assigned].
      rewrite app_length. cbn [length]. apply Z.eqb_eq. lia. }
  rewrite H4. cbn [negb].
  (* clause 3 *)
  destruct (pre_zero pre) eqn:Ep; [|reflexivity]. cbn [andb].
  pose proof (no_overalloc i FRESH req pre Hfit (pre_zero_getv pre Ep) Hfresh) as [Hw1 Hw2].
  assert (H3 : within_afterb i req (res_of_vals (vals (r_allocated (add_assigned i FRESH req))))
                             (n_assigned (add_assigned i FRESH req)) = true).
  { apply within_afterb_spec. split; [|exact Hw2].
    intros k Hk Hh Hpos. destruct (in_dec Z.eq_dec k dims) as [Hin|Hout].
    - rewrite getv_res_of_vals by exact Hin. apply Hw1; assumption.
    - rewrite getv_res_of_vals_out by exact Hout.
      (* the pod was admitted in dimension k, so the capacity left there is positive *)
      apply restricted_fit in Hfit. destruct Hfit as [_ Hd].
      specialize (Hd k Hk Hh). assert (Hne : getv k req <> 0) by lia. specialize (Hd Hne).
      destruct (hask k (r_allocated i)); lia. }
  rewrite H3. reflexivity.
Qed.

Lemma owners_model_passes inp : prop_owners inp (run_owners inp) = 0.
Proof.
  unfold prop_owners, run_owners. destruct (dec_owners inp) as [p ws].
  cbn [crashed]. rewrite zb_bz.
  assert (H : Bool.eqb (match_owners ws p) (owners_specb ws p) = true).
  { destruct (owners_specb ws p) eqn:E.
    - apply owners_specb_spec, owner_match in E. rewrite E. reflexivity.
    - destruct (match_owners ws p) eqn:Em; [|reflexivity].
      apply owner_match, owners_specb_spec in Em. congruence. }
  rewrite H, Z.eqb_refl. reflexivity.
Qed.

(* ---------- the admission sentence of the property, on reachable states ---------- *)
From Verif Require Import C05.Proofs_ledger.

(* for every history (non-negative requests) and every cached reservation: if the restricted
   check lets a pod in (nothing preemptible), then in every restricted dimension the pod asks
   for, what the assigned pods hold plus the pod's request is within allocatable - reserved *)
Lemma restricted_admission l :
  all_along (fun _ o => op_nonneg o) init_cache l = true ->
  forall i, In i (infos (crun init_cache l)) ->
  forall req, fits_reservation i req [] = [] ->
  forall k, In k (r_names i) -> hask k req = true -> 0 < getv k req ->
  held i k + getv k req <= getv k (r_allocatable i) - getv k (r_reserved i).
Proof.
  intros Hnn i Hi req Hfit k Hk Hh Hpos.
  pose proof (ledger_exact_all_histories l Hnn i Hi k) as He.
  apply restricted_fit in Hfit. destruct Hfit as [_ Hd].
  specialize (Hd k Hk Hh). assert (Hne : getv k req <> 0) by lia. specialize (Hd Hne).
  cbn [getv] in Hd. destruct (hask k (r_allocated i)) eqn:Ea.
  - lia.
  - rewrite (getv_nohask _ _ Ea) in He. lia.
Qed.
