(* C05 — from the invariants on cache states to the decision procedure [prop_view] on their
   dumped views, and from there to the whole trace of a history of entry points. *)
From Coq Require Import List ZArith Bool Lia Permutation.
From Verif Require Import Lib.Wire C05.Model C05.Spec C05.Codec C05.Trace
     C05.Proofs_base C05.Proofs_ledger C05.Proofs_index C05.Proofs_ghost C05.Proofs_sched
     C05.Proofs_follow C05.Proofs_dead.
Import ListNotations.
Open Scope Z_scope.

(* ---------- positions / dumped dimensions ---------- *)
Lemma positions_nth pk r : In pk positions -> nthZ (fst pk) (vals r) = getv (snd pk) r.
Proof.
  unfold positions, dims. cbn. intros H.
  repeat (destruct H as [<-|H]; [reflexivity|]). destruct H.
Qed.

Lemma held_view_ok i pk :
  In pk positions -> held_view (info_view i) (fst pk) (snd pk) = held i (snd pk).
Proof.
  intros Hp. unfold held_view. cbn [info_view v_names v_assigned].
  rewrite held_unfold, held_of_alt. destruct (memZ (snd pk) (r_names i)); [|reflexivity].
  rewrite sumZ_map_sort_by, map_map. apply sumZ_ext. intros q _. cbn [snd].
  apply positions_nth, Hp.
Qed.

Lemma v_bounds_ok_view i : ledger_bounds i -> v_bounds_ok (info_view i) = true.
Proof.
  intros H. unfold v_bounds_ok. apply forallb_forall. intros pk Hp.
  rewrite held_view_ok by exact Hp. cbn [info_view v_allocated].
  rewrite positions_nth by exact Hp. specialize (H (snd pk)).
  apply andb_true_iff. split; apply Z.leb_le; lia.
Qed.

Lemma v_exact_ok_view i : ledger_exact i -> v_exact_ok (info_view i) = true.
Proof.
  intros H. unfold v_exact_ok. apply forallb_forall. intros pk Hp.
  rewrite held_view_ok by exact Hp. cbn [info_view v_allocated].
  rewrite positions_nth by exact Hp. apply Z.eqb_eq. apply H.
Qed.

Lemma v_assigned_nil i : is_nil (v_assigned (info_view i)) = is_nil (r_assigned i).
Proof. cbn [info_view v_assigned]. rewrite is_nil_sort_by, is_nil_map. reflexivity. Qed.

Lemma v_once_ok_view i : v_once_ok (info_view i) = true.
Proof.
  unfold v_once_ok. rewrite v_assigned_nil. cbn [info_view v_once v_matchable v_gate].
  unfold is_matchable, nominate_gate, once_used.
  destruct (s_once (r_spec i)), (is_nil (r_assigned i)), (is_available (r_spec i)), (r_perr i);
    reflexivity.
Qed.

Lemma v_matchable_def_view i : v_matchable_def (info_view i) = true.
Proof.
  unfold v_matchable_def. rewrite v_assigned_nil.
  cbn [info_view v_once v_matchable v_avail v_perr].
  unfold is_matchable, once_used.
  destruct (s_once (r_spec i)), (is_nil (r_assigned i)), (is_available (r_spec i)), (r_perr i);
    reflexivity.
Qed.

Lemma forallb_views (f : iview -> bool) code c :
  (forall i, In i (infos c) -> f (info_view i) = true) ->
  forallb f (o_infos (view code c)) = true.
Proof.
  intros H. cbn [view o_infos]. rewrite forallb_sort_by. apply forallb_forall.
  intros v Hv. apply in_map_iff in Hv. destruct Hv as [i [<- Hi]]. apply H, Hi.
Qed.

(* ---------- indexes ---------- *)
Lemma In_idx_view e ix : In e (idx_view ix) -> exists s, In (fst e, s) ix /\ snd e = sortZ s.
Proof.
  unfold idx_view. intros H. apply (proj1 (In_sort_by _ _ _)) in H. apply in_map_iff in H.
  destruct H as [[n s] [<- Hin]]. exists s. auto.
Qed.

Lemma idx_mem_view n u ix : idx_mem n u ix = true -> idx_mem n u (idx_view ix) = true.
Proof.
  intros H. apply idx_mem_elim in H. destruct H as [s [Hin Hu]].
  apply (idx_mem_intro n (sortZ s)).
  - unfold idx_view. apply In_sort_by. apply in_map_iff. exists (n, s). auto.
  - apply In_sortZ, Hu.
Qed.

Lemma has_view_intro code c i (extra : iview -> bool) :
  In i (infos c) -> extra (info_view i) = true ->
  has_view (o_infos (view code c)) (r_uid i) (r_node i) extra = true.
Proof.
  intros Hi He. unfold has_view. apply existsb_exists. exists (info_view i). split.
  - cbn [view o_infos]. apply In_sort_by. apply in_map. exact Hi.
  - cbn [info_view v_uid v_node]. rewrite !Z.eqb_refl. cbn. exact He.
Qed.

Lemma entry_sound_view code c ix :
  (forall n u, idx_mem n u ix = true ->
               exists i, find_info u (infos c) = Some i /\ r_node i = n /\ n <> 0) ->
  forallb (entry_sound (o_infos (view code c))) (idx_view ix) = true.
Proof.
  intros H. apply forallb_forall. intros e He. apply In_idx_view in He.
  destruct He as [s [Hin Hs]]. unfold entry_sound. rewrite Hs. apply forallb_forall.
  intros u Hu. apply (proj1 (In_sortZ _ _)) in Hu.
  destruct (H (fst e) u (idx_mem_intro _ _ _ _ Hin Hu)) as [i [Hf [Hn Hnz]]].
  destruct (find_info_some _ _ _ Hf) as [Hi Hu'].
  apply andb_true_iff. split.
  - apply negb_true_iff, Z.eqb_neq. exact Hnz.
  - rewrite <- Hn, <- Hu'. apply has_view_intro; [exact Hi|reflexivity].
Qed.

Lemma o_sound_view code c : index_sound c -> o_sound (view code c) = true.
Proof.
  intros Hs. unfold o_sound. cbn [view o_onnode o_matchable o_alloc].
  rewrite !andb_true_iff. repeat split; apply entry_sound_view; intros n u H; apply Hs; auto.
Qed.

Lemma o_complete_view code c : index_complete c -> o_complete (view code c) = true.
Proof.
  intros Hc. unfold o_complete. apply forallb_views. intros i Hi.
  cbn [info_view v_node v_uid view o_onnode].
  destruct (r_node i =? 0) eqn:E; [reflexivity|]. cbn [orb].
  apply idx_mem_view. apply Hc; [exact Hi|]. apply Z.eqb_neq. exact E.
Qed.

Lemma visited_ok_view i :
  is_available (r_spec i) = true -> r_perr i = false ->
  (nominate_gate i = true -> is_matchable i = true) ->
  visited_ok (info_view i) = true.
Proof.
  intros Ha Hp Hg. unfold visited_ok. cbn [info_view v_avail v_perr v_gate v_matchable].
  rewrite Ha, Hp. cbn. destruct (nominate_gate i); [|reflexivity]. cbn. apply Hg. reflexivity.
Qed.

Lemma visit_ok_mem code c n us :
  nomination_ok c ->
  (forall u, In u us -> idx_mem n u (matchable c) = true) ->
  visit_ok (view code c) n us = true.
Proof.
  intros Hn H. unfold visit_ok. apply forallb_forall. intros u Hu.
  destruct (Hn n u (H u Hu)) as [i [Hf [Hnode [Ha [Hp Hg]]]]].
  destruct (find_info_some _ _ _ Hf) as [Hi Hu'].
  rewrite <- Hnode, <- Hu'. apply has_view_intro; [exact Hi|]. apply visited_ok_view; assumption.
Qed.

Lemma In_combine_map {A B} (f : A -> B) l p : In p (combine l (map f l)) -> snd p = f (fst p).
Proof.
  induction l as [|a t IH]; cbn; [intros []|]. intros [<-|H]; [reflexivity|apply IH, H].
Qed.

Lemma o_visit_ok_view code c : nomination_ok c -> o_visit_ok (view code c) = true.
Proof.
  intros Hn. unfold o_visit_ok. apply andb_true_iff. split.
  - apply forallb_forall. intros p Hp. cbn [view o_visit] in Hp.
    apply In_combine_map in Hp. rewrite Hp. apply visit_ok_mem; [exact Hn|].
    intros u Hu. unfold visit in Hu. apply (proj1 (In_sortZ _ _)) in Hu. apply in_map_iff in Hu.
    destruct Hu as [u0 [Hu0 Hin]].
    assert (Hm : idx_mem (fst p) u0 (matchable c) = true) by (apply memZ_In; exact Hin).
    destruct (Hn _ _ Hm) as [i [Hf _]]. rewrite Hf in Hu0. subst u0. exact Hm.
  - apply forallb_forall. intros e He. cbn [view o_matchable] in He.
    apply In_idx_view in He. destruct He as [s [Hin Hs]]. rewrite Hs.
    apply visit_ok_mem; [exact Hn|]. intros u Hu. apply (proj1 (In_sortZ _ _)) in Hu.
    apply (idx_mem_intro _ _ _ _ Hin Hu).
Qed.

(* ---------- one state ---------- *)
Lemma eq_listZ_refl l : eq_listZ l l = true.
Proof. induction l as [|x t IH]; cbn; [reflexivity|]. rewrite Z.eqb_refl. exact IH. Qed.

Lemma v_ghost_ok_view L c i : ghost L c -> In i (infos c) -> v_ghost_ok L (info_view i) = true.
Proof.
  intros Hg Hi. unfold v_ghost_ok. cbn [info_view v_assigned]. rewrite forallb_sort_by.
  apply forallb_forall. intros q' Hq'. apply in_map_iff in Hq'. destruct Hq' as [q [<- Hq]].
  cbn [fst snd]. destruct (Hg i q Hi Hq) as [r [Hr He]]. rewrite Hr.
  assert (E : vals (snd q) = vals r) by (unfold vals; apply map_ext; intros k; apply He).
  rewrite E. apply eq_listZ_refl.
Qed.

Lemma o_dead_ok_view D code c : uniq c -> dead_gone D c -> o_dead_ok D (view code c) = true.
Proof.
  intros Hu Hd.
  assert (Hidx : forall ix, (forall u hard n, In (u, hard) D -> idx_mem n u ix = false) ->
                            forallb (dead_entry_ok D) (idx_view ix) = true).
  { intros ix Hix. apply forallb_forall. intros e He. apply In_idx_view in He.
    destruct He as [s [Hin Hs]]. unfold dead_entry_ok. rewrite Hs. apply forallb_forall.
    intros u Hus. apply (proj1 (In_sortZ _ _)) in Hus. apply negb_true_iff.
    destruct (is_dead D u) eqn:E; [|reflexivity]. unfold is_dead in E.
    apply existsb_exists in E. destruct E as [[u' hard] [Hd' Hu']]. cbn [fst] in Hu'.
    apply Z.eqb_eq in Hu'. subst u'.
    pose proof (Hix u hard (fst e) Hd') as Hf. rewrite (idx_mem_intro _ _ _ _ Hin Hus) in Hf.
    discriminate Hf. }
  unfold o_dead_ok. cbn [view o_onnode o_matchable o_alloc]. rewrite !andb_true_iff. repeat split.
  - apply Hidx. intros u hard n Hin. apply (proj1 (Hd u hard Hin)).
  - apply Hidx. intros u hard n Hin. apply (proj1 (Hd u hard Hin)).
  - apply Hidx. intros u hard n Hin. apply (proj1 (Hd u hard Hin)).
  - apply forallb_views. intros i Hi. apply negb_true_iff.
    destruct (existsb (fun d : Z * bool => (fst d =? v_uid (info_view i)) && (snd d || negb (v_node (info_view i) =? 0))) D) eqn:E;
      [|reflexivity].
    apply existsb_exists in E. destruct E as [[u hard] [Hin Hx]]. cbn [fst snd info_view v_uid v_node] in Hx.
    apply andb_true_iff in Hx. destruct Hx as [Hx1 Hx2]. apply Z.eqb_eq in Hx1. subst u.
    destruct (proj2 (Hd _ _ Hin) i (uniq_find c i Hu Hi)) as [Hh Hn]. subst hard. rewrite Hn in Hx2.
    discriminate Hx2.
Qed.

Lemma prop_view_ok stable last S D code c :
  all_infos exact_inv c -> all_infos bounds_inv c -> (stable = true -> jinv c) ->
  (forall L, last = Some L -> ghost L c) ->
  follows S c -> uniq c -> (stable = true -> dead_gone D c) ->
  prop_view stable last S D (view code c) = 0.
Proof.
  intros He Hb Hj Hgh Hfo Hu Hd. unfold prop_view.
  rewrite (forallb_views v_bounds_ok) by (intros i Hi; apply v_bounds_ok_view, (Hb i Hi)).
  rewrite (forallb_views v_exact_ok) by (intros i Hi; apply v_exact_ok_view, (He i Hi)).
  assert (Hl : match last with
               | Some L => negb (forallb (v_ghost_ok L) (o_infos (view code c)))
               | None => false
               end = false).
  { destruct last as [L|]; [|reflexivity].
    rewrite (forallb_views (v_ghost_ok L)); [reflexivity|].
    intros i Hi. apply (v_ghost_ok_view L c); [apply Hgh; reflexivity|exact Hi]. }
  rewrite Hl.
  rewrite (forallb_views (v_names_ok S)) by (intros i Hi; apply (v_names_ok_view S c); assumption).
  rewrite (forallb_views (v_amounts_ok S)) by (intros i Hi; apply (v_amounts_ok_view S c); assumption).
  rewrite (forallb_views v_once_ok) by (intros i _; apply v_once_ok_view).
  rewrite (forallb_views v_matchable_def) by (intros i _; apply v_matchable_def_view).
  cbn [negb]. destruct stable; [|reflexivity].
  destruct (Hj eq_refl) as [Hs [Hc Hn]].
  rewrite o_sound_view, o_complete_view, o_visit_ok_view by assumption.
  rewrite o_dead_ok_view; [reflexivity|exact Hu|apply Hd; reflexivity].
Qed.

(* ---------- whole traces of entry points ---------- *)
Definition hist_nonneg (hs : list hop) : bool := forallb hop_nonneg hs.

Lemma pod_delete_nonneg p : forallb op_nonneg (lower_pod_delete p) = true.
Proof. unfold lower_pod_delete. destruct (e_rsv p =? 0), (e_op p); reflexivity. Qed.

Lemma pod_update_nonneg o p : pev_nonneg p = true -> forallb op_nonneg (lower_pod_update o p) = true.
Proof.
  intros H. unfold lower_pod_update. destruct (e_done p); [apply pod_delete_nonneg|].
  destruct (e_node p =? 0).
  - destruct o as [q|]; [|reflexivity]. destruct (e_node q =? 0); [reflexivity|apply pod_delete_nonneg].
  - rewrite forallb_app. apply andb_true_iff. split.
    + destruct ((match o with Some q => e_rsv q | None => 0 end =? 0) && (e_rsv p =? 0)); [reflexivity|].
      cbn [forallb op_nonneg]. unfold as_preq. cbn [snd]. unfold pev_nonneg in H. rewrite H. reflexivity.
    + destruct (e_op p); reflexivity.
Qed.

Lemma rsv_add_nonneg s : forallb op_nonneg (lower_rsv_add s) = true.
Proof. unfold lower_rsv_add. destruct (is_active s); reflexivity. Qed.
Lemma rsv_update_nonneg s : forallb op_nonneg (lower_rsv_update s) = true.
Proof.
  unfold lower_rsv_update. destruct (is_active s); [reflexivity|]. destruct (is_finished s); reflexivity.
Qed.
Lemma g_delete_nonneg s : forallb op_nonneg (g_delete s) = true.
Proof. unfold g_delete. destruct (s_node s =? 0); reflexivity. Qed.
Lemma g_update_nonneg o s : forallb op_nonneg (g_update o s) = true.
Proof.
  unfold g_update.
  repeat match goal with
         | |- context [if ?b then _ else _] => destruct b
         end; try reflexivity; apply g_delete_nonneg.
Qed.
Lemma compose_nonneg who p g :
  forallb op_nonneg p = true -> forallb op_nonneg g = true -> forallb op_nonneg (compose who p g) = true.
Proof.
  intros Hp Hg. unfold compose. destruct (who =? 1); [|destruct (who =? 2)];
    try rewrite forallb_app; try rewrite Hp; try rewrite Hg; reflexivity.
Qed.

Lemma lower_nonneg c h : hop_nonneg h = true -> forallb op_nonneg (lower c h) = true.
Proof.
  destruct h; cbn [hop_nonneg lower]; intros H; try reflexivity.
  - apply rsv_add_nonneg.
  - apply rsv_update_nonneg.
  - cbn. rewrite H. reflexivity.
  - apply pod_update_nonneg, H.
  - apply andb_true_iff in H. apply pod_update_nonneg, H.
  - apply pod_delete_nonneg.
  - destruct (sched_target c req n t); [|reflexivity]. cbn. rewrite H. reflexivity.
  - apply compose_nonneg; [apply rsv_add_nonneg|reflexivity].
  - apply compose_nonneg; [apply rsv_update_nonneg|apply g_update_nonneg].
  - apply compose_nonneg; [reflexivity|apply g_delete_nonneg].
Qed.

Lemma all_along_nonneg c l :
  forallb op_nonneg l = true -> all_along (fun _ o => op_nonneg o) c l = true.
Proof.
  revert c. induction l as [|o t IH]; intros c H; [reflexivity|].
  cbn in H. apply andb_true_iff in H. destruct H as [H1 H2].
  cbn [all_along]. rewrite H1. cbn. apply IH, H2.
Qed.

Lemma has_assigned_add i u req : has_assigned u (add_assigned i u req) = true.
Proof.
  unfold add_assigned. destruct (has_assigned u i) eqn:E; [exact E|].
  unfold has_assigned. cbn [r_assigned]. rewrite existsb_app. cbn. rewrite Z.eqb_refl.
  apply orb_true_r.
Qed.

Lemma crun_app c a b : crun (crun c a) b = crun c (a ++ b).
Proof. unfold crun. rewrite fold_left_app. reflexivity. Qed.

Lemma claim_after c h :
  match owner_claim c h with
  | Some (u, own) => exists i, find_info u (infos (hstep c h)) = Some i /\ has_assigned own i = true
  | None => True
  end.
Proof.
  unfold owner_claim, hstep. destruct (rev (lower c h)) as [|o l] eqn:E; [exact I|].
  destruct o as [b own s| | | |]; try exact I. destruct b; [exact I|].
  destruct (own =? 0) eqn:Eo; [exact I|].
  assert (El : lower c h = rev l ++ [CUpdate false own s]).
  { rewrite <- (rev_involutive (lower c h)), E. reflexivity. }
  rewrite El, <- crun_app. cbn [crun fold_left cstep]. set (c1 := crun c (rev l)).
  unfold c_update. destruct (find_info (s_uid s) (infos c1)) as [i0|].
  - exists (add_owner own (update_info i0 s)). split.
    + assert (Hi : find_info (s_uid s) (set_info (add_owner own (update_info i0 s)) (infos c1))
                   = Some (add_owner own (update_info i0 s))).
      { rewrite find_info_set. unfold r_uid. rewrite add_owner_spec. cbn [update_info r_spec].
        rewrite Z.eqb_refl. reflexivity. }
      destruct (s_node s =? 0); [exact Hi|].
      destruct (refresh (s_node s) (s_uid s) (add_owner own (update_info i0 s)) (matchable c1) (alloc_idx c1)).
      exact Hi.
    + unfold add_owner. rewrite Eo. apply has_assigned_add.
  - exists (add_owner own (new_info s)). split.
    + assert (Hi : find_info (s_uid s) (set_info (add_owner own (new_info s)) (infos c1))
                   = Some (add_owner own (new_info s))).
      { rewrite find_info_set. unfold r_uid. rewrite add_owner_spec. cbn [new_info r_spec].
        rewrite Z.eqb_refl. reflexivity. }
      destruct (s_node s =? 0); [exact Hi|].
      destruct (refresh (s_node s) (s_uid s) (add_owner own (new_info s)) (matchable c1) (alloc_idx c1)).
      exact Hi.
    + unfold add_owner. rewrite Eo. apply has_assigned_add.
Qed.

Lemma claim_ok_view code c h : claim_ok (owner_claim c h) (view code (hstep c h)) = true.
Proof.
  pose proof (claim_after c h) as H. destruct (owner_claim c h) as [[u own]|]; [|reflexivity].
  destruct H as [i [Hf Ha]]. destruct (find_info_some _ _ _ Hf) as [Hi Hu].
  unfold claim_ok. apply existsb_exists. exists (info_view i). split.
  - cbn [view o_infos]. apply In_sort_by. apply in_map. exact Hi.
  - cbn [info_view v_uid v_assigned]. rewrite Hu, Z.eqb_refl. cbn [andb].
    unfold has_assigned in Ha. apply existsb_exists in Ha. destruct Ha as [q [Hq Hqu]].
    apply existsb_exists. exists (fst q, vals (snd q)). split; [|exact Hqu].
    apply In_sort_by. apply in_map_iff. exists q. auto.
Qed.

(* histories of entry points (event handlers, assume/forget, Plugin.Reserve / Unreserve of reserve
   pods) are histories of cache operations *)
Lemma hrun_cops : forall hs c, hrun c hs = crun c (hops_cops c hs).
Proof.
  induction hs as [|h t IH]; intros c; [reflexivity|].
  cbn [hrun fold_left hops_cops]. rewrite <- crun_app. apply IH.
Qed.

Lemma index_invariants_entry_points hs :
  all_along node_stable_op init_cache (hops_cops init_cache hs) = true ->
  index_sound (hrun init_cache hs) /\ index_complete (hrun init_cache hs)
  /\ nomination_ok (hrun init_cache hs).
Proof. intros H. rewrite hrun_cops. apply index_invariants_stable_histories, H. Qed.

(* every step code of the model's own trace is 0 *)
Definition all_zero (l : list Z) : bool := forallb (fun z => z =? 0) l.

Lemma bounds_of_exact c : all_infos exact_inv c -> all_infos bounds_inv c.
Proof.
  intros H i Hi. destruct (H i Hi) as [Hw He]. split; [exact Hw|].
  intros k. rewrite (He k). split; [|lia]. rewrite held_unfold. apply held_of_nonneg, Hw.
Qed.

Lemma trace_full_gen : forall hs c f code0,
  hist_nonneg hs = true ->
  all_infos exact_inv c -> (f_stable f = true -> jinv c) ->
  (forall L, f_last f = Some L -> ghost L c) ->
  uniq c -> follows (f_specs f) c -> (f_stable f = true -> dead_gone (f_dead f) c) ->
  all_zero (codes (claims c hs) hs (flags c f hs) (o_infos (view code0 c))
                  (map (fun p : Z * cache => view (fst p) (snd p)) (htrace c hs))) = true.
Proof.
  induction hs as [|h t IH]; intros c f code0 Hnn He Hj Hgh Hu Hfo Hd; [reflexivity|].
  cbn [hist_nonneg forallb] in Hnn. apply andb_true_iff in Hnn. destruct Hnn as [Hh Ht].
  cbn [claims flags htrace map codes all_zero forallb fst snd].
  set (f' := next_flag c h f).
  assert (He' : all_infos exact_inv (hstep c h)).
  { apply exact_run; [apply all_along_nonneg, lower_nonneg, Hh|exact He]. }
  assert (Hst' : f_stable f' = true ->
                 f_stable f = true /\ all_along node_stable_op c (lower c h) = true
                 /\ hop_stable c h = true).
  { unfold f', next_flag. cbn [f_stable]. intros E. apply andb_true_iff in E. destruct E as [E E3].
    apply andb_true_iff in E. destruct E as [E1 E2]. auto. }
  assert (Hj' : f_stable f' = true -> jinv (hstep c h)).
  { intros E. destruct (Hst' E) as [E1 [E2 _]]. apply jinv_run; [exact E2|apply Hj, E1]. }
  assert (Hgh' : forall L, f_last f' = Some L -> ghost L (hstep c h)).
  { unfold f', next_flag, next_last. cbn [f_last]. intros L HL. destruct (f_last f) as [L0|]; [|discriminate].
    destruct (all_along sync_op c (lower c h)) eqn:Es; [|discriminate].
    inversion HL; subst L. apply ghost_run; [exact Es|apply Hgh; reflexivity]. }
  assert (Hu' : uniq (hstep c h)) by (apply uniq_run, Hu).
  assert (Hfo' : follows (f_specs f') (hstep c h)).
  { unfold f', next_flag. cbn [f_specs]. apply follows_run, Hfo. }
  assert (Hd' : f_stable f' = true -> dead_gone (f_dead f') (hstep c h)).
  { intros E. destruct (Hst' E) as [E1 [E2 E3]]. unfold f', next_flag. cbn [f_dead].
    apply dead_gone_hstep; [apply Hj, E1|exact E3|exact E2|apply Hd, E1]. }
  apply andb_true_iff. split.
  - unfold step_code. cbn [fst snd].
    rewrite (sched_code_ok c h code0 (hcode c h) Hu). cbn [Z.eqb negb].
    rewrite prop_view_ok; [|exact He'|apply bounds_of_exact, He'|exact Hj'|exact Hgh'|exact Hfo'|exact Hu'|exact Hd'].
    cbn. rewrite claim_ok_view. reflexivity.
  - apply IH; assumption.
Qed.

Lemma trace_full hs :
  hist_nonneg hs = true ->
  all_zero (codes (claims init_cache hs) hs (flags_of hs) [] (views_of hs)) = true.
Proof.
  intros H. apply (trace_full_gen hs init_cache flag0 0); try exact H.
  - apply all_infos_init.
  - intros _. apply jinv_init.
  - intros L _. apply ghost_init.
  - apply uniq_init.
  - apply follows_init.
  - intros _. apply dead_gone_init.
Qed.

Lemma first_nonzero_all_zero l : all_zero l = true -> first_nonzero l = 0.
Proof.
  induction l as [|x t IH]; [reflexivity|]. cbn. intros H.
  apply andb_true_iff in H. destruct H as [H1 H2]. rewrite H1. apply IH, H2.
Qed.
