(* C09 — the property as Props over (input, observable) and its decision procedure.
   The specification side is declarative: what a scope (node or NUMA zone) may publish is
   bounded by sums over the pod set, written from scratch (no accumulators); the model's loop
   is proved equal to these sums in Proofs.v. *)
From Coq Require Import List ZArith Bool.
From Verif Require Import C09.Model.
Import ListNotations.
Open Scope Z_scope.

(* ---------- what one high-priority pod is charged, per policy ---------- *)
(* policy 1 usage: its usage; a pod that has not reported metrics yet: its request; an LSE pod's
   CPU is not reclaimed: its request.  policy 2 request: its request.  policy 3: the larger. *)
Definition charged (p : pv) : bool := v_active p && v_hp p.
Definition charge (policy : Z) (p : pv) : Z :=
  if negb (charged p) then 0
  else if policy =? 2 then v_req p
  else if negb (v_has p) then v_req p
  else if policy =? 3 then Z.max (v_req p) (v_used p)
  else if v_lse p then v_req p else v_used p.
(* metrics of high-priority pods that match no Running/Pending pod are usage that is there *)
Definition orphan (p : pv) : Z :=
  if negb (v_active p) && v_has p && v_mhp p then v_dang p else 0.
Definition unmatched (d : dim_in) : Z :=
  sumZ (map orphan (d_pods d)) + sumZ (map dang_amount (d_dang d)).
Definition hp_total (d : dim_in) : Z :=
  sumZ (map (charge (d_policy d)) (d_pods d)) + (if d_policy d =? 2 then 0 else unmatched d).

(* the system term as implemented: the request policy looks at the reservation only *)
Definition sys_term (d : dim_in) : Z :=
  if d_policy d =? 2 then d_reserved d else Z.max (d_sys d) (d_reserved d).
Definition upper (d : dim_in) : Z := d_cap d - d_margin d - sys_term d - hp_total d.
(* the bound of the property text: always the larger of system usage and reservation *)
Definition upper_text (d : dim_in) : Z :=
  d_cap d - d_margin d - Z.max (d_sys d) (d_reserved d) - hp_total d.

Definition dim_ok (d : dim_in) (x : Z) : Prop :=
  0 <= x /\ x <= Z.max 0 (upper d) /\ (forall c, d_thr d = Some c -> x <= c).
Definition dim_text_ok (d : dim_in) (x : Z) : Prop := x <= Z.max 0 (upper_text d).

(* 0 ok; 1 negative; 2 above capacity - margin - system - high-priority; 3 above the percentage
   cap; 4 (strict only) the bound of the property text fails: system usage above the reservation
   is not charged under the request policy *)
Definition dim_code (strict : bool) (d : dim_in) (x : Z) : Z :=
  if x <? 0 then 1
  else if Z.max 0 (upper d) <? x then 2
  else if match d_thr d with Some c => c <? x | None => false end then 3
  else if strict && (Z.max 0 (upper_text d) <? x) then 4
  else 0.
Definition dim_spec (strict : bool) (d : dim_in) (x : Z) : Prop :=
  dim_ok d x /\ (strict = true -> dim_text_ok d x).

(* ---------- the whole observable of the batch plugin ---------- *)
Fixpoint zones_code (strict : bool) (b : binput) (n i : nat) (zs : list (Z * Z)) (obs : list Z) : Z :=
  match zs, obs with
  | [], [] => 0
  | z :: t, c :: m :: obs' =>
      let cc := dim_code strict (zone_cpu b n i z) c in
      let cm := dim_code strict (zone_mem b n i z) m in
      if negb (cc =? 0) then 20 + cc else if negb (cm =? 0) then 20 + cm
      else zones_code strict b n (S i) t obs'
  | _, _ => 9
  end.

Definition stale (b : binput) : bool := is_degraded (s_degrade (b_s b)) (b_age b).

(* the published amount may be absent (-1): withdrawing is always safe *)
Definition pub_code (strict : bool) (d : dim_in) (x : Z) : Z :=
  if x =? -1 then 0 else let c := dim_code strict d x in if c =? 0 then 0 else 30 + c.

Fixpoint eq_listZ (a b : list Z) : bool :=
  match a, b with
  | [], [] => true
  | x :: a', y :: b' => (x =? y) && eq_listZ a' b'
  | _, _ => false
  end.
Definition withdrawn : list Z := [1; -1; -1].

Definition batch_code (strict : bool) (b : binput) (obs : list Z) : Z :=
  if eq_listZ obs withdrawn then 0                  (* withdrawn: always safe *)
  else match obs with
  | h :: pc :: pm :: c :: m :: nz :: zobs =>
      if negb (h =? 0) then 9
      else if stale b then 10                      (* stale metrics must withdraw the resource *)
      else if negb (dim_code strict (node_cpu b) c =? 0) then dim_code strict (node_cpu b) c
      else if negb (dim_code strict (node_mem b) m =? 0) then dim_code strict (node_mem b) m
      else if negb (pub_code strict (node_cpu b) pc =? 0) then pub_code strict (node_cpu b) pc
      else if negb (pub_code strict (node_mem b) pm =? 0) then pub_code strict (node_mem b) pm
      else if nz =? 0 then (match zobs with [] => 0 | _ => 9 end)   (* zones not published: safe *)
      else if negb (nz =? Z.of_nat (length (b_zones b))) then 9
      else zones_code strict b (length (b_zones b)) 0 (b_zones b) zobs
  | _ => 9
  end.

(* the hard clauses first; the property-text clause only when they all hold, so that the known
   deviation never hides another violation *)
Definition prop_code (b : binput) (obs : list Z) : Z :=
  let c := batch_code false b obs in if c =? 0 then batch_code true b obs else c.

(* the same as a Prop *)
Fixpoint zones_spec (strict : bool) (b : binput) (n i : nat) (zs : list (Z * Z)) (obs : list Z) : Prop :=
  match zs, obs with
  | [], [] => True
  | z :: t, c :: m :: obs' =>
      dim_spec strict (zone_cpu b n i z) c /\ dim_spec strict (zone_mem b n i z) m /\
      zones_spec strict b n (S i) t obs'
  | _, _ => False
  end.
Definition pub_spec (strict : bool) (d : dim_in) (x : Z) : Prop := x = -1 \/ dim_spec strict d x.

Definition batch_spec (strict : bool) (b : binput) (obs : list Z) : Prop :=
  obs = withdrawn \/
  exists pc pm c m nz zobs, obs = 0 :: pc :: pm :: c :: m :: nz :: zobs /\
    stale b = false /\
    dim_spec strict (node_cpu b) c /\ dim_spec strict (node_mem b) m /\
    pub_spec strict (node_cpu b) pc /\ pub_spec strict (node_mem b) pm /\
    ((nz = 0 /\ zobs = []) \/
     (nz = Z.of_nat (length (b_zones b)) /\
      zones_spec strict b (length (b_zones b)) 0 (b_zones b) zobs)).
(* C09 as implemented (request policy charges the reservation, not system usage) *)
Definition C09_holds (b : binput) (obs : list Z) : Prop := batch_spec false b obs.
(* C09 by the letter of the property text *)
Definition C09_text_holds (b : binput) (obs : list Z) : Prop := batch_spec true b obs.

(* ---------- "raising a consumption input" ---------- *)
Definition pod_leb (p q : pod) : bool :=
  (p_phase p =? p_phase q) && (p_plabel p =? p_plabel q) && (p_pval p =? p_pval q)
  && (p_qlabel p =? p_qlabel q) && (p_kube p =? p_kube q) && Bool.eqb (p_has p) (p_has q)
  && (p_mprio p =? p_mprio q) && (p_numa p =? p_numa q)
  && (p_req_cpu p <=? p_req_cpu q) && (p_req_mem p <=? p_req_mem q)
  && (p_use_cpu p <=? p_use_cpu q) && (p_use_mem p <=? p_use_mem q).
Definition amt_leb (a c : Z * (Z * Z)) : bool :=
  (fst a =? fst c) && (fst (snd a) <=? fst (snd c)) && (snd (snd a) <=? snd (snd c)).
Fixpoint all2 {A} (f : A -> A -> bool) (l1 l2 : list A) : bool :=
  match l1, l2 with
  | [], [] => true
  | x :: t1, y :: t2 => f x y && all2 f t1 t2
  | _, _ => false
  end.
Definition strategy_eqb (s t : strategy) : bool :=
  (s_cpu_policy s =? s_cpu_policy t) && (s_mem_policy s =? s_mem_policy t)
  && (s_cpu_reclaim s =? s_cpu_reclaim t) && (s_mem_reclaim s =? s_mem_reclaim t)
  && (s_cpu_thr s =? s_cpu_thr t) && (s_mem_thr s =? s_mem_thr t) && (s_degrade s =? s_degrade t).
Definition zone_eqb (a c : Z * Z) : bool := (fst a =? fst c) && (snd a =? snd c).

(* [input_leb a b]: b is a with consumption inputs raised: pod requests / usages, system and
   host-application usage, kubelet reservation (allocatable lowered), annotation reservation;
   everything else (strategy, capacity, metric age, zones, pod attributes) equal *)
Definition input_leb (a b : binput) : bool :=
  strategy_eqb (b_s a) (b_s b) && (b_age a =? b_age b)
  && (b_cap_cpu a =? b_cap_cpu b) && (b_cap_mem a =? b_cap_mem b)
  && (b_alloc_cpu b <=? b_alloc_cpu a) && (b_alloc_mem b <=? b_alloc_mem a)
  && Bool.eqb (b_anno a) (b_anno b) && (b_anno_rcpus a <=? b_anno_rcpus b)
  && Bool.eqb (b_anno_rcpus a =? 0) (b_anno_rcpus b =? 0)
  && (b_anno_cpu a <=? b_anno_cpu b) && (b_anno_mem a <=? b_anno_mem b)
  && (b_sys_cpu a <=? b_sys_cpu b) && (b_sys_mem a <=? b_sys_mem b)
  && all2 zone_eqb (b_zones a) (b_zones b)
  && all2 amt_leb (b_apps a) (b_apps b)
  && all2 pod_leb (b_pods a) (b_pods b)
  && all2 amt_leb (b_dang a) (b_dang b).

(* metamorphic clause on two observables: the second input is the first with consumption raised *)
Fixpoint all_leb (l1 l2 : list Z) : bool :=
  match l1, l2 with
  | [], [] => true
  | x :: t1, y :: t2 => (x <=? y) && all_leb t1 t2
  | _, _ => false
  end.
Definition antitone_code (a b : binput) (oa ob : list Z) : Z :=
  if negb (input_leb a b) then 0
  else match oa, ob with
       | 0 :: _ :: _ :: ta, 0 :: _ :: _ :: tb =>
           (* item quantities, zone count, zone quantities: none may rise *)
           if all_leb tb ta then 0 else 5
       | _, _ => 0
       end.

(* lowering a reclaim threshold percentage raises the safety margin: clause 6 *)
Definition with_reclaim (b : binput) (cr mr : Z) : binput :=
  let s := b_s b in
  mkB (mkStrategy (s_cpu_policy s) (s_mem_policy s) cr mr (s_cpu_thr s) (s_mem_thr s) (s_degrade s))
      (b_age b) (b_cap_cpu b) (b_cap_mem b) (b_alloc_cpu b) (b_alloc_mem b)
      (b_anno b) (b_anno_cpu b) (b_anno_mem b) (b_anno_rcpus b) (b_sys_cpu b) (b_sys_mem b)
      (b_zones b) (b_apps b) (b_pods b) (b_dang b).
Definition reclaim_leb (a b : binput) : bool :=
  let a' := with_reclaim a (s_cpu_reclaim (b_s b)) (s_mem_reclaim (b_s b)) in
  input_leb a' b && input_leb b a'
  && (s_cpu_reclaim (b_s b) <=? s_cpu_reclaim (b_s a)) && (s_cpu_reclaim (b_s a) <=? 100)
  && (s_mem_reclaim (b_s b) <=? s_mem_reclaim (b_s a)) && (s_mem_reclaim (b_s a) <=? 100).
Definition reclaim_code (a b : binput) (oa ob : list Z) : Z :=
  if negb (reclaim_leb a b) then 0
  else match oa, ob with
       | 0 :: _ :: _ :: ca :: ma :: _, 0 :: _ :: _ :: cb :: mb :: _ =>
           if (cb <=? ca) && (mb <=? ma) then 0 else 6
       | _, _ => 0
       end.

(* well-formed inputs: what the Go types and the strategy validation guarantee *)
Definition pv_nonneg (p : pv) : bool := (0 <=? v_req p) && (0 <=? v_used p) && (0 <=? v_dang p).
Definition strategy_valid (s : strategy) : bool :=
  (0 <=? s_cpu_reclaim s) && (0 <=? s_mem_reclaim s) && (-1 <=? s_cpu_thr s) && (-1 <=? s_mem_thr s)
  && (0 <? s_degrade s).

(* ------------------------------------------------------------------------------------------ *)
(* the mid tier: never negative, never above the threshold percentage of capacity, never above
   what is reclaimable (static: the static percentage; otherwise min(prod-reclaimable, node
   unused) clamped at zero plus the unallocated share) *)
Definition mid_thr_cpu (m : minput) : Z := mul_ratio (m_cap_cpu m) (f_pct (dflt (ms_cpu_thr (m_s m)) 100)).
Definition mid_thr_mem (m : minput) : Z := mul_ratio (m_cap_mem m) (f_pct (dflt (ms_mem_thr (m_s m)) 100)).
Definition mid_unused_cpu (m : minput) : Z := if m_usage_valid m then m_cap_cpu m - m_used_cpu m else 0.
Definition mid_unused_mem (m : minput) : Z := if m_usage_valid m then m_cap_mem m - m_used_mem m else 0.
Definition mid_bound_cpu (m : minput) : Z :=
  if ms_static (m_s m) then mul_ratio (m_cap_cpu m) (f_pct (dflt (ms_static_cpu (m_s m)) 0))
  else Z.max 0 (Z.min (if m_recl m then m_recl_cpu m else 0) (mid_unused_cpu m))
       + mul_ratio (Z.max 0 (m_cap_cpu m - m_reserved_cpu m - prod_alloc_cpu (m_pods m)))
                   (f_pct (dflt (ms_unalloc (m_s m)) 0)).
Definition mid_bound_mem (m : minput) : Z :=
  if ms_static (m_s m) then mul_ratio (m_cap_mem m) (f_pct (dflt (ms_static_mem (m_s m)) 0))
  else Z.max 0 (Z.min (if m_recl m then m_recl_mem m else 0) (mid_unused_mem m))
       + mul_ratio (Z.max 0 (m_cap_mem m - m_reserved_mem m - prod_alloc_mem (m_pods m)))
                   (f_pct (dflt (ms_unalloc (m_s m)) 0)).

Definition mid_ok (thr bound x : Z) : Prop := 0 <= x /\ x <= thr /\ x <= bound.
(* 0 ok; 1 negative; 3 above the threshold percentage; 2 above the reclaimable bound *)
Definition mid_dim_code (thr bound x : Z) : Z :=
  if x <? 0 then 1 else if thr <? x then 3 else if bound <? x then 2 else 0.
Definition mid_pub_code (thr bound x : Z) : Z :=
  if x =? -1 then 0 else let c := mid_dim_code thr bound x in if c =? 0 then 0 else 30 + c.

Definition mstale (m : minput) : bool := is_degraded (ms_degrade (m_s m)) (m_age m).
Definition mid_code (m : minput) (obs : list Z) : Z :=
  if eq_listZ obs withdrawn then 0
  else match obs with
  | [h; pc; pm; c; mm] =>
      if negb (h =? 0) then 9
      else if mstale m then 10
      else if negb (mid_dim_code (mid_thr_cpu m) (mid_bound_cpu m) c =? 0)
           then mid_dim_code (mid_thr_cpu m) (mid_bound_cpu m) c
      else if negb (mid_dim_code (mid_thr_mem m) (mid_bound_mem m) mm =? 0)
           then mid_dim_code (mid_thr_mem m) (mid_bound_mem m) mm
      else if negb (mid_pub_code (mid_thr_cpu m) (mid_bound_cpu m) pc =? 0)
           then mid_pub_code (mid_thr_cpu m) (mid_bound_cpu m) pc
      else mid_pub_code (mid_thr_mem m) (mid_bound_mem m) pm
  | _ => 9
  end.
Definition mid_holds (m : minput) (obs : list Z) : Prop :=
  obs = withdrawn \/
  exists pc pm c mm, obs = [0; pc; pm; c; mm] /\ mstale m = false /\
    mid_ok (mid_thr_cpu m) (mid_bound_cpu m) c /\ mid_ok (mid_thr_mem m) (mid_bound_mem m) mm /\
    (pc = -1 \/ mid_ok (mid_thr_cpu m) (mid_bound_cpu m) pc) /\
    (pm = -1 \/ mid_ok (mid_thr_mem m) (mid_bound_mem m) pm).

(* what IsColocationStrategyValid guarantees for the mid percentages (nil is -1) *)
Definition minput_wf (m : minput) : bool :=
  (0 <=? m_cap_cpu m) && (0 <=? m_cap_mem m).
