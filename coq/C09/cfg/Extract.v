(* C09 / stream "cfg" — flat-integer interface of the configuration-path model (Cfg.v / CfgSpec.v).
   input wire format:
     nOps op*
       op = 1 CM | 2 CM | 3 | 4 pool tier | other
            1: Create/Update event of the slo-controller-config ConfigMap with content CM
            2: an event of some other ConfigMap carrying CM (ignored by the handler)
            3: Delete event (the informer cache loses the ConfigMap)
            4: reconcile of the node, labelled pool / tier (0 = label absent)
       CM = cmKind style PATCH nEntries (selKind selA selB PATCH)*
            cmKind 0 well-formed, 1 key absent / empty, other: does not unmarshal; style: JSON spelling (ignored here)
       PATCH = cpuPolicy memPolicy cpuReclaim memReclaim batchCpuThr batchMemThr degradeMin updateSec
            (policy 0 / others -1 = field absent)
     then the node exactly as in stream "batch" (without the leading k delta; its 7 strategy fields are
     ignored: the strategy comes from the history), including the optional node annotation / labels
   observable: concatenation over the reconciles of [2] (configuration unavailable) or Model.run_batch *)
From Coq Require Import List ZArith Bool.
From Verif Require Import Lib.Wire C09.Model C09.Spec C09.Cfg C09.CfgSpec.
Import ListNotations.
Open Scope Z_scope.

Definition dec_patch (l : list Z) : spatch * list Z :=
  match l with
  | a :: b :: c :: d :: e :: f :: g :: h :: t => (mkPatch a b c d e f g h, t)
  | _ => (empty_patch, [])
  end.
Definition dec_entry (l : list Z) : (sel * spatch) * list Z :=
  match l with
  | k :: a :: b :: t => let '(p, t1) := dec_patch t in ((mkSel k a b, p), t1)
  | _ => ((mkSel 0 0 0, empty_patch), [])
  end.
Definition dec_cm (l : list Z) : cmdata * list Z :=
  match l with
  | k :: _style :: t =>
      let '(p, t1) := dec_patch t in
      let '(ns, t2) := decode_seq dec_entry t1 in (mkCM k p ns, t2)
  | _ => (mkCM 1 empty_patch [], [])
  end.
Definition cm0 : cmdata := mkCM 1 empty_patch [].
Definition dec_op (l : list Z) : cop * list Z :=
  match l with
  | k :: t =>
      if (k =? 1) || (k =? 2) then let '(cm, t1) := dec_cm t in (mkOp k cm 0 0, t1)
      else if k =? 4 then match t with p :: q :: t1 => (mkOp 4 cm0 p q, t1) | _ => (mkOp 0 cm0 0 0, []) end
      else (mkOp k cm0 0 0, t)
  | [] => (mkOp 0 cm0 0 0, [])
  end.

Definition dec_pair (l : list Z) : (Z * Z) * list Z :=
  match l with a :: b :: t => ((a, b), t) | _ => ((0, 0), []) end.
Definition dec_amt (l : list Z) : (Z * (Z * Z)) * list Z :=
  match l with a :: b :: c :: t => ((a, (b, c)), t) | _ => ((0, (0, 0)), []) end.
Definition dec_pod (l : list Z) : pod * list Z :=
  match l with
  | ph :: pl :: pvl :: ql :: kb :: rc :: rm :: hs :: mp :: uc :: um :: nu :: t =>
      (mkPod ph pl pvl ql kb rc rm (zb hs) mp uc um nu, t)
  | _ => (mkPod 4 0 (-1) 0 1 0 0 false 0 0 0 0, [])
  end.
Definition s_none : strategy := mkStrategy 0 0 0 0 (-1) (-1) 1.
Definition decode_body (l : list Z) : binput * nodecfg :=
  match l with
  | _ :: _ :: _ :: _ :: _ :: _ :: _ :: age :: cc :: cm :: ac :: am ::
    af :: anc :: anm :: anr :: sc :: sm :: t =>
      let '(zs, t1) := decode_seq dec_pair t in
      let '(apps, t2) := decode_seq dec_amt t1 in
      let '(pods, t3) := decode_seq dec_pod t2 in
      let '(dang, t4) := decode_seq dec_amt t3 in
      let nc := match t4 with
                | ak :: a1 :: a2 :: a3 :: a4 :: k1 :: h1 :: k2 :: h2 :: _ => mkNodeCfg ak a1 a2 a3 a4 k1 h1 k2 h2
                | _ => nodecfg0
                end in
      (mkB s_none age cc cm ac am (zb af) anc anm anr sc sm zs apps pods dang, nc)
  | _ => (mkB s_none (-1) 0 0 0 0 false 0 0 0 0 0 [] [] [] [], nodecfg0)
  end.

Definition decode (inp : list Z) : list cop * (binput * nodecfg) :=
  let '(ops, t) := decode_seq dec_op inp in (ops, decode_body t).

Definition run_case (inp : list Z) : list Z :=
  let '(ops, (b, nc)) := decode inp in run_cfg ops b nc.
Definition prop_case (inp obs : list Z) : Z :=
  let '(ops, (b, nc)) := decode inp in cfg_code ops b nc obs.
Definition nontrivial_case (inp : list Z) : bool :=
  let '(ops, _) := decode inp in later_entry_from r0 ops.
Definition finding_sig (inp obs : list Z) : Z := 0.

Require Extraction.
Require Import ExtrOcamlBasic.
Extraction "model.ml" run_case prop_case nontrivial_case finding_sig.
