(* C09 — mid-tier bounds. *)
From Coq Require Import List ZArith Bool Lia.
From Verif Require Import C09.Model C09.Spec C09.Proofs_Float C09.Proofs.
Import ListNotations.
Open Scope Z_scope.

Lemma dflt_nonneg v d : 0 <= d -> 0 <= dflt v d.
Proof. unfold dflt. destruct (v <? 0) eqn:E; lia. Qed.

Lemma pct_dflt_nonneg v d : 0 <= d -> 0 <= fst (f_pct (dflt v d)).
Proof. intros H. apply f_pct_nonneg, dflt_nonneg, H. Qed.

Lemma mid_static_ok cap sr tr :
  0 <= cap -> 0 <= fst sr -> 0 <= fst tr ->
  mid_ok (mul_ratio cap tr) (mul_ratio cap sr) (mid_static cap sr tr).
Proof.
  intros Hc Hs Ht. unfold mid_ok, mid_static.
  pose proof (mul_ratio_nonneg cap sr Hc Hs). pose proof (mul_ratio_nonneg cap tr Hc Ht).
  destruct (mul_ratio cap tr <? mul_ratio cap sr) eqn:E; lia.
Qed.

Lemma mid_dynamic_ok cap reserved prod unused recl ur tr :
  0 <= cap -> 0 <= fst ur -> 0 <= fst tr ->
  mid_ok (mul_ratio cap tr)
         (Z.max 0 (Z.min recl unused) + mul_ratio (Z.max 0 (cap - reserved - prod)) ur)
         (mid_dynamic cap reserved prod unused recl ur tr).
Proof.
  intros Hc Hu Ht. unfold mid_ok, mid_dynamic, clamp0.
  assert (0 <= Z.max (cap - reserved - prod) 0) as Hn by lia.
  pose proof (mul_ratio_nonneg _ ur Hn Hu). pose proof (mul_ratio_nonneg cap tr Hc Ht).
  replace (Z.max 0 (cap - reserved - prod)) with (Z.max (cap - reserved - prod) 0) by lia.
  destruct (_ <? _) eqn:E; lia.
Qed.

Lemma mid_cpu_ok m : 0 <= m_cap_cpu m -> mid_ok (mid_thr_cpu m) (mid_bound_cpu m) (mid_cpu m).
Proof.
  intros Hc. unfold mid_thr_cpu, mid_bound_cpu, mid_cpu, mid_unused_cpu.
  destruct (ms_static (m_s m)).
  - apply mid_static_ok; [exact Hc|apply pct_dflt_nonneg; lia|apply pct_dflt_nonneg; lia].
  - apply mid_dynamic_ok; [exact Hc|apply pct_dflt_nonneg; lia|apply pct_dflt_nonneg; lia].
Qed.
Lemma mid_mem_ok m : 0 <= m_cap_mem m -> mid_ok (mid_thr_mem m) (mid_bound_mem m) (mid_mem m).
Proof.
  intros Hc. unfold mid_thr_mem, mid_bound_mem, mid_mem, mid_unused_mem.
  destruct (ms_static (m_s m)).
  - apply mid_static_ok; [exact Hc|apply pct_dflt_nonneg; lia|apply pct_dflt_nonneg; lia].
  - apply mid_dynamic_ok; [exact Hc|apply pct_dflt_nonneg; lia|apply pct_dflt_nonneg; lia].
Qed.

Lemma mid_dim_code_spec thr bound x : mid_dim_code thr bound x = 0 <-> mid_ok thr bound x.
Proof.
  unfold mid_dim_code, mid_ok.
  destruct (x <? 0) eqn:E1; [apply Z.ltb_lt in E1; split; [discriminate|lia]|apply Z.ltb_ge in E1].
  destruct (thr <? x) eqn:E2; [apply Z.ltb_lt in E2; split; [discriminate|lia]|apply Z.ltb_ge in E2].
  destruct (bound <? x) eqn:E3; [apply Z.ltb_lt in E3; split; [discriminate|lia]|apply Z.ltb_ge in E3].
  split; [lia|reflexivity].
Qed.
Lemma mid_dim_code_range thr bound x : 0 <= mid_dim_code thr bound x <= 3.
Proof. unfold mid_dim_code. destruct (x <? 0), (thr <? x), (bound <? x); lia. Qed.
Lemma mid_pub_code_spec thr bound x :
  mid_pub_code thr bound x = 0 <-> (x = -1 \/ mid_ok thr bound x).
Proof.
  unfold mid_pub_code. pose proof (mid_dim_code_range thr bound x).
  pose proof (mid_dim_code_spec thr bound x) as Hs.
  destruct (x =? -1) eqn:E.
  - apply Z.eqb_eq in E. split; [left; exact E|reflexivity].
  - apply Z.eqb_neq in E. cbv zeta. destruct (mid_dim_code thr bound x =? 0) eqn:E0.
    + apply Z.eqb_eq in E0. split; [right; apply Hs; exact E0|reflexivity].
    + apply Z.eqb_neq in E0. split; [lia|]. intros [H0|H0]; [contradiction|].
      apply Hs in H0. contradiction.
Qed.

Lemma mid_code_sound m obs : mid_code m obs = 0 -> mid_holds m obs.
Proof.
  unfold mid_code, mid_holds.
  destruct (eq_listZ obs withdrawn) eqn:Ew; [intros _; left; apply eq_listZ_spec; exact Ew|].
  destruct obs as [|h [|pc [|pm [|c [|mm [|x obs]]]]]]; try discriminate.
  destruct (h =? 0) eqn:Eh; cbn [negb]; [|discriminate]. apply Z.eqb_eq in Eh. subst h.
  destruct (mstale m); [discriminate|].
  pose proof (mid_dim_code_range (mid_thr_cpu m) (mid_bound_cpu m) c).
  pose proof (mid_dim_code_range (mid_thr_mem m) (mid_bound_mem m) mm).
  destruct (mid_dim_code (mid_thr_cpu m) (mid_bound_cpu m) c =? 0) eqn:E1; cbn [negb];
    [apply Z.eqb_eq in E1|apply Z.eqb_neq in E1; intros; contradiction].
  destruct (mid_dim_code (mid_thr_mem m) (mid_bound_mem m) mm =? 0) eqn:E2; cbn [negb];
    [apply Z.eqb_eq in E2|apply Z.eqb_neq in E2; intros; contradiction].
  destruct (mid_pub_code (mid_thr_cpu m) (mid_bound_cpu m) pc =? 0) eqn:E3; cbn [negb];
    [apply Z.eqb_eq in E3|apply Z.eqb_neq in E3; intros; contradiction].
  intros E4. right. exists pc, pm, c, mm.
  apply mid_dim_code_spec in E1. apply mid_dim_code_spec in E2.
  apply mid_pub_code_spec in E3. apply mid_pub_code_spec in E4. tauto.
Qed.

Lemma mid_code_intro m pc pm c mm :
  mstale m = false ->
  mid_ok (mid_thr_cpu m) (mid_bound_cpu m) c -> mid_ok (mid_thr_mem m) (mid_bound_mem m) mm ->
  (pc = -1 \/ mid_ok (mid_thr_cpu m) (mid_bound_cpu m) pc) ->
  (pm = -1 \/ mid_ok (mid_thr_mem m) (mid_bound_mem m) pm) ->
  mid_code m [0; pc; pm; c; mm] = 0.
Proof.
  intros Hs Hc Hm Hpc Hpm. unfold mid_code.
  replace (eq_listZ [0; pc; pm; c; mm] withdrawn) with false by reflexivity.
  apply mid_dim_code_spec in Hc. apply mid_dim_code_spec in Hm.
  apply mid_pub_code_spec in Hpc. apply mid_pub_code_spec in Hpm.
  rewrite Hs, Hc, Hm, Hpc, Hpm. reflexivity.
Qed.

Theorem run_mid_holds m : minput_wf m = true -> mid_holds m (run_mid m) /\ mid_code m (run_mid m) = 0.
Proof.
  unfold minput_wf. intros H. apply andb_true_iff in H. destruct H as [H1 H2].
  apply Z.leb_le in H1. apply Z.leb_le in H2.
  pose proof (mid_cpu_ok m H1) as Hc. pose proof (mid_mem_ok m H2) as Hm.
  unfold run_mid. fold (mstale m).
  destruct (mstale m) eqn:Es; [split; [left; reflexivity|reflexivity]|].
  split.
  - right. exists (mid_cpu m), (mid_mem m), (mid_cpu m), (mid_mem m). tauto.
  - apply mid_code_intro; auto.
Qed.

Lemma run_mid_stale m : mstale m = true -> run_mid m = withdrawn.
Proof. intros H. unfold run_mid. fold (mstale m). rewrite H. reflexivity. Qed.
