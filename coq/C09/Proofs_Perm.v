(* C09 — the aggregation does not depend on the order of pods or of pod metrics (the code walks a
   Go map of unmatched metrics in random order; metrics are reported in an order unrelated to the
   pod list). *)
From Coq Require Import List ZArith Bool Lia Permutation.
From Verif Require Import C09.Model C09.Spec C09.Proofs_Agg.
Import ListNotations.
Open Scope Z_scope.

Lemma sumZ_perm l l' : Permutation l l' -> sumZ l = sumZ l'.
Proof. induction 1; rewrite ?sumZ_cons in *; lia. Qed.

Theorem aggregate_perm ps qs ds es :
  Permutation ps qs -> Permutation ds es -> aggregate ps ds = aggregate qs es.
Proof.
  intros Hp Hd. unfold aggregate.
  pose proof (fold_agg_spec ps agg0) as (A1 & A2 & A3 & A4).
  pose proof (fold_agg_spec qs agg0) as (B1 & B2 & B3 & B4).
  cbv zeta in *.
  rewrite A1, A2, A3, A4, B1, B2, B3, B4.
  rewrite (sumZ_perm _ _ (Permutation_map (charge 2) Hp)).
  rewrite (sumZ_perm _ _ (Permutation_map (charge 1) Hp)).
  rewrite (sumZ_perm _ _ (Permutation_map (charge 3) Hp)).
  rewrite (sumZ_perm _ _ (Permutation_map orphan Hp)).
  rewrite (sumZ_perm _ _ (Permutation_map dang_amount Hd)).
  reflexivity.
Qed.

Corollary batch_dim_perm d ps ds :
  Permutation (d_pods d) ps -> Permutation (d_dang d) ds ->
  batch_dim (mkDim (d_policy d) (d_thr d) (d_cap d) (d_margin d) (d_reserved d) (d_sys d) ps ds)
  = batch_dim d.
Proof.
  intros Hp Hd. unfold batch_dim. cbn [d_policy d_thr d_cap d_margin d_reserved d_sys d_pods d_dang].
  rewrite (aggregate_perm _ _ _ _ Hp Hd). reflexivity.
Qed.
