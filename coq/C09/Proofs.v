(* C09 — proofs about the model (see Properties.v for the exported statements). *)
From Coq Require Import List ZArith Bool Lia.
From Verif Require Import C09.Model C09.Spec.
Import ListNotations.
Open Scope Z_scope.

Lemma clamp0_nonneg x : 0 <= clamp0 x.
Proof. unfold clamp0. lia. Qed.
