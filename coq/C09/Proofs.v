(* C09 — the decision procedure decides the Props of Spec.v, and the model satisfies them for
   every input (see Properties.v for the exported statements). *)
From Coq Require Import List ZArith Bool Lia.
From Verif Require Import C09.Model C09.Spec C09.Proofs_Agg C09.Proofs_Float.
Import ListNotations.
Open Scope Z_scope.

(* ---------------- decision procedure <-> Prop ---------------- *)
Lemma dim_code_range strict d x : 0 <= dim_code strict d x <= 4.
Proof.
  unfold dim_code.
  destruct (x <? 0); [lia|]. destruct (_ <? x); [lia|].
  destruct (match d_thr d with Some c => c <? x | None => false end); [lia|].
  destruct (strict && _); lia.
Qed.

Lemma dim_code_spec strict d x : dim_code strict d x = 0 <-> dim_spec strict d x.
Proof.
  unfold dim_code, dim_spec, dim_ok, dim_text_ok.
  destruct (x <? 0) eqn:E1.
  { apply Z.ltb_lt in E1. split; [discriminate|]. intros [[H _] _]. lia. }
  apply Z.ltb_ge in E1.
  destruct (Z.max 0 (upper d) <? x) eqn:E2.
  { apply Z.ltb_lt in E2. split; [discriminate|]. intros [[_ [H _]] _]. lia. }
  apply Z.ltb_ge in E2.
  assert (forall P : Prop, (0 <= x /\ x <= Z.max 0 (upper d) /\ P) <-> P) as Hs
    by (intros P; split; [intros (_ & _ & H); exact H|intros H; repeat split; assumption]).
  destruct (d_thr d) as [c|] eqn:Et.
  - destruct (c <? x) eqn:E3.
    { apply Z.ltb_lt in E3. split; [discriminate|]. intros [[_ [_ H]] _].
      specialize (H c eq_refl). lia. }
    apply Z.ltb_ge in E3.
    assert (forall c0 : Z, Some c = Some c0 -> x <= c0) as Hc
      by (intros c0 H0; inversion H0; subst; exact E3).
    destruct strict; cbn [andb].
    + destruct (Z.max 0 (upper_text d) <? x) eqn:E4.
      { apply Z.ltb_lt in E4. split; [discriminate|]. intros [_ H]. specialize (H eq_refl). lia. }
      apply Z.ltb_ge in E4. split; [intros _|reflexivity].
      split; [repeat split; assumption|intros _; exact E4].
    + split; [intros _|reflexivity]. split; [repeat split; assumption|discriminate].
  - assert (forall c0 : Z, @None Z = Some c0 -> x <= c0) as Hc by (intros c0 H0; discriminate).
    destruct strict; cbn [andb].
    + destruct (Z.max 0 (upper_text d) <? x) eqn:E4.
      { apply Z.ltb_lt in E4. split; [discriminate|]. intros [_ H]. specialize (H eq_refl). lia. }
      apply Z.ltb_ge in E4. split; [intros _|reflexivity].
      split; [repeat split; assumption|intros _; exact E4].
    + split; [intros _|reflexivity]. split; [repeat split; assumption|discriminate].
Qed.

Lemma pub_code_spec strict d x : pub_code strict d x = 0 <-> pub_spec strict d x.
Proof.
  unfold pub_code, pub_spec. pose proof (dim_code_range strict d x) as Hr.
  pose proof (dim_code_spec strict d x) as Hs.
  destruct (x =? -1) eqn:E.
  - apply Z.eqb_eq in E. split; [left; exact E|reflexivity].
  - apply Z.eqb_neq in E. cbv zeta.
    destruct (dim_code strict d x =? 0) eqn:E0.
    + apply Z.eqb_eq in E0. split; [intros _; right; apply Hs; exact E0|reflexivity].
    + apply Z.eqb_neq in E0. split; [lia|]. intros [H|H]; [contradiction|].
      apply Hs in H. contradiction.
Qed.

Lemma zones_code_spec strict b n zs : forall i obs,
  zones_code strict b n i zs obs = 0 <-> zones_spec strict b n i zs obs.
Proof.
  induction zs as [|z zs IH]; intros i obs.
  - destruct obs; cbn; split; try reflexivity; try discriminate; try tauto.
  - destruct obs as [|c [|m obs]]; cbn [zones_code zones_spec]; try (split; [discriminate|tauto]).
    pose proof (dim_code_range strict (zone_cpu b n i z) c) as Hrc.
    pose proof (dim_code_range strict (zone_mem b n i z) m) as Hrm.
    pose proof (dim_code_spec strict (zone_cpu b n i z) c) as Hsc.
    pose proof (dim_code_spec strict (zone_mem b n i z) m) as Hsm.
    cbv zeta.
    destruct (dim_code strict (zone_cpu b n i z) c =? 0) eqn:Ec; cbn [negb].
    + apply Z.eqb_eq in Ec.
      destruct (dim_code strict (zone_mem b n i z) m =? 0) eqn:Em; cbn [negb].
      * apply Z.eqb_eq in Em. rewrite IH. tauto.
      * apply Z.eqb_neq in Em. split; [lia|]. intros (_ & H & _). apply Hsm in H. contradiction.
    + apply Z.eqb_neq in Ec. split; [lia|]. intros (H & _). apply Hsc in H. contradiction.
Qed.

Lemma eq_listZ_spec a : forall b, eq_listZ a b = true <-> a = b.
Proof.
  induction a as [|x a IH]; intros [|y b]; cbn; split; try reflexivity; try discriminate.
  - intros H. apply andb_true_iff in H. destruct H as [H1 H2].
    apply Z.eqb_eq in H1. apply IH in H2. subst. reflexivity.
  - intros H. inversion H; subst. apply andb_true_iff. split; [apply Z.eqb_refl|apply IH; reflexivity].
Qed.

Lemma batch_code_spec strict b obs : batch_code strict b obs = 0 <-> batch_spec strict b obs.
Proof.
  unfold batch_code, batch_spec.
  destruct (eq_listZ obs withdrawn) eqn:Ew.
  { apply eq_listZ_spec in Ew. split; [left; exact Ew|reflexivity]. }
  assert (obs <> withdrawn) as Hnw.
  { intros H. apply eq_listZ_spec in H. rewrite H in Ew. discriminate. }
  destruct obs as [|h [|pc [|pm [|c [|m [|nz zobs]]]]]];
    try (split; [discriminate|]; intros [H|H]; [contradiction|];
         destruct H as (x1 & x2 & x3 & x4 & x5 & x6 & H & _); discriminate).
  pose proof (dim_code_range strict (node_cpu b) c) as Hrc.
  pose proof (dim_code_range strict (node_mem b) m) as Hrm.
  pose proof (dim_code_spec strict (node_cpu b) c) as Hsc.
  pose proof (dim_code_spec strict (node_mem b) m) as Hsm.
  pose proof (pub_code_spec strict (node_cpu b) pc) as Hpc.
  pose proof (pub_code_spec strict (node_mem b) pm) as Hpm.
  destruct (h =? 0) eqn:Eh; cbn [negb].
  2:{ apply Z.eqb_neq in Eh. split; [discriminate|]. intros [H|H]; [contradiction|].
      destruct H as (x1 & x2 & x3 & x4 & x5 & x6 & H & _). inversion H. lia. }
  apply Z.eqb_eq in Eh. subst h.
  destruct (stale b) eqn:Es.
  { split; [discriminate|]. intros [H|H]; [contradiction|].
    destruct H as (x1 & x2 & x3 & x4 & x5 & x6 & _ & H & _). discriminate. }
  destruct (dim_code strict (node_cpu b) c =? 0) eqn:Ec; cbn [negb].
  2:{ apply Z.eqb_neq in Ec. split; [intros H; contradiction|]. intros [H|H]; [contradiction|].
      destruct H as (x1 & x2 & x3 & x4 & x5 & x6 & H & _ & H1 & _). inversion H; subst.
      apply Hsc in H1. contradiction. }
  apply Z.eqb_eq in Ec.
  destruct (dim_code strict (node_mem b) m =? 0) eqn:Em; cbn [negb].
  2:{ apply Z.eqb_neq in Em. split; [intros H; contradiction|]. intros [H|H]; [contradiction|].
      destruct H as (x1 & x2 & x3 & x4 & x5 & x6 & H & _ & _ & H1 & _). inversion H; subst.
      apply Hsm in H1. contradiction. }
  apply Z.eqb_eq in Em.
  destruct (pub_code strict (node_cpu b) pc =? 0) eqn:Epc; cbn [negb].
  2:{ apply Z.eqb_neq in Epc. split; [intros H; contradiction|]. intros [H|H]; [contradiction|].
      destruct H as (x1 & x2 & x3 & x4 & x5 & x6 & H & _ & _ & _ & H1 & _). inversion H; subst.
      apply Hpc in H1. contradiction. }
  apply Z.eqb_eq in Epc.
  destruct (pub_code strict (node_mem b) pm =? 0) eqn:Epm; cbn [negb].
  2:{ apply Z.eqb_neq in Epm. split; [intros H; contradiction|]. intros [H|H]; [contradiction|].
      destruct H as (x1 & x2 & x3 & x4 & x5 & x6 & H & _ & _ & _ & _ & H1 & _). inversion H; subst.
      apply Hpm in H1. contradiction. }
  apply Z.eqb_eq in Epm.
  apply Hsc in Ec. apply Hsm in Em. apply Hpc in Epc. apply Hpm in Epm.
  destruct (nz =? 0) eqn:Enz.
  - apply Z.eqb_eq in Enz. subst nz. destruct zobs as [|zo zobs].
    + split; [intros _|reflexivity]. right. exists pc, pm, c, m, 0, [].
      refine (conj eq_refl (conj eq_refl (conj Ec (conj Em (conj Epc (conj Epm _)))))).
      left. split; reflexivity.
    + split; [discriminate|]. intros [H|H]; [contradiction|].
      destruct H as (x1 & x2 & x3 & x4 & x5 & x6 & H & _ & _ & _ & _ & _ & Hd).
      injection H as _ _ _ _ E5 E6.
      destruct Hd as [[_ H1]|[H1 H2]].
      * rewrite H1 in E6. discriminate.
      * rewrite <- E5 in H1. destruct (b_zones b) as [|z0 zs0]; [|cbn [length] in H1; lia].
        rewrite <- E6 in H2. cbn in H2. contradiction.
  - apply Z.eqb_neq in Enz.
    destruct (nz =? Z.of_nat (length (b_zones b))) eqn:El; cbn [negb].
    + apply Z.eqb_eq in El. rewrite zones_code_spec. split.
      * intros Hz. right. exists pc, pm, c, m, nz, zobs.
        refine (conj eq_refl (conj eq_refl (conj Ec (conj Em (conj Epc (conj Epm _)))))).
        right. split; assumption.
      * intros [H|H]; [contradiction|].
        destruct H as (x1 & x2 & x3 & x4 & x5 & x6 & H & _ & _ & _ & _ & _ & Hd).
        injection H as _ _ _ _ E5 E6.
        destruct Hd as [[H1 _]|[_ H2]]; [lia|]. rewrite E6. exact H2.
    + apply Z.eqb_neq in El. split; [discriminate|]. intros [H|H]; [contradiction|].
      destruct H as (x1 & x2 & x3 & x4 & x5 & x6 & H & _ & _ & _ & _ & _ & Hd).
      injection H as _ _ _ _ E5 E6.
      destruct Hd as [[H1 _]|[H1 _]]; lia.
Qed.

(* ---------------- the model satisfies the property, for every input ---------------- *)
Definition zone_nonneg (z : Z * Z) : bool := (0 <=? fst z) && (0 <=? snd z).
Definition input_wf (b : binput) : bool :=
  (0 <=? b_cap_cpu b) && (0 <=? b_cap_mem b) && forallb zone_nonneg (b_zones b).

Lemma thr_nonneg_node_cpu b : 0 <= b_cap_cpu b -> thr_nonneg (node_cpu b).
Proof. intros H c Hc. cbn in Hc. eapply thr_term_nonneg; eassumption. Qed.
Lemma thr_nonneg_node_mem b : 0 <= b_cap_mem b -> thr_nonneg (node_mem b).
Proof. intros H c Hc. cbn in Hc. eapply thr_term_nonneg; eassumption. Qed.
Lemma thr_nonneg_zone_cpu b n i z : 0 <= fst z -> thr_nonneg (zone_cpu b n i z).
Proof. intros H c Hc. cbn in Hc. eapply thr_term_nonneg; eassumption. Qed.
Lemma thr_nonneg_zone_mem b n i z : 0 <= snd z -> thr_nonneg (zone_mem b n i z).
Proof.
  intros H c Hc. cbn [d_thr zone_mem] in Hc.
  destruct (thr_term (s_mem_thr (b_s b)) (snd z)) as [c0|] eqn:E; [|discriminate].
  assert (c = 1000 * c0) as -> by congruence. pose proof (thr_term_nonneg _ _ _ H E). lia.
Qed.

Lemma dim_spec_false d : thr_nonneg d -> dim_spec false d (batch_dim d).
Proof. intros H. split; [apply batch_dim_ok; exact H|discriminate]. Qed.

Lemma zones_out_spec b n zs : forallb zone_nonneg zs = true ->
  forall i, zones_spec false b n i zs (zones_out b n i zs).
Proof.
  induction zs as [|z zs IH]; intros Hz i; cbn [zones_out zones_spec]; [exact I|].
  cbn [forallb] in Hz. apply andb_true_iff in Hz. destruct Hz as [Hz Hzs].
  unfold zone_nonneg in Hz. apply andb_true_iff in Hz. destruct Hz as [H1 H2].
  apply Z.leb_le in H1. apply Z.leb_le in H2.
  split; [apply dim_spec_false, thr_nonneg_zone_cpu; exact H1|].
  split; [apply dim_spec_false, thr_nonneg_zone_mem; exact H2|].
  apply IH. exact Hzs.
Qed.

Lemma input_wf_parts b : input_wf b = true ->
  0 <= b_cap_cpu b /\ 0 <= b_cap_mem b /\ forallb zone_nonneg (b_zones b) = true.
Proof.
  unfold input_wf. intros H. apply andb_true_iff in H. destruct H as [H Hz].
  apply andb_true_iff in H. destruct H as [H1 H2].
  apply Z.leb_le in H1. apply Z.leb_le in H2. auto.
Qed.

Theorem run_batch_holds b : input_wf b = true -> C09_holds b (run_batch b).
Proof.
  intros Hwf. apply input_wf_parts in Hwf. destruct Hwf as (Hc & Hm & Hz).
  unfold C09_holds, batch_spec, run_batch. fold (stale b).
  destruct (stale b) eqn:Es; [left; reflexivity|].
  right. eexists _, _, _, _, _, _. split; [reflexivity|].
  split; [reflexivity|].
  split; [apply dim_spec_false, thr_nonneg_node_cpu; exact Hc|].
  split; [apply dim_spec_false, thr_nonneg_node_mem; exact Hm|].
  split; [right; apply dim_spec_false, thr_nonneg_node_cpu; exact Hc|].
  split; [right; apply dim_spec_false, thr_nonneg_node_mem; exact Hm|].
  right. split; [reflexivity|]. apply zones_out_spec. exact Hz.
Qed.

Corollary run_batch_code b : input_wf b = true -> batch_code false b (run_batch b) = 0.
Proof. intros H. apply batch_code_spec. apply run_batch_holds. exact H. Qed.

(* stale metrics withdraw the resource *)
Lemma run_batch_stale b : stale b = true -> run_batch b = withdrawn.
Proof. intros H. unfold run_batch. fold (stale b). rewrite H. reflexivity. Qed.
Lemma stale_iff b :
  stale b = true <-> b_age b < 0 \/ s_degrade (b_s b) * 60 < b_age b.
Proof.
  unfold stale, is_degraded. rewrite orb_true_iff, !Z.ltb_lt. tauto.
Qed.

(* ---------------- the letter of the property text ---------------- *)
(* holds for the CPU amount always and for the memory amount unless the request policy is
   configured *)
Lemma dim_spec_true d :
  thr_nonneg d -> (d_policy d =? 2) = false -> dim_spec true d (batch_dim d).
Proof.
  intros H Hp. split; [apply batch_dim_ok; exact H|]. intros _. apply batch_dim_text. left. exact Hp.
Qed.
Lemma eff_policy_cpu_not_request p : (eff_policy_cpu p =? 2) = false.
Proof. unfold eff_policy_cpu. destruct (p =? 3); reflexivity. Qed.

Lemma zones_out_spec_text b n zs :
  forallb zone_nonneg zs = true -> (eff_policy_mem (s_mem_policy (b_s b)) =? 2) = false ->
  forall i, zones_spec true b n i zs (zones_out b n i zs).
Proof.
  intros Hz Hp. revert Hz.
  induction zs as [|z zs IH]; intros Hz i; cbn [zones_out zones_spec]; [exact I|].
  cbn [forallb] in Hz. apply andb_true_iff in Hz. destruct Hz as [Hz Hzs].
  unfold zone_nonneg in Hz. apply andb_true_iff in Hz. destruct Hz as [H1 H2].
  apply Z.leb_le in H1. apply Z.leb_le in H2.
  split; [apply dim_spec_true; [apply thr_nonneg_zone_cpu; exact H1|apply eff_policy_cpu_not_request]|].
  split; [apply dim_spec_true; [apply thr_nonneg_zone_mem; exact H2|exact Hp]|].
  apply IH. exact Hzs.
Qed.

Theorem run_batch_text_holds b :
  input_wf b = true -> (eff_policy_mem (s_mem_policy (b_s b)) =? 2) = false ->
  C09_text_holds b (run_batch b).
Proof.
  intros Hwf Hp. apply input_wf_parts in Hwf. destruct Hwf as (Hc & Hm & Hz).
  unfold C09_text_holds, batch_spec, run_batch. fold (stale b).
  destruct (stale b) eqn:Es; [left; reflexivity|].
  assert (dim_spec true (node_cpu b) (batch_dim (node_cpu b))) as Dc
    by (apply dim_spec_true; [apply thr_nonneg_node_cpu; exact Hc|apply eff_policy_cpu_not_request]).
  assert (dim_spec true (node_mem b) (batch_dim (node_mem b))) as Dm
    by (apply dim_spec_true; [apply thr_nonneg_node_mem; exact Hm|exact Hp]).
  right. eexists _, _, _, _, _, _. split; [reflexivity|].
  split; [reflexivity|].
  split; [exact Dc|]. split; [exact Dm|].
  split; [right; exact Dc|]. split; [right; exact Dm|].
  right. split; [reflexivity|]. apply zones_out_spec_text; assumption.
Qed.

(* ... and is violated by the model (and by the code, see findings/) when memoryCalculatePolicy
   = "request" and system usage exceeds the node reservation: capacity 100, reclaim threshold
   100 % (margin 0), system usage 50, no reservation, no pods -> 100 published, bound 50 *)
Definition witness_request_sys : binput :=
  mkB (mkStrategy 1 2 100 100 (-1) (-1) 15) 0 1000 100 1000 100 false 0 0 0 0 50 [] [] [] [].

Lemma text_request_refuted :
  input_wf witness_request_sys = true /\
  run_batch witness_request_sys = [0; 1000; 100; 1000; 100; 0] /\
  ~ C09_text_holds witness_request_sys (run_batch witness_request_sys).
Proof.
  split; [reflexivity|]. split; [vm_compute; reflexivity|].
  intros H. apply batch_code_spec in H. vm_compute in H. discriminate.
Qed.

(* ---------------- strategy resolution ---------------- *)
Lemma resolve_label_precedence s c :
  nc_l_cpu_kind c = 1 -> nc_l_mem_kind c = 1 ->
  s_cpu_reclaim (resolve_strategy s c) = ratio_label_pct (nc_l_cpu c) /\
  s_mem_reclaim (resolve_strategy s c) = ratio_label_pct (nc_l_mem c).
Proof.
  intros H1 H2. unfold resolve_strategy. cbn [s_cpu_reclaim s_mem_reclaim]. rewrite H1, H2.
  split; reflexivity.
Qed.

(* whatever its spelling / number of decimals, a parsed label overrides *)
Lemma resolve_label_precedence_k s c :
  0 < label_scale (nc_l_cpu_kind c) -> 0 < label_scale (nc_l_mem_kind c) ->
  s_cpu_reclaim (resolve_strategy s c) = ratio_label_pct_k (label_scale (nc_l_cpu_kind c)) (nc_l_cpu c) /\
  s_mem_reclaim (resolve_strategy s c) = ratio_label_pct_k (label_scale (nc_l_mem_kind c)) (nc_l_mem c).
Proof.
  intros H1 H2. unfold resolve_strategy, label_pct. cbn [s_cpu_reclaim s_mem_reclaim].
  apply Z.ltb_lt in H1. apply Z.ltb_lt in H2. rewrite H1, H2. split; reflexivity.
Qed.

(* int64(v*100) ROUNDS DOWN: the percent taken from a label never exceeds the ratio written on the
   node, and loses less than one percent — checked exhaustively (by computation in the kernel, on the exact
   binary64 model) for every label up to 10.0 (1000 %) with 1, 2 or 3 decimals and up to 1.6383 with 4 decimals *)
Definition label_ok (scale h : Z) : bool :=
  let p := ratio_label_pct_k scale h in (scale * p <=? 100 * h) && (100 * h <=? scale * (p + 1)).
(* f holds on lo .. lo + 2^k - 1 (binary splitting: no large unary numbers) *)
Fixpoint all_range (f : Z -> bool) (k : nat) (lo : Z) : bool :=
  match k with
  | O => f lo
  | S k' => all_range f k' lo && all_range f k' (lo + 2 ^ Z.of_nat k')
  end.
Lemma all_range_spec f k : forall lo, all_range f k lo = true ->
  forall h, lo <= h < lo + 2 ^ Z.of_nat k -> f h = true.
Proof.
  induction k as [|k IH]; intros lo H h Hh.
  - cbn in *. assert (h = lo) as -> by lia. exact H.
  - cbn [all_range] in H. apply andb_true_iff in H. destruct H as [H1 H2].
    rewrite Nat2Z.inj_succ, Z.pow_succ_r in Hh by lia.
    destruct (Z_lt_ge_dec h (lo + 2 ^ Z.of_nat k)) as [Hlt|Hge].
    + apply (IH lo H1). lia.
    + apply (IH _ H2). lia.
Qed.
Lemma label_ok_10 : all_range (label_ok 10) 7 0 = true. Proof. vm_compute. reflexivity. Qed.
Lemma label_ok_100 : all_range (label_ok 100) 10 0 = true. Proof. vm_compute. reflexivity. Qed.
Lemma label_ok_1000 : all_range (label_ok 1000) 14 0 = true. Proof. vm_compute. reflexivity. Qed.
Lemma label_ok_10000 : all_range (label_ok 10000) 14 0 = true. Proof. vm_compute. reflexivity. Qed.
Lemma label_rounds_down kind h :
  0 < label_scale kind -> 0 <= h <= 10 * label_scale kind -> h < 16384 ->
  let p := ratio_label_pct_k (label_scale kind) h in
  label_scale kind * p <= 100 * h <= label_scale kind * (p + 1).
Proof.
  intros Hs Hh Hb. cbv zeta.
  assert (H : label_ok (label_scale kind) h = true).
  { unfold label_scale in *.
    destruct (kind =? 1); [apply (all_range_spec _ _ _ label_ok_100); cbn; lia|].
    destruct ((kind =? 4) || (kind =? 5)); [apply (all_range_spec _ _ _ label_ok_1000); cbn; lia|].
    destruct (kind =? 6); [apply (all_range_spec _ _ _ label_ok_10); cbn; lia|].
    destruct (kind =? 7); [apply (all_range_spec _ _ _ label_ok_10000); cbn; lia|lia]. }
  unfold label_ok in H. apply andb_true_iff in H. destruct H as [H1 H2].
  apply Z.leb_le in H1. apply Z.leb_le in H2. lia.
Qed.

Lemma resolve_bad_annotation_ignored s c :
  (nc_anno c =? 1) = false ->
  resolve_strategy s c
  = resolve_strategy s (mkNodeCfg 0 (-1) (-1) (-1) (-1) (nc_l_cpu_kind c) (nc_l_cpu c) (nc_l_mem_kind c) (nc_l_mem c)).
Proof.
  intros H. unfold resolve_strategy.
  cbn [nc_anno nc_a_cpu_reclaim nc_a_mem_reclaim nc_a_cpu_thr nc_a_mem_thr nc_l_cpu_kind nc_l_cpu nc_l_mem_kind nc_l_mem].
  rewrite H. change (0 =? 1) with false. reflexivity.
Qed.
