(* C09 — raising any consumption input never raises the published amount. *)
From Coq Require Import List ZArith Bool Lia.
From Verif Require Import C09.Model C09.Spec C09.Proofs_Agg.
Import ListNotations.
Open Scope Z_scope.

Ltac split_andb :=
  repeat match goal with
  | H : _ && _ = true |- _ => apply andb_true_iff in H; destruct H
  end;
  repeat match goal with
  | H : (_ =? _) = true |- _ => apply Z.eqb_eq in H
  | H : (_ <=? _) = true |- _ => apply Z.leb_le in H
  | H : Bool.eqb _ _ = true |- _ => apply eqb_prop in H
  end.

(* ---------- the accumulator loop is monotone ---------- *)
Definition pv_le (p q : pv) : Prop :=
  v_active p = v_active q /\ v_hp p = v_hp q /\ v_has p = v_has q /\ v_lse p = v_lse q /\
  v_mhp p = v_mhp q /\ v_req p <= v_req q /\ v_used p <= v_used q /\ v_dang p <= v_dang q.
Definition agg_le (a c : agg) : Prop :=
  a_req a <= a_req c /\ a_used a <= a_used c /\ a_max a <= a_max c /\ a_dang a <= a_dang c.

Lemma agg_step_mono a c p q : agg_le a c -> pv_le p q -> agg_le (agg_step a p) (agg_step c q).
Proof.
  unfold agg_le, pv_le, agg_step.
  intros (H1 & H2 & H3 & H4) (E1 & E2 & E3 & E4 & E5 & L1 & L2 & L3).
  rewrite <- E1, <- E2, <- E3, <- E4, <- E5.
  destruct (v_active p), (v_hp p), (v_has p), (v_lse p), (v_mhp p); cbn; lia.
Qed.

Lemma fold_agg_mono ps qs : Forall2 pv_le ps qs ->
  forall a c, agg_le a c -> agg_le (fold_left agg_step ps a) (fold_left agg_step qs c).
Proof.
  induction 1 as [|p q ps qs Hpq _ IH]; intros a c Hac; cbn [fold_left]; [exact Hac|].
  apply IH. apply agg_step_mono; assumption.
Qed.

Definition dang_le (d e : bool * Z) : Prop := fst d = fst e /\ snd d <= snd e.
Lemma dang_sum_mono ds es : Forall2 dang_le ds es ->
  sumZ (map dang_amount ds) <= sumZ (map dang_amount es).
Proof.
  induction 1 as [|d e ds es [H1 H2] _ IH]; cbn [map]; [lia|].
  rewrite !sumZ_cons. unfold dang_amount at 1 3. rewrite <- H1. destruct (fst d); lia.
Qed.

Lemma aggregate_mono ps qs ds es :
  Forall2 pv_le ps qs -> Forall2 dang_le ds es -> agg_le (aggregate ps ds) (aggregate qs es).
Proof.
  intros Hp Hd. unfold aggregate.
  assert (agg_le agg0 agg0) as H0 by (unfold agg_le; lia).
  pose proof (fold_agg_mono ps qs Hp agg0 agg0 H0) as (H1 & H2 & H3 & H4).
  pose proof (dang_sum_mono ds es Hd).
  unfold agg_le. cbn [a_req a_used a_max a_dang]. lia.
Qed.

(* ---------- the policy formula is antitone in every consumption argument ---------- *)
Lemma min_quant_mono a a' c : a <= a' -> min_quant a c <= min_quant a' c.
Proof. rewrite !min_quant_min. lia. Qed.

Lemma by_policy_antitone policy thr cap margin margin' reserved reserved' sys sys' a a' :
  margin <= margin' -> reserved <= reserved' -> sys <= sys' -> agg_le a a' ->
  by_policy policy thr cap margin' reserved' sys' a' <= by_policy policy thr cap margin reserved sys a.
Proof.
  intros Hm Hr Hs (H1 & H2 & H3 & _).
  unfold by_policy.
  assert (forall x y, x <= y -> with_thr thr x <= with_thr thr y) as Hw.
  { intros x y Hxy. unfold with_thr. destruct thr; [apply min_quant_mono|]; assumption. }
  apply Hw.
  destruct (policy =? 2); [|destruct (policy =? 3)];
    unfold by_request, by_maxur, by_usage, clamp0; lia.
Qed.

Definition dim_le (d e : dim_in) : Prop :=
  d_policy d = d_policy e /\ d_thr d = d_thr e /\ d_cap d = d_cap e /\
  d_margin d <= d_margin e /\ d_reserved d <= d_reserved e /\ d_sys d <= d_sys e /\
  Forall2 pv_le (d_pods d) (d_pods e) /\ Forall2 dang_le (d_dang d) (d_dang e).

Theorem batch_dim_antitone d e : dim_le d e -> batch_dim e <= batch_dim d.
Proof.
  intros (Hp & Ht & Hc & Hm & Hr & Hs & Hpods & Hdang). unfold batch_dim.
  rewrite <- Hp, <- Ht, <- Hc.
  apply by_policy_antitone; try assumption. apply aggregate_mono; assumption.
Qed.

(* ---------- from the input relation of Spec.v to [dim_le] on the node dimensions ---------- *)
Lemma all2_Forall2 {A} (f : A -> A -> bool) (P : A -> A -> Prop) :
  (forall x y, f x y = true -> P x y) ->
  forall l1 l2, all2 f l1 l2 = true -> Forall2 P l1 l2.
Proof.
  intros Hf. induction l1 as [|x l1 IH]; intros [|y l2] H; cbn in H; try discriminate.
  - constructor.
  - apply andb_true_iff in H. destruct H as [H1 H2]. constructor; [apply Hf; exact H1|apply IH; exact H2].
Qed.

Lemma Forall2_map {A B} (P : A -> A -> Prop) (Q : B -> B -> Prop) (g : A -> B) :
  (forall x y, P x y -> Q (g x) (g y)) ->
  forall l1 l2, Forall2 P l1 l2 -> Forall2 Q (map g l1) (map g l2).
Proof. intros H l1 l2. induction 1; cbn; constructor; auto. Qed.

Definition pod_le (p q : pod) : Prop := pod_leb p q = true.

Lemma pod_le_flags p q : pod_le p q ->
  p_active p = p_active q /\ p_hp p = p_hp q /\ p_lse p = p_lse q /\ p_mhp p = p_mhp q /\
  p_has p = p_has q /\ p_numa p = p_numa q /\
  p_req_cpu p <= p_req_cpu q /\ p_req_mem p <= p_req_mem q /\
  p_use_cpu p <= p_use_cpu q /\ p_use_mem p <= p_use_mem q.
Proof.
  unfold pod_le, pod_leb. intros H. split_andb.
  unfold p_active, p_hp, p_prio, p_lse, p_mhp.
  repeat match goal with H : _ = _ |- _ => rewrite H end.
  repeat split; try reflexivity; assumption.
Qed.

Lemma pv_cpu_le p q : pod_le p q -> pv_le (pv_cpu p) (pv_cpu q).
Proof.
  intros H. apply pod_le_flags in H. unfold pv_le, pv_cpu. cbn. tauto.
Qed.
Lemma pv_mem_le p q : pod_le p q -> pv_le (pv_mem p) (pv_mem q).
Proof.
  intros H. apply pod_le_flags in H. unfold pv_le, pv_mem. cbn. tauto.
Qed.

Definition amt_le (a c : Z * (Z * Z)) : Prop := amt_leb a c = true.
Lemma amt_le_parts a c : amt_le a c ->
  fst a = fst c /\ fst (snd a) <= fst (snd c) /\ snd (snd a) <= snd (snd c).
Proof. unfold amt_le, amt_leb. intros H. split_andb. auto. Qed.

Lemma dang_cpu_le a c : amt_le a c -> dang_le (dang_cpu a) (dang_cpu c).
Proof. intros H. apply amt_le_parts in H. unfold dang_le, dang_cpu. cbn. destruct H as (-> & ? & ?). auto. Qed.
Lemma dang_mem_le a c : amt_le a c -> dang_le (dang_mem a) (dang_mem c).
Proof. intros H. apply amt_le_parts in H. unfold dang_le, dang_mem. cbn. destruct H as (-> & ? & ?). auto. Qed.

Lemma apps_cpu_mono res l1 l2 : Forall2 amt_le l1 l2 -> apps_cpu res l1 <= apps_cpu res l2.
Proof.
  unfold apps_cpu. induction 1 as [|a c l1 l2 H _ IH]; cbn [map]; [lia|].
  rewrite !sumZ_cons. apply amt_le_parts in H. destruct H as (-> & ? & ?).
  destruct (hostapp_counts res (fst c)); lia.
Qed.
Lemma apps_mem_mono res l1 l2 : Forall2 amt_le l1 l2 -> apps_mem res l1 <= apps_mem res l2.
Proof.
  unfold apps_mem. induction 1 as [|a c l1 l2 H _ IH]; cbn [map]; [lia|].
  rewrite !sumZ_cons. apply amt_le_parts in H. destruct H as (-> & ? & ?).
  destruct (hostapp_counts res (fst c)); lia.
Qed.

Lemma strategy_eqb_eq s t : strategy_eqb s t = true -> s = t.
Proof.
  unfold strategy_eqb. intros H. split_andb. destruct s, t. cbn in *. congruence.
Qed.

Theorem input_le_node a b : input_leb a b = true ->
  dim_le (node_cpu a) (node_cpu b) /\ dim_le (node_mem a) (node_mem b).
Proof.
  unfold input_leb. intros H. split_andb.
  match goal with H : strategy_eqb _ _ = true |- _ => apply strategy_eqb_eq in H; rename H into Hs end.
  repeat match goal with
  | H : all2 pod_leb _ _ = true |- _ =>
      apply (all2_Forall2 pod_leb pod_le (fun x y h => h)) in H; rename H into Hpods
  | H : all2 amt_leb (b_apps _) _ = true |- _ =>
      apply (all2_Forall2 amt_leb amt_le (fun x y h => h)) in H; rename H into Happs
  | H : all2 amt_leb (b_dang _) _ = true |- _ =>
      apply (all2_Forall2 amt_leb amt_le (fun x y h => h)) in H; rename H into Hdang
  end.
  assert (reserved_cpu a <= reserved_cpu b) as Hrc.
  { unfold reserved_cpu, anno_cpu, kubelet_reserved.
    match goal with H : b_anno a = b_anno b |- _ => rewrite <- H end.
    match goal with H : (b_anno_rcpus a =? 0) = (b_anno_rcpus b =? 0) |- _ => rewrite <- H end.
    destruct (b_anno a), (b_anno_rcpus a =? 0); cbn [negb]; lia. }
  assert (reserved_mem a <= reserved_mem b) as Hrm.
  { unfold reserved_mem, kubelet_reserved.
    match goal with H : b_anno a = b_anno b |- _ => rewrite <- H end.
    destruct (b_anno a); lia. }
  pose proof (apps_cpu_mono 3 _ _ Happs). pose proof (apps_mem_mono 3 _ _ Happs).
  split; unfold dim_le, node_cpu, node_mem; cbn [d_policy d_thr d_cap d_margin d_reserved d_sys d_pods d_dang];
    rewrite <- Hs;
    repeat match goal with H : b_cap_cpu a = _ |- _ => rewrite <- H | H : b_cap_mem a = _ |- _ => rewrite <- H end.
  - split; [reflexivity|]. split; [reflexivity|]. split; [reflexivity|]. split; [lia|].
    split; [exact Hrc|]. split; [unfold sys_cpu; lia|].
    split; [eapply Forall2_map; [exact pv_cpu_le|exact Hpods]
           |eapply Forall2_map; [exact dang_cpu_le|exact Hdang]].
  - split; [reflexivity|]. split; [reflexivity|]. split; [reflexivity|]. split; [lia|].
    split; [exact Hrm|]. split; [unfold sys_mem; lia|].
    split; [eapply Forall2_map; [exact pv_mem_le|exact Hpods]
           |eapply Forall2_map; [exact dang_mem_le|exact Hdang]].
Qed.

Theorem node_antitone a b : input_leb a b = true ->
  batch_dim (node_cpu b) <= batch_dim (node_cpu a) /\ batch_dim (node_mem b) <= batch_dim (node_mem a).
Proof.
  intros H. apply input_le_node in H. destruct H as [Hc Hm].
  split; apply batch_dim_antitone; assumption.
Qed.
