(* C09 — exported theorems only: each is closed by [exact] and followed by Print Assumptions. *)
From Coq Require Import List ZArith Bool.
From Verif Require Import C09.Model C09.Spec C09.Proofs.
Open Scope Z_scope.

Theorem c09_clamp_nonneg : forall x, 0 <= clamp0 x.
Proof. exact clamp0_nonneg. Qed.
Print Assumptions c09_clamp_nonneg.
