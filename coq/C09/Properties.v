(* C09 — exported theorems only: each is closed by [exact] and followed by Print Assumptions. *)
From Coq Require Import List ZArith Bool Permutation.
From Verif Require Import C09.Model C09.Spec C09.Proofs_Agg C09.Proofs_Float C09.Proofs_Mono C09.Proofs C09.Proofs_Mid C09.Proofs_FloatAcc C09.Proofs_FloatMono C09.Proofs_ZoneMono C09.Proofs_Perm C09.Cfg C09.CfgSpec C09.Proofs_Cfg C09.Publish.
Import ListNotations.
Open Scope Z_scope.

(* --- main theorem: for every input with non-negative capacities the observable of the model
       (what Extract runs) passes the decision procedure that bin/check evaluates on the
       implementation's observable, i.e. C09 (clauses as implemented) holds --- *)
Theorem c09_batch_holds : forall b, input_wf b = true -> C09_holds b (run_batch b).
Proof. exact run_batch_holds. Qed.
Print Assumptions c09_batch_holds.

Theorem c09_batch_code : forall b, input_wf b = true -> batch_code false b (run_batch b) = 0.
Proof. exact run_batch_code. Qed.
Print Assumptions c09_batch_code.

Theorem c09_code_decides : forall strict b obs, batch_code strict b obs = 0 <-> batch_spec strict b obs.
Proof. exact batch_code_spec. Qed.
Print Assumptions c09_code_decides.

(* --- refinement: the accumulator loop equals the from-scratch sums --- *)
Theorem c09_aggregate_refines : forall pods dang,
  let a := aggregate pods dang in
  let um := sumZ (map orphan pods) + sumZ (map dang_amount dang) in
  a_req a = sumZ (map (charge 2) pods) /\
  a_used a = sumZ (map (charge 1) pods) + um /\
  a_max a = sumZ (map (charge 3) pods) + um /\
  a_dang a = um.
Proof. exact aggregate_spec. Qed.
Print Assumptions c09_aggregate_refines.

(* the order of pods / reported metrics (Go map iteration over unmatched metrics) is irrelevant *)
Theorem c09_perm_invariant : forall ps qs ds es,
  Permutation ps qs -> Permutation ds es -> aggregate ps ds = aggregate qs es.
Proof. exact aggregate_perm. Qed.
Print Assumptions c09_perm_invariant.

Theorem c09_closed_form : forall d, batch_dim d = with_thr (d_thr d) (clamp0 (upper d)).
Proof. exact batch_dim_closed. Qed.
Print Assumptions c09_closed_form.

(* --- the bounds, for any scope (node or NUMA zone) and dimension --- *)
Theorem c09_nonneg : forall d, thr_nonneg d -> 0 <= batch_dim d.
Proof. exact batch_dim_nonneg. Qed.
Print Assumptions c09_nonneg.

Theorem c09_upper : forall d, batch_dim d <= Z.max 0 (upper d).
Proof. exact batch_dim_upper. Qed.
Print Assumptions c09_upper.

Theorem c09_cap : forall d c, d_thr d = Some c -> batch_dim d <= c.
Proof. exact batch_dim_cap. Qed.
Print Assumptions c09_cap.

Theorem c09_cap_term_nonneg : forall thr cap c, 0 <= cap -> thr_term thr cap = Some c -> 0 <= c.
Proof. exact thr_term_nonneg. Qed.
Print Assumptions c09_cap_term_nonneg.

(* the bound by the letter of the property text (always the larger of system usage and
   reservation): whenever the request policy is not in force, or system usage is within the
   reservation; whole observable: whenever memoryCalculatePolicy is not "request" *)
Theorem c09_upper_text : forall d,
  (d_policy d =? 2) = false \/ d_sys d <= d_reserved d -> batch_dim d <= Z.max 0 (upper_text d).
Proof. exact batch_dim_text. Qed.
Print Assumptions c09_upper_text.

Theorem c09_batch_text_holds : forall b,
  input_wf b = true -> (eff_policy_mem (s_mem_policy (b_s b)) =? 2) = false ->
  C09_text_holds b (run_batch b).
Proof. exact run_batch_text_holds. Qed.
Print Assumptions c09_batch_text_holds.

(* ... and refuted under memoryCalculatePolicy = "request" (finding C09-request-policy-system-usage) *)
Theorem c09_text_request_refuted :
  input_wf witness_request_sys = true /\
  run_batch witness_request_sys = [0; 1000; 100; 1000; 100; 0] /\
  ~ C09_text_holds witness_request_sys (run_batch witness_request_sys).
Proof. exact text_request_refuted. Qed.
Print Assumptions c09_text_request_refuted.

(* --- raising a consumption input never raises the published amount --- *)
Theorem c09_antitone_policy :
  forall policy thr cap margin margin' reserved reserved' sys sys' a a',
  margin <= margin' -> reserved <= reserved' -> sys <= sys' -> agg_le a a' ->
  by_policy policy thr cap margin' reserved' sys' a' <= by_policy policy thr cap margin reserved sys a.
Proof. exact by_policy_antitone. Qed.
Print Assumptions c09_antitone_policy.

Theorem c09_antitone_dim : forall d e, dim_le d e -> batch_dim e <= batch_dim d.
Proof. exact batch_dim_antitone. Qed.
Print Assumptions c09_antitone_dim.

Theorem c09_antitone : forall a b, input_leb a b = true ->
  batch_dim (node_cpu b) <= batch_dim (node_cpu a) /\ batch_dim (node_mem b) <= batch_dim (node_mem a).
Proof. exact node_antitone. Qed.
Print Assumptions c09_antitone.

(* --- pods that have not reported metrics yet are charged at their request --- *)
Theorem c09_charge_request : forall d ps1 ps2 p,
  charged p = true -> v_has p = false ->
  hp_total (with_pods d (ps1 ++ p :: ps2)) = hp_total (with_pods d (ps1 ++ ps2)) + v_req p.
Proof. exact charge_request_insert. Qed.
Print Assumptions c09_charge_request.

(* --- stale node metrics withdraw the resource --- *)
Theorem c09_degrade : forall b, stale b = true -> run_batch b = withdrawn.
Proof. exact run_batch_stale. Qed.
Print Assumptions c09_degrade.

Theorem c09_stale_iff : forall b,
  stale b = true <-> b_age b < 0 \/ s_degrade (b_s b) * 60 < b_age b.
Proof. exact stale_iff. Qed.
Print Assumptions c09_stale_iff.

(* --- NUMA zones obey the same bounds per zone --- *)
Theorem c09_zone : forall b n zs, forallb zone_nonneg zs = true ->
  forall i, zones_spec false b n i zs (zones_out b n i zs).
Proof. exact zones_out_spec. Qed.
Print Assumptions c09_zone.

(* --- the percentage cap is evaluated in binary64 by the code (and exactly so by the model);
       it never rounds above the exact percentage: for capacity*percent/100 <= 2^44 (16 Ti) --- *)
Theorem c09_pct_le_exact : forall v p,
  0 <= v < 2 ^ 53 -> 0 <= p < 2 ^ 53 -> v * p <= 100 * 2 ^ 44 -> 100 * mul_ratio v (f_pct p) <= v * p.
Proof. exact mul_pct_le_exact. Qed.
Print Assumptions c09_pct_le_exact.

Theorem c09_cap_exact : forall d thr cap,
  d_thr d = thr_term thr cap -> 0 <= thr < 2 ^ 53 -> 0 <= cap < 2 ^ 53 -> cap * thr <= 100 * 2 ^ 44 ->
  100 * batch_dim d <= cap * thr.
Proof. exact batch_dim_le_exact_pct. Qed.
Print Assumptions c09_cap_exact.

(* --- binary64 rounding is monotone, hence so are DivideResourceList, the percentage cap and the
       safety margin; NUMA-zone amounts and the whole observable are antitone as well --- *)
Theorem c09_divide_mono : forall v1 v2 n, 0 <= v1 <= v2 -> 0 < n -> div_ceil v1 n <= div_ceil v2 n.
Proof. exact div_ceil_mono. Qed.
Print Assumptions c09_divide_mono.

Theorem c09_pct_mono : forall v1 v2 p1 p2, 0 <= v1 <= v2 -> 0 <= p1 <= p2 ->
  mul_ratio v1 (f_pct p1) <= mul_ratio v2 (f_pct p2).
Proof. exact mul_pct_mono. Qed.
Print Assumptions c09_pct_mono.

Theorem c09_zone_antitone : forall a b n i z,
  input_leb a b = true -> input_nonneg a = true -> (0 < n)%nat ->
  batch_dim (zone_cpu b n i z) <= batch_dim (zone_cpu a n i z) /\
  batch_dim (zone_mem b n i z) <= batch_dim (zone_mem a n i z).
Proof. exact zone_antitone. Qed.
Print Assumptions c09_zone_antitone.

(* the metamorphic clause (5) that bin/check evaluates on the implementation's two observables
   holds for the model's two observables *)
Theorem c09_antitone_observable : forall a b,
  input_nonneg a = true -> antitone_code a b (run_batch a) (run_batch b) = 0.
Proof. exact run_batch_antitone. Qed.
Print Assumptions c09_antitone_observable.

(* lowering a reclaim threshold percentage = raising the safety margin *)
Theorem c09_antitone_reclaim : forall b cr mr,
  0 <= b_cap_cpu b -> 0 <= b_cap_mem b ->
  cr <= s_cpu_reclaim (b_s b) <= 100 -> mr <= s_mem_reclaim (b_s b) <= 100 ->
  batch_dim (node_cpu (with_reclaim b cr mr)) <= batch_dim (node_cpu b) /\
  batch_dim (node_mem (with_reclaim b cr mr)) <= batch_dim (node_mem b).
Proof. exact reclaim_antitone. Qed.
Print Assumptions c09_antitone_reclaim.

Theorem c09_reclaim_observable : forall a b,
  input_wf a = true -> reclaim_code a b (run_batch a) (run_batch b) = 0.
Proof. exact run_batch_reclaim. Qed.
Print Assumptions c09_reclaim_observable.

(* --- what Prepare publishes: the calculated amount minus the koord-batch third-party allocations of the
       node annotation, clamped at zero — still inside every bound, and antitone in the allocation (clause 7) --- *)
Theorem c09_published_holds : forall b tp,
  input_wf b = true -> tp_nonneg tp = true ->
  C09_holds b (apply_tp tp (run_batch b)) /\ batch_code false b (apply_tp tp (run_batch b)) = 0.
Proof. exact (fun b tp H1 H2 => conj (published_holds b tp H1 H2) (published_code b tp H1 H2)). Qed.
Print Assumptions c09_published_holds.

Theorem c09_published_antitone : forall a b ta tb,
  pub_antitone_code a b ta tb (apply_tp ta (run_batch a)) (apply_tp tb (run_batch b)) = 0.
Proof. exact published_antitone. Qed.
Print Assumptions c09_published_antitone.

Theorem c09_metamorphic_ignore_published : forall a b ta tb oa ob,
  antitone_code a b (apply_tp ta oa) (apply_tp tb ob) = antitone_code a b oa ob /\
  reclaim_code a b (apply_tp ta oa) (apply_tp tb ob) = reclaim_code a b oa ob.
Proof. exact (fun a b ta tb oa ob => conj (antitone_code_tp a b ta tb oa ob) (reclaim_code_tp a b ta tb oa ob)). Qed.
Print Assumptions c09_metamorphic_ignore_published.

(* --- cpu normalization (round 5): Prepare amplifies the published batch-cpu by the ratio of the NodeResource,
       ONCE however often Prepare runs on the same NodeResource (clause 8, judged on the amounts published by
       the first and by a repeated Prepare); every other bound is unaffected --- *)
Theorem c09_norm_published_once : forall r tp b,
  norm_code r tp (pub_core r tp (run_batch b)) (pub_extra r tp (run_batch b)) = 0.
Proof. exact pub_norm_code. Qed.
Print Assumptions c09_norm_published_once.

Theorem c09_norm_core_holds : forall r tp b,
  input_wf b = true -> tp_nonneg tp = true ->
  C09_holds b (mask_pub r (pub_core r tp (run_batch b))) /\
  batch_code false b (mask_pub r (pub_core r tp (run_batch b))) = 0.
Proof. exact (fun r tp b H1 H2 => conj (pub_core_holds r tp b H1 H2) (pub_core_code r tp b H1 H2)). Qed.
Print Assumptions c09_norm_core_holds.

(* --- the mid tier --- *)
Theorem c09_mid_le_threshold : forall m, 0 <= m_cap_cpu m -> 0 <= m_cap_mem m ->
  mid_ok (mid_thr_cpu m) (mid_bound_cpu m) (mid_cpu m) /\
  mid_ok (mid_thr_mem m) (mid_bound_mem m) (mid_mem m).
Proof. exact (fun m H1 H2 => conj (mid_cpu_ok m H1) (mid_mem_ok m H2)). Qed.
Print Assumptions c09_mid_le_threshold.

Theorem c09_mid_holds : forall m, minput_wf m = true ->
  mid_holds m (run_mid m) /\ mid_code m (run_mid m) = 0.
Proof. exact run_mid_holds. Qed.
Print Assumptions c09_mid_holds.

Theorem c09_mid_code_sound : forall m obs, mid_code m obs = 0 -> mid_holds m obs.
Proof. exact mid_code_sound. Qed.
Print Assumptions c09_mid_code_sound.

Theorem c09_mid_degrade : forall m, mstale m = true -> run_mid m = withdrawn.
Proof. exact run_mid_stale. Qed.
Print Assumptions c09_mid_degrade.

(* --- strategy resolution (sloconfig.GetNodeColocationStrategy as modelled): the reclaim-ratio labels
       win whatever the annotation is, and an annotation that does not parse changes nothing --- *)
Theorem c09_resolve_label_precedence : forall s c,
  nc_l_cpu_kind c = 1 -> nc_l_mem_kind c = 1 ->
  s_cpu_reclaim (resolve_strategy s c) = ratio_label_pct (nc_l_cpu c) /\
  s_mem_reclaim (resolve_strategy s c) = ratio_label_pct (nc_l_mem c).
Proof. exact resolve_label_precedence. Qed.
Print Assumptions c09_resolve_label_precedence.

(* a label in any accepted spelling / with 1-4 decimals overrides; int64(v*100) rounds DOWN (never more
   than the ratio written on the node, less than one percent lost): exhaustive kernel computation on the
   exact binary64 model for labels up to 10.0 (four decimals: up to 1.6383) *)
Theorem c09_resolve_label_precedence_k : forall s c,
  0 < label_scale (nc_l_cpu_kind c) -> 0 < label_scale (nc_l_mem_kind c) ->
  s_cpu_reclaim (resolve_strategy s c) = ratio_label_pct_k (label_scale (nc_l_cpu_kind c)) (nc_l_cpu c) /\
  s_mem_reclaim (resolve_strategy s c) = ratio_label_pct_k (label_scale (nc_l_mem_kind c)) (nc_l_mem c).
Proof. exact resolve_label_precedence_k. Qed.
Print Assumptions c09_resolve_label_precedence_k.

Theorem c09_label_rounds_down : forall kind h,
  0 < label_scale kind -> 0 <= h <= 10 * label_scale kind -> h < 16384 ->
  let p := ratio_label_pct_k (label_scale kind) h in
  label_scale kind * p <= 100 * h <= label_scale kind * (p + 1).
Proof. exact label_rounds_down. Qed.
Print Assumptions c09_label_rounds_down.

Theorem c09_resolve_bad_annotation_ignored : forall s c,
  (nc_anno c =? 1) = false ->
  resolve_strategy s c
  = resolve_strategy s (mkNodeCfg 0 (-1) (-1) (-1) (-1) (nc_l_cpu_kind c) (nc_l_cpu c) (nc_l_mem_kind c) (nc_l_mem c)).
Proof. exact resolve_bad_annotation_ignored. Qed.
Print Assumptions c09_resolve_bad_annotation_ignored.

(* --- the configuration path (stream "cfg"): ConfigMap events -> handler cache -> strategy of a node ---
   for EVERY history of ConfigMap events (create / update with any content incl. unparsable and invalid,
   foreign, delete) and reconciles of nodes with any labels, every reconcile's observable obeys C09
   under the strategy CONFIGURED for that node: the last accepted ConfigMap, layered
   default < cluster < first matching nodeConfigs entry (CfgSpec.configured), then the node's own
   annotation / labels.  [cfg_code] is what bin/check evaluates on the implementation's observable. *)
Theorem c09_cfg_holds : forall ops b nc,
  input_wf b = true -> cfg_code ops b nc (run_cfg ops b nc) = 0.
Proof. exact run_cfg_code. Qed.
Print Assumptions c09_cfg_holds.

Theorem c09_cfg_code_sound : forall ops b nc obs,
  cfg_code ops b nc obs = 0 -> exists chunks, concat chunks = obs /\ C09_cfg_holds ops b nc chunks.
Proof. exact cfg_code_sound. Qed.
Print Assumptions c09_cfg_code_sound.

(* the handler's cache after any history is the compiled form of the accepted content ... *)
Theorem c09_cfg_cache_refines : forall b nc ops, inv (final_state b nc ops) (final_ref ops).
Proof. exact cache_refines. Qed.
Print Assumptions c09_cfg_cache_refines.

(* ... and what GetNodeColocationStrategy then serves (two chained JSON overlays, one of them on the
   already merged copy) is the declarative "first present wins" layering *)
Theorem c09_cfg_lookup_layered : forall st c pool tier,
  compiled st c -> lookup st pool tier = configured c pool tier.
Proof. exact lookup_configured. Qed.
Print Assumptions c09_cfg_lookup_layered.

Theorem c09_cfg_layered_overlay : forall e c, layered [e; c] = merge (merge default_patch c) e.
Proof. exact layered_two. Qed.
Print Assumptions c09_cfg_layered_overlay.

(* entries of other pools — before or after the first matching one — never influence a node *)
Theorem c09_cfg_isolated : forall c pre e post pool tier,
  (forall x, In x pre -> sel_matches (fst x) pool tier = false) ->
  sel_matches (fst e) pool tier = true ->
  configured (c, pre ++ e :: post) pool tier = configured (c, [e]) pool tier.
Proof. exact configured_isolated. Qed.
Print Assumptions c09_cfg_isolated.

Theorem c09_cfg_nomatch : forall c ns pool tier,
  (forall x, In x ns -> sel_matches (fst x) pool tier = false) ->
  configured (c, ns) pool tier = layered [c].
Proof. exact configured_nomatch. Qed.
Print Assumptions c09_cfg_nomatch.

(* an Update whose Data equals the old Data is dropped by the handler: harmless, re-syncing is a no-op *)
Theorem c09_cfg_sync_idem : forall st d, sync_data (sync_data st d) d = sync_data st d.
Proof. exact sync_idem. Qed.
Print Assumptions c09_cfg_sync_idem.

(* invariant over histories (was a generator assumption): the strategy a node is calculated with is
   always one IsColocationStrategyValid accepts, with policies / reclaim thresholds / degrade time present *)
Theorem c09_cfg_served_strategy_valid : forall b nc ops pool tier,
  let s := to_strategy (lookup (final_state b nc ops) pool tier) in
  strategy_valid s = true /\ s_cpu_policy s <> 0 /\ s_mem_policy s <> 0.
Proof. exact served_strategy_valid. Qed.
Print Assumptions c09_cfg_served_strategy_valid.

(* --- non-vacuity --- *)
Example c09_wf_inhabited : input_wf witness_request_sys = true.
Proof. reflexivity. Qed.
Example c09_input_le_inhabited :
  input_leb witness_request_sys
    (mkB (mkStrategy 1 2 100 100 (-1) (-1) 15) 0 1000 100 1000 100 false 0 0 0 0 60 [] [] [] []) = true.
Proof. reflexivity. Qed.
(* two pools, the second entry only tunes the degrade time: its nodes keep the cluster's 60 % *)
Example c09_cfg_two_pools :
  acceptable witness_cm = Some (cm_cluster witness_cm, cm_nodes witness_cm) /\
  configured (cm_cluster witness_cm, cm_nodes witness_cm) 1 0 = mkPatch 1 1 95 95 (-1) (-1) 15 300 /\
  configured (cm_cluster witness_cm, cm_nodes witness_cm) 2 0 = mkPatch 1 1 60 60 (-1) (-1) 10 300 /\
  configured (cm_cluster witness_cm, cm_nodes witness_cm) 3 0 = mkPatch 1 1 60 60 (-1) (-1) 15 300.
Proof. exact witness_configured. Qed.
