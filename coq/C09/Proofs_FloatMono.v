(* C09 — the binary64 operations of Model.v are monotone (round-to-nearest-even is), hence
   DivideResourceList, the safety margin and the percentage cap are monotone in their inputs. *)
From Coq Require Import List ZArith Bool Lia QArith Qpower Qabs Lqa.
From Verif Require Import C09.Model C09.Proofs_Float C09.Proofs_FloatAcc.
Import ListNotations.
Open Scope Z_scope.

(* ---------- ties go to the even mantissa ---------- *)
Lemma rnd_qr_tie q r den N :
  0 < den -> N = den * q + r -> 0 <= r < den ->
  2 * Z.abs (rnd_qr q r den * den - N) = den -> Z.even (rnd_qr q r den) = true.
Proof.
  intros Hd HN Hr. unfold rnd_qr.
  destruct (den <? 2 * r) eqn:E1; cbn [orb].
  - apply Z.ltb_lt in E1. intros H. subst N. exfalso. nia.
  - apply Z.ltb_ge in E1. destruct (2 * r =? den) eqn:E2; cbn [andb].
    + apply Z.eqb_eq in E2. intros _. destruct (Z.odd q) eqn:Eo.
      * rewrite Z.even_add. rewrite <- Z.negb_odd, Eo. reflexivity.
      * rewrite <- Z.negb_odd, Eo. reflexivity.
    + apply Z.eqb_neq in E2. intros H. subst N. exfalso. nia.
Qed.

Lemma rne_pos_tie n d m e :
  0 < n -> 0 < d -> rne_pos n d = (m, e) ->
  2 * Z.abs (m * Dsc d (- e) - Nsc n (- e)) = Dsc d (- e) -> Z.even m = true.
Proof.
  intros Hn Hd. unfold rne_pos.
  destruct (n =? 0) eqn:E0; [apply Z.eqb_eq in E0; lia|].
  set (s0 := 52 - (Z.log2 n - Z.log2 d)) in *.
  destruct (scaled_div n d s0) as [[q0 r0] den0] eqn:S0.
  apply (scaled_div_spec _ _ _ _ _ _ Hd) in S0. destruct S0 as (-> & HN0 & Hr0).
  pose proof (Dsc_pos d s0 Hd) as HD0.
  destruct (q0 <? 4503599627370496) eqn:Eq.
  - destruct (scaled_div n d (s0 + 1)) as [[q r] den] eqn:S1.
    apply (scaled_div_spec _ _ _ _ _ _ Hd) in S1. destruct S1 as (-> & HN1 & Hr1).
    pose proof (Dsc_pos d (s0 + 1) Hd) as HD1.
    intros E. inversion E; subst. replace (- - (s0 + 1)) with (s0 + 1) by lia.
    apply (rnd_qr_tie q r _ _ HD1 HN1 Hr1).
  - intros E. inversion E; subst. replace (- - s0) with s0 by lia.
    apply (rnd_qr_tie q0 r0 _ _ HD0 HN0 Hr0).
Qed.

(* ---------- "a is x rounded": characterisation in rationals ---------- *)
Open Scope Q_scope.

Definition half : Q := 1 # 2.
Definition two52 : Q := 4503599627370496 # 1.
Definition two53 : Q := 9007199254740992 # 1.

Definition is_rnd (x : Q) (a : fl) : Prop :=
  (4503599627370496 <= fst a <= 9007199254740992)%Z /\
  let t := x * 2 ^ (- snd a) in
  two52 <= t /\ t < two53 /\
  - half <= t - inject_Z (fst a) <= half /\
  ((t - inject_Z (fst a) == half \/ t - inject_Z (fst a) == - half) -> Z.even (fst a) = true).

Lemma is_rnd_ext x x' a : x == x' -> is_rnd x a -> is_rnd x' a.
Proof.
  intros E (Hm & H1 & H2 & H3 & H4). split; [exact Hm|]. cbv zeta in *.
  rewrite <- E. tauto.
Qed.

Lemma is_rnd_scale x m e k : is_rnd x (m, e) -> is_rnd (x * 2 ^ k) (m, (e + k)%Z).
Proof.
  intros (Hm & H). split; [exact Hm|]. cbn [fst snd] in *. cbv zeta in *.
  assert (x * 2 ^ k * 2 ^ (- (e + k)) == x * 2 ^ (- e)) as E.
  { replace (- (e + k))%Z with (- e + - k)%Z by lia. rewrite pow2_add, (pow2_opp k).
    pose proof (pow2_pos k) as Hk. set (y := 2 ^ k) in *. clearbody y.
    set (z := 2 ^ (- e)). clearbody z. field. lra. }
  rewrite E. exact H.
Qed.

Lemma rne_pos_is_rnd n d m e : (0 < n)%Z -> (0 < d)%Z -> rne_pos n d = (m, e) ->
  is_rnd (inject_Z n / inject_Z d) (m, e).
Proof.
  intros Hn Hd E. pose proof (rne_pos_spec n d m e Hn Hd E) as H. cbv zeta in H.
  destruct H as (HD & Herr & [Hlo Hhi] & Hm).
  pose proof (rne_pos_tie n d m e Hn Hd E) as Htie.
  pose proof (sc_ratio n d (- e) Hd) as Hr.
  set (N := Nsc n (- e)) in *. set (D := Dsc d (- e)) in *.
  change (2 ^ 52)%Z with 4503599627370496%Z in *. change (2 ^ 53)%Z with 9007199254740992%Z in *.
  split; [exact Hm|]. cbn [fst snd]. cbv zeta.
  assert (0 < inject_Z D) as HD' by (change 0 with (inject_Z 0); rewrite <- Zlt_Qlt; exact HD).
  assert (0 < inject_Z d) as Hd' by (change 0 with (inject_Z 0); rewrite <- Zlt_Qlt; exact Hd).
  (* t = N / D *)
  assert (inject_Z n / inject_Z d * 2 ^ (- e) == inject_Z N / inject_Z D) as Et.
  { assert (0 < inject_Z d * inject_Z D) as Hprod by (apply Qmult_lt_0_compat; assumption).
    apply (Qmult_inj_r _ _ (inject_Z d * inject_Z D)); [lra|].
    setoid_replace (inject_Z N / inject_Z D * (inject_Z d * inject_Z D))
      with (inject_Z N * inject_Z d) by (field; lra).
    rewrite Hr. field. lra. }
  rewrite Et.
  rewrite Zle_Qle, inject_Z_mult in Hlo. rewrite Zlt_Qlt, inject_Z_mult in Hhi.
  change (inject_Z 4503599627370496) with two52 in Hlo.
  change (inject_Z 9007199254740992) with two53 in Hhi.
  set (N' := inject_Z N) in *. set (D' := inject_Z D) in *. set (m' := inject_Z m) in *.
  assert (two52 <= N' / D') as B1.
  { apply Qle_shift_div_l; [exact HD'|exact Hlo]. }
  assert (N' / D' < two53) as B2.
  { apply Qlt_shift_div_r; [exact HD'|exact Hhi]. }
  (* error: |N - m D| <= D/2 *)
  assert (- D <= 2 * (m * D - N) <= D)%Z as [Hz1 Hz2] by lia.
  rewrite Zle_Qle in Hz1, Hz2.
  rewrite inject_Z_opp in Hz1.
  rewrite inject_Z_mult, <- Z.add_opp_r, inject_Z_plus, inject_Z_mult, inject_Z_opp in Hz1, Hz2.
  change (inject_Z 2) with 2 in Hz1, Hz2. fold N' D' m' in Hz1, Hz2.
  assert (N' / D' - m' == (N' - m' * D') / D') as Ediff by (field; lra).
  split; [exact B1|]. split; [exact B2|].
  split.
  - rewrite Ediff. unfold half. split.
    + apply Qle_shift_div_l; [exact HD'|]. lra.
    + apply Qle_shift_div_r; [exact HD'|]. lra.
  - intros Hc. apply Htie.
    assert (2 * (N' - m' * D') == D' \/ 2 * (N' - m' * D') == - D') as Hc'.
    { rewrite Ediff in Hc. unfold half in Hc. destruct Hc as [Hc|Hc]; [left|right].
      - assert ((N' - m' * D') / D' * D' == (1 # 2) * D') as H0 by (rewrite Hc; reflexivity).
        rewrite Qmult_comm, Qmult_div_r in H0 by lra. lra.
      - assert ((N' - m' * D') / D' * D' == - (1 # 2) * D') as H0 by (rewrite Hc; reflexivity).
        rewrite Qmult_comm, Qmult_div_r in H0 by lra. lra. }
    destruct Hc' as [Hc'|Hc'].
    + assert (inject_Z (2 * (N - m * D)) == inject_Z D) as Hz.
      { rewrite inject_Z_mult. unfold Z.sub. rewrite inject_Z_plus, inject_Z_opp, inject_Z_mult.
        exact Hc'. }
      rewrite inject_Z_injective in Hz. lia.
    + assert (inject_Z (2 * (N - m * D)) == inject_Z (- D)) as Hz.
      { rewrite inject_Z_mult. unfold Z.sub. rewrite inject_Z_plus, !inject_Z_opp, inject_Z_mult.
        exact Hc'. }
      rewrite inject_Z_injective in Hz. lia.
Qed.

Lemma pow2_ge1 (k : Z) : (0 <= k)%Z -> 1 <= 2 ^ k.
Proof.
  intros H. rewrite <- pow2_inject by assumption. change 1 with (inject_Z 1). rewrite <- Zle_Qle.
  pose proof (Z.pow_pos_nonneg 2 k ltac:(lia) H). lia.
Qed.

Lemma pow2_mono (a b : Z) : (a <= b)%Z -> 2 ^ a <= 2 ^ b.
Proof.
  intros H. replace b with (a + (b - a))%Z by lia. rewrite pow2_add.
  pose proof (pow2_ge1 (b - a) ltac:(lia)). pose proof (pow2_pos a).
  set (x := 2 ^ a) in *. set (y := 2 ^ (b - a)) in *. clearbody x y. nra.
Qed.

Lemma pow2_succ (a : Z) : 2 ^ (a + 1) == 2 * 2 ^ a.
Proof. rewrite pow2_add. change (2 ^ 1) with 2. ring. Qed.

Lemma x_of_t x e : x == x * 2 ^ (- e) * 2 ^ e.
Proof.
  rewrite pow2_opp. pose proof (pow2_pos e). set (p := 2 ^ e) in *. clearbody p. field. lra.
Qed.

(* rounding is monotone *)
Lemma is_rnd_mono x1 x2 a1 a2 : is_rnd x1 a1 -> is_rnd x2 a2 -> x1 <= x2 -> val a1 <= val a2.
Proof.
  destruct a1 as [m1 e1], a2 as [m2 e2].
  intros (Hm1 & A1 & B1 & C1 & T1) (Hm2 & A2 & B2 & C2 & T2) Hx.
  cbn [fst snd] in *. cbv zeta in *.
  pose proof (x_of_t x1 e1) as X1. pose proof (x_of_t x2 e2) as X2.
  set (t1 := x1 * 2 ^ (- e1)) in *. set (t2 := x2 * 2 ^ (- e2)) in *.
  pose proof (pow2_pos e1) as P1. pose proof (pow2_pos e2) as P2.
  unfold val. cbn [fst snd].
  assert (inject_Z 4503599627370496 <= inject_Z m1 /\ inject_Z m1 <= inject_Z 9007199254740992) as [M1a M1b]
    by (rewrite <- !Zle_Qle; lia).
  assert (inject_Z 4503599627370496 <= inject_Z m2 /\ inject_Z m2 <= inject_Z 9007199254740992) as [M2a M2b]
    by (rewrite <- !Zle_Qle; lia).
  change (inject_Z 4503599627370496) with two52 in *. change (inject_Z 9007199254740992) with two53 in *.
  unfold two52, two53, half in *.
  (* e1 <= e2 *)
  assert (e1 <= e2)%Z as He.
  { destruct (Z.le_gt_cases e1 e2) as [|Hgt]; [assumption|exfalso].
    pose proof (pow2_mono (e2 + 1) e1 ltac:(lia)) as Hp. rewrite pow2_succ in Hp.
    set (p1 := 2 ^ e1) in *. set (p2 := 2 ^ e2) in *. clearbody p1 p2 t1 t2.
    assert (x2 < x1); [|lra]. rewrite X1, X2. nra. }
  destruct (Z.eq_dec e1 e2) as [->|Hne].
  - (* same exponent: compare mantissas *)
    set (p := 2 ^ e2) in *.
    assert (t1 <= t2) as Ht.
    { clearbody p t1 t2. assert (t1 * p <= t2 * p) by lra. nra. }
    assert (m1 <= m2)%Z as Hm.
    { destruct (Z.le_gt_cases m1 m2) as [|Hgt]; [assumption|exfalso].
      assert (inject_Z m2 + 1 <= inject_Z m1) as Hi
        by (change 1 with (inject_Z 1); rewrite <- inject_Z_plus, <- Zle_Qle; lia).
      assert (t1 - inject_Z m1 == - (1 # 2)) as E1 by (clearbody t1 t2; lra).
      assert (t2 - inject_Z m2 == 1 # 2) as E2 by (clearbody t1 t2; lra).
      assert (inject_Z m1 == inject_Z m2 + 1) as E3 by (clearbody t1 t2; lra).
      change 1 with (inject_Z 1) in E3. rewrite <- inject_Z_plus, inject_Z_injective in E3.
      specialize (T1 (or_intror E1)). specialize (T2 (or_introl E2)).
      subst m1. rewrite Z.even_add, T2 in T1. discriminate. }
    rewrite Zle_Qle in Hm. clearbody p. nra.
  - (* smaller exponent: below the binade of the other *)
    pose proof (pow2_mono (e1 + 1) e2 ltac:(lia)) as Hp. rewrite pow2_succ in Hp.
    set (p1 := 2 ^ e1) in *. set (p2 := 2 ^ e2) in *. clearbody p1 p2. nra.
Qed.

(* ---------- the operations round their exact result ---------- *)
Lemma f_of_int_is_rnd v : (0 < v)%Z -> is_rnd (inject_Z v) (f_of_int v) /\ (0 < fst (f_of_int v))%Z.
Proof.
  intros Hv. unfold f_of_int, rne.
  destruct (v <? 0)%Z eqn:E0; [apply Z.ltb_lt in E0; lia|].
  split; [|apply rne_pos_mant_pos; lia].
  destruct (rne_pos v 1) as [m e] eqn:E.
  apply (is_rnd_ext (inject_Z v / inject_Z 1)); [change (inject_Z 1) with 1; field|].
  apply rne_pos_is_rnd; [assumption|lia|assumption].
Qed.

Lemma f_div_is_rnd a b : (0 < fst a)%Z -> (0 < fst b)%Z ->
  is_rnd (val a / val b) (f_div a b) /\ (0 < fst (f_div a b))%Z.
Proof.
  destruct a as [ma ea], b as [mb eb]. cbn [fst]. intros Ha Hb.
  pose proof (val_f_div (ma, ea) (mb, eb) Ha Hb) as [_ Hpos]. split; [|exact Hpos].
  unfold f_div.
  destruct (mb <? 0)%Z eqn:E0; [apply Z.ltb_lt in E0; lia|].
  rewrite Z.abs_eq by lia. unfold rne.
  destruct (ma <? 0)%Z eqn:E1; [apply Z.ltb_lt in E1; lia|].
  destruct (rne_pos ma mb) as [m e] eqn:E.
  pose proof (rne_pos_is_rnd ma mb m e Ha Hb E) as H.
  apply (is_rnd_scale _ _ _ (ea + - eb)) in H.
  replace (e + ea - eb)%Z with (e + (ea + - eb))%Z by lia.
  eapply is_rnd_ext; [|exact H].
  unfold val. cbn [fst snd]. rewrite pow2_add, pow2_opp.
  assert (0 < inject_Z mb) as Hb' by (change 0 with (inject_Z 0); rewrite <- Zlt_Qlt; exact Hb).
  pose proof (pow2_pos ea) as Hx. pose proof (pow2_pos eb) as Hy.
  set (x := 2 ^ ea) in *. set (y := 2 ^ eb) in *. clearbody x y. field. lra.
Qed.

Lemma f_mul_is_rnd a b : (0 < fst a)%Z -> (0 < fst b)%Z ->
  is_rnd (val a * val b) (f_mul a b) /\ (0 < fst (f_mul a b))%Z.
Proof.
  destruct a as [ma ea], b as [mb eb]. cbn [fst]. intros Ha Hb. unfold f_mul.
  assert (0 < ma * mb)%Z as Hp by nia. unfold rne.
  destruct (ma * mb <? 0)%Z eqn:E1; [apply Z.ltb_lt in E1; lia|].
  pose proof (rne_pos_mant_pos (ma * mb) 1 Hp ltac:(lia)) as Hpos.
  destruct (rne_pos (ma * mb) 1) as [m e] eqn:E. cbn [fst] in *. split; [|exact Hpos].
  pose proof (rne_pos_is_rnd (ma * mb) 1 m e Hp ltac:(lia) E) as H.
  apply (is_rnd_scale _ _ _ (ea + eb)) in H.
  replace (e + ea + eb)%Z with (e + (ea + eb))%Z by lia.
  eapply is_rnd_ext; [|exact H].
  unfold val. cbn [fst snd]. rewrite pow2_add, inject_Z_mult. change (inject_Z 1) with 1. field.
Qed.

(* ---------- ceiling and truncation ---------- *)
Lemma f_ceil_spec a : (0 <= fst a)%Z -> val a <= inject_Z (f_ceil a) /\ inject_Z (f_ceil a) < val a + 1.
Proof.
  destruct a as [m e]. cbn [fst]. intros Hm. unfold f_ceil, val. cbn [fst snd].
  destruct (0 <=? e)%Z eqn:E.
  - apply Z.leb_le in E. rewrite Z.shiftl_mul_pow2, inject_Z_mult, pow2_inject by assumption. lra.
  - apply Z.leb_gt in E.
    assert (Z.shiftl 1 (- e) = 2 ^ (- e))%Z as Ek by (rewrite Z.shiftl_mul_pow2 by lia; lia).
    rewrite Ek.
    assert (0 < 2 ^ (- e))%Z as Hk by (apply Z.pow_pos_nonneg; lia).
    pose proof (Z_div_mod_eq_full (- m) (2 ^ (- e))) as Hdm.
    pose proof (Z.mod_pos_bound (- m) (2 ^ (- e)) Hk) as Hr.
    set (k := (2 ^ (- e))%Z) in *. set (c := (- (- m / k))%Z).
    assert (k * c - k < m <= k * c)%Z as [Hz1 Hz2] by (unfold c; lia).
    rewrite Zlt_Qlt in Hz1. rewrite Zle_Qle in Hz2.
    unfold Z.sub in Hz1. rewrite inject_Z_plus, inject_Z_opp, inject_Z_mult in Hz1.
    rewrite inject_Z_mult in Hz2.
    assert (inject_Z k == 2 ^ (- e)) as Ekq by (unfold k; apply pow2_inject; lia).
    rewrite Ekq in Hz1, Hz2.
    assert (2 ^ e == / 2 ^ (- e)) as Ee by (rewrite <- pow2_opp, Z.opp_involutive; reflexivity).
    rewrite Ee. pose proof (pow2_pos (- e)) as Hx. set (x := 2 ^ (- e)) in *. clearbody x.
    set (c' := inject_Z c) in *. set (m' := inject_Z m) in *. clearbody c' m'.
    split.
    + apply (Qmult_le_r _ _ x Hx). setoid_replace (m' * / x * x) with m' by (field; lra). lra.
    + apply (Qmult_lt_r _ _ x Hx).
      setoid_replace ((m' * / x + 1) * x) with (m' + x) by (field; lra). lra.
Qed.

Lemma f_ceil_mono a b : (0 <= fst a)%Z -> (0 <= fst b)%Z -> val a <= val b -> (f_ceil a <= f_ceil b)%Z.
Proof.
  intros Ha Hb H. pose proof (f_ceil_spec a Ha) as [A1 A2]. pose proof (f_ceil_spec b Hb) as [B1 B2].
  assert (inject_Z (f_ceil a) < inject_Z (f_ceil b) + 1) as Hlt by lra.
  change 1 with (inject_Z 1) in Hlt. rewrite <- inject_Z_plus, <- Zlt_Qlt in Hlt. lia.
Qed.

Lemma f_ceil_zero (e : Z) : f_ceil (0%Z, e) = 0%Z.
Proof. unfold f_ceil. destruct (0 <=? e)%Z; [apply Z.shiftl_0_l|reflexivity]. Qed.

Lemma div_ceil_zero n : div_ceil 0 n = 0%Z.
Proof.
  unfold div_ceil. change (f_of_int 0) with (0%Z, 0%Z). destruct (f_of_int n) as [mb eb].
  unfold f_div. destruct (mb <? 0)%Z; change (- 0)%Z with 0%Z;
    unfold rne; change (0 <? 0)%Z with false; unfold rne_pos; change (0 =? 0)%Z with true;
    apply f_ceil_zero.
Qed.

(* DivideResourceList is monotone in the amount *)
Theorem div_ceil_mono v1 v2 n : (0 <= v1 <= v2)%Z -> (0 < n)%Z -> (div_ceil v1 n <= div_ceil v2 n)%Z.
Proof.
  intros [H0 H12] Hn.
  destruct (Z.eq_dec v1 0) as [->|Hv1].
  { rewrite div_ceil_zero. apply div_ceil_nonneg; lia. }
  assert (0 < v1)%Z as Hp1 by lia. assert (0 < v2)%Z as Hp2 by lia.
  pose proof (f_of_int_is_rnd v1 Hp1) as [R1 M1]. pose proof (f_of_int_is_rnd v2 Hp2) as [R2 M2].
  pose proof (f_of_int_is_rnd n Hn) as [Rn Mn].
  pose proof (is_rnd_mono _ _ _ _ R1 R2 ltac:(rewrite <- Zle_Qle; exact H12)) as Hv.
  pose proof (f_div_is_rnd _ _ M1 Mn) as [D1 P1]. pose proof (f_div_is_rnd _ _ M2 Mn) as [D2 P2].
  unfold div_ceil. apply f_ceil_mono; [lia|lia|].
  apply (is_rnd_mono _ _ _ _ D1 D2).
  pose proof (val_pos _ Mn) as Hbn. set (bn := val (f_of_int n)) in *. clearbody bn.
  set (a1 := val (f_of_int v1)) in *. set (a2 := val (f_of_int v2)) in *. clearbody a1 a2.
  unfold Qdiv. apply Qmult_le_compat_r; [exact Hv|]. apply Qlt_le_weak, Qinv_lt_0_compat, Hbn.
Qed.

(* ---------- int64(float64(v) * (float64(p)/100)) is monotone in v and in p ---------- *)
Lemma f_trunc_lt_val a : (0 <= fst a)%Z -> val a < inject_Z (f_trunc a) + 1.
Proof.
  destruct a as [m e]. cbn [fst]. intros Hm. unfold f_trunc, val. cbn [fst snd].
  destruct (0 <=? e)%Z eqn:E.
  - apply Z.leb_le in E. rewrite Z.shiftl_mul_pow2, inject_Z_mult, pow2_inject by assumption. lra.
  - apply Z.leb_gt in E.
    assert (Z.shiftl 1 (- e) = 2 ^ (- e))%Z as Ek by (rewrite Z.shiftl_mul_pow2 by lia; lia).
    rewrite Ek.
    assert (0 < 2 ^ (- e))%Z as Hk by (apply Z.pow_pos_nonneg; lia).
    rewrite Z.quot_div_nonneg by lia.
    pose proof (Z_div_mod_eq_full m (2 ^ (- e))) as Hdm.
    pose proof (Z.mod_pos_bound m (2 ^ (- e)) Hk) as Hr.
    set (k := (2 ^ (- e))%Z) in *. set (q := (m / k)%Z) in *.
    assert (m < k * q + k)%Z as Hz by lia.
    rewrite Zlt_Qlt, inject_Z_plus, inject_Z_mult in Hz.
    assert (inject_Z k == 2 ^ (- e)) as Ekq by (unfold k; apply pow2_inject; lia).
    rewrite Ekq in Hz.
    assert (2 ^ e == / 2 ^ (- e)) as Ee by (rewrite <- pow2_opp, Z.opp_involutive; reflexivity).
    rewrite Ee. pose proof (pow2_pos (- e)) as Hx. set (x := 2 ^ (- e)) in *. clearbody x.
    set (q' := inject_Z q) in *. set (m' := inject_Z m) in *. clearbody q' m'.
    apply (Qmult_lt_r _ _ x Hx).
    setoid_replace (m' * / x * x) with m' by (field; lra). lra.
Qed.

Lemma f_trunc_mono a b : (0 <= fst a)%Z -> (0 <= fst b)%Z -> val a <= val b -> (f_trunc a <= f_trunc b)%Z.
Proof.
  intros Ha Hb H. pose proof (f_trunc_le_val a Ha). pose proof (f_trunc_lt_val b Hb).
  assert (inject_Z (f_trunc a) < inject_Z (f_trunc b) + 1) as Hlt by lra.
  change 1 with (inject_Z 1) in Hlt. rewrite <- inject_Z_plus, <- Zlt_Qlt in Hlt. lia.
Qed.

Lemma f_pct_mono p1 p2 : (0 < p1 <= p2)%Z ->
  val (f_pct p1) <= val (f_pct p2) /\ (0 < fst (f_pct p1))%Z /\ (0 < fst (f_pct p2))%Z.
Proof.
  intros [H1 H12]. assert (0 < p2)%Z as H2 by lia.
  pose proof (f_of_int_is_rnd p1 H1) as [R1 M1]. pose proof (f_of_int_is_rnd p2 H2) as [R2 M2].
  pose proof (f_of_int_is_rnd 100 ltac:(lia)) as [_ Mc].
  pose proof (is_rnd_mono _ _ _ _ R1 R2 ltac:(rewrite <- Zle_Qle; exact H12)) as Hv.
  pose proof (f_div_is_rnd _ _ M1 Mc) as [D1 P1]. pose proof (f_div_is_rnd _ _ M2 Mc) as [D2 P2].
  split; [|split; assumption]. unfold f_pct.
  apply (is_rnd_mono _ _ _ _ D1 D2).
  pose proof (val_pos _ Mc) as Hc. set (c := val (f_of_int 100)) in *. clearbody c.
  unfold Qdiv. apply Qmult_le_compat_r; [exact Hv|]. apply Qlt_le_weak, Qinv_lt_0_compat, Hc.
Qed.

Lemma mul_ratio_mono v1 v2 r1 r2 :
  (0 <= v1 <= v2)%Z -> (0 < fst r1)%Z -> (0 < fst r2)%Z -> val r1 <= val r2 ->
  (mul_ratio v1 r1 <= mul_ratio v2 r2)%Z.
Proof.
  intros [H0 H12] M1 M2 Hr.
  destruct (Z.eq_dec v1 0) as [->|Hv1].
  { rewrite mul_ratio_zero_l. apply mul_ratio_nonneg; lia. }
  assert (0 < v1)%Z as Hp1 by lia. assert (0 < v2)%Z as Hp2 by lia.
  pose proof (f_of_int_is_rnd v1 Hp1) as [R1 A1]. pose proof (f_of_int_is_rnd v2 Hp2) as [R2 A2].
  pose proof (is_rnd_mono _ _ _ _ R1 R2 ltac:(rewrite <- Zle_Qle; exact H12)) as Hv.
  pose proof (f_mul_is_rnd _ _ A1 M1) as [P1 Q1]. pose proof (f_mul_is_rnd _ _ A2 M2) as [P2 Q2].
  unfold mul_ratio. apply f_trunc_mono; [lia|lia|].
  apply (is_rnd_mono _ _ _ _ P1 P2).
  pose proof (val_pos _ A1). pose proof (val_pos _ M1).
  set (a1 := val (f_of_int v1)) in *. set (a2 := val (f_of_int v2)) in *.
  set (b1 := val r1) in *. set (b2 := val r2) in *. clearbody a1 a2 b1 b2. nra.
Qed.

(* the percentage of an amount is monotone in the amount and in the percentage *)
Theorem mul_pct_mono v1 v2 p1 p2 :
  (0 <= v1 <= v2)%Z -> (0 <= p1 <= p2)%Z ->
  (mul_ratio v1 (f_pct p1) <= mul_ratio v2 (f_pct p2))%Z.
Proof.
  intros Hv [Hp0 Hp].
  destruct (Z.eq_dec p1 0) as [->|Hp1].
  { rewrite mul_ratio_pct_zero. apply mul_ratio_nonneg; [lia|apply f_pct_nonneg; lia]. }
  pose proof (f_pct_mono p1 p2 ltac:(lia)) as (Hr & M1 & M2).
  apply mul_ratio_mono; assumption.
Qed.
