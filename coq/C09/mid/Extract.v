(* C09 / stream "mid" — flat-integer interface of the mid-resource model.
   input wire format:
     mode cpuThr memThr unallocPct staticCPU staticMem degradeMin     (mode 1 = "static"; pct -1 = nil)
     age capCPU capMem allocCPU allocMem
     annoFlag annoCPU annoMem
     sysCPU sysMem
     usageFlag usedCPU usedMem          (usageFlag 1 = NodeUsage has cpu and memory)
     reclFlag reclCPU reclMem           (reclFlag 1 = ProdReclaimableMetric reported)
     nApps (prio cpu mem)*
     nPods (phase plabel pval qlabel kube reqCPU reqMem has mprio useCPU useMem numa)*
     [annoKind aStaticCPU aStaticMem aUnalloc lblCpuKind lblCpuH lblMemKind lblMemH]   optional node-level
       strategy sources, resolved by Model.resolve_mstrategy (real: sloconfig.GetNodeColocationStrategy)
   observable: see Model.run_mid *)
From Coq Require Import List ZArith Bool.
From Verif Require Import Lib.Wire C09.Model C09.Spec.
Import ListNotations.
Open Scope Z_scope.

Definition dec_amt (l : list Z) : (Z * (Z * Z)) * list Z :=
  match l with a :: b :: c :: t => ((a, (b, c)), t) | _ => ((0, (0, 0)), []) end.
Definition dec_pod (l : list Z) : pod * list Z :=
  match l with
  | ph :: pl :: pvl :: ql :: kb :: rc :: rm :: hs :: mp :: uc :: um :: nu :: t =>
      (mkPod ph pl pvl ql kb rc rm (zb hs) mp uc um nu, t)
  | _ => (mkPod 4 0 (-1) 0 1 0 0 false 0 0 0 0, [])
  end.

Definition decode_m (l : list Z) : minput :=
  match l with
  | md :: ct :: mt :: un :: sc :: sm :: dg :: age :: cc :: cm :: ac :: am ::
    af :: anc :: anm :: syc :: sym :: uf :: uc :: um :: rf :: rc :: rm :: t =>
      let '(apps, t1) := decode_seq dec_amt t in
      let '(pods, t2) := decode_seq dec_pod t1 in
      let nc := match t2 with
                | ak :: a1 :: a2 :: a3 :: k1 :: h1 :: k2 :: h2 :: _ => mkMNodeCfg ak a1 a2 a3 k1 h1 k2 h2
                | _ => mnodecfg0
                end in
      mkM (resolve_mstrategy (mkMStrategy (md =? 1) ct mt un sc sm dg) nc) age cc cm ac am (zb af) anc anm syc sym
          (uf =? 1) uc um (zb rf) rc rm apps pods
  | _ => mkM (mkMStrategy false (-1) (-1) (-1) (-1) (-1) 1) (-1) 0 0 0 0 false 0 0 0 0 false 0 0 false 0 0 [] []
  end.

Definition run_case (inp : list Z) : list Z := run_mid (decode_m inp).
Definition prop_case (inp obs : list Z) : Z := mid_code (decode_m inp) obs.
Definition nontrivial_case (inp : list Z) : bool :=
  let m := decode_m inp in negb (mstale m) && ((0 <? mid_cpu m) || (0 <? mid_mem m)).
Definition finding_sig (inp obs : list Z) : Z := 0.

Require Extraction.
Require Import ExtrOcamlBasic.
Extraction "model.ml" run_case prop_case nontrivial_case finding_sig.
