(* C09 — model of the batch / mid reclaimed-capacity calculation
     pkg/slo-controller/noderesource/plugins/batchresource/plugin.go  (Calculate, calculateOnNode,
        calculateOnNUMALevel, isDegradeNeeded, Reset, Prepare)
     pkg/slo-controller/noderesource/plugins/util/util.go             (CalculateBatchResourceByPolicy,
        CalculateMidResourceByStaticMode, CalculateMidResourceByPolicy, GetNodeSafetyMargin,
        DivideResourceList, GetPodNUMARequestAndUsage, GetHostAppHPUsed)
     pkg/slo-controller/noderesource/plugins/midresource/plugin.go    (Calculate, getUnallocated)
     pkg/util/resource.go (MultiplyMilliQuant, MultiplyQuant, MinQuant), apis/extension/priority*.go, qos*.go
   Executable, total, no proofs in this file.
   Units: CPU in milli-cores; memory in bytes at node level and in milli-bytes at NUMA-zone level
   (DivideResourceList produces milli quantities). *)
From Coq Require Import List ZArith Bool.
Import ListNotations.
Open Scope Z_scope.

(* ------------------------------------------------------------------------------------------ *)
(* IEEE-754 binary64, exactly, for the operations the code performs on percentages:
   int64 -> float64, /, *, int64(.) (truncation), math.Ceil.  A finite double is (m, e), value
   m * 2^e.  Round-to-nearest-even to 53 significant bits; subnormals/overflow cannot occur for the
   integer ranges involved (|values| < 2^63, divisors < 2^63) and are not modelled. *)
Notation fl := (Z * Z)%type.

(* quotient of n*2^s by d (s may be negative), rounded to nearest, ties to even *)
Definition rnd_qr (q r den : Z) : Z :=
  if (den <? 2 * r) || ((2 * r =? den) && Z.odd q) then q + 1 else q.
Definition scaled_div (n d s : Z) : Z * Z * Z :=
  let den := Z.shiftl d (Z.max (- s) 0) in
  let '(q, r) := Z.div_eucl (Z.shiftl n (Z.max s 0)) den in (q, r, den).
Definition rne_pos (n d : Z) : fl :=
  if n =? 0 then (0, 0) else
  let s0 := 52 - (Z.log2 n - Z.log2 d) in
  let '(q0, r0, den0) := scaled_div n d s0 in
  if q0 <? 4503599627370496 (* 2^52 *) then
    let '(q, r, den) := scaled_div n d (s0 + 1) in (rnd_qr q r den, - (s0 + 1))
  else (rnd_qr q0 r0 den0, - s0).

(* nearest double to n/d, d > 0 *)
Definition rne (n d : Z) : fl :=
  if n <? 0 then let '(m, e) := rne_pos (- n) d in (- m, e) else rne_pos n d.

Definition f_of_int (v : Z) : fl := rne v 1.
Definition f_div (a b : fl) : fl :=
  let '(ma, ea) := a in let '(mb, eb) := b in
  let '(m, e) := rne (if mb <? 0 then - ma else ma) (Z.abs mb) in (m, e + ea - eb).
Definition f_mul (a b : fl) : fl :=
  let '(ma, ea) := a in let '(mb, eb) := b in
  let '(m, e) := rne (ma * mb) 1 in (m, e + ea + eb).
(* Go's int64(f): truncation toward zero *)
Definition f_trunc (a : fl) : Z :=
  let '(m, e) := a in if 0 <=? e then Z.shiftl m e else Z.quot m (Z.shiftl 1 (- e)).
Definition f_ceil (a : fl) : Z :=
  let '(m, e) := a in if 0 <=? e then Z.shiftl m e else - ((- m) / Z.shiftl 1 (- e)).

(* float64(p) / 100 *)
Definition f_pct (p : Z) : fl := f_div (f_of_int p) (f_of_int 100).
(* int64(float64(v) * r)   — MultiplyMilliQuant on milli values, MultiplyQuant on values *)
Definition mul_ratio (v : Z) (r : fl) : Z := f_trunc (f_mul (f_of_int v) r).
(* int64(math.Ceil(float64(v) / float64(n)))   — DivideResourceList *)
Definition div_ceil (v n : Z) : Z := f_ceil (f_div (f_of_int v) (f_of_int n)).

(* ------------------------------------------------------------------------------------------ *)
(* priority / QoS resolution (apis/extension) *)
(* priority class codes: 0 none, 1 koord-prod, 2 koord-mid, 3 koord-batch, 4 koord-free, 5 unknown name
   QoS codes:            0 none, 1 LSE, 2 LSR, 3 LS, 4 BE, 5 SYSTEM, 6 unknown name
   kube QoS codes:       1 Guaranteed, 2 Burstable, 3 BestEffort *)
Definition in_range (lo hi v : Z) : bool := (lo <=? v) && (v <=? hi).
Definition prio_by_value (v : Z) : Z :=
  if in_range 9000 9999 v then 1 else if in_range 7000 7999 v then 2
  else if in_range 5000 5999 v then 3 else if in_range 3000 3999 v then 4 else 0.
Definition prio_by_name (c : Z) : Z := if in_range 1 4 c then c else 0.
(* plabel: 0 = label absent; pval: -1 = Spec.Priority nil *)
Definition prio_raw (plabel pval : Z) : Z :=
  if negb (plabel =? 0) then prio_by_name plabel
  else if pval <? 0 then 0 else prio_by_value pval.
Definition qos_by_name (c : Z) : Z := if in_range 1 5 c then c else 0.
Definition qos_by_kube (k : Z) : Z :=
  if k =? 1 then 2 else if k =? 2 then 3 else if k =? 3 then 4 else 0.
Definition qos_of (qlabel kube : Z) : Z :=
  if negb (qos_by_name qlabel =? 0) then qos_by_name qlabel else qos_by_kube kube.
Definition prio_by_qos (q : Z) : Z :=
  if (q =? 5) || (q =? 1) || (q =? 2) || (q =? 3) then 1 else if q =? 4 then 3 else 0.
Definition prio_of (plabel pval qlabel kube : Z) : Z :=
  if negb (prio_raw plabel pval =? 0) then prio_raw plabel pval
  else prio_by_qos (qos_of qlabel kube).
Definition is_lp (prio : Z) : bool := (prio =? 3) || (prio =? 4).
(* host applications are charged when their default priority value exceeds that of [res]:
   batch (5500): prod, mid count;  mid (7500): prod counts *)
Definition prio_default_value (c : Z) : Z :=
  if c =? 1 then 9500 else if c =? 2 then 7500 else if c =? 3 then 5500 else if c =? 4 then 3500 else 0.
Definition hostapp_counts (res c : Z) : bool := prio_default_value res <? prio_default_value c.

(* ------------------------------------------------------------------------------------------ *)
(* inputs *)
Record pod := mkPod {
  p_phase : Z;    (* 0 Pending, 1 Running, 2 Succeeded, 3 Failed, 4 Unknown,
                     5 Running with a deletionTimestamp, 6 Pending with a deletionTimestamp
                     (a terminating pod still holds its request and still runs) *)
  p_plabel : Z; p_pval : Z; p_qlabel : Z; p_kube : Z;
  p_req_cpu : Z; p_req_mem : Z;          (* sum over containers *)
  p_has : bool;                          (* a PodMetricInfo with the pod's key is reported *)
  p_mprio : Z; p_use_cpu : Z; p_use_mem : Z;   (* that metric: priority code, usage *)
  p_numa : Z                             (* bit i set: NUMANodeResources names node i (i < 6) *)
}.
Definition p_active (p : pod) : bool :=
  (p_phase p =? 0) || (p_phase p =? 1) || (p_phase p =? 5) || (p_phase p =? 6).
Definition p_prio (p : pod) : Z := prio_of (p_plabel p) (p_pval p) (p_qlabel p) (p_kube p).
Definition p_hp (p : pod) : bool := negb (is_lp (p_prio p)).
Definition p_lse (p : pod) : bool := qos_of (p_qlabel p) (p_kube p) =? 1.
Definition p_mhp (p : pod) : bool := negb (is_lp (p_mprio p)).

(* per-dimension view of a pod: everything the aggregation needs *)
Record pv := mkPv {
  v_active : bool; v_hp : bool; v_has : bool;
  v_lse : bool;          (* usage policy charges the request (LSE CPU is not reclaimed) *)
  v_req : Z; v_used : Z;
  v_mhp : bool; v_dang : Z  (* if its metric stays unmatched: counted when v_mhp, with this amount *)
}.

Record agg := mkAgg { a_req : Z; a_used : Z; a_max : Z; a_dang : Z }.
Definition agg0 : agg := mkAgg 0 0 0 0.

(* one iteration of the pod loop of calculateOnNode / calculateOnNUMALevel *)
Definition agg_step (a : agg) (p : pv) : agg :=
  if negb (v_active p) then
    (* the metric of a pod that is neither Running nor Pending is never matched: it is dangling *)
    if v_has p && v_mhp p then mkAgg (a_req a) (a_used a) (a_max a) (a_dang a + v_dang p) else a
  else if negb (v_hp p) then a
  else if negb (v_has p) then
    mkAgg (a_req a + v_req p) (a_used a + v_req p) (a_max a + v_req p) (a_dang a)
  else if v_lse p then
    mkAgg (a_req a + v_req p) (a_used a + v_req p) (a_max a + Z.max (v_req p) (v_used p)) (a_dang a)
  else
    mkAgg (a_req a + v_req p) (a_used a + v_used p) (a_max a + Z.max (v_req p) (v_used p)) (a_dang a).

Definition sumZ (l : list Z) : Z := fold_right Z.add 0 l.

(* dangling metrics: (priority is HP, amount) *)
Definition dang_amount (d : bool * Z) : Z := if fst d then snd d else 0.

Definition aggregate (pods : list pv) (dang : list (bool * Z)) : agg :=
  let a := fold_left agg_step pods agg0 in
  let d := a_dang a + sumZ (map dang_amount dang) in
  mkAgg (a_req a) (a_used a + d) (a_max a + d) d.

(* CalculateBatchResourceByPolicy, one dimension.  policy: 1 usage, 2 request, 3 maxUsageRequest *)
Definition clamp0 (x : Z) : Z := Z.max x 0.
Definition by_usage (cap margin reserved sys hp_used : Z) : Z :=
  clamp0 (cap - margin - Z.max sys reserved - hp_used).
Definition by_request (cap margin reserved hp_req : Z) : Z :=
  clamp0 (cap - margin - reserved - hp_req).
Definition by_maxur (cap margin reserved sys hp_max : Z) : Z :=
  clamp0 (cap - margin - Z.max sys reserved - hp_max).
Definition min_quant (a b : Z) : Z := if b <=? a then b else a.
Definition with_thr (thr : option Z) (x : Z) : Z :=
  match thr with None => x | Some c => min_quant x c end.

Definition by_policy (policy : Z) (thr : option Z) (cap margin reserved sys : Z) (a : agg) : Z :=
  with_thr thr
    (if policy =? 2 then by_request cap margin reserved (a_req a)
     else if policy =? 3 then by_maxur cap margin reserved sys (a_max a)
     else by_usage cap margin reserved sys (a_used a)).

(* the effective policy: CPU supports usage / maxUsageRequest only *)
Definition eff_policy_cpu (p : Z) : Z := if p =? 3 then 3 else 1.
Definition eff_policy_mem (p : Z) : Z := if p =? 2 then 2 else if p =? 3 then 3 else 1.

(* everything one dimension of one scope (node, or one NUMA zone) needs *)
Record dim_in := mkDim {
  d_policy : Z; d_thr : option Z; d_cap : Z; d_margin : Z; d_reserved : Z; d_sys : Z;
  d_pods : list pv; d_dang : list (bool * Z) }.
Definition batch_dim (d : dim_in) : Z :=
  by_policy (d_policy d) (d_thr d) (d_cap d) (d_margin d) (d_reserved d) (d_sys d)
            (aggregate (d_pods d) (d_dang d)).

(* ------------------------------------------------------------------------------------------ *)
(* the batch plugin *)
Record strategy := mkStrategy {
  s_cpu_policy : Z; s_mem_policy : Z;       (* 0 nil, 1 usage, 2 request, 3 maxUsageRequest *)
  s_cpu_reclaim : Z; s_mem_reclaim : Z;     (* CPU/MemoryReclaimThresholdPercent *)
  s_cpu_thr : Z; s_mem_thr : Z;             (* Batch{CPU,Memory}ThresholdPercent, -1 = nil *)
  s_degrade : Z }.                          (* DegradeTimeMinutes *)

Record binput := mkB {
  b_s : strategy;
  b_age : Z;                 (* seconds since NodeMetric.Status.UpdateTime; -1 = UpdateTime nil *)
  b_cap_cpu : Z; b_cap_mem : Z; b_alloc_cpu : Z; b_alloc_mem : Z;
  b_anno : bool; b_anno_cpu : Z; b_anno_mem : Z; b_anno_rcpus : Z;  (* node-reservation annotation *)
  b_sys_cpu : Z; b_sys_mem : Z;
  b_zones : list (Z * Z);    (* NRT zone allocatable (milli-CPU, bytes); [] = no NRT *)
  b_apps : list (Z * (Z * Z));   (* host applications: priority code, (cpu, mem) *)
  b_pods : list pod;
  b_dang : list (Z * (Z * Z))    (* pod metrics without a pod: priority code, (cpu, mem) *)
}.

Definition is_degraded (degrade_min age : Z) : bool := (age <? 0) || (degrade_min * 60 <? age).

Definition reserve_ratio (reclaim : Z) : fl := f_div (f_of_int (100 - reclaim)) (f_of_int 100).
Definition thr_term (thr cap : Z) : option Z :=
  if thr <? 0 then None else Some (mul_ratio cap (f_pct thr)).

Definition kubelet_reserved (cap alloc : Z) : Z := Z.max (cap - alloc) 0.
Definition anno_cpu (b : binput) : Z :=
  if negb (b_anno_rcpus b =? 0) then 1000 * b_anno_rcpus b else b_anno_cpu b.
Definition reserved_cpu (b : binput) : Z :=
  let k := kubelet_reserved (b_cap_cpu b) (b_alloc_cpu b) in
  if b_anno b then Z.max k (anno_cpu b) else k.
Definition reserved_mem (b : binput) : Z :=
  let k := kubelet_reserved (b_cap_mem b) (b_alloc_mem b) in
  if b_anno b then Z.max k (b_anno_mem b) else k.

Definition apps_cpu (res : Z) (apps : list (Z * (Z * Z))) : Z :=
  sumZ (map (fun a => if hostapp_counts res (fst a) then fst (snd a) else 0) apps).
Definition apps_mem (res : Z) (apps : list (Z * (Z * Z))) : Z :=
  sumZ (map (fun a => if hostapp_counts res (fst a) then snd (snd a) else 0) apps).
Definition sys_cpu (b : binput) : Z := b_sys_cpu b + apps_cpu 3 (b_apps b).
Definition sys_mem (b : binput) : Z := b_sys_mem b + apps_mem 3 (b_apps b).

Definition pv_cpu (p : pod) : pv :=
  mkPv (p_active p) (p_hp p) (p_has p) (p_lse p) (p_req_cpu p) (p_use_cpu p) (p_mhp p) (p_use_cpu p).
Definition pv_mem (p : pod) : pv :=
  mkPv (p_active p) (p_hp p) (p_has p) false (p_req_mem p) (p_use_mem p) (p_mhp p) (p_use_mem p).
Definition dang_cpu (d : Z * (Z * Z)) : bool * Z := (negb (is_lp (fst d)), fst (snd d)).
Definition dang_mem (d : Z * (Z * Z)) : bool * Z := (negb (is_lp (fst d)), snd (snd d)).

Definition node_cpu (b : binput) : dim_in :=
  let s := b_s b in
  mkDim (eff_policy_cpu (s_cpu_policy s)) (thr_term (s_cpu_thr s) (b_cap_cpu b)) (b_cap_cpu b)
        (mul_ratio (b_cap_cpu b) (reserve_ratio (s_cpu_reclaim s)))
        (reserved_cpu b) (sys_cpu b) (map pv_cpu (b_pods b)) (map dang_cpu (b_dang b)).
Definition node_mem (b : binput) : dim_in :=
  let s := b_s b in
  mkDim (eff_policy_mem (s_mem_policy s)) (thr_term (s_mem_thr s) (b_cap_mem b)) (b_cap_mem b)
        (mul_ratio (b_cap_mem b) (reserve_ratio (s_mem_reclaim s)))
        (reserved_mem b) (sys_mem b) (map pv_mem (b_pods b)) (map dang_mem (b_dang b)).

(* ---- NUMA zones ---- *)
(* GetPodNUMARequestAndUsage: share of amount [v] (milli) that lands on zone [i] of [n] *)
Fixpoint count_bits (n : nat) (mask : Z) : Z :=
  match n with
  | O => 0
  | S k => (if Z.testbit mask (Z.of_nat k) then 1 else 0) + count_bits k mask
  end.
Definition zone_share (n : nat) (mask : Z) (i : nat) (v : Z) : Z :=
  let c := count_bits n mask in
  if c <=? 0 then div_ceil v (Z.of_nat n)
  else if Z.testbit mask (Z.of_nat i) then div_ceil v c else 0.

Definition zpv_cpu (n i : nat) (p : pod) : pv :=
  let rq := zone_share n (p_numa p) i (p_req_cpu p) in
  let us := zone_share n (p_numa p) i (p_use_cpu p) in
  mkPv (p_active p) (p_hp p) (p_has p) (p_lse p) rq us (p_mhp p) (div_ceil (p_use_cpu p) (Z.of_nat n)).
Definition zpv_mem (n i : nat) (p : pod) : pv :=
  let rq := zone_share n (p_numa p) i (1000 * p_req_mem p) in
  let us := zone_share n (p_numa p) i (1000 * p_use_mem p) in
  mkPv (p_active p) (p_hp p) (p_has p) false rq us (p_mhp p) (div_ceil (1000 * p_use_mem p) (Z.of_nat n)).

Definition zone_cpu (b : binput) (n i : nat) (z : Z * Z) : dim_in :=
  let s := b_s b in let zn := Z.of_nat n in
  mkDim (eff_policy_cpu (s_cpu_policy s)) (thr_term (s_cpu_thr s) (fst z)) (fst z)
        (mul_ratio (fst z) (reserve_ratio (s_cpu_reclaim s)))
        (div_ceil (reserved_cpu b) zn) (div_ceil (sys_cpu b) zn)
        (map (zpv_cpu n i) (b_pods b))
        (map (fun d => (fst (dang_cpu d), div_ceil (snd (dang_cpu d)) zn)) (b_dang b)).
Definition zone_mem (b : binput) (n i : nat) (z : Z * Z) : dim_in :=
  let s := b_s b in let zn := Z.of_nat n in
  mkDim (eff_policy_mem (s_mem_policy s))
        (match thr_term (s_mem_thr s) (snd z) with Some c => Some (1000 * c) | None => None end)
        (1000 * snd z)
        (1000 * mul_ratio (snd z) (reserve_ratio (s_mem_reclaim s)))
        (div_ceil (1000 * reserved_mem b) zn) (div_ceil (1000 * sys_mem b) zn)
        (map (zpv_mem n i) (b_pods b))
        (map (fun d => (fst (dang_mem d), div_ceil (1000 * snd (dang_mem d)) zn)) (b_dang b)).

Fixpoint zones_out (b : binput) (n i : nat) (zs : list (Z * Z)) : list Z :=
  match zs with
  | [] => []
  | z :: t => batch_dim (zone_cpu b n i z) :: batch_dim (zone_mem b n i z) :: zones_out b n (S i) t
  end.

(* Observable of Plugin.Calculate followed by Plugin.Prepare on a node that still carries an old
   batch amount:
     degraded : [1; -1; -1]                      (Reset items; batch resources removed from the node)
     else     : [0; cpu; mem; cpu; mem; nzones; z0cpu; z0mem(milli); ...]
                 (published node allocatable, item quantities, per-zone quantities) *)
Definition run_batch (b : binput) : list Z :=
  if is_degraded (s_degrade (b_s b)) (b_age b) then [1; -1; -1]
  else
    let c := batch_dim (node_cpu b) in
    let m := batch_dim (node_mem b) in
    let n := length (b_zones b) in
    [0; c; m; c; m; Z.of_nat n] ++ zones_out b n 0 (b_zones b).

(* ------------------------------------------------------------------------------------------ *)
(* sloconfig.GetNodeColocationStrategy: cluster strategy, then the node's colocation-strategy
   annotation (fields present in it override; an annotation that does not parse is ignored), then
   the node's reclaim-ratio labels (take precedence over both; a label that is not a non-negative
   float is ignored).  A label "x.yz" is strconv.ParseFloat-ed and int64(v*100) is taken. *)
(* A label that spells the decimal h / scale in ANY form strconv.ParseFloat accepts (fixed point with 1-4
   decimals, exponent form "6.55e-1", leading "+", leading "."): ParseFloat is correctly rounded, so
   the parsed double is rne h scale whatever the spelling.  Label kinds: 1 two decimals; 4 three decimals;
   5 three decimals in exponent form; 6 one decimal; 7 four decimals; others: absent / not a non-negative
   float, ignored. *)
Definition label_scale (kind : Z) : Z :=
  if kind =? 1 then 100 else if (kind =? 4) || (kind =? 5) then 1000
  else if kind =? 6 then 10 else if kind =? 7 then 10000 else 0.
Definition ratio_label_pct_k (scale h : Z) : Z := f_trunc (f_mul (rne h scale) (f_of_int 100)).
Definition ratio_label_pct (h : Z) : Z := ratio_label_pct_k 100 h.
Definition label_pct (kind h dflt : Z) : Z :=
  if 0 <? label_scale kind then ratio_label_pct_k (label_scale kind) h else dflt.
Definition ovr (v base : Z) : Z := if v <? 0 then base else v.     (* -1: field absent *)
Record nodecfg := mkNodeCfg {
  nc_anno : Z;                (* 0 no annotation, 1 well-formed, other: does not parse *)
  nc_a_cpu_reclaim : Z; nc_a_mem_reclaim : Z; nc_a_cpu_thr : Z; nc_a_mem_thr : Z;
  nc_l_cpu_kind : Z; nc_l_cpu : Z;     (* label kind (see label_scale) and numerator h >= 0 *)
  nc_l_mem_kind : Z; nc_l_mem : Z }.
Definition nodecfg0 : nodecfg := mkNodeCfg 0 (-1) (-1) (-1) (-1) 0 0 0 0.
Definition resolve_strategy (s : strategy) (c : nodecfg) : strategy :=
  let a := nc_anno c =? 1 in
  let cr := if a then ovr (nc_a_cpu_reclaim c) (s_cpu_reclaim s) else s_cpu_reclaim s in
  let mr := if a then ovr (nc_a_mem_reclaim c) (s_mem_reclaim s) else s_mem_reclaim s in
  let ct := if a then ovr (nc_a_cpu_thr c) (s_cpu_thr s) else s_cpu_thr s in
  let mt := if a then ovr (nc_a_mem_thr c) (s_mem_thr s) else s_mem_thr s in
  mkStrategy (s_cpu_policy s) (s_mem_policy s)
    (label_pct (nc_l_cpu_kind c) (nc_l_cpu c) cr)
    (label_pct (nc_l_mem_kind c) (nc_l_mem c) mr)
    ct mt (s_degrade s).

(* ------------------------------------------------------------------------------------------ *)
(* the mid plugin *)
Record mstrategy := mkMStrategy {
  ms_static : bool;                          (* MidReclaimMode = "static" *)
  ms_cpu_thr : Z; ms_mem_thr : Z;            (* Mid{CPU,Memory}ThresholdPercent, -1 = nil -> 100 *)
  ms_unalloc : Z;                            (* MidUnallocatedPercent, -1 = nil -> 0 *)
  ms_static_cpu : Z; ms_static_mem : Z;      (* MidStatic{CPU,Memory}ReservedPercent, -1 = nil -> 0 *)
  ms_degrade : Z }.

Record minput := mkM {
  m_s : mstrategy; m_age : Z;
  m_cap_cpu : Z; m_cap_mem : Z; m_alloc_cpu : Z; m_alloc_mem : Z;
  m_anno : bool; m_anno_cpu : Z; m_anno_mem : Z;
  m_sys_cpu : Z; m_sys_mem : Z;
  m_usage_valid : bool; m_used_cpu : Z; m_used_mem : Z;     (* NodeUsage *)
  m_recl : bool; m_recl_cpu : Z; m_recl_mem : Z;            (* ProdReclaimableMetric *)
  m_apps : list (Z * (Z * Z));
  m_pods : list pod }.

Definition dflt (v d : Z) : Z := if v <? 0 then d else v.

(* getUnallocated charges Running/Pending pods that are not mid/batch/free *)
Definition mid_hp (p : pod) : bool :=
  negb ((p_prio p =? 2) || (p_prio p =? 3) || (p_prio p =? 4)) && p_active p.
Definition prod_alloc_cpu (pods : list pod) : Z :=
  sumZ (map (fun p => if mid_hp p then p_req_cpu p else 0) pods).
Definition prod_alloc_mem (pods : list pod) : Z :=
  sumZ (map (fun p => if mid_hp p then p_req_mem p else 0) pods).

(* CalculateMidResourceByPolicy, one dimension *)
Definition mid_dynamic (cap reserved prod_alloc unused recl : Z) (unalloc_ratio thr_ratio : fl) : Z :=
  let a := clamp0 (Z.min recl unused) in
  let unallocated := clamp0 (cap - reserved - prod_alloc) in
  let x := a + mul_ratio unallocated unalloc_ratio in
  let mx := mul_ratio cap thr_ratio in
  if mx <? x then mx else x.
(* CalculateMidResourceByStaticMode, one dimension *)
Definition mid_static (cap : Z) (static_ratio thr_ratio : fl) : Z :=
  let x := mul_ratio cap static_ratio in
  let mx := mul_ratio cap thr_ratio in
  if mx <? x then mx else x.

Definition m_reserved_cpu (m : minput) : Z :=
  let k := kubelet_reserved (m_cap_cpu m) (m_alloc_cpu m) in
  let r := if m_anno m then Z.max k (m_anno_cpu m) else k in
  Z.max (m_sys_cpu m + apps_cpu 2 (m_apps m)) r.
Definition m_reserved_mem (m : minput) : Z :=
  let k := kubelet_reserved (m_cap_mem m) (m_alloc_mem m) in
  let r := if m_anno m then Z.max k (m_anno_mem m) else k in
  Z.max (m_sys_mem m + apps_mem 2 (m_apps m)) r.

Definition mid_cpu (m : minput) : Z :=
  let s := m_s m in
  let thr := f_pct (dflt (ms_cpu_thr s) 100) in
  if ms_static s then mid_static (m_cap_cpu m) (f_pct (dflt (ms_static_cpu s) 0)) thr
  else mid_dynamic (m_cap_cpu m) (m_reserved_cpu m) (prod_alloc_cpu (m_pods m))
         (if m_usage_valid m then m_cap_cpu m - m_used_cpu m else 0)
         (if m_recl m then m_recl_cpu m else 0)
         (f_pct (dflt (ms_unalloc s) 0)) thr.
Definition mid_mem (m : minput) : Z :=
  let s := m_s m in
  let thr := f_pct (dflt (ms_mem_thr s) 100) in
  if ms_static s then mid_static (m_cap_mem m) (f_pct (dflt (ms_static_mem s) 0)) thr
  else mid_dynamic (m_cap_mem m) (m_reserved_mem m) (prod_alloc_mem (m_pods m))
         (if m_usage_valid m then m_cap_mem m - m_used_mem m else 0)
         (if m_recl m then m_recl_mem m else 0)
         (f_pct (dflt (ms_unalloc s) 0)) thr.

Definition run_mid (m : minput) : list Z :=
  if is_degraded (ms_degrade (m_s m)) (m_age m) then [1; -1; -1]
  else [0; mid_cpu m; mid_mem m; mid_cpu m; mid_mem m].

(* the mid strategy resolved the same way: annotation fields and the mid-static-*-reserved-ratio labels *)
Record mnodecfg := mkMNodeCfg {
  mc_anno : Z; mc_a_static_cpu : Z; mc_a_static_mem : Z; mc_a_unalloc : Z;
  mc_l_cpu_kind : Z; mc_l_cpu : Z; mc_l_mem_kind : Z; mc_l_mem : Z }.
Definition mnodecfg0 : mnodecfg := mkMNodeCfg 0 (-1) (-1) (-1) 0 0 0 0.
Definition resolve_mstrategy (s : mstrategy) (c : mnodecfg) : mstrategy :=
  let a := mc_anno c =? 1 in
  let sc := if a then ovr (mc_a_static_cpu c) (ms_static_cpu s) else ms_static_cpu s in
  let sm := if a then ovr (mc_a_static_mem c) (ms_static_mem s) else ms_static_mem s in
  let un := if a then ovr (mc_a_unalloc c) (ms_unalloc s) else ms_unalloc s in
  mkMStrategy (ms_static s) (ms_cpu_thr s) (ms_mem_thr s) un
    (label_pct (mc_l_cpu_kind c) (mc_l_cpu c) sc)
    (label_pct (mc_l_mem_kind c) (mc_l_mem c) sm)
    (ms_degrade s).
