(* C09 — NUMA-zone amounts are antitone in the consumption inputs too, and the whole observable of
   the model passes the metamorphic clause (5) that bin/check evaluates on the implementation. *)
From Coq Require Import List ZArith Bool Lia.
From Verif Require Import C09.Model C09.Spec C09.Proofs_Agg C09.Proofs_Float C09.Proofs_Mono C09.Proofs_FloatMono C09.Proofs.
Import ListNotations.
Open Scope Z_scope.

Definition pod_nonneg (p : pod) : bool :=
  (0 <=? p_req_cpu p) && (0 <=? p_req_mem p) && (0 <=? p_use_cpu p) && (0 <=? p_use_mem p).
Definition amt_nonneg (a : Z * (Z * Z)) : bool := (0 <=? fst (snd a)) && (0 <=? snd (snd a)).
Definition input_nonneg (b : binput) : bool :=
  (0 <=? b_sys_cpu b) && (0 <=? b_sys_mem b)
  && forallb pod_nonneg (b_pods b) && forallb amt_nonneg (b_apps b) && forallb amt_nonneg (b_dang b).

Lemma zone_share_mono n mask i v1 v2 :
  (0 < n)%nat -> 0 <= v1 <= v2 -> zone_share n mask i v1 <= zone_share n mask i v2.
Proof.
  intros Hn Hv. unfold zone_share.
  destruct (count_bits n mask <=? 0) eqn:E.
  - apply div_ceil_mono; [exact Hv|lia].
  - apply Z.leb_gt in E. destruct (Z.testbit mask (Z.of_nat i)); [|lia].
    apply div_ceil_mono; assumption.
Qed.

Lemma pod_nonneg_parts p : pod_nonneg p = true ->
  0 <= p_req_cpu p /\ 0 <= p_req_mem p /\ 0 <= p_use_cpu p /\ 0 <= p_use_mem p.
Proof. unfold pod_nonneg. intros H. split_andb. auto. Qed.

Lemma zpv_cpu_le n i p q : (0 < n)%nat -> pod_le p q -> pod_nonneg p = true ->
  pv_le (zpv_cpu n i p) (zpv_cpu n i q).
Proof.
  intros Hn H Hnn. apply pod_le_flags in H. apply pod_nonneg_parts in Hnn.
  destruct H as (E1 & E2 & E3 & E4 & E5 & E6 & L1 & L2 & L3 & L4).
  destruct Hnn as (N1 & N2 & N3 & N4).
  unfold pv_le, zpv_cpu. cbn [v_active v_hp v_has v_lse v_mhp v_req v_used v_dang]. rewrite <- E6.
  repeat split; try assumption.
  - apply zone_share_mono; [assumption|lia].
  - apply zone_share_mono; [assumption|lia].
  - apply div_ceil_mono; lia.
Qed.
Lemma zpv_mem_le n i p q : (0 < n)%nat -> pod_le p q -> pod_nonneg p = true ->
  pv_le (zpv_mem n i p) (zpv_mem n i q).
Proof.
  intros Hn H Hnn. apply pod_le_flags in H. apply pod_nonneg_parts in Hnn.
  destruct H as (E1 & E2 & E3 & E4 & E5 & E6 & L1 & L2 & L3 & L4).
  destruct Hnn as (N1 & N2 & N3 & N4).
  unfold pv_le, zpv_mem. cbn [v_active v_hp v_has v_lse v_mhp v_req v_used v_dang]. rewrite <- E6.
  repeat split; try assumption.
  - apply zone_share_mono; [assumption|lia].
  - apply zone_share_mono; [assumption|lia].
  - apply div_ceil_mono; lia.
Qed.

Lemma Forall2_map_nn {A B} (P : A -> A -> Prop) (f : A -> bool) (Q : B -> B -> Prop) (g : A -> B) :
  (forall x y, P x y -> f x = true -> Q (g x) (g y)) ->
  forall l1 l2, Forall2 P l1 l2 -> forallb f l1 = true -> Forall2 Q (map g l1) (map g l2).
Proof.
  intros H l1 l2. induction 1 as [|x y l1 l2 Hxy _ IH]; cbn; intros Hf; constructor.
  - apply andb_true_iff in Hf. apply H; tauto.
  - apply andb_true_iff in Hf. apply IH. tauto.
Qed.

Lemma apps_cpu_nonneg res l : forallb amt_nonneg l = true -> 0 <= apps_cpu res l.
Proof.
  unfold apps_cpu. induction l as [|a l IH]; cbn [forallb map]; intros H; [cbn; lia|].
  apply andb_true_iff in H. destruct H as [Ha Hl]. rewrite sumZ_cons. specialize (IH Hl).
  unfold amt_nonneg in Ha. split_andb. destruct (hostapp_counts res (fst a)); lia.
Qed.
Lemma apps_mem_nonneg res l : forallb amt_nonneg l = true -> 0 <= apps_mem res l.
Proof.
  unfold apps_mem. induction l as [|a l IH]; cbn [forallb map]; intros H; [cbn; lia|].
  apply andb_true_iff in H. destruct H as [Ha Hl]. rewrite sumZ_cons. specialize (IH Hl).
  unfold amt_nonneg in Ha. split_andb. destruct (hostapp_counts res (fst a)); lia.
Qed.

Lemma reserved_cpu_nonneg b : 0 <= reserved_cpu b.
Proof. unfold reserved_cpu, kubelet_reserved. destruct (b_anno b); lia. Qed.
Lemma reserved_mem_nonneg b : 0 <= reserved_mem b.
Proof. unfold reserved_mem, kubelet_reserved. destruct (b_anno b); lia. Qed.

Lemma all2_zone_eq l1 : forall l2, all2 zone_eqb l1 l2 = true -> l1 = l2.
Proof.
  induction l1 as [|[a1 a2] l1 IH]; intros [|[c1 c2] l2] H; cbn in H; try discriminate; [reflexivity|].
  unfold zone_eqb in H. cbn [fst snd] in H. split_andb. subst. f_equal. apply IH. assumption.
Qed.

Lemma input_le_facts a b : input_leb a b = true ->
  b_s a = b_s b /\ b_zones a = b_zones b /\
  Forall2 pod_le (b_pods a) (b_pods b) /\ Forall2 amt_le (b_dang a) (b_dang b).
Proof.
  unfold input_leb. intros H. split_andb.
  repeat match goal with
  | H : strategy_eqb _ _ = true |- _ => apply strategy_eqb_eq in H
  | H : all2 zone_eqb _ _ = true |- _ => apply all2_zone_eq in H
  | H : all2 pod_leb _ _ = true |- _ => apply (all2_Forall2 pod_leb pod_le (fun x y h => h)) in H
  | H : all2 amt_leb (b_dang _) _ = true |- _ => apply (all2_Forall2 amt_leb amt_le (fun x y h => h)) in H
  end.
  auto.
Qed.

Theorem input_le_zone a b n i z :
  input_leb a b = true -> input_nonneg a = true -> (0 < n)%nat ->
  dim_le (zone_cpu a n i z) (zone_cpu b n i z) /\ dim_le (zone_mem a n i z) (zone_mem b n i z).
Proof.
  intros Hle Hnn Hn.
  pose proof (input_le_node a b Hle) as [Nc Nm].
  destruct Nc as (_ & _ & _ & _ & Hrc & Hsc & _ & _). destruct Nm as (_ & _ & _ & _ & Hrm & Hsm & _ & _).
  cbn [d_reserved d_sys node_cpu node_mem] in Hrc, Hsc, Hrm, Hsm.
  pose proof (input_le_facts a b Hle) as (Hs & _ & Hpods & Hdang).
  unfold input_nonneg in Hnn. apply andb_true_iff in Hnn. destruct Hnn as [Hnn Hnd].
  apply andb_true_iff in Hnn. destruct Hnn as [Hnn Hna].
  apply andb_true_iff in Hnn. destruct Hnn as [Hnn Hnp].
  apply andb_true_iff in Hnn. destruct Hnn as [Hsc0 Hsm0].
  apply Z.leb_le in Hsc0. apply Z.leb_le in Hsm0.
  pose proof (apps_cpu_nonneg 3 _ Hna). pose proof (apps_mem_nonneg 3 _ Hna).
  pose proof (reserved_cpu_nonneg a). pose proof (reserved_mem_nonneg a).
  assert (0 < Z.of_nat n) as Hzn by lia.
  split; unfold dim_le, zone_cpu, zone_mem;
    cbn [d_policy d_thr d_cap d_margin d_reserved d_sys d_pods d_dang]; rewrite <- Hs.
  - split; [reflexivity|]. split; [reflexivity|]. split; [reflexivity|]. split; [lia|].
    split; [apply div_ceil_mono; [lia|assumption]|].
    split; [apply div_ceil_mono; [unfold sys_cpu in *; lia|assumption]|].
    split.
    + eapply Forall2_map_nn; [|exact Hpods|exact Hnp]. intros x y Hxy Hx. apply zpv_cpu_le; assumption.
    + eapply Forall2_map_nn; [|exact Hdang|exact Hnd]. intros x y Hxy Hx.
      apply amt_le_parts in Hxy. destruct Hxy as (E & L1 & L2). unfold amt_nonneg in Hx. split_andb.
      unfold dang_le, dang_cpu. cbn [fst snd]. rewrite E. split; [reflexivity|].
      apply div_ceil_mono; [lia|assumption].
  - split; [reflexivity|]. split; [reflexivity|]. split; [reflexivity|]. split; [lia|].
    split; [apply div_ceil_mono; [lia|assumption]|].
    split; [apply div_ceil_mono; [unfold sys_mem in *; lia|assumption]|].
    split.
    + eapply Forall2_map_nn; [|exact Hpods|exact Hnp]. intros x y Hxy Hx. apply zpv_mem_le; assumption.
    + eapply Forall2_map_nn; [|exact Hdang|exact Hnd]. intros x y Hxy Hx.
      apply amt_le_parts in Hxy. destruct Hxy as (E & L1 & L2). unfold amt_nonneg in Hx. split_andb.
      unfold dang_le, dang_mem. cbn [fst snd]. rewrite E. split; [reflexivity|].
      apply div_ceil_mono; [lia|assumption].
Qed.

Theorem zone_antitone a b n i z :
  input_leb a b = true -> input_nonneg a = true -> (0 < n)%nat ->
  batch_dim (zone_cpu b n i z) <= batch_dim (zone_cpu a n i z) /\
  batch_dim (zone_mem b n i z) <= batch_dim (zone_mem a n i z).
Proof.
  intros H1 H2 H3. pose proof (input_le_zone a b n i z H1 H2 H3) as [Hc Hm].
  split; apply batch_dim_antitone; assumption.
Qed.

Lemma zones_out_antitone a b n zs :
  input_leb a b = true -> input_nonneg a = true -> (0 < n)%nat ->
  forall i, all_leb (zones_out b n i zs) (zones_out a n i zs) = true.
Proof.
  intros H1 H2 H3. induction zs as [|z zs IH]; intros i; cbn [zones_out all_leb]; [reflexivity|].
  pose proof (zone_antitone a b n i z H1 H2 H3) as [Hc Hm].
  apply Z.leb_le in Hc. apply Z.leb_le in Hm. rewrite Hc, Hm, IH. reflexivity.
Qed.

(* the model's two observables (base input, raised input) pass the metamorphic clause *)
Theorem run_batch_antitone a b :
  input_nonneg a = true -> antitone_code a b (run_batch a) (run_batch b) = 0.
Proof.
  intros Hnn. unfold antitone_code.
  destruct (input_leb a b) eqn:Hle; cbn [negb]; [|reflexivity].
  pose proof (input_le_facts a b Hle) as (Hs & Hz & _ & _).
  assert (stale a = stale b) as Hst.
  { unfold stale. rewrite Hs. f_equal. unfold input_leb in Hle. split_andb. assumption. }
  unfold run_batch. fold (stale a). fold (stale b). rewrite <- Hst.
  destruct (stale a); [reflexivity|].
  pose proof (node_antitone a b Hle) as [Hc Hm].
  cbn [app]. cbn [all_leb]. rewrite <- Hz.
  apply Z.leb_le in Hc. apply Z.leb_le in Hm. rewrite Hc, Hm, Z.leb_refl. cbn [andb].
  destruct (b_zones a) as [|z zs] eqn:Ez; [reflexivity|].
  rewrite (zones_out_antitone a b (length (z :: zs)) (z :: zs) Hle Hnn); [reflexivity|cbn; lia].
Qed.

(* ---------- lowering a reclaim threshold (= raising the safety margin) never raises the amount ---------- *)
Lemma pv_le_refl p : pv_le p p.
Proof. unfold pv_le. repeat split; lia. Qed.
Lemma dang_le_refl d : dang_le d d.
Proof. unfold dang_le. split; [reflexivity|lia]. Qed.
Lemma Forall2_refl {A} (P : A -> A -> Prop) : (forall x, P x x) -> forall l, Forall2 P l l.
Proof. intros H l. induction l; constructor; auto. Qed.

Lemma margin_mono cap t t' : 0 <= cap -> t' <= t <= 100 ->
  mul_ratio cap (reserve_ratio t) <= mul_ratio cap (reserve_ratio t').
Proof.
  intros Hc Ht. change (reserve_ratio t) with (f_pct (100 - t)).
  change (reserve_ratio t') with (f_pct (100 - t')). apply mul_pct_mono; lia.
Qed.

Theorem reclaim_antitone b cr mr :
  0 <= b_cap_cpu b -> 0 <= b_cap_mem b ->
  cr <= s_cpu_reclaim (b_s b) <= 100 -> mr <= s_mem_reclaim (b_s b) <= 100 ->
  batch_dim (node_cpu (with_reclaim b cr mr)) <= batch_dim (node_cpu b) /\
  batch_dim (node_mem (with_reclaim b cr mr)) <= batch_dim (node_mem b).
Proof.
  intros Hc Hm Hcr Hmr. split; apply batch_dim_antitone; unfold dim_le, node_cpu, node_mem, with_reclaim;
    cbn [d_policy d_thr d_cap d_margin d_reserved d_sys d_pods d_dang b_s b_cap_cpu b_cap_mem
         s_cpu_policy s_mem_policy s_cpu_reclaim s_mem_reclaim s_cpu_thr s_mem_thr b_pods b_dang].
  - split; [reflexivity|]. split; [reflexivity|]. split; [reflexivity|].
    split; [apply margin_mono; assumption|].
    split; [apply Z.eq_le_incl; reflexivity|]. split; [apply Z.eq_le_incl; reflexivity|].
    split; [apply Forall2_refl, pv_le_refl|apply Forall2_refl, dang_le_refl].
  - split; [reflexivity|]. split; [reflexivity|]. split; [reflexivity|].
    split; [apply margin_mono; assumption|].
    split; [apply Z.eq_le_incl; reflexivity|]. split; [apply Z.eq_le_incl; reflexivity|].
    split; [apply Forall2_refl, pv_le_refl|apply Forall2_refl, dang_le_refl].
Qed.

Lemma input_le_stale a b : input_leb a b = true -> stale a = stale b.
Proof.
  intros Hle. pose proof (input_le_facts a b Hle) as (Hs & _).
  unfold stale. rewrite Hs. f_equal. unfold input_leb in Hle. split_andb. assumption.
Qed.

Theorem run_batch_reclaim a b : input_wf a = true -> reclaim_code a b (run_batch a) (run_batch b) = 0.
Proof.
  intros Hwf. apply input_wf_parts in Hwf. destruct Hwf as (Hc & Hm & _).
  unfold reclaim_code. destruct (reclaim_leb a b) eqn:Hr; cbn [negb]; [|reflexivity].
  unfold reclaim_leb in Hr. cbv zeta in Hr.
  set (a' := with_reclaim a (s_cpu_reclaim (b_s b)) (s_mem_reclaim (b_s b))) in *.
  apply andb_true_iff in Hr. destruct Hr as [Hr H6]. apply andb_true_iff in Hr. destruct Hr as [Hr H5].
  apply andb_true_iff in Hr. destruct Hr as [Hr H4]. apply andb_true_iff in Hr. destruct Hr as [Hr H3].
  apply andb_true_iff in Hr. destruct Hr as [H1 H2].
  apply Z.leb_le in H3. apply Z.leb_le in H4. apply Z.leb_le in H5. apply Z.leb_le in H6.
  pose proof (node_antitone a' b H1) as [A1 A2]. pose proof (node_antitone b a' H2) as [B1 B2].
  pose proof (reclaim_antitone a _ _ Hc Hm (conj H3 H4) (conj H5 H6)) as [R1 R2]. fold a' in R1, R2.
  assert (stale a = stale b) as Hst by (rewrite <- (input_le_stale a' b H1); reflexivity).
  unfold run_batch. fold (stale a). fold (stale b). rewrite <- Hst.
  destruct (stale a); [reflexivity|]. cbn [app].
  assert ((batch_dim (node_cpu b) <=? batch_dim (node_cpu a)) = true) as -> by (apply Z.leb_le; lia).
  assert ((batch_dim (node_mem b) <=? batch_dim (node_mem a)) = true) as -> by (apply Z.leb_le; lia).
  reflexivity.
Qed.
