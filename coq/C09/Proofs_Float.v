(* C09 — sign facts about the binary64 operations of Model.v (all the bounds need). *)
From Coq Require Import List ZArith Bool Lia.
From Verif Require Import C09.Model.
Import ListNotations.
Open Scope Z_scope.

Lemma shiftl1_pos k : 0 <= k -> 0 < Z.shiftl 1 k.
Proof.
  intros H. rewrite Z.shiftl_mul_pow2 by lia. pose proof (Z.pow_pos_nonneg 2 k). lia.
Qed.

Lemma div_nonneg a b : 0 <= a -> 0 <= b -> 0 <= a / b.
Proof.
  intros Ha Hb. destruct (Z.eq_dec b 0) as [->|Hn].
  - rewrite Zdiv_0_r. lia.
  - apply Z.div_pos; lia.
Qed.

Lemma rnd_qr_ge q r den : q <= rnd_qr q r den.
Proof. unfold rnd_qr. destruct (_ || _); lia. Qed.

Lemma scaled_div_nonneg n d s q r den :
  0 <= n -> 0 <= d -> scaled_div n d s = (q, r, den) -> 0 <= q.
Proof.
  intros Hn Hd. unfold scaled_div.
  destruct (Z.div_eucl _ _) as [q' r'] eqn:E. intros H. inversion H; subst.
  assert (q = Z.shiftl n (Z.max s 0) / Z.shiftl d (Z.max (- s) 0)) as ->
    by (unfold Z.div; rewrite E; reflexivity).
  apply div_nonneg; apply Z.shiftl_nonneg; assumption.
Qed.

Lemma rne_pos_nonneg n d : 0 <= n -> 0 <= d -> 0 <= fst (rne_pos n d).
Proof.
  intros Hn Hd. unfold rne_pos.
  destruct (n =? 0); [simpl; lia|].
  destruct (scaled_div n d (52 - (Z.log2 n - Z.log2 d))) as [[q0 r0] den0] eqn:E0.
  destruct (q0 <? 4503599627370496).
  - destruct (scaled_div n d (52 - (Z.log2 n - Z.log2 d) + 1)) as [[q r] den] eqn:E1.
    cbn [fst]. pose proof (scaled_div_nonneg _ _ _ _ _ _ Hn Hd E1). pose proof (rnd_qr_ge q r den). lia.
  - cbn [fst]. pose proof (scaled_div_nonneg _ _ _ _ _ _ Hn Hd E0). pose proof (rnd_qr_ge q0 r0 den0). lia.
Qed.

Lemma rne_nonneg n d : 0 <= n -> 0 <= d -> 0 <= fst (rne n d).
Proof.
  intros Hn Hd. unfold rne. destruct (n <? 0) eqn:E; [lia|]. apply rne_pos_nonneg; assumption.
Qed.

Lemma f_of_int_nonneg v : 0 <= v -> 0 <= fst (f_of_int v).
Proof. intros H. apply rne_nonneg; lia. Qed.

Lemma f_div_nonneg a b : 0 <= fst a -> 0 <= fst b -> 0 <= fst (f_div a b).
Proof.
  destruct a as [ma ea], b as [mb eb]. cbn [fst]. intros Ha Hb. unfold f_div.
  destruct (mb <? 0) eqn:E; [lia|].
  destruct (rne ma (Z.abs mb)) as [m e] eqn:Er. cbn [fst].
  change m with (fst (m, e)). rewrite <- Er. apply rne_nonneg; lia.
Qed.

Lemma f_mul_nonneg a b : 0 <= fst a -> 0 <= fst b -> 0 <= fst (f_mul a b).
Proof.
  destruct a as [ma ea], b as [mb eb]. cbn [fst]. intros Ha Hb. unfold f_mul.
  destruct (rne (ma * mb) 1) as [m e] eqn:Er. cbn [fst].
  change m with (fst (m, e)). rewrite <- Er. apply rne_nonneg; lia.
Qed.

Lemma f_trunc_nonneg a : 0 <= fst a -> 0 <= f_trunc a.
Proof.
  destruct a as [m e]. cbn [fst]. intros H. unfold f_trunc.
  destruct (0 <=? e) eqn:E.
  - apply Z.shiftl_nonneg. assumption.
  - apply Z.quot_pos; [assumption|]. apply shiftl1_pos. lia.
Qed.

Lemma f_ceil_nonneg a : 0 <= fst a -> 0 <= f_ceil a.
Proof.
  destruct a as [m e]. cbn [fst]. intros H. unfold f_ceil.
  destruct (0 <=? e) eqn:E.
  - apply Z.shiftl_nonneg. assumption.
  - assert (0 < Z.shiftl 1 (- e)) as Hp by (apply shiftl1_pos; lia).
    assert (- m / Z.shiftl 1 (- e) <= 0); [|lia].
    apply Z.div_le_upper_bound; lia.
Qed.

Lemma f_pct_nonneg p : 0 <= p -> 0 <= fst (f_pct p).
Proof. intros H. apply f_div_nonneg; apply f_of_int_nonneg; lia. Qed.

Lemma mul_ratio_nonneg v r : 0 <= v -> 0 <= fst r -> 0 <= mul_ratio v r.
Proof.
  intros Hv Hr. apply f_trunc_nonneg, f_mul_nonneg; [apply f_of_int_nonneg|]; assumption.
Qed.

Lemma div_ceil_nonneg v n : 0 <= v -> 0 <= n -> 0 <= div_ceil v n.
Proof.
  intros Hv Hn. apply f_ceil_nonneg, f_div_nonneg; apply f_of_int_nonneg; assumption.
Qed.

Lemma thr_term_nonneg thr cap c : 0 <= cap -> thr_term thr cap = Some c -> 0 <= c.
Proof.
  unfold thr_term. intros Hc. destruct (thr <? 0) eqn:E; [discriminate|].
  intros H. inversion H; subst. apply mul_ratio_nonneg; [assumption|]. apply f_pct_nonneg. lia.
Qed.
