(* C09 — proofs about the configuration path (Cfg.v) against its declarative specification
   (CfgSpec.v): the handler's cache after ANY history of ConfigMap events is the compiled form of
   the last accepted content; the strategy served to a node is the layered one (default < cluster <
   first matching entry); every reconcile of every history obeys C09 under that strategy. *)
From Coq Require Import List ZArith Bool Lia.
From Verif Require Import C09.Model C09.Spec C09.Proofs C09.Cfg C09.CfgSpec.
Import ListNotations.
Open Scope Z_scope.

(* ---------------- the JSON overlay ---------------- *)
Lemma mpol_absorb a b : mpol a (mpol a b) = mpol a b.
Proof. unfold mpol. destruct (b =? 0) eqn:E; [|rewrite E; reflexivity]. destruct (a =? 0); reflexivity. Qed.
Lemma mpct_absorb a b : mpct a (mpct a b) = mpct a b.
Proof. unfold mpct. destruct (b =? -1) eqn:E; [|rewrite E; reflexivity]. destruct (a =? -1); reflexivity. Qed.
Lemma mpol_self a : mpol a a = a.
Proof. unfold mpol. destruct (a =? 0); reflexivity. Qed.
Lemma mpct_self a : mpct a a = a.
Proof. unfold mpct. destruct (a =? -1); reflexivity. Qed.

Lemma merge_absorb a b : merge a (merge a b) = merge a b.
Proof. unfold merge. cbn [q_cpol q_mpol q_crec q_mrec q_cthr q_mthr q_deg q_upd].
  rewrite !mpol_absorb, !mpct_absorb. reflexivity. Qed.
Lemma merge_self a : merge a a = a.
Proof. destruct a as [a1 a2 a3 a4 a5 a6 a7 a8]. unfold merge. cbn [q_cpol q_mpol q_crec q_mrec q_cthr q_mthr q_deg q_upd].
  rewrite !mpol_self, !mpct_self. reflexivity. Qed.
Lemma merge_empty a : merge a empty_patch = a.
Proof. destruct a as [a1 a2 a3 a4 a5 a6 a7 a8]. reflexivity. Qed.

(* "first present wins" over the layers = the chain of overlays the code performs *)
Lemma layered_one c : layered [c] = merge default_patch c.
Proof. reflexivity. Qed.
Lemma layered_two e c : layered [e; c] = merge (merge default_patch c) e.
Proof.
  unfold layered, merge, mpol, mpct. cbn [map first_pol first_pct q_cpol q_mpol q_crec q_mrec q_cthr q_mthr q_deg q_upd].
  reflexivity.
Qed.

(* ---------------- validity is field-wise, presence survives an overlay ---------------- *)
Definition present (q : spatch) : bool :=
  negb (q_cpol q =? 0) && negb (q_mpol q =? 0) && negb (q_crec q =? -1) && negb (q_mrec q =? -1)
  && negb (q_deg q =? -1).
Definition full_valid (q : spatch) : bool := patch_valid q && present q.

Lemma full_valid_default : full_valid default_patch = true.
Proof. reflexivity. Qed.

Lemma mpol_present a b : (a =? 0) = false -> (mpol a b =? 0) = false.
Proof. unfold mpol. intros H. destruct (b =? 0) eqn:E; [exact H|exact E]. Qed.
Lemma mpct_present a b : (a =? -1) = false -> (mpct a b =? -1) = false.
Proof. unfold mpct. intros H. destruct (b =? -1) eqn:E; [exact H|exact E]. Qed.

Lemma present_merge a b : present a = true -> present (merge a b) = true.
Proof.
  unfold present. intros H.
  repeat (apply andb_true_iff in H; destruct H as [H ?]).
  repeat match goal with X : negb _ = true |- _ => apply negb_true_iff in X end.
  cbn [merge q_cpol q_mpol q_crec q_mrec q_deg].
  rewrite !mpol_present, !mpct_present by assumption. reflexivity.
Qed.

Lemma mpct_ok (P : Z -> bool) a b : P a = true -> P b = true -> P (mpct a b) = true.
Proof. unfold mpct. destruct (b =? -1); auto. Qed.
Lemma valid_merge a b : patch_valid a = true -> patch_valid b = true -> patch_valid (merge a b) = true.
Proof.
  unfold patch_valid. intros Ha Hb.
  repeat (apply andb_true_iff in Ha; destruct Ha as [Ha ?]).
  repeat (apply andb_true_iff in Hb; destruct Hb as [Hb ?]).
  cbn [merge q_crec q_mrec q_cthr q_mthr q_deg q_upd].
  repeat (apply andb_true_iff; split); apply mpct_ok; assumption.
Qed.
Lemma full_valid_merge a b : full_valid a = true -> full_valid b = true -> full_valid (merge a b) = true.
Proof.
  unfold full_valid. intros Ha Hb. apply andb_true_iff in Ha. apply andb_true_iff in Hb.
  destruct Ha as [Ha1 Ha2]. destruct Hb as [Hb1 Hb2].
  apply andb_true_iff. split; [apply valid_merge; assumption|apply present_merge; assumption].
Qed.

Lemma full_valid_strategy q : full_valid q = true ->
  strategy_valid (to_strategy q) = true /\ s_cpu_policy (to_strategy q) <> 0 /\ s_mem_policy (to_strategy q) <> 0.
Proof.
  unfold full_valid, patch_valid, present, pct_ok, pos_ok, strategy_valid. intros H.
  cbn [to_strategy s_cpu_reclaim s_mem_reclaim s_cpu_thr s_mem_thr s_degrade s_cpu_policy s_mem_policy].
  rewrite !andb_true_iff, !negb_true_iff, !orb_true_iff in H.
  rewrite ?Z.eqb_neq, ?Z.leb_le, ?Z.eqb_eq, ?Z.ltb_lt in H.
  rewrite !andb_true_iff, !Z.leb_le, !Z.ltb_lt. lia.
Qed.

(* ---------------- the cache is well-formed after any history ---------------- *)
Definition good (st : cstate) : Prop :=
  full_valid (st_cluster st) = true /\ Forall (fun e => full_valid (snd e) = true) (st_nodes st).

Lemma good_st0 : good st0.
Proof. split; [reflexivity|constructor]. Qed.

Lemma sync_entry_valid c e : full_valid c = true -> full_valid (snd (sync_entry c e)) = true.
Proof.
  intros Hc. unfold sync_entry. cbn [snd].
  destruct (patch_valid (merge c (snd e))) eqn:E; [|exact Hc].
  unfold full_valid. rewrite E. cbn [andb]. apply present_merge.
  unfold full_valid in Hc. apply andb_true_iff in Hc. tauto.
Qed.

Lemma good_sync st d : good st -> good (sync_data st d).
Proof.
  intros Hg. unfold sync_data.
  destruct d as [cm|]; [|split; [reflexivity|constructor]].
  destruct (cm_kind cm =? 1); [split; [reflexivity|constructor]|].
  destruct (cm_kind cm =? 0); [|exact Hg].
  destruct (patch_valid (merge default_patch (cm_cluster cm))) eqn:E; [|exact Hg].
  assert (Hc : full_valid (merge default_patch (cm_cluster cm)) = true).
  { unfold full_valid. rewrite E. cbn [andb]. apply present_merge. reflexivity. }
  split; cbn [st_cluster st_nodes]; [exact Hc|].
  unfold sync_nodes. apply Forall_forall. intros x Hx. apply in_map_iff in Hx.
  destruct Hx as (e & <- & _). apply sync_entry_valid. exact Hc.
Qed.

Lemma good_set_stored st d : good st -> good (set_stored st d).
Proof. intros H. exact H. Qed.

Lemma good_step b nc st o : good st -> good (fst (cstep b nc st o)).
Proof.
  intros Hg. unfold cstep.
  destruct (o_kind o =? 1); [cbn [fst]; apply good_sync, good_set_stored, Hg|].
  destruct (o_kind o =? 3); [cbn [fst]; exact Hg|].
  destruct (o_kind o =? 4); [|exact Hg].
  cbn [fst]. unfold ensure. destruct (st_avail st); [exact Hg|apply good_sync, Hg].
Qed.

Definition final_state (b : binput) (nc : nodecfg) (ops : list cop) : cstate :=
  fold_left (fun st o => fst (cstep b nc st o)) ops st0.

Lemma good_fold b nc ops : forall st, good st -> good (fold_left (fun st o => fst (cstep b nc st o)) ops st).
Proof. induction ops as [|o t IH]; intros st Hg; [exact Hg|]. cbn [fold_left]. apply IH, good_step, Hg. Qed.

Lemma find_some_in {A} (f : A -> bool) l x : find f l = Some x -> In x l.
Proof. intros H. apply find_some in H. tauto. Qed.

Lemma good_lookup st pool tier : good st -> full_valid (lookup st pool tier) = true.
Proof.
  intros [Hc Hn]. unfold lookup. destruct (first_match (st_nodes st) pool tier) as [e|] eqn:E; [|exact Hc].
  apply full_valid_merge; [exact Hc|].
  unfold first_match in E. apply find_some_in in E. rewrite Forall_forall in Hn. apply (Hn e E).
Qed.

(* whatever was delivered, the strategy a node is calculated with is one IsColocationStrategyValid
   accepts, with both policies, both reclaim thresholds and the degrade time present *)
Theorem served_strategy_valid b nc ops pool tier :
  let s := to_strategy (lookup (final_state b nc ops) pool tier) in
  strategy_valid s = true /\ s_cpu_policy s <> 0 /\ s_mem_policy s <> 0.
Proof.
  cbv zeta. apply full_valid_strategy, good_lookup. unfold final_state. apply good_fold, good_st0.
Qed.

(* ---------------- re-syncing the same data is a no-op (why a dropped equal-Data Update is harmless) ---------------- *)
Lemma sync_idem st d : sync_data (sync_data st d) d = sync_data st d.
Proof.
  unfold sync_data. destruct d as [cm|]; [|reflexivity].
  destruct (cm_kind cm =? 1); [reflexivity|].
  destruct (cm_kind cm =? 0); [|reflexivity].
  destruct (patch_valid (merge default_patch (cm_cluster cm))); reflexivity.
Qed.

(* ---------------- the cache is the compiled form of the accepted content ---------------- *)
Definition compiled (st : cstate) (c : content) : Prop :=
  st_cluster st = merge default_patch (fst c) /\
  st_nodes st = sync_nodes (merge default_patch (fst c)) (snd c).
Definition inv (st : cstate) (r : rstate) : Prop :=
  st_stored st = r_stored r /\
  match r_cur r with
  | None => st_avail st = false
  | Some c => st_avail st = true /\ compiled st c
  end.

Lemma inv0 : inv st0 r0.
Proof. split; reflexivity. Qed.

Lemma first_match_sync c ns pool tier :
  first_match (sync_nodes c ns) pool tier = option_map (sync_entry c) (first_match ns pool tier).
Proof.
  unfold first_match, sync_nodes. induction ns as [|e t IH]; [reflexivity|].
  cbn [map find]. unfold sync_entry at 1. cbn [fst].
  destruct (sel_matches (fst e) pool tier); [reflexivity|exact IH].
Qed.

Lemma lookup_configured st c pool tier : compiled st c -> lookup st pool tier = configured c pool tier.
Proof.
  intros [Hc Hn]. unfold lookup, configured, node_layer. rewrite Hn, Hc, first_match_sync.
  destruct (first_match (snd c) pool tier) as [e|]; cbn [option_map].
  - unfold sync_entry. cbn [snd]. rewrite (layered_two (snd e) (fst c)).
    destruct (patch_valid (merge (merge default_patch (fst c)) (snd e))).
    + rewrite merge_absorb, layered_two. reflexivity.
    + rewrite merge_self, layered_two, merge_empty. reflexivity.
  - rewrite layered_two, merge_empty. reflexivity.
Qed.

Lemma inv_sync_some st r cm : inv st r ->
  inv (sync_data st (Some cm))
      (mkR (match acceptable cm with Some c => Some c | None => r_cur r end) (r_stored r)).
Proof.
  intros [Hs Hc]. unfold sync_data, acceptable. rewrite layered_one.
  destruct (cm_kind cm =? 1).
  { split; [exact Hs|]. cbn [r_cur]. split; [reflexivity|]. split; reflexivity. }
  destruct (cm_kind cm =? 0); [|split; [exact Hs|exact Hc]].
  destruct (patch_valid (merge default_patch (cm_cluster cm))); [|split; [exact Hs|exact Hc]].
  split; [exact Hs|]. cbn [r_cur]. split; [reflexivity|]. split; reflexivity.
Qed.
Lemma inv_sync_none st r : inv st r ->
  inv (sync_data st None) (mkR (Some default_content) (r_stored r)).
Proof. intros [Hs _]. split; [exact Hs|]. cbn [r_cur]. split; [reflexivity|]. split; reflexivity. Qed.

Lemma inv_ensure st r : inv st r -> inv (ensure st) (r_ensure r).
Proof.
  intros Hi. pose proof Hi as [Hs Hc]. unfold ensure, r_ensure.
  destruct (r_cur r) as [c|] eqn:Er.
  - destruct Hc as [Ha _]. rewrite Ha. exact Hi.
  - rewrite Hc, Hs. destruct (r_stored r) as [cm|] eqn:Est.
    + pose proof (inv_sync_some st r cm Hi) as H. rewrite Er, Est in H.
      destruct (acceptable cm); exact H.
    + pose proof (inv_sync_none st r Hi) as H. rewrite Est in H. exact H.
Qed.

Lemma inv_step b nc st r o : inv st r -> inv (fst (cstep b nc st o)) (rstep r o).
Proof.
  intros Hi. unfold cstep, rstep.
  destruct (o_kind o =? 1).
  { cbn [fst].
    assert (H0 : inv (set_stored st (Some (o_cm o))) (mkR (r_cur r) (Some (o_cm o)))).
    { destruct Hi as [_ Hc]. split; [reflexivity|exact Hc]. }
    apply (inv_sync_some _ _ (o_cm o)) in H0. exact H0. }
  destruct (o_kind o =? 3).
  { cbn [fst]. destruct Hi as [_ Hc]. split; [reflexivity|exact Hc]. }
  destruct (o_kind o =? 4); [|exact Hi].
  cbn [fst]. apply inv_ensure, Hi.
Qed.

Definition final_ref (ops : list cop) : rstate := fold_left rstep ops r0.

Theorem cache_refines b nc ops : inv (final_state b nc ops) (final_ref ops).
Proof.
  unfold final_state, final_ref. generalize st0 r0 inv0.
  induction ops as [|o t IH]; intros st r Hi; [exact Hi|].
  cbn [fold_left]. apply IH, inv_step, Hi.
Qed.

(* ---------------- entries of other pools are irrelevant ---------------- *)
Lemma first_match_app pre e post pool tier :
  (forall x, In x pre -> sel_matches (fst x) pool tier = false) ->
  sel_matches (fst e) pool tier = true ->
  first_match (pre ++ e :: post) pool tier = Some e.
Proof.
  intros Hp He. unfold first_match. induction pre as [|x t IH]; cbn [app find].
  - rewrite He. reflexivity.
  - rewrite (Hp x (or_introl eq_refl)). apply IH. intros y Hy. apply Hp. right. exact Hy.
Qed.
Theorem configured_isolated c pre e post pool tier :
  (forall x, In x pre -> sel_matches (fst x) pool tier = false) ->
  sel_matches (fst e) pool tier = true ->
  configured (c, pre ++ e :: post) pool tier = configured (c, [e]) pool tier.
Proof.
  intros Hp He. unfold configured, node_layer. cbn [fst snd].
  rewrite (first_match_app pre e post pool tier Hp He).
  unfold first_match. cbn [find]. rewrite He. reflexivity.
Qed.
Theorem configured_nomatch c ns pool tier :
  (forall x, In x ns -> sel_matches (fst x) pool tier = false) ->
  configured (c, ns) pool tier = layered [c].
Proof.
  intros Hp. unfold configured, node_layer. cbn [fst snd].
  assert (first_match ns pool tier = None) as ->.
  { unfold first_match. induction ns as [|x t IH]; [reflexivity|]. cbn [find].
    rewrite (Hp x (or_introl eq_refl)). apply IH. intros y Hy. apply Hp. right. exact Hy. }
  rewrite layered_two, merge_empty, layered_one. reflexivity.
Qed.

(* ---------------- every reconcile of every history obeys C09 under the configured strategy ---------------- *)
Lemma zones_out_length b n zs : forall i, length (zones_out b n i zs) = (2 * length zs)%nat.
Proof. induction zs as [|z t IH]; intros i; [reflexivity|]. cbn [zones_out length]. rewrite IH. lia. Qed.

Lemma run_batch_chunk x rest :
  chunk_len (run_batch x ++ rest) = length (run_batch x) /\ run_batch x <> [] /\
  eq_listZ (run_batch x) unavailable = false.
Proof.
  unfold run_batch. destruct (is_degraded _ _); [split; [reflexivity|split; [discriminate|reflexivity]]|].
  split; [|split; [discriminate|reflexivity]].
  cbn [app chunk_len Z.eqb length]. rewrite zones_out_length, Nat2Z.id. lia.
Qed.

Lemma firstn_app_exact {A} (l r : list A) : firstn (length l) (l ++ r) = l.
Proof. rewrite firstn_app, Nat.sub_diag, firstn_all. cbn [firstn]. apply app_nil_r. Qed.
Lemma skipn_app_exact {A} (l r : list A) : skipn (length l) (l ++ r) = r.
Proof. rewrite skipn_app, Nat.sub_diag, skipn_all. reflexivity. Qed.

Lemma input_wf_set_strategy b s : input_wf (set_strategy b s) = input_wf b.
Proof. reflexivity. Qed.

Lemma query_ok st r o b nc rest :
  input_wf b = true -> inv st r ->
  let q := query st (o_pool o) (o_tier o) b nc in
  q <> [] /\ firstn (chunk_len (q ++ rest)) (q ++ rest) = q /\
  skipn (chunk_len (q ++ rest)) (q ++ rest) = rest /\ query_code r o b nc q = 0.
Proof.
  intros Hwf [_ Hc]. cbv zeta. unfold query, query_code.
  destruct (r_cur r) as [c|].
  - destruct Hc as [Ha Hcomp]. rewrite Ha. rewrite (lookup_configured st c _ _ Hcomp).
    fold (configured_input c (o_pool o) (o_tier o) b nc).
    destruct (run_batch_chunk (configured_input c (o_pool o) (o_tier o) b nc) rest) as (Hl & Hne & Hu).
    rewrite Hl, Hu. split; [exact Hne|]. split; [apply firstn_app_exact|]. split; [apply skipn_app_exact|].
    apply run_batch_code. unfold configured_input. rewrite input_wf_set_strategy. exact Hwf.
  - rewrite Hc. repeat split; discriminate.
Qed.

Lemma code_from_run b nc : input_wf b = true ->
  forall ops st r, inv st r -> code_from b nc r ops (run_from b nc st ops) = 0.
Proof.
  intros Hwf. induction ops as [|o t IH]; intros st r Hi; [reflexivity|].
  cbn [run_from code_from].
  pose proof (inv_step b nc st r o Hi) as Hi1.
  unfold cstep in *.
  destruct (o_kind o =? 1) eqn:E1.
  { assert (o_kind o =? 4 = false) as -> by (apply Z.eqb_eq in E1; rewrite E1; reflexivity).
    cbn [fst] in Hi1. cbn [app]. apply IH, Hi1. }
  destruct (o_kind o =? 3) eqn:E3.
  { assert (o_kind o =? 4 = false) as -> by (apply Z.eqb_eq in E3; rewrite E3; reflexivity).
    cbn [fst] in Hi1. cbn [app]. apply IH, Hi1. }
  destruct (o_kind o =? 4) eqn:E4; [|cbn [fst] in Hi1; cbn [app]; apply IH, Hi1].
  cbn [fst] in Hi1.
  destruct (query_ok (ensure st) (rstep r o) o b nc (run_from b nc (ensure st) t) Hwf Hi1) as (Hne & Hf & Hs & Hq).
  set (q := query (ensure st) (o_pool o) (o_tier o) b nc) in *.
  destruct (q ++ run_from b nc (ensure st) t) as [|h tl] eqn:Eq.
  { destruct q; [contradiction|discriminate]. }
  rewrite Hf, Hs, Hq. cbn [Z.eqb]. apply IH, Hi1.
Qed.

Theorem run_cfg_code ops b nc : input_wf b = true -> cfg_code ops b nc (run_cfg ops b nc) = 0.
Proof. intros Hwf. unfold cfg_code, run_cfg. apply code_from_run; [exact Hwf|exact inv0]. Qed.

(* ---------------- the decision procedure is sound for the Prop ---------------- *)
Lemma code_from_sound b nc ops : forall r obs,
  code_from b nc r ops obs = 0 -> exists chunks, concat chunks = obs /\ holds_from b nc r ops chunks.
Proof.
  induction ops as [|o t IH]; intros r obs H; cbn [code_from holds_from] in *.
  - destruct obs; [exists []; split; reflexivity|discriminate].
  - destruct (o_kind o =? 4).
    + destruct obs as [|h tl] eqn:Eo; [discriminate|]. rewrite <- Eo in *.
      set (n := chunk_len obs) in *.
      destruct (query_code (rstep r o) o b nc (firstn n obs) =? 0) eqn:Eq; [|apply Z.eqb_neq in Eq; congruence].
      apply Z.eqb_eq in Eq. destruct (IH _ _ H) as (chunks & Hc & Hh).
      exists (firstn n obs :: chunks). split; [cbn [concat]; rewrite Hc; apply firstn_skipn|].
      split; [|exact Hh]. unfold query_code in Eq.
      destruct (r_cur (rstep r o)) as [c|].
      * destruct (eq_listZ (firstn n obs) unavailable) eqn:Eu; [discriminate|].
        split; [intros Hx; rewrite Hx in Eu; discriminate|]. apply batch_code_spec. exact Eq.
      * destruct (eq_listZ (firstn n obs) unavailable) eqn:Eu; [|discriminate].
        apply eq_listZ_spec. exact Eu.
    + apply IH. exact H.
Qed.
Theorem cfg_code_sound ops b nc obs :
  cfg_code ops b nc obs = 0 -> exists chunks, concat chunks = obs /\ C09_cfg_holds ops b nc chunks.
Proof. apply code_from_sound. Qed.

(* ---------------- witnesses ---------------- *)
(* two pools; the second entry only tunes the degrade time: its nodes keep the cluster's 60 % *)
Definition witness_cm : cmdata :=
  mkCM 0 (mkPatch 0 0 60 60 (-1) (-1) 15 300)
       [ (mkSel 2 1 0, mkPatch 0 0 95 95 (-1) (-1) (-1) (-1));
         (mkSel 2 2 0, mkPatch 0 0 (-1) (-1) (-1) (-1) 10 (-1)) ].
Lemma witness_configured :
  acceptable witness_cm = Some (cm_cluster witness_cm, cm_nodes witness_cm) /\
  configured (cm_cluster witness_cm, cm_nodes witness_cm) 1 0 = mkPatch 1 1 95 95 (-1) (-1) 15 300 /\
  configured (cm_cluster witness_cm, cm_nodes witness_cm) 2 0 = mkPatch 1 1 60 60 (-1) (-1) 10 300 /\
  configured (cm_cluster witness_cm, cm_nodes witness_cm) 3 0 = mkPatch 1 1 60 60 (-1) (-1) 15 300.
Proof. repeat split; reflexivity. Qed.
