(* C09 — what Plugin.Prepare PUBLISHES on the node: the calculated amount minus the third-party
   allocations of priority koord-batch recorded in the node annotation
   node.koordinator.sh/thirdPartyAllocations (batchresource/plugin.go Prepare:
   quotav1.Max(quotav1.Subtract(origin, thirdParty), 0)).  Model, clause and proofs in one file (new in
   round 4; the observable of Model.run_batch is post-processed, the input record is unchanged). *)
From Coq Require Import List ZArith Bool Lia.
From Verif Require Import C09.Model C09.Spec C09.Proofs_Agg C09.Proofs_Mono C09.Proofs.
Import ListNotations.
Open Scope Z_scope.

(* annotation kinds: 0 absent; 1 one koord-batch allocation (cpu milli, memory bytes); 2 the same amount
   split over two koord-batch entries next to a koord-prod entry (ignored); 3 does not parse (Prepare
   fails after the unsubtracted amount was written: nothing is subtracted); 4 only entries of other
   priorities *)
Notation tpalloc := (option (Z * Z)).
Definition tp_of (kind c m : Z) : tpalloc :=
  if (kind =? 1) || (kind =? 2) then Some (c, m) else if kind =? 4 then Some (0, 0) else None.

Definition publish (tp x : Z) : Z := Z.max (x - tp) 0.
Definition apply_tp (tp : tpalloc) (obs : list Z) : list Z :=
  match tp, obs with
  | Some (tc, tm), 0 :: pc :: pm :: t => 0 :: publish tc pc :: publish tm pm :: t
  | _, _ => obs
  end.

Definition tp_nonneg (tp : tpalloc) : bool :=
  match tp with Some (c, m) => (0 <=? c) && (0 <=? m) | None => true end.
Definition tp_leb (a b : tpalloc) : bool :=
  match a, b with
  | None, None => true
  | Some (c1, m1), Some (c2, m2) => (c1 <=? c2) && (m1 <=? m2)
  | _, _ => false
  end.

(* clause 7: a third-party allocation is a consumption input too — raising it (or any other consumption
   input) never raises the PUBLISHED amount; an absent (-1) published amount is always safe *)
Definition pub_le (xb xa : Z) : bool := (xb =? -1) || (xa =? -1) || (xb <=? xa).
Definition pub_antitone_code (a b : binput) (ta tb : tpalloc) (oa ob : list Z) : Z :=
  if negb (input_leb a b && tp_leb ta tb) then 0
  else match oa, ob with
       | 0 :: pca :: pma :: _, 0 :: pcb :: pmb :: _ => if pub_le pcb pca && pub_le pmb pma then 0 else 7
       | _, _ => 0
       end.

(* ---------------- proofs ---------------- *)
Lemma dim_spec_down d x y : dim_spec false d x -> 0 <= y <= x -> dim_spec false d y.
Proof.
  intros [(H0 & H1 & H2) _] Hy. split; [|discriminate].
  split; [lia|]. split; [lia|]. intros c Hc. specialize (H2 c Hc). lia.
Qed.

Lemma publish_range tp x : 0 <= tp -> 0 <= x -> 0 <= publish tp x <= x.
Proof. unfold publish. lia. Qed.

Lemma dim_spec_nonneg d x : dim_spec false d x -> 0 <= x.
Proof. intros [(H0 & _) _]. exact H0. Qed.

Theorem published_holds b tp :
  input_wf b = true -> tp_nonneg tp = true -> C09_holds b (apply_tp tp (run_batch b)).
Proof.
  intros Hwf Htp. pose proof (run_batch_holds b Hwf) as H.
  unfold C09_holds, batch_spec in *. unfold run_batch in *. fold (stale b) in *.
  destruct (stale b) eqn:Es.
  { left. destruct tp as [[tc tm]|]; reflexivity. }
  destruct tp as [[tc tm]|]; [|exact H].
  destruct H as [H|H]; [discriminate|].
  destruct H as (pc & pm & c & m & nz & zobs & Heq & Hst & Hc & Hm & Hpc & Hpm & Hz).
  cbn [app] in Heq. injection Heq as E1 E2 E3 E4 E5 E6.
  cbn [tp_nonneg] in Htp. apply andb_true_iff in Htp. destruct Htp as [Htc Htm].
  apply Z.leb_le in Htc. apply Z.leb_le in Htm.
  subst pc pm c m nz zobs.
  right. cbn [app apply_tp].
  eexists _, _, _, _, _, _.
  split; [reflexivity|]. split; [reflexivity|]. split; [exact Hc|]. split; [exact Hm|].
  split; [right; eapply dim_spec_down; [exact Hc|apply publish_range; [exact Htc|eapply dim_spec_nonneg, Hc]]|].
  split; [right; eapply dim_spec_down; [exact Hm|apply publish_range; [exact Htm|eapply dim_spec_nonneg, Hm]]|].
  exact Hz.
Qed.

Corollary published_code b tp :
  input_wf b = true -> tp_nonneg tp = true -> batch_code false b (apply_tp tp (run_batch b)) = 0.
Proof. intros H1 H2. apply batch_code_spec, published_holds; assumption. Qed.

Lemma input_leb_stale a b : input_leb a b = true -> stale a = stale b.
Proof.
  intros H. unfold input_leb in H.
  repeat (apply andb_true_iff in H; destruct H as [H ?]).
  unfold stale.
  assert (Hs : s_degrade (b_s a) = s_degrade (b_s b)).
  { unfold strategy_eqb in H. repeat (apply andb_true_iff in H; destruct H as [H ?]).
    apply Z.eqb_eq. assumption. }
  assert (Ha : b_age a = b_age b) by (apply Z.eqb_eq; assumption).
  rewrite Hs, Ha. reflexivity.
Qed.

Theorem published_antitone a b ta tb :
  pub_antitone_code a b ta tb (apply_tp ta (run_batch a)) (apply_tp tb (run_batch b)) = 0.
Proof.
  unfold pub_antitone_code.
  destruct (input_leb a b) eqn:Hle; [|reflexivity].
  destruct (tp_leb ta tb) eqn:Ht; [|reflexivity]. cbn [andb negb].
  pose proof (input_leb_stale a b Hle) as Hst.
  pose proof (node_antitone a b Hle) as [Hc Hm].
  unfold run_batch. fold (stale a). fold (stale b). rewrite <- Hst.
  destruct (stale a).
  { destruct ta as [[? ?]|], tb as [[? ?]|]; reflexivity. }
  unfold pub_le.
  destruct ta as [[c1 m1]|], tb as [[c2 m2]|]; cbn [tp_leb] in Ht; try discriminate; cbn [app apply_tp].
  - apply andb_true_iff in Ht. destruct Ht as [H1 H2]. apply Z.leb_le in H1. apply Z.leb_le in H2.
    assert (publish c2 (batch_dim (node_cpu b)) <=? publish c1 (batch_dim (node_cpu a)) = true) as ->
      by (apply Z.leb_le; unfold publish; lia).
    assert (publish m2 (batch_dim (node_mem b)) <=? publish m1 (batch_dim (node_mem a)) = true) as ->
      by (apply Z.leb_le; unfold publish; lia).
    rewrite !orb_true_r. reflexivity.
  - apply Z.leb_le in Hc. apply Z.leb_le in Hm. rewrite Hc, Hm, !orb_true_r. reflexivity.
Qed.

(* the other two metamorphic clauses never look at the published amounts *)
Lemma antitone_code_tp a b ta tb oa ob :
  antitone_code a b (apply_tp ta oa) (apply_tp tb ob) = antitone_code a b oa ob.
Proof.
  unfold antitone_code. destruct (negb (input_leb a b)); [reflexivity|].
  destruct ta as [[c1 m1]|], tb as [[c2 m2]|];
  destruct oa as [|[|p|p] [|x1 [|y1 t1]]]; destruct ob as [|[|q|q] [|x2 [|y2 t2]]]; reflexivity.
Qed.
Lemma reclaim_code_tp a b ta tb oa ob :
  reclaim_code a b (apply_tp ta oa) (apply_tp tb ob) = reclaim_code a b oa ob.
Proof.
  unfold reclaim_code. destruct (negb (reclaim_leb a b)); [reflexivity|].
  destruct ta as [[c1 m1]|], tb as [[c2 m2]|];
  destruct oa as [|[|p|p] [|x1 [|y1 t1]]]; destruct ob as [|[|q|q] [|x2 [|y2 t2]]]; reflexivity.
Qed.

(* ---------------- CPU normalization (round 5) ----------------
   plugins/util PrepareNodeForResource amplifies batch-cpu by the cpu-normalization ratio of the NodeResource
   annotation (a "%.2f" decimal h/100; only a ratio > 1 counts): MultiplyMilliQuant on the item quantity,
   then Quantity.Value() (rounds up).  Prepare runs several times per reconcile on the SAME NodeResource
   (need-sync check, updateNodeStatus, updateNodeMeta, once more per conflict retry), so it must be
   idempotent: the observable carries the amounts published by a second Prepare as two trailing integers. *)
Definition norm_ratio (kind h : Z) : option fl :=
  if (kind =? 1) && (100 <? h) then Some (rne h 100) else None.
Definition amp (r : option fl) (c : Z) : Z :=
  match r with Some f => - ((- mul_ratio (1000 * c) f) / 1000) | None => c end.
Definition pub_opt (tp : option Z) (x : Z) : Z := match tp with Some t => publish t x | None => x end.
Definition pub_cpu (r : option fl) (tp : tpalloc) (c : Z) : Z := pub_opt (option_map fst tp) (amp r c).
Definition pub_mem (tp : tpalloc) (m : Z) : Z := pub_opt (option_map snd tp) m.

(* model observable of Calculate + Prepare (core) and of a second Prepare (extra) *)
Definition pub_core (r : option fl) (tp : tpalloc) (obs : list Z) : list Z :=
  match obs with
  | 0 :: _ :: _ :: c :: m :: t => 0 :: pub_cpu r tp c :: pub_mem tp m :: c :: m :: t
  | _ => obs
  end.
Definition pub_extra (r : option fl) (tp : tpalloc) (obs : list Z) : list Z :=
  match obs with
  | 0 :: _ :: _ :: c :: m :: _ => [pub_cpu r tp c; pub_mem tp m]
  | _ => []
  end.

(* clause 8: whatever is published — by the first or by a repeated Prepare — never exceeds the calculated
   item amount, amplified ONCE by the ratio and reduced by the third-party allocation (recomputed here from
   the judged item amounts, the ratio and the allocation of the input) *)
Definition norm_code (r : option fl) (tp : tpalloc) (core extra : list Z) : Z :=
  match core with
  | 0 :: pc :: pm :: c :: m :: _ =>
      match extra with
      | [pc2; pm2] =>
          if (pc <=? pub_cpu r tp c) && (pc2 <=? pub_cpu r tp c)
             && (pm <=? pub_mem tp m) && (pm2 <=? pub_mem tp m) then 0 else 8
      | _ => 9
      end
  | _ => 0
  end.
(* under a ratio the first published cpu amount is judged by clause 8, not by the un-normalized bound *)
Definition mask_pub (r : option fl) (core : list Z) : list Z :=
  match r, core with
  | Some _, 0 :: _ :: t => 0 :: -1 :: t
  | _, _ => core
  end.

Theorem pub_norm_code r tp b :
  norm_code r tp (pub_core r tp (run_batch b)) (pub_extra r tp (run_batch b)) = 0.
Proof.
  unfold run_batch. destruct (is_degraded _ _); [reflexivity|].
  cbn [app pub_core pub_extra norm_code]. rewrite !Z.leb_refl. reflexivity.
Qed.

(* the core (published cpu masked under a ratio) still satisfies every bound of C09 *)
Theorem pub_core_holds r tp b :
  input_wf b = true -> tp_nonneg tp = true ->
  C09_holds b (mask_pub r (pub_core r tp (run_batch b))).
Proof.
  intros Hwf Htp. pose proof (run_batch_holds b Hwf) as H.
  unfold C09_holds, batch_spec in *. unfold run_batch in *. fold (stale b) in *.
  destruct (stale b) eqn:Es.
  { left. destruct r; reflexivity. }
  destruct H as [H|H]; [discriminate|].
  destruct H as (pc & pm & c & m & nz & zobs & Heq & Hst & Hc & Hm & Hpc & Hpm & Hz).
  cbn [app] in Heq. injection Heq as E1 E2 E3 E4 E5 E6. subst pc pm c m nz zobs.
  assert (Hmem : pub_spec false (node_mem b) (pub_mem tp (batch_dim (node_mem b)))).
  { destruct tp as [[tc tm]|]; cbn [pub_mem pub_opt option_map snd]; [|exact Hpm].
    cbn [tp_nonneg] in Htp. apply andb_true_iff in Htp. destruct Htp as [_ Htm]. apply Z.leb_le in Htm.
    right. eapply dim_spec_down; [exact Hm|apply publish_range; [exact Htm|eapply dim_spec_nonneg, Hm]]. }
  right. cbn [app pub_core].
  destruct r as [f|]; cbn [mask_pub].
  - eexists _, _, _, _, _, _. split; [reflexivity|]. split; [reflexivity|]. split; [exact Hc|]. split; [exact Hm|].
    split; [left; reflexivity|]. split; [exact Hmem|]. exact Hz.
  - eexists _, _, _, _, _, _. split; [reflexivity|]. split; [reflexivity|]. split; [exact Hc|]. split; [exact Hm|].
    split; [|split; [exact Hmem|exact Hz]].
    unfold pub_cpu, amp. destruct tp as [[tc tm]|]; cbn [pub_opt option_map fst]; [|exact Hpc].
    cbn [tp_nonneg] in Htp. apply andb_true_iff in Htp. destruct Htp as [Htc _]. apply Z.leb_le in Htc.
    right. eapply dim_spec_down; [exact Hc|apply publish_range; [exact Htc|eapply dim_spec_nonneg, Hc]].
Qed.
Corollary pub_core_code r tp b :
  input_wf b = true -> tp_nonneg tp = true ->
  batch_code false b (mask_pub r (pub_core r tp (run_batch b))) = 0.
Proof. intros H1 H2. apply batch_code_spec, pub_core_holds; assumption. Qed.
