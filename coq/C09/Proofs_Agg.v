(* C09 — the accumulator loop of calculateOnNode / calculateOnNUMALevel equals the from-scratch
   sums of Spec.v, and the policy formula in closed form. *)
From Coq Require Import List ZArith Bool Lia.
From Verif Require Import C09.Model C09.Spec.
Import ListNotations.
Open Scope Z_scope.

Lemma sumZ_app l1 l2 : sumZ (l1 ++ l2) = sumZ l1 + sumZ l2.
Proof. induction l1 as [|x l1 IH]; simpl; lia. Qed.

(* [charge] only distinguishes request / maxUsageRequest / anything else *)
Lemma sumZ_cons x l : sumZ (x :: l) = x + sumZ l.
Proof. reflexivity. Qed.

Lemma charge_norm policy p :
  charge policy p = if policy =? 2 then charge 2 p else if policy =? 3 then charge 3 p else charge 1 p.
Proof.
  unfold charge.
  destruct (policy =? 2) eqn:E2; [reflexivity|].
  destruct (policy =? 3) eqn:E3; [reflexivity|].
  change (1 =? 2) with false. change (1 =? 3) with false. reflexivity.
Qed.

Lemma agg_step_spec a p :
  let r := agg_step a p in
  a_req r = a_req a + charge 2 p /\ a_used r = a_used a + charge 1 p /\
  a_max r = a_max a + charge 3 p /\ a_dang r = a_dang a + orphan p.
Proof.
  unfold agg_step, charge, charged, orphan.
  change (1 =? 2) with false. change (1 =? 3) with false.
  change (2 =? 2) with true. change (3 =? 2) with false. change (3 =? 3) with true.
  destruct (v_active p), (v_hp p), (v_has p), (v_lse p), (v_mhp p); cbn; lia.
Qed.

Lemma fold_agg_spec pods : forall a,
  let r := fold_left agg_step pods a in
  a_req r = a_req a + sumZ (map (charge 2) pods) /\
  a_used r = a_used a + sumZ (map (charge 1) pods) /\
  a_max r = a_max a + sumZ (map (charge 3) pods) /\
  a_dang r = a_dang a + sumZ (map orphan pods).
Proof.
  induction pods as [|p pods IH]; intros a; cbn [fold_left map].
  - cbn. lia.
  - specialize (IH (agg_step a p)). cbv zeta in IH.
    pose proof (agg_step_spec a p) as H. cbv zeta in H.
    rewrite !sumZ_cons. lia.
Qed.

(* refinement: the three figures the policies use are exactly the declarative sums *)
Lemma aggregate_spec pods dang :
  let a := aggregate pods dang in
  let um := sumZ (map orphan pods) + sumZ (map dang_amount dang) in
  a_req a = sumZ (map (charge 2) pods) /\
  a_used a = sumZ (map (charge 1) pods) + um /\
  a_max a = sumZ (map (charge 3) pods) + um /\
  a_dang a = um.
Proof.
  unfold aggregate. pose proof (fold_agg_spec pods agg0) as H. cbv zeta in H.
  cbn [a_req a_used a_max a_dang agg0] in *. lia.
Qed.

Lemma sumZ_map_ext {A} (f g : A -> Z) l : (forall x, f x = g x) -> sumZ (map f l) = sumZ (map g l).
Proof. intros H. induction l as [|x l IH]; simpl; [reflexivity|]. rewrite H, IH. reflexivity. Qed.

Lemma charge_sum_norm policy pods :
  sumZ (map (charge policy) pods)
  = if policy =? 2 then sumZ (map (charge 2) pods)
    else if policy =? 3 then sumZ (map (charge 3) pods) else sumZ (map (charge 1) pods).
Proof.
  destruct (policy =? 2) eqn:E2; [|destruct (policy =? 3) eqn:E3];
    apply sumZ_map_ext; intros x; rewrite charge_norm, E2; try rewrite E3; reflexivity.
Qed.

(* the published amount in closed form: min(cap%, max(0, capacity - margin - system - HP)) *)
Lemma batch_dim_closed d : batch_dim d = with_thr (d_thr d) (clamp0 (upper d)).
Proof.
  unfold batch_dim, by_policy, upper, hp_total, sys_term, unmatched.
  pose proof (aggregate_spec (d_pods d) (d_dang d)) as H. cbv zeta in H.
  destruct H as (Hr & Hu & Hm & _).
  rewrite charge_sum_norm.
  f_equal.
  destruct (d_policy d =? 2) eqn:E2.
  - unfold by_request. rewrite Hr. f_equal; lia.
  - destruct (d_policy d =? 3) eqn:E3.
    + unfold by_maxur. rewrite Hm. f_equal; lia.
    + unfold by_usage. rewrite Hu. f_equal; lia.
Qed.

Lemma min_quant_min a b : min_quant a b = Z.min a b.
Proof. unfold min_quant. destruct (b <=? a) eqn:E; lia. Qed.

Definition thr_nonneg (d : dim_in) : Prop := forall c, d_thr d = Some c -> 0 <= c.

Lemma batch_dim_ok d : thr_nonneg d -> dim_ok d (batch_dim d).
Proof.
  intros Ht. rewrite batch_dim_closed. unfold dim_ok, with_thr, clamp0, thr_nonneg in *.
  destruct (d_thr d) as [c|] eqn:E.
  - rewrite min_quant_min. specialize (Ht c eq_refl). repeat split; try lia.
    intros c' Hc. inversion Hc; subst. lia.
  - repeat split; try lia. intros c' Hc. discriminate.
Qed.

Lemma batch_dim_upper d : batch_dim d <= Z.max 0 (upper d).
Proof.
  rewrite batch_dim_closed. unfold with_thr, clamp0.
  destruct (d_thr d); [rewrite min_quant_min|]; lia.
Qed.

Lemma batch_dim_cap d c : d_thr d = Some c -> batch_dim d <= c.
Proof.
  intros H. rewrite batch_dim_closed. unfold with_thr. rewrite H, min_quant_min. lia.
Qed.

Lemma batch_dim_nonneg d : thr_nonneg d -> 0 <= batch_dim d.
Proof. intros H. apply (batch_dim_ok d H). Qed.

(* the bound of the property text holds whenever the request policy is not in force, or system
   usage stays within the reservation *)
Lemma upper_text_eq d : (d_policy d =? 2) = false \/ d_sys d <= d_reserved d -> upper_text d = upper d.
Proof.
  unfold upper_text, upper, sys_term. intros [H|H].
  - rewrite H. reflexivity.
  - destruct (d_policy d =? 2); lia.
Qed.
Lemma batch_dim_text d :
  (d_policy d =? 2) = false \/ d_sys d <= d_reserved d -> dim_text_ok d (batch_dim d).
Proof.
  intros H. unfold dim_text_ok. rewrite (upper_text_eq d H). apply batch_dim_upper.
Qed.

(* a pod that has not reported metrics yet is charged its request under every policy *)
Lemma charge_no_metric policy p : charged p = true -> v_has p = false -> charge policy p = v_req p.
Proof.
  intros Hc Hh. unfold charge. rewrite Hc, Hh. cbn. destruct (policy =? 2); reflexivity.
Qed.
Lemma orphan_active p : v_active p = true -> orphan p = 0.
Proof. intros H. unfold orphan. rewrite H. reflexivity. Qed.

Definition with_pods (d : dim_in) (ps : list pv) : dim_in :=
  mkDim (d_policy d) (d_thr d) (d_cap d) (d_margin d) (d_reserved d) (d_sys d) ps (d_dang d).

Lemma hp_total_insert d ps1 ps2 p :
  hp_total (with_pods d (ps1 ++ p :: ps2))
  = hp_total (with_pods d (ps1 ++ ps2)) + charge (d_policy d) p
    + (if d_policy d =? 2 then 0 else orphan p).
Proof.
  unfold hp_total, unmatched, with_pods. cbn [d_policy d_pods d_dang].
  rewrite !map_app, !sumZ_app. cbn [map]. rewrite !sumZ_cons.
  destruct (d_policy d =? 2); lia.
Qed.

Lemma charge_request_insert d ps1 ps2 p :
  charged p = true -> v_has p = false ->
  hp_total (with_pods d (ps1 ++ p :: ps2)) = hp_total (with_pods d (ps1 ++ ps2)) + v_req p.
Proof.
  intros Hc Hh. rewrite hp_total_insert, (charge_no_metric _ _ Hc Hh).
  unfold charged in Hc. apply andb_true_iff in Hc. destruct Hc as [Ha _].
  rewrite (orphan_active _ Ha). destruct (d_policy d =? 2); lia.
Qed.
