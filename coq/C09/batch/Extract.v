(* C09 / stream "batch" — flat-integer interface of the batch-resource model.
   input wire format:
     k delta                                   metamorphic perturbation: second run on the input
                                               with element k of the remainder raised by delta
     cpuPolicy memPolicy cpuReclaim memReclaim cpuThr memThr degradeMin
     age capCPU capMem allocCPU allocMem
     annoFlag annoCPU annoMem annoReservedCPUs
     sysCPU sysMem
     nZ  (zcpu zmem)*
     nApps (prio cpu mem)*
     nPods (phase plabel pval qlabel kube reqCPU reqMem has mprio useCPU useMem numa)*
     nDang (prio cpu mem)*
     [annoKind aCpuReclaim aMemReclaim aCpuThr aMemThr lblCpuKind lblCpuH lblMemKind lblMemH]
       optional: the node's colocation-strategy annotation (1 well-formed, 2/3 malformed; -1 = field
       absent) and reclaim-ratio labels (kinds: Model.label_scale); the strategy fields above are the cluster
       strategy and the effective one is Model.resolve_strategy (real: sloconfig.GetNodeColocationStrategy)
     [tpKind tpCPU tpMem]
       optional, after the nine integers above: the node's thirdPartyAllocations annotation (Publish.tp_of)
   observable: run(base) ++ run(perturbed), each as documented at Model.run_batch, the published amounts
   reduced by the third-party allocations (Publish.apply_tp) *)
From Coq Require Import List ZArith Bool.
From Verif Require Import Lib.Wire C09.Model C09.Spec C09.Publish.
Import ListNotations.
Open Scope Z_scope.

Definition dec_pair (l : list Z) : (Z * Z) * list Z :=
  match l with a :: b :: t => ((a, b), t) | _ => ((0, 0), []) end.
Definition dec_amt (l : list Z) : (Z * (Z * Z)) * list Z :=
  match l with a :: b :: c :: t => ((a, (b, c)), t) | _ => ((0, (0, 0)), []) end.
Definition dec_pod (l : list Z) : pod * list Z :=
  match l with
  | ph :: pl :: pvl :: ql :: kb :: rc :: rm :: hs :: mp :: uc :: um :: nu :: t =>
      (mkPod ph pl pvl ql kb rc rm (zb hs) mp uc um nu, t)
  | _ => (mkPod 4 0 (-1) 0 1 0 0 false 0 0 0 0, [])
  end.

Definition decode_bt (l : list Z) : binput * tpalloc :=
  match l with
  | cp :: mp :: cr :: mr :: ct :: mt :: dg :: age :: cc :: cm :: ac :: am ::
    af :: anc :: anm :: anr :: sc :: sm :: t =>
      let '(zs, t1) := decode_seq dec_pair t in
      let '(apps, t2) := decode_seq dec_amt t1 in
      let '(pods, t3) := decode_seq dec_pod t2 in
      let '(dang, t4) := decode_seq dec_amt t3 in
      let nc := match t4 with
                | ak :: a1 :: a2 :: a3 :: a4 :: k1 :: h1 :: k2 :: h2 :: _ => mkNodeCfg ak a1 a2 a3 a4 k1 h1 k2 h2
                | _ => nodecfg0
                end in
      let tp := match t4 with
                | _ :: _ :: _ :: _ :: _ :: _ :: _ :: _ :: _ :: tk :: tc :: tm :: _ => tp_of tk tc tm
                | _ => None
                end in
      (mkB (resolve_strategy (mkStrategy cp mp cr mr ct mt dg) nc)
           age cc cm ac am (zb af) anc anm anr sc sm zs apps pods dang, tp)
  | _ => (mkB (mkStrategy 0 0 0 0 (-1) (-1) 1) (-1) 0 0 0 0 false 0 0 0 0 0 [] [] [] [], None)
  end.
Definition decode_b (l : list Z) : binput := fst (decode_bt l).

Fixpoint bump (k : nat) (delta : Z) (l : list Z) : list Z :=
  match l, k with
  | [], _ => []
  | x :: t, O => (x + delta) :: t
  | x :: t, S k' => x :: bump k' delta t
  end.
Definition decode2t (inp : list Z) : (binput * tpalloc) * (binput * tpalloc) :=
  match inp with
  | k :: delta :: t =>
      (decode_bt t, if k <? 0 then decode_bt t else decode_bt (bump (Z.to_nat k) delta t))
  | _ => (decode_bt [], decode_bt [])
  end.
Definition decode2 (inp : list Z) : binput * binput :=
  let '(a, b) := decode2t inp in (fst a, fst b).

Definition run_case (inp : list Z) : list Z :=
  let '((a, ta), (b, tb)) := decode2t inp in apply_tp ta (run_batch a) ++ apply_tp tb (run_batch b).

Definition obs_len (obs : list Z) : nat :=
  match obs with
  | h :: _ :: _ :: _ :: _ :: nz :: _ => if h =? 0 then 6 + 2 * Z.to_nat nz else 3
  | _ => 3
  end.

(* property decided on the IMPLEMENTATION's observable: bounds on both runs, then the
   metamorphic clauses (5: consumption raised, 6: reclaim threshold lowered, 7: published amounts when a
   consumption input or the third-party allocation is raised) between them *)
Definition prop_case (inp obs : list Z) : Z :=
  let '((a, ta), (b, tb)) := decode2t inp in
  let oa := firstn (obs_len obs) obs in
  let ob := skipn (obs_len obs) obs in
  let ca := batch_code false a oa in
  let cb := batch_code false b ob in
  if negb (ca =? 0) then ca
  else if negb (cb =? 0) then cb
  else if negb (antitone_code a b oa ob =? 0) then 5
  else if negb (reclaim_code a b oa ob =? 0) then 6
  else if negb (pub_antitone_code a b ta tb oa ob =? 0) then 7
  else if negb (batch_code true a oa =? 0) then batch_code true a oa
  else batch_code true b ob.

Definition some_hp_pod (b : binput) : bool :=
  existsb (fun p => p_active p && p_hp p) (b_pods b).
Definition nontrivial_case (inp : list Z) : bool :=
  let '(a, _) := decode2 inp in
  negb (stale a) && some_hp_pod a
  && ((0 <? batch_dim (node_cpu a)) || (0 <? batch_dim (node_mem a))).

(* known-finding shapes: 1 = the memory amount (node: clause 4/34, zone: clause 24) exceeds the
   property-text bound although every implemented clause holds, under memoryCalculatePolicy =
   "request" with system usage above the node reservation, and the implementation's observable
   equals the model's (run_case inp = obs) so that no other deviation hides behind the shape *)
Definition request_sys_shape (b : binput) : bool :=
  (eff_policy_mem (s_mem_policy (b_s b)) =? 2) && (reserved_mem b <? sys_mem b).
Definition finding_sig (inp obs : list Z) : Z :=
  let '(a, b) := decode2 inp in
  if negb (request_sys_shape a || request_sys_shape b) then 0 else
  let oa := firstn (obs_len obs) obs in
  let c := prop_case inp obs in
  let failing := if negb (batch_code true a oa =? 0) then a else b in
  (* a known finding only when the implementation's WHOLE observable is the faithful model's *)
  if ((c =? 4) || (c =? 24) || (c =? 34)) && request_sys_shape failing
     && eq_listZ (run_case inp) obs then 1 else 0.

Require Extraction.
Require Import ExtrOcamlBasic.
Extraction "model.ml" run_case prop_case nontrivial_case finding_sig.
