(* C09 / stream "batch" — flat-integer interface of the batch-resource model.
   input wire format:
     k delta                                   metamorphic perturbation: second run on the input
                                               with element k of the remainder raised by delta
     cpuPolicy memPolicy cpuReclaim memReclaim cpuThr memThr degradeMin
     age capCPU capMem allocCPU allocMem
     annoFlag annoCPU annoMem annoReservedCPUs
     sysCPU sysMem
     nZ  (zcpu zmem)*
     nApps (prio cpu mem)*
     nPods (phase plabel pval qlabel kube reqCPU reqMem has mprio useCPU useMem numa)*
     nDang (prio cpu mem)*
     [annoKind aCpuReclaim aMemReclaim aCpuThr aMemThr lblCpuKind lblCpuH lblMemKind lblMemH]
       optional: the node's colocation-strategy annotation (1 well-formed, 2/3 malformed; -1 = field
       absent) and reclaim-ratio labels (kinds: Model.label_scale); the strategy fields above are the cluster
       strategy and the effective one is Model.resolve_strategy (real: sloconfig.GetNodeColocationStrategy)
     [tpKind tpCPU tpMem]
       optional, after the nine integers above: the node's thirdPartyAllocations annotation (Publish.tp_of)
     [normKind normH]
       optional, after those: the cpu-normalization ratio annotation of the NodeResource (kind 1: "h/100")
   observable: run(base) ++ run(perturbed), each as documented at Model.run_batch, the published amounts
   reduced by the third-party allocations (Publish.apply_tp) *)
From Coq Require Import List ZArith Bool.
From Verif Require Import Lib.Wire C09.Model C09.Spec C09.Publish.
Import ListNotations.
Open Scope Z_scope.

Definition dec_pair (l : list Z) : (Z * Z) * list Z :=
  match l with a :: b :: t => ((a, b), t) | _ => ((0, 0), []) end.
Definition dec_amt (l : list Z) : (Z * (Z * Z)) * list Z :=
  match l with a :: b :: c :: t => ((a, (b, c)), t) | _ => ((0, (0, 0)), []) end.
Definition dec_pod (l : list Z) : pod * list Z :=
  match l with
  | ph :: pl :: pvl :: ql :: kb :: rc :: rm :: hs :: mp :: uc :: um :: nu :: t =>
      (mkPod ph pl pvl ql kb rc rm (zb hs) mp uc um nu, t)
  | _ => (mkPod 4 0 (-1) 0 1 0 0 false 0 0 0 0, [])
  end.

Notation pubin := (tpalloc * option fl)%type.
Definition decode_bt (l : list Z) : binput * pubin :=
  match l with
  | cp :: mp :: cr :: mr :: ct :: mt :: dg :: age :: cc :: cm :: ac :: am ::
    af :: anc :: anm :: anr :: sc :: sm :: t =>
      let '(zs, t1) := decode_seq dec_pair t in
      let '(apps, t2) := decode_seq dec_amt t1 in
      let '(pods, t3) := decode_seq dec_pod t2 in
      let '(dang, t4) := decode_seq dec_amt t3 in
      let nc := match t4 with
                | ak :: a1 :: a2 :: a3 :: a4 :: k1 :: h1 :: k2 :: h2 :: _ => mkNodeCfg ak a1 a2 a3 a4 k1 h1 k2 h2
                | _ => nodecfg0
                end in
      let tp := match t4 with
                | _ :: _ :: _ :: _ :: _ :: _ :: _ :: _ :: _ :: tk :: tc :: tm :: _ => tp_of tk tc tm
                | _ => None
                end in
      let nr := match t4 with
                | _ :: _ :: _ :: _ :: _ :: _ :: _ :: _ :: _ :: _ :: _ :: _ :: nk :: nh :: _ => norm_ratio nk nh
                | _ => None
                end in
      (mkB (resolve_strategy (mkStrategy cp mp cr mr ct mt dg) nc)
           age cc cm ac am (zb af) anc anm anr sc sm zs apps pods dang, (tp, nr))
  | _ => (mkB (mkStrategy 0 0 0 0 (-1) (-1) 1) (-1) 0 0 0 0 false 0 0 0 0 0 [] [] [] [], (None, None))
  end.
Definition decode_b (l : list Z) : binput := fst (decode_bt l).

Fixpoint bump (k : nat) (delta : Z) (l : list Z) : list Z :=
  match l, k with
  | [], _ => []
  | x :: t, O => (x + delta) :: t
  | x :: t, S k' => x :: bump k' delta t
  end.
Definition decode2t (inp : list Z) : (binput * pubin) * (binput * pubin) :=
  match inp with
  | k :: delta :: t =>
      (decode_bt t, if k <? 0 then decode_bt t else decode_bt (bump (Z.to_nat k) delta t))
  | _ => (decode_bt [], decode_bt [])
  end.
Definition decode2 (inp : list Z) : binput * binput :=
  let '(a, b) := decode2t inp in (fst a, fst b).

Definition run_one (b : binput) (p : pubin) : list Z :=
  pub_core (snd p) (fst p) (run_batch b) ++ pub_extra (snd p) (fst p) (run_batch b).
Definition run_case (inp : list Z) : list Z :=
  let '((a, pa), (b, pb)) := decode2t inp in run_one a pa ++ run_one b pb.

(* one run: core = [0; pubCPU; pubMem; cpu; mem; nz; zones...] followed by the two amounts published by a
   second Prepare on the same NodeResource; a degraded run is [1; -1; -1] *)
Definition obs_len (obs : list Z) : nat :=
  match obs with
  | h :: _ :: _ :: _ :: _ :: nz :: _ => if h =? 0 then 6 + 2 * Z.to_nat nz else 3
  | _ => 3
  end.
Definition full_len (obs : list Z) : nat :=
  match obs with
  | h :: _ => if h =? 0 then obs_len obs + 2 else obs_len obs
  | _ => obs_len obs
  end.
Definition split_obs (obs : list Z) : (list Z * list Z) * (list Z * list Z) :=
  let rest := skipn (full_len obs) obs in
  ((firstn (obs_len obs) obs, skipn (obs_len obs) (firstn (full_len obs) obs)),
   (firstn (obs_len rest) rest, skipn (obs_len rest) rest)).

(* property decided on the IMPLEMENTATION's observable: bounds on both runs (the published cpu amount
   under a cpu-normalization ratio is judged by clause 8 instead), clause 8 (published amounts of the first
   and of a repeated Prepare against the item amount amplified once), then the metamorphic clauses
   (5: consumption raised, 6: reclaim threshold lowered, 7: published amounts when a consumption input or
   the third-party allocation is raised; 7 only without a ratio) between them *)
Definition prop_case (inp obs : list Z) : Z :=
  let '((a, (ta, ra)), (b, (tb, rb))) := decode2t inp in
  let '((oa, ea), (ob, eb)) := split_obs obs in
  let ca := batch_code false a (mask_pub ra oa) in
  let cb := batch_code false b (mask_pub rb ob) in
  if negb (ca =? 0) then ca
  else if negb (cb =? 0) then cb
  else if negb (norm_code ra ta oa ea =? 0) then norm_code ra ta oa ea
  else if negb (norm_code rb tb ob eb =? 0) then norm_code rb tb ob eb
  else if negb (antitone_code a b oa ob =? 0) then 5
  else if negb (reclaim_code a b oa ob =? 0) then 6
  else if match ra, rb with None, None => negb (pub_antitone_code a b ta tb oa ob =? 0) | _, _ => false end then 7
  else if negb (batch_code true a (mask_pub ra oa) =? 0) then batch_code true a (mask_pub ra oa)
  else batch_code true b (mask_pub rb ob).

Definition some_hp_pod (b : binput) : bool :=
  existsb (fun p => p_active p && p_hp p) (b_pods b).
Definition nontrivial_case (inp : list Z) : bool :=
  let '(a, _) := decode2 inp in
  negb (stale a) && some_hp_pod a
  && ((0 <? batch_dim (node_cpu a)) || (0 <? batch_dim (node_mem a))).

(* known-finding shapes: 1 = the memory amount (node: clause 4/34, zone: clause 24) exceeds the
   property-text bound although every implemented clause holds, under memoryCalculatePolicy =
   "request" with system usage above the node reservation, and the implementation's observable
   equals the model's (run_case inp = obs) so that no other deviation hides behind the shape *)
Definition request_sys_shape (b : binput) : bool :=
  (eff_policy_mem (s_mem_policy (b_s b)) =? 2) && (reserved_mem b <? sys_mem b).
Definition finding_sig (inp obs : list Z) : Z :=
  let '(a, b) := decode2 inp in
  if negb (request_sys_shape a || request_sys_shape b) then 0 else
  let '((_, (_, ra)), _) := decode2t inp in
  let oa := mask_pub ra (firstn (obs_len obs) obs) in
  let c := prop_case inp obs in
  let failing := if negb (batch_code true a oa =? 0) then a else b in
  (* a known finding only when the implementation's WHOLE observable is the faithful model's *)
  if ((c =? 4) || (c =? 24) || (c =? 34)) && request_sys_shape failing
     && eq_listZ (run_case inp) obs then 1 else 0.

Require Extraction.
Require Import ExtrOcamlBasic.
Extraction "model.ml" run_case prop_case nontrivial_case finding_sig.
