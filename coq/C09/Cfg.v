(* C09 — model of the path that CONFIGURES the batch calculation of a node:
     pkg/slo-controller/config/configmap_event_handler.go       (EnqueueRequestForConfigMap.Create / Update / Delete)
     pkg/slo-controller/config/colocation_cm_event_handler.go   (syncConfig, updateCacheIfChanged, IsCfgAvailable,
                                                                  GetCfgCopy)
     pkg/util/utils.go                                          (MergeCfg: JSON overlay, present fields of [new] win)
     pkg/util/sloconfig/colocation_config.go                    (DefaultColocationStrategy, IsColocationStrategyValid,
                                                                  GetNodeColocationStrategy: first matching nodeConfig)
     k8s.io/apimachinery LabelSelectorAsSelector / Matches      (the selector shapes listed at [sel_matches])
     pkg/slo-controller/noderesource/noderesource_controller.go (Reconcile: IsCfgAvailable, then calculate)
   followed by Plugin.Calculate / Prepare (Model.run_batch) with the strategy so obtained.
   Executable, total, no proofs in this file. *)
From Coq Require Import List ZArith Bool.
From Verif Require Import C09.Model.
Import ListNotations.
Open Scope Z_scope.

(* A ColocationStrategy as written somewhere (ConfigMap cluster level, a nodeConfigs entry, the
   built-in default): every field may be absent.  Absent: 0 for the two policies, -1 for the rest
   (the encodings of [Model.strategy]: policy 0 = nil, threshold -1 = nil). *)
Record spatch := mkPatch {
  q_cpol : Z; q_mpol : Z;            (* cpu/memoryCalculatePolicy: 1 usage 2 request 3 maxUsageRequest, other: unknown string *)
  q_crec : Z; q_mrec : Z;            (* cpu/memoryReclaimThresholdPercent *)
  q_cthr : Z; q_mthr : Z;            (* batchCPU/MemoryThresholdPercent *)
  q_deg : Z;                         (* degradeTimeMinutes *)
  q_upd : Z                          (* updateTimeThresholdSeconds: only its validity matters here *)
}.
Definition empty_patch : spatch := mkPatch 0 0 (-1) (-1) (-1) (-1) (-1) (-1).
(* sloconfig.DefaultColocationStrategy *)
Definition default_patch : spatch := mkPatch 1 1 60 65 (-1) (-1) 15 300.

(* util.MergeCfg(base, new): json.Marshal(new) (omitempty: nil pointers vanish) unmarshalled into base *)
Definition mpol (base v : Z) : Z := if v =? 0 then base else v.
Definition mpct (base v : Z) : Z := if v =? -1 then base else v.
Definition merge (base new : spatch) : spatch :=
  mkPatch (mpol (q_cpol base) (q_cpol new)) (mpol (q_mpol base) (q_mpol new))
          (mpct (q_crec base) (q_crec new)) (mpct (q_mrec base) (q_mrec new))
          (mpct (q_cthr base) (q_cthr new)) (mpct (q_mthr base) (q_mthr new))
          (mpct (q_deg base) (q_deg new)) (mpct (q_upd base) (q_upd new)).

(* sloconfig.IsColocationStrategyValid on the modelled fields *)
Definition pct_ok (v : Z) : bool := -1 <=? v.                  (* nil or >= 0 *)
Definition pos_ok (v : Z) : bool := (v =? -1) || (0 <? v).     (* nil or > 0 *)
Definition patch_valid (q : spatch) : bool :=
  pct_ok (q_crec q) && pct_ok (q_mrec q) && pct_ok (q_cthr q) && pct_ok (q_mthr q)
  && pos_ok (q_deg q) && pos_ok (q_upd q).

Definition to_strategy (q : spatch) : strategy :=
  mkStrategy (q_cpol q) (q_mpol q) (q_crec q) (q_mrec q) (q_cthr q) (q_mthr q) (q_deg q).

(* ---- node selectors.  A node carries two labels the generated selectors talk about, "pool" and
   "tier"; a label value is an id >= 1, 0 = the node does not carry the label.
     kind 0  nodeSelector absent (nil)             matches nothing
     kind 1  {}                                    matches everything
     kind 2  matchLabels {pool: a}
     kind 3  matchLabels {pool: a, tier: b}
     kind 4  matchExpressions [pool In (a, b)]
     kind 5  matchExpressions [pool NotIn (a)]     (also matches a node without the label)
     kind 6  matchExpressions [tier Exists]
     kind 7  matchExpressions [pool DoesNotExist]
     kind 8  matchLabels {pool: a} + matchExpressions [tier NotIn (b)]
     other   an operator LabelSelectorAsSelector rejects: the entry is skipped *)
Record sel := mkSel { sel_kind : Z; sel_a : Z; sel_b : Z }.
Definition has_val (l v : Z) : bool := negb (l =? 0) && (l =? v).
Definition sel_matches (s : sel) (pool tier : Z) : bool :=
  let k := sel_kind s in
  if k =? 1 then true
  else if k =? 2 then has_val pool (sel_a s)
  else if k =? 3 then has_val pool (sel_a s) && has_val tier (sel_b s)
  else if k =? 4 then has_val pool (sel_a s) || has_val pool (sel_b s)
  else if k =? 5 then negb (has_val pool (sel_a s))
  else if k =? 6 then negb (tier =? 0)
  else if k =? 7 then pool =? 0
  else if k =? 8 then has_val pool (sel_a s) && negb (has_val tier (sel_b s))
  else false.

Notation nodecfgs := (list (sel * spatch)).

(* the colocation-config entry of the slo-controller-config ConfigMap *)
Record cmdata := mkCM {
  cm_kind : Z;              (* 0 well-formed JSON; 1 key absent / empty string; other: does not unmarshal *)
  cm_cluster : spatch;
  cm_nodes : nodecfgs }.

(* the handler's cache (+ the ConfigMap the informer cache currently holds) *)
Record cstate := mkSt {
  st_avail : bool;
  st_cluster : spatch;
  st_nodes : nodecfgs;             (* each entry already merged with the cluster strategy *)
  st_stored : option cmdata }.
Definition st0 : cstate := mkSt false default_patch [] None.

(* syncConfig's loop over NodeConfigs: a FRESH copy of the cluster strategy is the merge base of
   every entry; an entry whose merge result is invalid falls back to the cluster strategy *)
Definition sync_entry (cluster : spatch) (e : sel * spatch) : sel * spatch :=
  let m := merge cluster (snd e) in (fst e, if patch_valid m then m else cluster).
Definition sync_nodes (cluster : spatch) (ns : nodecfgs) : nodecfgs := map (sync_entry cluster) ns.

(* syncConfig(configMap); [None] = the ConfigMap does not exist *)
Definition sync_data (st : cstate) (d : option cmdata) : cstate :=
  match d with
  | None => mkSt true default_patch [] (st_stored st)
  | Some cm =>
      if cm_kind cm =? 1 then mkSt true default_patch [] (st_stored st)
      else if cm_kind cm =? 0 then
        let c := merge default_patch (cm_cluster cm) in
        if patch_valid c then mkSt true c (sync_nodes c (cm_nodes cm)) (st_stored st)
        else st                                  (* invalid cluster strategy: keep the old config *)
      else st                                    (* does not parse: keep the old config *)
  end.

(* sloconfig.GetNodeColocationStrategy before the node's own annotation / labels *)
Definition first_match (ns : nodecfgs) (pool tier : Z) : option (sel * spatch) :=
  find (fun e => sel_matches (fst e) pool tier) ns.
Definition lookup (st : cstate) (pool tier : Z) : spatch :=
  match first_match (st_nodes st) pool tier with
  | Some e => merge (st_cluster st) (snd e)
  | None => st_cluster st
  end.

(* operations of a history.
     kind 1  Create / Update event for the slo-controller-config ConfigMap carrying [o_cm]
             (an Update whose Data equals the old Data is dropped by the handler: re-syncing equal data
              is a no-op, Proofs_Cfg.sync_idem, so the model need not distinguish)
     kind 2  an event for some other ConfigMap (ignored)
     kind 3  Delete event (the handler ignores it; the informer cache loses the object)
     kind 4  a reconcile of a node with labels pool = [o_pool], tier = [o_tier]
     other   nothing *)
Record cop := mkOp { o_kind : Z; o_cm : cmdata; o_pool : Z; o_tier : Z }.

Definition set_stored (st : cstate) (d : option cmdata) : cstate :=
  mkSt (st_avail st) (st_cluster st) (st_nodes st) d.
Definition set_strategy (b : binput) (s : strategy) : binput :=
  mkB s (b_age b) (b_cap_cpu b) (b_cap_mem b) (b_alloc_cpu b) (b_alloc_mem b)
      (b_anno b) (b_anno_cpu b) (b_anno_mem b) (b_anno_rcpus b) (b_sys_cpu b) (b_sys_mem b)
      (b_zones b) (b_apps b) (b_pods b) (b_dang b).

(* IsCfgAvailable: an unavailable cache is filled from the informer cache first *)
Definition ensure (st : cstate) : cstate :=
  if st_avail st then st else sync_data st (st_stored st).

(* observation of a reconcile: [2] = configuration unavailable, nothing is calculated; otherwise
   Model.run_batch of the node under the strategy resolved for it *)
Definition unavailable : list Z := [2].
Definition query (st : cstate) (pool tier : Z) (b : binput) (nc : nodecfg) : list Z :=
  if st_avail st
  then run_batch (set_strategy b (resolve_strategy (to_strategy (lookup st pool tier)) nc))
  else unavailable.

Definition cstep (b : binput) (nc : nodecfg) (st : cstate) (o : cop) : cstate * list Z :=
  let k := o_kind o in
  if k =? 1 then (sync_data (set_stored st (Some (o_cm o))) (Some (o_cm o)), [])
  else if k =? 3 then (set_stored st None, [])
  else if k =? 4 then let st1 := ensure st in (st1, query st1 (o_pool o) (o_tier o) b nc)
  else (st, []).

Fixpoint run_from (b : binput) (nc : nodecfg) (st : cstate) (ops : list cop) : list Z :=
  match ops with
  | [] => []
  | o :: t => let '(st1, obs) := cstep b nc st o in obs ++ run_from b nc st1 t
  end.
Definition run_cfg (ops : list cop) (b : binput) (nc : nodecfg) : list Z := run_from b nc st0 ops.
