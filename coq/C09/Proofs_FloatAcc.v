(* C09 — accuracy of the binary64 evaluation of percentages: the float-evaluated
   int64(float64(v) * (float64(p)/100)) never exceeds the exact v*p/100 (for v*p/100 <= 2^44),
   so the percentage cap the code applies is never above the configured percentage of capacity. *)
From Coq Require Import List ZArith Bool Lia QArith Qpower Qabs Lqa.
From Verif Require Import C09.Model C09.Proofs_Float.
Import ListNotations.
Open Scope Z_scope.

(* ---------- integer facts about one rounding ---------- *)
Definition Nsc (n s : Z) : Z := Z.shiftl n (Z.max s 0).
Definition Dsc (d s : Z) : Z := Z.shiftl d (Z.max (- s) 0).

Lemma Nsc_nonneg_s n s : 0 <= s -> Nsc n s = n * 2 ^ s.
Proof. intros H. unfold Nsc. rewrite Z.max_l by lia. apply Z.shiftl_mul_pow2. lia. Qed.
Lemma Nsc_neg_s n s : s <= 0 -> Nsc n s = n.
Proof. intros H. unfold Nsc. rewrite Z.max_r by lia. apply Z.shiftl_0_r. Qed.
Lemma Dsc_nonneg_s d s : 0 <= s -> Dsc d s = d.
Proof. intros H. unfold Dsc. rewrite Z.max_r by lia. apply Z.shiftl_0_r. Qed.
Lemma Dsc_neg_s d s : s <= 0 -> Dsc d s = d * 2 ^ (- s).
Proof. intros H. unfold Dsc. rewrite Z.max_l by lia. apply Z.shiftl_mul_pow2. lia. Qed.

Lemma Dsc_pos d s : 0 < d -> 0 < Dsc d s.
Proof.
  intros H. destruct (Z.le_gt_cases 0 s).
  - rewrite Dsc_nonneg_s by lia. lia.
  - rewrite Dsc_neg_s by lia. pose proof (Z.pow_pos_nonneg 2 (- s)). nia.
Qed.

Lemma sc_succ n d s : Nsc n (s + 1) * Dsc d s = 2 * Nsc n s * Dsc d (s + 1).
Proof.
  destruct (Z.le_gt_cases 0 s).
  - rewrite (Nsc_nonneg_s n (s + 1)), (Nsc_nonneg_s n s), !Dsc_nonneg_s by lia.
    rewrite Z.pow_add_r by lia. change (2 ^ 1) with 2. ring.
  - rewrite (Nsc_neg_s n (s + 1)), (Nsc_neg_s n s), !Dsc_neg_s by lia.
    replace (- s) with (- (s + 1) + 1) at 1 by lia. rewrite Z.pow_add_r by lia. change (2 ^ 1) with 2. ring.
Qed.

Lemma scaled_div_spec n d s q r den :
  0 < d -> scaled_div n d s = (q, r, den) ->
  den = Dsc d s /\ Nsc n s = den * q + r /\ 0 <= r < den.
Proof.
  intros Hd. unfold scaled_div. fold (Nsc n s). fold (Dsc d s).
  pose proof (Dsc_pos d s Hd) as Hp.
  pose proof (Z_div_mod (Nsc n s) (Dsc d s)) as H.
  destruct (Z.div_eucl (Nsc n s) (Dsc d s)) as [q' r'].
  intros E. inversion E; subst. specialize (H ltac:(lia)). tauto.
Qed.

Lemma rnd_qr_spec q r den N :
  0 < den -> N = den * q + r -> 0 <= r < den ->
  2 * Z.abs (rnd_qr q r den * den - N) <= den /\ q <= rnd_qr q r den <= q + 1.
Proof.
  intros Hd HN Hr. unfold rnd_qr.
  destruct (den <? 2 * r) eqn:E1; cbn [orb].
  - apply Z.ltb_lt in E1. split; [|lia]. subst N. nia.
  - apply Z.ltb_ge in E1. destruct (2 * r =? den) eqn:E2; cbn [andb].
    + apply Z.eqb_eq in E2. destruct (Z.odd q); (split; [|lia]); subst N; nia.
    + split; [|lia]. subst N. nia.
Qed.

Lemma magnitude n d : 0 < n -> 0 < d ->
  let s0 := 52 - (Z.log2 n - Z.log2 d) in
  2 ^ 51 * Dsc d s0 < Nsc n s0 < 2 ^ 53 * Dsc d s0.
Proof.
  intros Hn Hd s0.
  pose proof (Z.log2_spec n Hn) as [Ha1 Ha2]. pose proof (Z.log2_spec d Hd) as [Hb1 Hb2].
  pose proof (Z.log2_nonneg n) as Ha0. pose proof (Z.log2_nonneg d) as Hb0.
  set (a := Z.log2 n) in *. set (b := Z.log2 d) in *.
  rewrite Z.pow_succ_r in Ha2, Hb2 by assumption.
  change (2 ^ 53) with (4 * 2 ^ 51).
  assert (0 < 2 ^ 51) as HK by reflexivity.
  destruct (Z.le_gt_cases 0 s0) as [Hs|Hs].
  - rewrite Nsc_nonneg_s, Dsc_nonneg_s by assumption.
    assert (2 ^ a * 2 ^ s0 = 2 * 2 ^ 51 * 2 ^ b) as Hrel.
    { change (2 * 2 ^ 51) with (2 ^ 52). rewrite <- !Z.pow_add_r by lia. f_equal. subst s0. lia. }
    pose proof (Z.pow_pos_nonneg 2 s0 ltac:(lia) Hs) as HS.
    generalize dependent (2 ^ 51). generalize dependent (2 ^ s0).
    generalize dependent (2 ^ a). generalize dependent (2 ^ b). intros. nia.
  - rewrite Nsc_neg_s, Dsc_neg_s by lia.
    assert (2 ^ a = 2 * 2 ^ 51 * 2 ^ b * 2 ^ (- s0)) as Hrel.
    { change (2 * 2 ^ 51) with (2 ^ 52). rewrite <- !Z.pow_add_r by lia. f_equal. subst s0. lia. }
    pose proof (Z.pow_pos_nonneg 2 (- s0) ltac:(lia) ltac:(lia)) as HS.
    pose proof (Z.pow_pos_nonneg 2 b ltac:(lia) Hb0) as HB.
    assert (2 ^ b * 2 ^ (- s0) <= d * 2 ^ (- s0) < 2 * (2 ^ b * 2 ^ (- s0))) as HX by nia.
    replace (2 * 2 ^ 51 * 2 ^ b * 2 ^ (- s0)) with (2 * 2 ^ 51 * (2 ^ b * 2 ^ (- s0))) in Hrel by ring.
    replace (2 ^ 51 * (d * 2 ^ (- s0))) with (2 ^ 51 * (d * 2 ^ (- s0))) by ring.
    replace (4 * 2 ^ 51 * (d * 2 ^ (- s0))) with (4 * (2 ^ 51 * (d * 2 ^ (- s0)))) by ring.
    generalize dependent (d * 2 ^ (- s0)). generalize dependent (2 ^ b * 2 ^ (- s0)).
    generalize dependent (2 ^ 51). generalize dependent (2 ^ a). intros. nia.
Qed.

Lemma rescale_bounds K D0 N0 D1 N1 :
  0 < K -> 0 < D0 -> 0 < D1 -> K * D0 < N0 -> N0 < 2 * K * D0 -> N1 * D0 = 2 * N0 * D1 ->
  2 * K * D1 <= N1 < 4 * K * D1.
Proof.
  intros HK HD0 HD1 Hlo Hhi Hsc.
  assert (2 * K * D1 * D0 < N1 * D0) as H1 by nia.
  assert (N1 * D0 < 4 * K * D1 * D0) as H2 by nia.
  apply Z.mul_lt_mono_pos_r in H1; [|assumption].
  apply Z.mul_lt_mono_pos_r in H2; [|assumption]. lia.
Qed.

(* the result of one rounding: mantissa m, exponent e = -s *)
Lemma rne_pos_spec n d m e :
  0 < n -> 0 < d -> rne_pos n d = (m, e) ->
  let N := Nsc n (- e) in let D := Dsc d (- e) in
  0 < D /\ 2 * Z.abs (m * D - N) <= D /\ 2 ^ 52 * D <= N < 2 ^ 53 * D /\ 2 ^ 52 <= m <= 2 ^ 53.
Proof.
  intros Hn Hd. unfold rne_pos.
  destruct (n =? 0) eqn:E0; [apply Z.eqb_eq in E0; lia|].
  pose proof (magnitude n d Hn Hd) as Hmag. cbv zeta in Hmag.
  set (s0 := 52 - (Z.log2 n - Z.log2 d)) in *.
  destruct (scaled_div n d s0) as [[q0 r0] den0] eqn:S0.
  apply (scaled_div_spec _ _ _ _ _ _ Hd) in S0. destruct S0 as (-> & HN0 & Hr0).
  pose proof (Dsc_pos d s0 Hd) as HD0.
  change 4503599627370496 with (2 ^ 52).
  assert (2 ^ 51 <= q0 < 2 ^ 53) as Hq0 by nia.
  destruct (q0 <? 2 ^ 52) eqn:Eq.
  - apply Z.ltb_lt in Eq.
    destruct (scaled_div n d (s0 + 1)) as [[q r] den] eqn:S1.
    apply (scaled_div_spec _ _ _ _ _ _ Hd) in S1. destruct S1 as (-> & HN1 & Hr1).
    pose proof (Dsc_pos d (s0 + 1) Hd) as HD1.
    pose proof (sc_succ n d s0) as Hsc.
    intros E. inversion E; subst. cbv zeta. replace (- - (s0 + 1)) with (s0 + 1) by lia.
    assert (2 ^ 52 * Dsc d (s0 + 1) <= Nsc n (s0 + 1) < 2 ^ 53 * Dsc d (s0 + 1)) as Hb.
    { assert (Nsc n s0 < 2 ^ 52 * Dsc d s0) as Hlt by nia.
      destruct Hmag as [Hlo _].
      change (2 ^ 52) with (2 * 2 ^ 51) in *. change (2 ^ 53) with (4 * 2 ^ 51).
      apply (rescale_bounds (2 ^ 51) (Dsc d s0) (Nsc n s0)); try assumption; reflexivity. }
    pose proof (rnd_qr_spec q r _ _ HD1 HN1 Hr1) as [He Hm].
    assert (2 ^ 52 <= q < 2 ^ 53) by nia.
    repeat split; try lia.
  - apply Z.ltb_ge in Eq.
    intros E. inversion E; subst. cbv zeta. replace (- - s0) with s0 by lia.
    pose proof (rnd_qr_spec q0 r0 _ _ HD0 HN0 Hr0) as [He Hm].
    repeat split; try lia; nia.
Qed.

(* ---------- values as rationals ---------- *)
Open Scope Q_scope.

Definition val (a : fl) : Q := inject_Z (fst a) * 2 ^ (snd a).
Definition u53 : Q := 1 # 9007199254740992.   (* 2^-53 *)

Lemma pow2_pos (e : Z) : 0 < 2 ^ e.
Proof. apply Qpower_0_lt. reflexivity. Qed.

Lemma pow2_inject (k : Z) : (0 <= k)%Z -> inject_Z (2 ^ k) == 2 ^ k.
Proof. intros H. rewrite Zpower_Qpower by assumption. reflexivity. Qed.

Lemma pow2_opp (k : Z) : 2 ^ (- k) == / 2 ^ k.
Proof. apply Qpower_opp. Qed.

Lemma pow2_add (a b : Z) : 2 ^ (a + b) == 2 ^ a * 2 ^ b.
Proof. apply Qpower_plus. discriminate. Qed.

(* N/D = (n/d) * 2^s *)
Lemma sc_ratio n d s : (0 < d)%Z ->
  inject_Z (Nsc n s) * inject_Z d == inject_Z n * inject_Z (Dsc d s) * 2 ^ s.
Proof.
  intros Hd. destruct (Z.le_gt_cases 0 s).
  - rewrite Nsc_nonneg_s, Dsc_nonneg_s by assumption.
    rewrite inject_Z_mult, pow2_inject by assumption. ring.
  - rewrite Nsc_neg_s, Dsc_neg_s by lia.
    rewrite inject_Z_mult, pow2_inject by lia.
    assert (2 ^ s == / 2 ^ (- s)) as E
      by (rewrite <- pow2_opp, Z.opp_involutive; reflexivity).
    rewrite E.
    pose proof (pow2_pos (- s)) as Ht. set (t := 2 ^ (- s)) in *. clearbody t.
    field. lra.
Qed.

(* one rounding has relative error at most 2^-53:  n(1-u) <= round(n/d) * d <= n(1+u) *)
Lemma val_rne_pos n d m e : (0 < n)%Z -> (0 < d)%Z -> rne_pos n d = (m, e) ->
  inject_Z n * (1 - u53) <= val (m, e) * inject_Z d <= inject_Z n * (1 + u53).
Proof.
  intros Hn Hd E. pose proof (rne_pos_spec n d m e Hn Hd E) as H. cbv zeta in H.
  destruct H as (HD & Herr & [Hlo _] & _).
  pose proof (sc_ratio n d (- e) Hd) as Hr.
  set (N := Nsc n (- e)) in *. set (D := Dsc d (- e)) in *.
  (* integer form of the error bound *)
  assert ((- N <= 9007199254740992 * (m * D - N) <= N)%Z) as Hz.
  { change (2 ^ 52)%Z with 4503599627370496%Z in Hlo. lia. }
  destruct Hz as [Hz1 Hz2].
  rewrite Zle_Qle in Hz1. rewrite Zle_Qle in Hz2.
  rewrite inject_Z_opp in Hz1.
  rewrite inject_Z_mult, <- Z.add_opp_r, inject_Z_plus, inject_Z_mult, inject_Z_opp in Hz1, Hz2.
  assert (0 < inject_Z D) as HD' by (change 0 with (inject_Z 0); rewrite <- Zlt_Qlt; exact HD).
  assert (0 < inject_Z d) as Hd' by (change 0 with (inject_Z 0); rewrite <- Zlt_Qlt; exact Hd).
  unfold val. cbn [fst snd].
  assert (2 ^ e == / 2 ^ (- e)) as Ee
    by (rewrite <- pow2_opp, Z.opp_involutive; reflexivity).
  rewrite Ee.
  pose proof (pow2_pos (- e)) as Hx. set (x := 2 ^ (- e)) in *. clearbody x.
  set (m' := inject_Z m) in *. set (N' := inject_Z N) in *. set (D' := inject_Z D) in *.
  set (d' := inject_Z d) in *. set (n' := inject_Z n) in *.
  assert (0 < D' * x) as HDx by (apply Qmult_lt_0_compat; assumption).
  assert (m' * D' <= N' * (1 + u53) /\ N' * (1 - u53) <= m' * D') as [Hup Hdn].
  { unfold u53. set (P := m' * D') in *.
    change (inject_Z 9007199254740992) with (9007199254740992 # 1) in Hz1, Hz2. split; lra. }
  assert (n' * D' * x * (1 + u53) == N' * d' * (1 + u53)) as R1 by (rewrite Hr; ring).
  assert (n' * D' * x * (1 - u53) == N' * d' * (1 - u53)) as R2 by (rewrite Hr; ring).
  split.
  - apply (Qmult_le_r _ _ (D' * x) HDx).
    setoid_replace (n' * (1 - u53) * (D' * x)) with (n' * D' * x * (1 - u53)) by ring.
    setoid_replace (m' * / x * d' * (D' * x)) with (m' * D' * d') by (field; lra).
    rewrite R2.
    setoid_replace (N' * d' * (1 - u53)) with (N' * (1 - u53) * d') by ring.
    apply Qmult_le_compat_r; [exact Hdn|lra].
  - apply (Qmult_le_r _ _ (D' * x) HDx).
    setoid_replace (n' * (1 + u53) * (D' * x)) with (n' * D' * x * (1 + u53)) by ring.
    setoid_replace (m' * / x * d' * (D' * x)) with (m' * D' * d') by (field; lra).
    rewrite R1.
    setoid_replace (N' * d' * (1 + u53)) with (N' * (1 + u53) * d') by ring.
    apply Qmult_le_compat_r; [exact Hup|lra].
Qed.

Lemma rne_pos_mant_pos n d : (0 < n)%Z -> (0 < d)%Z -> (0 < fst (rne_pos n d))%Z.
Proof.
  intros Hn Hd. destruct (rne_pos n d) as [m e] eqn:E.
  pose proof (rne_pos_spec n d m e Hn Hd E) as H. cbv zeta in H. cbn [fst].
  destruct H as (_ & _ & _ & [H _]). change (2 ^ 52)%Z with 4503599627370496%Z in H. lia.
Qed.

(* integers below 2^53 convert exactly *)
Lemma val_of_int v : (0 < v < 2 ^ 53)%Z -> val (f_of_int v) == inject_Z v /\ (0 < fst (f_of_int v))%Z.
Proof.
  intros [Hv1 Hv2]. unfold f_of_int, rne.
  destruct (v <? 0)%Z eqn:E0; [apply Z.ltb_lt in E0; lia|].
  split; [|apply rne_pos_mant_pos; lia].
  destruct (rne_pos v 1) as [m e] eqn:E.
  pose proof (rne_pos_spec v 1 m e Hv1 ltac:(lia) E) as H. cbv zeta in H.
  destruct H as (HD & Herr & [Hlo Hhi] & _).
  assert (0 <= - e)%Z as Hs.
  { destruct (Z.le_gt_cases 0 (- e)) as [|Hneg]; [assumption|exfalso].
    rewrite Nsc_neg_s, Dsc_neg_s in * by lia.
    assert (2 ^ 1 <= 2 ^ (- - e))%Z by (apply Z.pow_le_mono_r; lia).
    change (2 ^ 1)%Z with 2%Z in *. change (2 ^ 52)%Z with 4503599627370496%Z in *.
    change (2 ^ 53)%Z with 9007199254740992%Z in *. lia. }
  rewrite Nsc_nonneg_s, Dsc_nonneg_s in * by assumption.
  assert (m = v * 2 ^ (- e))%Z as -> by lia.
  unfold val. cbn [fst snd]. rewrite inject_Z_mult, pow2_inject by assumption.
  assert (2 ^ e == / 2 ^ (- e)) as Ee by (rewrite <- pow2_opp, Z.opp_involutive; reflexivity).
  rewrite Ee. pose proof (pow2_pos (- e)) as Hx. set (x := 2 ^ (- e)) in *. clearbody x.
  field. lra.
Qed.

Lemma val_scale m e k : val (m, (e + k)%Z) == val (m, e) * 2 ^ k.
Proof. unfold val. cbn [fst snd]. rewrite pow2_add. ring. Qed.

Lemma val_pos a : (0 < fst a)%Z -> 0 < val a.
Proof.
  intros H. unfold val. apply Qmult_lt_0_compat; [|apply pow2_pos].
  change 0 with (inject_Z 0). rewrite <- Zlt_Qlt. exact H.
Qed.

Lemma val_f_div a b : (0 < fst a)%Z -> (0 < fst b)%Z ->
  val a * (1 - u53) <= val (f_div a b) * val b <= val a * (1 + u53) /\ (0 < fst (f_div a b))%Z.
Proof.
  destruct a as [ma ea], b as [mb eb]. cbn [fst]. intros Ha Hb. unfold f_div.
  destruct (mb <? 0)%Z eqn:E0; [apply Z.ltb_lt in E0; lia|].
  rewrite Z.abs_eq by lia. unfold rne.
  destruct (ma <? 0)%Z eqn:E1; [apply Z.ltb_lt in E1; lia|].
  pose proof (rne_pos_mant_pos ma mb Ha Hb) as Hm.
  destruct (rne_pos ma mb) as [m e] eqn:E. cbn [fst] in *.
  split; [|exact Hm].
  pose proof (val_rne_pos ma mb m e Ha Hb E) as [H1 H2].
  replace (e + ea - eb)%Z with (e + (ea + - eb))%Z by lia.
  rewrite val_scale, pow2_add, pow2_opp.
  unfold val in *. cbn [fst snd] in *.
  pose proof (pow2_pos ea) as Hx. pose proof (pow2_pos eb) as Hy.
  set (x := 2 ^ ea) in *. set (y := 2 ^ eb) in *. clearbody x y.
  set (w := inject_Z m * 2 ^ e) in *. clearbody w.
  set (ma' := inject_Z ma) in *. set (mb' := inject_Z mb) in *. clearbody ma' mb'.
  setoid_replace (w * (x * / y) * (mb' * y)) with (w * mb' * x) by (field; lra).
  split.
  - setoid_replace (ma' * x * (1 - u53)) with (ma' * (1 - u53) * x) by ring.
    apply Qmult_le_compat_r; [exact H1|lra].
  - setoid_replace (ma' * x * (1 + u53)) with (ma' * (1 + u53) * x) by ring.
    apply Qmult_le_compat_r; [exact H2|lra].
Qed.

Lemma val_f_mul a b : (0 < fst a)%Z -> (0 < fst b)%Z ->
  val (f_mul a b) <= val a * val b * (1 + u53).
Proof.
  destruct a as [ma ea], b as [mb eb]. cbn [fst]. intros Ha Hb. unfold f_mul.
  assert (0 < ma * mb)%Z as Hp by nia. unfold rne.
  destruct (ma * mb <? 0)%Z eqn:E1; [apply Z.ltb_lt in E1; lia|].
  destruct (rne_pos (ma * mb) 1) as [m e] eqn:E.
  pose proof (val_rne_pos (ma * mb) 1 m e Hp ltac:(lia) E) as [_ H2].
  replace (e + ea + eb)%Z with (e + (ea + eb))%Z by lia.
  rewrite val_scale, pow2_add. unfold val in *. cbn [fst snd] in *.
  rewrite inject_Z_mult in H2. change (inject_Z 1) with 1 in H2.
  pose proof (pow2_pos ea) as Hx. pose proof (pow2_pos eb) as Hy.
  set (x := 2 ^ ea) in *. set (y := 2 ^ eb) in *. clearbody x y.
  set (w := inject_Z m * 2 ^ e) in *. clearbody w.
  set (ma' := inject_Z ma) in *. set (mb' := inject_Z mb) in *. clearbody ma' mb'.
  setoid_replace (ma' * x * (mb' * y) * (1 + u53)) with (ma' * mb' * (1 + u53) * (x * y)) by ring.
  apply Qmult_le_compat_r; [lra|]. apply Qlt_le_weak, Qmult_lt_0_compat; assumption.
Qed.

Lemma f_trunc_le_val a : (0 <= fst a)%Z -> inject_Z (f_trunc a) <= val a.
Proof.
  destruct a as [m e]. cbn [fst]. intros Hm. unfold f_trunc, val. cbn [fst snd].
  destruct (0 <=? e)%Z eqn:E.
  - apply Z.leb_le in E. rewrite Z.shiftl_mul_pow2, inject_Z_mult, pow2_inject by assumption. lra.
  - apply Z.leb_gt in E.
    assert (0 < Z.shiftl 1 (- e))%Z as Hk by (apply shiftl1_pos; lia).
    rewrite Z.quot_div_nonneg by lia.
    assert (Z.shiftl 1 (- e) = 2 ^ (- e))%Z as Ek by (rewrite Z.shiftl_mul_pow2 by lia; lia).
    rewrite Ek in *.
    pose proof (Z.mul_div_le m (2 ^ (- e)) Hk) as Hle.
    rewrite Zle_Qle, inject_Z_mult, pow2_inject in Hle by lia.
    assert (2 ^ e == / 2 ^ (- e)) as Ee by (rewrite <- pow2_opp, Z.opp_involutive; reflexivity).
    rewrite Ee. pose proof (pow2_pos (- e)) as Hx. set (x := 2 ^ (- e)) in *. clearbody x.
    set (t := inject_Z (m / 2 ^ (- e))) in *. clearbody t.
    apply (Qmult_le_r _ _ x Hx).
    setoid_replace (inject_Z m * / x * x) with (inject_Z m) by (field; lra). lra.
Qed.

(* ---------- the percentage never rounds above the exact percentage ---------- *)
Lemma f_trunc_zero (e : Z) : f_trunc (0%Z, e) = 0%Z.
Proof. unfold f_trunc. destruct (0 <=? e)%Z; [apply Z.shiftl_0_l|reflexivity]. Qed.

Lemma mul_ratio_zero_l r : mul_ratio 0 r = 0%Z.
Proof.
  unfold mul_ratio. change (f_of_int 0) with (0%Z, 0%Z). destruct r as [mr er].
  unfold f_mul. change (0 * mr)%Z with 0%Z. change (rne 0 1) with (0%Z, 0%Z). apply f_trunc_zero.
Qed.

Lemma mul_ratio_pct_zero v : mul_ratio v (f_pct 0) = 0%Z.
Proof.
  unfold mul_ratio. destruct (f_of_int v) as [mv ev].
  assert (fst (f_pct 0) = 0%Z) as H0 by (vm_compute; reflexivity).
  destruct (f_pct 0) as [m0 e0]. cbn [fst] in H0. subst m0.
  unfold f_mul. rewrite Z.mul_0_r. change (rne 0 1) with (0%Z, 0%Z). apply f_trunc_zero.
Qed.

Theorem mul_pct_le_exact v p :
  (0 <= v < 2 ^ 53)%Z -> (0 <= p < 2 ^ 53)%Z -> (v * p <= 100 * 2 ^ 44)%Z ->
  (100 * mul_ratio v (f_pct p) <= v * p)%Z.
Proof.
  intros [Hv0 Hv] [Hp0 Hp] Hvp.
  destruct (Z.eq_dec v 0) as [->|Hvn]; [rewrite mul_ratio_zero_l; lia|].
  destruct (Z.eq_dec p 0) as [->|Hpn]; [rewrite mul_ratio_pct_zero; lia|].
  assert (0 < v < 2 ^ 53)%Z as Hv' by lia. assert (0 < p < 2 ^ 53)%Z as Hp' by lia.
  pose proof (val_of_int v Hv') as [Vv Mv]. pose proof (val_of_int p Hp') as [Vp Mp].
  pose proof (val_of_int 100 ltac:(split; reflexivity)) as [Vc Mc].
  unfold mul_ratio, f_pct.
  pose proof (val_f_div (f_of_int p) (f_of_int 100) Mp Mc) as [[_ Hr] Mr].
  set (r := f_div (f_of_int p) (f_of_int 100)) in *.
  pose proof (val_f_mul (f_of_int v) r Mv Mr) as Hy.
  set (y := f_mul (f_of_int v) r) in *.
  assert (0 <= fst y)%Z as My by (apply f_mul_nonneg; lia).
  pose proof (f_trunc_le_val y My) as Ht.
  set (T := f_trunc y) in *.
  rewrite Vv in Hy. rewrite Vp, Vc in Hr.
  (* 100 T <= v p (1+u)^2 < v p + 1 *)
  assert (inject_Z (100 * T) < inject_Z (v * p) + 1) as Hfin.
  { rewrite !inject_Z_mult. change (inject_Z 100) with 100 in *.
    assert (0 < inject_Z v) as Hv'' by (change 0 with (inject_Z 0); rewrite <- Zlt_Qlt; lia).
    assert (0 <= inject_Z p) as Hp'' by (change 0 with (inject_Z 0); rewrite <- Zle_Qle; lia).
    assert (inject_Z v * inject_Z p <= 100 * 17592186044416) as Hb.
    { rewrite <- inject_Z_mult. change (100 * 17592186044416) with (inject_Z (100 * 2 ^ 44)).
      rewrite <- Zle_Qle. exact Hvp. }
    set (v' := inject_Z v) in *. set (p' := inject_Z p) in *. set (T' := inject_Z T) in *.
    set (vr := val r) in *. set (vy := val y) in *. clearbody v' p' T' vr vy.
    (* vy <= v' * vr * (1+u), vr * 100 <= p' (1+u) *)
    assert (v' * (vr * 100) <= v' * (p' * (1 + u53))) as H1
      by (rewrite !(Qmult_comm v'); apply Qmult_le_compat_r; lra).
    assert (100 * T' <= v' * p' * (1 + u53) * (1 + u53)) as H2.
    { apply Qle_trans with (100 * (v' * vr * (1 + u53))); [lra|].
      setoid_replace (100 * (v' * vr * (1 + u53))) with (v' * (vr * 100) * (1 + u53)) by ring.
      setoid_replace (v' * p' * (1 + u53) * (1 + u53)) with (v' * (p' * (1 + u53)) * (1 + u53)) by ring.
      apply Qmult_le_compat_r; [exact H1|unfold u53; lra]. }
    set (vp := v' * p') in *.
    assert (vp * (1 + u53) * (1 + u53) == vp + vp * (2 * u53 + u53 * u53)) as Hexp by ring.
    rewrite Hexp in H2.
    assert (vp * (2 * u53 + u53 * u53) < 1) as Hsmall.
    { assert (0 <= vp) as Hvp0.
      { unfold vp. apply Qmult_le_0_compat; lra. }
      apply Qle_lt_trans with (100 * 17592186044416 * (2 * u53 + u53 * u53)).
      - apply Qmult_le_compat_r; [exact Hb|unfold u53; lra].
      - unfold u53. reflexivity. }
    lra. }
  change 1 with (inject_Z 1) in Hfin. rewrite <- inject_Z_plus, <- Zlt_Qlt in Hfin. lia.
Qed.

Close Scope Q_scope.
Open Scope Z_scope.
From Verif Require Import C09.Spec C09.Proofs_Agg.

(* the published amount never exceeds the exact configured percentage of capacity *)
Corollary batch_dim_le_exact_pct d thr cap :
  d_thr d = thr_term thr cap -> 0 <= thr < 2 ^ 53 -> 0 <= cap < 2 ^ 53 -> cap * thr <= 100 * 2 ^ 44 ->
  100 * batch_dim d <= cap * thr.
Proof.
  intros Hd Ht Hc Hb. unfold thr_term in Hd.
  destruct (thr <? 0) eqn:E; [apply Z.ltb_lt in E; lia|].
  pose proof (batch_dim_cap d _ Hd). pose proof (mul_pct_le_exact cap thr Hc Ht Hb). lia.
Qed.
