(* C09 — which strategy IS CONFIGURED for a node after a history of ConfigMap events, written
   declaratively (no cache, no merged copies): the content of the last accepted ConfigMap, layered
        built-in default  <  cluster level  <  the FIRST nodeConfigs entry whose selector matches the node
   field by field ("first present wins"), where an entry that would make the strategy invalid
   contributes nothing.  The node's own annotation / labels come on top (Model.resolve_strategy).
   [cfg_code] judges the IMPLEMENTATION's observations of a history against the bounds of C09
   (Spec.batch_code) computed with THAT strategy — recomputed from the history, never read from the
   implementation's cache. *)
From Coq Require Import List ZArith Bool.
From Verif Require Import C09.Model C09.Spec C09.Cfg.
Import ListNotations.
Open Scope Z_scope.

(* first present value of a field over the layers, most specific first *)
Fixpoint first_pol (l : list Z) (d : Z) : Z :=
  match l with [] => d | v :: t => if v =? 0 then first_pol t d else v end.
Fixpoint first_pct (l : list Z) (d : Z) : Z :=
  match l with [] => d | v :: t => if v =? -1 then first_pct t d else v end.
Definition layered (layers : list spatch) : spatch :=
  let d := default_patch in
  mkPatch (first_pol (map q_cpol layers) (q_cpol d)) (first_pol (map q_mpol layers) (q_mpol d))
          (first_pct (map q_crec layers) (q_crec d)) (first_pct (map q_mrec layers) (q_mrec d))
          (first_pct (map q_cthr layers) (q_cthr d)) (first_pct (map q_mthr layers) (q_mthr d))
          (first_pct (map q_deg layers) (q_deg d)) (first_pct (map q_upd layers) (q_upd d)).

(* the accepted content: cluster-level fields and node entries exactly as written *)
Notation content := (spatch * nodecfgs)%type.
Definition default_content : content := (empty_patch, []).

(* a delivered ConfigMap is accepted when it parses and its cluster level is valid over the defaults *)
Definition acceptable (cm : cmdata) : option content :=
  if cm_kind cm =? 1 then Some default_content
  else if cm_kind cm =? 0 then
    if patch_valid (layered [cm_cluster cm]) then Some (cm_cluster cm, cm_nodes cm) else None
  else None.

(* the strategy configured for a node with the given labels *)
Definition node_layer (c : content) (pool tier : Z) : spatch :=
  match first_match (snd c) pool tier with
  | Some e => if patch_valid (layered [snd e; fst c]) then snd e else empty_patch
  | None => empty_patch
  end.
Definition configured (c : content) (pool tier : Z) : spatch :=
  layered [node_layer c pool tier; fst c].

(* reference semantics of a history: only WHAT is configured *)
Record rstate := mkR { r_cur : option content; r_stored : option cmdata }.
Definition r0 : rstate := mkR None None.
Definition r_ensure (r : rstate) : rstate :=
  match r_cur r with
  | Some _ => r
  | None => mkR (match r_stored r with None => Some default_content | Some cm => acceptable cm end)
                (r_stored r)
  end.
Definition rstep (r : rstate) (o : cop) : rstate :=
  let k := o_kind o in
  if k =? 1 then mkR (match acceptable (o_cm o) with Some c => Some c | None => r_cur r end) (Some (o_cm o))
  else if k =? 3 then mkR (r_cur r) None
  else if k =? 4 then r_ensure r
  else r.

(* the node input under the strategy configured for it *)
Definition configured_input (c : content) (pool tier : Z) (b : binput) (nc : nodecfg) : binput :=
  set_strategy b (resolve_strategy (to_strategy (configured c pool tier)) nc).

(* length of one reconcile's observation inside the concatenated observable *)
Definition chunk_len (obs : list Z) : nat :=
  match obs with
  | [] => 0%nat
  | h :: t =>
      if h =? 0 then (match t with _ :: _ :: _ :: _ :: nz :: _ => 6 + 2 * Z.to_nat nz | _ => 1 end)%nat
      else if h =? 1 then 3%nat else 1%nat
  end.

(* 0 holds; 1/2/3/9/10/2x/3x: Spec.batch_code of that reconcile under the configured strategy;
   11: an amount was calculated although no valid configuration was ever delivered;
   12: a valid configuration is in force but the reconcile did nothing (the old amount stays);
   13: the observable has more / fewer observations than the history has reconciles *)
Definition query_code (r : rstate) (o : cop) (b : binput) (nc : nodecfg) (chunk : list Z) : Z :=
  match r_cur r with
  | None => if eq_listZ chunk unavailable then 0 else 11
  | Some c =>
      if eq_listZ chunk unavailable then 12
      else batch_code false (configured_input c (o_pool o) (o_tier o) b nc) chunk
  end.

Fixpoint code_from (b : binput) (nc : nodecfg) (r : rstate) (ops : list cop) (obs : list Z) : Z :=
  match ops with
  | [] => (match obs with [] => 0 | _ => 13 end)
  | o :: t =>
      let r1 := rstep r o in
      if o_kind o =? 4 then
        match obs with
        | [] => 13
        | _ => let n := chunk_len obs in
               let c := query_code r1 o b nc (firstn n obs) in
               if c =? 0 then code_from b nc r1 t (skipn n obs) else c
        end
      else code_from b nc r1 t obs
  end.
Definition cfg_code (ops : list cop) (b : binput) (nc : nodecfg) (obs : list Z) : Z :=
  code_from b nc r0 ops obs.

(* the same as a Prop: every reconcile of the history, in order, obeys C09 under the strategy
   configured for its node at that point of the history *)
Fixpoint holds_from (b : binput) (nc : nodecfg) (r : rstate) (ops : list cop) (chunks : list (list Z)) : Prop :=
  match ops with
  | [] => chunks = []
  | o :: t =>
      let r1 := rstep r o in
      if o_kind o =? 4 then
        match chunks with
        | [] => False
        | ch :: rest =>
            match r_cur r1 with
            | None => ch = unavailable
            | Some c => ch <> unavailable /\
                        C09_holds (configured_input c (o_pool o) (o_tier o) b nc) ch
            end /\ holds_from b nc r1 t rest
        end
      else holds_from b nc r1 t chunks
  end.
Definition C09_cfg_holds (ops : list cop) (b : binput) (nc : nodecfg) (chunks : list (list Z)) : Prop :=
  holds_from b nc r0 ops chunks.

(* a history is non-trivial for this stream when some reconcile is served by a nodeConfigs entry
   that is not the first of its ConfigMap (so that entries of other pools precede it) *)
Fixpoint match_index (ns : nodecfgs) (pool tier : Z) (i : Z) : Z :=
  match ns with
  | [] => -1
  | e :: t => if sel_matches (fst e) pool tier then i else match_index t pool tier (i + 1)
  end.
Fixpoint later_entry_from (r : rstate) (ops : list cop) : bool :=
  match ops with
  | [] => false
  | o :: t =>
      let r1 := rstep r o in
      ((o_kind o =? 4) &&
       match r_cur r1 with Some c => 1 <=? match_index (snd c) (o_pool o) (o_tier o) 0 | None => false end)
      || later_entry_from r1 t
  end.
