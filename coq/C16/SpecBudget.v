(* C16 (budget functions) — the decision procedure of the stream budget: every answer of the
   implementation is compared with the specified value.  The budget values are part of the property
   ("its allowed unavailability", "the configured maximum per workload"). *)
From Coq Require Import List ZArith Bool.
From Verif Require Import C16.ModelArb C16.ModelBudget.
Import ListNotations.
Open Scope Z_scope.

Notation query := (Z * Z * Z * Z)%type.

Definition run_q (q : query) : list Z :=
  let '(f, a, b, c) := q in let '(e, v) := budget_query f a b c in [e; v].

Definition run_qs (qs : list query) : list Z := flat_map run_q qs.

(* 0 = every answer is the specified one; else the clause of the first wrong answer:
   6 budget (GetMaxUnavailable / GetMaxMigrating), 7 limiter burst, 8 eviction-cost filter; 9 malformed *)
Fixpoint check_qs (qs : list query) (obs : list Z) : Z :=
  match qs, obs with
  | [], [] => 0
  | q :: t, e :: v :: r =>
      let '(f, a, b, c) := q in
      let '(e', v') := budget_spec f a b c in
      if (e =? e') && (v =? v') then check_qs t r else budget_clause f
  | _, _ => 9
  end.
