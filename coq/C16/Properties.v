(* C16 — exported theorems only: each is closed by [exact] and followed by Print Assumptions;
   non-vacuity Examples at the end. *)
From Coq Require Import List ZArith Bool Lia.
From Verif Require Import C16.Model C16.Spec C16.ModelArb C16.SpecArb
  C16.Proofs_Evict C16.Proofs_Limiter C16.Proofs_Seq C16.Proofs_Arb C16.Proofs_Arb2 C16.Proofs_Arb3 C16.Proofs_Arb4 C16.Proofs_Arb5 C16.Proofs_Trace
  C16.ModelDE C16.SpecDE C16.Proofs_DE C16.Proofs_DETrace C16.ModelBudget C16.SpecBudget C16.Proofs_Budget.
Import ListNotations.
Open Scope Z_scope.

(* ================= arbitration ================= *)

(* after a round, whatever the order in which the waiting jobs are processed, the pods being
   migrated (running job, or pending job that is in the arbitrator's map or carries the
   passed-arbitration annotation) number at most max(limit, number before): globally, per node,
   per namespace, per workload *)
Theorem c16_round_limits : forall c fail order st,
  wf_pods st -> wf_cfg c -> limits_hold c st (round_on c fail order st).
Proof. exact round_on_limits. Qed.
Print Assumptions c16_round_limits.

(* the same budgets read off the API objects only ("passed arbitration" = the annotation) - what
   bin/check recomputes from the history; for every state, also right after a restart *)
Theorem c16_round_limits_api : forall c fail order st,
  wf_pods st -> wf_cfg c ->
  limits_hold c (annot_view st) (annot_view (round_on c fail order st)).
Proof. exact round_on_limits_annot. Qed.
Print Assumptions c16_round_limits_api.

Theorem c16_unavailable_api : forall c fail order st,
  wf_pods st -> wf_cfg c ->
  unavail_holds c (annot_view st) (annot_view (round_on c fail order st)).
Proof. exact round_on_unavail_annot. Qed.
Print Assumptions c16_unavailable_api.

(* the same bounds for the NUMBER OF MIGRATION JOBS that are running or passed arbitration, when
   the live-or-waiting jobs reference pairwise different pods (guaranteed for jobs created through
   Arbitrator.Filter, see c16_no_second_job_history) *)
Theorem c16_round_limits_jobs : forall c fail order st,
  wf_pods st -> wf_jobs st -> wf_cfg c -> distinct_pods st ->
  job_limits_hold c st (round_on c fail order st).
Proof. exact round_on_job_limits. Qed.
Print Assumptions c16_round_limits_jobs.

(* per workload, unavailable-or-migrating pods stay within max(maxUnavailable, number before) *)
Theorem c16_unavailable : forall c fail order st,
  wf_pods st -> wf_cfg c -> unavail_holds c st (round_on c fail order st).
Proof. exact round_on_unavail. Qed.
Print Assumptions c16_unavailable.

(* a job whose pod passes the non-retryable filter but not a budget is left exactly as it was *)
Theorem c16_refused_waits : forall c f st jid j p,
  find_job st jid = Some j -> j_waiting j = true -> pod_of st j = Some p ->
  nonretryable c st p = true -> retryable c true st p = false ->
  arbitrate_one c f st jid = st.
Proof. exact refused_waits. Qed.
Print Assumptions c16_refused_waits.

(* Arbitrator.Filter rejects a pod that already has a pending or running migration job *)
Theorem c16_no_second_job : forall c st p,
  has_live_job st p = true -> filter_pod c st p = false.
Proof. exact filter_no_second_job. Qed.
Print Assumptions c16_no_second_job.

(* over histories: when jobs are created only through Filter (OEvict = Reconciler.Evict) and a
   finished job is never put back to Pending/Running, no pod ever has two live migration jobs *)
Theorem c16_no_second_job_history : forall c ops st,
  wf_jobs st -> single_job st -> hist_ok c st ops -> single_job (final c st ops).
Proof. exact history_single_job. Qed.
Print Assumptions c16_no_second_job_history.

(* the decision procedure that bin/check evaluates on the implementation's observables
   (budgets and unavailability on the annotation view, per-job outcome: passed |
   failed-only-if-non-retryable | untouched) holds of every round of the model, from every
   well-formed state (restarts included), in the real sort order *)
Theorem c16_round_code_ok : forall c f st,
  wf_pods st -> wf_jobs st -> wf_cfg c -> round_code c st (round c f st) = 0.
Proof. exact round_code_ok. Qed.
Print Assumptions c16_round_code_ok.

(* the boolean budget check means the Prop *)
Theorem c16_limits_okb_sound : forall c st st',
  a_pods st' = a_pods st -> limits_okb c st st' = true -> limits_hold c st st'.
Proof. exact limits_okb_sound. Qed.
Print Assumptions c16_limits_okb_sound.

Theorem c16_unavail_okb_sound : forall c st st',
  a_pods st' = a_pods st -> unavail_okb c st st' = true -> unavail_holds c st st'.
Proof. exact unavail_okb_sound. Qed.
Print Assumptions c16_unavail_okb_sound.

(* ================= PodEvictor (check-and-reserve in one critical section) ================= *)

(* every schedule of every number of threads: evictions issued and not failed never exceed the
   per-node / per-namespace cap *)
Theorem c16_conc_caps_all_schedules : forall dry c reqs sched,
  caps_nonneg c ->
  let s := exec (pe_step dry c reqs) (init_est (length reqs)) sched in
  (forall m k, cap_node c = Some m -> k <> 0 -> issued_live reqs (on_node k) s <= m)
  /\ (forall m k, cap_ns c = Some m -> issued_live reqs (on_ns k) s <= m).
Proof. exact pe_conc_caps_all. Qed.
Print Assumptions c16_conc_caps_all_schedules.

(* the same, phrased with Lib.Interleave: after every prefix of every interleaving of the threads *)
Theorem c16_conc_caps : forall dry c reqs sched,
  caps_nonneg c -> interleaving (threads (length reqs)) sched ->
  forall pre suf, sched = pre ++ suf ->
  let s := exec (pe_step dry c reqs) (init_est (length reqs)) pre in
  (forall m k, cap_node c = Some m -> k <> 0 -> issued_live reqs (on_node k) s <= m)
  /\ (forall m k, cap_ns c = Some m -> issued_live reqs (on_ns k) s <= m).
Proof. exact (fun dry c reqs sched Hc _ pre _ _ => pe_conc_caps_all dry c reqs pre Hc). Qed.
Print Assumptions c16_conc_caps.

(* whenever no thread sits between reserve and the API call or between a failed call and
   unreserve, the reported counters equal the evictions issued and not failed *)
Theorem c16_counters_exact : forall dry c reqs sched,
  caps_nonneg c ->
  let s := exec (pe_step dry c reqs) (init_est (length reqs)) sched in
  settled s ->
  (forall k, k <> 0 -> cn s k = issued_live reqs (on_node k) s) /\ cn s 0 = 0
  /\ (forall k, cs s k = issued_live reqs (on_ns k) s)
  /\ ct s = issued_live reqs any_req s.
Proof. exact pe_counters_exact. Qed.
Print Assumptions c16_counters_exact.

(* sequential caller, any order of requests *)
Theorem c16_seq_caps : forall dry c reqs order,
  caps_nonneg c ->
  let s := exec (pe_step dry c reqs) (init_est (length reqs)) (seq_schedule order) in
  (forall m k, cap_node c = Some m -> k <> 0 -> issued_live reqs (on_node k) s <= m)
  /\ (forall m k, cap_ns c = Some m -> issued_live reqs (on_ns k) s <= m)
  /\ (forall k, k <> 0 -> cn s k = issued_live reqs (on_node k) s) /\ cn s 0 = 0
  /\ (forall k, cs s k = issued_live reqs (on_ns k) s)
  /\ ct s = issued_live reqs any_req s
  /\ (dry = true -> calls s = []).
Proof. exact pe_seq_caps. Qed.
Print Assumptions c16_seq_caps.

(* the decision procedure that bin/check evaluates on the implementation's observables (caps,
   counters = issued, refusal without side effect, dry-run silent; Spec.evict_code) holds of the
   model's own trace for EVERY PodEvictor case: any requests, caps, dry-run flag and any schedule
   at the granularity of the harness (Extract: run_case = flatten model_trace, prop_case = evict_code) *)
Theorem c16_podevictor_model_ok : forall e,
  e_lim e = false -> caps_nonneg (e_caps e) -> evict_code e (model_trace e) = 0.
Proof. exact pe_model_trace_ok. Qed.
Print Assumptions c16_podevictor_model_ok.

Theorem c16_refusal_frame : forall dry c reqs s i,
  pc_of s i = PStart -> pc_of (pe_step dry c reqs s i) i = PRefused ->
  let s' := pe_step dry c reqs s i in
  cn s' = cn s /\ cs s' = cs s /\ ct s' = ct s /\ calls s' = calls s
  /\ forall j, j <> i -> pc_of s' j = pc_of s j.
Proof. exact pe_refusal_frame. Qed.
Print Assumptions c16_refusal_frame.

Theorem c16_dry_no_call : forall c reqs sched,
  caps_nonneg c -> calls (exec (pe_step true c reqs) (init_est (length reqs)) sched) = [].
Proof. exact pe_dry_no_call. Qed.
Print Assumptions c16_dry_no_call.

(* ================= evictorProxy + EvictionLimiter (two critical sections) ================= *)

(* if nobody enters AllowEvict while another eviction is in flight, admitted-and-not-failed
   evictions stay within all three caps and the counters equal the completed evictions *)
Theorem c16_limiter_disciplined_caps : forall dry c reqs sched,
  caps_nonneg c ->
  disciplined (lim_step dry c reqs) reqs (init_est (length reqs)) sched ->
  let s := exec (lim_step dry c reqs) (init_est (length reqs)) sched in
  (forall m k, cap_node c = Some m -> k <> 0 ->
     tsum (w_of false (on_node k) granted_pc) reqs (pcs s) <= m)
  /\ (forall m k, cap_ns c = Some m -> tsum (w_of false (on_ns k) granted_pc) reqs (pcs s) <= m)
  /\ (forall m, cap_total c = Some m -> tsum (w_of false any_req granted_pc) reqs (pcs s) <= m)
  /\ (forall k, k <> 0 -> cn s k = tsum (w_of false (on_node k) doneok) reqs (pcs s))
  /\ (forall k, cs s k = tsum (w_of false (on_ns k) doneok) reqs (pcs s))
  /\ ct s = tsum (w_of false any_req doneok) reqs (pcs s).
Proof. exact lim_disciplined_caps. Qed.
Print Assumptions c16_limiter_disciplined_caps.

Theorem c16_limiter_seq_caps : forall dry c reqs order,
  caps_nonneg c ->
  let s := exec (lim_step dry c reqs) (init_est (length reqs)) (seq_schedule order) in
  (forall m k, cap_node c = Some m -> k <> 0 -> cn s k <= m)
  /\ (forall m k, cap_ns c = Some m -> cs s k <= m)
  /\ (forall m, cap_total c = Some m -> ct s <= m)
  /\ (forall k, k <> 0 -> cn s k = tsum (w_of false (on_node k) doneok) reqs (pcs s))
  /\ (forall k, cs s k = tsum (w_of false (on_ns k) doneok) reqs (pcs s))
  /\ ct s = tsum (w_of false any_req doneok) reqs (pcs s).
Proof. exact lim_seq_caps. Qed.
Print Assumptions c16_limiter_seq_caps.

(* concurrent callers: an interleaving of two threads issues two evictions under a total cap of 1
   (known finding, replayed on the real code by the limiter stream) *)
Theorem c16_limiter_conc_refuted :
  exists c reqs sched m,
    caps_nonneg c /\ interleaving (threads (length reqs)) sched /\ cap_total c = Some m /\
    let s := exec (lim_step false c reqs) (init_est (length reqs)) sched in
    m < issued_live reqs any_req s /\ m < ct s.
Proof. exact lim_conc_refuted. Qed.
Print Assumptions c16_limiter_conc_refuted.

(* ================= the production stack: evictorProxy + EvictionLimiter around the DefaultEvictor's
   own PodEvictor, over several descheduling cycles (Reset) ================= *)

(* the plugin's PodEvictor (built by defaultevictor.New: not dry-run, no caps): for EVERY list of
   operations - any interleaving of any number of threads, cycle resets anywhere - its counters
   equal the evictions issued and not failed whenever no thread sits between reserve and the API
   call or between a failed call and unreserve *)
Theorem c16_stack_inner_counters_exact : forall dry c reqs ops,
  let s := d_in (de_run dry c reqs (init_dst (length reqs)) ops) in
  settled s ->
  (forall k, k <> 0 -> cn s k = issued_live reqs (on_node k) s) /\ cn s 0 = 0
  /\ (forall k, cs s k = issued_live reqs (on_ns k) s)
  /\ ct s = issued_live reqs any_req s.
Proof. exact de_inner_counters_exact. Qed.
Print Assumptions c16_stack_inner_counters_exact.

(* in every descheduling cycle, when nobody enters AllowEvict and no cycle is reset while an eviction is
   in flight: the evictions admitted in the cycle and not failed stay within the three caps, and the
   limiter's counters are the evictions completed in the cycle *)
Theorem c16_stack_disciplined_caps : forall dry c reqs ops,
  caps_nonneg c ->
  de_disciplined dry c reqs (init_dst (length reqs)) ops ->
  let s := d_out (de_run dry c reqs (init_dst (length reqs)) ops) in
  (forall m k, cap_node c = Some m -> k <> 0 ->
     tsum (w_of false (on_node k) granted_pc) reqs (pcs s) <= m)
  /\ (forall m k, cap_ns c = Some m -> tsum (w_of false (on_ns k) granted_pc) reqs (pcs s) <= m)
  /\ (forall m, cap_total c = Some m -> tsum (w_of false any_req granted_pc) reqs (pcs s) <= m)
  /\ (forall k, k <> 0 -> cn s k = tsum (w_of false (on_node k) doneok) reqs (pcs s))
  /\ (forall k, cs s k = tsum (w_of false (on_ns k) doneok) reqs (pcs s))
  /\ ct s = tsum (w_of false any_req doneok) reqs (pcs s).
Proof. exact de_disciplined_caps. Qed.
Print Assumptions c16_stack_disciplined_caps.

(* the framework's dry-run: no operation list ever reaches the eviction API *)
Theorem c16_stack_dry_no_call : forall c reqs ops,
  calls (d_in (de_run true c reqs (init_dst (length reqs)) ops)) = [].
Proof. exact de_dry_no_call. Qed.
Print Assumptions c16_stack_dry_no_call.

(* the decision procedure that bin/check evaluates on the implementation's observables of the stream
   defaultevictor (caps per cycle, both layers' counters = evictions issued judged by their fate at the
   API, refusal without side effect, dry-run silent, Filter / PreEvictionFilter / NodeLimitExceeded /
   Reset touch nothing else, Evict's answer = the fate of the eviction; SpecDE.de_code) holds of the
   model's own trace for EVERY disciplined case *)
Theorem c16_stack_model_ok : forall e,
  caps_nonneg (dc_caps e) ->
  de_disciplined (dc_dry e) (dc_caps e) (dc_reqs e) (init_dst (length (dc_reqs e))) (dc_ops e) ->
  de_code e (de_model_trace e) = 0.
Proof. exact de_model_trace_ok. Qed.
Print Assumptions c16_stack_model_ok.

(* ================= the budget functions (util.go) ================= *)

(* the definitions regenerated from the source answer every query as specified, hence the decision
   procedure of the stream budget holds of the model for every list of queries *)
Theorem c16_budget_model_is_spec : forall fn a b c, budget_query fn a b c = budget_spec fn a b c.
Proof. exact budget_model_is_spec. Qed.
Print Assumptions c16_budget_model_is_spec.

Theorem c16_budget_check_model : forall qs, check_qs qs (run_qs qs) = 0.
Proof. exact budget_check_model. Qed.
Print Assumptions c16_budget_check_model.

(* GetMaxUnavailable = GetMaxMigrating in closed form: the replica count caps a setting that is the
   default table (nil), the integer (at least 1), or the percentage rounded down (at least 1) *)
Theorem c16_budget_closed : forall r x, get_max r x = budget_closed r x.
Proof. exact get_max_closed. Qed.
Print Assumptions c16_budget_closed.

Theorem c16_budget_bounds : forall r x,
  get_max r x <= r /\ (1 <= r -> 0 <= snd x -> 1 <= get_max r x).
Proof. exact budget_bounds. Qed.
Print Assumptions c16_budget_bounds.

Theorem c16_budget_percent : forall r v,
  0 <= r -> 0 <= v -> get_max r (2, v) = Z.min r (Z.max 1 ((v * r) / 100)).
Proof. exact budget_percent. Qed.
Print Assumptions c16_budget_percent.

Theorem c16_budget_default : forall r,
  0 <= r ->
  get_max r (0, 0) = if r <=? 3 then Z.min r 1 else if r <=? 10 then 2 else (10 * r) / 100.
Proof. exact budget_default. Qed.
Print Assumptions c16_budget_default.

Theorem c16_cost_filter_iff : forall kind v,
  filter_max_cost kind v = false <-> kind = 1 /\ v = int32_max.
Proof. exact cost_filter_iff. Qed.
Print Assumptions c16_cost_filter_iff.

(* ================= non-vacuity ================= *)

(* arbitration: global limit 1, two pods, two waiting jobs: the hypotheses hold, one job passes,
   the other keeps waiting, and the budget is reached (1 = limit) *)
Definition ex_cfg : cfg := mkCfg 1 0 0 (0, 0) (0, 0) true.
Definition ex_st : ast :=
  mkA [mkPod 1 1 1 0 0 0 true false true false false; mkPod 2 1 1 0 0 1 true false true false false] []
      [mkJob 1 1 0 true true 0 false true false false; mkJob 2 2 1 true true 0 false true false false].

(* regression for the fixed restart defect (bc5a78a): right after a restart (j1 admitted before
   it and still Pending, map empty, j2 new) the OLD map-only count sees no other job and would
   admit j2 beyond the global limit 1; the repaired filter refuses j2 and the budget holds *)
Example c16_restart_old_variant_refuted :
  let p2 := mkPod 2 1 1 0 0 1 true false true false false in
  measure (annot_view rs_st) sel_all = c_maxg rs_cfg
  /\ countb (fun j => avail_old true j && negb (j_pod j =? 0) && negb (j_pod j =? p_id p2)) (a_jobs rs_st) = 0
  /\ f_global rs_cfg true rs_st p2 = false
  /\ measure (annot_view (round rs_cfg 0 rs_st)) sel_all = c_maxg rs_cfg.
Proof. exact restart_old_vs_new. Qed.

Example c16_ex_wf : wf_pods ex_st /\ wf_jobs ex_st /\ wf_cfg ex_cfg.
Proof.
  repeat split; cbn; try lia.
  - repeat constructor; cbn; intuition lia.
  - intros v [<-|[<-|[]]]; cbn; lia.
  - repeat constructor; cbn; intuition lia.
Qed.

Example c16_ex_round :
  measure ex_st sel_all = 0 /\ measure (round ex_cfg 0 ex_st) sel_all = 1
  /\ map j_waiting (a_jobs (round ex_cfg 0 ex_st)) = [true; false]
  /\ map j_passed (a_jobs (round ex_cfg 0 ex_st)) = [false; true].
Proof. vm_compute. repeat split. Qed.

Example c16_ex_distinct : distinct_pods ex_st /\ jcount (round ex_cfg 0 ex_st) sel_all = 1.
Proof. split; [repeat constructor; cbn; intuition lia|vm_compute; reflexivity]. Qed.

(* where the hypotheses of the job-count form are needed (both replayed on the real code by
   corpus/C16/arbitration/jobcount_limits.case):
   two waiting jobs for the SAME pod both pass under a global limit of 1 (one pod is migrated,
   two jobs are "passed"); a job whose pod does not exist passes without any check *)
Example c16_ex_same_pod_two_jobs :
  let st := mkA [mkPod 1 1 1 0 0 0 true false true false false] []
                [mkJob 1 1 0 true true 0 false true false false;
                 mkJob 2 1 1 true true 0 false true false false] in
  wf_pods st /\ measure (round ex_cfg 0 st) sel_all = 1 /\ jcount (round ex_cfg 0 st) sel_all = 2.
Proof.
  split; [split; [repeat constructor; cbn; intuition lia|intros v [<-|[]]; cbn; lia]|].
  vm_compute. split; reflexivity.
Qed.

Example c16_ex_missing_pod_passes :
  let st := mkA [mkPod 1 1 1 0 0 0 true false true false false; mkPod 2 1 1 0 0 1 true false false false false] []
                [mkJob 1 1 0 true true 1 true false true false;
                 mkJob 2 2 1 true true 0 false true false false] in
  map j_passed (a_jobs (round ex_cfg 0 st)) = [true; true]
  /\ countb (avail true) (a_jobs (round ex_cfg 0 st)) = 2
  /\ measure (round ex_cfg 0 st) sel_all = 1.
Proof. vm_compute. repeat split. Qed.

(* histories: Evict j1 (pod 1), a round, Evict j2 for the same pod is refused *)
Definition ex_st2 : ast :=
  mkA [mkPod 1 1 1 0 0 0 true false true false false] []
      [mkJob 1 1 0 false false 0 false false false false; mkJob 2 1 1 false false 0 false false false false].
Definition ex_ops : list op := [OEvict 1; ORound 0; OEvict 2; OSetPhase 1 1; OSetPhase 1 2; OEvict 2].

Example c16_ex_history :
  wf_jobs ex_st2 /\ single_job ex_st2 /\ hist_ok ex_cfg ex_st2 ex_ops
  /\ map snd (run_ops ex_cfg ex_st2 ex_ops) = [1; -1; 0; -1; -1; 1].
Proof.
  split; [repeat constructor; cbn; intuition lia|].
  split; [intros k _; unfold live_count; cbn; lia|].
  split; [|vm_compute; reflexivity].
  cbn. repeat split; auto; intros; try discriminate.
  all: try (match goal with H : Some _ = Some _ |- _ => inversion H; subst; reflexivity end).
Qed.

(* PodEvictor: per-node cap 1, three concurrent requests for the node: exactly one is issued *)
Example c16_ex_evict :
  let c := mkCaps (Some 1) None None in
  let reqs := [mkReq 1 1 true; mkReq 1 1 true; mkReq 1 1 true] in
  caps_nonneg c /\
  issued_live reqs (on_node 1)
    (exec (pe_step false c reqs) (init_est 3) [0; 1; 2; 0; 1; 2; 0; 1; 2; 0; 1; 2]%nat) = 1.
Proof.
  split; [repeat split; cbn; intros m H; inversion H; lia|vm_compute; reflexivity].
Qed.

(* limiter: a disciplined (sequential) schedule exists and reaches the cap *)
Example c16_ex_limiter :
  let c := mkCaps None None (Some 1) in
  let reqs := [mkReq 1 1 true; mkReq 1 1 true] in
  disciplined (lim_step false c reqs) reqs (init_est 2) (seq_schedule [0; 1]%nat)
  /\ ct (exec (lim_step false c reqs) (init_est 2) (seq_schedule [0; 1]%nat)) = 1.
Proof.
  split; [apply disciplined_seq, quiet_init|vm_compute; reflexivity].
Qed.

(* the stack: total cap 1, three requests; two cycles.  The schedule is disciplined, the second request
   of the first cycle is refused, the third is granted after the reset; the limiter then reports 1
   (this cycle), the plugin's PodEvictor 2 (both cycles) *)
Definition ex_dcase : dcase :=
  mkDC false (mkDF false false false false) (mkCaps None None (Some 1)) 1 1
       [mkReq 1 1 true; mkReq 1 1 true; mkReq 1 1 true]
       [mkPA false false false false false false false false false false;
        mkPA false false false false false false false false false false;
        mkPA true false false false false false false false false false]
       [DStep 0; DStep 0; DStep 1; DStep 1; DFilter 2; DReset; DStep 2; DStep 2]%nat.

Example c16_ex_stack :
  caps_nonneg (dc_caps ex_dcase)
  /\ de_disciplined (dc_dry ex_dcase) (dc_caps ex_dcase) (dc_reqs ex_dcase) (init_dst 3) (dc_ops ex_dcase)
  /\ map r_ret (de_model_trace ex_dcase) = [0; 2; 1; 0; 0; 0; 0; 2]
  /\ map r_verdict (de_model_trace ex_dcase) = [-1; -1; -1; -1; 0; -1; -1; -1]
  /\ ct (d_out (de_run false (dc_caps ex_dcase) (dc_reqs ex_dcase) (init_dst 3) (dc_ops ex_dcase))) = 1
  /\ ct (d_in (de_run false (dc_caps ex_dcase) (dc_reqs ex_dcase) (init_dst 3) (dc_ops ex_dcase))) = 2.
Proof.
  split; [repeat split; cbn; intros m H; inversion H; lia|].
  split; [|vm_compute; repeat split; reflexivity].
  cbn [ex_dcase dc_dry dc_caps dc_reqs dc_ops de_disciplined].
  repeat match goal with
         | |- _ /\ _ => split
         | |- True => exact I
         | |- start_ok _ _ _ =>
             let H1 := fresh in let H2 := fresh in
             intros H1 H2; vm_compute in H1; first [discriminate H1 | vm_compute; reflexivity]
         | |- nobody_in_flight _ _ => vm_compute; reflexivity
         end.
Qed.

(* the budgets of a 25-replica workload: default 2 (10%), "30%" = 7, 40 = 25; none for 0 replicas *)
Example c16_ex_budget :
  get_max 25 (0, 0) = 2 /\ get_max 25 (2, 30) = 7 /\ get_max 25 (1, 40) = 25 /\ get_max 0 (1, 3) = 0
  /\ get_max 3 (2, 10) = 1.
Proof. vm_compute. repeat split. Qed.
