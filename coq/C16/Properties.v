(* C16 — exported theorems only: each is closed by [exact] and followed by Print Assumptions. *)
From Coq Require Import List ZArith Bool.
From Verif Require Import C16.Model C16.Spec C16.Proofs_Evict.
Open Scope Z_scope.

Theorem c16_tmp : forall A i (v : A) l, length (set_nth i v l) = length l.
Proof. exact @set_nth_length. Qed.
Print Assumptions c16_tmp.
