(* C16 — flat-integer interface of the eviction-cap model, shared by the streams podevictor and
   limiter (their Extract.v files only fix the stream tag).
   input :  lim dry capNode capNs capTotal N M  T (node ns ok)*T  S tid*S      (cap -1 = unset)
   observable : per schedule step  api ret total  node-counters(0..N)  ns-counters(1..M) *)
From Coq Require Import List ZArith Bool.
From Verif Require Import Lib.Wire C16.Model C16.Spec.
Import ListNotations.
Open Scope Z_scope.

Definition dec_cap (z : Z) : option Z := if z <? 0 then None else Some z.

Definition dec_req (l : list Z) : req * list Z :=
  match l with
  | a :: b :: c :: t => (mkReq a b (zb c), t)
  | _ => (mkReq 0 0 false, [])
  end.

Definition decode (inp : list Z) : ecase :=
  match inp with
  | lim :: dry :: cn :: cs :: ctot :: n :: m :: t =>
      let '(reqs, r) := decode_seq dec_req t in
      let '(sched, _) := take_list r in
      mkEC (zb lim) (zb dry) (mkCaps (dec_cap cn) (dec_cap cs) (dec_cap ctot))
           (Z.to_nat n) (Z.to_nat m) reqs (map Z.to_nat sched)
  | _ => mkEC false false (mkCaps None None None) O O [] []
  end.

Definition flat_rec (o : srec) : list Z :=
  bz (o_api o) :: o_ret o :: o_ct o :: o_cn o ++ o_cs o.

(* an input belongs to the stream whose tag is its first integer (0 = podevictor, 1 = limiter);
   anything else (e.g. a replay file of another stream) is foreign: empty observable, no verdict *)
Definition mine (tag : Z) (inp : list Z) : bool := match inp with t :: _ => t =? tag | [] => false end.

Definition run_case_for (tag : Z) (inp : list Z) : list Z :=
  if mine tag inp then flat_map flat_rec (model_trace (decode inp)) else [].

(* cut the observable into one record per schedule step *)
Fixpoint dec_obs (N M : nat) (sched : list nat) (obs : list Z) : list srec :=
  match sched with
  | [] => match obs with [] => [] | _ => [mkS O false 0 0 [] []] end   (* trailing garbage: wrong length *)
  | i :: t =>
      match obs with
      | a :: r :: c :: rest =>
          if Nat.leb (S N + M) (length rest) then
            mkS i (zb a) r c (firstn (S N) rest) (firstn M (skipn (S N) rest))
            :: dec_obs N M t (skipn (S N + M) rest)
          else []
      | _ => []
      end
  end.

Definition prop_case_for (tag : Z) (inp obs : list Z) : Z :=
  if mine tag inp then
    let e := decode inp in
    evict_code e (dec_obs (e_N e) (e_M e) (e_sched e) obs)
  else match obs with [] => 0 | _ => 9 end.

(* non-trivial: the caps bite (some eviction is refused) and some eviction is granted *)
Definition nontrivial_for (tag : Z) (inp : list Z) : bool :=
  mine tag inp &&
  let tr := model_trace (decode inp) in
  existsb (fun o => (o_ret o =? 1) && negb (o_api o)) tr && existsb (fun o => o_ret o =? 2) tr
  && Nat.ltb 1 (length (e_reqs (decode inp))).

(* known finding 1 (limiter stream): the caps are exceeded exactly as the faithful model of
   the two separate critical sections AllowEvict / Done predicts for this schedule *)
Definition finding_sig_for (tag : Z) (inp obs : list Z) : Z :=
  if mine tag inp && e_lim (decode inp) && (prop_case_for tag inp obs =? 1)
     && eq_listZ (run_case_for tag inp) obs then 1 else 0.

