(* C16 — the decision procedure of Spec.v (what bin/check evaluates on the implementation's
   observables) holds of the PodEvictor model's own trace, for every case: every number of
   requests, every cap setting, every schedule at the harness granularity. *)
From Coq Require Import List ZArith Bool Lia.
From Verif Require Import Lib.ListX C16.Model C16.Spec C16.Proofs_Evict C16.Proofs_Limiter C16.Proofs_Seq.
Import ListNotations.
Open Scope Z_scope.

Definition rc (p : pc) : Z :=
  match p with PRefused | PDoneFail => 1 | PDoneOk => 2 | _ => 0 end.
Definition stat_of (dry : bool) (p : pc) : bool * Z := (negb dry && called p, rc p).

(* ---------- list helpers ---------- *)
Lemma map_set_nth {A B} (f : A -> B) i v l : map f (set_nth i v l) = set_nth i (f v) (map f l).
Proof. revert i. induction l as [|x l IH]; intros [|i]; cbn; auto. f_equal. apply IH. Qed.

Lemma set_nth_same {A} i (l : list A) d : set_nth i (nth i l d) l = l.
Proof. revert i. induction l as [|x l IH]; intros [|i]; cbn; auto. f_equal. apply IH. Qed.

Lemma nth_map_stat dry i ps p :
  nth_error ps i = Some p -> nth i (map (stat_of dry) ps) (false, 0) = stat_of dry p.
Proof.
  intro H. apply nth_error_nth. rewrite nth_error_map, H. reflexivity.
Qed.

Lemma eq_listZ_refl l : eq_listZ l l = true.
Proof. induction l as [|x l IH]; cbn; [reflexivity|]. rewrite Z.eqb_refl, IH. reflexivity. Qed.

Lemma zrange_shift n : zrange 0 (S n) = 0 :: zrange 1 n.
Proof.
  unfold zrange. cbn [seq map]. f_equal. rewrite <- seq_shift, map_map.
  apply map_ext. intro k. lia.
Qed.

Lemma zrange_ge lo n k : In k (zrange lo n) -> lo <= k.
Proof. unfold zrange. intro H. apply in_map_iff in H. destruct H as [x [<- _]]. lia. Qed.

(* ---------- gcount over the statuses derived from the program counters ---------- *)
Lemma gcount_stat dry sel reqs ps :
  gcount false dry sel reqs (map (stat_of dry) ps)
  = tsum (fun r p => if sel r && granted false dry (stat_of dry p) then 1 else 0) reqs ps.
Proof.
  unfold gcount, tsum. revert reqs. induction ps as [|p ps IH]; intros [|r reqs]; cbn [map combine]; try reflexivity.
  cbn [filter fst snd map]. rewrite sumZ_cons. rewrite <- IH.
  destruct (sel r && granted false dry (stat_of dry p)); cbn [length]; lia.
Qed.

Lemma granted_live dry p :
  p <> PPost -> granted false dry (stat_of dry p) = negb dry && live p.
Proof.
  intro H. unfold granted, stat_of. cbn [andb fst snd]. destruct dry; cbn; [reflexivity|].
  destruct p; cbn; try reflexivity. congruence.
Qed.

Lemma gcount_live dry sel reqs ps :
  (forall p, In p ps -> p <> PPost) ->
  gcount false dry sel reqs (map (stat_of dry) ps) = tsum (w_of dry sel live) reqs ps.
Proof.
  intro H. rewrite gcount_stat. apply tsum_ext. intros r p Hp. unfold w_of.
  rewrite (granted_live dry p (H p Hp)). destruct (sel r), dry, (live p); reflexivity.
Qed.

(* ---------- one harness step of PodEvictor from a settled state ---------- *)
Inductive hmove (dry : bool) : pc -> pc -> Prop :=
| hm_refuse : hmove dry PStart PRefused
| hm_dry : dry = true -> hmove dry PStart PDoneOk
| hm_send : dry = false -> hmove dry PStart PInApi
| hm_ok : hmove dry PInApi PDoneOk
| hm_fail : hmove dry PInApi PDoneFail.

Definition is_inapi (p : pc) : bool := match p with PInApi => true | _ => false end.

Lemma pe_step_stutter dry c reqs s i :
  nth_error (pcs s) i = None \/ nth_error reqs i = None
  \/ (exists p, nth_error (pcs s) i = Some p /\ is_done p = true) ->
  pe_step dry c reqs s i = s.
Proof.
  unfold pe_step. intros [H|[H|[p [H Hd]]]]; rewrite H.
  - reflexivity.
  - destruct (nth_error (pcs s) i); reflexivity.
  - destruct (nth_error reqs i); [|reflexivity]. destruct p; try discriminate; reflexivity.
Qed.

Lemma pe_hstep_cases dry c reqs s i :
  settled s ->
  (pe_hstep dry c reqs s i = s)
  \/ (exists p p', nth_error (pcs s) i = Some p /\ nth_error reqs i <> None /\ hmove dry p p'
        /\ pcs (pe_hstep dry c reqs s i) = set_nth i p' (pcs s)
        /\ calls (pe_hstep dry c reqs s i) = (if is_inapi p' then i :: calls s else calls s)).
Proof.
  intro Hset. unfold pe_hstep.
  destruct (nth_error (pcs s) i) as [p|] eqn:Ep.
  2:{ left. rewrite !(pe_step_stutter dry c reqs s i) by auto. reflexivity. }
  destruct (nth_error reqs i) as [r|] eqn:Er.
  2:{ left. rewrite !(pe_step_stutter dry c reqs s i) by auto. reflexivity. }
  destruct (Hset p (nth_error_In _ _ Ep)) as [Hna Hnp].
  assert (Hnx : forall s0 p0, pcs s0 = pcs s ->
            nth_error (pcs (set_pc s0 i p0)) i = Some p0).
  { intros s0 p0 H. cbn. rewrite H. eapply nth_error_set_nth_same; eassumption. }
  assert (Hstut : forall s0 p0, pcs s0 = pcs s -> is_done p0 = true ->
            pe_step dry c reqs (set_pc s0 i p0) i = set_pc s0 i p0).
  { intros s0 p0 H Hd. apply pe_step_stutter. right. right. exists p0. split; [apply Hnx, H|exact Hd]. }
  destruct p; try congruence.
  - (* Start *)
    right. exists PStart.
    assert (H1 : pe_step dry c reqs s i
                 = if reached (cap_node c) (cn s (r_node r)) then set_pc s i PRefused
                   else if reached (cap_ns c) (cs s (r_ns r)) then set_pc s i PRefused
                   else if dry then set_pc s i PDoneOk else set_pc (bump s r 1) i PAdmitted).
    { unfold pe_step. rewrite Ep, Er. reflexivity. }
    rewrite H1. clear H1.
    destruct (reached (cap_node c) (cn s (r_node r))) eqn:E1;
      [|destruct (reached (cap_ns c) (cs s (r_ns r))) eqn:E2; [|destruct dry eqn:Ed]].
    + exists PRefused. rewrite (Hstut s PRefused eq_refl eq_refl).
      split; [reflexivity|]. split; [congruence|]. split; [constructor|]. split; reflexivity.
    + exists PRefused. rewrite (Hstut s PRefused eq_refl eq_refl).
      split; [reflexivity|]. split; [congruence|]. split; [constructor|]. split; reflexivity.
    + exists PDoneOk. rewrite (Hstut s PDoneOk eq_refl eq_refl).
      split; [reflexivity|]. split; [congruence|]. split; [constructor; reflexivity|]. split; reflexivity.
    + exists PInApi.
      assert (H2 : pe_step false c reqs (set_pc (bump s r 1) i PAdmitted) i
                   = set_pc (add_call (set_pc (bump s r 1) i PAdmitted) i) i PInApi).
      { unfold pe_step. rewrite (Hnx (bump s r 1) PAdmitted eq_refl), Er. reflexivity. }
      rewrite H2.
      split; [reflexivity|]. split; [congruence|]. split; [constructor; reflexivity|].
      split; [cbn; apply set_nth_twice|reflexivity].
  - (* InApi *)
    right. exists PInApi.
    assert (H1 : pe_step dry c reqs s i = if r_ok r then set_pc s i PDoneOk else set_pc s i PPost).
    { unfold pe_step. rewrite Ep, Er. reflexivity. }
    rewrite H1. clear H1. destruct (r_ok r) eqn:Eo.
    + exists PDoneOk. rewrite (Hstut s PDoneOk eq_refl eq_refl).
      split; [reflexivity|]. split; [congruence|]. split; [constructor|]. split; reflexivity.
    + exists PDoneFail.
      assert (H2 : pe_step dry c reqs (set_pc s i PPost) i
                   = set_pc (bump (set_pc s i PPost) r (-1)) i PDoneFail).
      { unfold pe_step. rewrite (Hnx s PPost eq_refl), Er. reflexivity. }
      rewrite H2.
      split; [reflexivity|]. split; [congruence|]. split; [constructor|].
      split; [cbn; apply set_nth_twice|reflexivity].
  - left. rewrite !(pe_step_stutter dry c reqs s i) by (right; right; eauto). reflexivity.
  - left. rewrite !(pe_step_stutter dry c reqs s i) by (right; right; eauto). reflexivity.
  - left. rewrite !(pe_step_stutter dry c reqs s i) by (right; right; eauto). reflexivity.
Qed.

Lemma settled_set_nth s s' i p' :
  settled s -> pcs s' = set_nth i p' (pcs s) -> p' <> PAdmitted -> p' <> PPost -> settled s'.
Proof.
  intros Hs Hp H1 H2 q Hq. rewrite Hp in Hq. apply in_set_nth in Hq.
  destruct Hq as [->|Hq]; [split; assumption|apply Hs, Hq].
Qed.

Lemma hmove_settled dry p p' : hmove dry p p' -> p' <> PAdmitted /\ p' <> PPost.
Proof. destruct 1; split; discriminate. Qed.

Lemma pe_inv_hstep dry c reqs s i :
  pe_inv dry c reqs s -> pe_inv dry c reqs (pe_hstep dry c reqs s i).
Proof. intro I. unfold pe_hstep. apply pe_inv_step, pe_inv_step, I. Qed.

(* ---------- the check of one record ---------- *)
Section Check.
  Variable e : ecase.
  Hypothesis Hlim : e_lim e = false.
  Hypothesis Hcaps : caps_nonneg (e_caps e).
  Let dry := e_dry e.
  Let c := e_caps e.
  Let reqs := e_reqs e.
  Let N := e_N e.
  Let M := e_M e.
  Let hstep := pe_hstep dry c reqs.

  (* what links the checker's state to the model's state *)
  Definition linked (ts : list (bool * Z)) (prev : srec) (s : est) : Prop :=
    ts = map (stat_of dry) (pcs s)
    /\ o_ct prev = ct s /\ o_cn prev = map (cn s) (zrange 0 (S N)) /\ o_cs prev = map (cs s) (zrange 1 M).

  Lemma G_is_live ts s sel :
    ts = map (stat_of dry) (pcs s) -> settled s ->
    gcount false (e_dry e) sel (e_reqs e) ts = tsum (w_of dry sel live) reqs (pcs s).
  Proof.
    intros -> Hset. apply gcount_live. intros p Hp. apply (Hset p Hp).
  Qed.

  Lemma check_step ts prev s i :
    pe_inv dry c reqs s -> settled s -> linked ts prev s ->
    let s' := hstep s i in
    let o := observe N M s s' i in
    check_rec e (upd_stat ts o) prev o = 0
    /\ pe_inv dry c reqs s' /\ settled s' /\ linked (upd_stat ts o) o s'.
  Proof.
    intros I Hset [Hts [Hpct [Hpcn Hpcs]]] s' o.
    assert (I' : pe_inv dry c reqs s') by apply pe_inv_hstep, I.
    (* the shape of the step, the new statuses, settledness *)
    assert (Hshape :
      settled s' /\ upd_stat ts o = map (stat_of dry) (pcs s')
      /\ (dry = true -> o_api o = false)
      /\ ((o_ret o =? 1) && negb (fst (nth i (upd_stat ts o) (false, 0))) = true ->
          o_api o = false
          /\ forall sel, tsum (w_of dry sel held) reqs (pcs s') = tsum (w_of dry sel held) reqs (pcs s))).
    { destruct (pe_hstep_cases dry c reqs s i Hset) as [Hst|[p [p' [Hp [Hr [Hm [Hpcs' Hcalls]]]]]]].
      - (* stutter *)
        assert (Es : s' = s) by exact Hst.
        assert (Ho : o_api o = false /\ o_ret o = 0).
        { subst o. unfold observe. cbn [o_api o_ret]. rewrite Es, Nat.eqb_refl. split; [reflexivity|].
          unfold ret_code. destruct (is_done (pc_of s i)) eqn:Ed; [reflexivity|].
          destruct (pc_of s i); cbn in *; try reflexivity; discriminate. }
        destruct Ho as [Hoa Hor].
        assert (Hu : upd_stat ts o = ts).
        { unfold upd_stat. rewrite Hoa, Hor. cbn [Z.eqb]. rewrite orb_false_r.
          replace (o_tid o) with i by reflexivity.
          rewrite <- surjective_pairing. apply set_nth_same. }
        rewrite Es. split; [exact Hset|]. split; [rewrite Hu; exact Hts|].
        split; [intros _; exact Hoa|]. intro H. rewrite Hor in H. discriminate.
      - change (pe_hstep dry c reqs s i) with s' in Hpcs', Hcalls.
        destruct (hmove_settled _ _ _ Hm) as [Hn1 Hn2].
        assert (Hset' : settled s') by (eapply settled_set_nth; eauto).
        assert (Hoa : o_api o = is_inapi p').
        { subst o. unfold observe. cbn [o_api]. rewrite Hcalls.
          destruct (is_inapi p'); cbn [length]; [|rewrite Nat.eqb_refl; reflexivity].
          destruct (Nat.eqb_spec (length (calls s)) (S (length (calls s)))); [lia|reflexivity]. }
        assert (Hpc : pc_of s i = p) by (apply pc_of_nth, Hp).
        assert (Hpc' : pc_of s' i = p').
        { apply pc_of_nth. rewrite Hpcs'. eapply nth_error_set_nth_same; eassumption. }
        assert (Hor : o_ret o = ret_code p p').
        { subst o. unfold observe. cbn [o_ret]. rewrite Hpc, Hpc'. reflexivity. }
        assert (Hnodry : p = PInApi -> dry = false).
        { intros ->. destruct dry eqn:Ed; [|reflexivity].
          pose proof (pi_dry _ _ _ _ I eq_refl PInApi (nth_error_In _ _ Hp)). discriminate. }
        assert (Hu : upd_stat ts o = map (stat_of dry) (pcs s')).
        { unfold upd_stat. replace (o_tid o) with i by reflexivity.
          rewrite Hpcs', map_set_nth, Hts, (nth_map_stat dry i _ p Hp), Hoa, Hor. f_equal.
          unfold stat_of. cbn [fst snd].
          destruct Hm; destruct dry eqn:Ed; try discriminate;
            try (specialize (Hnodry eq_refl); discriminate); reflexivity. }
        split; [exact Hset'|]. split; [exact Hu|]. split.
        { intro Hd. rewrite Hoa. destruct Hm; try reflexivity. congruence. }
        intro H. rewrite Hu in H.
        replace (nth i (map (stat_of dry) (pcs s')) (false, 0)) with (stat_of dry p') in H
          by (symmetry; apply nth_map_stat; rewrite Hpcs'; eapply nth_error_set_nth_same; eassumption).
        rewrite Hor in H. split.
        + rewrite Hoa. destruct Hm; cbn in H; try discriminate; reflexivity.
        + intro sel. destruct (nth_error reqs i) as [r|] eqn:Er; [|congruence].
          rewrite Hpcs', (tsum_set_nth _ reqs (pcs s) i p p' r Hp Er).
          destruct Hm; cbn in H; try discriminate.
          * unfold w_of. cbn. rewrite !andb_false_r. lia.
          * rewrite (Hnodry eq_refl) in H. discriminate. }
    destruct Hshape as [Hset' [Hu [Hdryapi Href]]].
    (* counters of the new state in terms of issued-and-live *)
    destruct Hcaps as [Hc1 [Hc2 _]].
    assert (HG : forall sel, gcount false (e_dry e) sel (e_reqs e) (upd_stat ts o)
                             = tsum (w_of dry sel live) reqs (pcs s')).
    { intro sel. apply G_is_live; assumption. }
    assert (Heq : forall sel sel', (forall r, sel r = sel' r) ->
              tsum (w_of dry sel held) reqs (pcs s') = tsum (w_of dry sel' live) reqs (pcs s')).
    { intros sel sel' Hs. apply tsum_ext. intros r p Hp. unfold w_of. rewrite Hs.
      destruct (Hset' p Hp) as [H1 H2]. destruct p; try reflexivity; congruence. }
    assert (Hcn : forall k, 1 <= k -> cn s' k = tsum (w_of dry (on_node k) live) reqs (pcs s')).
    { intros k Hk. rewrite (pi_cn _ _ _ _ I'). apply Heq. intro r. unfold node_sel, on_node.
      replace (k =? 0) with false by (symmetry; apply Z.eqb_neq; lia). apply andb_true_r. }
    assert (Hcn0 : cn s' 0 = 0).
    { rewrite (pi_cn _ _ _ _ I'). unfold tsum. apply sumZ_map_zero. intros [r p] _.
      unfold w_of, node_sel. cbn. rewrite !andb_false_r. reflexivity. }
    assert (Hcs : forall k, cs s' k = tsum (w_of dry (on_ns k) live) reqs (pcs s')).
    { intro k. rewrite (pi_cs _ _ _ _ I'). apply Heq. reflexivity. }
    assert (Hct : ct s' = tsum (w_of dry any_req live) reqs (pcs s')).
    { rewrite (pi_ct _ _ _ _ I'). apply Heq. reflexivity. }
    split; [|split; [exact I'|split; [exact Hset'|]]].
    2:{ repeat split; auto. }
    unfold check_rec.
    (* clause 4 *)
    assert (E4 : dry_okb e o = true).
    { unfold dry_okb. fold dry. destruct dry eqn:Ed; [|reflexivity]. rewrite (Hdryapi eq_refl). reflexivity. }
    rewrite E4. cbn [negb].
    (* clause 1 *)
    assert (E1 : caps_okb e (upd_stat ts o) = true).
    { unfold caps_okb. rewrite Hlim. cbn [negb orb]. rewrite andb_true_r.
      apply andb_true_iff. split; apply forallb_forall; intros k Hk; rewrite HG.
      - unfold cap_ok. fold c. destruct (cap_node c) as [m|] eqn:Em; [|reflexivity].
        apply Z.leb_le. apply zrange_ge in Hk. rewrite <- (Hcn k Hk).
        apply (pi_capn _ _ _ _ I' m k Em (Hc1 m Em)).
      - unfold cap_ok. fold c. destruct (cap_ns c) as [m|] eqn:Em; [|reflexivity].
        apply Z.leb_le. rewrite <- (Hcs k).
        apply (pi_caps _ _ _ _ I' m k Em (Hc2 m Em)). }
    rewrite E1. cbn [negb].
    (* clause 2 *)
    assert (Hocn : o_cn o = 0 :: map (fun k => gcount false (e_dry e) (on_node k) (e_reqs e) (upd_stat ts o))
                                    (zrange 1 (e_N e))).
    { subst o. unfold observe. cbn [o_cn]. fold s'. fold N. rewrite zrange_shift. cbn [map].
      rewrite Hcn0. f_equal. apply map_ext_in. intros k Hk. rewrite HG. apply Hcn.
      apply zrange_ge in Hk. exact Hk. }
    assert (Hocs : o_cs o = map (fun k => gcount false (e_dry e) (on_ns k) (e_reqs e) (upd_stat ts o))
                               (zrange 1 (e_M e))).
    { subst o. unfold observe. cbn [o_cs]. fold s'. apply map_ext. intro k. rewrite HG. apply Hcs. }
    assert (E2 : counters_okb e (upd_stat ts o) o = true).
    { unfold counters_okb. rewrite Hlim. rewrite <- Hocn, <- Hocs, !eq_listZ_refl, HG.
      replace (o_ct o) with (ct s') by reflexivity. rewrite Hct, Z.eqb_refl. reflexivity. }
    rewrite E2. cbn [negb].
    (* clause 3 *)
    assert (E3 : refusal_okb (upd_stat ts o) prev o = true).
    { unfold refusal_okb. replace (o_tid o) with i by reflexivity.
      destruct ((o_ret o =? 1) && negb (fst (nth i (upd_stat ts o) (false, 0)))) eqn:Er;
        [|reflexivity].
      cbn [negb orb]. destruct (Href eq_refl) as [Hapi Hsame].
      rewrite Hapi. cbn [negb andb].
      assert (Hn : forall k, cn s' k = cn s k).
      { intro k. rewrite (pi_cn _ _ _ _ I'), (pi_cn _ _ _ _ I). apply Hsame. }
      assert (Hs2 : forall k, cs s' k = cs s k).
      { intro k. rewrite (pi_cs _ _ _ _ I'), (pi_cs _ _ _ _ I). apply Hsame. }
      assert (Ht2 : ct s' = ct s).
      { rewrite (pi_ct _ _ _ _ I'), (pi_ct _ _ _ _ I). apply Hsame. }
      rewrite Hpct, Hpcn, Hpcs.
      replace (o_ct o) with (ct s') by reflexivity.
      replace (o_cn o) with (map (cn s') (zrange 0 (S N))) by reflexivity.
      replace (o_cs o) with (map (cs s') (zrange 1 M)) by reflexivity.
      rewrite Ht2, Z.eqb_refl, (map_ext _ _ Hn), (map_ext _ _ Hs2), !eq_listZ_refl. reflexivity. }
    rewrite E3. reflexivity.
  Qed.

  Lemma check_trace sched : forall ts prev s,
    pe_inv dry c reqs s -> settled s -> linked ts prev s ->
    check_from e ts prev (trace hstep N M sched s) = 0.
  Proof.
    induction sched as [|i t IH]; intros ts prev s I Hset Hl; cbn [trace check_from]; [reflexivity|].
    destruct (check_step ts prev s i I Hset Hl) as [Hc [I' [Hset' Hl']]].
    cbv zeta. rewrite Hc. cbn [Z.eqb]. apply IH; assumption.
  Qed.
End Check.

Lemma trace_length hstep N M sched s : length (trace hstep N M sched s) = length sched.
Proof. revert s. induction sched as [|i t IH]; intro s; cbn; [reflexivity|]. rewrite IH. reflexivity. Qed.

Lemma trace_tids hstep N M sched s :
  forallb (fun p => Nat.eqb (o_tid (fst p)) (snd p)) (combine (trace hstep N M sched s) sched) = true.
Proof.
  revert s. induction sched as [|i t IH]; intro s; cbn; [reflexivity|].
  rewrite Nat.eqb_refl, IH. reflexivity.
Qed.

Lemma map_repeat' {A B} (f : A -> B) x n : repeat (f x) n = map f (repeat x n).
Proof. induction n as [|n IH]; cbn; [reflexivity|]. rewrite IH. reflexivity. Qed.

Lemma const_map_len {A} (l : list A) : repeat 0 (length l) = map (fun _ => 0) l.
Proof. induction l as [|x l IH]; cbn; [reflexivity|]. rewrite IH. reflexivity. Qed.

Lemma const_map_zrange lo n : repeat 0 n = map (fun _ : Z => 0) (zrange lo n).
Proof.
  rewrite <- const_map_len. unfold zrange. rewrite map_length, seq_length. reflexivity.
Qed.

(* the property's decision procedure holds of the PodEvictor model, for every case *)
Theorem pe_model_trace_ok e :
  e_lim e = false -> caps_nonneg (e_caps e) -> evict_code e (model_trace e) = 0.
Proof.
  intros Hlim Hcaps. unfold evict_code, model_trace.
  rewrite trace_length, Nat.eqb_refl. cbn [negb]. rewrite trace_tids. cbn [negb].
  unfold case_hstep. rewrite Hlim.
  destruct Hcaps as [Hc1 [Hc2 Hc3]].
  apply (check_trace e Hlim (conj Hc1 (conj Hc2 Hc3))).
  - apply pe_inv_init; assumption.
  - apply quiet_settled, quiet_init.
  - unfold linked, init_stats, init_rec, init_est. cbn [pcs ct cn cs o_ct o_cn o_cs].
    repeat split.
    + rewrite <- map_repeat'. unfold stat_of. cbn [called rc]. rewrite andb_false_r. reflexivity.
    + apply const_map_zrange.
    + apply const_map_zrange.
Qed.
