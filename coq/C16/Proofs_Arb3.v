(* C16 (arbitration) — over histories: if migration jobs are only created through the
   arbitrator's Filter (what Reconciler.Evict does) and finished jobs stay finished, no pod ever
   has two live (pending or running) migration jobs. *)
From Coq Require Import List ZArith Bool Lia.
From Verif Require Import C16.ModelArb C16.SpecArb C16.CountX C16.Proofs_Arb C16.Proofs_Arb2.
Import ListNotations.
Open Scope Z_scope.

Definition live_for (k : Z) (j : job) : bool := avail false j && (j_pod j =? k).
Definition live_count (st : ast) (k : Z) : Z := countb (live_for k) (a_jobs st).

(* at most one live job per referenced pod *)
Definition single_job (st : ast) : Prop := forall k, k <> 0 -> live_count st k <= 1.

Definition live_phase (ph : Z) : bool := (ph =? 0) || (ph =? 1).

(* operations of a history in which jobs are created only by OEvict and a finished job is never
   put back to Pending/Running *)
Definition op_ok (st : ast) (o : op) : Prop :=
  match o with
  | OAdd _ => False
  | OSetPhase j ph =>
      live_phase ph = true -> forall x, find_job st j = Some x -> live_phase (j_phase x) = true
  | _ => True
  end.

Fixpoint hist_ok (c : cfg) (st : ast) (ops : list op) : Prop :=
  match ops with
  | [] => True
  | o :: t => op_ok st o /\ hist_ok c (fst (step c st o)) t
  end.

Definition final (c : cfg) (st : ast) (ops : list op) : ast :=
  fold_left (fun s o => fst (step c s o)) ops st.

Lemma avail_false_live j : avail false j = j_api j && live_phase (j_phase j).
Proof.
  unfold avail, live_phase. cbn [negb orb]. rewrite andb_true_r.
  destruct (j_api j), (j_phase j =? 0), (j_phase j =? 1); reflexivity.
Qed.

(* ---------- counting through map ---------- *)
Lemma countb_map {A B} (f : B -> bool) (g : A -> B) l : countb f (map g l) = countb (fun x => f (g x)) l.
Proof.
  induction l as [|x l IH]; [reflexivity|]. cbn [map]. rewrite !countb_cons, IH. reflexivity.
Qed.

Lemma live_count_map_le st g k :
  (forall x, In x (a_jobs st) -> live_for k (g x) = true -> live_for k x = true) ->
  countb (live_for k) (map g (a_jobs st)) <= live_count st k.
Proof. intro H. rewrite countb_map. apply countb_le. exact H. Qed.

Lemma find_job_unique st x : wf_jobs st -> In x (a_jobs st) -> find_job st (j_id x) = Some x.
Proof. intros Hnd Hin. unfold find_job. apply (find_key_in j_id); assumption. Qed.

(* ---------- a round never makes a job live ---------- *)
Lemma live_mark_passed k j : live_for k (mark_passed j) = live_for k j.
Proof. reflexivity. Qed.

Lemma live_mark_failed k w j : live_for k (mark_failed w j) = true -> live_for k j = true.
Proof.
  unfold live_for, avail, mark_failed. cbn. destruct w; [|auto].
  destruct (j_api j); cbn; [discriminate|auto].
Qed.

Lemma arbitrate_one_live c f st jid k :
  wf_jobs st -> live_count (arbitrate_one c f st jid) k <= live_count st k.
Proof.
  intro Hnd.
  destruct (arbitrate_one_outcome c f st jid) as [|j Hf _ _ _ _ _|j p w Hf _ _ _]; [lia| |];
    unfold live_count at 1; cbn [set_job a_jobs]; apply live_count_map_le; intros x Hx;
    apply find_job_in in Hf; destruct Hf as [Hjin _];
    (destruct (j_id x =? _) eqn:E; [|auto]); apply Z.eqb_eq in E; cbn in E;
    assert (x = j) by (eapply (NoDup_key_inj j_id); eauto); subst x.
  - rewrite live_mark_passed. auto.
  - apply live_mark_failed.
Qed.

Lemma round_on_live c f order st k :
  wf_jobs st -> live_count (round_on c f order st) k <= live_count st k.
Proof.
  unfold round_on. revert st. induction order as [|x t IH]; intros st Hnd; cbn [fold_left]; [lia|].
  eapply Z.le_trans; [apply IH|apply arbitrate_one_live, Hnd].
  unfold wf_jobs. rewrite arbitrate_one_ids. exact Hnd.
Qed.

Lemma round_on_ids c f order st : map j_id (a_jobs (round_on c f order st)) = map j_id (a_jobs st).
Proof.
  unfold round_on. revert st. induction order as [|x t IH]; intro st; cbn [fold_left]; [reflexivity|].
  rewrite IH. apply arbitrate_one_ids.
Qed.

(* ---------- the other operations ---------- *)
Lemma upd_job_ids st jid g :
  (forall x, j_id (g x) = j_id x) -> map j_id (a_jobs (upd_job st jid g)) = map j_id (a_jobs st).
Proof.
  intro Hg. cbn [upd_job a_jobs]. rewrite map_map. apply map_ext. intro x.
  destruct (j_id x =? jid); auto.
Qed.

Lemma add_job_id j : j_id (add_job j) = j_id j.
Proof. unfold add_job. destruct (j_created j); reflexivity. Qed.
Lemma set_phase_id ph j : j_id (set_phase ph j) = j_id j.
Proof. unfold set_phase. destruct (j_api j); reflexivity. Qed.
Lemma delete_job_id j : j_id (delete_job j) = j_id j.
Proof. unfold delete_job. destruct (j_api j); reflexivity. Qed.

Lemma step_ids c st o : map j_id (a_jobs (fst (step c st o))) = map j_id (a_jobs st).
Proof.
  destruct o; cbn [step fst]; try reflexivity;
    try (apply upd_job_ids; auto using add_job_id, set_phase_id, delete_job_id).
  - apply round_on_ids.
  - destruct (find_pod st p) as [q|]; [destruct (p_exists q)|]; reflexivity.
  - destruct (find_job st j) as [x|]; [|reflexivity]. destruct (j_created x); [reflexivity|].
    destruct (pod_of st x); [|reflexivity]. destruct (filter_pod c st p); [|reflexivity].
    cbn [fst]. apply upd_job_ids, add_job_id.
  - cbn [a_jobs]. rewrite map_map. apply map_ext. reflexivity.
Qed.

Lemma no_live_job_count st p : has_job false st p = false -> live_count st (p_id p) = 0.
Proof.
  intro H. apply countb_false. intros x Hx. unfold live_for.
  destruct (avail false x && (j_pod x =? p_id p)) eqn:E; [|reflexivity].
  assert (has_job false st p = true) by (unfold has_job; apply existsb_exists; eauto). congruence.
Qed.

Theorem step_single_job c st o :
  wf_jobs st -> op_ok st o -> single_job st -> single_job (fst (step c st o)).
Proof.
  intros Hnd Hok Hs k Hk. specialize (Hs k Hk).
  destruct o; cbn [step fst]; try exact Hs.
  - destruct Hok.
  - eapply Z.le_trans; [apply round_on_live, Hnd|exact Hs].
  - (* SetPhase *)
    eapply Z.le_trans; [|exact Hs]. unfold live_count at 1. cbn [upd_job a_jobs].
    apply live_count_map_le. intros x Hx. destruct (j_id x =? j) eqn:E; [|auto].
    apply Z.eqb_eq in E. subst j. cbn [op_ok] in Hok.
    unfold set_phase. destruct (j_api x) eqn:Ea; [|auto].
    unfold live_for. rewrite !avail_false_live. cbn [j_api j_phase j_pod]. rewrite Ea. cbn [andb].
    intro H. apply andb_true_iff in H. destruct H as [Hph Hp]. rewrite Hp, andb_true_r.
    exact (Hok Hph x (find_job_unique st x Hnd Hx)).
  - (* Delete *)
    eapply Z.le_trans; [|exact Hs]. unfold live_count at 1. cbn [upd_job a_jobs].
    apply live_count_map_le. intros x Hx. destruct (j_id x =? j) eqn:E; [|auto].
    unfold delete_job. destruct (j_api x) eqn:Ea; [|auto].
    unfold live_for. rewrite avail_false_live. cbn. discriminate.
  - destruct (find_pod st p) as [q|]; [destruct (p_exists q)|]; exact Hs.
  - (* Evict: Filter, then create *)
    destruct (find_job st j) as [x|] eqn:Ef; [|exact Hs].
    destruct (j_created x); [exact Hs|].
    destruct (pod_of st x) as [p|] eqn:Ep; [|exact Hs].
    destruct (filter_pod c st p) eqn:Efl; [|exact Hs]. cbn [fst].
    unfold filter_pod in Efl. apply andb_true_iff in Efl. destruct Efl as [Efl _].
    apply andb_true_iff in Efl. destruct Efl as [Hno _]. apply negb_true_iff in Hno.
    destruct (pod_of_some _ _ _ Ep) as [_ [Hpid _]].
    unfold live_count. cbn [upd_job a_jobs]. rewrite countb_map.
    destruct (Z.eq_dec k (j_pod x)) as [->|Hne].
    + (* the pod of the new job: nobody was live for it *)
      eapply Z.le_trans; [apply (countb_or_le _ (live_for (j_pod x)) (fun y => j_id y =? j))|].
      * intros y Hy H. destruct (j_id y =? j) eqn:E; [right; reflexivity|left; exact H].
      * pose proof (no_live_job_count st p Hno) as H0. rewrite Hpid in H0. unfold live_count in H0.
        rewrite H0. pose proof (countb_key_le1 j_id j (a_jobs st) Hnd). lia.
    + eapply Z.le_trans; [|exact Hs]. apply countb_le. intros y Hy H.
      destruct (j_id y =? j) eqn:E; [|exact H].
      apply Z.eqb_eq in E. apply find_job_in in Ef. destruct Ef as [Hxin Hxid].
      assert (y = x) by (eapply (NoDup_key_inj j_id); eauto; congruence). subst y.
      unfold live_for in H. apply andb_true_iff in H. destruct H as [_ H].
      unfold add_job in H. destruct (j_created x); cbn in H; apply Z.eqb_eq in H; congruence.
  - (* Restart: liveness of jobs is read off the API objects *)
    eapply Z.le_trans; [|exact Hs]. unfold live_count at 1. cbn [a_jobs].
    apply live_count_map_le. intros x _ H. exact H.
Qed.

Theorem history_single_job c ops : forall st,
  wf_jobs st -> single_job st -> hist_ok c st ops -> single_job (final c st ops).
Proof.
  unfold final. induction ops as [|o t IH]; intros st Hnd Hs Hok; cbn [fold_left]; [exact Hs|].
  destruct Hok as [Ho Ht]. apply IH; [|apply step_single_job; assumption|exact Ht].
  unfold wf_jobs. rewrite step_ids. exact Hnd.
Qed.
