(* C16 (eviction caps) — the property over (case, observed trace) and its decision procedure.
   A case is a set of eviction requests, cap settings and a schedule; the observed trace has one
   record per schedule step (Model.srec).  The property is decided on what an outside observer
   sees: API calls received, return values, and the counters reported after every step. *)
From Coq Require Import List ZArith Bool Lia.
From Verif Require Import C16.Model.
Import ListNotations.
Open Scope Z_scope.

Record ecase := mkEC {
  e_lim : bool;            (* false: PodEvictor.Evict; true: evictorProxy.Evict + EvictionLimiter *)
  e_dry : bool;
  e_caps : caps;
  e_N : nat; e_M : nat;    (* nodes 1..N (0 = no node), namespaces 1..M *)
  e_reqs : list req;
  e_sched : list nat }.

(* what is known about a thread from the events so far:
   (its API call was received, return code 0 = not returned / 1 = false / 2 = true) *)
Notation tstat := (bool * Z)%type.

Definition upd_stat (ts : list tstat) (o : srec) : list tstat :=
  let old := nth (o_tid o) ts (false, 0) in
  set_nth (o_tid o) (fst old || o_api o, if o_ret o =? 0 then snd old else o_ret o) ts.

(* an eviction that was issued and is not known to have failed; the limiter in dry-run counts
   the evictions it granted although nothing is sent *)
Definition granted (lim dry : bool) (t : tstat) : bool :=
  if lim && dry then snd t =? 2 else fst t && negb (snd t =? 1).

Definition gcount (lim dry : bool) (sel : req -> bool) (reqs : list req) (ts : list tstat) : Z :=
  Z.of_nat (length (filter (fun rt => sel (fst rt) && granted lim dry (snd rt)) (combine reqs ts))).

Definition cap_ok (c : option Z) (x : Z) : bool :=
  match c with Some m => x <=? m | None => true end.

Fixpoint eq_listZ (a b : list Z) : bool :=
  match a, b with
  | [], [] => true
  | x :: a', y :: b' => (x =? y) && eq_listZ a' b'
  | _, _ => false
  end.

Definition on_node (k : Z) (r : req) : bool := r_node r =? k.
Definition on_ns (k : Z) (r : req) : bool := r_ns r =? k.
Definition any_req (r : req) : bool := true.

Section Check.
  Variable e : ecase.
  Let G (ts : list tstat) (sel : req -> bool) : Z := gcount (e_lim e) (e_dry e) sel (e_reqs e) ts.

  (* clause 1: issued evictions within the caps *)
  Definition caps_okb (ts : list tstat) : bool :=
    forallb (fun k => cap_ok (cap_node (e_caps e)) (G ts (on_node k))) (zrange 1 (e_N e))
    && forallb (fun k => cap_ok (cap_ns (e_caps e)) (G ts (on_ns k))) (zrange 1 (e_M e))
    && (negb (e_lim e) || cap_ok (cap_total (e_caps e)) (G ts any_req)).

  (* clause 2: reported counters = evictions issued *)
  Definition counters_okb (ts : list tstat) (o : srec) : bool :=
    (o_ct o =? G ts any_req)
    && eq_listZ (o_cn o) (0 :: map (fun k => G ts (on_node k)) (zrange 1 (e_N e)))
    && eq_listZ (o_cs o) (map (fun k => G ts (on_ns k)) (zrange 1 (e_M e))).

  (* clause 3: a refused eviction (false without any API call) has no side effect *)
  Definition refusal_okb (ts : list tstat) (prev o : srec) : bool :=
    negb ((o_ret o =? 1) && negb (fst (nth (o_tid o) ts (false, 0))))
    || (negb (o_api o) && (o_ct o =? o_ct prev) && eq_listZ (o_cn o) (o_cn prev)
        && eq_listZ (o_cs o) (o_cs prev)).

  (* clause 4: dry-run sends nothing *)
  Definition dry_okb (o : srec) : bool := negb (e_dry e && o_api o).

  Definition check_rec (ts : list tstat) (prev o : srec) : Z :=
    if negb (dry_okb o) then 4
    else if negb (caps_okb ts) then 1
    else if negb (counters_okb ts o) then 2
    else if negb (refusal_okb ts prev o) then 3
    else 0.

  Fixpoint check_from (ts : list tstat) (prev : srec) (tr : list srec) : Z :=
    match tr with
    | [] => 0
    | o :: t =>
        let ts' := upd_stat ts o in
        let c := check_rec ts' prev o in
        if c =? 0 then check_from ts' o t else c
    end.

  Definition init_stats : list tstat := repeat (false, 0) (length (e_reqs e)).
  Definition init_rec : srec :=
    mkS O false 0 0 (repeat 0 (S (e_N e))) (repeat 0 (e_M e)).

  (* 9: the trace does not have one record per schedule step, for the scheduled threads *)
  Definition evict_code (tr : list srec) : Z :=
    if negb (Nat.eqb (length tr) (length (e_sched e))) then 9
    else if negb (forallb (fun p => Nat.eqb (o_tid (fst p)) (snd p)) (combine tr (e_sched e))) then 9
    else check_from init_stats init_rec tr.
End Check.

(* the model's trace for a case *)
Definition case_hstep (e : ecase) : est -> nat -> est :=
  if e_lim e then lim_hstep (e_dry e) (e_caps e) (e_reqs e)
  else pe_hstep (e_dry e) (e_caps e) (e_reqs e).

Definition model_trace (e : ecase) : list srec :=
  trace (case_hstep e) (e_N e) (e_M e) (e_sched e) (init_est (length (e_reqs e))).

(* a schedule in which every thread of [order] runs to completion before the next one starts
   (2 harness steps always suffice) *)
Definition seq_sched (order : list nat) : list nat := flat_map (fun i => [i; i]) order.
