(* C16 (budget functions) — pkg/descheduler/controllers/migration/util/util.go
     GetMaxUnavailable / GetMaxMigrating  =  ModelArb.get_max on a decoded IntOrString
                                             (k8s.io/apimachinery intstr.GetScaledValueFromIntOrPercent)
     GetLimiterBurst                      =  the GENERATED definition Gen_scores.GetLimiterBurst
     FilterPodWithMaxEvictionCost         (apis/extension GetEvictionCost: strict decimal spelling, int32)
   Executable, total, no proofs here. *)
From Coq Require Import List ZArith Bool.
From Verif Require Import C16.ModelArb Gen.Gen_scores.
Import ListNotations.
Open Scope Z_scope.

(* how an IntOrString setting is spelled in the configuration:
   0 nil | 1 int v | 2 "v%" | 3 "+v%" | 4 "0v%" | 5 "v" | 6 "v.5%" | 7 "" ;  None = the API reports an error *)
Definition setting_of (kind v : Z) : option iop :=
  if kind =? 0 then Some (0, 0)
  else if kind =? 1 then Some (1, v)
  else if kind =? 2 then Some (2, v)
  else if (kind =? 3) || (kind =? 4) then (if v <? 0 then None else Some (2, v))
  else None.

Definition max_unavailable (replicas kind v : Z) : option Z :=
  match setting_of kind v with Some x => Some (get_max replicas x) | None => None end.

Definition int32_max : Z := 2147483647.
Definition int32_min : Z := -2147483648.

(* annotation kinds: 0 absent | 1 "v" | 2 "+v" | 3 "0v".  Only a strictly spelled int32 is a cost. *)
Definition eviction_cost (kind v : Z) : Z :=
  if (kind =? 1) && (int32_min <=? v) && (v <=? int32_max) then v else 0.

Definition filter_max_cost (kind v : Z) : bool := negb (eviction_cost kind v =? int32_max).

(* the specified burst: an unset (zero) burst means one token *)
Definition limiter_burst_spec (b : Z) : Z := if b =? 0 then 1 else b.

(* one query of the stream: (error flag, value).  [gen]: answer with the definition regenerated from
   the source (the model that is compared with the code) or with the hand-written specification (what
   the implementation's answer is judged against) *)
Definition budget_answer (gen : bool) (fn a b c : Z) : Z * Z :=
  if (fn =? 1) || (fn =? 2) then
    match max_unavailable a b c with Some v => (0, v) | None => (1, 0) end
  else if fn =? 3 then (0, if gen then GetLimiterBurst a else limiter_burst_spec a)
  else if fn =? 4 then (0, if filter_max_cost b c then 1 else 0)
  else (-1, 0).

Definition budget_query : Z -> Z -> Z -> Z -> Z * Z := budget_answer true.
Definition budget_spec : Z -> Z -> Z -> Z -> Z * Z := budget_answer false.

(* which clause of the property a wrong answer violates *)
Definition budget_clause (fn : Z) : Z :=
  if (fn =? 1) || (fn =? 2) then 6 else if fn =? 3 then 7 else 8.
