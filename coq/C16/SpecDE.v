(* C16 (eviction stack) — the property over (case, observed trace) for the production wiring
   evictorProxy -> EvictionLimiter / DefaultEvictor -> PodEvictor -> API, over several descheduling
   cycles (Reset), and its decision procedure.  Everything is recomputed from what an outside
   observer sees: which eviction API calls were received, what Evict returned, when the cycle was
   reset; the reported counters of both layers are then compared with those figures. *)
From Coq Require Import List ZArith Bool Lia.
From Verif Require Import C16.Model C16.Spec C16.ModelDE.
Import ListNotations.
Open Scope Z_scope.

(* what is known about a thread from the events so far: its eviction API call was received; what
   Evict returned (0 not yet | 1 false | 2 true); it returned in an earlier descheduling cycle.
   Whether the API call succeeds is the oracle of the input ([r_ok]): an eviction is judged by its fate
   at the API, not by what the evictor says about it. *)
Record dstat := mkDS { s_api : bool; s_ret : Z; s_old : bool }.

Definition dstat_upd (ts : list dstat) (i : nat) (api : bool) (ret : Z) : list dstat :=
  let old := nth i ts (mkDS false 0 false) in
  set_nth i (mkDS (s_api old || api) (if ret =? 0 then s_ret old else ret) (s_old old)) ts.

Definition retire_stat (t : dstat) : dstat :=
  if s_ret t =? 0 then t else mkDS (s_api t) (s_ret t) true.

(* an eviction parked inside its API call *)
Definition parked (t : dstat) : bool := s_api t && (s_ret t =? 0).
(* issued, returned, and the API call succeeded *)
Definition succeeded (r : req) (t : dstat) : bool := s_api t && negb (s_ret t =? 0) && r_ok r.

(* evictions of the current cycle that were issued and have not failed (in dry-run, where nothing is
   sent: the evictions granted) - what the caps bound *)
Definition granted_now (dry : bool) (r : req) (t : dstat) : bool :=
  negb (s_old t) && (if dry then s_ret t =? 2 else parked t || succeeded r t).
(* evictions completed in the current cycle - what the limiter reports *)
Definition done_now (dry : bool) (r : req) (t : dstat) : bool :=
  negb (s_old t) && (if dry then s_ret t =? 2 else succeeded r t).
(* evictions issued and not failed, in any cycle - what the plugin's own PodEvictor reports *)
Definition live_ever (r : req) (t : dstat) : bool := parked t || succeeded r t.

Definition dcount (g : req -> dstat -> bool) (sel : req -> bool) (reqs : list req) (ts : list dstat) : Z :=
  Z.of_nat (length (filter (fun rt => sel (fst rt) && g (fst rt) (snd rt)) (combine reqs ts))).

Definition snap_of (N M : nat) (g : req -> dstat -> bool) (reqs : list req) (ts : list dstat) : list Z :=
  dcount g any_req reqs ts
  :: (0 :: map (fun k => dcount g (on_node k) reqs ts) (zrange 1 N))
  ++ map (fun k => dcount g (on_ns k) reqs ts) (zrange 1 M).

Section Check.
  Variable e : dcase.
  Let dry := dc_dry e.
  Let c := dc_caps e.
  Let reqs := dc_reqs e.
  Let N := dc_N e.
  Let M := dc_M e.

  (* clause 1: the evictions of the current cycle within the caps *)
  Definition de_caps_okb (ts : list dstat) : bool :=
    forallb (fun k => cap_ok (cap_node c) (dcount (granted_now dry) (on_node k) reqs ts)) (zrange 1 N)
    && forallb (fun k => cap_ok (cap_ns c) (dcount (granted_now dry) (on_ns k) reqs ts)) (zrange 1 M)
    && cap_ok (cap_total c) (dcount (granted_now dry) any_req reqs ts).

  (* clause 2: the reported counters are the evictions issued *)
  Definition de_counters_okb (ts : list dstat) (o : drec) : bool :=
    eq_listZ (r_oc o) (snap_of N M (done_now dry) reqs ts)
    && eq_listZ (r_ic o) (snap_of N M live_ever reqs ts).

  Definition same_counters (prev o : drec) : bool :=
    eq_listZ (r_oc o) (r_oc prev) && eq_listZ (r_ic o) (r_ic prev).

  (* clause 3: an eviction refused without any API call has no side effect *)
  Definition de_refusal_okb (ts : list dstat) (prev o : drec) : bool :=
    match r_op o with
    | DStep i =>
        negb ((r_ret o =? 1) && negb (s_api (nth i ts (mkDS false 0 false))))
        || (negb (r_api o) && same_counters prev o)
    | _ => true
    end.

  (* clause 4: dry-run sends nothing *)
  Definition de_dry_okb (o : drec) : bool := negb (dry && r_api o).

  (* clause 5: Filter, PreEvictionFilter and NodeLimitExceeded only look; Reset touches nothing but the
     limiter's counters *)
  Definition de_query_okb (prev o : drec) : bool :=
    match r_op o with
    | DStep _ => true
    | DReset => negb (r_api o) && (r_ret o =? 0) && eq_listZ (r_ic o) (r_ic prev)
    | _ => negb (r_api o) && (r_ret o =? 0) && same_counters prev o
    end.

  (* clause 6: what Evict answers is the fate of the eviction: true iff it was issued and the API call
     succeeded (dry-run: granted or refused, nothing to compare with) *)
  Definition de_answer_okb (ts : list dstat) (o : drec) : bool :=
    match r_op o with
    | DStep i =>
        (r_ret o =? 0) || dry
        || match nth_error reqs i with
           | Some r => r_ret o =? (if s_api (nth i ts (mkDS false 0 false)) && r_ok r then 2 else 1)
           | None => false
           end
    | _ => true
    end.

  Definition de_stats_next (ts : list dstat) (o : drec) : list dstat :=
    match r_op o with
    | DStep i => dstat_upd ts i (r_api o) (r_ret o)
    | DReset => map retire_stat ts
    | _ => ts
    end.

  Definition de_check_rec (ts : list dstat) (prev o : drec) : Z :=
    if negb (de_dry_okb o) then 4
    else if negb (de_caps_okb ts) then 1
    else if negb (de_counters_okb ts o) then 2
    else if negb (de_refusal_okb ts prev o) then 3
    else if negb (de_query_okb prev o) then 5
    else if negb (de_answer_okb ts o) then 6
    else 0.

  (* a cycle boundary with an eviction still inside its API call is outside the property's quantifier
     ("within one descheduling cycle"): judging stops there *)
  Definition bad_reset (ts : list dstat) (o : drec) : bool :=
    match r_op o with DReset => existsb parked ts | _ => false end.

  Fixpoint de_check_from (ts : list dstat) (prev : drec) (tr : list drec) : Z :=
    match tr with
    | [] => 0
    | o :: t =>
        if bad_reset ts o then 0
        else
          let ts' := de_stats_next ts o in
          let code := de_check_rec ts' prev o in
          if code =? 0 then de_check_from ts' o t else code
    end.

  Definition de_init_stats : list dstat := repeat (mkDS false 0 false) (length reqs).
  Definition de_init_rec : drec :=
    mkDR DNop false 0 (-1) (repeat 0 (2 + N + M)) (repeat 0 (2 + N + M)).

  Definition same_op (a b : dop) : bool :=
    match a, b with
    | DStep i, DStep j | DFilter i, DFilter j | DPre i, DPre j => Nat.eqb i j
    | DNodeLim k, DNodeLim l => k =? l
    | DReset, DReset | DNop, DNop => true
    | _, _ => false
    end.

  (* 9: the trace does not have one record per operation *)
  Definition de_code (tr : list drec) : Z :=
    if negb (Nat.eqb (length tr) (length (dc_ops e))) then 9
    else if negb (forallb (fun p => same_op (r_op (fst p)) (snd p)) (combine tr (dc_ops e))) then 9
    else de_check_from de_init_stats de_init_rec tr.
End Check.
