(* C16 (migration controller as the framework's evictor) — model of
     pkg/descheduler/controllers/migration/evict.go       Reconciler.Evict, CreatePodMigrationJob
     pkg/descheduler/controllers/migration/controller.go  Reconciler.Filter, initObjectLimiters,
        trackEvictedPod / track, checkPodExceedObjectLimiter / exceeded, requeueJobIfObjectLimiterFailed
   on top of the arbitration model (ModelArb: the arbitrator, its filters and event handler).
   The sliding window of the object limiters is far longer than a history: a token that was taken
   does not come back; a limiter holds GetLimiterBurst(burst) tokens (the regenerated definition).
   Executable, total, no proofs here. *)
From Coq Require Import List ZArith Bool.
From Verif Require Export C16.ModelArb.
From Verif Require Import Gen.Gen_scores.
Import ListNotations.
Open Scope Z_scope.

Record mcfg := mkMC {
  mc_arb : cfg;
  mc_dry : bool;
  mc_wl_on : bool; mc_wl_mm : iop; mc_wl_burst : Z;     (* ObjectLimiters["workload"] *)
  mc_ns_on : bool; mc_ns_mm : Z (* < 0: nil *); mc_ns_burst : Z }.   (* ObjectLimiters["namespace"] *)

(* tokens taken per limiter key (workload uid / namespace) since the controller started *)
Notation used_map := (list (Z * Z))%type.

Record mst := mkM { m_st : ast; m_wl : used_map; m_ns : used_map }.

Definition used (m : used_map) (k : Z) : Z :=
  match find (fun e => fst e =? k) m with Some e => snd e | None => 0 end.

Definition set_used (m : used_map) (k v : Z) : used_map :=
  (k, v) :: filter (fun e => negb (fst e =? k)) m.

(* rate.Limiter.AllowN(now, 1) with no refill: a token is taken while one is left *)
Definition take (burst : Z) (m : used_map) (k : Z) : used_map :=
  if used m k <? GetLimiterBurst burst then set_used m k (used m k + 1) else m.

(* exceeded: the limiter of the key exists and Tokens() - 1 < 0 *)
Definition exhausted (burst : Z) (m : used_map) (k : Z) : bool :=
  (0 <? used m k) && (GetLimiterBurst burst <=? used m k).

(* checkPodExceedObjectLimiter *)
Definition pod_limited (c : mcfg) (s : mst) (v : pod) : bool :=
  (mc_wl_on c && negb (p_wl v =? 0) && exhausted (mc_wl_burst c) (m_wl s) (p_wl v))
  || (mc_ns_on c && exhausted (mc_ns_burst c) (m_ns s) (p_ns v)).

(* trackEvictedPod: the workload limiter, then the namespace limiter; a limiter whose maximum
   resolves to 0 makes the function RETURN (the other limiter is then not tracked either) *)
Definition wl_max (c : mcfg) (st : ast) (v : pod) : Z :=
  get_max (replicas_of st (p_wl v)) (if fst (mc_wl_mm c) =? 0 then c_mm (mc_arb c) else mc_wl_mm c).

Definition track (c : mcfg) (s : mst) (v : pod) : mst :=
  let wl_applies := mc_wl_on c && negb (p_wl v =? 0) in
  if wl_applies && (wl_max c (m_st s) v =? 0) then s
  else
    let s1 := if wl_applies then mkM (m_st s) (take (mc_wl_burst c) (m_wl s) (p_wl v)) (m_ns s) else s in
    if mc_ns_on c then
      (if mc_ns_mm c <=? 0 then s1
       else mkM (m_st s1) (m_wl s1) (take (mc_ns_burst c) (m_ns s1) (p_ns v)))
    else s1.

(* the next job slot: jobs are created in order, job k by the k-th granted eviction *)
Definition free_slot (st : ast) : option job := find (fun j => negb (j_created j)) (a_jobs st).

Definition create_job (st : ast) (j : job) (p : Z) : ast :=
  set_job st (mkJob (j_id j) p (j_time j) true true 0 false true false false).

Inductive mop :=
| MArb (o : op)          (* Round, SetPhase, Delete, SetReady, DeletePod, SetPodState, Filter, Restart of the arbitrator *)
| MEvict (p : Z)         (* Reconciler.Evict *)
| MTrack (p : Z)         (* trackEvictedPod *)
| MRequeue (j : Z)       (* requeueJobIfObjectLimiterFailed *)
| MRestart.              (* a fresh Reconciler and a fresh arbitrator *)

Definition live_pod (st : ast) (pid : Z) : option pod :=
  match find_pod st pid with Some v => if p_exists v then Some v else None | None => None end.

Definition mstep (c : mcfg) (s : mst) (o : mop) : mst * Z :=
  match o with
  | MArb a => let '(st', r) := step (mc_arb c) (m_st s) a in (mkM st' (m_wl s) (m_ns s), r)
  | MEvict pid =>
      match live_pod (m_st s) pid, free_slot (m_st s) with
      | Some v, Some j =>
          if mc_dry c then (s, 1)
          else if filter_pod (mc_arb c) (m_st s) v && negb (pod_limited c s v)
               then (mkM (create_job (m_st s) j pid) (m_wl s) (m_ns s), 1)
               else (s, 0)
      | _, _ => (s, -1)
      end
  | MTrack pid =>
      match live_pod (m_st s) pid with
      | Some v => (track c s v, -1)
      | None => (s, -1)
      end
  | MRequeue jid =>
      match find_job (m_st s) jid with
      | Some j =>
          if j_api j then
            match pod_of (m_st s) j with
            | Some v => (s, if pod_limited c s v then 1 else 0)
            | None => (s, 0)
            end
          else (s, -1)
      | None => (s, -1)
      end
  | MRestart => (mkM (fst (step (mc_arb c) (m_st s) ORestart)) [] [], -1)
  end.

(* observed after every operation, per job slot: phase (-1 = not in the API), annotation, pod (0 = slot unused) *)
Definition mobs_job (j : job) : list Z :=
  [ if j_api j then j_phase j else -1;
    if j_api j && j_passed j then 1 else 0;
    if j_created j then j_pod j else 0 ].

Definition mobs_state (s : mst) : list Z := flat_map mobs_job (a_jobs (m_st s)).

Fixpoint mrun (c : mcfg) (s : mst) (ops : list mop) : list (mst * Z) :=
  match ops with
  | [] => []
  | o :: t => let '(s', r) := mstep c s o in (s', r) :: mrun c s' t
  end.
