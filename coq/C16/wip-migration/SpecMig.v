(* C16 (migration controller as the framework's evictor) — the property over histories, decided on the
   API objects only: per job slot (phase | -1, passed-arbitration annotation, pod) after every
   operation, and the verdicts of Evict / Filter / the reconcile-time limiter gate.  The arbitrator's
   in-memory sets are not observed; the object limiters' token counts are recomputed from the
   evictions of the history (Track operations), not read off the implementation. *)
From Coq Require Import List ZArith Bool Lia.
From Verif Require Import C16.ModelArb C16.SpecArb C16.ModelMig.
Import ListNotations.
Open Scope Z_scope.

(* the API view of a job: what a client that lists PodMigrationJobs sees *)
Definition view_job (j : job) : job :=
  mkJob (j_id j) (if j_created j then j_pod j else 0) (j_time j) (j_created j) (j_api j) (j_phase j)
        (j_api j && j_passed j) false (j_api j && j_passed j) false.

Definition view (st : ast) : ast := mkA (a_pods st) (a_wls st) (map view_job (a_jobs st)).
Definition mview (s : mst) : mst := mkM (view (m_st s)) (m_wl s) (m_ns s).

Definition same_api (j j' : job) : bool :=
  Bool.eqb (j_api j) (j_api j') && (j_phase j =? j_phase j') && Bool.eqb (j_passed j) (j_passed j')
  && (j_pod j =? j_pod j') && Bool.eqb (j_created j) (j_created j').

(* clause 3, on API objects: a round leaves a job as it is, or annotates it (phase untouched), or
   fails it - the latter only if its pod fails the non-retryable filter; lack of headroom never fails a job *)
Definition api_outcome_okb (c : cfg) (st : ast) (j j' : job) : bool :=
  same_api j j'
  || (j_api j && j_api j' && j_passed j' && (j_phase j' =? j_phase j) && (j_pod j' =? j_pod j)
      && Bool.eqb (j_created j) (j_created j'))
  || (j_api j && j_api j' && (j_phase j' =? 3) && Bool.eqb (j_passed j') (j_passed j) && (j_pod j' =? j_pod j)
      && Bool.eqb (j_created j) (j_created j')
      && match pod_of st j with Some p => negb (nonretryable c st p) | None => false end).

Fixpoint api_outcomes_okb (c : cfg) (st : ast) (js js' : list job) : bool :=
  match js, js' with
  | [], [] => true
  | j :: t, j' :: t' => api_outcome_okb c st j j' && api_outcomes_okb c st t t'
  | _, _ => false
  end.

Fixpoint all_same_api (js js' : list job) : bool :=
  match js, js' with
  | [], [] => true
  | j :: t, j' :: t' => same_api j j' && all_same_api t t'
  | _, _ => false
  end.

(* the job list after a granted eviction of pod [p]: the first unused slot is now a Pending,
   un-annotated job for [p]; every other job is as it was *)
Fixpoint created_okb (p : Z) (js js' : list job) : bool :=
  match js, js' with
  | j :: t, j' :: t' =>
      if j_created j then same_api j j' && created_okb p t t'
      else j_created j' && j_api j' && (j_phase j' =? 0) && negb (j_passed j') && (j_pod j' =? p)
           && all_same_api t t'
  | _, _ => false
  end.

(* the observed job fields after an operation: (phase | -1, annotation, pod | 0) per slot *)
Notation mjobs_obs := (list (Z * Z * Z))%type.

Definition apply_mjob_obs (j : job) (o : Z * Z * Z) : job :=
  let '(ph, pa, pd) := o in
  mkJob (j_id j) pd (j_time j) (negb (pd =? 0)) (negb (ph =? -1))
        (if ph =? -1 then j_phase j else ph) (negb (ph =? -1) && negb (pa =? 0)) false
        (negb (ph =? -1) && negb (pa =? 0)) false.

Fixpoint apply_mjobs_obs (js : list job) (os : mjobs_obs) : list job :=
  match js, os with
  | j :: t, o :: t' => apply_mjob_obs j o :: apply_mjobs_obs t t'
  | _, _ => js
  end.

(* what is known after an operation: the environment part and the limiter tokens follow from the input
   (tokens: from the Track operations), the job fields are the observed ones *)
Definition mobserved_next (c : mcfg) (s : mst) (o : mop) (os : mjobs_obs) : mst :=
  let st := m_st s in
  let st1 := match o with MArb a => env_step st a | _ => st end in
  let s1 := match o with
            | MTrack pid => match live_pod st pid with Some v => track c s v | None => s end
            | MRestart => mkM st [] []
            | _ => s
            end in
  mkM (mkA (a_pods st1) (a_wls st1) (apply_mjobs_obs (a_jobs st1) os)) (m_wl s1) (m_ns s1).

(* the property of one operation, 0 = holds.
   1 2 3  a round: budgets, unavailability (both on the annotation view), per-job outcome
   4      Filter / Evict said yes for a pod that already has a live migration job
   7      dry-run: Evict wrote something or did not say yes
   8      a refused eviction has a side effect / a granted one did not create exactly one Pending job
          for the pod in the next slot / an operation that only looks changed a job
   10     the object limiter: Evict grants, or the reconcile gate lets through, a pod whose workload or
          namespace has no token left (or the gate holds back one that has) *)
Definition mop_code (c : mcfg) (s s' : mst) (o : mop) (verdict : Z) : Z :=
  let st := m_st s in let st' := m_st s' in
  let unchanged := all_same_api (a_jobs st) (a_jobs st') in
  match o with
  | MArb (ORound _) =>
      if negb (limits_okb (mc_arb c) (annot_view st) (annot_view st')) then 1
      else if negb (unavail_okb (mc_arb c) (annot_view st) (annot_view st')) then 2
      else if negb (api_outcomes_okb (mc_arb c) st (a_jobs st) (a_jobs st')) then 3
      else 0
  | MArb (OFilter pid) =>
      if negb (filter_verdict_okb st pid verdict) then 4 else if unchanged then 0 else 8
  | MEvict pid =>
      match live_pod st pid, free_slot st with
      | Some v, Some _ =>
          if mc_dry c then (if (verdict =? 1) && unchanged then 0 else 7)
          else if verdict =? 1 then
            (if has_live_job st v then 4
             else if pod_limited c s v then 10
             else if created_okb pid (a_jobs st) (a_jobs st') then 0 else 8)
          else if unchanged then 0 else 8
      | _, _ => if unchanged then 0 else 8
      end
  | MTrack _ | MRestart => if unchanged then 0 else 8
  | MRequeue jid =>
      if negb unchanged then 8
      else match find_job st jid with
           | Some j =>
               if j_api j then
                 match pod_of st j with
                 | Some v => if verdict =? (if pod_limited c s v then 1 else 0) then 0 else 10
                 | None => 0
                 end
               else 0
           | None => 0
           end
  | MArb _ => 0
  end.

Fixpoint mhistory_code (c : mcfg) (s : mst) (ops : list mop) (obs : list (mjobs_obs * Z)) : Z :=
  match ops, obs with
  | [], [] => 0
  | o :: t, (os, verdict) :: t' =>
      let s' := mobserved_next c s o os in
      let code := mop_code c s s' o verdict in
      if code =? 0 then mhistory_code c s' t t' else code
  | _, _ => 9
  end.
