(* C16 — the production eviction stack (ModelDE): evictorProxy + EvictionLimiter around the
   DefaultEvictor's own PodEvictor, over several descheduling cycles.
   The stack is two of the systems of Model.v run side by side, so the theorems about the layers
   transfer: the inner layer is a run of [pe_step] (every schedule), the outer layer a run of
   [lim_step] with cycle resets (caps under the discipline "nobody enters AllowEvict, and no cycle
   starts, while an eviction is in flight"). *)
From Coq Require Import List ZArith Bool Lia.
From Verif Require Import Lib.ListX C16.Model C16.Spec C16.ModelDE C16.Proofs_Evict C16.Proofs_Limiter.
Import ListNotations.
Open Scope Z_scope.

Definition de_run (dry : bool) (c : caps) (reqs : list req) (s : dst) (ops : list dop) : dst :=
  fold_left (de_op dry c reqs) ops s.

(* ------------------------------------------------------------------ *)
(* the layers of one step                                               *)
(* ------------------------------------------------------------------ *)
Lemma de_step_out dry c reqs s i :
  d_out (de_step dry c reqs s i) = d_out s
  \/ d_out (de_step dry c reqs s i) = lim_step dry c reqs (d_out s) i.
Proof. unfold de_step. cbn [d_out]. destruct (de_moves_out dry reqs s i); auto. Qed.

Lemma de_step_in dry c reqs s i :
  d_in (de_step dry c reqs s i) = d_in s
  \/ d_in (de_step dry c reqs s i) = pe_step false nocaps reqs (d_in s) i.
Proof. unfold de_step. cbn [d_in]. destruct (de_moves_in dry reqs s i); auto. Qed.

Lemma nocaps_nonneg : caps_nonneg nocaps.
Proof. repeat split; cbn; intros m H; discriminate. Qed.

(* ---------- inner layer: a run of PodEvictor.Evict threads, whatever the operations ---------- *)
Definition in_run (reqs : list req) (a b : est) : Prop :=
  exists l, b = exec (pe_step false nocaps reqs) a l.

Lemma in_run_refl reqs a : in_run reqs a a.
Proof. exists []. reflexivity. Qed.

Lemma in_run_trans reqs a b c0 : in_run reqs a b -> in_run reqs b c0 -> in_run reqs a c0.
Proof.
  intros [l1 ->] [l2 ->]. exists (l1 ++ l2). unfold exec. rewrite fold_left_app. reflexivity.
Qed.

Lemma de_step_in_run dry c reqs s i : in_run reqs (d_in s) (d_in (de_step dry c reqs s i)).
Proof.
  destruct (de_step_in dry c reqs s i) as [->| ->]; [apply in_run_refl|exists [i]; reflexivity].
Qed.

Lemma de_hstep_in_run dry c reqs s i : in_run reqs (d_in s) (d_in (de_hstep dry c reqs s i)).
Proof.
  unfold de_hstep.
  repeat match goal with |- context [if ?b then _ else _] => destruct b end;
    repeat (eapply in_run_trans; [|apply de_step_in_run]); apply in_run_refl.
Qed.

Lemma de_op_in_run dry c reqs s o : in_run reqs (d_in s) (d_in (de_op dry c reqs s o)).
Proof.
  destruct o; cbn [de_op de_reset d_in]; try apply in_run_refl. apply de_hstep_in_run.
Qed.

Lemma de_run_in_run dry c reqs ops : forall s, in_run reqs (d_in s) (d_in (de_run dry c reqs s ops)).
Proof.
  unfold de_run. induction ops as [|o t IH]; intro s; cbn [fold_left]; [apply in_run_refl|].
  eapply in_run_trans; [apply de_op_in_run|apply IH].
Qed.

Lemma de_inner_inv dry c reqs ops :
  pe_inv false nocaps reqs (d_in (de_run dry c reqs (init_dst (length reqs)) ops)).
Proof.
  destruct (de_run_in_run dry c reqs ops (init_dst (length reqs))) as [l ->].
  cbn [init_dst d_in]. apply pe_inv_exec, pe_inv_init; cbn; intros m H; discriminate.
Qed.

(* the plugin's own PodEvictor: for EVERY list of operations (any interleaving, resets anywhere), once
   no thread sits between reserve and the API call or between a failed call and unreserve, its
   counters equal the evictions issued and not failed *)
Theorem de_inner_counters_exact dry c reqs ops :
  let s := d_in (de_run dry c reqs (init_dst (length reqs)) ops) in
  settled s ->
  (forall k, k <> 0 -> cn s k = issued_live reqs (on_node k) s) /\ cn s 0 = 0
  /\ (forall k, cs s k = issued_live reqs (on_ns k) s)
  /\ ct s = issued_live reqs any_req s.
Proof.
  intros s Hset. subst s.
  destruct (de_run_in_run dry c reqs ops (init_dst (length reqs))) as [l E].
  rewrite E in *. cbn [init_dst d_in] in *.
  exact (pe_counters_exact false nocaps reqs l nocaps_nonneg Hset).
Qed.

(* ---------- outer layer ---------- *)
Definition start_ok (reqs : list req) (o : est) (i : nat) : Prop :=
  nth_error (pcs o) i = Some PStart -> nth_error reqs i <> None -> nobody_in_flight reqs o.

Lemma lim_step_not_start dry c reqs s i :
  nth_error reqs i <> None -> nth_error (pcs (lim_step dry c reqs s i)) i <> Some PStart.
Proof.
  intro Hr. unfold lim_step.
  destruct (nth_error (pcs s) i) as [p|] eqn:Ep; [|rewrite Ep; discriminate].
  destruct (nth_error reqs i) as [r|] eqn:Er; [|congruence].
  assert (Hset : forall s0 q, pcs s0 = pcs s -> q <> PStart ->
            nth_error (pcs (set_pc s0 i q)) i <> Some PStart).
  { intros s0 q H Hq. cbn [set_pc pcs]. rewrite H, (nth_error_set_nth_same i q p _ Ep). congruence. }
  destruct p; try (rewrite Ep; discriminate).
  - repeat match goal with |- context [if ?b then _ else _] => destruct b end;
      apply Hset; auto; discriminate.
  - destruct dry; apply Hset; auto; discriminate.
  - destruct (r_ok r); apply Hset; auto; discriminate.
  - apply Hset; auto; discriminate.
Qed.

Lemma de_step_lim_inv dry c reqs s i :
  start_ok reqs (d_out s) i -> lim_inv c reqs (d_out s) ->
  lim_inv c reqs (d_out (de_step dry c reqs s i)) /\ start_ok reqs (d_out (de_step dry c reqs s i)) i.
Proof.
  intros Hs I. destruct (de_step_out dry c reqs s i) as [->| ->]; [split; assumption|].
  split; [apply lim_inv_step; assumption|].
  intros H Hr. exfalso. exact (lim_step_not_start dry c reqs (d_out s) i Hr H).
Qed.

Lemma de_hstep_lim_inv dry c reqs s i :
  start_ok reqs (d_out s) i -> lim_inv c reqs (d_out s) ->
  lim_inv c reqs (d_out (de_hstep dry c reqs s i)).
Proof.
  intros Hs I. unfold de_hstep.
  destruct (de_step_lim_inv dry c reqs s i Hs I) as [I1 S1].
  destruct (de_step_lim_inv dry c reqs _ i S1 I1) as [I2 S2].
  destruct (de_step_lim_inv dry c reqs _ i S2 I2) as [I3 S3].
  repeat match goal with |- context [if ?b then _ else _] => destruct b end; assumption.
Qed.

(* tsum over retired program counters *)
Lemma tsum_map w reqs f ps : tsum w reqs (map f ps) = tsum (fun r p => w r (f p)) reqs ps.
Proof.
  unfold tsum. revert reqs. induction ps as [|p ps IH]; intros [|r reqs]; cbn [map combine]; try reflexivity.
  rewrite !sumZ_cons, IH. reflexivity.
Qed.

Lemma lim_inv_reset c reqs s :
  nobody_in_flight reqs (d_out s) -> lim_inv c reqs (d_out s) -> lim_inv c reqs (d_out (de_reset s)).
Proof.
  intros Hq _. unfold nobody_in_flight in Hq.
  assert (Hdone : forall sel, tsum (wl_of sel doneok) reqs (map retire (pcs (d_out s))) = 0).
  { intro sel. rewrite tsum_map. unfold tsum. apply sumZ_map_zero. intros [r p] _.
    unfold w_of. cbn [fst snd]. destruct p; cbn; rewrite ?andb_false_r; reflexivity. }
  assert (Hfl : forall sel, tsum (wl_of sel in_flight) reqs (map retire (pcs (d_out s))) = 0).
  { intro sel.
    assert (H0 : tsum (wl_of sel in_flight) reqs (map retire (pcs (d_out s)))
                 = tsum (wl_of sel in_flight) reqs (pcs (d_out s))).
    { rewrite tsum_map. apply tsum_ext. intros r p _. unfold w_of. destruct p; reflexivity. }
    pose proof (tsum_sel_le sel in_flight reqs (pcs (d_out s))).
    pose proof (tsum_nonneg_w sel in_flight reqs (pcs (d_out s))). lia. }
  constructor; cbn [de_reset d_out cn cs ct pcs]; intros;
    rewrite ?granted_split, ?Hdone, ?Hfl; lia.
Qed.

(* the discipline, at the granularity of the operations of a case *)
Fixpoint de_disciplined (dry : bool) (c : caps) (reqs : list req) (s : dst) (ops : list dop) : Prop :=
  match ops with
  | [] => True
  | o :: t =>
      match o with
      | DStep i => start_ok reqs (d_out s) i
      | DReset => nobody_in_flight reqs (d_out s)
      | _ => True
      end
      /\ de_disciplined dry c reqs (de_op dry c reqs s o) t
  end.

Lemma de_op_lim_inv dry c reqs s o :
  match o with
  | DStep i => start_ok reqs (d_out s) i
  | DReset => nobody_in_flight reqs (d_out s)
  | _ => True
  end ->
  lim_inv c reqs (d_out s) -> lim_inv c reqs (d_out (de_op dry c reqs s o)).
Proof.
  destruct o; cbn [de_op]; intros H I; try exact I.
  - apply de_hstep_lim_inv; assumption.
  - apply lim_inv_reset; assumption.
Qed.

Lemma de_run_lim_inv dry c reqs ops : forall s,
  de_disciplined dry c reqs s ops -> lim_inv c reqs (d_out s) ->
  lim_inv c reqs (d_out (de_run dry c reqs s ops)).
Proof.
  unfold de_run. induction ops as [|o t IH]; intros s D I; cbn [fold_left]; [exact I|].
  destruct D as [D1 D2]. apply IH; [exact D2|]. apply de_op_lim_inv; assumption.
Qed.

(* under the discipline, in every descheduling cycle: the evictions admitted in the cycle and not
   failed stay within the three caps, and the limiter's counters are the evictions completed in it
   (a thread completed in an earlier cycle is retired: it is no longer PDoneOk) *)
Theorem de_disciplined_caps dry c reqs ops :
  caps_nonneg c ->
  de_disciplined dry c reqs (init_dst (length reqs)) ops ->
  let s := d_out (de_run dry c reqs (init_dst (length reqs)) ops) in
  (forall m k, cap_node c = Some m -> k <> 0 ->
     tsum (wl_of (on_node k) granted_pc) reqs (pcs s) <= m)
  /\ (forall m k, cap_ns c = Some m -> tsum (wl_of (on_ns k) granted_pc) reqs (pcs s) <= m)
  /\ (forall m, cap_total c = Some m -> tsum (wl_of any_req granted_pc) reqs (pcs s) <= m)
  /\ (forall k, k <> 0 -> cn s k = tsum (wl_of (on_node k) doneok) reqs (pcs s))
  /\ (forall k, cs s k = tsum (wl_of (on_ns k) doneok) reqs (pcs s))
  /\ ct s = tsum (wl_of any_req doneok) reqs (pcs s).
Proof.
  intros Hc D s.
  assert (I : lim_inv c reqs s).
  { apply de_run_lim_inv; [exact D|]. cbn [init_dst d_out]. apply lim_inv_init, Hc. }
  destruct Hc as [Hc1 [Hc2 Hc3]]. destruct I as [I1 I2 I3 I4 I5 I6 I7].
  assert (Hnode : forall k f, k <> 0 ->
            tsum (wl_of (on_node k) f) reqs (pcs s) = tsum (wl_of (node_sel k) f) reqs (pcs s)).
  { intros k f Hk. apply tsum_ext. intros r p _. unfold w_of, node_sel, on_node.
    replace (k =? 0) with false by (symmetry; apply Z.eqb_neq, Hk). rewrite andb_true_r. reflexivity. }
  repeat split.
  - intros m k Hm Hk. rewrite (Hnode k _ Hk). eauto.
  - intros m k Hm. eauto.
  - intros m Hm. eauto.
  - intros k Hk. rewrite (Hnode k _ Hk). apply I1.
  - apply I2.
  - apply I3.
Qed.

(* ---------- dry-run: nothing reaches the plugin, nothing is sent ---------- *)
Definition no_inapi (o : est) : Prop := forall p, In p (pcs o) -> p <> PInApi.

Lemma lim_step_dry_no_inapi c reqs o i : no_inapi o -> no_inapi (lim_step true c reqs o i).
Proof.
  intro H. destruct (lim_step_shape true c reqs o i) as [->|[p [r [d [call [p' [Hp [Hr [Htr Heq]]]]]]]]];
    [exact H|].
  destruct Heq as [_ [_ [_ [Hpcs _]]]]. intros q Hq. rewrite Hpcs, pcs_apply_tr in Hq.
  apply in_set_nth in Hq. destruct Hq as [->|Hq]; [|apply H, Hq].
  inversion Htr; subst; discriminate.
Qed.

Lemma de_moves_in_dry reqs s i : no_inapi (d_out s) -> de_moves_in true reqs s i = false.
Proof.
  intro H. unfold de_moves_in.
  destruct (nth_error (pcs (d_out s)) i) as [po|] eqn:Eo; [|reflexivity].
  destruct (nth_error (pcs (d_in s)) i); [|reflexivity].
  destruct (nth_error reqs i); [|reflexivity].
  destruct po; try reflexivity. exfalso. exact (H PInApi (nth_error_In _ _ Eo) eq_refl).
Qed.

Lemma de_step_dry c reqs s i :
  no_inapi (d_out s) ->
  no_inapi (d_out (de_step true c reqs s i)) /\ d_in (de_step true c reqs s i) = d_in s.
Proof.
  intro H. split.
  - destruct (de_step_out true c reqs s i) as [->| ->]; [exact H|apply lim_step_dry_no_inapi, H].
  - unfold de_step. cbn [d_in]. rewrite (de_moves_in_dry reqs s i H). reflexivity.
Qed.

Lemma de_hstep_dry c reqs s i :
  no_inapi (d_out s) ->
  no_inapi (d_out (de_hstep true c reqs s i)) /\ d_in (de_hstep true c reqs s i) = d_in s.
Proof.
  intro H. unfold de_hstep.
  destruct (de_step_dry c reqs s i H) as [H1 E1].
  destruct (de_step_dry c reqs _ i H1) as [H2 E2].
  destruct (de_step_dry c reqs _ i H2) as [H3 E3].
  repeat match goal with |- context [if ?b then _ else _] => destruct b end;
    split; auto; congruence.
Qed.

Lemma no_inapi_reset s : no_inapi (d_out s) -> no_inapi (d_out (de_reset s)).
Proof.
  intros H q Hq. cbn [de_reset d_out pcs] in Hq. apply in_map_iff in Hq.
  destruct Hq as [p [<- Hp]]. specialize (H p Hp). destruct p; cbn; congruence.
Qed.

Lemma de_run_dry c reqs ops : forall s,
  no_inapi (d_out s) -> d_in (de_run true c reqs s ops) = d_in s.
Proof.
  unfold de_run. induction ops as [|o t IH]; intros s H; cbn [fold_left]; [reflexivity|].
  destruct o; cbn [de_op]; try (apply IH, H).
  - destruct (de_hstep_dry c reqs s i H) as [H1 E1]. rewrite (IH _ H1). exact E1.
  - rewrite (IH _ (no_inapi_reset s H)). reflexivity.
Qed.

Theorem de_dry_no_call c reqs ops :
  calls (d_in (de_run true c reqs (init_dst (length reqs)) ops)) = [].
Proof.
  rewrite de_run_dry; [reflexivity|].
  intros p Hp. cbn [init_dst d_out init_est pcs] in Hp. apply repeat_spec in Hp. subst. discriminate.
Qed.
