(* C16 — flat-integer interface of the eviction-stack model (stream defaultevictor, tag 18).
   input :  18 dry flags capNode capNs capTotal N M   T (node ns ok attr)*T   S (op arg)*S   (cap -1 = unset)
     flags: 1 EvictLocalStoragePods  2 EvictSystemCriticalPods  4 IgnorePvcPods  8 EvictFailedBarePods
     attr : 1 mirror 2 static 4 terminating 8 bare 16 DaemonSet owner 32 phase Failed 64 system-critical
            128 emptyDir volume 256 PVC volume 512 evict annotation
     ops  : 0 step thread | 1 Filter(pod) | 2 PreEvictionFilter(pod) | 3 NodeLimitExceeded(node) | 4 Reset
   observable per op :  api ret verdict  limiter(total node0..N ns1..M)  plugin's PodEvictor(total node0..N ns1..M) *)
From Coq Require Import List ZArith Bool.
From Verif Require Import Lib.Wire C16.Model C16.Spec C16.ModelDE C16.SpecDE C16.WireEvict.
Import ListNotations.
Open Scope Z_scope.

Definition bit (z : Z) (k : Z) : bool := Z.testbit z k.

Definition dec_attr (z : Z) : pattr :=
  mkPA (bit z 0) (bit z 1) (bit z 2) (bit z 3) (bit z 4) (bit z 5) (bit z 6) (bit z 7) (bit z 8) (bit z 9).

Definition dec_dreq (l : list Z) : (req * pattr) * list Z :=
  match l with
  | a :: b :: c :: d :: t => ((mkReq a b (zb c), dec_attr d), t)
  | _ => ((mkReq 0 0 false, dec_attr 0), [])
  end.

Definition dec_dop (l : list Z) : dop * list Z :=
  match l with
  | k :: a :: t =>
      ((if a <? 0 then DNop
        else if k =? 0 then DStep (Z.to_nat a) else if k =? 1 then DFilter (Z.to_nat a)
        else if k =? 2 then DPre (Z.to_nat a) else if k =? 3 then DNodeLim a
        else if k =? 4 then DReset else DNop), t)
  | _ => (DNop, [])
  end.

Definition mine (inp : list Z) : bool := match inp with t :: _ => t =? 18 | [] => false end.

Definition decode (inp : list Z) : dcase :=
  match inp with
  | _ :: dry :: fl :: cn :: cs :: ctot :: n :: m :: t =>
      let '(rs, r) := decode_seq dec_dreq t in
      let '(ops, _) := decode_seq dec_dop r in
      mkDC (zb dry) (mkDF (bit fl 0) (bit fl 1) (bit fl 2) (bit fl 3))
           (mkCaps (dec_cap cn) (dec_cap cs) (dec_cap ctot))
           (Z.to_nat n) (Z.to_nat m) (map fst rs) (map snd rs) ops
  | _ => mkDC false (mkDF false false false false) (mkCaps None None None) O O [] [] []
  end.

Definition flat_drec (o : drec) : list Z :=
  bz (r_api o) :: r_ret o :: r_verdict o :: r_oc o ++ r_ic o.

Definition run_case (inp : list Z) : list Z :=
  if mine inp then flat_map flat_drec (de_model_trace (decode inp)) else [].

(* cut the observable into one record per operation *)
Fixpoint dec_dobs (w : nat) (ops : list dop) (obs : list Z) : list drec :=
  match ops with
  | [] => match obs with [] => [] | _ => [mkDR DNop false 0 0 [] []] end   (* trailing garbage: wrong length *)
  | o :: t =>
      match obs with
      | a :: r :: v :: rest =>
          if Nat.leb (w + w) (length rest) then
            mkDR o (zb a) r v (firstn w rest) (firstn w (skipn w rest))
            :: dec_dobs w t (skipn (w + w) rest)
          else []
      | _ => []
      end
  end.

Definition prop_case (inp obs : list Z) : Z :=
  if mine inp then
    let e := decode inp in
    de_code e (dec_dobs (2 + dc_N e + dc_M e) (dc_ops e) obs)
  else match obs with [] => 0 | _ => 9 end.

(* non-trivial: the caps bite (some eviction is refused without an API call) and some eviction is granted *)
Definition nontrivial_case (inp : list Z) : bool :=
  mine inp &&
  let tr := de_model_trace (decode inp) in
  existsb (fun o => (r_ret o =? 1) && negb (r_api o)) tr && existsb (fun o => r_ret o =? 2) tr
  && Nat.ltb 1 (length (dc_reqs (decode inp))).

(* the known finding of the stream limiter (AllowEvict / Done are two critical sections) has the same
   shape here: the caps are exceeded exactly as the faithful model predicts for this schedule *)
Definition finding_sig (inp obs : list Z) : Z :=
  if mine inp && (prop_case inp obs =? 1) && eq_listZ (run_case inp) obs then 1 else 0.

Require Extraction.
Require Import ExtrOcamlBasic.
Extraction "model.ml" run_case prop_case nontrivial_case finding_sig.
