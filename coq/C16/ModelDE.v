(* C16 (eviction stack) — the production wiring of one eviction, as descheduler.go builds it:
     evictorProxy.Evict            pkg/descheduler/framework/runtime/evictor_proxy.go
       AllowEvict                  pkg/descheduler/evictions/eviction_limiter.go   (outer layer: the caps)
       DefaultEvictor.Evict        pkg/descheduler/framework/plugins/kubernetes/defaultevictor/evictor.go
         PodEvictor.Evict          pkg/descheduler/evictions/evictions.go          (inner layer: built by
           reserve / API / unreserve                                                defaultevictor.New with
       Done                                                                         dryRun=false, no caps)
     EvictionLimiter.Reset         start of the next descheduling cycle
     evictorProxy.Filter / PreEvictionFilter -> DefaultEvictor -> upstream defaultevictor constraints
   The two layers are the two small-step systems of Model.v ([lim_step], [pe_step]) run side by side:
   a step of a thread moves the outer layer, the inner layer, or both, as dictated by where the
   thread is.  Executable, total, no proofs here. *)
From Coq Require Import List ZArith Bool.
From Verif Require Export C16.Model.
Import ListNotations.
Open Scope Z_scope.

(* ---------- which pods the evictor's Filter refuses ---------- *)
Record pattr := mkPA {
  a_mirror : bool; a_static : bool; a_term : bool; a_bare : bool; a_ds : bool; a_failed : bool;
  a_critical : bool; a_local : bool; a_pvc : bool; a_annot : bool }.

(* DefaultEvictorArgs: EvictLocalStoragePods, EvictSystemCriticalPods, IgnorePvcPods, EvictFailedBarePods *)
Record dflags := mkDF { f_local : bool; f_critical : bool; f_ignpvc : bool; f_failedbare : bool }.

Definition de_filter (f : dflags) (a : pattr) : bool :=
  a_annot a
  || negb (a_mirror a || a_static a || a_term a
           || (a_bare a && negb (f_failedbare f && a_failed a))
           || (a_ds a && negb (a_bare a))
           || (a_critical a && negb (f_critical f))
           || (a_local a && negb (f_local f))
           || (a_pvc a && f_ignpvc f)).

(* ---------- the two layers ---------- *)
Record dst := mkD { d_out : est (* EvictionLimiter + proxy *); d_in : est (* DefaultEvictor's PodEvictor *) }.

Definition nocaps : caps := mkCaps None None None.

Definition init_dst (n : nat) : dst := mkD (init_est n) (init_est n).

Definition de_moves_out (dry : bool) (reqs : list req) (s : dst) (i : nat) : bool :=
  match nth_error (pcs (d_out s)) i, nth_error (pcs (d_in s)) i, nth_error reqs i with
  | Some po, Some pi, Some r =>
      match po with
      | PStart => true                                             (* AllowEvict *)
      | PAdmitted => dry || (match pi with PAdmitted => true | _ => false end)   (* dry: skip the plugin; else: the API call is sent *)
      | PInApi => match pi with PInApi => r_ok r | PPost => true | _ => false end (* the plugin returns *)
      | PPost => true                                              (* Done *)
      | _ => false
      end
  | _, _, _ => false
  end.

Definition de_moves_in (dry : bool) (reqs : list req) (s : dst) (i : nat) : bool :=
  match nth_error (pcs (d_out s)) i, nth_error (pcs (d_in s)) i, nth_error reqs i with
  | Some po, Some pi, Some r =>
      match po with
      | PAdmitted => negb dry && (match pi with PStart | PAdmitted => true | _ => false end) (* reserve, send *)
      | PInApi => match pi with PInApi | PPost => true | _ => false end                        (* result, unreserve *)
      | _ => false
      end
  | _, _, _ => false
  end.

Definition de_step (dry : bool) (c : caps) (reqs : list req) (s : dst) (i : nat) : dst :=
  mkD (if de_moves_out dry reqs s i then lim_step dry c reqs (d_out s) i else d_out s)
      (if de_moves_in dry reqs s i then pe_step false nocaps reqs (d_in s) i else d_in s).

(* EvictionLimiter.Reset: fresh counters.  An eviction completed in an earlier cycle no longer counts:
   its thread is retired (its program counter leaves PDoneOk, so that the counters again equal the
   number of PDoneOk threads). *)
Definition retire (p : pc) : pc := match p with PDoneOk => PDoneFail | _ => p end.

Definition de_reset (s : dst) : dst :=
  mkD (mkE (fun _ => 0) (fun _ => 0) 0 (map retire (pcs (d_out s))) (calls (d_out s))) (d_in s).

(* ---------- operations of a case ---------- *)
Inductive dop :=
| DStep (i : nat) | DFilter (i : nat) | DPre (i : nat) | DNodeLim (k : Z) | DReset | DNop.

(* the granularity at which the harness drives the real code: a goroutine runs until it is parked
   inside the eviction API call (AllowEvict, reserve, send) or returns; once released it runs until
   it returns (result, [unreserve], [Done]) *)
Definition de_inapi (s : dst) (i : nat) : bool :=
  match nth_error (pcs (d_out s)) i, nth_error (pcs (d_in s)) i with
  | Some PInApi, Some PInApi => true
  | _, _ => false
  end.

Definition de_hstep (dry : bool) (c : caps) (reqs : list req) (s : dst) (i : nat) : dst :=
  let st := de_step dry c reqs in
  if de_inapi s i then st (st s i) i
  else let s1 := st s i in
       if de_inapi s1 i then s1
       else let s2 := st s1 i in
            if de_inapi s2 i then s2 else st s2 i.

Definition de_op (dry : bool) (c : caps) (reqs : list req) (s : dst) (o : dop) : dst :=
  match o with
  | DStep i => de_hstep dry c reqs s i
  | DReset => de_reset s
  | _ => s
  end.

(* ---------- observations ---------- *)
(* TotalEvicted, NodeEvicted("" , n1..nN), NamespaceEvicted(s1..sM) *)
Definition snap (N M : nat) (s : est) : list Z :=
  ct s :: map (cn s) (zrange 0 (S N)) ++ map (cs s) (zrange 1 M).

Record drec := mkDR {
  r_op : dop;
  r_api : bool;        (* an eviction API call was received during the step *)
  r_ret : Z;           (* 0 nothing returned, 1 Evict returned false, 2 true *)
  r_verdict : Z;       (* Filter / PreEvictionFilter / NodeLimitExceeded, else -1 *)
  r_oc : list Z;       (* limiter counters after the step *)
  r_ic : list Z }.     (* the DefaultEvictor's PodEvictor counters after the step *)

Definition node_limit (c : caps) (s : est) (k : Z) : bool :=
  match cap_node c with Some m => cn s k =? m | None => false end.

Definition de_verdict (f : dflags) (c : caps) (N : nat) (attrs : list pattr) (s : dst) (o : dop) : Z :=
  match o with
  | DFilter i => match nth_error attrs i with Some a => if de_filter f a then 1 else 0 | None => -1 end
  | DPre i => match nth_error attrs i with Some _ => 1 | None => -1 end
  | DNodeLim k => if (0 <=? k) && (k <=? Z.of_nat N) then (if node_limit c (d_out s) k then 1 else 0) else -1
  | _ => -1
  end.

Definition de_observe (f : dflags) (c : caps) (N M : nat) (attrs : list pattr) (s s' : dst) (o : dop) : drec :=
  mkDR o
       (negb (Nat.eqb (length (calls (d_in s))) (length (calls (d_in s')))))
       (match o with DStep i => ret_code (pc_of (d_out s) i) (pc_of (d_out s') i) | _ => 0 end)
       (de_verdict f c N attrs s o)
       (snap N M (d_out s')) (snap N M (d_in s')).

Fixpoint de_trace (dry : bool) (f : dflags) (c : caps) (N M : nat) (reqs : list req) (attrs : list pattr)
         (ops : list dop) (s : dst) : list drec :=
  match ops with
  | [] => []
  | o :: t => let s' := de_op dry c reqs s o in
              de_observe f c N M attrs s s' o :: de_trace dry f c N M reqs attrs t s'
  end.

Record dcase := mkDC {
  dc_dry : bool; dc_flags : dflags; dc_caps : caps; dc_N : nat; dc_M : nat;
  dc_reqs : list req; dc_attrs : list pattr; dc_ops : list dop }.

Definition de_model_trace (e : dcase) : list drec :=
  de_trace (dc_dry e) (dc_flags e) (dc_caps e) (dc_N e) (dc_M e) (dc_reqs e) (dc_attrs e) (dc_ops e)
           (init_dst (length (dc_reqs e))).
