(* C16 — proofs about the eviction-cap model.
   PodEvictor (reserve / API / unreserve): for EVERY schedule (hence every interleaving) the
   evictions issued and not failed stay within the caps, the counters account exactly for the
   reserved slots, a refusal has no side effect, dry-run sends nothing.
   Proxy + limiter (AllowEvict / plugin / Done): the same under the discipline "nobody enters
   AllowEvict while another eviction is in flight" (in particular for a sequential caller), and a
   concrete interleaving that exceeds the cap without it. *)
From Coq Require Import List ZArith Bool Lia.
From Verif Require Import Lib.ListX C16.Model C16.Spec.
Import ListNotations.
Open Scope Z_scope.

(* ------------------------------------------------------------------ *)
(* lists                                                                *)
(* ------------------------------------------------------------------ *)
Lemma set_nth_length {A} i (v : A) l : length (set_nth i v l) = length l.
Proof. revert i; induction l as [|x l IH]; intros [|i]; cbn; auto. Qed.

Lemma nth_error_set_nth_same {A} i (v p : A) l :
  nth_error l i = Some p -> nth_error (set_nth i v l) i = Some v.
Proof. revert i; induction l as [|x l IH]; intros [|i]; cbn; try discriminate; auto. Qed.

Lemma nth_error_set_nth_other {A} i j (v : A) l :
  i <> j -> nth_error (set_nth i v l) j = nth_error l j.
Proof.
  revert i j; induction l as [|x l IH]; intros [|i] [|j] H; cbn; auto; try congruence.
Qed.

Lemma nth_set_nth_other {A} i j (v : A) l d : i <> j -> nth j (set_nth i v l) d = nth j l d.
Proof.
  revert i j; induction l as [|x l IH]; intros [|i] [|j] H; cbn; auto; try congruence.
Qed.

(* a weighted sum over the threads *)
Definition tsum (w : req -> pc -> Z) (reqs : list req) (ps : list pc) : Z :=
  sumZ (map (fun rp => w (fst rp) (snd rp)) (combine reqs ps)).

Lemma tsum_set_nth w reqs ps i p p' r :
  nth_error ps i = Some p -> nth_error reqs i = Some r ->
  tsum w reqs (set_nth i p' ps) = tsum w reqs ps - w r p + w r p'.
Proof.
  unfold tsum. revert reqs i.
  induction ps as [|x ps IH]; intros [|r0 reqs] [|i];
    cbn [combine map set_nth fst snd nth_error]; try discriminate.
  - intros H1 H2. inversion H1; inversion H2; subst. rewrite !sumZ_cons. cbn [fst snd]. lia.
  - intros H1 H2. rewrite !sumZ_cons, (IH reqs i H1 H2). lia.
Qed.

Lemma tsum_le w w' reqs ps :
  (forall r p, w r p <= w' r p) -> tsum w reqs ps <= tsum w' reqs ps.
Proof. intro H. unfold tsum. apply sumZ_map_le. intros [r p] _. apply H. Qed.

Lemma tsum_ext w w' reqs ps :
  (forall r p, In p ps -> w r p = w' r p) -> tsum w reqs ps = tsum w' reqs ps.
Proof.
  intro H. unfold tsum. apply sumZ_map_ext. intros [r p] Hin. apply H.
  apply in_combine_r in Hin. exact Hin.
Qed.

Lemma tsum_repeat_zero w reqs p n : (forall r, w r p = 0) -> tsum w reqs (repeat p n) = 0.
Proof.
  intro H. unfold tsum. apply sumZ_map_zero. intros [r q] Hin.
  apply in_combine_r, repeat_spec in Hin. cbn. subst. apply H.
Qed.

(* counting over a duplicate-free list of thread ids when one thread changes *)
Definition cnt (g : nat -> bool) (l : list nat) : Z := Z.of_nat (length (filter g l)).

Lemma cnt_cons g i l : cnt g (i :: l) = (if g i then 1 else 0) + cnt g l.
Proof. unfold cnt. cbn [filter]. destruct (g i); cbn [length]; lia. Qed.

Lemma cnt_ext_notin g g' i l :
  ~ In i l -> (forall j, j <> i -> g' j = g j) -> cnt g' l = cnt g l.
Proof.
  induction l as [|x l IH]; intros Hn Hg; [reflexivity|].
  rewrite !cnt_cons, IH by (auto; intro; apply Hn; right; assumption).
  rewrite Hg; [reflexivity|]. intro; subst. apply Hn. left; reflexivity.
Qed.

Lemma cnt_change g g' i l :
  NoDup l -> In i l -> (forall j, j <> i -> g' j = g j) ->
  cnt g' l = cnt g l - (if g i then 1 else 0) + (if g' i then 1 else 0).
Proof.
  induction l as [|x l IH]; intros Hnd Hin Hg; [destruct Hin|].
  inversion Hnd as [|? ? Hnx Hnd']; subst. rewrite !cnt_cons.
  destruct Hin as [->|Hin].
  - rewrite (cnt_ext_notin g g' i l Hnx Hg). lia.
  - rewrite (IH Hnd' Hin Hg). rewrite (Hg x); [lia|]. intro; subst. contradiction.
Qed.

(* ------------------------------------------------------------------ *)
(* the shape of a step                                                  *)
(* ------------------------------------------------------------------ *)
Definition apply_tr (s : est) (i : nat) (r : req) (d : Z) (call : bool) (p' : pc) : est :=
  set_pc (if call then add_call (bump s r d) i else bump s r d) i p'.

Lemma cn_apply_tr s i r d call p' k :
  cn (apply_tr s i r d call p') k
  = cn s k + (if (r_node r =? k) && negb (k =? 0) then d else 0).
Proof.
  assert (H : cn (bump s r d) k = cn s k + (if (r_node r =? k) && negb (k =? 0) then d else 0)).
  { cbn [bump cn]. unfold upd. destruct (Z.eqb_spec k (r_node r)) as [->|Ek].
    - rewrite Z.eqb_refl. destruct (r_node r =? 0); cbn; rewrite ?Z.eqb_refl; cbn; lia.
    - replace (r_node r =? k) with false by (symmetry; apply Z.eqb_neq; lia).
      destruct (r_node r =? 0); cbn; [lia|].
      replace (k =? r_node r) with false by (symmetry; apply Z.eqb_neq; lia). lia. }
  unfold apply_tr. destruct call; cbn [set_pc add_call cn]; exact H.
Qed.

Lemma cs_apply_tr s i r d call p' k :
  cs (apply_tr s i r d call p') k = cs s k + (if r_ns r =? k then d else 0).
Proof.
  unfold apply_tr. destruct call; cbn; unfold upd; rewrite (Z.eqb_sym k);
  destruct (r_ns r =? k) eqn:Ek; try (apply Z.eqb_eq in Ek; subst); lia.
Qed.

Lemma ct_apply_tr s i r d call p' : ct (apply_tr s i r d call p') = ct s + d.
Proof. unfold apply_tr. destruct call; reflexivity. Qed.

Lemma pcs_apply_tr s i r d call p' : pcs (apply_tr s i r d call p') = set_nth i p' (pcs s).
Proof. unfold apply_tr. destruct call; reflexivity. Qed.

Lemma calls_apply_tr s i r d call p' :
  calls (apply_tr s i r d call p') = if call then i :: calls s else calls s.
Proof. unfold apply_tr. destruct call; reflexivity. Qed.

(* pointwise-equal counters are as good as equal ones: bump by 0 *)
Definition est_eqv (a b : est) : Prop :=
  (forall k, cn a k = cn b k) /\ (forall k, cs a k = cs b k) /\ ct a = ct b
  /\ pcs a = pcs b /\ calls a = calls b.

Lemma set_pc_as_tr s i r p' : est_eqv (set_pc s i p') (apply_tr s i r 0 false p').
Proof.
  repeat split; intros.
  - rewrite cn_apply_tr. cbn. destruct (_ && _); lia.
  - rewrite cs_apply_tr. cbn. destruct (_ =? _); lia.
  - rewrite ct_apply_tr. cbn. lia.
Qed.

(* ---------- PodEvictor ---------- *)
Inductive pe_trans (dry : bool) (c : caps) (r : req) (s : est) : pc -> Z -> bool -> pc -> Prop :=
| pt_refuse : pe_trans dry c r s PStart 0 false PRefused
| pt_dry : dry = true ->
    reached (cap_node c) (cn s (r_node r)) = false -> reached (cap_ns c) (cs s (r_ns r)) = false ->
    pe_trans dry c r s PStart 0 false PDoneOk
| pt_reserve : dry = false ->
    reached (cap_node c) (cn s (r_node r)) = false -> reached (cap_ns c) (cs s (r_ns r)) = false ->
    pe_trans dry c r s PStart 1 false PAdmitted
| pt_send : pe_trans dry c r s PAdmitted 0 true PInApi
| pt_ok : r_ok r = true -> pe_trans dry c r s PInApi 0 false PDoneOk
| pt_err : r_ok r = false -> pe_trans dry c r s PInApi 0 false PPost
| pt_unreserve : pe_trans dry c r s PPost (-1) false PDoneFail.

Lemma pe_step_shape dry c reqs s i :
  pe_step dry c reqs s i = s
  \/ exists p r d call p',
       nth_error (pcs s) i = Some p /\ nth_error reqs i = Some r /\
       pe_trans dry c r s p d call p' /\
       est_eqv (pe_step dry c reqs s i) (apply_tr s i r d call p').
Proof.
  unfold pe_step.
  destruct (nth_error (pcs s) i) as [p|] eqn:Ep; [|left; reflexivity].
  destruct (nth_error reqs i) as [r|] eqn:Er; [|left; reflexivity].
  destruct p; try (left; reflexivity); right.
  - destruct (reached (cap_node c) (cn s (r_node r))) eqn:E1.
    { exists PStart, r, 0, false, PRefused. repeat split; auto using pt_refuse; apply set_pc_as_tr. }
    destruct (reached (cap_ns c) (cs s (r_ns r))) eqn:E2.
    { exists PStart, r, 0, false, PRefused. repeat split; auto using pt_refuse; apply set_pc_as_tr. }
    destruct dry eqn:Ed.
    { exists PStart, r, 0, false, PDoneOk. repeat split; auto using pt_dry; apply set_pc_as_tr. }
    exists PStart, r, 1, false, PAdmitted. repeat split; auto using pt_reserve.
  - exists PAdmitted, r, 0, true, PInApi. split; [auto|]. split; [auto|]. split; [constructor|].
    repeat split; intros.
    + rewrite cn_apply_tr. cbn. destruct (_ && _); lia.
    + rewrite cs_apply_tr. cbn. destruct (_ =? _); lia.
    + rewrite ct_apply_tr. cbn. lia.
  - destruct (r_ok r) eqn:Eo.
    + exists PInApi, r, 0, false, PDoneOk. repeat split; auto using pt_ok; apply set_pc_as_tr.
    + exists PInApi, r, 0, false, PPost. repeat split; auto using pt_err; apply set_pc_as_tr.
  - exists PPost, r, (-1), false, PDoneFail. repeat split; auto using pt_unreserve.
Qed.

(* a slot is held from reserve until unreserve; nothing is held in dry-run *)
Definition held (p : pc) : bool :=
  match p with PAdmitted | PInApi | PPost | PDoneOk => true | _ => false end.
(* the API call was received *)
Definition called (p : pc) : bool :=
  match p with PInApi | PPost | PDoneFail | PDoneOk => true | _ => false end.
(* ... and is not known to have failed *)
Definition live (p : pc) : bool := match p with PInApi | PDoneOk => true | _ => false end.
Definition in_flight (p : pc) : bool :=
  match p with PAdmitted | PInApi | PPost => true | _ => false end.

Definition w_of (dry : bool) (sel : req -> bool) (f : pc -> bool) (r : req) (p : pc) : Z :=
  if negb dry && sel r && f p then 1 else 0.

Definition node_sel (k : Z) (r : req) : bool := (r_node r =? k) && negb (k =? 0).

(* evictions issued (API call received) and not failed, among the selected requests *)
Definition issued_live (reqs : list req) (sel : req -> bool) (s : est) : Z :=
  cnt (fun i => match nth_error reqs i with
                | Some r => sel r && live (pc_of s i)
                | None => false
                end) (calls s).

Record pe_inv (dry : bool) (c : caps) (reqs : list req) (s : est) : Prop := {
  pi_capn : forall m k, cap_node c = Some m -> 0 <= m -> cn s k <= m;
  pi_caps : forall m k, cap_ns c = Some m -> 0 <= m -> cs s k <= m;
  pi_cn : forall k, cn s k = tsum (w_of dry (node_sel k) held) reqs (pcs s);
  pi_cs : forall k, cs s k = tsum (w_of dry (on_ns k) held) reqs (pcs s);
  pi_ct : ct s = tsum (w_of dry any_req held) reqs (pcs s);
  pi_dry : dry = true -> forall p, In p (pcs s) -> in_flight p = false;
  pi_nodup : NoDup (calls s);
  pi_calls : forall i, In i (calls s) <->
               (exists p, nth_error (pcs s) i = Some p /\ nth_error reqs i <> None
                          /\ negb dry && called p = true);
  pi_live : forall sel, issued_live reqs sel s = tsum (w_of dry sel live) reqs (pcs s)
}.

Lemma in_set_nth {A} i (v : A) l x : In x (set_nth i v l) -> x = v \/ In x l.
Proof.
  revert i; induction l as [|y l IH]; intros [|i]; cbn; auto.
  - intros [H|H]; auto.
  - intros [H|H]; auto. destruct (IH i H); auto.
Qed.

Lemma pc_of_nth s i p : nth_error (pcs s) i = Some p -> pc_of s i = p.
Proof. unfold pc_of. intro H. apply nth_error_nth. exact H. Qed.

Lemma pe_inv_eqv dry c reqs a b : est_eqv a b -> pe_inv dry c reqs b -> pe_inv dry c reqs a.
Proof.
  intros [Hn [Hs [Ht [Hp Hc]]]] [I1 I2 I3 I4 I5 I6 I7 I8 I9].
  assert (Hl : forall sel, issued_live reqs sel a = issued_live reqs sel b).
  { intro sel. unfold issued_live, pc_of. rewrite Hp, Hc. reflexivity. }
  constructor; intros; rewrite ?Hn, ?Hs, ?Ht, ?Hp, ?Hc, ?Hl in *; eauto.
Qed.

Lemma pe_inv_init dry c reqs n :
  (forall m, cap_node c = Some m -> 0 <= m) -> (forall m, cap_ns c = Some m -> 0 <= m) ->
  pe_inv dry c reqs (init_est n).
Proof.
  intros Hc1 Hc2.
  assert (Hz : forall sel f, f PStart = false -> tsum (w_of dry sel f) reqs (repeat PStart n) = 0).
  { intros sel f Hf. apply tsum_repeat_zero. intro r. unfold w_of. rewrite Hf.
    rewrite andb_false_r. reflexivity. }
  constructor; cbn [init_est cn cs ct pcs calls]; intros; rewrite ?Hz by reflexivity; auto; try lia.
  - apply repeat_spec in H0. subst. reflexivity.
  - constructor.
  - split; [intros []|]. intros [p [Hp [_ Hcall]]].
    apply nth_error_In, repeat_spec in Hp. subst. rewrite andb_false_r in Hcall. discriminate.
Qed.

Lemma pe_inv_step dry c reqs s i :
  pe_inv dry c reqs s -> pe_inv dry c reqs (pe_step dry c reqs s i).
Proof.
  intro I. destruct (pe_step_shape dry c reqs s i) as [->|[p [r [d [call [p' [Hp [Hr [Htr Heq]]]]]]]]];
    [exact I|].
  eapply pe_inv_eqv; [exact Heq|]. clear Heq.
  destruct I as [I1 I2 I3 I4 I5 I6 I7 I8 I9].
  (* the change of every weighted sum *)
  assert (Hsum : forall sel f,
            tsum (w_of dry sel f) reqs (pcs (apply_tr s i r d call p'))
            = tsum (w_of dry sel f) reqs (pcs s) - w_of dry sel f r p + w_of dry sel f r p').
  { intros. rewrite pcs_apply_tr. apply tsum_set_nth; assumption. }
  (* in dry-run no thread is in flight, so only the Start transitions occur *)
  assert (Hdry : dry = true -> in_flight p = false).
  { intro Hd. apply (I6 Hd). eapply nth_error_In; eassumption. }
  (* held changes exactly by d *)
  assert (Hheld : forall sel, w_of dry sel held r p' - w_of dry sel held r p
                               = if sel r then d else 0).
  { intro sel. unfold w_of. destruct Htr; cbn [held]; destruct dry; cbn [negb andb];
      try discriminate; try (specialize (Hdry eq_refl); discriminate);
      destruct (sel r); cbn; lia. }
  constructor.
  - (* cap per node *)
    intros m k Hc Hm. rewrite cn_apply_tr. specialize (I1 m k Hc Hm).
    destruct ((r_node r =? k) && negb (k =? 0)) eqn:Ek; [|lia].
    apply andb_true_iff in Ek. destruct Ek as [Ek _]. apply Z.eqb_eq in Ek. subst k.
    destruct Htr; try lia.
    match goal with H : reached (cap_node c) _ = false |- _ => rewrite Hc in H; cbn in H;
      apply Z.leb_gt in H; lia end.
  - intros m k Hc Hm. rewrite cs_apply_tr. specialize (I2 m k Hc Hm).
    destruct (r_ns r =? k) eqn:Ek; [|lia]. apply Z.eqb_eq in Ek. subst k.
    destruct Htr; try lia.
    match goal with H : reached (cap_ns c) _ = false |- _ => rewrite Hc in H; cbn in H;
      apply Z.leb_gt in H; lia end.
  - intro k. rewrite cn_apply_tr, Hsum, I3. specialize (Hheld (node_sel k)).
    unfold node_sel in *. lia.
  - intro k. rewrite cs_apply_tr, Hsum, I4. specialize (Hheld (on_ns k)). unfold on_ns in *. lia.
  - rewrite ct_apply_tr, Hsum, I5. specialize (Hheld any_req). unfold any_req in *. lia.
  - intros Hd q Hq. rewrite pcs_apply_tr in Hq. apply in_set_nth in Hq. destruct Hq as [->|Hq]; [|eauto].
    specialize (Hdry Hd). destruct Htr; cbn in *; try reflexivity; try discriminate; congruence.
  - rewrite calls_apply_tr. destruct call; [|exact I7]. constructor; [|exact I7].
    intro Hin. apply I8 in Hin. destruct Hin as [q [Hq [_ Hc]]]. rewrite Hp in Hq. inversion Hq; subst q.
    inversion Htr; subst; rewrite andb_false_r in Hc; discriminate.
  - (* characterisation of the call log *)
    intro j. rewrite calls_apply_tr, pcs_apply_tr.
    destruct (Nat.eq_dec j i) as [->|Hne].
    + rewrite (nth_error_set_nth_same i p' p _ Hp).
      assert (Hold : In i (calls s) <-> negb dry && called p = true).
      { rewrite I8. split.
        - intros [q [Hq [_ Hc]]]. rewrite Hp in Hq. inversion Hq; subst; exact Hc.
        - intro Hc. exists p. split; [exact Hp|]. split; [congruence|exact Hc]. }
      split.
      * intro Hin. exists p'. split; [reflexivity|]. split; [congruence|].
        destruct call.
        -- inversion Htr; subst. destruct dry; [specialize (Hdry eq_refl); discriminate|reflexivity].
        -- apply Hold in Hin. inversion Htr; subst; cbn in *; auto; try discriminate;
           try (rewrite andb_false_r in Hin; discriminate).
      * intros [q [Hq [_ Hc]]]. inversion Hq; subst q.
        destruct call; [left; reflexivity|]. apply Hold.
        inversion Htr; subst; cbn in *; auto; try (rewrite andb_false_r in Hc; discriminate).
    + rewrite (nth_error_set_nth_other i j p' _ (not_eq_sym Hne)).
      destruct call; [|apply I8]. cbn [In]. rewrite I8. split; [intros [H|H]; [congruence|exact H]|auto].
  - (* issued and not failed *)
    intro sel. rewrite Hsum, <- I9. unfold issued_live. rewrite calls_apply_tr.
    set (g := fun j => match nth_error reqs j with
                       | Some r0 => sel r0 && live (pc_of s j) | None => false end).
    set (g' := fun j => match nth_error reqs j with
                        | Some r0 => sel r0 && live (pc_of (apply_tr s i r d call p') j)
                        | None => false end).
    assert (Hoth : forall j, j <> i -> g' j = g j).
    { intros j Hj. unfold g, g', pc_of. rewrite pcs_apply_tr.
      destruct (nth_error reqs j); [|reflexivity].
      rewrite (nth_set_nth_other i j p' (pcs s) PRefused) by congruence. reflexivity. }
    assert (Hgi : g i = sel r && live p).
    { unfold g. rewrite Hr, (pc_of_nth s i p Hp). reflexivity. }
    assert (Hg'i : g' i = sel r && live p').
    { unfold g'. rewrite Hr. unfold pc_of. rewrite pcs_apply_tr.
      rewrite (nth_error_nth _ _ _ (nth_error_set_nth_same i p' p _ Hp)). reflexivity. }
    assert (Hin : In i (calls s) <-> negb dry && called p = true).
    { rewrite I8. split.
      - intros [q [Hq [_ Hc]]]. rewrite Hp in Hq. inversion Hq; subst; exact Hc.
      - intro Hc. exists p. split; [exact Hp|]. split; [congruence|exact Hc]. }
    unfold w_of.
    destruct call.
    + (* the API call is received now: i was not in the log *)
      inversion Htr; subst.
      assert (Hni : ~ In i (calls s)).
      { rewrite Hin. rewrite andb_false_r. discriminate. }
      rewrite cnt_cons, (cnt_ext_notin g g' i _ Hni Hoth), Hg'i. cbn [live held].
      destruct dry; [specialize (Hdry eq_refl); discriminate|]. cbn [negb andb].
      rewrite andb_false_r, andb_true_r. destruct (sel r); lia.
    + destruct (negb dry && called p) eqn:Ec.
      * rewrite (cnt_change g g' i _ I7 (proj2 Hin eq_refl) Hoth), Hgi, Hg'i.
        apply andb_true_iff in Ec. destruct Ec as [Ed _]. rewrite Ed. cbn [andb].
        destruct (sel r), (live p), (live p'); cbn; lia.
      * assert (Hni : ~ In i (calls s)) by (rewrite Hin; discriminate).
        rewrite (cnt_ext_notin g g' i _ Hni Hoth).
        destruct dry eqn:Ed; cbn [negb andb] in *; [lia|].
        inversion Htr; subst; cbn [live called] in *; try discriminate;
          rewrite ?andb_false_r; lia.
Qed.

Lemma pe_inv_exec dry c reqs sched s :
  pe_inv dry c reqs s -> pe_inv dry c reqs (exec (pe_step dry c reqs) s sched).
Proof.
  unfold exec. revert s. induction sched as [|i t IH]; intros s I; cbn [fold_left]; [exact I|].
  apply IH, pe_inv_step, I.
Qed.

Definition caps_nonneg (c : caps) : Prop :=
  (forall m, cap_node c = Some m -> 0 <= m) /\ (forall m, cap_ns c = Some m -> 0 <= m)
  /\ (forall m, cap_total c = Some m -> 0 <= m).

Lemma live_le_held dry sel reqs ps :
  tsum (w_of dry sel live) reqs ps <= tsum (w_of dry sel held) reqs ps.
Proof.
  apply tsum_le. intros r p. unfold w_of. destruct (negb dry && sel r); cbn; [|lia].
  destruct p; cbn; lia.
Qed.

(* the central statement, for every schedule *)
Theorem pe_conc_caps_all dry c reqs sched :
  caps_nonneg c ->
  let s := exec (pe_step dry c reqs) (init_est (length reqs)) sched in
  (forall m k, cap_node c = Some m -> k <> 0 -> issued_live reqs (on_node k) s <= m)
  /\ (forall m k, cap_ns c = Some m -> issued_live reqs (on_ns k) s <= m).
Proof.
  intros [Hc1 [Hc2 _]] s.
  assert (I : pe_inv dry c reqs s) by (apply pe_inv_exec, pe_inv_init; assumption).
  destruct I as [I1 I2 I3 I4 I5 I6 I7 I8 I9]. split.
  - intros m k Hc Hk. specialize (I1 m k Hc (Hc1 m Hc)). rewrite I3 in I1.
    rewrite I9. eapply Z.le_trans; [apply live_le_held|].
    erewrite tsum_ext; [exact I1|]. intros r p _. unfold w_of, node_sel, on_node.
    replace (k =? 0) with false by (symmetry; apply Z.eqb_neq, Hk). rewrite andb_true_r. reflexivity.
  - intros m k Hc. specialize (I2 m k Hc (Hc2 m Hc)). rewrite I4 in I2.
    rewrite I9. eapply Z.le_trans; [apply live_le_held|exact I2].
Qed.

(* the counters account exactly for the slots held; once nothing is between reserve and the API
   call or between a failed call and unreserve, they equal the evictions issued and not failed *)
Definition settled (s : est) : Prop :=
  forall p, In p (pcs s) -> p <> PAdmitted /\ p <> PPost.

Theorem pe_counters_exact dry c reqs sched :
  caps_nonneg c ->
  let s := exec (pe_step dry c reqs) (init_est (length reqs)) sched in
  settled s ->
  (forall k, k <> 0 -> cn s k = issued_live reqs (on_node k) s) /\ cn s 0 = 0
  /\ (forall k, cs s k = issued_live reqs (on_ns k) s)
  /\ ct s = issued_live reqs any_req s.
Proof.
  intros [Hc1 [Hc2 _]] s Hset.
  assert (I : pe_inv dry c reqs s) by (apply pe_inv_exec, pe_inv_init; assumption).
  destruct I as [I1 I2 I3 I4 I5 I6 I7 I8 I9].
  assert (Heq : forall sel sel', (forall r, sel r = sel' r) ->
            tsum (w_of dry sel held) reqs (pcs s) = tsum (w_of dry sel' live) reqs (pcs s)).
  { intros sel sel' Hs. apply tsum_ext. intros r p Hp. unfold w_of. rewrite Hs.
    destruct (Hset p Hp) as [H1 H2]. destruct p; try reflexivity; congruence. }
  repeat split.
  - intros k Hk. rewrite I3, I9. apply Heq. intro r. unfold node_sel, on_node.
    replace (k =? 0) with false by (symmetry; apply Z.eqb_neq, Hk). apply andb_true_r.
  - rewrite I3. unfold tsum. apply sumZ_map_zero. intros [r p] _. unfold w_of, node_sel. cbn.
    rewrite !andb_false_r. reflexivity.
  - intro k. rewrite I4, I9. apply Heq. reflexivity.
  - rewrite I5, I9. apply Heq. reflexivity.
Qed.

(* dry-run sends nothing *)
Theorem pe_dry_no_call c reqs sched :
  caps_nonneg c ->
  calls (exec (pe_step true c reqs) (init_est (length reqs)) sched) = [].
Proof.
  intros [Hc1 [Hc2 _]].
  assert (I : pe_inv true c reqs (exec (pe_step true c reqs) (init_est (length reqs)) sched))
    by (apply pe_inv_exec, pe_inv_init; assumption).
  destruct (calls _) as [|i l] eqn:E; [reflexivity|].
  assert (Hin : In i (calls (exec (pe_step true c reqs) (init_est (length reqs)) sched)))
    by (rewrite E; left; reflexivity).
  apply (pi_calls _ _ _ _ I) in Hin. destruct Hin as [p [_ [_ H]]]. discriminate.
Qed.

(* a refused eviction changes nothing but the caller's own program counter *)
Theorem pe_refusal_frame dry c reqs s i :
  pc_of s i = PStart -> pc_of (pe_step dry c reqs s i) i = PRefused ->
  let s' := pe_step dry c reqs s i in
  cn s' = cn s /\ cs s' = cs s /\ ct s' = ct s /\ calls s' = calls s
  /\ forall j, j <> i -> pc_of s' j = pc_of s j.
Proof.
  unfold pe_step, pc_of. intros Hs.
  destruct (nth_error (pcs s) i) as [p|] eqn:Ep; [|intros; cbn; auto].
  rewrite (nth_error_nth _ _ PRefused Ep) in Hs. subst p.
  destruct (nth_error reqs i) as [r|] eqn:Er; [|intros; cbn; auto].
  assert (Hoth : forall p' j, j <> i -> nth j (set_nth i p' (pcs s)) PRefused = nth j (pcs s) PRefused).
  { intros p' j Hj. generalize (pcs s) as l. clear - Hj. intro l. revert i j Hj.
    induction l as [|x l IH]; intros [|i] [|j] Hj; cbn; auto; try congruence. }
  destruct (reached (cap_node c) (cn s (r_node r))); [cbn; auto 6|].
  destruct (reached (cap_ns c) (cs s (r_ns r))); [cbn; auto 6|].
  destruct dry; cbn; intro H; rewrite (nth_error_nth _ _ PRefused (nth_error_set_nth_same i _ _ _ Ep)) in H;
    discriminate.
Qed.
