(* C16 — proofs about the eviction-cap model (PodEvictor and proxy/limiter). *)
From Coq Require Import List ZArith Bool Lia.
From Verif Require Import Lib.ListX C16.Model C16.Spec.
Import ListNotations.
Open Scope Z_scope.

Lemma set_nth_length {A} i (v : A) l : length (set_nth i v l) = length l.
Proof. revert i; induction l as [|x l IH]; intros [|i]; cbn; auto. Qed.
