(* C16 — extraction entry points of the stream podevictor (tag 0); definitions in C16/WireEvict.v *)
From Coq Require Import List ZArith Bool.
From Verif Require Import C16.WireEvict.
Open Scope Z_scope.

Definition run_case : list Z -> list Z := run_case_for 0.
Definition prop_case : list Z -> list Z -> Z := prop_case_for 0.
Definition nontrivial_case : list Z -> bool := nontrivial_for 0.
Definition finding_sig : list Z -> list Z -> Z := finding_sig_for 0.

Require Extraction.
Require Import ExtrOcamlBasic.
Extraction "model.ml" run_case prop_case nontrivial_case finding_sig.
