(* C16 — flat-integer interface of the eviction-cap model (streams podevictor and limiter).
   input :  lim dry capNode capNs capTotal N M  T (node ns ok)*T  S tid*S      (cap -1 = unset)
   observable : per schedule step  api ret total  node-counters(0..N)  ns-counters(1..M) *)
From Coq Require Import List ZArith Bool.
From Verif Require Import Lib.Wire C16.Model C16.Spec.
Import ListNotations.
Open Scope Z_scope.

Definition dec_cap (z : Z) : option Z := if z <? 0 then None else Some z.

Definition dec_req (l : list Z) : req * list Z :=
  match l with
  | a :: b :: c :: t => (mkReq a b (zb c), t)
  | _ => (mkReq 0 0 false, [])
  end.

Definition decode (inp : list Z) : ecase :=
  match inp with
  | lim :: dry :: cn :: cs :: ctot :: n :: m :: t =>
      let '(reqs, r) := decode_seq dec_req t in
      let '(sched, _) := take_list r in
      mkEC (zb lim) (zb dry) (mkCaps (dec_cap cn) (dec_cap cs) (dec_cap ctot))
           (Z.to_nat n) (Z.to_nat m) reqs (map Z.to_nat sched)
  | _ => mkEC false false (mkCaps None None None) O O [] []
  end.

Definition flat_rec (o : srec) : list Z :=
  bz (o_api o) :: o_ret o :: o_ct o :: o_cn o ++ o_cs o.

Definition run_case (inp : list Z) : list Z := flat_map flat_rec (model_trace (decode inp)).

(* cut the observable into one record per schedule step *)
Fixpoint dec_obs (N M : nat) (sched : list nat) (obs : list Z) : list srec :=
  match sched with
  | [] => match obs with [] => [] | _ => [mkS O false 0 0 [] []] end   (* trailing garbage: wrong length *)
  | i :: t =>
      match obs with
      | a :: r :: c :: rest =>
          if Nat.leb (S N + M) (length rest) then
            mkS i (zb a) r c (firstn (S N) rest) (firstn M (skipn (S N) rest))
            :: dec_obs N M t (skipn (S N + M) rest)
          else []
      | _ => []
      end
  end.

Definition prop_case (inp obs : list Z) : Z :=
  let e := decode inp in
  evict_code e (dec_obs (e_N e) (e_M e) (e_sched e) obs).

(* non-trivial: the caps bite (some eviction is refused) and some eviction is granted *)
Definition nontrivial_case (inp : list Z) : bool :=
  let tr := model_trace (decode inp) in
  existsb (fun o => (o_ret o =? 1) && negb (o_api o)) tr && existsb (fun o => o_ret o =? 2) tr
  && Nat.ltb 1 (length (e_reqs (decode inp))).

(* known finding 1 (limiter stream): the caps are exceeded exactly as the faithful model of
   the two separate critical sections AllowEvict / Done predicts for this schedule *)
Definition finding_sig (inp obs : list Z) : Z :=
  if e_lim (decode inp) && (prop_case inp obs =? 1) && eq_listZ (run_case inp) obs then 1 else 0.

Require Extraction.
Require Import ExtrOcamlBasic.
Extraction "model.ml" run_case prop_case nontrivial_case finding_sig.
