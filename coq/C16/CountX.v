(* C16 — generic facts about [countb] (number of list elements satisfying a boolean predicate). *)
From Coq Require Import List ZArith Bool Lia.
From Verif Require Import C16.ModelArb.
Import ListNotations.
Open Scope Z_scope.

Lemma countb_nil {A} (f : A -> bool) : countb f [] = 0.
Proof. reflexivity. Qed.

Lemma countb_cons {A} (f : A -> bool) x l :
  countb f (x :: l) = (if f x then 1 else 0) + countb f l.
Proof.
  unfold countb. cbn [filter]. destruct (f x); cbn [length]; lia.
Qed.

Lemma countb_nonneg {A} (f : A -> bool) l : 0 <= countb f l.
Proof. unfold countb. lia. Qed.

Lemma countb_le {A} (f g : A -> bool) l :
  (forall x, In x l -> f x = true -> g x = true) -> countb f l <= countb g l.
Proof.
  induction l as [|x l IH]; intro H; [reflexivity|].
  rewrite !countb_cons.
  assert (IH' : countb f l <= countb g l) by (apply IH; intros; apply H; cbn; auto).
  destruct (f x) eqn:Ef.
  - rewrite (H x) by (cbn; auto). lia.
  - destruct (g x); lia.
Qed.

Lemma countb_ext {A} (f g : A -> bool) l :
  (forall x, In x l -> f x = g x) -> countb f l = countb g l.
Proof.
  intro H. apply Z.le_antisymm; apply countb_le; intros x Hx; rewrite (H x Hx); auto.
Qed.

(* f implies g or h *)
Lemma countb_or_le {A} (f g h : A -> bool) l :
  (forall x, In x l -> f x = true -> g x = true \/ h x = true) ->
  countb f l <= countb g l + countb h l.
Proof.
  induction l as [|x l IH]; intro H; [cbn; lia|].
  rewrite !countb_cons.
  assert (IH' : countb f l <= countb g l + countb h l) by (apply IH; intros; apply H; cbn; auto).
  destruct (f x) eqn:Ef.
  - destruct (H x (or_introl eq_refl) Ef) as [E|E]; rewrite E; destruct (g x), (h x); lia.
  - destruct (g x), (h x); lia.
Qed.

Lemma countb_disjoint_or {A} (f g : A -> bool) l :
  (forall x, In x l -> f x = true -> g x = true -> False) ->
  countb (fun x => f x || g x) l = countb f l + countb g l.
Proof.
  induction l as [|x l IH]; intro H; [reflexivity|].
  rewrite !countb_cons, IH by (intros; eapply H; cbn; eauto).
  destruct (f x) eqn:Ef, (g x) eqn:Eg; cbn [orb]; try lia.
  exfalso. eapply (H x); cbn; auto.
Qed.

Lemma countb_existsb {A} (f : A -> bool) l : existsb f l = true -> 1 <= countb f l.
Proof.
  induction l as [|x l IH]; cbn [existsb]; intro H; [discriminate|].
  rewrite countb_cons. pose proof (countb_nonneg f l).
  destruct (f x); [lia|]. cbn in H. specialize (IH H). lia.
Qed.

Lemma countb_false {A} (f : A -> bool) l :
  (forall x, In x l -> f x = false) -> countb f l = 0.
Proof.
  induction l as [|x l IH]; intro H; [reflexivity|].
  rewrite countb_cons, IH, (H x) by (intros; try apply H; cbn; auto). reflexivity.
Qed.

(* at most one element carries a given key when keys are distinct *)
Lemma countb_key_le1 {A} (key : A -> Z) (k : Z) l :
  NoDup (map key l) -> countb (fun x => key x =? k) l <= 1.
Proof.
  induction l as [|x l IH]; intro H; [cbn; lia|].
  cbn [map] in H. inversion H as [|? ? Hnin Hnd]; subst.
  rewrite countb_cons. specialize (IH Hnd).
  destruct (key x =? k) eqn:E; [|lia].
  apply Z.eqb_eq in E.
  rewrite countb_false; [lia|].
  intros y Hy. apply Z.eqb_neq. intro Hk. apply Hnin. rewrite E, <- Hk. apply in_map, Hy.
Qed.

Lemma NoDup_key_inj {A} (key : A -> Z) l a b :
  NoDup (map key l) -> In a l -> In b l -> key a = key b -> a = b.
Proof.
  induction l as [|x l IH]; intros Hnd Ha Hb Hk; [destruct Ha|].
  cbn [map] in Hnd. inversion Hnd as [|? ? Hnin Hnd']; subst.
  destruct Ha as [->|Ha], Hb as [->|Hb]; auto.
  - exfalso. apply Hnin. rewrite Hk. apply in_map, Hb.
  - exfalso. apply Hnin. rewrite <- Hk. apply in_map, Ha.
Qed.

Lemma find_key_in {A} (key : A -> Z) l v :
  NoDup (map key l) -> In v l -> find (fun x => key x =? key v) l = Some v.
Proof.
  induction l as [|x l IH]; intros Hnd Hin; [destruct Hin|].
  cbn [map] in Hnd. inversion Hnd as [|? ? Hnin Hnd']; subst.
  cbn [find]. destruct Hin as [->|Hin].
  - rewrite Z.eqb_refl. reflexivity.
  - destruct (key x =? key v) eqn:E.
    + apply Z.eqb_eq in E. exfalso. apply Hnin. rewrite E. apply in_map, Hin.
    + apply IH; assumption.
Qed.

Lemma find_some_key {A} (key : A -> Z) k l v :
  find (fun x => key x =? k) l = Some v -> In v l /\ key v = k.
Proof.
  intro H. apply find_some in H. destruct H as [Hin E]. apply Z.eqb_eq in E. auto.
Qed.

(* ---- the injection: distinct pods that each have a job of some kind need at least as many jobs ---- *)
Section Inject.
  Context {P J : Type} (pkey : P -> Z) (jkey : J -> Z).

  Lemma count_inject (q : P -> bool) (r : J -> bool) (ps : list P) (js : list J) :
    NoDup (map pkey ps) ->
    countb (fun v => q v && existsb (fun j => r j && (jkey j =? pkey v)) js) ps
    <= countb (fun j => r j && existsb (fun v => q v && (jkey j =? pkey v)) ps) js.
  Proof.
    induction ps as [|v vs IH]; intro Hnd.
    - rewrite countb_nil. apply countb_nonneg.
    - cbn [map] in Hnd. inversion Hnd as [|? ? Hnin Hnd']; subst.
      rewrite countb_cons. specialize (IH Hnd').
      set (A := fun j => r j && (q v && (jkey j =? pkey v))).
      set (B := fun j => r j && existsb (fun v' => q v' && (jkey j =? pkey v')) vs).
      assert (Hsplit : countb (fun j => r j && existsb (fun v' => q v' && (jkey j =? pkey v')) (v :: vs)) js
                       = countb A js + countb B js).
      { rewrite <- countb_disjoint_or.
        - apply countb_ext. intros j _. unfold A, B. cbn [existsb].
          destruct (r j); cbn; reflexivity.
        - intros j _ HA HB. unfold A, B in *.
          apply andb_true_iff in HA. destruct HA as [_ HA]. apply andb_true_iff in HA.
          destruct HA as [_ HA]. apply Z.eqb_eq in HA.
          apply andb_true_iff in HB. destruct HB as [_ HB]. apply existsb_exists in HB.
          destruct HB as [v' [Hv' HB]]. apply andb_true_iff in HB. destruct HB as [_ HB].
          apply Z.eqb_eq in HB. apply Hnin. rewrite <- HA, HB. apply in_map, Hv'. }
      rewrite Hsplit. fold B in IH.
      destruct (q v && existsb (fun j => r j && (jkey j =? pkey v)) js) eqn:E.
      + apply andb_true_iff in E. destruct E as [Eq Ex].
        assert (1 <= countb A js).
        { apply countb_existsb. apply existsb_exists. apply existsb_exists in Ex.
          destruct Ex as [j [Hj Ej]]. exists j. split; [exact Hj|].
          unfold A. apply andb_true_iff in Ej. destruct Ej as [-> ->]. rewrite Eq. reflexivity. }
        lia.
      + pose proof (countb_nonneg A js). lia.
  Qed.
End Inject.
