(* C16 (arbitration) — proofs: budgets are kept by every job of a round, hence by every round,
   for every processing order; refused jobs keep waiting; no second job for a pod. *)
From Coq Require Import List ZArith Bool Lia.
From Verif Require Import C16.ModelArb C16.SpecArb C16.CountX.
Import ListNotations.
Open Scope Z_scope.

(* ------------------------------------------------------------------ *)
(* what one job of a round can do to the state                          *)
(* ------------------------------------------------------------------ *)
Inductive outcome (c : cfg) (f : Z) (st : ast) (jid : Z) : ast -> Prop :=
| oc_same : outcome c f st jid st
| oc_pass : forall j,
    find_job st jid = Some j -> j_waiting j = true ->
    j_api j = true -> j_stale j = false -> jid <> f ->
    match pod_of st j with
    | None => True
    | Some p => nonretryable c st p = true /\ retryable c true st p = true
    end ->
    outcome c f st jid (set_job st (mark_passed j))
| oc_fail : forall j p w,
    find_job st jid = Some j -> j_waiting j = true ->
    pod_of st j = Some p -> nonretryable c st p = false ->
    outcome c f st jid (set_job st (mark_failed w j)).

Lemma arbitrate_one_outcome c f st jid : outcome c f st jid (arbitrate_one c f st jid).
Proof.
  unfold arbitrate_one.
  destruct (find_job st jid) as [j|] eqn:Ej; [|constructor].
  destruct (j_waiting j) eqn:Ew; cbn [negb]; [|constructor].
  cbv zeta.
  destruct (pod_of st j) as [p|] eqn:Ep.
  - destruct (nonretryable c st p) eqn:En; cbn [negb].
    + destruct (retryable c true st p) eqn:Er; cbn [negb]; [|constructor].
      destruct (j_api j) eqn:Ea; cbn [andb]; [|constructor].
      destruct (j_stale j) eqn:Es; cbn [negb andb]; [constructor|].
      destruct (jid =? f) eqn:Ef; cbn [negb]; [constructor|].
      apply Z.eqb_neq in Ef. eapply oc_pass; eauto. rewrite Ep. auto.
    + eapply oc_fail; eauto.
  - destruct (j_api j) eqn:Ea; cbn [andb]; [|constructor].
    destruct (j_stale j) eqn:Es; cbn [negb andb]; [constructor|].
    destruct (jid =? f) eqn:Ef; cbn [negb]; [constructor|].
    apply Z.eqb_neq in Ef. eapply oc_pass; eauto. rewrite Ep. auto.
Qed.

Lemma arbitrate_one_pods c f st jid : a_pods (arbitrate_one c f st jid) = a_pods st.
Proof. destruct (arbitrate_one_outcome c f st jid); reflexivity. Qed.
Lemma arbitrate_one_wls c f st jid : a_wls (arbitrate_one c f st jid) = a_wls st.
Proof. destruct (arbitrate_one_outcome c f st jid); reflexivity. Qed.

Lemma round_on_pods c f order st : a_pods (round_on c f order st) = a_pods st.
Proof.
  unfold round_on. revert st. induction order as [|x t IH]; intro st; [reflexivity|].
  cbn [fold_left]. rewrite IH. apply arbitrate_one_pods.
Qed.
Lemma round_on_wls c f order st : a_wls (round_on c f order st) = a_wls st.
Proof.
  unfold round_on. revert st. induction order as [|x t IH]; intro st; [reflexivity|].
  cbn [fold_left]. rewrite IH. apply arbitrate_one_wls.
Qed.

(* ------------------------------------------------------------------ *)
(* live jobs of a pod after an update of one job                        *)
(* ------------------------------------------------------------------ *)
Lemma find_job_in st jid j : find_job st jid = Some j -> In j (a_jobs st) /\ j_id j = jid.
Proof. apply find_some_key. Qed.

Lemma has_job_set_job arb st j' v :
  has_job arb (set_job st j') v = true ->
  has_job arb st v = true \/ (avail arb j' = true /\ j_pod j' = p_id v).
Proof.
  unfold has_job, set_job. cbn [a_jobs]. intro H.
  apply existsb_exists in H. destruct H as [x [Hx Hav]].
  apply in_map_iff in Hx. destruct Hx as [x0 [Hx0 Hin]].
  apply andb_true_iff in Hav. destruct Hav as [Hav Hp]. apply Z.eqb_eq in Hp.
  destruct (j_id x0 =? j_id j').
  - subst x. right. auto.
  - subst x. left. apply existsb_exists. exists x0. split; [exact Hin|].
    rewrite Hav. cbn. apply Z.eqb_eq, Hp.
Qed.

Lemma avail_mark_failed arb w j : avail arb (mark_failed w j) = true -> avail arb j = true.
Proof.
  unfold avail, mark_failed. cbn. destruct w; [|auto].
  destruct (j_api j); cbn; [discriminate|auto].
Qed.

Lemma has_job_fail arb st jid j w v :
  find_job st jid = Some j ->
  has_job arb (set_job st (mark_failed w j)) v = true -> has_job arb st v = true.
Proof.
  intros Hf H. apply has_job_set_job in H. destruct H as [H|[Hav Hp]]; [exact H|].
  apply avail_mark_failed in Hav. cbn in Hp.
  apply find_job_in in Hf. destruct Hf as [Hin _].
  unfold has_job. apply existsb_exists. exists j. split; [exact Hin|].
  rewrite Hav. cbn. apply Z.eqb_eq, Hp.
Qed.

Lemma has_job_pass arb st j v :
  has_job arb (set_job st (mark_passed j)) v = true ->
  has_job arb st v = true \/ j_pod j = p_id v.
Proof.
  intro H. apply has_job_set_job in H. destruct H as [H|[_ Hp]]; [left; exact H|right; exact Hp].
Qed.

(* ------------------------------------------------------------------ *)
(* pods                                                                 *)
(* ------------------------------------------------------------------ *)
Lemma find_pod_in st v : wf_pods st -> In v (a_pods st) -> find_pod st (p_id v) = Some v.
Proof. intros [Hnd _] Hin. unfold find_pod. apply (find_key_in p_id); assumption. Qed.

Lemma pod_of_some st j p :
  pod_of st j = Some p -> In p (a_pods st) /\ p_id p = j_pod j /\ p_exists p = true.
Proof.
  unfold pod_of. destruct (find_pod st (j_pod j)) as [q|] eqn:E; [|discriminate].
  destruct (p_exists q) eqn:Ex; [|discriminate]. intro H. inversion H; subst q.
  apply (find_some_key p_id) in E. tauto.
Qed.

Lemma pod_of_none st j v :
  wf_pods st -> pod_of st j = None -> In v (a_pods st) -> p_id v = j_pod j -> p_exists v = false.
Proof.
  intros Hwf H Hin Hid. unfold pod_of in H. rewrite <- Hid, (find_pod_in st v Hwf Hin) in H.
  destruct (p_exists v); [discriminate|reflexivity].
Qed.

(* the measure over the other pods *)
Definition mo (st : ast) (sel : pod -> bool) (p : pod) : Z :=
  countb (fun v => sel v && migrating st v && negb (p_id v =? p_id p)) (a_pods st).
Definition uo (st : ast) (sel : pod -> bool) (p : pod) : Z :=
  countb (fun v => sel v && p_exists v
                   && (negb (p_avail v) || (has_job true st v && negb (p_id v =? p_id p))))
         (a_pods st).

Lemma mo_le st sel p : mo st sel p <= measure st sel.
Proof.
  apply countb_le. intros v _ H. apply andb_true_iff in H. tauto.
Qed.
Lemma uo_le st sel p : uo st sel p <= unavail st sel.
Proof.
  apply countb_le. intros v _ H.
  apply andb_true_iff in H. destruct H as [H1 H2]. rewrite H1. cbn.
  apply orb_true_iff in H2. apply orb_true_iff. destruct H2 as [H2|H2]; [auto|].
  apply andb_true_iff in H2. tauto.
Qed.

Lemma count_self st sel p :
  wf_pods st -> In p (a_pods st) ->
  countb (fun v => sel v && (p_id v =? p_id p)) (a_pods st) <= (if sel p then 1 else 0).
Proof.
  intros [Hnd _] Hin. destruct (sel p) eqn:Es.
  - eapply Z.le_trans; [|apply (countb_key_le1 p_id (p_id p)), Hnd].
    apply countb_le. intros v _ H. apply andb_true_iff in H. tauto.
  - rewrite countb_false; [lia|]. intros v Hv.
    destruct (p_id v =? p_id p) eqn:E; [|apply andb_false_r].
    apply Z.eqb_eq in E. rewrite (NoDup_key_inj p_id _ v p Hnd Hv Hin E), Es. reflexivity.
Qed.

(* ---- effect of the three outcomes on the measures ---- *)
Lemma measure_pass_some st j p sel :
  wf_pods st -> pod_of st j = Some p ->
  measure (set_job st (mark_passed j)) sel <= mo st sel p + (if sel p then 1 else 0).
Proof.
  intros Hwf Hp. destruct (pod_of_some _ _ _ Hp) as [Hin [Hid Hex]].
  eapply Z.le_trans; [|apply Z.add_le_mono_l, (count_self st sel p Hwf Hin)].
  unfold measure, mo. cbn [a_pods set_job].
  apply countb_or_le. intros v Hv H.
  apply andb_true_iff in H. destruct H as [Hs Hm].
  destruct (p_id v =? p_id p) eqn:E; [right; rewrite Hs; reflexivity|left].
  rewrite Hs. cbn [andb]. rewrite andb_true_r.
  unfold migrating in *. apply andb_true_iff in Hm. destruct Hm as [He Hj]. rewrite He. cbn [andb].
  apply has_job_pass in Hj. destruct Hj as [Hj|Hj]; [exact Hj|].
  apply Z.eqb_neq in E. congruence.
Qed.

Lemma measure_pass_none st j sel :
  wf_pods st -> pod_of st j = None ->
  measure (set_job st (mark_passed j)) sel <= measure st sel.
Proof.
  intros Hwf Hp. unfold measure. cbn [a_pods set_job].
  apply countb_le. intros v Hv H.
  apply andb_true_iff in H. destruct H as [Hs Hm]. rewrite Hs. cbn [andb].
  unfold migrating in *. apply andb_true_iff in Hm. destruct Hm as [He Hj]. rewrite He. cbn [andb].
  apply has_job_pass in Hj. destruct Hj as [Hj|Hj]; [exact Hj|].
  rewrite (pod_of_none st j v Hwf Hp Hv (eq_sym Hj)) in He. discriminate.
Qed.

Lemma measure_fail st jid j w sel :
  find_job st jid = Some j ->
  measure (set_job st (mark_failed w j)) sel <= measure st sel.
Proof.
  intros Hf. unfold measure. cbn [a_pods set_job].
  apply countb_le. intros v Hv H.
  apply andb_true_iff in H. destruct H as [Hs Hm]. rewrite Hs. cbn [andb].
  unfold migrating in *. apply andb_true_iff in Hm. destruct Hm as [He Hj]. rewrite He. cbn [andb].
  eapply has_job_fail; eassumption.
Qed.

Lemma unavail_pass_some st j p sel :
  wf_pods st -> pod_of st j = Some p ->
  unavail (set_job st (mark_passed j)) sel <= uo st sel p + (if sel p then 1 else 0).
Proof.
  intros Hwf Hp. destruct (pod_of_some _ _ _ Hp) as [Hin [Hid Hex]].
  eapply Z.le_trans; [|apply Z.add_le_mono_l, (count_self st sel p Hwf Hin)].
  unfold unavail, uo. cbn [a_pods set_job].
  apply countb_or_le. intros v Hv H.
  apply andb_true_iff in H. destruct H as [Hs Hm].
  apply andb_true_iff in Hs. destruct Hs as [Hs He].
  destruct (p_id v =? p_id p) eqn:E; [right; rewrite Hs; reflexivity|left].
  rewrite Hs, He. cbn [andb negb]. rewrite andb_true_r.
  apply orb_true_iff in Hm. apply orb_true_iff. destruct Hm as [Hm|Hm]; [left; exact Hm|right].
  apply has_job_pass in Hm. destruct Hm as [Hj|Hj]; [exact Hj|].
  apply Z.eqb_neq in E. congruence.
Qed.

Lemma unavail_pass_none st j sel :
  wf_pods st -> pod_of st j = None ->
  unavail (set_job st (mark_passed j)) sel <= unavail st sel.
Proof.
  intros Hwf Hp. unfold unavail. cbn [a_pods set_job].
  apply countb_le. intros v Hv H.
  apply andb_true_iff in H. destruct H as [Hs Hm]. rewrite Hs. cbn [andb].
  apply andb_true_iff in Hs. destruct Hs as [Hs He].
  apply orb_true_iff in Hm. apply orb_true_iff. destruct Hm as [Hm|Hm]; [left; exact Hm|right].
  apply has_job_pass in Hm. destruct Hm as [Hj|Hj]; [exact Hj|].
  rewrite (pod_of_none st j v Hwf Hp Hv (eq_sym Hj)) in He. discriminate.
Qed.

Lemma unavail_fail st jid j w sel :
  find_job st jid = Some j ->
  unavail (set_job st (mark_failed w j)) sel <= unavail st sel.
Proof.
  intros Hf. unfold unavail. cbn [a_pods set_job].
  apply countb_le. intros v Hv H.
  apply andb_true_iff in H. destruct H as [Hs Hm]. rewrite Hs. cbn [andb].
  apply orb_true_iff in Hm. apply orb_true_iff. destruct Hm as [Hm|Hm]; [left; exact Hm|right].
  eapply has_job_fail; eassumption.
Qed.

(* ------------------------------------------------------------------ *)
(* what the filters count dominates the measure over the other pods     *)
(* ------------------------------------------------------------------ *)
Lemma dom_jobs st p (extra : pod -> bool) (jextra : job -> bool) :
  wf_pods st ->
  (forall j v, In v (a_pods st) -> j_pod j = p_id v -> extra v = true -> jextra j = true) ->
  mo st extra p <= countb (fun j => other_job true p j && jextra j) (a_jobs st).
Proof.
  intros Hwf Hext. destruct Hwf as [Hnd Hnz].
  pose (q := fun v : pod => extra v && p_exists v && negb (p_id v =? p_id p)).
  eapply Z.le_trans; [|eapply Z.le_trans;
    [apply (count_inject p_id j_pod q (avail true) (a_pods st) (a_jobs st) Hnd)|]].
  - unfold mo. apply countb_le. intros v _ H. unfold q, migrating, has_job in *.
    apply andb_true_iff in H. destruct H as [H Hne]. apply andb_true_iff in H. destruct H as [Hs H].
    apply andb_true_iff in H. destruct H as [He Hj]. rewrite Hs, He, Hne, Hj. reflexivity.
  - apply countb_le. intros j _ H. apply andb_true_iff in H. destruct H as [Hav Hex].
    apply existsb_exists in Hex. destruct Hex as [v [Hv Hq]].
    apply andb_true_iff in Hq. destruct Hq as [Hq Hid]. apply Z.eqb_eq in Hid.
    unfold q in Hq. apply andb_true_iff in Hq. destruct Hq as [Hq Hne].
    apply andb_true_iff in Hq. destruct Hq as [Hs He].
    unfold other_job. rewrite Hav, (Hext j v Hv Hid Hs). cbn [andb]. rewrite andb_true_r.
    rewrite Hid, Hne. rewrite andb_true_r. apply negb_true_iff, Z.eqb_neq. apply Hnz, Hv.
Qed.

Lemma dom_global st p : wf_pods st -> mo st sel_all p <= countb (other_job true p) (a_jobs st).
Proof.
  intro Hwf. eapply Z.le_trans; [apply (dom_jobs st p sel_all (fun _ => true) Hwf); auto|].
  apply countb_le. intros j _ H. apply andb_true_iff in H. tauto.
Qed.

Lemma dom_ns st p k :
  wf_pods st ->
  mo st (sel_ns k) p <= countb (fun j => other_job true p j && (jobpod_ns st j =? k)) (a_jobs st).
Proof.
  intro Hwf. apply (dom_jobs st p (sel_ns k) (fun j => jobpod_ns st j =? k) Hwf).
  intros j v Hv Hid Hs. unfold jobpod_ns. rewrite Hid, (find_pod_in st v Hwf Hv). exact Hs.
Qed.

Lemma mo_other_pod st sel p :
  mo st sel p = countb (fun v => other_pod true st p v && sel v) (a_pods st).
Proof.
  apply countb_ext. intros v _. unfold other_pod, migrating.
  destruct (sel v), (p_exists v), (has_job true st v), (p_id v =? p_id p); reflexivity.
Qed.

Lemma uo_filter st p :
  uo st (sel_wl (p_ns p) (p_wl p)) p
  = countb (fun v => p_exists v && same_wl p v && (negb (p_avail v) || other_pod true st p v))
           (a_pods st).
Proof.
  apply countb_ext. intros v _. unfold other_pod, same_wl, sel_wl.
  destruct ((p_ns v =? p_ns p) && (p_wl v =? p_wl p)), (p_exists v), (p_avail v),
    (has_job true st v), (p_id v =? p_id p); reflexivity.
Qed.

(* ------------------------------------------------------------------ *)
(* GetMaxUnavailable                                                    *)
(* ------------------------------------------------------------------ *)
Lemma get_max_le_replicas r x : get_max r x <= r.
Proof.
  unfold get_max. destruct x as [kind v].
  match goal with |- context [if r <? ?m then _ else _] => destruct (r <? m) eqn:E end;
    [lia|apply Z.ltb_ge in E; exact E].
Qed.

Lemma get_max_pos r x : 1 <= r -> 0 <= snd x -> 1 <= get_max r x.
Proof.
  intros Hr Hv. unfold get_max. destruct x as [kind v]. cbn [snd] in Hv.
  assert (Hs : 0 <= (if kind =? 1 then v else if kind =? 2 then v * r / 100 else 0)).
  { destruct (kind =? 1); [exact Hv|]. destruct (kind =? 2); [|lia].
    apply Z.div_pos; nia. }
  set (scaled := if kind =? 1 then v else if kind =? 2 then v * r / 100 else 0) in *.
  assert (Hm2 : 1 <= (if (if kind =? 0 then 0 else if scaled =? 0 then 1 else scaled) =? 0
                      then (if 10 <? r then 10 * r / 100 else if 4 <=? r then 2 else 1)
                      else (if kind =? 0 then 0 else if scaled =? 0 then 1 else scaled))).
  { destruct (kind =? 0).
    - cbn [Z.eqb]. destruct (10 <? r) eqn:E10.
      + apply Z.ltb_lt in E10. apply Z.div_le_lower_bound; lia.
      + destruct (4 <=? r); lia.
    - destruct (scaled =? 0) eqn:E0; [cbn; lia|].
      apply Z.eqb_neq in E0. replace (scaled =? 0) with false by (symmetry; apply Z.eqb_neq, E0).
      lia. }
  match goal with |- context [if r <? ?m then _ else _] => destruct (r <? m) eqn:E end; lia.
Qed.

(* ------------------------------------------------------------------ *)
(* the API view: a pending job has passed arbitration iff it is annotated *)
(* ------------------------------------------------------------------ *)
Definition vw (V : bool) (s : ast) : ast := if V then annot_view s else s.

Lemma annot_view_set_job st j' : annot_view (set_job st j') = set_job (annot_view st) (annot_job j').
Proof.
  unfold annot_view, set_job. cbn [a_pods a_wls a_jobs]. f_equal. rewrite !map_map.
  apply map_ext. intro x. cbn [annot_job j_id]. destruct (j_id x =? j_id j'); reflexivity.
Qed.

Lemma find_job_annot st jid j :
  find_job st jid = Some j -> find_job (annot_view st) jid = Some (annot_job j).
Proof.
  unfold find_job, annot_view. cbn [a_jobs]. induction (a_jobs st) as [|x l IH]; cbn [find map]; [discriminate|].
  cbn [annot_job j_id]. destruct (j_id x =? jid); [intro H; inversion H; reflexivity|exact IH].
Qed.

Lemma avail_annot_le j : avail true (annot_job j) = true -> avail true j = true.
Proof.
  unfold avail, annot_job. cbn. destruct (j_api j); cbn; [|auto].
  destruct (j_phase j =? 1); cbn; [auto|]. destruct (j_phase j =? 0); cbn; [|auto].
  destruct (j_passed j); cbn; [intros _; apply orb_true_r|discriminate].
Qed.

Lemma has_job_annot_le st v : has_job true (annot_view st) v = true -> has_job true st v = true.
Proof.
  unfold has_job, annot_view. cbn [a_jobs]. intro H. apply existsb_exists in H.
  destruct H as [x [Hx H]]. apply in_map_iff in Hx. destruct Hx as [y [<- Hy]].
  apply andb_true_iff in H. destruct H as [Ha Hp]. apply existsb_exists. exists y.
  split; [exact Hy|]. rewrite (avail_annot_le y Ha). exact Hp.
Qed.

Lemma mo_annot_le st sel p : mo (annot_view st) sel p <= mo st sel p.
Proof.
  unfold mo. cbn [annot_view a_pods]. apply countb_le. intros v _ H.
  apply andb_true_iff in H. destruct H as [H Hne]. apply andb_true_iff in H. destruct H as [Hs Hm].
  unfold migrating in *. apply andb_true_iff in Hm. destruct Hm as [He Hj].
  rewrite Hs, He, Hne, (has_job_annot_le st v Hj). reflexivity.
Qed.

Lemma uo_annot_le st sel p : uo (annot_view st) sel p <= uo st sel p.
Proof.
  unfold uo. cbn [annot_view a_pods]. apply countb_le. intros v _ H.
  apply andb_true_iff in H. destruct H as [Hs H]. rewrite Hs. cbn [andb].
  apply orb_true_iff in H. apply orb_true_iff. destruct H as [H|H]; [left; exact H|right].
  apply andb_true_iff in H. destruct H as [Hj Hne]. rewrite (has_job_annot_le st v Hj), Hne. reflexivity.
Qed.

(* ------------------------------------------------------------------ *)
(* one job of a round keeps every budget                                *)
(* ------------------------------------------------------------------ *)
Lemma within_refl L m : within L m m.
Proof. unfold within. lia. Qed.
Lemma within_le L m m' : m' <= m -> within L m m'.
Proof. unfold within. lia. Qed.
Lemma within_trans L a b c : within L a b -> within L b c -> within L a c.
Proof. unfold within. lia. Qed.

Section Step.
  Variables (c : cfg) (f : Z) (st : ast) (jid : Z).
  Hypothesis Hwf : wf_pods st.
  Hypothesis Hcfg : wf_cfg c.
  Let st' := arbitrate_one c f st jid.

  (* generic shape: a selection whose filter bounds the measure over the other pods *)
  Lemma step_measure sel L V :
    (forall p, In p (a_pods st) -> sel p = true ->
               nonretryable c st p = true -> retryable c true st p = true -> mo st sel p + 1 <= L) ->
    within L (measure (vw V st) sel) (measure (vw V st') sel).
  Proof.
    intro Hfilter. subst st'.
    destruct (arbitrate_one_outcome c f st jid) as [|j Hf Hw Ha Hs Hne Hp|j p w Hf Hw Hp Hn].
    - apply within_refl.
    - destruct (pod_of st j) as [p|] eqn:Ep.
      + destruct Hp as [Hn Hr]. destruct (pod_of_some _ _ _ Ep) as [Hin _].
        destruct V; cbn [vw].
        * rewrite annot_view_set_job.
          change (annot_job (mark_passed j)) with (mark_passed (annot_job j)).
          pose proof (measure_pass_some (annot_view st) (annot_job j) p sel Hwf Ep) as Hm.
          pose proof (mo_annot_le st sel p).
          destruct (sel p) eqn:Es.
          -- specialize (Hfilter p Hin Es Hn Hr). unfold within. lia.
          -- pose proof (mo_le (annot_view st) sel p). unfold within. lia.
        * pose proof (measure_pass_some st j p sel Hwf Ep) as Hm.
          destruct (sel p) eqn:Es.
          -- specialize (Hfilter p Hin Es Hn Hr). unfold within. lia.
          -- pose proof (mo_le st sel p). unfold within. lia.
      + destruct V; cbn [vw].
        * rewrite annot_view_set_job.
          change (annot_job (mark_passed j)) with (mark_passed (annot_job j)).
          apply within_le, (measure_pass_none (annot_view st) (annot_job j) sel Hwf Ep).
        * apply within_le, measure_pass_none; assumption.
    - destruct V; cbn [vw].
      + rewrite annot_view_set_job.
        change (annot_job (mark_failed w j)) with (mark_failed w (annot_job j)).
        apply within_le. eapply measure_fail. apply find_job_annot. eassumption.
      + apply within_le. eapply measure_fail; eassumption.
  Qed.

  Lemma step_global V :
    limited (c_maxg c) = true ->
    within (c_maxg c) (measure (vw V st) sel_all) (measure (vw V st') sel_all).
  Proof.
    intro Hl. apply step_measure. intros p Hin _ _ Hr.
    unfold retryable in Hr. repeat (apply andb_true_iff in Hr; destruct Hr as [Hr ?]).
    unfold f_global in Hr. rewrite Hl in Hr. cbn [negb orb] in Hr. apply Z.ltb_lt in Hr.
    pose proof (dom_global st p Hwf). lia.
  Qed.

  Lemma step_node V k :
    limited (c_maxnode c) = true -> k <> 0 ->
    within (c_maxnode c) (measure (vw V st) (sel_node k)) (measure (vw V st') (sel_node k)).
  Proof.
    intros Hl Hk. apply step_measure. intros p Hin Hs _ Hr.
    unfold sel_node in Hs. apply Z.eqb_eq in Hs.
    unfold retryable in Hr. repeat (apply andb_true_iff in Hr; destruct Hr as [Hr ?]).
    match goal with H : f_node _ _ _ _ = true |- _ => rename H into Hn end.
    unfold f_node in Hn. rewrite Hl in Hn. cbn [negb orb] in Hn.
    replace (p_node p =? 0) with false in Hn by (symmetry; apply Z.eqb_neq; lia).
    cbn [orb] in Hn. apply Z.ltb_lt in Hn.
    rewrite mo_other_pod. subst k. unfold sel_node. lia.
  Qed.

  Lemma step_ns V k :
    limited (c_maxns c) = true ->
    within (c_maxns c) (measure (vw V st) (sel_ns k)) (measure (vw V st') (sel_ns k)).
  Proof.
    intros Hl. apply step_measure. intros p Hin Hs _ Hr.
    unfold sel_ns in Hs. apply Z.eqb_eq in Hs.
    unfold retryable in Hr. repeat (apply andb_true_iff in Hr; destruct Hr as [Hr ?]).
    match goal with H : f_ns _ _ _ _ = true |- _ => rename H into Hn end.
    unfold f_ns in Hn. rewrite Hl in Hn. cbn [negb orb] in Hn. apply Z.ltb_lt in Hn.
    pose proof (dom_ns st p k Hwf). subst k. lia.
  Qed.

  (* facts read off a passing per-workload filter *)
  Lemma f_wl_facts p :
    p_wl p <> 0 -> f_wl c true st p = true ->
    let sel := sel_wl (p_ns p) (p_wl p) in
    mo st sel p + 1 <= max_mig c st (p_wl p) /\ uo st sel p + 1 <= max_un c st (p_wl p).
  Proof.
    intros Hw Hf. unfold f_wl in Hf.
    replace (p_wl p =? 0) with false in Hf by (symmetry; apply Z.eqb_neq, Hw).
    cbv zeta in Hf. fold (max_mig c st (p_wl p)) in Hf. fold (max_un c st (p_wl p)) in Hf.
    set (mig := countb (fun v => other_pod true st p v && same_wl p v) (a_pods st)) in *.
    destruct ((0 <? mig) && (max_mig c st (p_wl p) <=? mig)) eqn:Emig; [discriminate|].
    apply negb_true_iff, Z.leb_gt in Hf.
    cbv zeta. rewrite mo_other_pod, uo_filter.
    change (countb (fun v => other_pod true st p v && sel_wl (p_ns p) (p_wl p) v) (a_pods st)) with mig.
    assert (Hun : 1 <= max_un c st (p_wl p)).
    { pose proof (countb_nonneg (fun v => p_exists v && same_wl p v
         && (negb (p_avail v) || other_pod true st p v)) (a_pods st)). lia. }
    split; [|lia].
    apply andb_false_iff in Emig. destruct Emig as [E|E].
    - apply Z.ltb_ge in E. pose proof (countb_nonneg (fun v => other_pod true st p v && same_wl p v) (a_pods st)).
      fold mig in H. assert (mig = 0) by lia.
      assert (1 <= replicas_of st (p_wl p)).
      { pose proof (get_max_le_replicas (replicas_of st (p_wl p)) (c_mu c)). unfold max_un in Hun. lia. }
      pose proof (get_max_pos (replicas_of st (p_wl p)) (c_mm c) H1 (proj1 Hcfg)).
      unfold max_mig. lia.
    - apply Z.leb_gt in E. lia.
  Qed.

  Lemma step_wl V ns w :
    w <> 0 ->
    within (max_mig c st w) (measure (vw V st) (sel_wl ns w)) (measure (vw V st') (sel_wl ns w)).
  Proof.
    intros Hw. apply step_measure. intros p Hin Hs _ Hr.
    unfold sel_wl in Hs. apply andb_true_iff in Hs. destruct Hs as [Hns Hwl].
    apply Z.eqb_eq in Hns. apply Z.eqb_eq in Hwl.
    unfold retryable in Hr. apply andb_true_iff in Hr. destruct Hr as [_ Hr].
    subst ns w. apply (f_wl_facts p Hw Hr).
  Qed.

  Lemma step_unavail V ns w :
    w <> 0 ->
    within (max_un c st w) (unavail (vw V st) (sel_wl ns w)) (unavail (vw V st') (sel_wl ns w)).
  Proof.
    intros Hw. subst st'.
    destruct (arbitrate_one_outcome c f st jid) as [|j Hf Hwt Ha Hs Hne Hp|j p w' Hf Hwt Hp Hn].
    - apply within_refl.
    - destruct (pod_of st j) as [p|] eqn:Ep.
      + destruct Hp as [Hn Hr].
        assert (Hbound : sel_wl ns w p = true -> uo st (sel_wl ns w) p + 1 <= max_un c st w).
        { intro Es. unfold sel_wl in Es. apply andb_true_iff in Es. destruct Es as [Hns Hwl].
          apply Z.eqb_eq in Hns. apply Z.eqb_eq in Hwl.
          unfold retryable in Hr. apply andb_true_iff in Hr. destruct Hr as [_ Hr].
          subst ns w. pose proof (f_wl_facts p Hw Hr) as [_ Hu]. exact Hu. }
        destruct V; cbn [vw].
        * rewrite annot_view_set_job.
          change (annot_job (mark_passed j)) with (mark_passed (annot_job j)).
          pose proof (unavail_pass_some (annot_view st) (annot_job j) p (sel_wl ns w) Hwf Ep) as Hm.
          pose proof (uo_annot_le st (sel_wl ns w) p).
          destruct (sel_wl ns w p) eqn:Es.
          -- specialize (Hbound eq_refl). unfold within. lia.
          -- pose proof (uo_le (annot_view st) (sel_wl ns w) p). unfold within. lia.
        * pose proof (unavail_pass_some st j p (sel_wl ns w) Hwf Ep) as Hm.
          destruct (sel_wl ns w p) eqn:Es.
          -- specialize (Hbound eq_refl). unfold within. lia.
          -- pose proof (uo_le st (sel_wl ns w) p). unfold within. lia.
      + destruct V; cbn [vw].
        * rewrite annot_view_set_job.
          change (annot_job (mark_passed j)) with (mark_passed (annot_job j)).
          apply within_le, (unavail_pass_none (annot_view st) (annot_job j) (sel_wl ns w) Hwf Ep).
        * apply within_le, unavail_pass_none; assumption.
    - destruct V; cbn [vw].
      + rewrite annot_view_set_job.
        change (annot_job (mark_failed w' j)) with (mark_failed w' (annot_job j)).
        apply within_le. eapply unavail_fail. apply find_job_annot. eassumption.
      + apply within_le. eapply unavail_fail; eassumption.
  Qed.
End Step.

(* ------------------------------------------------------------------ *)
(* a whole round, for every processing order                            *)
(* ------------------------------------------------------------------ *)
Lemma wf_pods_eq st st' : a_pods st' = a_pods st -> wf_pods st -> wf_pods st'.
Proof. unfold wf_pods. intros ->. auto. Qed.

Lemma replicas_of_eq st st' w : a_wls st' = a_wls st -> replicas_of st' w = replicas_of st w.
Proof. unfold replicas_of, find_wl. intros ->. reflexivity. Qed.

Lemma round_on_within c f (m : ast -> Z) (L : ast -> Z) :
  (forall st st', a_wls st' = a_wls st -> L st' = L st) ->
  (forall st jid, wf_pods st -> within (L st) (m st) (m (arbitrate_one c f st jid))) ->
  forall order st, wf_pods st -> within (L st) (m st) (m (round_on c f order st)).
Proof.
  intros HL Hstep. unfold round_on.
  induction order as [|x t IH]; intros st Hwf; cbn [fold_left]; [apply within_refl|].
  eapply within_trans; [apply Hstep, Hwf|].
  rewrite <- (HL st (arbitrate_one c f st x)) by apply arbitrate_one_wls.
  apply IH. eapply wf_pods_eq; [apply arbitrate_one_pods|exact Hwf].
Qed.

Theorem round_on_limits_v V c f order st :
  wf_pods st -> wf_cfg c -> limits_hold c (vw V st) (vw V (round_on c f order st)).
Proof.
  intros Hwf Hcfg.
  assert (HW : forall w, max_mig c (vw V st) w = max_mig c st w) by (destruct V; reflexivity).
  repeat split.
  - intro Hl. apply (round_on_within c f (fun s => measure (vw V s) sel_all) (fun _ => c_maxg c)); auto.
    intros s jid Hs. apply step_global; assumption.
  - intros k Hl Hk.
    apply (round_on_within c f (fun s => measure (vw V s) (sel_node k)) (fun _ => c_maxnode c)); auto.
    intros s jid Hs. apply step_node; assumption.
  - intros k Hl.
    apply (round_on_within c f (fun s => measure (vw V s) (sel_ns k)) (fun _ => c_maxns c)); auto.
    intros s jid Hs. apply step_ns; assumption.
  - intros ns w Hw. rewrite HW.
    apply (round_on_within c f (fun s => measure (vw V s) (sel_wl ns w)) (fun s => max_mig c s w)); auto.
    + intros s s' E. unfold max_mig. rewrite (replicas_of_eq s s' w E). reflexivity.
    + intros s jid Hs. apply step_wl; assumption.
Qed.

Theorem round_on_unavail_v V c f order st :
  wf_pods st -> wf_cfg c -> unavail_holds c (vw V st) (vw V (round_on c f order st)).
Proof.
  intros Hwf Hcfg ns w Hw.
  replace (max_un c (vw V st) w) with (max_un c st w) by (destruct V; reflexivity).
  apply (round_on_within c f (fun s => unavail (vw V s) (sel_wl ns w)) (fun s => max_un c s w)); auto.
  - intros s s' E. unfold max_un. rewrite (replicas_of_eq s s' w E). reflexivity.
  - intros s jid Hs. apply step_unavail; assumption.
Qed.

(* the mechanism view (map or annotation) and the API view (annotation only) *)
Theorem round_on_limits c f order st :
  wf_pods st -> wf_cfg c -> limits_hold c st (round_on c f order st).
Proof. exact (round_on_limits_v false c f order st). Qed.

Theorem round_on_unavail c f order st :
  wf_pods st -> wf_cfg c -> unavail_holds c st (round_on c f order st).
Proof. exact (round_on_unavail_v false c f order st). Qed.

Theorem round_on_limits_annot c f order st :
  wf_pods st -> wf_cfg c -> limits_hold c (annot_view st) (annot_view (round_on c f order st)).
Proof. exact (round_on_limits_v true c f order st). Qed.

Theorem round_on_unavail_annot c f order st :
  wf_pods st -> wf_cfg c -> unavail_holds c (annot_view st) (annot_view (round_on c f order st)).
Proof. exact (round_on_unavail_v true c f order st). Qed.
