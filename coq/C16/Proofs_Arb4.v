(* C16 (arbitration) — the budgets counted in JOBS rather than pods: when the jobs that are live
   or waiting reference pairwise different pods (what Arbitrator.Filter guarantees for jobs created
   through it), the number of running-or-passed jobs equals the number of pods being migrated,
   before and after a round, so the job counts obey the same bounds. *)
From Coq Require Import List ZArith Bool Lia.
From Verif Require Import C16.ModelArb C16.SpecArb C16.CountX C16.Proofs_Arb C16.Proofs_Arb2.
Import ListNotations.
Open Scope Z_scope.

(* running-or-passed jobs whose pod exists and is selected *)
Definition jsel (st : ast) (sel : pod -> bool) (j : job) : bool :=
  match find_pod st (j_pod j) with
  | Some v => p_exists v && sel v
  | None => false
  end.
Definition jcount (st : ast) (sel : pod -> bool) : Z :=
  countb (fun j => avail true j && jsel st sel j) (a_jobs st).

(* candidates of a round: live (for an arbitrating pod) or still waiting, with a podRef *)
Definition cand (j : job) : bool := (avail true j || j_waiting j) && negb (j_pod j =? 0).
Definition distinct_pods (st : ast) : Prop := NoDup (map j_pod (filter cand (a_jobs st))).

Lemma NoDup_map_filter_imp {A} (key : A -> Z) (f f' : A -> bool) (g : A -> A) l :
  (forall x, In x l -> f' (g x) = true -> f x = true) -> (forall x, In x l -> key (g x) = key x) ->
  NoDup (map key (filter f l)) -> NoDup (map key (filter f' (map g l))).
Proof.
  induction l as [|x l IH]; intros Himp Hkey Hnd; [constructor|].
  cbn [map filter] in *.
  assert (IH' : NoDup (map key (filter f l)) -> NoDup (map key (filter f' (map g l)))).
  { apply IH; intros y Hy; [apply Himp|apply Hkey]; right; exact Hy. }
  assert (Hsub : forall k, In k (map key (filter f' (map g l))) -> In k (map key (filter f l))).
  { intros k Hk. apply in_map_iff in Hk. destruct Hk as [y [Hy Hin]].
    apply filter_In in Hin. destruct Hin as [Hin Hf'].
    apply in_map_iff in Hin. destruct Hin as [z [Hz Hzin]]. subst y.
    apply in_map_iff. exists z. split; [rewrite <- Hy; symmetry; apply Hkey; right; exact Hzin|].
    apply filter_In. split; [exact Hzin|]. apply Himp; [right; exact Hzin|exact Hf']. }
  destruct (f' (g x)) eqn:Ef'.
  - rewrite (Himp x (or_introl eq_refl) Ef') in Hnd. cbn [map] in *.
    inversion Hnd as [|? ? Hnin Hnd']; subst. constructor; [|apply IH', Hnd'].
    rewrite Hkey by (left; reflexivity). intro Hin. apply Hnin, Hsub, Hin.
  - apply IH'. destruct (f x); [cbn [map] in Hnd; inversion Hnd; assumption|exact Hnd].
Qed.

Lemma existsb_find_pod st (q : pod -> bool) k :
  wf_pods st ->
  existsb (fun v => q v && (k =? p_id v)) (a_pods st)
  = match find_pod st k with Some v => q v | None => false end.
Proof.
  intros [Hnd _]. unfold find_pod.
  destruct (find (fun p => p_id p =? k) (a_pods st)) as [v|] eqn:E.
  - apply (find_some_key p_id) in E. destruct E as [Hin Hid].
    destruct (q v) eqn:Eq.
    + apply existsb_exists. exists v. split; [exact Hin|]. rewrite Eq, Hid, Z.eqb_refl. reflexivity.
    + destruct (existsb _ _) eqn:Ex; [|reflexivity]. apply existsb_exists in Ex.
      destruct Ex as [v' [Hv' H]]. apply andb_true_iff in H. destruct H as [Hq Hk].
      apply Z.eqb_eq in Hk. assert (v' = v) by (eapply (NoDup_key_inj p_id); eauto; congruence).
      subst. congruence.
  - destruct (existsb _ _) eqn:Ex; [|reflexivity]. apply existsb_exists in Ex.
    destruct Ex as [v' [Hv' H]]. apply andb_true_iff in H. destruct H as [_ Hk].
    apply Z.eqb_eq in Hk. eapply find_none in E; [|exact Hv']. cbn in E.
    rewrite Hk, Z.eqb_refl in E. discriminate.
Qed.

Lemma measure_le_jcount st sel : wf_pods st -> measure st sel <= jcount st sel.
Proof.
  intro Hwf. pose proof Hwf as [Hnd _].
  eapply Z.le_trans; [|eapply Z.le_trans;
    [apply (count_inject p_id j_pod (fun v => p_exists v && sel v) (avail true)
              (a_pods st) (a_jobs st) Hnd)|]].
  - unfold measure. apply countb_le. intros v _ H. unfold migrating, has_job in H.
    destruct (sel v), (p_exists v); cbn in *; try discriminate; exact H.
  - unfold jcount. apply countb_le. intros j _ H. apply andb_true_iff in H. destruct H as [Ha Hex].
    rewrite Ha. cbn [andb]. unfold jsel.
    rewrite <- (existsb_find_pod st (fun v => p_exists v && sel v) (j_pod j) Hwf). exact Hex.
Qed.

Lemma existsb_ext' {A} (f g : A -> bool) l : (forall x, f x = g x) -> existsb f l = existsb g l.
Proof. intro H. induction l as [|x l IH]; cbn; [reflexivity|]. rewrite H, IH. reflexivity. Qed.

Lemma existsb_find_pod' st (q : pod -> bool) k :
  wf_pods st ->
  existsb (fun v => q v && (p_id v =? k)) (a_pods st)
  = match find_pod st k with Some v => q v | None => false end.
Proof.
  intro Hwf. rewrite <- (existsb_find_pod st q k Hwf).
  apply existsb_ext'. intro v. rewrite Z.eqb_sym. reflexivity.
Qed.

Lemma countb_filter {A} (f g : A -> bool) l : countb f (filter g l) = countb (fun x => g x && f x) l.
Proof.
  induction l as [|x l IH]; [reflexivity|]. cbn [filter]. destruct (g x) eqn:E.
  - rewrite !countb_cons, IH, E. reflexivity.
  - rewrite countb_cons, IH, E. cbn. lia.
Qed.

Lemma jcount_le_measure st sel : wf_pods st -> distinct_pods st -> jcount st sel <= measure st sel.
Proof.
  intros Hwf Hd. pose proof Hwf as [Hndp Hnz].
  set (JL := filter (fun j => avail true j && negb (j_pod j =? 0)) (a_jobs st)).
  assert (HndJ : NoDup (map j_pod JL)).
  { unfold JL. rewrite <- (map_id (a_jobs st)) at 1.
    apply (NoDup_map_filter_imp j_pod cand _ (fun x => x)); [|reflexivity|exact Hd].
    intros x _ H. unfold cand. apply andb_true_iff in H. destruct H as [-> ->]. reflexivity. }
  eapply Z.le_trans; [|eapply Z.le_trans;
    [apply (count_inject j_pod p_id (fun _ => true) (fun v => p_exists v && sel v) JL (a_pods st) HndJ)|]].
  - (* every job counted by jcount is in JL and has its pod in the table *)
    unfold jcount, JL. rewrite countb_filter. apply countb_le. intros j _ H.
    apply andb_true_iff in H. destruct H as [Ha Hs]. rewrite Ha. cbn [andb].
    rewrite (existsb_find_pod' st (fun v => p_exists v && sel v) (j_pod j) Hwf).
    unfold jsel in Hs. rewrite Hs, andb_true_r.
    destruct (find_pod st (j_pod j)) as [v|] eqn:E; [|discriminate].
    apply (find_some_key p_id) in E. destruct E as [Hin Hid].
    apply negb_true_iff, Z.eqb_neq. rewrite <- Hid. apply Hnz, Hin.
  - unfold measure. apply countb_le. intros v _ H. apply andb_true_iff in H. destruct H as [Hq Hex].
    apply andb_true_iff in Hq. destruct Hq as [He Hs]. rewrite Hs. cbn [andb].
    unfold migrating, has_job. rewrite He. cbn [andb].
    apply existsb_exists in Hex. destruct Hex as [j [Hj H]]. cbn [andb] in H. apply Z.eqb_eq in H.
    apply existsb_exists. exists j. unfold JL in Hj. apply filter_In in Hj. destruct Hj as [Hjin Hav].
    apply andb_true_iff in Hav. destruct Hav as [Hav _]. split; [exact Hjin|].
    rewrite Hav. cbn. apply Z.eqb_eq. congruence.
Qed.

Theorem jcount_measure st sel : wf_pods st -> distinct_pods st -> jcount st sel = measure st sel.
Proof.
  intros Hwf Hd. apply Z.le_antisymm; [apply jcount_le_measure|apply measure_le_jcount]; assumption.
Qed.

(* ---------- a round keeps the candidates' pods distinct ---------- *)
Lemma cand_mark_passed j : j_waiting j = true -> cand (mark_passed j) = true -> cand j = true.
Proof.
  intros Hw H. unfold cand in *. rewrite Hw, orb_true_r. cbn [andb].
  apply andb_true_iff in H. exact (proj2 H).
Qed.

Lemma cand_mark_failed w j : cand (mark_failed w j) = true -> cand j = true.
Proof.
  unfold cand. intro H. apply andb_true_iff in H. destruct H as [H1 H2].
  cbn [mark_failed j_waiting j_pod] in *. rewrite orb_false_r in H1.
  apply avail_mark_failed in H1. rewrite H1. cbn. exact H2.
Qed.

Lemma arbitrate_one_distinct c f st jid :
  wf_jobs st -> distinct_pods st -> distinct_pods (arbitrate_one c f st jid).
Proof.
  intros Hnd Hd. unfold distinct_pods in *.
  destruct (arbitrate_one_outcome c f st jid) as [|j Hf Hw _ _ _ _|j p w Hf Hw _ _]; [exact Hd| |];
    cbn [set_job a_jobs]; apply find_job_in in Hf; destruct Hf as [Hjin _];
    (apply (NoDup_map_filter_imp j_pod cand cand); [| |exact Hd]); intros x Hx;
    (destruct (j_id x =? _) eqn:E; [|auto]); apply Z.eqb_eq in E; cbn in E;
    assert (x = j) by (eapply (NoDup_key_inj j_id); eauto); subst x; auto.
  - apply cand_mark_passed; assumption.
  - apply cand_mark_failed.
Qed.

Lemma round_on_distinct c f order st :
  wf_jobs st -> distinct_pods st -> distinct_pods (round_on c f order st).
Proof.
  unfold round_on. revert st. induction order as [|x t IH]; intros st Hnd Hd; [exact Hd|].
  cbn [fold_left]. apply IH.
  - unfold wf_jobs. rewrite arbitrate_one_ids. exact Hnd.
  - apply arbitrate_one_distinct; assumption.
Qed.

(* ---------- the budgets, counted in migration jobs ---------- *)
Definition job_limits_hold (c : cfg) (st st' : ast) : Prop :=
  (limited (c_maxg c) = true -> within (c_maxg c) (jcount st sel_all) (jcount st' sel_all))
  /\ (forall k, limited (c_maxnode c) = true -> k <> 0 ->
        within (c_maxnode c) (jcount st (sel_node k)) (jcount st' (sel_node k)))
  /\ (forall k, limited (c_maxns c) = true ->
        within (c_maxns c) (jcount st (sel_ns k)) (jcount st' (sel_ns k)))
  /\ (forall ns w, w <> 0 ->
        within (max_mig c st w) (jcount st (sel_wl ns w)) (jcount st' (sel_wl ns w))).

Theorem round_on_job_limits c f order st :
  wf_pods st -> wf_jobs st -> wf_cfg c -> distinct_pods st ->
  job_limits_hold c st (round_on c f order st).
Proof.
  intros Hwp Hwj Hc Hd.
  assert (Hwp' : wf_pods (round_on c f order st)).
  { eapply wf_pods_eq; [apply round_on_pods|exact Hwp]. }
  pose proof (round_on_distinct c f order st Hwj Hd) as Hd'.
  destruct (round_on_limits c f order st Hwp Hc) as [Hg [Hn [Hs Hw]]].
  unfold job_limits_hold.
  repeat split; intros;
    rewrite (jcount_measure st) by assumption;
    rewrite (jcount_measure (round_on c f order st)) by assumption; auto.
Qed.
