(* C16 (arbitration) — the property over (state before a round, state after it) and over
   histories, with its decision procedure.  "Being migrated" is measured in pods: a pod that
   exists and has a live migration job that is running or has passed arbitration. *)
From Coq Require Import List ZArith Bool Lia.
From Verif Require Import C16.ModelArb.
Import ListNotations.
Open Scope Z_scope.

(* a pod that is being migrated *)
Definition migrating (st : ast) (v : pod) : bool := p_exists v && has_job true st v.

Definition measure (st : ast) (sel : pod -> bool) : Z :=
  countb (fun v => sel v && migrating st v) (a_pods st).

(* unavailable or being migrated, within one workload *)
Definition unavail (st : ast) (sel : pod -> bool) : Z :=
  countb (fun v => sel v && p_exists v && (negb (p_avail v) || has_job true st v)) (a_pods st).

Definition sel_all (v : pod) : bool := true.
Definition sel_node (k : Z) (v : pod) : bool := p_node v =? k.
Definition sel_ns (k : Z) (v : pod) : bool := p_ns v =? k.
Definition sel_wl (ns w : Z) (v : pod) : bool := (p_ns v =? ns) && (p_wl v =? w).

Definition max_mig (c : cfg) (st : ast) (w : Z) : Z := get_max (replicas_of st w) (c_mm c).
Definition max_un (c : cfg) (st : ast) (w : Z) : Z := get_max (replicas_of st w) (c_mu c).

(* ---------- clause 1/2: budgets after a round ---------- *)
Definition within (limit before after : Z) : Prop := after <= Z.max limit before.
Definition withinb (limit before after : Z) : bool := after <=? Z.max limit before.

Definition limits_hold (c : cfg) (st st' : ast) : Prop :=
  (limited (c_maxg c) = true -> within (c_maxg c) (measure st sel_all) (measure st' sel_all))
  /\ (forall k, limited (c_maxnode c) = true -> k <> 0 ->
        within (c_maxnode c) (measure st (sel_node k)) (measure st' (sel_node k)))
  /\ (forall k, limited (c_maxns c) = true ->
        within (c_maxns c) (measure st (sel_ns k)) (measure st' (sel_ns k)))
  /\ (forall ns w, w <> 0 ->
        within (max_mig c st w) (measure st (sel_wl ns w)) (measure st' (sel_wl ns w))).

Definition unavail_holds (c : cfg) (st st' : ast) : Prop :=
  forall ns w, w <> 0 ->
    within (max_un c st w) (unavail st (sel_wl ns w)) (unavail st' (sel_wl ns w)).

(* decided on the keys that occur among the pods (for other keys every measure is 0) *)
Definition limits_okb (c : cfg) (st st' : ast) : bool :=
  (negb (limited (c_maxg c)) || withinb (c_maxg c) (measure st sel_all) (measure st' sel_all))
  && forallb (fun v =>
       (negb (limited (c_maxnode c)) || (p_node v =? 0)
        || withinb (c_maxnode c) (measure st (sel_node (p_node v))) (measure st' (sel_node (p_node v))))
       && (negb (limited (c_maxns c))
           || withinb (c_maxns c) (measure st (sel_ns (p_ns v))) (measure st' (sel_ns (p_ns v))))
       && ((p_wl v =? 0)
           || withinb (max_mig c st (p_wl v)) (measure st (sel_wl (p_ns v) (p_wl v)))
                      (measure st' (sel_wl (p_ns v) (p_wl v)))))
     (a_pods st).

Definition unavail_okb (c : cfg) (st st' : ast) : bool :=
  forallb (fun v => (p_wl v =? 0)
                    || withinb (max_un c st (p_wl v)) (unavail st (sel_wl (p_ns v) (p_wl v)))
                               (unavail st' (sel_wl (p_ns v) (p_wl v))))
          (a_pods st).

(* ---------- clause 3: a job refused only for lack of headroom keeps waiting ----------
   every job that was waiting before the round is afterwards either passed (annotated, no longer
   waiting, phase untouched), or failed because its pod fails the non-retryable filter, or exactly
   as before (still waiting, phase and annotation untouched); a job object that does not exist in
   the API is not judged.  Membership in the arbitrator's
   in-memory map is not part of the property (it is only compared as an observable). *)
Definition job_same (j j' : job) : bool :=
  Bool.eqb (j_api j) (j_api j') && (j_phase j =? j_phase j') && Bool.eqb (j_passed j) (j_passed j')
  && Bool.eqb (j_waiting j) (j_waiting j').

Definition job_outcome_okb (c : cfg) (st : ast) (j j' : job) : bool :=
  if negb (j_api j) && negb (j_api j') then true   (* no such job in the API: nothing to judge *)
  else if negb (j_waiting j) then job_same j j'
  else
    job_same j j'
    || (* passed *)
       (j_api j' && j_passed j' && negb (j_waiting j') && (j_phase j' =? j_phase j))
    || (* failed: only for a pod that fails the non-retryable filter *)
       (negb (j_waiting j') && Bool.eqb (j_passed j') (j_passed j)
        && ((j_phase j' =? 3) || (j_phase j' =? j_phase j))
        && match pod_of st j with Some p => negb (nonretryable c st p) | None => false end).

Fixpoint outcomes_okb (c : cfg) (st : ast) (js js' : list job) : bool :=
  match js, js' with
  | [], [] => true
  | j :: t, j' :: t' => job_outcome_okb c st j j' && outcomes_okb c st t t'
  | _, _ => false
  end.

(* ---------- clause 4: a pod with a live migration job never gets a second one ---------- *)
Definition has_live_job (st : ast) (v : pod) : bool := has_job false st v.

Definition filter_verdict_okb (st : ast) (pid : Z) (verdict : Z) : bool :=
  match find_pod st pid with
  | Some p => negb (p_exists p && has_live_job st p && (verdict =? 1))
  | None => true
  end.

(* "has passed arbitration" is read off the API object (the annotation), not off the arbitrator's
   in-memory map: the view of a state in which a job counts as arbitrated iff it is annotated *)
Definition annot_job (j : job) : job :=
  mkJob (j_id j) (j_pod j) (j_time j) (j_created j) (j_api j) (j_phase j) (j_passed j) (j_waiting j)
        (j_passed j) (j_stale j).
Definition annot_view (st : ast) : ast := mkA (a_pods st) (a_wls st) (map annot_job (a_jobs st)).

(* the property of one round, 0 = holds; budgets are judged on the annotation view *)
Definition round_code (c : cfg) (st st' : ast) : Z :=
  if negb (limits_okb c (annot_view st) (annot_view st')) then 1
  else if negb (unavail_okb c (annot_view st) (annot_view st')) then 2
  else if negb (outcomes_okb c st (a_jobs st) (a_jobs st')) then 3
  else 0.

(* ---------- histories: the observed job fields after every operation ---------- *)
(* (phase | -1, annotation, waiting, arbitrated) per job, then the verdict *)
Notation jobs_obs := (list (Z * Z * Z * Z))%type.

Definition apply_job_obs (j : job) (o : Z * Z * Z * Z) : job :=
  let '(ph, pa, wa, ar) := o in
  mkJob (j_id j) (j_pod j) (j_time j) (j_created j) (negb (ph =? -1))
        (if ph =? -1 then j_phase j else ph) (negb (pa =? 0)) (negb (wa =? 0)) (negb (ar =? 0))
        (j_stale j).

Fixpoint apply_jobs_obs (js : list job) (os : jobs_obs) : list job :=
  match js, os with
  | j :: t, o :: t' => apply_job_obs j o :: apply_jobs_obs t t'
  | _, _ => js
  end.

(* the environment part of an operation is known from the input; the job fields are observed *)
Definition env_step (st : ast) (o : op) : ast :=
  match o with
  | OSetReady p b => upd_pod st p (set_ready b)
  | ODeletePod p => upd_pod st p delete_pod
  | OSetPodState p v => upd_pod st p (set_pod_state v)
  | _ => st
  end.

Definition observed_next (st : ast) (o : op) (os : jobs_obs) : ast :=
  let st1 := env_step st o in
  mkA (a_pods st1) (a_wls st1) (apply_jobs_obs (a_jobs st1) os).

Definition op_code (c : cfg) (st st' : ast) (o : op) (verdict : Z) : Z :=
  match o with
  | ORound _ => round_code c st st'
  | OFilter pid => if filter_verdict_okb st pid verdict then 0 else 4
  | OEvict jid =>
      match find_job st jid with
      | Some j => if filter_verdict_okb st (j_pod j) verdict then 0 else 4
      | None => 0
      end
  | _ => 0
  end.

Fixpoint history_code (c : cfg) (st : ast) (ops : list op) (obs : list (jobs_obs * Z)) : Z :=
  match ops, obs with
  | [], [] => 0
  | o :: t, (os, verdict) :: t' =>
      let st' := observed_next st o os in
      let code := op_code c st st' o verdict in
      if code =? 0 then history_code c st' t t' else code
  | _, _ => 9
  end.

(* well-formed inputs: pod ids are positive and distinct; the per-workload settings are not negative *)
Definition wf_pods (st : ast) : Prop :=
  NoDup (map p_id (a_pods st)) /\ (forall v, In v (a_pods st) -> p_id v <> 0).
Definition wf_cfg (c : cfg) : Prop := 0 <= snd (c_mm c) /\ 0 <= snd (c_mu c).
