(* C16 (arbitration) — refused jobs keep waiting, a job fails only on the non-retryable filter,
   no second job for a pod, and: the decision procedure of Spec holds of every round of the model. *)
From Coq Require Import List ZArith Bool Lia.
From Verif Require Import C16.ModelArb C16.SpecArb C16.CountX C16.Proofs_Arb.
Import ListNotations.
Open Scope Z_scope.

(* ---------- a job refused only for lack of headroom is left exactly as it was ---------- *)
Theorem refused_waits c f st jid j p :
  find_job st jid = Some j -> j_waiting j = true -> pod_of st j = Some p ->
  nonretryable c st p = true -> retryable c true st p = false ->
  arbitrate_one c f st jid = st.
Proof.
  intros Hf Hw Hp Hn Hr. unfold arbitrate_one. rewrite Hf, Hw. cbn [negb]. cbv zeta.
  rewrite Hp, Hn, Hr. reflexivity.
Qed.

(* ---------- Arbitrator.Filter refuses a pod that has a live migration job ---------- *)
Theorem filter_no_second_job c st p :
  has_live_job st p = true -> filter_pod c st p = false.
Proof. unfold has_live_job, filter_pod. intros ->. reflexivity. Qed.

(* ------------------------------------------------------------------ *)
(* outcome of a whole round for every job                               *)
(* ------------------------------------------------------------------ *)
Definition wf_jobs (st : ast) : Prop := NoDup (map j_id (a_jobs st)).

Definition jrel (c : cfg) (st0 : ast) (j0 j : job) : Prop :=
  j_id j = j_id j0 /\ j_pod j = j_pod j0 /\ job_outcome_okb c st0 j0 j = true.

Lemma job_same_refl j : job_same j j = true.
Proof.
  unfold job_same. rewrite !Bool.eqb_reflx, Z.eqb_refl. reflexivity.
Qed.

Lemma job_same_eq j j' :
  job_same j j' = true ->
  j_api j = j_api j' /\ j_phase j = j_phase j' /\ j_passed j = j_passed j'
  /\ j_waiting j = j_waiting j'.
Proof.
  unfold job_same. intro H.
  repeat (apply andb_true_iff in H; destruct H as [H ?]).
  repeat split; try (apply Bool.eqb_prop; assumption). apply Z.eqb_eq. assumption.
Qed.

Lemma jrel_refl c st0 j : jrel c st0 j j.
Proof.
  repeat split. unfold job_outcome_okb. rewrite job_same_refl.
  destruct (negb (j_api j) && negb (j_api j)); [reflexivity|]. destruct (negb (j_waiting j)); reflexivity.
Qed.

(* a still-waiting current job is observably equal to its original (unless it is not in the API) *)
Lemma jrel_waiting c st0 j0 j :
  jrel c st0 j0 j -> j_waiting j = true ->
  (j_api j0 = false /\ j_api j = false) \/ (j_waiting j0 = true /\ job_same j0 j = true).
Proof.
  intros [_ [_ H]] Hw. unfold job_outcome_okb in H.
  destruct (negb (j_api j0) && negb (j_api j)) eqn:EE.
  { left. apply andb_true_iff in EE. destruct EE as [E1 E2].
    apply negb_true_iff in E1. apply negb_true_iff in E2. auto. }
  right.
  destruct (j_waiting j0) eqn:E0; cbn [negb] in H.
  - split; [reflexivity|].
    apply orb_true_iff in H. destruct H as [H|H].
    + apply orb_true_iff in H. destruct H as [H|H]; [exact H|].
      repeat (apply andb_true_iff in H; destruct H as [H ?]).
      rewrite Hw in *. discriminate.
    + repeat (apply andb_true_iff in H; destruct H as [H ?]). rewrite Hw in *. discriminate.
  - apply job_same_eq in H. destruct H as [_ [_ [_ H]]]. congruence.
Qed.

Lemma pod_of_eq st st0 j j0 :
  a_pods st = a_pods st0 -> j_pod j = j_pod j0 -> pod_of st j = pod_of st0 j0.
Proof. unfold pod_of, find_pod. intros -> ->. reflexivity. Qed.

Lemma nonretryable_eq c st st0 p :
  a_wls st = a_wls st0 -> nonretryable c st p = nonretryable c st0 p.
Proof.
  intro H. unfold nonretryable, f_expected. rewrite !(replicas_of_eq st0 st (p_wl p) H). reflexivity.
Qed.

Lemma Forall2_map_r {A B} (R : A -> B -> Prop) (g : B -> B) la lb :
  Forall2 R la lb -> (forall a b, In b lb -> R a b -> R a (g b)) -> Forall2 R la (map g lb).
Proof.
  induction 1 as [|a b la lb Hab Hl IH]; intro Hg; cbn [map]; constructor.
  - apply Hg; [left; reflexivity|exact Hab].
  - apply IH. intros a' b' Hin. apply Hg. right. exact Hin.
Qed.

Lemma jrel_step c f st0 st jid :
  a_pods st = a_pods st0 -> a_wls st = a_wls st0 -> wf_jobs st ->
  Forall2 (jrel c st0) (a_jobs st0) (a_jobs st) ->
  Forall2 (jrel c st0) (a_jobs st0) (a_jobs (arbitrate_one c f st jid)).
Proof.
  intros Hpods Hwls Hnd HF.
  destruct (arbitrate_one_outcome c f st jid) as [|j Hf Hw Ha Hs Hne Hp|j p w Hf Hw Hp Hn]; [exact HF| |].
  - (* passed *)
    cbn [set_job a_jobs]. apply Forall2_map_r; [exact HF|].
    intros j0 x Hx Hrel. destruct (j_id x =? j_id (mark_passed j)) eqn:E; [|exact Hrel].
    apply Z.eqb_eq in E. cbn [mark_passed j_id] in E.
    apply find_job_in in Hf. destruct Hf as [Hjin _].
    assert (x = j) by (eapply (NoDup_key_inj j_id); eauto). subst x.
    destruct (jrel_waiting _ _ _ _ Hrel Hw) as [[_ Hna]|[Hw0 Hsame]]; [congruence|].
    destruct Hrel as [Hid [Hpod _]]. apply job_same_eq in Hsame.
    destruct Hsame as [Hapi [Hph _]].
    repeat split; cbn [mark_passed j_id j_pod]; auto.
    unfold job_outcome_okb. rewrite Hw0. cbn [negb mark_passed j_api j_passed j_arb j_waiting j_phase].
    rewrite Ha, Hph, Z.eqb_refl. cbn. rewrite andb_false_r, orb_true_r. reflexivity.
  - (* failed *)
    cbn [set_job a_jobs]. apply Forall2_map_r; [exact HF|].
    intros j0 x Hx Hrel. destruct (j_id x =? j_id (mark_failed w j)) eqn:E; [|exact Hrel].
    apply Z.eqb_eq in E. cbn [mark_failed j_id] in E.
    apply find_job_in in Hf. destruct Hf as [Hjin _].
    assert (x = j) by (eapply (NoDup_key_inj j_id); eauto). subst x.
    destruct (jrel_waiting _ _ _ _ Hrel Hw) as [[Hna0 Hna]|[Hw0 Hsame]].
    { destruct Hrel as [Hid [Hpod _]]. repeat split; cbn [mark_failed j_id j_pod]; auto.
      unfold job_outcome_okb. cbn [mark_failed j_api]. rewrite Hna0, Hna. reflexivity. }
    destruct Hrel as [Hid [Hpod _]]. apply job_same_eq in Hsame.
    destruct Hsame as [Hapi [Hph [Hpa _]]].
    repeat split; cbn [mark_failed j_id j_pod]; auto.
    unfold job_outcome_okb. cbn [mark_failed j_api].
    destruct (negb (j_api j0) && negb (j_api j)); [reflexivity|]. rewrite Hw0.
    cbn [negb mark_failed j_api j_passed j_waiting j_phase].
    rewrite <- (pod_of_eq st st0 j j0 Hpods Hpod), Hp, <- (nonretryable_eq c st st0 p Hwls), Hn.
    rewrite Hpa, !Bool.eqb_reflx. cbn [negb andb].
    assert (((if w then 3 else j_phase j) =? 3) || ((if w then 3 else j_phase j) =? j_phase j0) = true).
    { destruct w; [reflexivity|]. rewrite Hph, Z.eqb_refl. apply orb_true_r. }
    rewrite H. cbn. apply orb_true_r.
Qed.

Lemma arbitrate_one_ids c f st jid :
  map j_id (a_jobs (arbitrate_one c f st jid)) = map j_id (a_jobs st).
Proof.
  destruct (arbitrate_one_outcome c f st jid) as [|j _ _ _ _ _ _|j p w _ _ _ _]; [reflexivity| |];
    cbn [set_job a_jobs]; rewrite map_map; apply map_ext; intro x;
    destruct (j_id x =? _) eqn:E; auto; apply Z.eqb_eq in E; rewrite E; reflexivity.
Qed.

Lemma jrel_round c f st0 order st :
  a_pods st = a_pods st0 -> a_wls st = a_wls st0 -> wf_jobs st ->
  Forall2 (jrel c st0) (a_jobs st0) (a_jobs st) ->
  Forall2 (jrel c st0) (a_jobs st0) (a_jobs (round_on c f order st)).
Proof.
  unfold round_on. revert st. induction order as [|x t IH]; intros st Hp Hw Hnd HF; [exact HF|].
  cbn [fold_left]. apply IH.
  - rewrite arbitrate_one_pods. exact Hp.
  - rewrite arbitrate_one_wls. exact Hw.
  - unfold wf_jobs. rewrite arbitrate_one_ids. exact Hnd.
  - apply jrel_step; assumption.
Qed.

Lemma Forall2_refl_jrel c st0 l : Forall2 (jrel c st0) l l.
Proof. induction l; constructor; auto using jrel_refl. Qed.

Lemma outcomes_of_jrel c st0 js js' :
  Forall2 (jrel c st0) js js' -> outcomes_okb c st0 js js' = true.
Proof.
  induction 1 as [|j j' js js' [_ [_ H]] _ IH]; cbn [outcomes_okb]; [reflexivity|].
  rewrite H, IH. reflexivity.
Qed.

Theorem round_on_outcomes c f order st :
  wf_jobs st -> outcomes_okb c st (a_jobs st) (a_jobs (round_on c f order st)) = true.
Proof.
  intro Hnd. apply outcomes_of_jrel, jrel_round; auto. apply Forall2_refl_jrel.
Qed.

(* ------------------------------------------------------------------ *)
(* the boolean budget checks are exactly the Props                      *)
(* ------------------------------------------------------------------ *)
Lemma withinb_iff L a b : withinb L a b = true <-> within L a b.
Proof. unfold withinb, within. apply Z.leb_le. Qed.

Lemma measure_nonneg st sel : 0 <= measure st sel.
Proof. apply countb_nonneg. Qed.

Lemma measure_unused st sel :
  (forall v, In v (a_pods st) -> sel v = false) -> measure st sel = 0.
Proof. intro H. apply countb_false. intros v Hv. rewrite (H v Hv). reflexivity. Qed.

Lemma unavail_unused st sel :
  (forall v, In v (a_pods st) -> sel v = false) -> unavail st sel = 0.
Proof. intro H. apply countb_false. intros v Hv. rewrite (H v Hv). reflexivity. Qed.

Lemma within_unused L st st' sel :
  a_pods st' = a_pods st -> (forall v, In v (a_pods st) -> sel v = false) ->
  within L (measure st sel) (measure st' sel).
Proof.
  intros Hp H. rewrite (measure_unused st' sel) by (rewrite Hp; exact H).
  pose proof (measure_nonneg st sel). unfold within. lia.
Qed.

Lemma used_dec {A} (sel : A -> bool) l :
  (exists v, In v l /\ sel v = true) \/ (forall v, In v l -> sel v = false).
Proof.
  destruct (existsb sel l) eqn:E.
  - left. apply existsb_exists in E. exact E.
  - right. intros v Hv. destruct (sel v) eqn:Es; [|reflexivity].
    assert (existsb sel l = true) by (apply existsb_exists; eauto). congruence.
Qed.

Theorem limits_okb_sound c st st' :
  a_pods st' = a_pods st -> limits_okb c st st' = true -> limits_hold c st st'.
Proof.
  intros Hp H. unfold limits_okb in H. apply andb_true_iff in H. destruct H as [Hg Hall].
  rewrite forallb_forall in Hall.
  repeat split.
  - intro Hl. rewrite Hl in Hg. cbn in Hg. apply withinb_iff, Hg.
  - intros k Hl Hk. destruct (used_dec (sel_node k) (a_pods st)) as [[v [Hv Hs]]|Hno];
      [|apply within_unused; assumption].
    specialize (Hall v Hv). apply andb_true_iff in Hall. destruct Hall as [Hall _].
    apply andb_true_iff in Hall. destruct Hall as [Hn _].
    unfold sel_node in Hs. apply Z.eqb_eq in Hs. rewrite Hl, Hs in Hn. cbn in Hn.
    replace (k =? 0) with false in Hn by (symmetry; apply Z.eqb_neq, Hk). cbn in Hn.
    apply withinb_iff, Hn.
  - intros k Hl. destruct (used_dec (sel_ns k) (a_pods st)) as [[v [Hv Hs]]|Hno];
      [|apply within_unused; assumption].
    specialize (Hall v Hv). apply andb_true_iff in Hall. destruct Hall as [Hall _].
    apply andb_true_iff in Hall. destruct Hall as [_ Hn].
    unfold sel_ns in Hs. apply Z.eqb_eq in Hs. rewrite Hl, Hs in Hn. cbn in Hn.
    apply withinb_iff, Hn.
  - intros ns w Hw. destruct (used_dec (sel_wl ns w) (a_pods st)) as [[v [Hv Hs]]|Hno];
      [|apply within_unused; assumption].
    specialize (Hall v Hv). apply andb_true_iff in Hall. destruct Hall as [_ Hn].
    unfold sel_wl in Hs. apply andb_true_iff in Hs. destruct Hs as [Hs1 Hs2].
    apply Z.eqb_eq in Hs1. apply Z.eqb_eq in Hs2. rewrite Hs1, Hs2 in Hn.
    replace (w =? 0) with false in Hn by (symmetry; apply Z.eqb_neq, Hw). cbn in Hn.
    apply withinb_iff, Hn.
Qed.

Theorem limits_okb_complete c st st' :
  limits_hold c st st' -> limits_okb c st st' = true.
Proof.
  intros [Hg [Hn [Hs Hw]]]. unfold limits_okb. apply andb_true_iff. split.
  - destruct (limited (c_maxg c)) eqn:El; [|reflexivity]. cbn. apply withinb_iff, Hg. reflexivity.
  - apply forallb_forall. intros v _. repeat (apply andb_true_iff; split).
    + destruct (limited (c_maxnode c)) eqn:El; [|reflexivity]. cbn.
      destruct (p_node v =? 0) eqn:E0; [reflexivity|]. cbn.
      apply withinb_iff, Hn; [reflexivity|apply Z.eqb_neq, E0].
    + destruct (limited (c_maxns c)) eqn:El; [|reflexivity]. cbn. apply withinb_iff, Hs. reflexivity.
    + destruct (p_wl v =? 0) eqn:E0; [reflexivity|]. cbn. apply withinb_iff, Hw, Z.eqb_neq, E0.
Qed.

Theorem unavail_okb_sound c st st' :
  a_pods st' = a_pods st -> unavail_okb c st st' = true -> unavail_holds c st st'.
Proof.
  intros Hp H ns w Hw. unfold unavail_okb in H. rewrite forallb_forall in H.
  destruct (used_dec (sel_wl ns w) (a_pods st)) as [[v [Hv Hs]]|Hno].
  - specialize (H v Hv). unfold sel_wl in Hs. apply andb_true_iff in Hs. destruct Hs as [Hs1 Hs2].
    apply Z.eqb_eq in Hs1. apply Z.eqb_eq in Hs2. rewrite Hs1, Hs2 in H.
    replace (w =? 0) with false in H by (symmetry; apply Z.eqb_neq, Hw). cbn in H.
    apply withinb_iff, H.
  - rewrite (unavail_unused st' _) by (rewrite Hp; exact Hno).
    pose proof (countb_nonneg (fun v => sel_wl ns w v && p_exists v
                  && (negb (p_avail v) || has_job true st v)) (a_pods st)).
    unfold within, unavail. lia.
Qed.

Theorem unavail_okb_complete c st st' :
  unavail_holds c st st' -> unavail_okb c st st' = true.
Proof.
  intro H. unfold unavail_okb. apply forallb_forall. intros v _.
  destruct (p_wl v =? 0) eqn:E0; [reflexivity|]. cbn. apply withinb_iff, H, Z.eqb_neq, E0.
Qed.

