(* C16 (arbitration) — the decision procedure of Spec (budgets judged on the API view: a pending job
   has passed arbitration iff it carries the annotation) holds of every round of the model, from
   every state — also right after a restart, since forEachAvailableMigrationJobs (repaired in
   bc5a78a) counts an annotated pending job whether or not it is in the arbitrator's map.
   The witness against the OLD variant (map only) is kept below. *)
From Coq Require Import List ZArith Bool Lia.
From Verif Require Import C16.ModelArb C16.SpecArb C16.CountX C16.Proofs_Arb C16.Proofs_Arb2 C16.Proofs_Arb3.
Import ListNotations.
Open Scope Z_scope.

Theorem round_on_code c f order st :
  wf_pods st -> wf_jobs st -> wf_cfg c -> round_code c st (round_on c f order st) = 0.
Proof.
  intros Hwp Hwj Hcfg. unfold round_code.
  rewrite (limits_okb_complete _ _ _ (round_on_limits_annot c f order st Hwp Hcfg)).
  rewrite (unavail_okb_complete _ _ _ (round_on_unavail_annot c f order st Hwp Hcfg)).
  rewrite (round_on_outcomes c f order st Hwj). reflexivity.
Qed.

Corollary round_code_ok c f st :
  wf_pods st -> wf_jobs st -> wf_cfg c -> round_code c st (round c f st) = 0.
Proof. intros. apply round_on_code; assumption. Qed.

(* ---------- the state right after a restart ---------- *)
Definition rs_cfg : cfg := mkCfg 1 0 0 (0, 0) (0, 0) true.
(* j1 (pod 1) was admitted before the restart and is still Pending; j2 (pod 2) is new; both were
   just replayed into the fresh arbitrator's waiting collection, the arbitrated map is empty *)
Definition rs_st : ast :=
  mkA [mkPod 1 1 1 0 0 0 true false true false false; mkPod 2 1 1 0 0 1 true false true false false] []
      [mkJob 1 1 0 true true 0 true true false false; mkJob 2 2 1 true true 0 false true false false].

(* the OLD variant of forEachAvailableMigrationJobs: a pending job counts only if it is in the map *)
Definition avail_old (arb : bool) (j : job) : bool :=
  j_api j && ((j_phase j =? 1) || ((j_phase j =? 0) && (negb arb || j_arb j))).

(* old: the global filter for j2's pod sees no other job (0 < 1: j2 would be admitted although the
   budget is used up by the annotated j1); now: it sees j1, j2 is refused, the budget holds *)
Lemma restart_old_vs_new :
  let p2 := mkPod 2 1 1 0 0 1 true false true false false in
  measure (annot_view rs_st) sel_all = c_maxg rs_cfg
  /\ countb (fun j => avail_old true j && negb (j_pod j =? 0) && negb (j_pod j =? p_id p2)) (a_jobs rs_st) = 0
  /\ f_global rs_cfg true rs_st p2 = false
  /\ measure (annot_view (round rs_cfg 0 rs_st)) sel_all = c_maxg rs_cfg.
Proof. vm_compute. repeat split. Qed.
