(* C16 — the budget functions: the regenerated definitions meet the specification the implementation
   is judged against, the decision procedure holds of the model for every list of queries, and what
   GetMaxUnavailable / GetMaxMigrating compute, in closed form. *)
From Coq Require Import List ZArith Bool Lia.
From Verif Require Import Lib.GenScores Gen.Gen_scores C16.ModelArb C16.ModelBudget C16.SpecBudget.
Import ListNotations.
Open Scope Z_scope.

Lemma limiter_burst_is_spec b : GetLimiterBurst b = limiter_burst_spec b.
Proof. unfold GetLimiterBurst, limiter_burst_spec. reflexivity. Qed.

Lemma budget_model_is_spec fn a b c : budget_query fn a b c = budget_spec fn a b c.
Proof.
  unfold budget_query, budget_spec, budget_answer. rewrite limiter_burst_is_spec. reflexivity.
Qed.

Theorem budget_check_model qs : check_qs qs (run_qs qs) = 0.
Proof.
  induction qs as [|[[[f a] b] c] t IH]; [reflexivity|].
  unfold run_qs in *. cbn [flat_map run_q].
  rewrite (budget_model_is_spec f a b c).
  destruct (budget_spec f a b c) as [e v] eqn:E. cbn [app check_qs]. rewrite E, !Z.eqb_refl. exact IH.
Qed.

(* ---------- closed form of get_max (GetMaxUnavailable = GetMaxMigrating) ---------- *)
Definition default_budget (r : Z) : Z :=
  if 10 <? r then (10 * r) / 100 else if 4 <=? r then 2 else 1.

Definition at_least_one (x : Z) : Z := if x =? 0 then 1 else x.

Definition budget_closed (r : Z) (x : iop) : Z :=
  let '(kind, v) := x in
  Z.min r (if kind =? 0 then default_budget r
           else if kind =? 1 then at_least_one v
           else if kind =? 2 then at_least_one ((v * r) / 100)
           else 1).

Lemma default_budget_pos r : 1 <= default_budget r.
Proof.
  unfold default_budget. destruct (Z.ltb_spec 10 r); [|destruct (Z.leb_spec 4 r); lia].
  apply Z.div_le_lower_bound; lia.
Qed.

Ltac split_ifs :=
  repeat match goal with
         | |- context [?a =? ?b] => destruct (Z.eqb_spec a b)
         | |- context [?a <? ?b] => destruct (Z.ltb_spec a b)
         | |- context [?a <=? ?b] => destruct (Z.leb_spec a b)
         end.

Theorem get_max_closed r x : get_max r x = budget_closed r x.
Proof.
  unfold get_max, budget_closed, at_least_one. destruct x as [kind v].
  pose proof (default_budget_pos r) as Hd. unfold default_budget in *.
  generalize dependent (10 * r / 100). generalize (v * r / 100). intros q d Hd.
  destruct (Z.eq_dec kind 0) as [->|H0]; [cbn [Z.eqb Pos.eqb]; split_ifs; lia|].
  destruct (Z.eq_dec kind 1) as [->|H1]; [cbn [Z.eqb Pos.eqb]; split_ifs; lia|].
  destruct (Z.eq_dec kind 2) as [->|H2]; [cbn [Z.eqb Pos.eqb]; split_ifs; lia|].
  rewrite (proj2 (Z.eqb_neq kind 0) H0), (proj2 (Z.eqb_neq kind 1) H1), (proj2 (Z.eqb_neq kind 2) H2).
  cbn [Z.eqb Pos.eqb]. split_ifs; lia.
Qed.

(* the budget never exceeds the replica count; with at least one replica and a non-negative setting it
   is at least one; an integer setting of at least one is taken literally up to the replica count *)
Theorem budget_bounds r x :
  get_max r x <= r /\ (1 <= r -> 0 <= snd x -> 1 <= get_max r x).
Proof.
  rewrite get_max_closed. unfold budget_closed, at_least_one. destruct x as [kind v]. cbn [snd].
  pose proof (default_budget_pos r) as Hd.
  split; [lia|]. intros Hr Hv.
  destruct (kind =? 0); [lia|]. destruct (kind =? 1).
  - destruct (Z.eqb_spec v 0); lia.
  - destruct (kind =? 2); [|lia].
    assert (0 <= v * r / 100) by (apply Z.div_pos; nia).
    destruct (Z.eqb_spec (v * r / 100) 0); lia.
Qed.

Theorem budget_int r v : 1 <= v -> get_max r (1, v) = Z.min r v.
Proof.
  intro Hv. rewrite get_max_closed. unfold budget_closed, at_least_one. cbn [Z.eqb Pos.eqb].
  destruct (Z.eqb_spec v 0); lia.
Qed.

Theorem budget_percent r v :
  0 <= r -> 0 <= v -> get_max r (2, v) = Z.min r (Z.max 1 ((v * r) / 100)).
Proof.
  intros Hr Hv. rewrite get_max_closed. unfold budget_closed, at_least_one. cbn [Z.eqb Pos.eqb].
  assert (0 <= v * r / 100) by (apply Z.div_pos; nia).
  destruct (Z.eqb_spec (v * r / 100) 0); lia.
Qed.

(* the defaults: one pod up to 3 replicas, two from 4 to 10, ten percent (rounded down) above *)
Theorem budget_default r :
  0 <= r ->
  get_max r (0, 0) = if r <=? 3 then Z.min r 1 else if r <=? 10 then 2 else (10 * r) / 100.
Proof.
  intro Hr. rewrite get_max_closed. unfold budget_closed, default_budget. cbn [Z.eqb Pos.eqb].
  destruct (Z.ltb_spec 10 r), (Z.leb_spec 4 r), (Z.leb_spec r 3), (Z.leb_spec r 10); try lia.
  assert (10 * r / 100 <= r) by (apply Z.div_le_upper_bound; lia). lia.
Qed.

(* the eviction-cost filter refuses exactly the strictly spelled maximal cost *)
Theorem cost_filter_iff kind v :
  filter_max_cost kind v = false <-> kind = 1 /\ v = int32_max.
Proof.
  unfold filter_max_cost, eviction_cost, int32_max, int32_min.
  destruct (Z.eqb_spec kind 1) as [->|Hk]; cbn [andb].
  - destruct (Z.leb_spec (-2147483648) v), (Z.leb_spec v 2147483647); cbn [andb];
      rewrite negb_false_iff, Z.eqb_eq; lia.
  - cbn. split; [discriminate|lia].
Qed.
