(* C16 — the decision procedure of SpecDE.v (what bin/check evaluates on the implementation's
   observables of the stream defaultevictor) holds of the eviction-stack model's own trace, for every
   case: any requests, pod attributes, flags, caps, dry-run flag, any number of descheduling cycles and
   any operations obeying the discipline (Proofs_DE.de_disciplined). *)
From Coq Require Import List ZArith Bool Lia.
From Verif Require Import Lib.ListX C16.Model C16.Spec C16.ModelDE C16.SpecDE
  C16.Proofs_Evict C16.Proofs_Limiter C16.Proofs_Seq C16.Proofs_Trace C16.Proofs_DE.
Import ListNotations.
Open Scope Z_scope.

(* ------------------------------------------------------------------ *)
(* program counters after a step of one layer                           *)
(* ------------------------------------------------------------------ *)
Lemma set_nth_id {A} i (l : list A) p : nth_error l i = Some p -> set_nth i p l = l.
Proof. revert i. induction l as [|x l IH]; intros [|i]; cbn; try discriminate; intro H.
  - inversion H; reflexivity.
  - f_equal. apply IH, H.
Qed.

Definition allowed (c : caps) (r : req) (o : est) : bool :=
  negb (negb (r_node r =? 0) && exceeds (cap_node c) (cn o (r_node r)))
  && negb (exceeds (cap_ns c) (cs o (r_ns r))) && negb (exceeds (cap_total c) (ct o)).

Definition lim_next (dry : bool) (r : req) (adm : bool) (p : pc) : pc :=
  match p with
  | PStart => if adm then PAdmitted else PRefused
  | PAdmitted => if dry then PPost else PInApi
  | PInApi => if r_ok r then PPost else PDoneFail
  | PPost => PDoneOk
  | _ => p
  end.

Lemma lim_step_pcs dry c reqs o i p r :
  nth_error (pcs o) i = Some p -> nth_error reqs i = Some r ->
  pcs (lim_step dry c reqs o i) = set_nth i (lim_next dry r (allowed c r o) p) (pcs o).
Proof.
  intros Hp Hr. unfold lim_step. rewrite Hp, Hr. unfold allowed.
  destruct p; cbn [lim_next]; try (symmetry; apply set_nth_id, Hp).
  - destruct (negb (r_node r =? 0) && exceeds (cap_node c) (cn o (r_node r))); cbn; [reflexivity|].
    destruct (exceeds (cap_ns c) (cs o (r_ns r))); cbn; [reflexivity|].
    destruct (exceeds (cap_total c) (ct o)); reflexivity.
  - destruct dry; reflexivity.
  - destruct (r_ok r); reflexivity.
  - reflexivity.
Qed.

Definition pe_next (r : req) (p : pc) : pc :=
  match p with
  | PStart => PAdmitted
  | PAdmitted => PInApi
  | PInApi => if r_ok r then PDoneOk else PPost
  | PPost => PDoneFail
  | _ => p
  end.

Definition is_admitted (p : pc) : bool := match p with PAdmitted => true | _ => false end.

Lemma pe_step_pcs reqs n i p r :
  nth_error (pcs n) i = Some p -> nth_error reqs i = Some r ->
  pcs (pe_step false nocaps reqs n i) = set_nth i (pe_next r p) (pcs n)
  /\ calls (pe_step false nocaps reqs n i) = (if is_admitted p then i :: calls n else calls n).
Proof.
  intros Hp Hr. unfold pe_step. rewrite Hp, Hr.
  destruct p; cbn [pe_next is_admitted nocaps cap_node cap_ns reached];
    try (split; [symmetry; apply set_nth_id, Hp|reflexivity]).
  - split; reflexivity.
  - split; reflexivity.
  - destruct (r_ok r); split; reflexivity.
  - split; reflexivity.
Qed.

(* ------------------------------------------------------------------ *)
(* a step of the stack, on the pair of program counters of the thread    *)
(* ------------------------------------------------------------------ *)
Definition t_out (dry : bool) (r : req) (adm : bool) (po pi : pc) : pc :=
  match po with
  | PStart => if adm then PAdmitted else PRefused
  | PAdmitted => if dry then PPost else match pi with PAdmitted => PInApi | _ => PAdmitted end
  | PInApi => match pi with
              | PInApi => if r_ok r then PPost else PInApi
              | PPost => if r_ok r then PPost else PDoneFail
              | _ => PInApi
              end
  | PPost => PDoneOk
  | _ => po
  end.

Definition t_in (dry : bool) (r : req) (po pi : pc) : pc :=
  match po with
  | PAdmitted => if dry then pi else match pi with PStart => PAdmitted | PAdmitted => PInApi | _ => pi end
  | PInApi => match pi with PInApi => if r_ok r then PDoneOk else PPost | PPost => PDoneFail | _ => pi end
  | _ => pi
  end.

Definition sends (dry : bool) (po pi : pc) : bool :=
  match po, pi with PAdmitted, PAdmitted => negb dry | _, _ => false end.

Lemma de_step_pcs dry c reqs s i po pi r :
  nth_error (pcs (d_out s)) i = Some po -> nth_error (pcs (d_in s)) i = Some pi ->
  nth_error reqs i = Some r ->
  let s' := de_step dry c reqs s i in
  pcs (d_out s') = set_nth i (t_out dry r (allowed c r (d_out s)) po pi) (pcs (d_out s))
  /\ pcs (d_in s') = set_nth i (t_in dry r po pi) (pcs (d_in s))
  /\ calls (d_in s') = (if sends dry po pi then i :: calls (d_in s) else calls (d_in s)).
Proof.
  intros Ho Hi Hr s'. subst s'. unfold de_step, de_moves_out, de_moves_in. rewrite Ho, Hi, Hr.
  cbn [d_out d_in].
  pose proof (lim_step_pcs dry c reqs (d_out s) i po r Ho Hr) as HL.
  destruct (pe_step_pcs reqs (d_in s) i pi r Hi Hr) as [HP HC].
  pose proof (set_nth_id i (pcs (d_out s)) po Ho) as Io.
  pose proof (set_nth_id i (pcs (d_in s)) pi Hi) as Ii.
  destruct po; cbn [t_out t_in sends lim_next] in *.
  - (* PStart *) rewrite HL. repeat split; auto; try (destruct pi; reflexivity).
  - (* PAdmitted *)
    destruct dry; cbn [orb negb andb].
    + rewrite HL. repeat split; auto; try (destruct pi; reflexivity).
    + destruct pi; cbn [pe_next is_admitted] in *; rewrite ?HL, ?HP, ?HC; repeat split; auto.
  - (* PInApi *)
    destruct pi; cbn [pe_next is_admitted] in *; try (repeat split; auto; fail).
    destruct (r_ok r); rewrite ?HL, ?HP, ?HC; repeat split; auto.
  - (* PPost *) rewrite HL. repeat split; auto; try (destruct pi; reflexivity).
  - repeat split; auto; try (destruct pi; reflexivity).
  - repeat split; auto; try (destruct pi; reflexivity).
  - repeat split; auto; try (destruct pi; reflexivity).
Qed.

Lemma nth_error_set_same {A} i (v p : A) l :
  nth_error l i = Some p -> nth_error (set_nth i v l) i = Some v.
Proof. apply nth_error_set_nth_same. Qed.

Lemma de_inapi_pcs s i po pi :
  nth_error (pcs (d_out s)) i = Some po -> nth_error (pcs (d_in s)) i = Some pi ->
  de_inapi s i = match po, pi with PInApi, PInApi => true | _, _ => false end.
Proof. intros Ho Hi. unfold de_inapi. rewrite Ho, Hi. reflexivity. Qed.

(* the three sub-steps, tracked on the program counters *)
Lemma de_step_chain dry c reqs s i po pi r :
  nth_error (pcs (d_out s)) i = Some po -> nth_error (pcs (d_in s)) i = Some pi ->
  nth_error reqs i = Some r ->
  let s' := de_step dry c reqs s i in
  let po' := t_out dry r (allowed c r (d_out s)) po pi in
  let pi' := t_in dry r po pi in
  nth_error (pcs (d_out s')) i = Some po' /\ nth_error (pcs (d_in s')) i = Some pi'
  /\ pcs (d_out s') = set_nth i po' (pcs (d_out s)) /\ pcs (d_in s') = set_nth i pi' (pcs (d_in s))
  /\ calls (d_in s') = (if sends dry po pi then i :: calls (d_in s) else calls (d_in s)).
Proof.
  intros Ho Hi Hr s' po' pi'.
  destruct (de_step_pcs dry c reqs s i po pi r Ho Hi Hr) as [E1 [E2 E3]].
  fold s' in E1, E2, E3. fold po' in E1. fold pi' in E2.
  repeat split; auto.
  - rewrite E1. eapply nth_error_set_same; eassumption.
  - rewrite E2. eapply nth_error_set_same; eassumption.
Qed.

(* a harness step, computed on the pair of program counters ([a2], [a3]: the verdicts AllowEvict would
   give in the intermediate states; they are never consulted, the thread has left PStart by then) *)
Definition tstep (dry : bool) (r : req) (adm : bool) (x : pc * pc) : pc * pc :=
  (t_out dry r adm (fst x) (snd x), t_in dry r (fst x) (snd x)).
Definition pinapi (x : pc * pc) : bool := match x with (PInApi, PInApi) => true | _ => false end.
Definition tsend (dry : bool) (i : nat) (x : pc * pc) : list nat :=
  if sends dry (fst x) (snd x) then [i] else [].

Definition thstep (dry : bool) (r : req) (i : nat) (a1 a2 a3 : bool) (x : pc * pc) : (pc * pc) * list nat :=
  let x1 := tstep dry r a1 x in
  let x2 := tstep dry r a2 x1 in
  let x3 := tstep dry r a3 x2 in
  if pinapi x then (x2, tsend dry i x1 ++ tsend dry i x)
  else if pinapi x1 then (x1, tsend dry i x)
  else if pinapi x2 then (x2, tsend dry i x1 ++ tsend dry i x)
  else (x3, tsend dry i x2 ++ tsend dry i x1 ++ tsend dry i x).

Lemma de_hstep_eval dry c reqs s i po pi r :
  nth_error (pcs (d_out s)) i = Some po -> nth_error (pcs (d_in s)) i = Some pi ->
  nth_error reqs i = Some r ->
  exists a2 a3,
    let res := thstep dry r i (allowed c r (d_out s)) a2 a3 (po, pi) in
    let s' := de_hstep dry c reqs s i in
    pcs (d_out s') = set_nth i (fst (fst res)) (pcs (d_out s))
    /\ pcs (d_in s') = set_nth i (snd (fst res)) (pcs (d_in s))
    /\ calls (d_in s') = snd res ++ calls (d_in s).
Proof.
  intros Ho Hi Hr.
  destruct (de_step_chain dry c reqs s i po pi r Ho Hi Hr) as [Ho1 [Hi1 [Po1 [Pi1 C1]]]].
  remember (de_step dry c reqs s i) as s1 eqn:E1.
  remember (allowed c r (d_out s)) as a1 eqn:Ea1.
  destruct (de_step_chain dry c reqs s1 i _ _ r Ho1 Hi1 Hr) as [Ho2 [Hi2 [Po2 [Pi2 C2]]]].
  remember (de_step dry c reqs s1 i) as s2 eqn:E2.
  remember (allowed c r (d_out s1)) as a2 eqn:Ea2.
  destruct (de_step_chain dry c reqs s2 i _ _ r Ho2 Hi2 Hr) as [Ho3 [Hi3 [Po3 [Pi3 C3]]]].
  remember (de_step dry c reqs s2 i) as s3 eqn:E3.
  remember (allowed c r (d_out s2)) as a3 eqn:Ea3.
  exists a2, a3.
  rewrite Po2, Po1, !set_nth_twice in Po3. rewrite Pi2, Pi1, !set_nth_twice in Pi3.
  rewrite Po1, set_nth_twice in Po2. rewrite Pi1, set_nth_twice in Pi2.
  assert (C2' : calls (d_in s2) = tsend dry i (tstep dry r a1 (po, pi)) ++ tsend dry i (po, pi) ++ calls (d_in s)).
  { rewrite C2, C1. unfold tsend, tstep. cbn [fst snd].
    destruct (sends dry (t_out dry r a1 po pi) (t_in dry r po pi)), (sends dry po pi); reflexivity. }
  assert (C1' : calls (d_in s1) = tsend dry i (po, pi) ++ calls (d_in s)).
  { rewrite C1. unfold tsend. cbn [fst snd]. destruct (sends dry po pi); reflexivity. }
  assert (C3' : calls (d_in s3) = tsend dry i (tstep dry r a2 (tstep dry r a1 (po, pi)))
                                  ++ tsend dry i (tstep dry r a1 (po, pi)) ++ tsend dry i (po, pi) ++ calls (d_in s)).
  { rewrite C3, C2'. unfold tsend, tstep. cbn [fst snd].
    repeat match goal with |- context [if ?b then _ else _] => destruct b end; reflexivity. }
  cbv zeta. unfold de_hstep, thstep. cbv zeta.
  rewrite (de_inapi_pcs s i po pi Ho Hi). rewrite <- E1.
  rewrite (de_inapi_pcs s1 i _ _ Ho1 Hi1). rewrite <- E2.
  rewrite (de_inapi_pcs s2 i _ _ Ho2 Hi2). rewrite <- E3.
  change (match po with PInApi => match pi with PInApi => true | _ => false end | _ => false end)
    with (pinapi (po, pi)).
  change (match t_out dry r a1 po pi with
          | PInApi => match t_in dry r po pi with PInApi => true | _ => false end | _ => false end)
    with (pinapi (tstep dry r a1 (po, pi))).
  change (match t_out dry r a2 (t_out dry r a1 po pi) (t_in dry r po pi) with
          | PInApi => match t_in dry r (t_out dry r a1 po pi) (t_in dry r po pi) with PInApi => true | _ => false end
          | _ => false end)
    with (pinapi (tstep dry r a2 (tstep dry r a1 (po, pi)))).
  destruct (pinapi (po, pi)).
  { cbn [fst snd]. rewrite <- app_assoc. repeat split; assumption. }
  destruct (pinapi (tstep dry r a1 (po, pi))).
  { cbn [fst snd]. repeat split; assumption. }
  destruct (pinapi (tstep dry r a2 (tstep dry r a1 (po, pi)))).
  { cbn [fst snd]. rewrite <- app_assoc. repeat split; assumption. }
  cbn [fst snd]. rewrite <- !app_assoc. repeat split; assumption.
Qed.

(* what a harness step does to a thread that is at a park point *)
Inductive dmove (dry : bool) (r : req) : pc -> pc -> pc -> pc -> list nat -> nat -> Prop :=
| dm_refuse i : dmove dry r PStart PStart PRefused PStart [] i
| dm_dry i : dry = true -> dmove dry r PStart PStart PDoneOk PStart [] i
| dm_send i : dry = false -> dmove dry r PStart PStart PInApi PInApi [i] i
| dm_ok i : dry = false -> r_ok r = true -> dmove dry r PInApi PInApi PDoneOk PDoneOk [] i
| dm_fail i : dry = false -> r_ok r = false -> dmove dry r PInApi PInApi PDoneFail PDoneFail [] i
| dm_stay po pi i : is_done po = true -> dmove dry r po pi po pi [] i.

(* ------------------------------------------------------------------ *)
(* the link between the model's state and the checker's statuses        *)
(* ------------------------------------------------------------------ *)
Inductive linkR (dry : bool) (r : req) : pc -> pc -> dstat -> Prop :=
| lk_start : linkR dry r PStart PStart (mkDS false 0 false)
| lk_refused old : linkR dry r PRefused PStart (mkDS false 1 old)
| lk_inapi : dry = false -> linkR dry r PInApi PInApi (mkDS true 0 false)
| lk_ok_dry : dry = true -> linkR dry r PDoneOk PStart (mkDS false 2 false)
| lk_ok : dry = false -> r_ok r = true -> linkR dry r PDoneOk PDoneOk (mkDS true 2 false)
| lk_fail old : dry = false -> r_ok r = false -> linkR dry r PDoneFail PDoneFail (mkDS true 1 old)
| lk_old_dry : dry = true -> linkR dry r PDoneFail PStart (mkDS false 2 true)
| lk_old : dry = false -> r_ok r = true -> linkR dry r PDoneFail PDoneOk (mkDS true 2 true).

Inductive linkL (dry : bool) : list req -> list pc -> list pc -> list dstat -> Prop :=
| ll_nil : linkL dry [] [] [] []
| ll_cons r po pi t reqs pos pis ts :
    linkR dry r po pi t -> linkL dry reqs pos pis ts ->
    linkL dry (r :: reqs) (po :: pos) (pi :: pis) (t :: ts).

Lemma linkL_nth dry reqs pos pis ts i r :
  linkL dry reqs pos pis ts -> nth_error reqs i = Some r ->
  exists po pi t, nth_error pos i = Some po /\ nth_error pis i = Some pi /\ nth_error ts i = Some t
                  /\ linkR dry r po pi t.
Proof.
  intro L. revert i. induction L as [|r0 po pi t reqs pos pis ts H L IH]; intros [|i] Hr; cbn in *;
    try discriminate.
  - inversion Hr; subst. eauto 8.
  - apply IH, Hr.
Qed.

Lemma linkL_none dry reqs pos pis ts i :
  linkL dry reqs pos pis ts -> nth_error reqs i = None ->
  nth_error pos i = None /\ nth_error pis i = None /\ nth_error ts i = None.
Proof.
  intro L. revert i. induction L as [|r0 po pi t reqs pos pis ts H L IH]; intros [|i] Hr; cbn in *;
    try discriminate; auto.
Qed.

Lemma linkL_set dry reqs pos pis ts i r po' pi' t' :
  linkL dry reqs pos pis ts -> nth_error reqs i = Some r -> linkR dry r po' pi' t' ->
  linkL dry reqs (set_nth i po' pos) (set_nth i pi' pis) (set_nth i t' ts).
Proof.
  intro L. revert i. induction L as [|r0 po pi t reqs pos pis ts H L IH]; intros [|i] Hr Hk; cbn in *;
    try discriminate.
  - inversion Hr; subst. constructor; assumption.
  - constructor; [assumption|]. apply IH; assumption.
Qed.

Lemma linkL_retire dry reqs pos pis ts :
  linkL dry reqs pos pis ts -> linkL dry reqs (map retire pos) pis (map retire_stat ts).
Proof.
  induction 1 as [|r po pi t reqs pos pis ts H L IH]; cbn [map]; constructor; [|exact IH].
  destruct H; cbn; try constructor; assumption.
Qed.

Lemma linkL_init dry reqs :
  linkL dry reqs (repeat PStart (length reqs)) (repeat PStart (length reqs))
        (repeat (mkDS false 0 false) (length reqs)).
Proof. induction reqs as [|r reqs IH]; cbn; constructor; [constructor|exact IH]. Qed.

(* the checker's counts are the weighted sums over the program counters *)
Lemma dcount_link dry (g : req -> dstat -> bool) (fo : pc -> pc -> bool) sel reqs pos pis ts :
  linkL dry reqs pos pis ts ->
  (forall r po pi t, linkR dry r po pi t -> g r t = fo po pi) ->
  dcount g sel reqs ts
  = sumZ (map (fun x : req * (pc * pc) => if sel (fst x) && fo (fst (snd x)) (snd (snd x)) then 1 else 0)
              (combine reqs (combine pos pis))).
Proof.
  intros L Hg. unfold dcount. induction L as [|r po pi t reqs pos pis ts H L IH]; [reflexivity|].
  cbn [combine filter map fst snd]. rewrite sumZ_cons, <- IH, (Hg r po pi t H).
  destruct (sel r && fo po pi); cbn [length]; lia.
Qed.

Lemma sum_combine_out (w : req -> pc -> Z) reqs pos pis :
  length pos = length pis ->
  sumZ (map (fun x : req * (pc * pc) => w (fst x) (fst (snd x))) (combine reqs (combine pos pis))) = tsum w reqs pos.
Proof.
  unfold tsum. revert pos pis. induction reqs as [|r reqs IH]; intros [|po pos] [|pi pis] Hl;
    cbn [combine map fst snd length] in *; try reflexivity; try discriminate.
  rewrite !sumZ_cons, IH by lia. reflexivity.
Qed.

Lemma sum_combine_in (w : req -> pc -> Z) reqs pos pis :
  length pos = length pis ->
  sumZ (map (fun x : req * (pc * pc) => w (fst x) (snd (snd x))) (combine reqs (combine pos pis))) = tsum w reqs pis.
Proof.
  unfold tsum. revert pos pis. induction reqs as [|r reqs IH]; intros [|po pos] [|pi pis] Hl;
    cbn [combine map fst snd length] in *; try reflexivity; try discriminate.
  rewrite !sumZ_cons, IH by lia. reflexivity.
Qed.

Lemma linkL_len dry reqs pos pis ts :
  linkL dry reqs pos pis ts -> length pos = length reqs /\ length pis = length reqs /\ length ts = length reqs.
Proof. induction 1; cbn; intuition lia. Qed.

Lemma done_link dry sel reqs pos pis ts :
  linkL dry reqs pos pis ts ->
  dcount (done_now dry) sel reqs ts = tsum (wl_of sel doneok) reqs pos.
Proof.
  intro L. rewrite (dcount_link dry (done_now dry) (fun po _ => doneok po) sel reqs pos pis ts L).
  - destruct (linkL_len _ _ _ _ _ L) as [H1 [H2 _]].
    rewrite <- (sum_combine_out (wl_of sel doneok) reqs pos pis) by lia.
    apply sumZ_map_ext. intros [r [po pi]] _. unfold w_of. cbn. reflexivity.
  - intros r po pi t H. unfold done_now, succeeded.
    destruct H; subst; cbn; repeat match goal with E : r_ok _ = _ |- _ => rewrite E end;
      try destruct dry; try destruct old; reflexivity.
Qed.

Lemma granted_link dry sel reqs pos pis ts :
  linkL dry reqs pos pis ts ->
  dcount (granted_now dry) sel reqs ts = tsum (wl_of sel granted_pc) reqs pos.
Proof.
  intro L. rewrite (dcount_link dry (granted_now dry) (fun po _ => granted_pc po) sel reqs pos pis ts L).
  - destruct (linkL_len _ _ _ _ _ L) as [H1 [H2 _]].
    rewrite <- (sum_combine_out (wl_of sel granted_pc) reqs pos pis) by lia.
    apply sumZ_map_ext. intros [r [po pi]] _. unfold w_of. cbn. reflexivity.
  - intros r po pi t H. unfold granted_now, parked, succeeded.
    destruct H; subst; cbn; repeat match goal with E : r_ok _ = _ |- _ => rewrite E end;
      try destruct dry; try destruct old; reflexivity.
Qed.

Lemma live_link dry sel reqs pos pis ts :
  linkL dry reqs pos pis ts ->
  dcount live_ever sel reqs ts = tsum (w_of false sel live) reqs pis.
Proof.
  intro L. rewrite (dcount_link dry live_ever (fun _ pi => live pi) sel reqs pos pis ts L).
  - destruct (linkL_len _ _ _ _ _ L) as [H1 [H2 _]].
    rewrite <- (sum_combine_in (w_of false sel live) reqs pos pis) by lia.
    apply sumZ_map_ext. intros [r [po pi]] _. unfold w_of. cbn. reflexivity.
  - intros r po pi t H. unfold live_ever, parked, succeeded.
    destruct H; subst; cbn; repeat match goal with E : r_ok _ = _ |- _ => rewrite E end;
      try destruct dry; try destruct old; reflexivity.
Qed.

Lemma link_settled_in dry reqs pos pis ts :
  linkL dry reqs pos pis ts -> forall p, In p pis -> p <> PAdmitted /\ p <> PPost.
Proof.
  induction 1 as [|r po pi t reqs pos pis ts H L IH]; intros p Hp; [destruct Hp|].
  destruct Hp as [<-|Hp]; [|auto]. destruct H; split; discriminate.
Qed.

(* ------------------------------------------------------------------ *)
(* a harness step from a linked state                                   *)
(* ------------------------------------------------------------------ *)
Lemma de_hstep_link dry c reqs s i r po pi t :
  nth_error (pcs (d_out s)) i = Some po -> nth_error (pcs (d_in s)) i = Some pi ->
  nth_error reqs i = Some r -> linkR dry r po pi t ->
  let s' := de_hstep dry c reqs s i in
  exists po' pi' sent,
    dmove dry r po pi po' pi' sent i
    /\ pcs (d_out s') = set_nth i po' (pcs (d_out s))
    /\ pcs (d_in s') = set_nth i pi' (pcs (d_in s))
    /\ calls (d_in s') = sent ++ calls (d_in s).
Proof.
  intros Ho Hi Hr L s'.
  destruct (de_hstep_eval dry c reqs s i po pi r Ho Hi Hr) as [a2 [a3 H]].
  cbv zeta in H. fold s' in H. revert H. generalize (allowed c r (d_out s)) as a1. intros a1 H.
  destruct L.
  - (* start *)
    destruct a1; [destruct dry eqn:Ed|].
    + exists PDoneOk, PStart, []. split; [apply dm_dry; reflexivity|exact H].
    + exists PInApi, PInApi, [i]. split; [apply dm_send; reflexivity|exact H].
    + exists PRefused, PStart, []. split; [apply dm_refuse|].
      destruct dry; exact H.
  - exists PRefused, PStart, []. split; [apply dm_stay; reflexivity|]. destruct dry; exact H.
  - subst dry. destruct (r_ok r) eqn:Eo.
    + exists PDoneOk, PDoneOk, []. split; [apply dm_ok; auto|].
      unfold thstep, tstep in H. cbn [pinapi fst snd t_out t_in tsend sends] in H. rewrite Eo in H.
      cbn [pinapi fst snd t_out t_in tsend sends app] in H. exact H.
    + exists PDoneFail, PDoneFail, []. split; [apply dm_fail; auto|].
      unfold thstep, tstep in H. cbn [pinapi fst snd t_out t_in tsend sends] in H. rewrite Eo in H.
      cbn [pinapi fst snd t_out t_in tsend sends app] in H. rewrite Eo in H. exact H.
  - exists PDoneOk, PStart, []. split; [apply dm_stay; reflexivity|]. subst dry. exact H.
  - exists PDoneOk, PDoneOk, []. split; [apply dm_stay; reflexivity|]. subst dry. exact H.
  - exists PDoneFail, PDoneFail, []. split; [apply dm_stay; reflexivity|]. subst dry. exact H.
  - exists PDoneFail, PStart, []. split; [apply dm_stay; reflexivity|]. subst dry. exact H.
  - exists PDoneFail, PDoneOk, []. split; [apply dm_stay; reflexivity|]. subst dry. exact H.
Qed.

Lemma de_step_none dry c reqs s i :
  nth_error reqs i = None ->
  d_out (de_step dry c reqs s i) = d_out s /\ d_in (de_step dry c reqs s i) = d_in s.
Proof.
  intro Hr. unfold de_step, de_moves_out, de_moves_in. rewrite Hr. cbn [d_out d_in].
  destruct (nth_error (pcs (d_out s)) i); [destruct (nth_error (pcs (d_in s)) i)|]; split; reflexivity.
Qed.

Lemma de_hstep_none dry c reqs s i :
  nth_error reqs i = None ->
  d_out (de_hstep dry c reqs s i) = d_out s /\ d_in (de_hstep dry c reqs s i) = d_in s.
Proof.
  intro Hr. unfold de_hstep.
  destruct (de_step_none dry c reqs s i Hr) as [A1 B1].
  destruct (de_step_none dry c reqs (de_step dry c reqs s i) i Hr) as [A2 B2].
  destruct (de_step_none dry c reqs (de_step dry c reqs (de_step dry c reqs s i) i) i Hr) as [A3 B3].
  repeat match goal with |- context [if ?b then _ else _] => destruct b end; split; congruence.
Qed.

Lemma ret_code_same p : ret_code p p = 0.
Proof. destruct p; reflexivity. Qed.

Lemma set_nth_none {A} i (v : A) l : nth_error l i = None -> set_nth i v l = l.
Proof. revert i. induction l as [|x l IH]; intros [|i]; cbn; try discriminate; auto.
  intro H. f_equal. apply IH, H. Qed.

(* ------------------------------------------------------------------ *)
(* the reported counters, from the invariants of the two layers         *)
(* ------------------------------------------------------------------ *)
Definition psnap (N M : nat) (w : (req -> bool) -> req -> pc -> Z) (reqs : list req) (ps : list pc) : list Z :=
  tsum (w any_req) reqs ps
  :: (0 :: map (fun k => tsum (w (on_node k)) reqs ps) (zrange 1 N))
  ++ map (fun k => tsum (w (on_ns k)) reqs ps) (zrange 1 M).

Lemma node_sel_on_node f dry k reqs ps :
  1 <= k -> tsum (w_of dry (node_sel k) f) reqs ps = tsum (w_of dry (on_node k) f) reqs ps.
Proof.
  intro Hk. apply tsum_ext. intros r p _. unfold w_of, node_sel, on_node.
  replace (k =? 0) with false by (symmetry; apply Z.eqb_neq; lia). rewrite andb_true_r. reflexivity.
Qed.

Lemma node_sel_zero f dry reqs ps : tsum (w_of dry (node_sel 0) f) reqs ps = 0.
Proof.
  unfold tsum. apply sumZ_map_zero. intros [r p] _. unfold w_of, node_sel. cbn.
  rewrite !andb_false_r. reflexivity.
Qed.

Lemma snap_out c reqs N M o :
  lim_inv c reqs o -> snap N M o = psnap N M (fun sel => wl_of sel doneok) reqs (pcs o).
Proof.
  intros [I1 I2 I3 _ _ _ _]. unfold snap, psnap. rewrite I3. f_equal. rewrite zrange_shift. cbn [map app].
  rewrite I1, node_sel_zero. f_equal. f_equal.
  - apply map_ext_in. intros k Hk. apply zrange_ge in Hk. rewrite I1. apply node_sel_on_node, Hk.
  - apply map_ext. intro k. apply I2.
Qed.

Lemma snap_in reqs N M n :
  pe_inv false nocaps reqs n -> settled n ->
  snap N M n = psnap N M (fun sel => w_of false sel live) reqs (pcs n).
Proof.
  intros I Hset.
  assert (Heq : forall sel, tsum (w_of false sel held) reqs (pcs n) = tsum (w_of false sel live) reqs (pcs n)).
  { intro sel. apply tsum_ext. intros r p Hp. unfold w_of.
    destruct (Hset p Hp) as [H1 H2]. destruct p; try reflexivity; congruence. }
  unfold snap, psnap. rewrite (pi_ct _ _ _ _ I), Heq. f_equal. rewrite zrange_shift. cbn [map app].
  rewrite (pi_cn _ _ _ _ I), node_sel_zero. f_equal. f_equal.
  - apply map_ext_in. intros k Hk. apply zrange_ge in Hk.
    rewrite (pi_cn _ _ _ _ I), node_sel_on_node by exact Hk. apply Heq.
  - apply map_ext. intro k. rewrite (pi_cs _ _ _ _ I). apply Heq.
Qed.

Lemma snap_of_done dry N M reqs pos pis ts :
  linkL dry reqs pos pis ts ->
  snap_of N M (done_now dry) reqs ts = psnap N M (fun sel => wl_of sel doneok) reqs pos.
Proof.
  intro L. unfold snap_of, psnap. rewrite (done_link dry any_req _ _ _ _ L). f_equal. f_equal. f_equal.
  - apply map_ext. intro k. apply (done_link dry (on_node k) _ _ _ _ L).
  - apply map_ext. intro k. apply (done_link dry (on_ns k) _ _ _ _ L).
Qed.

Lemma snap_of_live dry N M reqs pos pis ts :
  linkL dry reqs pos pis ts ->
  snap_of N M live_ever reqs ts = psnap N M (fun sel => w_of false sel live) reqs pis.
Proof.
  intro L. unfold snap_of, psnap. rewrite (live_link dry any_req _ _ _ _ L). f_equal. f_equal. f_equal.
  - apply map_ext. intro k. apply (live_link dry (on_node k) _ _ _ _ L).
  - apply map_ext. intro k. apply (live_link dry (on_ns k) _ _ _ _ L).
Qed.

Lemma psnap_set_same N M w reqs ps i p p' r :
  nth_error ps i = Some p -> nth_error reqs i = Some r ->
  (forall sel, w sel r p' = w sel r p) ->
  psnap N M w reqs (set_nth i p' ps) = psnap N M w reqs ps.
Proof.
  intros Hp Hr Hw.
  assert (H : forall sel, tsum (w sel) reqs (set_nth i p' ps) = tsum (w sel) reqs ps).
  { intro sel. rewrite (tsum_set_nth (w sel) reqs ps i p p' r Hp Hr), Hw. lia. }
  unfold psnap. rewrite H.
  rewrite (map_ext _ _ (fun k => H (on_node k))), (map_ext _ _ (fun k => H (on_ns k))). reflexivity.
Qed.

(* ------------------------------------------------------------------ *)
(* the check of one record                                              *)
(* ------------------------------------------------------------------ *)
Section Check.
  Variable e : dcase.
  Hypothesis Hcaps : caps_nonneg (dc_caps e).
  Let dry := dc_dry e.
  Let c := dc_caps e.
  Let reqs := dc_reqs e.
  Let N := dc_N e.
  Let M := dc_M e.
  Let fl := dc_flags e.
  Let attrs := dc_attrs e.

  Definition dlinked (ts : list dstat) (prev : drec) (s : dst) : Prop :=
    linkL dry reqs (pcs (d_out s)) (pcs (d_in s)) ts
    /\ r_oc prev = snap N M (d_out s) /\ r_ic prev = snap N M (d_in s).

  Definition op_ok (s : dst) (o : dop) : Prop :=
    match o with
    | DStep i => start_ok reqs (d_out s) i
    | DReset => nobody_in_flight reqs (d_out s)
    | _ => True
    end.

  Lemma caps_counters_ok o n ts :
    lim_inv c reqs o -> pe_inv false nocaps reqs n -> linkL dry reqs (pcs o) (pcs n) ts ->
    de_caps_okb e ts = true
    /\ eq_listZ (snap N M o) (snap_of N M (done_now dry) reqs ts) = true
    /\ eq_listZ (snap N M n) (snap_of N M live_ever reqs ts) = true.
  Proof.
    intros I J L. destruct Hcaps as [Hc1 [Hc2 Hc3]]. split; [|split].
    - unfold de_caps_okb. fold dry c reqs N M.
      apply andb_true_iff. split; [apply andb_true_iff; split|].
      + apply forallb_forall. intros k Hk. apply zrange_ge in Hk.
        rewrite (granted_link dry (on_node k) _ _ _ _ L).
        unfold cap_ok. destruct (cap_node c) as [m|] eqn:Em; [|reflexivity]. apply Z.leb_le.
        rewrite <- (node_sel_on_node granted_pc false k reqs (pcs o) Hk).
        apply (li_capn _ _ _ I m k Em (Hc1 m Em)).
      + apply forallb_forall. intros k Hk.
        rewrite (granted_link dry (on_ns k) _ _ _ _ L).
        unfold cap_ok. destruct (cap_ns c) as [m|] eqn:Em; [|reflexivity]. apply Z.leb_le.
        apply (li_caps _ _ _ I m k Em (Hc2 m Em)).
      + rewrite (granted_link dry any_req _ _ _ _ L).
        unfold cap_ok. destruct (cap_total c) as [m|] eqn:Em; [|reflexivity]. apply Z.leb_le.
        apply (li_capt _ _ _ I m Em (Hc3 m Em)).
    - rewrite (snap_out c reqs N M o I), (snap_of_done dry N M reqs _ _ _ L). apply eq_listZ_refl.
    - rewrite (snap_in reqs N M n J), (snap_of_live dry N M reqs _ _ _ L); [apply eq_listZ_refl|].
      intros p Hp. exact (link_settled_in dry _ _ _ _ L p Hp).
  Qed.

  Lemma rec_ok ts' prev o :
    (dry = true -> r_api o = false) ->
    de_caps_okb e ts' = true -> de_counters_okb e ts' o = true ->
    de_refusal_okb ts' prev o = true -> de_query_okb prev o = true -> de_answer_okb e ts' o = true ->
    de_check_rec e ts' prev o = 0.
  Proof.
    intros H4 H1 H2 H3 H5 H6. unfold de_check_rec.
    assert (E4 : de_dry_okb e o = true).
    { unfold de_dry_okb. fold dry. destruct dry eqn:Ed; [rewrite (H4 eq_refl)|]; reflexivity. }
    rewrite E4, H1, H2, H3, H5, H6. reflexivity.
  Qed.

  (* an operation that leaves the state alone *)
  Lemma dcheck_idle ts prev s o :
    (match o with DStep _ | DReset => False | _ => True end) ->
    lim_inv c reqs (d_out s) -> pe_inv false nocaps reqs (d_in s) -> dlinked ts prev s ->
    let rec := de_observe fl c N M attrs s s o in
    de_check_rec e (de_stats_next ts rec) prev rec = 0 /\ dlinked (de_stats_next ts rec) rec s.
  Proof.
    intros Ho I J [L [Hoc Hic]] rec.
    assert (Hst : de_stats_next ts rec = ts) by (destruct o; try reflexivity; destruct Ho).
    assert (Hapi : r_api rec = false) by (subst rec; cbn [de_observe r_api]; rewrite Nat.eqb_refl; reflexivity).
    assert (Hret : r_ret rec = 0) by (destruct o; try reflexivity; destruct Ho).
    destruct (caps_counters_ok _ _ _ I J L) as [K1 [K2 K3]].
    rewrite Hst. split; [|split; [exact L|split; reflexivity]].
    apply rec_ok; auto.
    - unfold de_counters_okb. fold dry reqs N M. cbn [rec de_observe r_oc r_ic]. rewrite K2, K3. reflexivity.
    - destruct o; try reflexivity; destruct Ho.
    - assert (Hsame : same_counters prev rec = true).
      { unfold same_counters. cbn [rec de_observe r_oc r_ic]. rewrite Hoc, Hic, !eq_listZ_refl. reflexivity. }
      unfold de_query_okb. rewrite Hapi, Hret, Hsame.
      destruct o; try reflexivity; destruct Ho.
    - destruct o; try reflexivity; destruct Ho.
  Qed.

  Lemma dcheck_reset ts prev s :
    nobody_in_flight reqs (d_out s) ->
    lim_inv c reqs (d_out s) -> pe_inv false nocaps reqs (d_in s) -> dlinked ts prev s ->
    let s' := de_reset s in
    let rec := de_observe fl c N M attrs s s' DReset in
    de_check_rec e (de_stats_next ts rec) prev rec = 0
    /\ lim_inv c reqs (d_out s') /\ dlinked (de_stats_next ts rec) rec s'.
  Proof.
    intros Hq I J [L [Hoc Hic]] s' rec.
    assert (I' : lim_inv c reqs (d_out s')) by (apply lim_inv_reset; assumption).
    assert (L' : linkL dry reqs (pcs (d_out s')) (pcs (d_in s')) (map retire_stat ts)).
    { cbn [s' de_reset d_out d_in pcs]. apply linkL_retire, L. }
    assert (Hst : de_stats_next ts rec = map retire_stat ts) by reflexivity.
    assert (Hapi : r_api rec = false) by (subst rec; cbn [de_observe r_api s' de_reset d_in]; rewrite Nat.eqb_refl; reflexivity).
    destruct (caps_counters_ok _ _ _ I' J L') as [K1 [K2 K3]].
    rewrite Hst. split; [|split; [exact I'|split; [exact L'|split; reflexivity]]].
    apply rec_ok; auto.
    - unfold de_counters_okb. fold dry reqs N M. cbn [rec de_observe r_oc r_ic]. rewrite K2.
      cbn [s' de_reset d_in] in K3 |- *. rewrite K3. reflexivity.
    - unfold de_query_okb. rewrite Hapi. cbn [rec de_observe r_op r_ret r_ic s' de_reset d_in].
      rewrite Hic, eq_listZ_refl. reflexivity.
  Qed.

  Lemma dstat_eta t : mkDS (s_api t || false) (s_ret t) (s_old t) = t.
  Proof. destruct t; cbn. rewrite orb_false_r. reflexivity. Qed.

  Lemma dcheck_step ts prev s i :
    start_ok reqs (d_out s) i ->
    lim_inv c reqs (d_out s) -> pe_inv false nocaps reqs (d_in s) -> dlinked ts prev s ->
    let s' := de_hstep dry c reqs s i in
    let rec := de_observe fl c N M attrs s s' (DStep i) in
    de_check_rec e (de_stats_next ts rec) prev rec = 0
    /\ lim_inv c reqs (d_out s') /\ pe_inv false nocaps reqs (d_in s')
    /\ dlinked (de_stats_next ts rec) rec s'.
  Proof.
    intros Hs I J [L [Hoc Hic]] s' rec.
    assert (I' : lim_inv c reqs (d_out s')) by (apply de_hstep_lim_inv; assumption).
    assert (J' : pe_inv false nocaps reqs (d_in s')).
    { destruct (de_hstep_in_run dry c reqs s i) as [l El]. fold s' in El. rewrite El.
      apply pe_inv_exec, J. }
    assert (Hst : de_stats_next ts rec = dstat_upd ts i (r_api rec) (r_ret rec)) by reflexivity.
    destruct (nth_error reqs i) as [r|] eqn:Hr.
    2:{ (* no such thread: nothing happens *)
      destruct (de_hstep_none dry c reqs s i Hr) as [Eo Ei]. fold s' in Eo, Ei.
      destruct (linkL_none dry _ _ _ _ i L Hr) as [_ [_ Hts]].
      assert (Hapi : r_api rec = false) by (subst rec; cbn [de_observe r_api]; rewrite Ei, Nat.eqb_refl; reflexivity).
      assert (Hret : r_ret rec = 0) by (subst rec; cbn [de_observe r_ret]; rewrite Eo; apply ret_code_same).
      assert (Hts' : de_stats_next ts rec = ts).
      { rewrite Hst. unfold dstat_upd. apply set_nth_none, Hts. }
      assert (L' : linkL dry reqs (pcs (d_out s')) (pcs (d_in s')) ts) by (rewrite Eo, Ei; exact L).
      destruct (caps_counters_ok _ _ _ I' J' L') as [K1 [K2 K3]].
      rewrite Hts'. split; [|split; [exact I'|split; [exact J'|split; [exact L'|split; reflexivity]]]].
      apply rec_ok; auto.
      - unfold de_counters_okb. fold dry reqs N M. cbn [rec de_observe r_oc r_ic]. rewrite K2, K3. reflexivity.
      - unfold de_refusal_okb. cbn [rec de_observe r_op]. fold rec. rewrite Hret. reflexivity.
      - unfold de_answer_okb. cbn [rec de_observe r_op]. fold rec. rewrite Hret. reflexivity. }
    destruct (linkL_nth dry _ _ _ _ i r L Hr) as [po [pi [t [Ho [Hi [Ht Hk]]]]]].
    destruct (de_hstep_link dry c reqs s i r po pi t Ho Hi Hr Hk) as [po' [pi' [sent [Hm [Po [Pi Ca]]]]]].
    fold s' in Po, Pi, Ca.
    assert (Ho' : nth_error (pcs (d_out s')) i = Some po') by (rewrite Po; eapply nth_error_set_same; eassumption).
    assert (Hret : r_ret rec = ret_code po po').
    { subst rec. cbn [de_observe r_ret]. rewrite (pc_of_nth _ _ _ Ho), (pc_of_nth _ _ _ Ho'). reflexivity. }
    assert (Hapi : r_api rec = match sent with [] => false | _ => true end).
    { subst rec. cbn [de_observe r_api]. rewrite Ca. destruct Hm; cbn [app length]; rewrite ?Nat.eqb_refl; try reflexivity.
      destruct (Nat.eqb_spec (length (calls (d_in s))) (S (length (calls (d_in s))))); [lia|reflexivity]. }
    set (t' := mkDS (s_api t || r_api rec) (if r_ret rec =? 0 then s_ret t else r_ret rec) (s_old t)).
    assert (Hts' : de_stats_next ts rec = set_nth i t' ts).
    { rewrite Hst. unfold dstat_upd. rewrite (nth_error_nth _ _ _ Ht). reflexivity. }
    assert (Hk' : linkR dry r po' pi' t').
    { subst t'. rewrite Hret, Hapi.
      destruct Hm; inversion Hk; subst; cbn; try constructor; auto; try congruence.
      all: try (rewrite ret_code_same; cbn [Z.eqb]; rewrite orb_false_r; try constructor; auto).
      all: try discriminate. }
    assert (L' : linkL dry reqs (pcs (d_out s')) (pcs (d_in s')) (set_nth i t' ts)).
    { rewrite Po, Pi. exact (linkL_set dry reqs _ _ _ i r po' pi' t' L Hr Hk'). }
    assert (Ht' : nth i (set_nth i t' ts) (mkDS false 0 false) = t').
    { apply nth_error_nth. eapply nth_error_set_same; eassumption. }
    destruct (caps_counters_ok _ _ _ I' J' L') as [K1 [K2 K3]].
    rewrite Hts'. split; [|split; [exact I'|split; [exact J'|split; [exact L'|split; reflexivity]]]].
    apply rec_ok; auto.
    - intro Hd. rewrite Hapi. destruct Hm; try reflexivity. fold dry in Hd. congruence.
    - unfold de_counters_okb. fold dry reqs N M. cbn [rec de_observe r_oc r_ic]. rewrite K2, K3. reflexivity.
    - (* a refusal has no side effect *)
      unfold de_refusal_okb. cbn [rec de_observe r_op]. fold rec. rewrite Ht'.
      destruct ((r_ret rec =? 1) && negb (s_api t')) eqn:Er; [|reflexivity]. cbn [negb orb].
      apply andb_true_iff in Er. destruct Er as [Er1 Er2]. apply Z.eqb_eq in Er1.
      apply negb_true_iff in Er2.
      assert (Hcase : po = PStart /\ pi = PStart /\ po' = PRefused /\ pi' = PStart /\ sent = []).
      { subst t'. cbn [s_api] in Er2. rewrite Hret in Er1. rewrite Hapi in Er2.
        destruct Hm; cbn in Er1; try discriminate; auto 6.
        - inversion Hk; subst; cbn in Er2; discriminate.
        - rewrite ret_code_same in Er1. discriminate. }
      destruct Hcase as [-> [-> [-> [-> ->]]]].
      rewrite Hapi. cbn [negb andb]. unfold same_counters. cbn [rec de_observe r_oc r_ic].
      rewrite Hoc, Hic.
      rewrite (snap_out c reqs N M _ I'), (snap_out c reqs N M _ I), Po.
      rewrite (psnap_set_same N M _ reqs _ i PStart PRefused r Ho Hr) by (intro sel; unfold w_of; cbn; rewrite !andb_false_r; reflexivity).
      rewrite eq_listZ_refl. cbn [andb].
      assert (Hin : pcs (d_in s') = pcs (d_in s)) by (rewrite Pi; apply set_nth_id, Hi).
      rewrite (snap_in reqs N M _ J'), (snap_in reqs N M _ J), Hin; [apply eq_listZ_refl| |].
      + intros p Hp. exact (link_settled_in dry _ _ _ _ L p Hp).
      + intros p Hp. exact (link_settled_in dry _ _ _ _ L' p Hp).
    - (* the answer is the fate of the eviction *)
      unfold de_answer_okb. cbn [rec de_observe r_op]. fold rec. fold dry reqs. rewrite Hr, Ht'.
      destruct (r_ret rec =? 0) eqn:E0; [reflexivity|]. destruct dry eqn:Ed; [reflexivity|]. cbn [orb].
      subst t'. cbn [s_api]. rewrite Hret in *. rewrite Hapi.
      destruct Hm; cbn in E0 |- *; try discriminate.
      + inversion Hk; subst. reflexivity.
      + inversion Hk; subst. cbn. match goal with E : r_ok r = _ |- _ => rewrite E end. reflexivity.
      + inversion Hk; subst. cbn. match goal with E : r_ok r = _ |- _ => rewrite E end. reflexivity.
      + rewrite ret_code_same in E0. discriminate.
  Qed.
End Check.

Lemma dcheck_op e ts prev s o :
  caps_nonneg (dc_caps e) ->
  lim_inv (dc_caps e) (dc_reqs e) (d_out s) -> pe_inv false nocaps (dc_reqs e) (d_in s) ->
  dlinked e ts prev s -> op_ok e s o ->
  let s' := de_op (dc_dry e) (dc_caps e) (dc_reqs e) s o in
  let rec := de_observe (dc_flags e) (dc_caps e) (dc_N e) (dc_M e) (dc_attrs e) s s' o in
  de_check_rec e (de_stats_next ts rec) prev rec = 0
  /\ lim_inv (dc_caps e) (dc_reqs e) (d_out s') /\ pe_inv false nocaps (dc_reqs e) (d_in s')
  /\ dlinked e (de_stats_next ts rec) rec s'.
Proof.
  intros Hc I J Hl Hop s' rec.
  destruct o; cbn [de_op] in s'.
  - exact (dcheck_step e Hc ts prev s i Hop I J Hl).
  - destruct (dcheck_idle e Hc ts prev s (DFilter i) Logic.I I J Hl) as [A B]. auto.
  - destruct (dcheck_idle e Hc ts prev s (DPre i) Logic.I I J Hl) as [A B]. auto.
  - destruct (dcheck_idle e Hc ts prev s (DNodeLim k) Logic.I I J Hl) as [A B]. auto.
  - destruct (dcheck_reset e Hc ts prev s Hop I J Hl) as [A [B C]]. auto.
  - destruct (dcheck_idle e Hc ts prev s DNop Logic.I I J Hl) as [A B]. auto.
Qed.

Lemma dcheck_trace e ops : forall ts prev s,
  caps_nonneg (dc_caps e) ->
  lim_inv (dc_caps e) (dc_reqs e) (d_out s) -> pe_inv false nocaps (dc_reqs e) (d_in s) ->
  dlinked e ts prev s ->
  de_disciplined (dc_dry e) (dc_caps e) (dc_reqs e) s ops ->
  de_check_from e ts prev
    (de_trace (dc_dry e) (dc_flags e) (dc_caps e) (dc_N e) (dc_M e) (dc_reqs e) (dc_attrs e) ops s) = 0.
Proof.
  induction ops as [|o t IH]; intros ts prev s Hc I J Hl D; cbn [de_trace de_check_from]; [reflexivity|].
  destruct D as [D1 D2]. cbv zeta.
  match goal with |- context [bad_reset ?a ?b] => destruct (bad_reset a b) end; [reflexivity|].
  assert (Hop : op_ok e s o) by (destruct o; exact D1).
  destruct (dcheck_op e ts prev s o Hc I J Hl Hop) as [A [I' [J' L']]].
  cbv zeta in A. rewrite A. cbn [Z.eqb]. apply IH; assumption.
Qed.

Lemma de_trace_length dry f c N M reqs attrs ops s :
  length (de_trace dry f c N M reqs attrs ops s) = length ops.
Proof. revert s. induction ops as [|o t IH]; intro s; cbn; [reflexivity|]. rewrite IH. reflexivity. Qed.

Lemma same_op_refl o : same_op o o = true.
Proof. destruct o; cbn; try reflexivity; try apply Nat.eqb_refl. apply Z.eqb_refl. Qed.

Lemma de_trace_ops dry f c N M reqs attrs ops s :
  forallb (fun p => same_op (r_op (fst p)) (snd p)) (combine (de_trace dry f c N M reqs attrs ops s) ops) = true.
Proof.
  revert s. induction ops as [|o t IH]; intro s; cbn; [reflexivity|].
  rewrite same_op_refl, IH. reflexivity.
Qed.

Lemma snap_init N M n : snap N M (init_est n) = repeat 0 (2 + N + M).
Proof.
  unfold snap, init_est. cbn [ct cn cs].
  rewrite <- (const_map_zrange 0 (S N)), <- (const_map_zrange 1 M).
  replace (2 + N + M)%nat with (S (S N + M)) by lia. cbn [repeat]. f_equal.
  rewrite repeat_app. reflexivity.
Qed.

(* the property's decision procedure holds of the eviction-stack model, for every disciplined case *)
Theorem de_model_trace_ok e :
  caps_nonneg (dc_caps e) ->
  de_disciplined (dc_dry e) (dc_caps e) (dc_reqs e) (init_dst (length (dc_reqs e))) (dc_ops e) ->
  de_code e (de_model_trace e) = 0.
Proof.
  intros Hc D. unfold de_code, de_model_trace.
  rewrite de_trace_length, Nat.eqb_refl. cbn [negb]. rewrite de_trace_ops. cbn [negb].
  apply dcheck_trace; auto.
  - cbn [init_dst d_out]. apply lim_inv_init, Hc.
  - cbn [init_dst d_in]. apply pe_inv_init; cbn; intros m H; discriminate.
  - unfold dlinked, de_init_stats, de_init_rec. cbn [init_dst d_out d_in init_est pcs r_oc r_ic].
    split; [apply linkL_init|]. split; symmetry; apply snap_init.
Qed.
