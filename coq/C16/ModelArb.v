(* C16 (arbitration) — model of the descheduler's migration-job arbitrator
     pkg/descheduler/controllers/migration/arbitrator/{arbitrator,filter,sort,handler}.go
     pkg/descheduler/controllers/migration/util/util.go (GetMaxUnavailable / GetMaxMigrating)
   State = the API objects the arbitrator reads (pods, PodMigrationJobs) + its two in-memory
   sets (waitingCollection, arbitratedPodMigrationJobs).  Executable, total, no proofs here. *)
From Coq Require Import List ZArith Bool.
From Verif Require Export Lib.SortX.
Import ListNotations.
Open Scope Z_scope.

Record pod := mkPod {
  p_id : Z; p_ns : Z; p_node : Z (* 0 = not assigned *); p_wl : Z (* controller owner, 0 = none *);
  p_prio : Z; p_time : Z (* creation time *);
  p_ready : bool; p_forbid : bool (* fails the non-retryable filter: mirror pod *);
  p_exists : bool;
  p_term : bool (* deletionTimestamp set (graceful termination) *);
  p_dead : bool (* phase Failed or Succeeded *) }.

(* kubecontroller.IsPodActive && IsPodReady: what getUnavailablePods calls available *)
Definition p_avail (v : pod) : bool := p_ready v && negb (p_term v) && negb (p_dead v).

Record wl := mkWl { w_id : Z; w_replicas : Z; w_isjob : bool (* owner kind "Job" *) }.

(* phase: 0 Pending (or ""), 1 Running, 2 Succeeded, 3 Failed, 4 Aborted *)
Record job := mkJob {
  j_id : Z; j_pod : Z (* podRef, 0 = nil *); j_time : Z (* creation time *);
  j_created : bool;   (* has been created once (harness bookkeeping) *)
  j_api : bool;       (* object exists in the API *)
  j_phase : Z;
  j_passed : bool;    (* annotation passed-arbitration=true on the API object *)
  j_waiting : bool;   (* in arbitratorImpl.waitingCollection *)
  j_arb : bool;       (* in filter.arbitratedPodMigrationJobs *)
  j_stale : bool }.   (* the waiting copy's resourceVersion is older than the API object's *)

(* IntOrString: (0,_) nil, (1,v) int v, (2,v) "v%" *)
Notation iop := (Z * Z)%type.

Record cfg := mkCfg {
  c_maxg : Z; c_maxnode : Z; c_maxns : Z;   (* <= 0 (or nil, sent as -1): no limit *)
  c_mm : iop; c_mu : iop;                   (* MaxMigratingPerWorkload, MaxUnavailablePerWorkload *)
  c_skip : bool }.                          (* SkipCheckExpectedReplicas *)

Record ast := mkA { a_pods : list pod; a_wls : list wl; a_jobs : list job }.

Definition countb {A} (f : A -> bool) (l : list A) : Z := Z.of_nat (length (filter f l)).

Definition find_pod (st : ast) (id : Z) : option pod := find (fun p => p_id p =? id) (a_pods st).
Definition find_job (st : ast) (id : Z) : option job := find (fun j => j_id j =? id) (a_jobs st).
Definition find_wl (st : ast) (id : Z) : option wl := find (fun w => w_id w =? id) (a_wls st).

(* the pod object the arbitrator gets for a job (getPodForJob): nil if no podRef or Get fails *)
Definition pod_of (st : ast) (j : job) : option pod :=
  match find_pod st (j_pod j) with
  | Some p => if p_exists p then Some p else None
  | None => None
  end.

(* ---------- util.GetMaxUnavailable = GetMaxMigrating ---------- *)
Definition get_max (replicas : Z) (x : iop) : Z :=
  let '(kind, v) := x in
  let scaled := if kind =? 1 then v else if kind =? 2 then (v * replicas) / 100 else 0 in
  let m1 := if kind =? 0 then 0 else if scaled =? 0 then 1 else scaled in
  let m2 := if m1 =? 0
            then (if 10 <? replicas then (10 * replicas) / 100
                  else if 4 <=? replicas then 2 else 1)
            else m1 in
  if replicas <? m2 then replicas else m2.

Definition replicas_of (st : ast) (w : Z) : Z :=
  match find_wl st w with Some x => w_replicas x | None => 0 end.

(* ---------- forEachAvailableMigrationJobs ----------
   [arb] = the pod under test is being arbitrated (checkPodArbitrating): pending jobs count only
   once they have passed arbitration, i.e. are in the arbitrator's map or (repaired in bc5a78a: the
   map is lost on a restart) carry the passed-arbitration annotation *)
Definition avail (arb : bool) (j : job) : bool :=
  j_api j && ((j_phase j =? 1) || ((j_phase j =? 0) && (negb arb || j_arb j || j_passed j))).

(* existingPodMigrationJob *)
Definition has_job (arb : bool) (st : ast) (v : pod) : bool :=
  existsb (fun j => avail arb j && (j_pod j =? p_id v)) (a_jobs st).

Definition limited (m : Z) : bool := 0 <? m.

Definition other_job (arb : bool) (p : pod) (j : job) : bool :=
  avail arb j && negb (j_pod j =? 0) && negb (j_pod j =? p_id p).

Definition jobpod_ns (st : ast) (j : job) : Z :=
  match find_pod st (j_pod j) with Some v => p_ns v | None => -1 end.

Definition f_global (c : cfg) (arb : bool) (st : ast) (p : pod) : bool :=
  negb (limited (c_maxg c)) || (countb (other_job arb p) (a_jobs st) <? c_maxg c).

Definition other_pod (arb : bool) (st : ast) (p v : pod) : bool :=
  p_exists v && negb (p_id v =? p_id p) && has_job arb st v.

Definition f_node (c : cfg) (arb : bool) (st : ast) (p : pod) : bool :=
  (p_node p =? 0) || negb (limited (c_maxnode c))
  || (countb (fun v => other_pod arb st p v && (p_node v =? p_node p)) (a_pods st) <? c_maxnode c).

Definition f_ns (c : cfg) (arb : bool) (st : ast) (p : pod) : bool :=
  negb (limited (c_maxns c))
  || (countb (fun j => other_job arb p j && (jobpod_ns st j =? p_ns p)) (a_jobs st) <? c_maxns c).

Definition same_wl (p v : pod) : bool := (p_ns v =? p_ns p) && (p_wl v =? p_wl p).

Definition f_wl (c : cfg) (arb : bool) (st : ast) (p : pod) : bool :=
  if p_wl p =? 0 then true
  else
    let replicas := replicas_of st (p_wl p) in
    let maxmig := get_max replicas (c_mm c) in
    let maxun := get_max replicas (c_mu c) in
    let mig := countb (fun v => other_pod arb st p v && same_wl p v) (a_pods st) in
    if (0 <? mig) && (maxmig <=? mig) then false
    else
      let un := countb (fun v => p_exists v && same_wl p v
                                 && (negb (p_avail v) || other_pod arb st p v)) (a_pods st) in
      negb (maxun <=? un).

Definition retryable (c : cfg) (arb : bool) (st : ast) (p : pod) : bool :=
  f_global c arb st p && f_node c arb st p && f_ns c arb st p && f_wl c arb st p.

Definition f_expected (c : cfg) (st : ast) (p : pod) : bool :=
  if p_wl p =? 0 then true
  else if c_skip c then true
  else
    let replicas := replicas_of st (p_wl p) in
    negb ((replicas =? 1) || (replicas =? get_max replicas (c_mm c))
          || (replicas =? get_max replicas (c_mu c))).

(* EvictorFilter.Filter also rejects a pod that is terminating *)
Definition nonretryable (c : cfg) (st : ast) (p : pod) : bool :=
  negb (p_forbid p) && negb (p_term p) && f_expected c st p.

(* ---------- one job of a round: filtering + updatePassedJob / updateFailedJob ---------- *)
Definition set_job (st : ast) (j' : job) : ast :=
  mkA (a_pods st) (a_wls st)
      (map (fun j => if j_id j =? j_id j' then j' else j) (a_jobs st)).

Definition mark_passed (j : job) : job :=
  mkJob (j_id j) (j_pod j) (j_time j) (j_created j) (j_api j) (j_phase j) true false true (j_stale j).
Definition mark_failed (written : bool) (j : job) : job :=
  mkJob (j_id j) (j_pod j) (j_time j) (j_created j) (j_api j) (if written then 3 else j_phase j)
        (j_passed j) false (j_arb j) (j_stale j).

(* [fail]: id of the job whose client.Update is made to fail in this round (0 = none) *)
Definition arbitrate_one (c : cfg) (fail : Z) (st : ast) (jid : Z) : ast :=
  match find_job st jid with
  | None => st
  | Some j =>
    if negb (j_waiting j) then st
    else
      let write_ok := j_api j && negb (j_stale j) in
      let pass := if write_ok && negb (jid =? fail) then set_job st (mark_passed j) else st in
      match pod_of st j with
      | None => pass
      | Some p =>
          if negb (nonretryable c st p) then set_job st (mark_failed write_ok j)
          else if negb (retryable c true st p) then st
          else pass
      end
  end.

(* ---------- the four sort functions of New() ---------- *)
Definition by_time_leb (a b : job) : bool := j_time b <=? j_time a.   (* newest first *)

(* sorter.PodSorter on pods that differ in priority and creation time only:
   lower priority first, then newer first *)
Definition pod_less (p q : pod) : bool :=
  (p_prio p <? p_prio q) || ((p_prio p =? p_prio q) && (p_time q <? p_time p)).
Definition by_pod_leb (st : ast) (a b : job) : bool :=
  match pod_of st a, pod_of st b with
  | None, _ => true
  | Some _, None => false
  | Some p, Some q => negb (pod_less q p)
  end.

(* owner of kind Job *)
Definition job_owner (st : ast) (j : job) : Z :=
  match pod_of st j with
  | Some p => match find_wl st (p_wl p) with
              | Some w => if w_isjob w && negb (p_wl p =? 0) then p_wl p else 0
              | None => 0
              end
  | None => 0
  end.

Fixpoint index_from {A} (n : Z) (l : list A) : list (Z * A) :=
  match l with [] => [] | x :: t => (n, x) :: index_from (n + 1) t end.

Definition first_index (st : ast) (o : Z) (l : list (Z * job)) : Z :=
  match find (fun ij => job_owner st (snd ij) =? o) l with Some ij => fst ij | None => 0 end.

Definition sort_by_controller (st : ast) (l : list job) : list job :=
  let il := index_from 0 l in
  let ranked := map (fun ij => (if job_owner st (snd ij) =? 0 then fst ij
                                else first_index st (job_owner st (snd ij)) il, snd ij)) il in
  map snd (sort_by (fun a b : Z * job => fst a <=? fst b) ranked).

(* getMigratingJobNum *)
Definition is_migrating (j : job) : bool := j_api j && (j_passed j || (j_phase j =? 1)).
Definition migrating_num (st : ast) (w : Z) : Z :=
  fold_right Z.add 0
    (map (fun v => if p_exists v && (p_wl v =? w)
                   then countb (fun j => is_migrating j && (j_pod j =? p_id v)) (a_jobs st) else 0)
         (a_pods st)).
Definition mig_rank (st : ast) (j : job) : Z :=
  if job_owner st j =? 0 then 0 else migrating_num st (job_owner st j).

Definition sort_jobs (st : ast) (l : list job) : list job :=
  let s1 := sort_by by_time_leb l in
  let s2 := sort_by (by_pod_leb st) s1 in
  let s3 := sort_by_controller st s2 in
  sort_by (fun a b => mig_rank st b <=? mig_rank st a) s3.

(* ---------- doOnceArbitrate ---------- *)
Definition round_order (st : ast) : list Z :=
  map j_id (sort_jobs st (filter j_waiting (a_jobs st))).

Definition round_on (c : cfg) (fail : Z) (order : list Z) (st : ast) : ast :=
  fold_left (arbitrate_one c fail) order st.

Definition round (c : cfg) (fail : Z) (st : ast) : ast := round_on c fail (round_order st) st.

(* ---------- Arbitrator.Filter (used before a migration job is created) ---------- *)
Definition filter_pod (c : cfg) (st : ast) (p : pod) : bool :=
  negb (has_job false st p) && nonretryable c st p && retryable c false st p.

(* ---------- environment / event-handler operations ---------- *)
Inductive op :=
| OAdd (j : Z) | ORound (fail : Z) | OSetPhase (j ph : Z) | ODelete (j : Z)
| OSetReady (p : Z) (b : bool) | ODeletePod (p : Z) | OFilter (p : Z) | OEvict (j : Z)
| OSetPodState (p v : Z) | ORestart | ONop.

Definition upd_job (st : ast) (jid : Z) (f : job -> job) : ast :=
  mkA (a_pods st) (a_wls st) (map (fun j => if j_id j =? jid then f j else j) (a_jobs st)).
Definition upd_pod (st : ast) (pid : Z) (f : pod -> pod) : ast :=
  mkA (map (fun p => if p_id p =? pid then f p else p) (a_pods st)) (a_wls st) (a_jobs st).

Definition add_job (j : job) : job :=
  if j_created j then j
  else mkJob (j_id j) (j_pod j) (j_time j) true true 0 false true false false.

Definition terminal (ph : Z) : bool := (ph =? 2) || (ph =? 3) || (ph =? 4).

Definition set_phase (ph : Z) (j : job) : job :=
  if j_api j
  then mkJob (j_id j) (j_pod j) (j_time j) (j_created j) true ph (j_passed j) (j_waiting j)
             (j_arb j && negb (terminal ph)) (j_stale j || j_waiting j)
  else j.

Definition delete_job (j : job) : job :=
  if j_api j
  then mkJob (j_id j) (j_pod j) (j_time j) (j_created j) false (j_phase j) (j_passed j)
             (j_waiting j) false (j_stale j)
  else j.

Definition set_ready (b : bool) (p : pod) : pod :=
  if p_exists p
  then mkPod (p_id p) (p_ns p) (p_node p) (p_wl p) (p_prio p) (p_time p) b (p_forbid p) true
             (p_term p) (p_dead p)
  else p.
Definition delete_pod (p : pod) : pod :=
  mkPod (p_id p) (p_ns p) (p_node p) (p_wl p) (p_prio p) (p_time p) (p_ready p) (p_forbid p) false
        (p_term p) (p_dead p).
(* 1: delete (the pod stays, terminating); 2 / 3: phase Failed / Succeeded; 0: phase Running *)
Definition set_pod_state (v : Z) (p : pod) : pod :=
  if p_exists p
  then mkPod (p_id p) (p_ns p) (p_node p) (p_wl p) (p_prio p) (p_time p) (p_ready p) (p_forbid p) true
             (p_term p || (v =? 1))
             (if v =? 1 then p_dead p else (v =? 2) || (v =? 3))
  else p.

(* a fresh arbitrator instance (restart / leader change): empty arbitrated map, and the informer's
   initial Create events put every job that exists in the API into the waiting collection *)
Definition restart_job (j : job) : job :=
  mkJob (j_id j) (j_pod j) (j_time j) (j_created j) (j_api j) (j_phase j) (j_passed j) (j_api j) false false.

(* result: -1 none, 0/1 verdict of Arbitrator.Filter *)
Definition step (c : cfg) (st : ast) (o : op) : ast * Z :=
  match o with
  | OAdd j => (upd_job st j add_job, -1)
  | ORound f => (round c f st, -1)
  | OSetPhase j ph => (upd_job st j (set_phase ph), -1)
  | ODelete j => (upd_job st j delete_job, -1)
  | OSetReady p b => (upd_pod st p (set_ready b), -1)
  | ODeletePod p => (upd_pod st p delete_pod, -1)
  | OSetPodState p v => (upd_pod st p (set_pod_state v), -1)
  | OFilter pid =>
      match find_pod st pid with
      | Some p => if p_exists p then (st, if filter_pod c st p then 1 else 0) else (st, -1)
      | None => (st, -1)
      end
  | OEvict jid =>
      match find_job st jid with
      | Some j =>
          if j_created j then (st, -1)
          else match pod_of st j with
               | Some p => if filter_pod c st p then (upd_job st jid add_job, 1) else (st, 0)
               | None => (st, -1)
               end
      | None => (st, -1)
      end
  | ORestart => (mkA (a_pods st) (a_wls st) (map restart_job (a_jobs st)), -1)
  | ONop => (st, -1)
  end.

(* what is observed after every operation, per job: phase (-1 = not in the API), annotation,
   in the waiting collection, in the arbitrated map *)
Definition obs_job (j : job) : list Z :=
  [ if j_api j then j_phase j else -1;
    if j_api j && j_passed j then 1 else 0;
    if j_waiting j then 1 else 0;
    if j_arb j then 1 else 0 ].

Definition obs_state (st : ast) : list Z := flat_map obs_job (a_jobs st).

Fixpoint run_ops (c : cfg) (st : ast) (ops : list op) : list (ast * Z) :=
  match ops with
  | [] => []
  | o :: t => let '(st', r) := step c st o in (st', r) :: run_ops c st' t
  end.
