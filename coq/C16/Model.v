(* C16 (eviction caps) — small-step concurrent model of
     PodEvictor.Evict          pkg/descheduler/evictions/evictions.go        (reserve / API / unreserve)
     evictorProxy.Evict        pkg/descheduler/framework/runtime/evictor_proxy.go
       + EvictionLimiter       pkg/descheduler/evictions/eviction_limiter.go (AllowEvict / plugin / Done)
   A thread is one call of Evict for one pod; an atomic action is one lock-protected section
   or one API call event.  A schedule is a list of thread ids: every list is an interleaving
   (ids of finished or unknown threads stutter).  Executable, total, no proofs in this file. *)
From Coq Require Import List ZArith Bool.
From Verif Require Export Lib.Interleave.   (* [exec step s l := fold_left step l s], [interleaving] *)
Import ListNotations.
Open Scope Z_scope.

(* caps: None = nil pointer (unset) *)
Record caps := mkCaps { cap_node : option Z; cap_ns : option Z; cap_total : option Z }.

(* one eviction request: node (0 = pod.Spec.NodeName ""), namespace, and the oracle for its
   API call (true = the eviction API call succeeds) *)
Record req := mkReq { r_node : Z; r_ns : Z; r_ok : bool }.

Inductive pc :=
| PStart        (* Evict not entered yet *)
| PAdmitted     (* passed reserve / AllowEvict, API call not yet sent *)
| PInApi        (* eviction API call sent, result not yet back *)
| PPost         (* PodEvictor: API failed, unreserve pending; limiter: Done pending *)
| PRefused      (* returned false without any API call *)
| PDoneOk       (* returned true *)
| PDoneFail.    (* returned false after a failed API call *)

Record est := mkE {
  cn : Z -> Z;            (* nodepodCount *)
  cs : Z -> Z;            (* namespacePodCount *)
  ct : Z;                 (* totalCount *)
  pcs : list pc;          (* per thread *)
  calls : list nat        (* threads whose eviction API call was received, latest first *)
}.

Definition upd (f : Z -> Z) (k v : Z) : Z -> Z := fun x => if x =? k then v else f x.

Definition init_est (n : nat) : est := mkE (fun _ => 0) (fun _ => 0) 0 (repeat PStart n) [].

Fixpoint set_nth {A} (i : nat) (v : A) (l : list A) : list A :=
  match l, i with
  | [], _ => []
  | _ :: t, O => v :: t
  | x :: t, S i' => x :: set_nth i' v t
  end.

Definition set_pc (s : est) (i : nat) (p : pc) : est :=
  mkE (cn s) (cs s) (ct s) (set_nth i p (pcs s)) (calls s).

(* the three counters move together (reserve / Done : +1, unreserve : -1); the node counter
   is not kept for pods without a node *)
Definition bump (s : est) (r : req) (d : Z) : est :=
  mkE (if r_node r =? 0 then cn s else upd (cn s) (r_node r) (cn s (r_node r) + d))
      (upd (cs s) (r_ns r) (cs s (r_ns r) + d))
      (ct s + d) (pcs s) (calls s).

Definition add_call (s : est) (i : nat) : est :=
  mkE (cn s) (cs s) (ct s) (pcs s) (i :: calls s).

(* ---------- PodEvictor.Evict (repaired: check and count in one critical section) ---------- *)

(* count >= *cap *)
Definition reached (c : option Z) (x : Z) : bool :=
  match c with Some m => m <=? x | None => false end.

Definition pe_step (dry : bool) (c : caps) (reqs : list req) (s : est) (i : nat) : est :=
  match nth_error (pcs s) i, nth_error reqs i with
  | Some p, Some r =>
    match p with
    | PStart =>                                   (* reserve() *)
        if reached (cap_node c) (cn s (r_node r)) then set_pc s i PRefused
        else if reached (cap_ns c) (cs s (r_ns r)) then set_pc s i PRefused
        else if dry then set_pc s i PDoneOk
        else set_pc (bump s r 1) i PAdmitted
    | PAdmitted => set_pc (add_call s i) i PInApi  (* EvictPod: request received by the API *)
    | PInApi => if r_ok r then set_pc s i PDoneOk else set_pc s i PPost
    | PPost => set_pc (bump s r (-1)) i PDoneFail  (* unreserve() *)
    | _ => s
    end
  | _, _ => s
  end.

(* ---------- evictorProxy.Evict over EvictionLimiter ---------- *)

(* count + 1 > *cap *)
Definition exceeds (c : option Z) (x : Z) : bool :=
  match c with Some m => m <? x + 1 | None => false end.

Definition lim_step (dry : bool) (c : caps) (reqs : list req) (s : est) (i : nat) : est :=
  match nth_error (pcs s) i, nth_error reqs i with
  | Some p, Some r =>
    match p with
    | PStart =>                                   (* AllowEvict() *)
        if negb (r_node r =? 0) && exceeds (cap_node c) (cn s (r_node r)) then set_pc s i PRefused
        else if exceeds (cap_ns c) (cs s (r_ns r)) then set_pc s i PRefused
        else if exceeds (cap_total c) (ct s) then set_pc s i PRefused
        else set_pc s i PAdmitted
    | PAdmitted =>                                (* dry-run skips the evict plugin *)
        if dry then set_pc s i PPost else set_pc (add_call s i) i PInApi
    | PInApi => if r_ok r then set_pc s i PPost else set_pc s i PDoneFail
    | PPost => set_pc (bump s r 1) i PDoneOk      (* Done() *)
    | _ => s
    end
  | _, _ => s
  end.

(* a thread is its id repeated once per atomic action it can take; [exec step s sched] runs a
   schedule; since finished threads stutter, EVERY list of ids is a legal schedule, and the
   interleavings of [threads n] are the schedules in which every thread runs to completion *)
Definition thread_actions : nat := 4.
Definition threads (n : nat) : list (list nat) := map (fun i => repeat i thread_actions) (seq 0 n).

(* ---------- the granularity at which the harness can drive the real code ----------
   PodEvictor: a goroutine runs until it is parked inside the API call (2 atomic actions) and,
   once released, until it returns (2 actions).  Proxy/limiter: a goroutine runs until it is
   parked inside the evict plugin (1 action: AllowEvict) and, once released, until it returns
   (API send, API result, Done); in dry-run nothing can be parked: it runs to completion. *)
Definition pe_hstep (dry : bool) (c : caps) (reqs : list req) (s : est) (i : nat) : est :=
  pe_step dry c reqs (pe_step dry c reqs s i) i.

Definition is_start (s : est) (i : nat) : bool :=
  match nth_error (pcs s) i with Some PStart => true | _ => false end.

Definition lim_hstep (dry : bool) (c : caps) (reqs : list req) (s : est) (i : nat) : est :=
  if is_start s i && negb dry then lim_step dry c reqs s i
  else lim_step dry c reqs (lim_step dry c reqs (lim_step dry c reqs s i) i) i.

(* the fine schedule a harness schedule stands for *)
Definition pe_expand (sched : list nat) : list nat := flat_map (fun i => [i; i]) sched.

(* ---------- observations ---------- *)
Definition is_done (p : pc) : bool :=
  match p with PRefused | PDoneOk | PDoneFail => true | _ => false end.

Definition pc_of (s : est) (i : nat) : pc := nth i (pcs s) PRefused.

(* what one harness step on thread [o_tid] shows:
   o_api  its eviction API call was received during the step
   o_ret  0 still running / nothing happened, 1 it returned false, 2 it returned true
   o_ct, o_cn (nodes 0..N), o_cs (namespaces 1..M): the counters read through
   TotalEvicted / NodeEvicted / NamespaceEvicted after the step *)
Record srec := mkS { o_tid : nat; o_api : bool; o_ret : Z; o_ct : Z; o_cn : list Z; o_cs : list Z }.

Definition ret_code (before after : pc) : Z :=
  if is_done before then 0
  else match after with PDoneOk => 2 | PRefused | PDoneFail => 1 | _ => 0 end.

Definition zrange (lo : Z) (n : nat) : list Z := map (fun k => lo + Z.of_nat k) (seq 0 n).

Definition observe (N M : nat) (s s' : est) (i : nat) : srec :=
  mkS i (negb (Nat.eqb (length (calls s)) (length (calls s'))))
      (ret_code (pc_of s i) (pc_of s' i))
      (ct s') (map (cn s') (zrange 0 (S N))) (map (cs s') (zrange 1 M)).

Fixpoint trace (hstep : est -> nat -> est) (N M : nat) (sched : list nat) (s : est) : list srec :=
  match sched with
  | [] => []
  | i :: t => let s' := hstep s i in observe N M s s' i :: trace hstep N M t s'
  end.
