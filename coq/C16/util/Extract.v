(* C16 — flat-integer interface of the budget functions (stream budget, tag 17).
   input :  17  K (fn a b c)*K        observable per query :  err value *)
From Coq Require Import List ZArith Bool.
From Verif Require Import Lib.Wire C16.ModelArb C16.ModelBudget C16.SpecBudget.
Import ListNotations.
Open Scope Z_scope.

Definition dec_q (l : list Z) : (Z * Z * Z * Z) * list Z :=
  match l with
  | f :: a :: b :: c :: t => ((f, a, b, c), t)
  | _ => ((0, 0, 0, 0), [])
  end.

Definition mine (inp : list Z) : bool := match inp with t :: _ => t =? 17 | [] => false end.

Definition decode (inp : list Z) : list (Z * Z * Z * Z) :=
  match inp with _ :: t => fst (decode_seq dec_q t) | [] => [] end.

Definition run_case (inp : list Z) : list Z :=
  if mine inp then run_qs (decode inp) else [].

Definition prop_case (inp obs : list Z) : Z :=
  if mine inp then check_qs (decode inp) obs else match obs with [] => 0 | _ => 9 end.

(* non-trivial: a percentage, or a default, is actually scaled by a replica count above one *)
Definition nontrivial_case (inp : list Z) : bool :=
  mine inp && existsb (fun q => let '(f, a, b, c) := q in
                                ((f =? 1) || (f =? 2)) && (1 <? a) && negb (b =? 1)) (decode inp).

Definition finding_sig (inp obs : list Z) : Z := 0.

Require Extraction.
Require Import ExtrOcamlBasic.
Extraction "model.ml" run_case prop_case nontrivial_case finding_sig.
