(* C16 — evictorProxy.Evict over EvictionLimiter (AllowEvict ... Done in two critical sections):
   the caps hold whenever no caller enters AllowEvict while another eviction is in flight
   (in particular for one sequential caller); without that discipline they do not. *)
From Coq Require Import List ZArith Bool Lia.
From Verif Require Import Lib.ListX C16.Model C16.Spec C16.Proofs_Evict.
Import ListNotations.
Open Scope Z_scope.

Inductive lim_trans (dry : bool) (c : caps) (r : req) (s : est) : pc -> Z -> bool -> pc -> Prop :=
| lt_refuse : lim_trans dry c r s PStart 0 false PRefused
| lt_allow :
    (negb (r_node r =? 0) && exceeds (cap_node c) (cn s (r_node r))) = false ->
    exceeds (cap_ns c) (cs s (r_ns r)) = false ->
    exceeds (cap_total c) (ct s) = false ->
    lim_trans dry c r s PStart 0 false PAdmitted
| lt_skip : dry = true -> lim_trans dry c r s PAdmitted 0 false PPost
| lt_send : dry = false -> lim_trans dry c r s PAdmitted 0 true PInApi
| lt_ok : lim_trans dry c r s PInApi 0 false PPost
| lt_err : lim_trans dry c r s PInApi 0 false PDoneFail
| lt_done : lim_trans dry c r s PPost 1 false PDoneOk.

Lemma lim_step_shape dry c reqs s i :
  lim_step dry c reqs s i = s
  \/ exists p r d call p',
       nth_error (pcs s) i = Some p /\ nth_error reqs i = Some r /\
       lim_trans dry c r s p d call p' /\
       est_eqv (lim_step dry c reqs s i) (apply_tr s i r d call p').
Proof.
  unfold lim_step.
  destruct (nth_error (pcs s) i) as [p|] eqn:Ep; [|left; reflexivity].
  destruct (nth_error reqs i) as [r|] eqn:Er; [|left; reflexivity].
  assert (Hadd : est_eqv (set_pc (add_call s i) i PInApi) (apply_tr s i r 0 true PInApi)).
  { repeat split; intros.
    - rewrite cn_apply_tr. cbn. destruct (_ && _); lia.
    - rewrite cs_apply_tr. cbn. destruct (_ =? _); lia.
    - rewrite ct_apply_tr. cbn. lia. }
  destruct p; try (left; reflexivity); right.
  - destruct (negb (r_node r =? 0) && exceeds (cap_node c) (cn s (r_node r))) eqn:E1.
    { exists PStart, r, 0, false, PRefused. repeat split; auto using lt_refuse; apply set_pc_as_tr. }
    destruct (exceeds (cap_ns c) (cs s (r_ns r))) eqn:E2.
    { exists PStart, r, 0, false, PRefused. repeat split; auto using lt_refuse; apply set_pc_as_tr. }
    destruct (exceeds (cap_total c) (ct s)) eqn:E3.
    { exists PStart, r, 0, false, PRefused. repeat split; auto using lt_refuse; apply set_pc_as_tr. }
    exists PStart, r, 0, false, PAdmitted. repeat split; auto using lt_allow; apply set_pc_as_tr.
  - destruct dry eqn:Ed.
    + exists PAdmitted, r, 0, false, PPost. repeat split; auto using lt_skip; apply set_pc_as_tr.
    + exists PAdmitted, r, 0, true, PInApi. split; [auto|]. split; [auto|].
      split; [apply lt_send; reflexivity|exact Hadd].
  - destruct (r_ok r).
    + exists PInApi, r, 0, false, PPost. repeat split; auto using lt_ok; apply set_pc_as_tr.
    + exists PInApi, r, 0, false, PDoneFail. repeat split; auto using lt_err; apply set_pc_as_tr.
  - exists PPost, r, 1, false, PDoneOk. repeat split; auto using lt_done.
Qed.

Definition doneok (p : pc) : bool := match p with PDoneOk => true | _ => false end.
(* admitted and not failed: everything that has been or may still be issued *)
Definition granted_pc (p : pc) : bool := in_flight p || doneok p.

(* weights without the dry-run factor *)
Notation wl_of := (w_of false).

Definition nobody_in_flight (reqs : list req) (s : est) : Prop :=
  tsum (wl_of any_req in_flight) reqs (pcs s) = 0.

(* the discipline: a thread enters AllowEvict only while no eviction is in flight *)
Fixpoint disciplined (step : est -> nat -> est) (reqs : list req) (s : est) (sched : list nat) : Prop :=
  match sched with
  | [] => True
  | i :: t => (nth_error (pcs s) i = Some PStart -> nth_error reqs i <> None ->
               nobody_in_flight reqs s)
              /\ disciplined step reqs (step s i) t
  end.

Record lim_inv (c : caps) (reqs : list req) (s : est) : Prop := {
  li_cn : forall k, cn s k = tsum (wl_of (node_sel k) doneok) reqs (pcs s);
  li_cs : forall k, cs s k = tsum (wl_of (on_ns k) doneok) reqs (pcs s);
  li_ct : ct s = tsum (wl_of any_req doneok) reqs (pcs s);
  li_one : tsum (wl_of any_req in_flight) reqs (pcs s) <= 1;
  li_capn : forall m k, cap_node c = Some m -> 0 <= m ->
              tsum (wl_of (node_sel k) granted_pc) reqs (pcs s) <= m;
  li_caps : forall m k, cap_ns c = Some m -> 0 <= m ->
              tsum (wl_of (on_ns k) granted_pc) reqs (pcs s) <= m;
  li_capt : forall m, cap_total c = Some m -> 0 <= m ->
              tsum (wl_of any_req granted_pc) reqs (pcs s) <= m
}.

Lemma lim_inv_eqv c reqs a b : est_eqv a b -> lim_inv c reqs b -> lim_inv c reqs a.
Proof.
  intros [Hn [Hs [Ht [Hp Hc]]]] [I1 I2 I3 I4 I5 I6 I7].
  constructor; intros; rewrite ?Hn, ?Hs, ?Ht, ?Hp in *; eauto.
Qed.

Lemma tsum_nonneg_w sel f reqs ps : 0 <= tsum (wl_of sel f) reqs ps.
Proof.
  unfold tsum. apply sumZ_map_nonneg. intros [r p] _. unfold w_of. destruct (_ && _); lia.
Qed.

Lemma tsum_sel_le sel f reqs ps :
  tsum (wl_of sel f) reqs ps <= tsum (wl_of any_req f) reqs ps.
Proof.
  apply tsum_le. intros r p. unfold w_of, any_req. cbn. destruct (sel r), (f p); cbn; lia.
Qed.

Lemma granted_split sel reqs ps :
  tsum (wl_of sel granted_pc) reqs ps
  = tsum (wl_of sel in_flight) reqs ps + tsum (wl_of sel doneok) reqs ps.
Proof.
  unfold tsum. rewrite <- sumZ_map_add. apply sumZ_map_ext. intros [r p] _.
  unfold w_of, granted_pc. cbn. destruct (sel r); cbn; [|reflexivity]. destruct p; reflexivity.
Qed.

Lemma lim_inv_init c reqs n : caps_nonneg c -> lim_inv c reqs (init_est n).
Proof.
  intros _.
  assert (Hz : forall sel f, f PStart = false -> tsum (wl_of sel f) reqs (repeat PStart n) = 0).
  { intros sel f Hf. apply tsum_repeat_zero. intro r. unfold w_of. rewrite Hf.
    rewrite andb_false_r. reflexivity. }
  constructor; cbn [init_est cn cs ct pcs calls]; intros; rewrite ?Hz by reflexivity; auto; lia.
Qed.

Lemma lim_inv_step dry c reqs s i :
  (nth_error (pcs s) i = Some PStart -> nth_error reqs i <> None -> nobody_in_flight reqs s) ->
  lim_inv c reqs s -> lim_inv c reqs (lim_step dry c reqs s i).
Proof.
  intros Hdisc I.
  destruct (lim_step_shape dry c reqs s i) as [->|[p [r [d [call [p' [Hp [Hr [Htr Heq]]]]]]]]];
    [exact I|].
  eapply lim_inv_eqv; [exact Heq|]. clear Heq.
  destruct I as [I1 I2 I3 I4 I5 I6 I7].
  assert (Hsum : forall sel f,
            tsum (wl_of sel f) reqs (pcs (apply_tr s i r d call p'))
            = tsum (wl_of sel f) reqs (pcs s) - wl_of sel f r p + wl_of sel f r p').
  { intros. rewrite pcs_apply_tr. apply tsum_set_nth; assumption. }
  assert (Hdone : forall sel, wl_of sel doneok r p' - wl_of sel doneok r p = if sel r then d else 0).
  { intro sel. unfold w_of. destruct Htr; cbn; destruct (sel r); cbn; lia. }
  (* granted grows only when a thread is admitted, and then nobody else is in flight *)
  assert (Hgr : forall sel m,
            (p = PStart -> p' = PAdmitted -> sel r = true ->
             tsum (wl_of sel doneok) reqs (pcs s) + 1 <= m) ->
            tsum (wl_of sel granted_pc) reqs (pcs s) <= m ->
            tsum (wl_of sel granted_pc) reqs (pcs (apply_tr s i r d call p')) <= m).
  { intros sel m Hadm Hold. rewrite Hsum.
    assert (Hcases :
      (p = PStart /\ p' = PAdmitted
       /\ wl_of sel granted_pc r p' - wl_of sel granted_pc r p = (if sel r then 1 else 0))
      \/ wl_of sel granted_pc r p' - wl_of sel granted_pc r p <= 0).
    { destruct Htr; unfold w_of; cbn; destruct (sel r); cbn; try (right; lia);
        left; repeat split; lia. }
    destruct Hcases as [[Ep [Ep' Hd]]|Hd]; [|lia].
    destruct (sel r) eqn:Es; [|lia].
    specialize (Hadm Ep Ep' eq_refl).
    assert (Hnif : nobody_in_flight reqs s) by (apply Hdisc; [rewrite <- Ep; exact Hp|congruence]).
    unfold nobody_in_flight in Hnif.
    pose proof (tsum_sel_le sel in_flight reqs (pcs s)).
    pose proof (tsum_nonneg_w sel in_flight reqs (pcs s)).
    rewrite granted_split in Hold |- *. lia. }
  constructor.
  - intro k. rewrite cn_apply_tr, Hsum, I1. specialize (Hdone (node_sel k)). unfold node_sel in *. lia.
  - intro k. rewrite cs_apply_tr, Hsum, I2. specialize (Hdone (on_ns k)). unfold on_ns in *. lia.
  - rewrite ct_apply_tr, Hsum, I3. specialize (Hdone any_req). unfold any_req in *. lia.
  - rewrite Hsum.
    assert (Hcases :
      (p = PStart /\ wl_of any_req in_flight r p' - wl_of any_req in_flight r p <= 1)
      \/ wl_of any_req in_flight r p' - wl_of any_req in_flight r p <= 0).
    { destruct Htr; unfold w_of, any_req; cbn; try (right; lia); left; split; auto; lia. }
    destruct Hcases as [[Ep Hd]|Hd]; [|lia].
    assert (Hnif : nobody_in_flight reqs s) by (apply Hdisc; [rewrite <- Ep; exact Hp|congruence]).
    unfold nobody_in_flight in Hnif. lia.
  - intros m k Hc Hm. apply Hgr; [|eauto]. intros -> -> Hs.
    inversion Htr; subst. unfold node_sel in Hs. apply andb_true_iff in Hs. destruct Hs as [Hk Hk0].
    apply Z.eqb_eq in Hk. subst k. rewrite Hk0 in *. cbn [andb] in *.
    match goal with H : exceeds (cap_node c) _ = false |- _ => rewrite Hc in H; cbn in H;
      apply Z.ltb_ge in H end.
    rewrite <- I1. lia.
  - intros m k Hc Hm. apply Hgr; [|eauto]. intros -> -> Hs.
    inversion Htr; subst. unfold on_ns in Hs. apply Z.eqb_eq in Hs. subst k.
    match goal with H : exceeds (cap_ns c) _ = false |- _ => rewrite Hc in H; cbn in H;
      apply Z.ltb_ge in H end.
    rewrite <- I2. lia.
  - intros m Hc Hm. apply Hgr; [|eauto]. intros -> -> Hs.
    inversion Htr; subst.
    match goal with H : exceeds (cap_total c) _ = false |- _ => rewrite Hc in H; cbn in H;
      apply Z.ltb_ge in H end.
    rewrite <- I3. lia.
Qed.

Lemma lim_inv_exec dry c reqs sched s :
  disciplined (lim_step dry c reqs) reqs s sched ->
  lim_inv c reqs s -> lim_inv c reqs (exec (lim_step dry c reqs) s sched).
Proof.
  unfold exec. revert s. induction sched as [|i t IH]; intros s D I; cbn [fold_left]; [exact I|].
  destruct D as [D1 D2]. apply IH; [exact D2|]. apply lim_inv_step; assumption.
Qed.

(* under the discipline: admitted-and-not-failed evictions within every cap, counters = completed *)
Theorem lim_disciplined_caps dry c reqs sched :
  caps_nonneg c ->
  disciplined (lim_step dry c reqs) reqs (init_est (length reqs)) sched ->
  let s := exec (lim_step dry c reqs) (init_est (length reqs)) sched in
  (forall m k, cap_node c = Some m -> k <> 0 ->
     tsum (wl_of (on_node k) granted_pc) reqs (pcs s) <= m)
  /\ (forall m k, cap_ns c = Some m -> tsum (wl_of (on_ns k) granted_pc) reqs (pcs s) <= m)
  /\ (forall m, cap_total c = Some m -> tsum (wl_of any_req granted_pc) reqs (pcs s) <= m)
  /\ (forall k, k <> 0 -> cn s k = tsum (wl_of (on_node k) doneok) reqs (pcs s))
  /\ (forall k, cs s k = tsum (wl_of (on_ns k) doneok) reqs (pcs s))
  /\ ct s = tsum (wl_of any_req doneok) reqs (pcs s).
Proof.
  intros Hc D s.
  assert (I : lim_inv c reqs s) by (apply lim_inv_exec; [exact D|apply lim_inv_init, Hc]).
  destruct Hc as [Hc1 [Hc2 Hc3]]. destruct I as [I1 I2 I3 I4 I5 I6 I7].
  assert (Hnode : forall k f, k <> 0 ->
            tsum (wl_of (on_node k) f) reqs (pcs s) = tsum (wl_of (node_sel k) f) reqs (pcs s)).
  { intros k f Hk. apply tsum_ext. intros r p _. unfold w_of, node_sel, on_node.
    replace (k =? 0) with false by (symmetry; apply Z.eqb_neq, Hk). rewrite andb_true_r. reflexivity. }
  repeat split.
  - intros m k Hm Hk. rewrite (Hnode k _ Hk). eauto.
  - intros m k Hm. eauto.
  - intros m Hm. eauto.
  - intros k Hk. rewrite (Hnode k _ Hk). apply I1.
  - apply I2.
  - apply I3.
Qed.

(* a caller that runs every eviction to completion before the next one obeys the discipline *)
Lemma lim_refused_or_done_stutter dry c reqs s i p :
  nth_error (pcs s) i = Some p -> is_done p = true -> lim_step dry c reqs s i = s.
Proof.
  intros Hp Hd. unfold lim_step. rewrite Hp. destruct (nth_error reqs i); [|reflexivity].
  destruct p; try discriminate; reflexivity.
Qed.

(* ---------- without the discipline ---------- *)
Definition witness_caps : caps := mkCaps None None (Some 1).
Definition witness_reqs : list req := [mkReq 1 1 true; mkReq 1 1 true].
(* both threads pass AllowEvict, then both evict and call Done *)
Definition witness_sched : list nat := [0; 1; 0; 0; 0; 1; 1; 1]%nat.

Lemma witness_interleaving : interleaving (threads 2) witness_sched.
Proof.
  unfold threads, witness_sched, thread_actions. cbn [map seq repeat].
  apply (il_step [] 0%nat _ [_]). cbn [app].
  apply (il_step [_] 1%nat _ []). cbn [app].
  apply (il_step [] 0%nat _ [_]). cbn [app].
  apply (il_step [] 0%nat _ [_]). cbn [app].
  apply (il_step [] 0%nat _ [_]). cbn [app].
  apply (il_step [_] 1%nat _ []). cbn [app].
  apply (il_step [_] 1%nat _ []). cbn [app].
  apply (il_step [_] 1%nat _ []). cbn [app].
  constructor. repeat constructor.
Qed.

Theorem lim_conc_refuted :
  exists c reqs sched m,
    caps_nonneg c /\ interleaving (threads (length reqs)) sched /\ cap_total c = Some m /\
    let s := exec (lim_step false c reqs) (init_est (length reqs)) sched in
    m < issued_live reqs any_req s /\ m < ct s.
Proof.
  exists witness_caps, witness_reqs, witness_sched, 1.
  split; [|split; [exact witness_interleaving|split; [reflexivity|]]].
  - repeat split; cbn; intros m H; inversion H; lia.
  - vm_compute. split; reflexivity.
Qed.
