(* C16 — a sequential caller (every Evict runs to completion before the next one starts):
   between two calls nothing is in flight, so the PodEvictor counters equal the evictions issued,
   and the proxy/limiter obeys the discipline under which its caps hold. *)
From Coq Require Import List ZArith Bool Lia.
From Verif Require Import Lib.ListX C16.Model C16.Spec C16.Proofs_Evict C16.Proofs_Limiter.
Import ListNotations.
Open Scope Z_scope.

(* each thread of [order] gets its four atomic actions in a row *)
Definition seq_schedule (order : list nat) : list nat :=
  flat_map (fun i => repeat i thread_actions) order.

Definition quiet (s : est) : Prop := forall p, In p (pcs s) -> in_flight p = false.

(* remaining actions of a thread *)
Definition rk (p : pc) : nat :=
  match p with PStart => 4 | PAdmitted => 3 | PInApi => 2 | PPost => 1 | _ => 0 end.

Section Progress.
  Variable reqs : list req.
  Variable step : est -> nat -> est.

  Definition todo (s : est) (i : nat) : nat :=
    match nth_error (pcs s) i, nth_error reqs i with
    | Some p, Some _ => rk p
    | _, _ => 0%nat
    end.

  (* a step either stutters (nothing left to do) or advances only the scheduled thread *)
  Hypothesis Hprog : forall s i,
    (todo s i = 0%nat /\ step s i = s)
    \/ (exists p', pcs (step s i) = set_nth i p' (pcs s) /\ todo (step s i) i = rk p'
                   /\ (rk p' < todo s i)%nat).

  Lemma set_nth_twice {A} i (a b : A) l : set_nth i a (set_nth i b l) = set_nth i a l.
  Proof. revert i. induction l as [|x l IHl]; intros [|i]; cbn; auto. f_equal. apply IHl. Qed.

  Lemma run_thread n s i :
    (todo s i <= n)%nat ->
    let s' := exec step s (repeat i n) in
    todo s' i = 0%nat
    /\ (s' = s \/ exists p', pcs s' = set_nth i p' (pcs s) /\ todo s' i = rk p').
  Proof.
    revert s. induction n as [|n IH]; intros s Hle; cbn [repeat].
    - unfold exec. cbn. split; [lia|left; reflexivity].
    - unfold exec. cbn [fold_left]. fold (exec step (step s i) (repeat i n)).
      destruct (Hprog s i) as [[H0 Hs]|[p' [Hp [Ht Hlt]]]].
      + rewrite Hs. apply IH. lia.
      + destruct (IH (step s i) ltac:(lia)) as [Hz Hch]. split; [exact Hz|].
        right. destruct Hch as [->|[p'' [Hp'' Ht'']]].
        * exists p'. auto.
        * exists p''. split; [|exact Ht'']. rewrite Hp'', Hp. apply set_nth_twice.
  Qed.

  Lemma todo_le4 s i : (todo s i <= 4)%nat.
  Proof.
    unfold todo. destruct (nth_error (pcs s) i) as [p|]; [|lia].
    destruct (nth_error reqs i); [|lia]. destruct p; cbn; lia.
  Qed.

  Lemma quiet_run_thread s i :
    quiet s -> quiet (exec step s (repeat i thread_actions)).
  Proof.
    intro Hq. destruct (run_thread 4 s i (todo_le4 s i)) as [Hz Hch].
    unfold thread_actions. destruct Hch as [->|[p' [Hp Ht]]]; [exact Hq|].
    intros p Hin. rewrite Hp in Hin. apply in_set_nth in Hin. destruct Hin as [->|Hin]; [|auto].
    rewrite Hz in Ht. destruct p'; cbn in *; try reflexivity; lia.
  Qed.
End Progress.

Lemma todo_set reqs s s' i p p' r :
  nth_error (pcs s) i = Some p -> nth_error reqs i = Some r ->
  pcs s' = set_nth i p' (pcs s) -> todo reqs s' i = rk p'.
Proof.
  intros Hp Hr Hs. unfold todo. rewrite Hs, (nth_error_set_nth_same i p' p _ Hp), Hr. reflexivity.
Qed.

Lemma pe_progress dry c reqs s i :
  (todo reqs s i = 0%nat /\ pe_step dry c reqs s i = s)
  \/ (exists p', pcs (pe_step dry c reqs s i) = set_nth i p' (pcs s)
                 /\ todo reqs (pe_step dry c reqs s i) i = rk p'
                 /\ (rk p' < todo reqs s i)%nat).
Proof.
  unfold todo at 1 3. unfold pe_step.
  destruct (nth_error (pcs s) i) as [p|] eqn:Ep; [|left; auto].
  destruct (nth_error reqs i) as [r|] eqn:Er; [|left; auto].
  assert (Hset : forall s0 p', pcs s0 = pcs s -> calls s0 = calls s0 ->
            pcs (set_pc s0 i p') = set_nth i p' (pcs s)).
  { intros s0 p' H _. cbn. rewrite H. reflexivity. }
  destruct p; try (left; split; reflexivity); right;
    repeat match goal with |- context [if ?b then _ else _] => destruct b end;
    eexists; (split; [cbn [pcs set_pc bump add_call]; reflexivity|]);
    (split; [eapply todo_set; [exact Ep|exact Er|reflexivity]|cbn; lia]).
Qed.

Lemma lim_progress dry c reqs s i :
  (todo reqs s i = 0%nat /\ lim_step dry c reqs s i = s)
  \/ (exists p', pcs (lim_step dry c reqs s i) = set_nth i p' (pcs s)
                 /\ todo reqs (lim_step dry c reqs s i) i = rk p'
                 /\ (rk p' < todo reqs s i)%nat).
Proof.
  unfold todo at 1 3. unfold lim_step.
  destruct (nth_error (pcs s) i) as [p|] eqn:Ep; [|left; auto].
  destruct (nth_error reqs i) as [r|] eqn:Er; [|left; auto].
  destruct p; try (left; split; reflexivity); right;
    repeat match goal with |- context [if ?b then _ else _] => destruct b end;
    eexists; (split; [cbn [pcs set_pc bump add_call]; reflexivity|]);
    (split; [eapply todo_set; [exact Ep|exact Er|reflexivity]|cbn; lia]).
Qed.

Lemma quiet_init n : quiet (init_est n).
Proof. intros p H. apply repeat_spec in H. subst. reflexivity. Qed.

Lemma quiet_seq step reqs
  (Hprog : forall s i,
    (todo reqs s i = 0%nat /\ step s i = s)
    \/ (exists p', pcs (step s i) = set_nth i p' (pcs s) /\ todo reqs (step s i) i = rk p'
                   /\ (rk p' < todo reqs s i)%nat)) order s :
  quiet s -> quiet (exec step s (seq_schedule order)).
Proof.
  revert s. induction order as [|i t IH]; intros s Hq; [exact Hq|].
  unfold seq_schedule. cbn [flat_map]. rewrite exec_app. apply IH.
  apply (quiet_run_thread reqs step Hprog). exact Hq.
Qed.

Lemma quiet_settled s : quiet s -> settled s.
Proof. intros Hq p Hp. specialize (Hq p Hp). split; intro; subst; discriminate. Qed.

(* ---------- PodEvictor, sequential caller ---------- *)
Theorem pe_seq_caps dry c reqs order :
  caps_nonneg c ->
  let s := exec (pe_step dry c reqs) (init_est (length reqs)) (seq_schedule order) in
  (forall m k, cap_node c = Some m -> k <> 0 -> issued_live reqs (on_node k) s <= m)
  /\ (forall m k, cap_ns c = Some m -> issued_live reqs (on_ns k) s <= m)
  /\ (forall k, k <> 0 -> cn s k = issued_live reqs (on_node k) s) /\ cn s 0 = 0
  /\ (forall k, cs s k = issued_live reqs (on_ns k) s)
  /\ ct s = issued_live reqs any_req s
  /\ (dry = true -> calls s = []).
Proof.
  intros Hc s.
  destruct (pe_conc_caps_all dry c reqs (seq_schedule order) Hc) as [H1 H2].
  assert (Hset : settled s).
  { apply quiet_settled, (quiet_seq _ reqs (pe_progress dry c reqs)), quiet_init. }
  destruct (pe_counters_exact dry c reqs (seq_schedule order) Hc Hset) as [H3 [H4 [H5 H6]]].
  repeat split; auto.
  intros ->. apply pe_dry_no_call, Hc.
Qed.

(* ---------- proxy + limiter, sequential caller ---------- *)
Lemma quiet_nobody reqs s : quiet s -> nobody_in_flight reqs s.
Proof.
  intro Hq. unfold nobody_in_flight, tsum. apply sumZ_map_zero. intros [r p] Hin.
  apply in_combine_r in Hin. cbn. unfold w_of. rewrite (Hq p Hin). rewrite andb_false_r. reflexivity.
Qed.

Lemma disciplined_app step reqs s a b :
  disciplined step reqs s a -> disciplined step reqs (exec step s a) b ->
  disciplined step reqs s (a ++ b).
Proof.
  revert s. induction a as [|i t IH]; intros s Ha Hb; [exact Hb|].
  cbn [app disciplined] in *. destruct Ha as [H1 H2]. split; [exact H1|].
  apply IH; [exact H2|exact Hb].
Qed.

(* running one thread from a quiet state is disciplined: only its first action can be AllowEvict *)
Lemma disciplined_thread dry c reqs s i :
  quiet s -> disciplined (lim_step dry c reqs) reqs s (repeat i thread_actions).
Proof.
  intro Hq. unfold thread_actions.
  assert (Hgen : forall n s0, (quiet s0 \/ todo reqs s0 i < 4)%nat ->
            disciplined (lim_step dry c reqs) reqs s0 (repeat i n)).
  { induction n as [|n IH]; intros s0 H0; cbn [repeat disciplined]; [exact I|]. split.
    - intros Hp Hr. destruct H0 as [H0|H0]; [apply quiet_nobody, H0|].
      unfold todo in H0. rewrite Hp in H0. destruct (nth_error reqs i); [cbn in H0; lia|congruence].
    - apply IH. destruct (lim_progress dry c reqs s0 i) as [[Hz ->]|[p' [_ [Ht Hlt]]]].
      + right. lia.
      + right. pose proof (todo_le4 reqs s0 i). lia. }
  apply Hgen. left. exact Hq.
Qed.

Lemma disciplined_seq dry c reqs order s :
  quiet s -> disciplined (lim_step dry c reqs) reqs s (seq_schedule order).
Proof.
  revert s. induction order as [|i t IH]; intros s Hq; [exact I|].
  unfold seq_schedule. cbn [flat_map]. apply disciplined_app.
  - apply disciplined_thread, Hq.
  - apply IH. apply (quiet_run_thread reqs _ (lim_progress dry c reqs)). exact Hq.
Qed.

Theorem lim_seq_caps dry c reqs order :
  caps_nonneg c ->
  let s := exec (lim_step dry c reqs) (init_est (length reqs)) (seq_schedule order) in
  (forall m k, cap_node c = Some m -> k <> 0 -> cn s k <= m)
  /\ (forall m k, cap_ns c = Some m -> cs s k <= m)
  /\ (forall m, cap_total c = Some m -> ct s <= m)
  /\ (forall k, k <> 0 -> cn s k = tsum (w_of false (on_node k) doneok) reqs (pcs s))
  /\ (forall k, cs s k = tsum (w_of false (on_ns k) doneok) reqs (pcs s))
  /\ ct s = tsum (w_of false any_req doneok) reqs (pcs s).
Proof.
  intros Hc. cbv zeta.
  pose proof (lim_disciplined_caps dry c reqs (seq_schedule order) Hc
              (disciplined_seq dry c reqs order _ (quiet_init _))) as H.
  cbv zeta in H.
  set (s := exec (lim_step dry c reqs) (init_est (length reqs)) (seq_schedule order)) in *.
  destruct H as [H1 [H2 [H3 [H4 [H5 H6]]]]].
  assert (Hle : forall sel, tsum (w_of false sel doneok) reqs (pcs s)
                            <= tsum (w_of false sel granted_pc) reqs (pcs s)).
  { intro sel. apply tsum_le. intros r p. unfold w_of, granted_pc. cbn.
    destruct (sel r); cbn; [|lia]. destruct p; cbn; lia. }
  repeat split; auto.
  - intros m k Hm Hk. rewrite (H4 k Hk). eapply Z.le_trans; [apply Hle|]. eauto.
  - intros m k Hm. rewrite H5. eapply Z.le_trans; [apply Hle|]. eauto.
  - intros m Hm. rewrite H6. eapply Z.le_trans; [apply Hle|]. eauto.
Qed.
