(* C16 — flat-integer interface of the arbitration model (stream arbitration).
   input :  16 (stream tag)  maxGlobal maxNode maxNs mmKind mmVal muKind muVal skipExpected
            P (ns node wl prio ptime ready forbid state)*P   W (replicas isJobKind)*W   J (pod time)*J
            K (op a b)*K      (op 10 = restart of the arbitrator)
   observable : per operation  (phase|-1 annotation waiting arbitrated)*J  verdict *)
From Coq Require Import List ZArith Bool.
From Verif Require Import Lib.Wire C16.ModelArb C16.SpecArb.
Import ListNotations.
Open Scope Z_scope.

Fixpoint number_from {A} (n : Z) (f : Z -> list Z -> A * list Z) (k : nat) (l : list Z) : list A * list Z :=
  match k with
  | O => ([], l)
  | S k' => let '(a, r) := f n l in
            let '(t, r') := number_from (n + 1) f k' r in (a :: t, r')
  end.

Definition dec_pod (id : Z) (l : list Z) : pod * list Z :=
  match l with
  | ns :: node :: w :: prio :: tm :: ready :: forbid :: state :: t =>
      (mkPod id ns node w prio tm (zb ready) (zb forbid) true (state =? 1)
             ((state =? 2) || (state =? 3)), t)
  | _ => (mkPod id 0 0 0 0 0 true false true false false, [])
  end.
Definition dec_wl (id : Z) (l : list Z) : wl * list Z :=
  match l with
  | r :: isjob :: t => (mkWl id r (zb isjob), t)
  | _ => (mkWl id 0 false, [])
  end.
Definition dec_job (id : Z) (l : list Z) : job * list Z :=
  match l with
  | p :: tm :: t => (mkJob id p tm false false 0 false false false false, t)
  | _ => (mkJob id 0 0 false false 0 false false false false, [])
  end.
Definition dec_op (l : list Z) : op * list Z :=
  match l with
  | k :: a :: b :: t =>
      ((if k =? 1 then OAdd a else if k =? 2 then ORound a else if k =? 3 then OSetPhase a b
        else if k =? 4 then ODelete a else if k =? 5 then OSetReady a (zb b)
        else if k =? 6 then ODeletePod a else if k =? 7 then OFilter a
        else if k =? 8 then OEvict a else if k =? 9 then OSetPodState a b else if k =? 10 then ORestart else ONop), t)
  | _ => (ONop, [])
  end.

Definition counted {A} (f : Z -> list Z -> A * list Z) (l : list Z) : list A * list Z :=
  match l with
  | k :: t => number_from 1 f (Z.to_nat k) t
  | [] => ([], [])
  end.

(* the first integer is the stream tag; anything else (e.g. a replay file of another stream of
   the property) is foreign: empty observable, no verdict *)
Definition mine (inp : list Z) : bool := match inp with t :: _ => t =? 16 | [] => false end.

Definition decode (inp : list Z) : cfg * ast * list op :=
  match inp with
  | _ :: g :: n :: s :: mk :: mv :: uk :: uv :: sk :: t =>
      let '(pods, r1) := counted dec_pod t in
      let '(wls, r2) := counted dec_wl r1 in
      let '(jobs, r3) := counted dec_job r2 in
      let '(ops, _) := decode_seq dec_op r3 in
      (mkCfg g n s (mk, mv) (uk, uv) (zb sk), mkA pods wls jobs, ops)
  | _ => (mkCfg 0 0 0 (0, 0) (0, 0) false, mkA [] [] [], [])
  end.

Definition run_case (inp : list Z) : list Z :=
  if mine inp then
    let '(c, st, ops) := decode inp in
    flat_map (fun sr => obs_state (fst sr) ++ [snd sr]) (run_ops c st ops)
  else [].

(* cut the observable into per-operation records of J job tuples and a verdict *)
Fixpoint dec_jobs_obs (k : nat) (l : list Z) : jobs_obs * list Z :=
  match k with
  | O => ([], l)
  | S k' =>
      match l with
      | a :: b :: c :: d :: t => let '(os, r) := dec_jobs_obs k' t in ((a, b, c, d) :: os, r)
      | _ => ([], [])
      end
  end.

Fixpoint dec_obs (nj : nat) (nops : nat) (l : list Z) : list (jobs_obs * Z) :=
  match nops with
  | O => match l with [] => [] | _ => [([], 0); ([], 0)] end   (* trailing garbage: wrong length *)
  | S n' =>
      if Nat.leb (4 * nj + 1) (length l) then
        let '(os, r) := dec_jobs_obs nj l in
        match r with
        | v :: t => (os, v) :: dec_obs nj n' t
        | [] => []
        end
      else []
  end.

Definition prop_case (inp obs : list Z) : Z :=
  if mine inp then
    let '(c, st, ops) := decode inp in
    history_code c st ops (dec_obs (length (a_jobs st)) (length ops) obs)
  else match obs with [] => 0 | _ => 9 end.

(* non-trivial: in some round at least one job passes and at least one is kept waiting
   (refused by a retryable filter) *)
Definition round_nontrivial (st st' : ast) : bool :=
  existsb (fun jj => j_waiting (fst jj) && negb (j_waiting (snd jj)) && j_arb (snd jj))
          (combine (a_jobs st) (a_jobs st'))
  && existsb (fun jj => j_waiting (fst jj) && j_waiting (snd jj) && j_api (fst jj)
                        && negb (j_stale (fst jj)))
             (combine (a_jobs st) (a_jobs st')).

Fixpoint nontrivial_ops (c : cfg) (st : ast) (ops : list op) : bool :=
  match ops with
  | [] => false
  | o :: t =>
      let st' := fst (step c st o) in
      (match o with ORound _ => round_nontrivial st st' | _ => false end) || nontrivial_ops c st' t
  end.

Definition nontrivial_case (inp : list Z) : bool :=
  mine inp && let '(c, st, ops) := decode inp in nontrivial_ops c st ops.

(* no known finding in this stream (the restart defect, formerly sig 2, is fixed in bc5a78a) *)
Definition finding_sig (inp obs : list Z) : Z := 0.

Require Extraction.
Require Import ExtrOcamlBasic.
Extraction "model.ml" run_case prop_case nontrivial_case finding_sig.
