(* C06 — the property as Props over (inputs | histories, observables) and its decision
   procedures (Z: 0 = holds, otherwise the number of the first failing clause). The decision
   procedures are what Extract_*.v run on the IMPLEMENTATION's observables. *)
From Coq Require Import List ZArith Bool.
From Verif Require Import C06.Model.
Import ListNotations.
Open Scope Z_scope.

Fixpoint strictly_asc (l : list Z) : bool :=
  match l with
  | x :: t => match t with y :: _ => (x <? y) && strictly_asc t | [] => true end
  | [] => true
  end.
Fixpoint nodupb (l : list Z) : bool :=
  match l with [] => true | x :: t => negb (memZ x t) && nodupb t end.
Definition subsetb (a b : list Z) : bool := forallb (fun x => memZ x b) a.
Fixpoint eq_listZ (a b : list Z) : bool :=
  match a, b with
  | [], [] => true
  | x :: a', y :: b' => (x =? y) && eq_listZ a' b'
  | _, _ => false
  end.

(* ------------------------------------------------------------------ well-formedness *)
(* CPU ids strictly ascending (hence distinct); a core lies in one NUMA node, a NUMA node in
   one socket *)
Definition wf_topo (T : topo) : bool :=
  strictly_asc (map cid T)
  && forallb (fun x => forallb (fun y =>
       (negb (ccore x =? ccore y) || ((cnode x =? cnode y) && (csock x =? csock y)))
       && (negb (cnode x =? cnode y) || (csock x =? csock y))) T) T.
(* every physical core has exactly CPUsPerCore logical CPUs *)
Definition uniform_topo (T : topo) : bool :=
  forallb (fun x => lenZ (filter (fun y => ccore y =? ccore x) T) =? cpc T) T.

(* ------------------------------------------------------------------ CPU picking *)
Definition core_of (T : topo) (i : Z) : Z := ccore (find_cpu T i).

(* "full cores": every logical CPU of a touched physical core is in the set *)
Definition cores_whole (T : topo) (s : list Z) : Prop :=
  forall x, In x T -> In (ccore x) (map (core_of T) s) -> In (cid x) s.
Definition cores_wholeb (T : topo) (s : list Z) : bool :=
  forallb (fun x => negb (memZ (ccore x) (map (core_of T) s)) || memZ (cid x) s) T.
(* "spread": no two CPUs of the set share a physical core *)
Definition cores_distinct (T : topo) (s : list Z) : Prop := NoDup (map (core_of T) s).
Definition cores_distinctb (T : topo) (s : list Z) : bool := nodupb (map (core_of T) s).

(* a successful pick: exact, duplicate free, from the free CPUs *)
Definition take_ok (avail : list Z) (n : Z) (s : list Z) : Prop :=
  NoDup s /\ incl s avail /\ lenZ s = Z.max 0 n.

(* decision on an observed result [o] (sorted ascending) with the two policy verdicts the
   implementation reported for it *)
Definition take_code (T : topo) (avail : list Z) (n : Z) (o : option (list Z)) (sf ss : bool) : Z :=
  match o with
  | None => if n <=? lenZ (filter (fun i => memZ i (map cid T)) avail) then 6 else 0
  | Some s =>
    if negb (strictly_asc s) then 1
    else if negb (subsetb s avail) then 2
    else if negb (lenZ s =? Z.max 0 n) then 3
    else if sf && uniform_topo T && negb (cores_wholeb T s) then 4
    else if ss && negb (cores_distinctb T s) then 5
    else 0
  end.

(* ------------------------------------------------------------------ NUMA split *)
(* an assignment [got] (node, amount) of request [req] over hinted nodes with free amounts [hav] *)
Definition numa_ok (req : Z) (hav got : list (Z * Z)) : Prop :=
  sumZ (map snd got) = req
  /\ forall nd x, In (nd, x) got -> In nd (map fst hav) /\ 0 <= x <= lookupZ nd hav.

(* [got]: amount per node slot 0..; [reason]: an "Insufficient NUMA ..." reason was returned *)
Definition res_code (kind req : Z) (tracked : bool) (hav : list (Z * Z)) (got : list Z) (reason : bool) : Z :=
  let slots := combine (map Z.of_nat (seq 0 (length got))) got in
  if (req <? 0) || negb tracked
  then (if forallb (fun x => x =? 0) got && negb reason then 0 else 7)
  else if negb (forallb (fun p => (0 <=? snd p)
                               && ((snd p =? 0) || (memZ (fst p) (map fst hav)
                                                    && (snd p <=? lookupZ (fst p) hav)))) slots) then 1
  else if negb reason && negb (sumZ got =? req) then 2
  else if reason && (kind =? 0) && (req <=? sumZ (map snd hav)) then 3
  else 0.

(* ------------------------------------------------------------------ ledger histories *)
(* reference count of a CPU recomputed from the live pods *)
Definition ref_of_pods (ps : list palloc) (i : Z) : Z :=
  lenZ (filter (fun p => memZ i (p_cpus p)) ps).
(* per-node amounts recomputed from the live pods *)
Definition numa_of_pod (p : palloc) (nd : Z) : res2 :=
  fold_right (fun e acc => if fst e =? nd then (fst (snd e) + fst acc, snd (snd e) + snd acc) else acc)
             (0, 0) (p_numa p).
Definition numa_of_pods (ps : list palloc) (nd : Z) : res2 :=
  fold_right (fun p acc => let r := numa_of_pod p nd in (fst r + fst acc, snd r + snd acc)) (0, 0) ps.

(* the ledger equals the from-scratch recomputation *)
Definition ledger_exact (st : lstate) : Prop :=
  (forall i, ref_in (l_cpus st) i = ref_of_pods (l_pods st) i)
  /\ (forall nd, lookup_res nd (l_numa st) = numa_of_pods (l_pods st) nd).
(* no CPU is held by more pods than the sharing limit *)
Definition within_limit (maxref : Z) (st : lstate) : Prop :=
  forall i, ref_of_pods (l_pods st) i <= maxref.
(* no NUMA node has handed out more than it has *)
Definition within_capacity (o : nopts) (st : lstate) : Prop :=
  forall nd, In nd (map fst (o_cap o)) ->
    fst (numa_of_pods (l_pods st) nd) <= fst (lookup_res nd (o_cap o))
    /\ snd (numa_of_pods (l_pods st) nd) <= snd (lookup_res nd (o_cap o)).

(* ---- CPUs given back to an allocation (reservation restore, preemption) ----
   bookkeeping of the specification: an edge (guest, host, S) records that [guest] was
   allocated the CPUs S out of the remaining CPUs of reservation [host], which keeps holding
   them; such a nested hold is not a further owner of the CPU *)
Notation edge := (Z * Z * list Z)%type.
Definition e_guest (e : edge) : Z := fst (fst e).
Definition e_host (e : edge) : Z := snd (fst e).
Definition e_set (e : edge) : list Z := snd e.

Definition cpus_of (ps : list palloc) (uid : Z) : list Z :=
  match find_pod uid ps with Some p => p_cpus p | None => [] end.
Definition live (ps : list palloc) (uid : Z) : bool :=
  match find_pod uid ps with Some _ => true | None => false end.
Definition nest_count (es : list edge) (i : Z) : Z := lenZ (filter (fun e => memZ i (e_set e)) es).
(* number of owners of CPU i: holders that are not nested in a reservation holding it *)
Definition owners (ps : list palloc) (es : list edge) (i : Z) : Z := ref_of_pods ps i - nest_count es i.
Definition within_limit_g (maxref : Z) (ps : list palloc) (es : list edge) : Prop :=
  forall i, owners ps es i <= maxref.

Definition edges_del (es : list edge) (uid : Z) : list edge :=
  filter (fun e => negb (e_guest e =? uid) && negb (e_host e =? uid)) es.
Definition edges_del_opt (es : list edge) (v : option Z) : list edge :=
  match v with Some uid => edges_del es uid | None => es end.
(* the CPUs of reservation h that no guest of it holds yet *)
Definition remaining (ps : list palloc) (es : list edge) (h : Z) : list Z :=
  filter (fun i => negb (existsb (fun e => (e_host e =? h) && memZ i (e_set e)) es)) (cpus_of ps h).
(* edges after a successful Allocate of [p] with the give-backs of [rq] *)
Definition edges_alloc (es : list edge) (rq : areq) (host victim : option Z) (cpus : list Z) : list edge :=
  let es1 := edges_del (edges_del_opt es victim) (r_uid rq) in
  match host with
  | Some h => es1 ++ [(r_uid rq, h, filter (fun i => memZ i (r_pref rq)) cpus)]
  | None => es1
  end.

(* the give-back sets an Allocate is called with are a function of the live allocations:
   [host] must be a live reservation that is nobody's guest, [victim] a live pod, the new uid
   fresh; otherwise the corresponding set is empty *)
Definition concretize (ps : list palloc) (es : list edge) (rq : areq) (host victim : option Z)
  : areq * option Z * option Z :=
  let uid := r_uid rq in
  let host' := match host with
               | Some h => if live ps h && negb (h =? uid) && negb (live ps uid)
                              && negb (existsb (fun e => e_guest e =? h) es)
                           then Some h else None
               | None => None
               end in
  let victim' := match victim with
                 | Some v => if live ps v && negb (v =? uid) && negb (live ps uid)
                                && negb (match host' with Some h => h =? v | None => false end)
                             then Some v else None
                 | None => None
                 end in
  (mkR uid (r_n rq) (r_bindreq rq) (r_bind rq) (r_required rq) (r_excl rq) (r_hint rq) (r_cpu rq) (r_mem rq)
       (match host' with Some h => remaining ps es h | None => [] end)
       (match victim' with Some v => cpus_of ps v | None => [] end),
   host', victim').

(* what getAvailableCPUs must return given the live allocations of the HISTORY and the
   give-back sets: a CPU is free iff the reference count that remains after the give-backs is
   below the sharing limit and the CPU is not reserved *)
Definition giveback_count (gb : list (list Z)) (i : Z) : Z :=
  sumZ (map (fun l => if memZ i l then 1 else 0) gb).
Definition avail_spec (o : nopts) (ps : list palloc) (gb : list (list Z)) : list Z :=
  filter (fun i => negb (o_maxref o <=? Z.max 0 (ref_of_pods ps i - giveback_count gb i))
                   && negb (memZ i (o_reserved o))) (map cid (o_topo o)).

(* ---- decision procedure over an observed history ----
   one record per operation: result flag, allocation returned, then the dumps *)
Record lobs := mkLO {
  lo_ok : bool; lo_cpus : list Z; lo_numa : list nres;
  lo_ledger : list (Z * Z);        (* (cpu id, RefCount), ascending id *)
  lo_avail : list Z;               (* GetAvailableCPUs, ascending *)
  lo_nled : list res2 }.           (* allocatedResources of node slots 0.. *)

Definition pods_put (ps : list palloc) (p : palloc) : list palloc :=
  filter (fun q => negb (p_uid q =? p_uid p)) ps ++ [p].
Definition pods_del (ps : list palloc) (uid : Z) : list palloc :=
  filter (fun q => negb (p_uid q =? uid)) ps.

Definition sum_res (l : list nres) : res2 :=
  fold_right (fun e acc => (fst (snd e) + fst acc, snd (snd e) + snd acc)) (0, 0) l.

(* clauses on a successful Allocate *)
Definition alloc_code (o : nopts) (rq : areq) (ps : list palloc) (b : lobs) : Z :=
  let T := o_topo o in
  let s := lo_cpus b in
  if negb (strictly_asc s) then 11
  else if negb (subsetb s (avail_spec o ps (givebacks rq))) then 12
  else if negb (lenZ s =? (if r_bindreq rq then Z.max 0 (r_n rq) else 0)) then 13
  else if r_bindreq rq && r_required rq && (r_bind rq =? 1) && uniform_topo T && negb (cores_wholeb T s) then 14
  else if r_bindreq rq && r_required rq && (r_bind rq =? 2) && negb (cores_distinctb T s) then 15
  else
    match r_hint rq with
    | None => if match lo_numa b with [] => true | _ => false end then 0 else 16
    | Some hint =>
      let tot := sum_res (lo_numa b) in
      if negb (strictly_asc (map fst (lo_numa b))) then 17
      else if negb (forallb (fun e =>
                  memZ (fst e) hint
                  && (0 <=? fst (snd e)) && (0 <=? snd (snd e))
                  && (fst (snd e) <=? Z.max 0 (fst (lookup_res (fst e) (o_cap o))
                                                - fst (numa_of_pods ps (fst e))))
                  && (snd (snd e) <=? Z.max 0 (snd (lookup_res (fst e) (o_cap o))
                                                - snd (numa_of_pods ps (fst e)))))
                (lo_numa b)) then 18
      else if negb ((r_cpu rq <? 0) || (fst tot =? r_cpu rq)) then 19
      else if negb ((r_mem rq <? 0) || (snd tot =? r_mem rq)) then 20
      else 0
    end.

(* clauses on a failed Allocate: it must not fail when the model-independent sufficient
   conditions of the completeness theorems hold *)
Definition free_sum (o : nopts) (ps : list palloc) (hint : list Z) (sel : res2 -> Z) : Z :=
  sumZ (map (fun nd => Z.max 0 (sel (lookup_res nd (o_cap o)) - sel (numa_of_pods ps nd))) hint).
Definition fail_code (o : nopts) (rq : areq) (ps : list palloc) : Z :=
  match r_hint rq with
  | None =>
    if negb (r_bindreq rq) then 30
    else if negb (r_required rq) && (r_n rq <=? lenZ (avail_spec o ps [])) then 29 else 0
  | Some hint =>
    if negb (r_bindreq rq) && negb (r_required rq)
       && match o_cap o with [] => false | _ => true end
       && ((r_cpu rq <? 0) || (r_cpu rq <=? free_sum o ps hint fst))
       && ((r_mem rq <? 0) || (r_mem rq <=? free_sum o ps hint snd))
    then 28 else 0
  end.

(* clauses on the dumps after any operation *)
Definition dump_code (o : nopts) (ps : list palloc) (es : list edge) (clean : bool) (b : lobs) : Z :=
  let T := o_topo o in
  let universe := dedup (map cid T ++ flat_map p_cpus ps ++ map fst (lo_ledger b)) in
  if negb (strictly_asc (map fst (lo_ledger b))) then 21
  else if negb (forallb (fun i => lookupZ i (lo_ledger b) =? ref_of_pods ps i) universe) then 22
  else if negb (forallb (fun p => 0 <? snd p) (lo_ledger b)) then 23
  else if negb (forallb (fun k => let nd := Z.of_nat k in
                   let r := numa_of_pods ps nd in let d := nth k (lo_nled b) (0, 0) in
                   (fst d =? fst r) && (snd d =? snd r)) (seq 0 (length (lo_nled b)))) then 24
  else if negb (eq_listZ (lo_avail b) (avail_spec o ps [])) then 25
  else if clean && negb (forallb (fun i => ref_of_pods ps i - nest_count es i <=? o_maxref o) universe) then 26
  else if clean && negb (forallb (fun e =>
                   let d := numa_of_pods ps (fst e) in
                   (fst d <=? fst (snd e)) && (snd d <=? snd (snd e))) (o_cap o)) then 27
  else 0.

Definition lo_init : lobs := mkLO true [] [] [] [] [].

(* ---- informer events: the property's reading ----
   which pods are alive on the node after an event, decided from the content of the event alone
   (never from the ledger): a pod stops being alive when its deletion is reported — by a watch
   event, by the tombstone of a re-list (DeletedFinalStateUnknown), or by the scheduler
   forgetting it —, when it is seen terminated (Succeeded / Failed), or when it is seen
   unassigned after having been assigned (another scheduler took it back); it is (re-)recorded
   alive with the allocation its annotations spell when it is seen assigned, not terminated and
   the annotations parse to a non-empty allocation. Events that do not carry a pod, and events
   about a pod that is on no node, change nothing. *)
Inductive effect :=
| ELive (p : palloc)
| EDead (uid : Z)
| ENone.

Definition ev_carries_pod (e : podev) : bool :=
  (0 <=? ev_kind e) && (ev_kind e <=? 3) || (ev_kind e =? 6).
Definition ev_is_deletion (e : podev) : bool :=
  (ev_kind e =? 2) || (ev_kind e =? 3) || (ev_kind e =? 6).

Definition event_effect (e : podev) : effect :=
  let uid := p_uid (ev_pod e) in
  if negb (ev_carries_pod e) then ENone
  else if ev_is_deletion e then (if ev_assigned e then EDead uid else ENone)
  else if negb (ev_assigned e)
       then (if (ev_kind e =? 1) && ev_oldassigned e then EDead uid else ENone)
  else if ev_terminated e then EDead uid
  else if ev_malformed e || palloc_empty (ev_pod e) then ENone
  else ELive (ev_pod e).

Definition apply_effect (ps : list palloc) (f : effect) : list palloc :=
  match f with
  | ELive p => pods_put ps p
  | EDead uid => pods_del ps uid
  | ENone => ps
  end.

(* the live allocations of the node after one item of the history, given the allocation [r] a
   (successful) Allocate returned: a function of the history alone *)
Definition live_next (ps : list palloc) (x : item) (r : option palloc) : list palloc :=
  match x, r with
  | IOp (OAlloc _), Some p => pods_put ps p
  | IOp (OAllocR _ _ victim), Some p =>
    pods_put (match victim with Some v => pods_del ps v | None => ps end) p
  | IOp (OAlloc _), None | IOp (OAllocR _ _ _), None => ps
  | IOp (ORelease uid), _ => pods_del ps uid
  | IOp (OUpdate p), _ => if palloc_empty p then ps else pods_put ps p
  | IEvent e, _ => apply_effect ps (event_effect e)
  | IEcho uid, _ => match find_pod uid ps with
                    | Some p => if palloc_empty p then ps else pods_put ps p
                    | None => ps
                    end
  end.

(* one step of the bookkeeping of the specification: every figure the implementation is judged
   against is recomputed from the history (the live allocations [ps] as returned by the
   successful operations and as spelled by the events, the edges [es]); returns the failing
   clause of the operation's own result (0 = none) and the bookkeeping afterwards *)
Definition obs_result (rq : areq) (b : lobs) : option palloc :=
  if lo_ok b then Some (mkP (r_uid rq) (lo_cpus b) (r_excl rq) (lo_numa b)) else None.

Definition hist_step (o : nopts) (ps : list palloc) (es : list edge) (clean : bool)
                     (x : item) (b : lobs) : Z * list palloc * list edge * bool :=
  match x with
  | IOp (OAlloc rq) =>
    (if lo_ok b then alloc_code o rq ps b else fail_code o rq ps,
     live_next ps x (obs_result rq b),
     if lo_ok b then edges_del es (r_uid rq) else es, clean)
  | IOp (ORelease uid) => (0, live_next ps x None, edges_del es uid, clean)
  | IOp (OUpdate p) =>
    (0, live_next ps x None, if palloc_empty p then es else edges_del es (p_uid p),
     clean && palloc_empty p)
  | IOp (OAllocR rq0 host0 victim0) =>
    let '(rq, host, victim) := concretize ps es rq0 host0 victim0 in
    (if lo_ok b then alloc_code o rq ps b else fail_code o rq ps,
     live_next ps (IOp (OAllocR rq host victim)) (obs_result rq b),
     if lo_ok b then edges_alloc es rq host victim (lo_cpus b) else es, clean)
  | IEvent e =>
    (0, live_next ps x None,
     match event_effect e with
     | ELive p => edges_del es (p_uid p)
     | EDead uid => edges_del es uid
     | ENone => es
     end,
     clean && match event_effect e with ELive _ => false | _ => true end)
  | IEcho _ => (0, live_next ps x None, es, clean)
  end.

Fixpoint hist_fold (o : nopts) (ps : list palloc) (es : list edge) (clean : bool)
                   (ops : list item) (obs : list lobs) : Z * list palloc * list edge * bool :=
  match ops, obs with
  | [], [] => (0, ps, es, clean)
  | x :: ops', b :: obs' =>
    let '(c, ps', es', clean') := hist_step o ps es clean x b in
    if negb (c =? 0) then (c, ps', es', clean')
    else let d := dump_code o ps' es' clean' b in
         if negb (d =? 0) then (d, ps', es', clean') else hist_fold o ps' es' clean' ops' obs'
  | _, _ => (99, ps, es, clean)
  end.

Definition ledger_code (o : nopts) (ops : list item) (obs : list lobs) : Z :=
  fst (fst (fst (hist_fold o [] [] true ops obs))).

(* ---- concurrent section (stream "conc") ----
   after a sequential set-up history, pod [x] (live) is re-recorded by Update from one
   goroutine while other goroutines call Allocate; Update is one critical section, so every
   Allocate must be consistent with the live allocations of the history, which the re-recording
   does not change *)
Definition conc_code (o : nopts) (setup : list item) (reqs : list areq)
                     (obs_setup : list lobs) (results : list lobs) (final : lobs) : Z :=
  let '(c, ps, es, clean) := hist_fold o [] [] true setup obs_setup in
  if negb (c =? 0) then c
  else
    let fix go (rs : list areq) (bs : list lobs) : Z :=
      match rs, bs with
      | [], [] => 0
      | rq :: rs', b :: bs' =>
        let c1 := if lo_ok b then alloc_code o rq ps b else fail_code o rq ps in
        if negb (c1 =? 0) then 100 + c1 else go rs' bs'
      | _, _ => 99
      end in
    let c2 := go reqs results in
    if negb (c2 =? 0) then c2
    else let d := dump_code o ps es clean final in if negb (d =? 0) then 100 + d else 0.
