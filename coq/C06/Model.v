(* C06 — executable model of the CPU / NUMA allocation mechanism of
   pkg/scheduler/plugins/nodenumaresource:
     cpu_accumulator.go   takePreferredCPUs, takeCPUs and every candidate generator
     node_allocation.go   addPodAllocation, release, update, getAvailableCPUs,
                          getAvailableNUMANodeResources
     resource_manager.go  tryBestToDistributeEvenly, splitQuantity, allocateRes, Allocate,
                          allocateResourcesByHint, trimNUMANodeResources, allocateCPUSet,
                          filterCPUsByRequiredCPUBindPolicy, satisfiedRequiredCPUBindPolicy
   Total, executable, no proofs in this file.

   Conventions: CPU sets are duplicate-free [list Z] (order is irrelevant to the code: the
   Go type is a set; observables are sorted at projection time). Go maps iterated in random
   order are modelled by lists in ascending key order; this is faithful because every use in
   the code either sorts with a total comparator afterwards or only uses set semantics (the
   two non-total comparators — sockets by size — are stable insertion sorts in Go for
   <= 12 elements). Quantities: CPU in milli, everything else in units. *)
From Coq Require Import List ZArith Bool.
Import ListNotations.
Open Scope Z_scope.

(* ------------------------------------------------------------------ basics *)
Definition memZ (x : Z) (l : list Z) : bool := existsb (Z.eqb x) l.
Definition lenZ {A} (l : list A) : Z := Z.of_nat (length l).
Definition sumZ (l : list Z) : Z := fold_right Z.add 0 l.
Definition hd0 (l : list Z) : Z := match l with x :: _ => x | [] => 0 end.
Definition firstnZ {A} (n : Z) (l : list A) : list A := firstn (Z.to_nat n) l.
Definition skipnZ {A} (n : Z) (l : list A) : list A := skipn (Z.to_nat n) l.

(* first occurrences, in order *)
Fixpoint dedup (l : list Z) : list Z :=
  match l with
  | [] => []
  | x :: t => x :: filter (fun y => negb (y =? x)) (dedup t)
  end.

(* set union on duplicate-free lists: r ∪ l *)
Definition set_union (r l : list Z) : list Z :=
  r ++ filter (fun i => negb (memZ i r)) (dedup l).

(* stable insertion sort *)
Fixpoint insert_by {A} (leb : A -> A -> bool) (x : A) (l : list A) : list A :=
  match l with
  | [] => [x]
  | y :: t => if leb x y then x :: l else y :: insert_by leb x t
  end.
Definition sort_by {A} (leb : A -> A -> bool) (l : list A) : list A :=
  fold_right (insert_by leb) [] l.

(* lexicographic order on key vectors: every total comparator of the Go file is a chain of
   "if different return <" tests, i.e. a lexicographic comparison of a key vector *)
Fixpoint lex_leb (a b : list Z) : bool :=
  match a, b with
  | x :: a', y :: b' => if x <? y then true else if y <? x then false else lex_leb a' b'
  | _, _ => true
  end.
Definition sort_on {A} (key : A -> list Z) (l : list A) : list A :=
  map snd (sort_by (fun a b => lex_leb (fst a) (fst b)) (map (fun x => (key x, x)) l)).

(* ------------------------------------------------------------------ topology *)
Record cpu := mkCpu { cid : Z; ccore : Z; cnode : Z; csock : Z }.
Notation topo := (list cpu).   (* ascending, duplicate-free CPU ids *)

Definition pair_key (a b : Z) : Z := a * 4294967296 + b.
Definition num_cpus (T : topo) : Z := lenZ T.
Definition num_sockets (T : topo) : Z := lenZ (dedup (map csock T)).
Definition num_nodes (T : topo) : Z := lenZ (dedup (map (fun c => pair_key (csock c) (cnode c)) T)).
Definition num_cores (T : topo) : Z := lenZ (dedup (map (fun c => pair_key (cnode c) (ccore c)) T)).
Definition per (a b : Z) : Z := if b =? 0 then 0 else a / b.
Definition cpc (T : topo) : Z := per (num_cpus T) (num_cores T).     (* CPUsPerCore *)
Definition cpn (T : topo) : Z := per (num_cpus T) (num_nodes T).     (* CPUsPerNode *)
Definition cps (T : topo) : Z := per (num_cpus T) (num_sockets T).   (* CPUsPerSocket *)

(* CPUDetails[id]; a missing key yields the zero CPUInfo *)
Definition find_cpu (T : topo) (i : Z) : cpu :=
  match find (fun c => cid c =? i) T with Some c => c | None => mkCpu 0 0 0 0 end.

(* an entry of NodeAllocation.allocatedCPUs: id, RefCount, ExclusivePolicy
   (0 none, 1 PCPULevel, 2 NUMANodeLevel) *)
Record ainfo := mkA { aid : Z; aref : Z; aexcl : Z }.

(* ------------------------------------------------------------------ cpuAccumulator *)
Notation entry := (cpu * Z)%type.          (* allocatable CPU with its RefCount *)
Definition eid (e : entry) : Z := cid (fst e).
Definition ecore (e : entry) : Z := ccore (fst e).
Definition enode (e : entry) : Z := cnode (fst e).
Definition esock (e : entry) : Z := csock (fst e).
Definition eref (e : entry) : Z := snd e.
Definition ids (l : list entry) : list Z := map eid l.

Record cfg := mkCfg { c_topo : topo; c_maxref : Z; c_excl : Z; c_most : bool }.

Record acc := mkAcc {
  a_alloc : list entry;      (* allocatableCPUs, ascending id *)
  a_need : Z;                (* numCPUsNeeded *)
  a_xcores : list Z;         (* exclusiveInCores *)
  a_xnodes : list Z;         (* exclusiveInNUMANodes *)
  a_res : list Z }.          (* result *)

Definition ref_in (allocated : list ainfo) (i : Z) : Z :=
  match find (fun a => aid a =? i) allocated with Some a => aref a | None => 0 end.

Definition new_acc (c : cfg) (avail : list Z) (allocated : list ainfo) (n : Z) : acc :=
  mkAcc
    (map (fun x => (x, if 1 <? c_maxref c then ref_in allocated (cid x) else 0))
         (filter (fun x => memZ (cid x) avail) (c_topo c)))
    n
    (map (fun a => ccore (find_cpu (c_topo c) (aid a))) (filter (fun a => aexcl a =? 1) allocated))
    (map (fun a => cnode (find_cpu (c_topo c) (aid a))) (filter (fun a => aexcl a =? 2) allocated))
    [].

Definition acc_take (c : cfg) (a : acc) (l : list Z) : acc :=
  mkAcc
    (filter (fun e => negb (memZ (eid e) l)) (a_alloc a))
    (a_need a - lenZ l)
    (if c_excl c =? 1 then map (fun i => ccore (find_cpu (c_topo c) i)) l ++ a_xcores a else a_xcores a)
    (if c_excl c =? 2 then map (fun i => cnode (find_cpu (c_topo c) i)) l ++ a_xnodes a else a_xnodes a)
    (set_union (a_res a) l).

Definition satisfied (a : acc) : bool := a_need a <? 1.
Definition needs (a : acc) (n : Z) : bool := n <=? a_need a.

Definition xnuma (c : cfg) (a : acc) (e : entry) : bool := (c_excl c =? 2) && memZ (enode e) (a_xnodes a).
Definition xpcpu (c : cfg) (a : acc) (e : entry) : bool := (c_excl c =? 1) && memZ (ecore e) (a_xcores a).

(* MostAllocated: fewer free first; otherwise more free first *)
Definition strat (c : cfg) (score : Z) : Z := if c_most c then score else - score.

Definition group (kf : entry -> Z) (cands : list entry) (k : Z) : list entry :=
  filter (fun e => kf e =? k) cands.
Definition countk (kf : entry -> Z) (cands : list entry) (k : Z) : Z := lenZ (group kf cands k).
Definition first_of (kf : entry -> Z) (l : list entry) : Z :=
  match l with e :: _ => kf e | [] => 0 end.
Definition sock_of_id (alloc : list entry) (i : Z) : Z :=
  match find (fun e => eid e =? i) alloc with Some e => esock e | None => 0 end.
(* getCoreRefCount(allocatableCPUs, core) *)
Definition core_ref (c : cfg) (alloc : list entry) (k : Z) : Z :=
  if 1 <? c_maxref c then sumZ (map eref (group ecore alloc k)) else 0.

(* sortCores: more CPUs first, then smaller ref count, then core id *)
Definition core_key (c : cfg) (a : acc) (cands : list entry) (k : Z) : list Z :=
  [ - countk ecore cands k; core_ref c (a_alloc a) k; k ].

Definition full_cores (c : cfg) (cands : list entry) : list Z :=
  filter (fun k => countk ecore cands k =? cpc (c_topo c)) (dedup (map ecore cands)).

(* logical CPUs of the full free cores of group [g] (a NUMA node or a socket) *)
Definition cores_cpus (c : cfg) (a : acc) (cands : list entry) (gf : entry -> Z) (g : Z) : list Z :=
  flat_map (fun k => ids (group ecore cands k))
    (sort_on (core_key c a cands)
       (filter (fun k => first_of gf (group ecore cands k) =? g) (full_cores c cands))).
Definition core_groups (c : cfg) (cands : list entry) (gf : entry -> Z) : list Z :=
  dedup (map (fun k => first_of gf (group ecore cands k)) (full_cores c cands)).

(* freeCoresInNode(true, fx) *)
Definition free_cores_in_node (c : cfg) (a : acc) (fx : bool) : list (list Z) :=
  let cands := filter (fun e => negb (fx && xnuma c a e)) (a_alloc a) in
  let cpus_in := cores_cpus c a cands enode in
  let key nd := [ strat c (lenZ (cpus_in nd));
                  strat c (countk esock cands (sock_of_id (a_alloc a) (hd0 (cpus_in nd))));
                  nd ] in
  map cpus_in (sort_on key (core_groups c cands enode)).

(* freeCoresInSocket(true) *)
Definition free_cores_in_socket (c : cfg) (a : acc) : list (list Z) :=
  let cands := a_alloc a in
  let cpus_in := cores_cpus c a cands esock in
  let key s := [ strat c (lenZ (cpus_in s)); s ] in
  map cpus_in (sort_on key (core_groups c cands esock)).

(* sort.Ints then sortCPUsByRefCount (only when maxRefCount > 1) *)
Definition by_ref (c : cfg) (l : list entry) : list entry :=
  if 1 <? c_maxref c then sort_on (fun e => [eref e; eid e]) l else l.

(* extractCPU: the first CPU of every core *)
Fixpoint extract_cpu (seen : list Z) (l : list entry) : list entry :=
  match l with
  | [] => []
  | e :: t => if memZ (ecore e) seen then extract_cpu seen t
              else e :: extract_cpu (ecore e :: seen) t
  end.

Definition inner_cpus (c : cfg) (fx : bool) (l : list entry) : list Z :=
  ids (if fx then extract_cpu [] (by_ref c l) else by_ref c l).

(* freeCPUsInNode(fx) *)
Definition free_cpus_in_node (c : cfg) (a : acc) (fx : bool) : list (list Z) :=
  let cands := filter (fun e => negb (fx && (xpcpu c a e || xnuma c a e))) (a_alloc a) in
  let cpus_in nd := inner_cpus c fx (group enode cands nd) in
  let key nd := [ strat c (countk enode cands nd);
                  strat c (countk esock cands (sock_of_id (a_alloc a) (hd0 (cpus_in nd))));
                  nd ] in
  map cpus_in (sort_on key (dedup (map enode cands))).

(* freeCPUsInSocket(fx) *)
Definition free_cpus_in_socket (c : cfg) (a : acc) (fx : bool) : list (list Z) :=
  let cands := filter (fun e => negb (fx && xpcpu c a e)) (a_alloc a) in
  let cpus_in s := inner_cpus c fx (group esock cands s) in
  let key s := [ strat c (lenZ (cpus_in s)); s ] in
  map cpus_in (sort_on key (dedup (map esock cands))).

(* freeCPUs(fx) *)
Definition free_cpus (c : cfg) (a : acc) (fx : bool) : list Z :=
  let cands := filter (fun e => negb (fx && (xpcpu c a e || xnuma c a e))) (a_alloc a) in
  let colo s := lenZ (filter (fun i => csock (find_cpu (c_topo c) i) =? s) (a_res a)) in
  let key k :=
    let g := group ecore cands k in
    let s := first_of esock g in
    let nd := first_of enode g in
    [ - colo s; strat c (countk esock cands s); strat c (countk enode cands nd);
      lenZ g; s; core_ref c (a_alloc a) k; k ] in
  flat_map (fun k => ids (by_ref c (group ecore cands k)))
           (sort_on key (dedup (map ecore cands))).

(* spreadCPUs *)
Fixpoint spread_round (T : topo) (seen : list Z) (l : list Z) : list Z * list Z :=
  match l with
  | [] => ([], [])
  | x :: t =>
    let k := ccore (find_cpu T x) in
    if memZ k seen then let '(a, b) := spread_round T seen t in (a, x :: b)
    else let '(a, b) := spread_round T (k :: seen) t in (x :: a, b)
  end.
Fixpoint spread_loop (T : topo) (fuel : nat) (l : list Z) : list Z :=
  match fuel with
  | O => l
  | S f => match l with
           | [] => []
           | _ => let '(a, b) := spread_round T [] l in a ++ spread_loop T f b
           end
  end.
Definition spread (c : cfg) (l : list Z) : list Z :=
  if lenZ l <=? cpc (c_topo c) then l else spread_loop (c_topo c) (length l) l.

Definition first_fit (need : Z) (ls : list (list Z)) : option (list Z) :=
  find (fun l => need <=? lenZ l) ls.

(* --- the full-physical-core phase (cpu_accumulator.go:107-178) --- *)
Fixpoint phaseA3 (c : cfg) (a : acc) (socks unsat : list (list Z)) : acc * list (list Z) * bool :=
  match socks with
  | [] => (a, unsat, false)
  | l :: t =>
    if negb (needs a (lenZ l)) then phaseA3 c a t (unsat ++ [l])
    else let a' := acc_take c a l in
         if satisfied a' then (a', unsat, true) else phaseA3 c a' t unsat
  end.

Fixpoint phaseA4_inner (c : cfg) (fuel : nat) (a : acc) (l : list Z) : acc * bool :=
  match fuel with
  | O => (a, false)
  | S f =>
    match l with
    | [] => (a, false)
    | _ =>
      let k := cpc (c_topo c) in
      let a' := acc_take c a (firstnZ k l) in
      if satisfied a' then (a', true)
      else if negb (needs a' k) then (a', false)
      else phaseA4_inner c f a' (skipnZ k l)
    end
  end.

(* the socket loop; since 43d7136 it stops as soon as less than a whole core is needed *)
Fixpoint phaseA4 (c : cfg) (a : acc) (socks : list (list Z)) : acc * bool :=
  match socks with
  | [] => (a, false)
  | l :: t =>
    if negb (needs a (cpc (c_topo c))) then (a, false)
    else let '(a', r) := phaseA4_inner c (length l) a l in
         if r then (a', true) else phaseA4 c a' t
  end.

Definition or_else {A} (x y : option A) : option A := match x with Some _ => x | None => y end.

Definition phaseA (c : cfg) (a : acc) : acc * bool :=
  let T := c_topo c in
  let need := a_need a in
  match (if need <=? cpn T
         then or_else (first_fit need (free_cores_in_node c a true))
                      (first_fit need (free_cores_in_node c a false))
         else None) with
  | Some l => (acc_take c a (firstnZ need l), true)
  | None =>
    match (if need <=? cps T then first_fit need (free_cores_in_socket c a) else None) with
    | Some l => (acc_take c a (firstnZ need l), true)
    | None =>
      let socks := sort_by (fun x y => lenZ y <=? lenZ x) (free_cores_in_socket c a) in
      let '(a1, unsat, r) := phaseA3 c a socks [] in
      if r then (a1, true)
      else if needs a1 (cpc T)
           then phaseA4 c a1 (sort_by (fun x y => lenZ x <=? lenZ y) unsat)
           else (a1, false)
    end
  end.

(* --- same NUMA node / socket, spread over cores (cpu_accumulator.go:185-216) --- *)
Definition try_fit (c : cfg) (a : acc) (ls : list (list Z)) : option acc :=
  match first_fit (a_need a) ls with
  | Some l => Some (acc_take c a (firstnZ (a_need a) (spread c l)))
  | None => None
  end.

Definition phaseB (c : cfg) (a : acc) : option acc :=
  let T := c_topo c in
  or_else
    (if a_need a <=? cpn T
     then or_else (try_fit c a (free_cpus_in_node c a true)) (try_fit c a (free_cpus_in_node c a false))
     else None)
    (if a_need a <=? cps T
     then or_else (try_fit c a (free_cpus_in_socket c a true)) (try_fit c a (free_cpus_in_socket c a false))
     else None).

(* --- last resort: CPU by CPU (cpu_accumulator.go:218-232) --- *)
Fixpoint phaseC_loop (c : cfg) (a : acc) (l : list Z) : acc * bool :=
  match l with
  | [] => (a, false)
  | i :: t =>
    let a' := if needs a 1 then acc_take c a [i] else a in
    if satisfied a' then (a', true) else phaseC_loop c a' t
  end.

Definition phaseC (c : cfg) (a : acc) : option acc :=
  let '(a1, r1) := phaseC_loop c a (spread c (free_cpus c a true)) in
  if r1 then Some a1
  else let '(a2, r2) := phaseC_loop c a1 (spread c (free_cpus c a1 false)) in
       if r2 then Some a2 else None.

(* takeCPUs; bind: 0 default/none, 1 FullPCPUs, 2 SpreadByPCPUs. Returns the final accumulator. *)
Definition take_cpus_acc (c : cfg) (avail : list Z) (allocated : list ainfo) (n bind : Z) : option acc :=
  let a0 := new_acc c avail allocated n in
  if satisfied a0 then Some a0
  else if lenZ (a_alloc a0) <? a_need a0 then None
  else
    let full := bind =? 1 in
    let '(a1, r) := if full || (cpc (c_topo c) =? 1) then phaseA c a0 else (a0, false) in
    if r then Some a1
    else or_else (if full then None else phaseB c a1) (phaseC c a1).

Definition take_cpus (c : cfg) (avail : list Z) (allocated : list ainfo) (n bind : Z) : option (list Z) :=
  option_map a_res (take_cpus_acc c avail allocated n bind).

(* takePreferredCPUs *)
Definition take_preferred (c : cfg) (avail preferred : list Z) (allocated : list ainfo) (n bind : Z)
  : option (list Z) :=
  let pref := filter (fun i => memZ i preferred) avail in
  let stage1 :=
    match pref with
    | [] => Some ([], n, avail)
    | _ => match take_cpus c pref allocated (Z.min n (lenZ pref)) bind with
           | None => None
           | Some r => Some (r, n - lenZ r, filter (fun i => negb (memZ i pref)) avail)
           end
    end in
  match stage1 with
  | None => None
  | Some (res, n', avail') =>
    if 0 <? n'
    then match take_cpus c avail' allocated n' bind with
         | None => None
         | Some cpus => Some (set_union res cpus)
         end
    else Some res
  end.

(* ------------------------------------------------------------------ bind policies *)
(* details.KeepOnly(cpus).Cores() *)
Definition cores_of (T : topo) (s : list Z) : list Z :=
  dedup (map ccore (filter (fun x => memZ (cid x) s) T)).
Definition determine_full (T : topo) (s : list Z) : bool := lenZ (cores_of T s) * cpc T =? lenZ s.
Definition determine_spread (T : topo) (s : list Z) : bool := lenZ (cores_of T s) =? lenZ s.
(* satisfiedRequiredCPUBindPolicy == nil *)
Definition satisfied_policy (bind : Z) (T : topo) (s : list Z) : bool :=
  if bind =? 1 then determine_full T s else if bind =? 2 then determine_spread T s else true.

Fixpoint first_per_core (seen : list Z) (l : list cpu) : list cpu :=
  match l with
  | [] => []
  | x :: t => if memZ (ccore x) seen then first_per_core seen t
              else x :: first_per_core (ccore x :: seen) t
  end.
(* filterCPUsByRequiredCPUBindPolicy(policy, avail, details, cpusPerCore) with details ⊇ avail∩T *)
Definition filter_by_policy (bind : Z) (T : topo) (avail : list Z) : list Z :=
  let kept := filter (fun x => memZ (cid x) avail) T in
  if bind =? 1
  then map cid (filter (fun x => lenZ (filter (fun d => ccore d =? ccore x) kept) =? cpc T) kept)
  else if bind =? 2 then map cid (first_per_core [] kept)
  else avail.

(* ------------------------------------------------------------------ NUMA split *)
(* splitQuantity: kind 0 = q/m (CPU without cpuset in milli, and every non-CPU resource in
   units); 1 = CPU with cpuset: Value()/m whole CPUs; 2 = required FullPCPUs: whole cores *)
Definition split (kind k q m : Z) : Z :=
  if kind =? 1 then ((q + 999) / 1000 / m) * 1000
  else if kind =? 2 then ((q + 999) / 1000 / k / m) * k * 1000
  else q / m.

(* the loop of tryBestToDistributeEvenly for one resource over the sorted hinted nodes;
   allocateRes hands out min(available, split) *)
Fixpoint dist_loop (kind k q m : Z) (nodes : list (Z * Z)) : list (Z * Z) * Z :=
  match nodes with
  | [] => ([], q)
  | (nd, av) :: t =>
    let al := Z.min av (split kind k q m) in
    let '(r, q') := dist_loop kind k (q - al) (m - 1) t in
    ((nd, al) :: r, q')
  end.

Definition avail_leb (a b : Z * Z) : bool := snd a <=? snd b.

(* hav: hinted nodes in ascending id with their free amount (0 when unknown) *)
Definition distribute1 (kind k req : Z) (hav : list (Z * Z)) : list (Z * Z) * Z :=
  dist_loop kind k req (lenZ hav) (sort_by avail_leb hav).

Fixpoint lookupZ (k : Z) (l : list (Z * Z)) : Z :=
  match l with [] => 0 | (a, v) :: t => if a =? k then v else lookupZ k t end.

(* ------------------------------------------------------------------ ledger *)
Notation res2 := (Z * Z)%type.          (* (cpu milli, memory) *)
Notation nres := (Z * res2)%type.        (* NUMANodeResource: node, amounts *)
Record palloc := mkP { p_uid : Z; p_cpus : list Z; p_excl : Z; p_numa : list nres }.
Record lstate := mkL { l_pods : list palloc; l_cpus : list ainfo; l_numa : list nres }.
Definition l_init : lstate := mkL [] [] [].

Definition cpu_inc (excl : Z) (cs : list ainfo) (i : Z) : list ainfo :=
  if existsb (fun a => aid a =? i) cs
  then map (fun a => if aid a =? i then mkA i (aref a + 1) excl else a) cs
  else cs ++ [mkA i 1 excl].
Definition cpu_dec (cs : list ainfo) (i : Z) : list ainfo :=
  flat_map (fun a => if aid a =? i
                     then (if aref a - 1 =? 0 then [] else [mkA i (aref a - 1) (aexcl a)])
                     else [a]) cs.
Definition numa_add (m : list nres) (r : nres) : list nres :=
  if existsb (fun e => fst e =? fst r) m
  then map (fun e => if fst e =? fst r
                     then (fst e, (fst (snd e) + fst (snd r), snd (snd e) + snd (snd r))) else e) m
  else m ++ [r].
Definition numa_sub (m : list nres) (r : nres) : list nres :=
  map (fun e => if fst e =? fst r
                then (fst e, (Z.max 0 (fst (snd e) - fst (snd r)), Z.max 0 (snd (snd e) - snd (snd r))))
                else e) m.

Definition find_pod (uid : Z) (ps : list palloc) : option palloc := find (fun p => p_uid p =? uid) ps.

Definition add_pod (st : lstate) (p : palloc) : lstate :=
  match find_pod (p_uid p) (l_pods st) with
  | Some _ => st
  | None => mkL (l_pods st ++ [p])
                (fold_left (cpu_inc (p_excl p)) (p_cpus p) (l_cpus st))
                (fold_left numa_add (p_numa p) (l_numa st))
  end.
Definition release (st : lstate) (uid : Z) : lstate :=
  match find_pod uid (l_pods st) with
  | None => st
  | Some p => mkL (filter (fun q => negb (p_uid q =? uid)) (l_pods st))
                  (fold_left cpu_dec (p_cpus p) (l_cpus st))
                  (fold_left numa_sub (p_numa p) (l_numa st))
  end.
Definition update (st : lstate) (p : palloc) : lstate := add_pod (release st (p_uid p)) p.

(* getAvailableCPUs *)
Definition available (T : topo) (maxref : Z) (reserved : list Z) (cs : list ainfo)
                     (prefs : list (list Z)) : list Z * list ainfo :=
  let info := fold_left (fun cs p => fold_left cpu_dec p cs) prefs cs in
  let busy := map aid (filter (fun a => maxref <=? aref a) info) in
  (filter (fun i => negb (memZ i busy) && negb (memZ i reserved)) (map cid T), info).

Fixpoint lookup_res (k : Z) (l : list nres) : res2 :=
  match l with [] => (0, 0) | (a, v) :: t => if a =? k then v else lookup_res k t end.

(* ------------------------------------------------------------------ Allocate *)
Record nopts := mkO {
  o_topo : topo; o_maxref : Z; o_reserved : list Z; o_most : bool;
  o_cap : list nres }.            (* TopologyOptions.NUMANodeResources, distinct nodes *)

Record areq := mkR {
  r_uid : Z; r_n : Z;             (* numCPUsNeeded *)
  r_bindreq : bool;               (* requestCPUBind *)
  r_bind : Z; r_required : bool; r_excl : Z;
  r_hint : option (list Z);       (* hint.NUMANodeAffinity bits, ascending *)
  r_cpu : Z; r_mem : Z;           (* requests; -1 = key absent *)
  r_pref : list Z;                (* preferredCPUs: CPUs of a matched reservation given back to this pod *)
  r_preempt : list Z }.           (* preemptibleCPUs: CPUs of preemption victims given back to this pod *)

(* GetAvailableCPUs(nodeName, options.preferredCPUs, options.preemptibleCPUs) *)
Definition givebacks (rq : areq) : list (list Z) := [r_pref rq; r_preempt rq].

(* getAvailableNUMANodeResources (no amplification, nothing reusable) *)
Definition numa_avail (o : nopts) (st : lstate) : list nres :=
  map (fun e => let u := lookup_res (fst e) (l_numa st) in
                (fst e, (Z.max 0 (fst (snd e) - fst u), Z.max 0 (snd (snd e) - snd u))))
      (o_cap o).

(* trimNUMANodeResources *)
Definition trim (o : nopts) (st : lstate) (rq : areq) (av : list nres) : list nres :=
  if negb (r_required rq) then av
  else
    let free := fst (available (o_topo o) (o_maxref o) (o_reserved o) (l_cpus st) (givebacks rq)) in
    map (fun e =>
           if fst (snd e) =? 0 then e
           else
             let in_node := map cid (filter (fun x => memZ (cid x) free && (cnode x =? fst e)) (o_topo o)) in
             let sz := lenZ (filter_by_policy (r_bind rq) (o_topo o) in_node) * 1000 in
             if sz <? fst (snd e) then (fst e, (sz, snd (snd e))) else e) av.

Definition cpu_kind (rq : areq) : Z :=
  if negb (r_bindreq rq) then 0
  else if r_required rq && (r_bind rq =? 1) then 2 else 1.

(* tryBestToDistributeEvenly on the two-resource universe; [None] = some reason was returned *)
Definition distribute (o : nopts) (rq : areq) (hint : list Z) (av : list nres) : option (list nres) :=
  let hav_cpu := map (fun nd => (nd, fst (lookup_res nd av))) hint in
  let hav_mem := map (fun nd => (nd, snd (lookup_res nd av))) hint in
  let '(rc, qc) := if r_cpu rq <? 0 then ([], 0)
                   else distribute1 (cpu_kind rq) (cpc (o_topo o)) (r_cpu rq) hav_cpu in
  let '(rm, qm) := if r_mem rq <? 0 then ([], 0) else distribute1 0 1 (r_mem rq) hav_mem in
  if negb (qc =? 0) || negb (qm =? 0) then None
  else Some (filter (fun e => negb ((fst (snd e) =? 0) && (snd (snd e) =? 0)))
                    (map (fun nd => (nd, (lookupZ nd rc, lookupZ nd rm))) hint)).

Definition cfg_of (o : nopts) (rq : areq) : cfg := mkCfg (o_topo o) (o_maxref o) (r_excl rq) (o_most o).

Fixpoint take_per_numa (o : nopts) (rq : areq) (avail : list Z) (allocated : list ainfo)
                       (numa : list nres) (result : list Z) : option (list Z) :=
  match numa with
  | [] => Some result
  | e :: t =>
    let in_node := filter (fun i => cnode (find_cpu (o_topo o) i) =? fst e)
                          (filter (fun i => memZ i (map cid (o_topo o))) avail) in
    let k := Z.min (lenZ in_node) (fst (snd e) / 1000) in
    match take_preferred (cfg_of o rq) in_node (r_pref rq) allocated k (r_bind rq) with
    | None => None
    | Some cpus => take_per_numa o rq avail allocated t (set_union result cpus)
    end
  end.

(* allocateCPUSet *)
Definition allocate_cpuset (o : nopts) (st : lstate) (rq : areq) (numa : list nres) : option (list Z) :=
  let '(avail0, allocated) := available (o_topo o) (o_maxref o) (o_reserved o) (l_cpus st) (givebacks rq) in
  let avail := if r_required rq then filter_by_policy (r_bind rq) (o_topo o) avail0 else avail0 in
  if lenZ avail <? r_n rq then None
  else
    let stage :=
      match numa with
      | [] => Some ([], r_n rq)
      | _ => match take_per_numa o rq avail allocated numa [] with
             | None => None
             | Some r => if r_n rq - lenZ r =? 0 then Some (r, 0) else None
             end
      end in
    match stage with
    | None => None
    | Some (result, n') =>
      let final :=
        if 0 <? n'
        then match take_preferred (cfg_of o rq) (filter (fun i => negb (memZ i result)) avail) (r_pref rq)
                                  allocated n' (r_bind rq) with
             | None => None
             | Some cpus => Some (set_union result cpus)
             end
        else Some result in
      match final with
      | None => None
      | Some r => if r_required rq && negb (satisfied_policy (r_bind rq) (o_topo o) r) then None
                  else Some r
      end
    end.

(* resourceManager.Allocate; None = a non-success status *)
Definition allocate (o : nopts) (st : lstate) (rq : areq) : option palloc :=
  let numa :=
    match r_hint rq with
    | None => Some []
    | Some hint =>
      match o_cap o with
      | [] => None
      | _ => distribute o rq hint (trim o st rq (numa_avail o st))
      end
    end in
  match numa with
  | None => None
  | Some nr =>
    if r_bindreq rq
    then match allocate_cpuset o st rq nr with
         | None => None
         | Some cpus => Some (mkP (r_uid rq) cpus (r_excl rq) nr)
         end
    else Some (mkP (r_uid rq) [] (r_excl rq) nr)
  end.

(* ------------------------------------------------------------------ histories *)
Inductive op :=
| OAlloc (rq : areq)            (* Allocate, then Update with the returned allocation (Reserve) *)
| ORelease (uid : Z)            (* Release (Unreserve / pod deleted) *)
| OUpdate (p : palloc)          (* pod event: Update with the allocation read back from the pod's annotations *)
| OAllocR (rq : areq) (host victim : option Z).
  (* Allocate with CPUs given back (r_pref: the remaining CPUs of reservation [host];
     r_preempt: the CPUs of preemption victim [victim]); on success the victim is released and
     the allocation recorded. [host] is bookkeeping of the specification only. *)

(* podEventHandler.updatePod ignores a pod that carries neither a cpuset nor NUMA resources *)
Definition palloc_empty (p : palloc) : bool :=
  match p_cpus p, p_numa p with [], [] => true | _, _ => false end.

Definition release_opt (st : lstate) (v : option Z) : lstate :=
  match v with Some uid => release st uid | None => st end.

Definition step (o : nopts) (st : lstate) (x : op) : lstate * option palloc :=
  match x with
  | OAlloc rq => match allocate o st rq with
                 | Some p => (update st p, Some p)
                 | None => (st, None)
                 end
  | ORelease uid => (release st uid, None)
  | OUpdate p => (if palloc_empty p then st else update st p, Some p)
  | OAllocR rq _ victim =>
    match allocate o st rq with
    | Some p => (update (release_opt st victim) p, Some p)
    | None => (st, None)
    end
  end.

Definition run (o : nopts) (ops : list op) : lstate :=
  fold_left (fun st x => fst (step o st x)) ops l_init.

(* ------------------------------------------------------------------ informer events *)
(* podEventHandler (pod_eventhandler.go): what the pod informer, the reservation-to-pod
   adapter and the ForgetPod hook deliver, reduced to the fields the handler reads.
   ev_kind: 0 OnAdd(a pod)   1 OnUpdate(old pod, new pod)   2 OnDelete(a pod)
            3 OnDelete(DeletedFinalStateUnknown{Obj: a pod})   (tombstone of a missed delete)
            4 OnDelete(DeletedFinalStateUnknown{Obj: not a pod})
            5 OnAdd(not a pod)   6 deletePod(a pod) as registered with RegisterForgetPodHandler
            7 OnUpdate(not a pod, a pod)
   ev_pod: the allocation the pod's resource-status / resource-spec annotations spell *)
Record podev := mkEv {
  ev_kind : Z;
  ev_assigned : bool;        (* pod.Spec.NodeName != "" (the node of this ledger) *)
  ev_oldassigned : bool;     (* OnUpdate: oldPod.Spec.NodeName != "" *)
  ev_terminated : bool;      (* util.IsPodTerminated: phase Succeeded or Failed *)
  ev_malformed : bool;       (* an annotation or the cpuset string does not parse *)
  ev_pod : palloc }.

(* podEventHandler.deletePod *)
Definition ev_delete_pod (e : podev) : option op :=
  if ev_assigned e then Some (ORelease (p_uid (ev_pod e))) else None.

(* podEventHandler.updatePod(oldPod, pod); [has_old] = oldPod != nil *)
Definition ev_update_pod (has_old : bool) (e : podev) : option op :=
  if negb (ev_assigned e)
  then (if has_old && ev_oldassigned e then Some (ORelease (p_uid (ev_pod e))) else None)
  else if ev_terminated e then ev_delete_pod e
  else if ev_malformed e then None
  else if palloc_empty (ev_pod e) then None
  else Some (OUpdate (ev_pod e)).

(* OnAdd / OnUpdate / OnDelete: the resourceManager call the event results in, if any *)
Definition handle_event (e : podev) : option op :=
  if ev_kind e =? 0 then ev_update_pod false e
  else if ev_kind e =? 1 then ev_update_pod true e
  else if (ev_kind e =? 2) || (ev_kind e =? 3) || (ev_kind e =? 6) then ev_delete_pod e
  else None.

(* one item of a node's history: a call the scheduler makes itself, or an informer event *)
Inductive item :=
| IOp (x : op)
| IEvent (e : podev)
| IEcho (uid : Z).
  (* the informer echoes a pod the ledger records, as bound: OnUpdate with the resource-status
     annotation that PreBind (preBindObject) writes from the recorded allocation *)

(* the resourceManager call an item results in, given the pods the ledger records *)
Definition lower (ps : list palloc) (h : item) : option op :=
  match h with
  | IOp x => Some x
  | IEvent e => handle_event e
  | IEcho uid => match find_pod uid ps with Some p => Some (OUpdate p) | None => None end
  end.

Definition istep (o : nopts) (st : lstate) (h : item) : lstate * option palloc :=
  match lower (l_pods st) h with
  | Some x => step o st x
  | None => (st, None)
  end.

Definition irun (o : nopts) (hs : list item) : lstate :=
  fold_left (fun st h => fst (istep o st h)) hs l_init.
