(* C06 — Release and Update racing for the node's ledger at lock-section granularity: both calls
   fetch the NodeAllocation pointer and then take its lock, so the two critical sections run one
   after the other on the SAME ledger in either order; whichever order, the released pod is gone,
   the recorded pod is in the ledger and the ledger invariant (exactness) holds. *)
From Coq Require Import List ZArith Bool Lia.
From Verif Require Import C06.Model C06.Spec C06.Proofs_base C06.Proofs_ledger.
Import ListNotations.
Open Scope Z_scope.

Lemma race_release_update st rel p :
  linv st -> palloc_wf p -> rel <> p_uid p ->
  let a := update (release st rel) p in
  let b := release (update st p) rel in
  linv a /\ linv b
  /\ In p (l_pods a) /\ In p (l_pods b)
  /\ ~ In rel (map p_uid (l_pods a)) /\ ~ In rel (map p_uid (l_pods b)).
Proof.
  intros Hinv Hp Hne a b.
  assert (La : linv a) by (apply update_inv; [apply release_inv; exact Hinv|exact Hp]).
  assert (Lb : linv b) by (apply release_inv; apply update_inv; assumption).
  split; [exact La|]. split; [exact Lb|].
  unfold a, b. rewrite !update_pods, !release_pods, update_pods.
  split; [apply in_or_app; right; left; reflexivity|].
  split.
  { apply filter_In. split; [apply in_or_app; right; left; reflexivity|].
    apply negb_true_iff. apply Z.eqb_neq. congruence. }
  split.
  - intros H. apply in_map_iff in H. destruct H as [q [Eq Hq]]. apply in_app_or in Hq. destruct Hq as [Hq|[Hq|[]]].
    + apply filter_In in Hq. destruct Hq as [Hq _]. apply filter_In in Hq. destruct Hq as [_ Hq].
      rewrite Eq, Z.eqb_refl in Hq. discriminate.
    + subst q. congruence.
  - intros H. apply in_map_iff in H. destruct H as [q [Eq Hq]]. apply filter_In in Hq. destruct Hq as [_ Hq].
    rewrite Eq, Z.eqb_refl in Hq. discriminate.
Qed.
