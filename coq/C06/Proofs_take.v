(* C06 — takeCPUs: the accumulator invariant through every phase; the result is duplicate
   free, taken from the free CPUs, at least as large as requested, exactly as large unless a
   FullPCPUs request is not a whole number of cores, and the search never fails while enough
   CPUs are free. *)
From Coq Require Import List ZArith Bool Lia Permutation.
From Verif Require Import C06.Model C06.Spec C06.Proofs_base C06.Proofs_gen.
Import ListNotations.
Open Scope Z_scope.

Ltac splits := repeat match goal with |- _ /\ _ => split end.

(* ------------------------------------------------------------------ counting *)
Lemma filter_partition_len {A} (p : A -> bool) l :
  lenZ (filter p l) + lenZ (filter (fun x => negb (p x)) l) = lenZ l.
Proof.
  induction l as [|x l IH]; [reflexivity|]. cbn [filter].
  destruct (p x); cbn [negb]; rewrite !lenZ_cons; lia.
Qed.

Lemma take_count al l :
  NoDup (ids al) -> NoDup l -> incl l (ids al) ->
  lenZ (filter (fun e => negb (memZ (eid e) l)) al) = lenZ al - lenZ l.
Proof.
  intros Hal Hl Hinc.
  pose proof (filter_partition_len (fun e => memZ (eid e) l) al) as Hp.
  assert (Hsame : lenZ (filter (fun e => memZ (eid e) l) al) = lenZ l).
  { rewrite <- (lenZ_map eid). unfold lenZ. f_equal. apply Permutation_length.
    apply NoDup_Permutation.
    - apply NoDup_map_filter. exact Hal.
    - exact Hl.
    - intros x. rewrite in_map_iff. split.
      + intros [e [E He]]. apply filter_In in He. destruct He as [_ He]. apply memZ_In in He. congruence.
      + intros Hx. pose proof (Hinc x Hx) as Hx'. unfold ids in Hx'. apply in_map_iff in Hx'.
        destruct Hx' as [e [E He]]. exists e. split; [exact E|]. apply filter_In. split; [exact He|].
        apply memZ_In. congruence. }
  cbv beta in Hp. lia.
Qed.

Lemma ids_after_take al l x :
  In x (ids (filter (fun e => negb (memZ (eid e) l)) al)) -> In x (ids al) /\ ~ In x l.
Proof.
  unfold ids. intros H. apply in_map_iff in H. destruct H as [e [E He]]. apply filter_In in He.
  destruct He as [He Hn]. apply negb_true_iff in Hn. apply memZ_false in Hn. subst x.
  split; [apply in_map; exact He|exact Hn].
Qed.

Lemma ids_after_take_intro al l x :
  In x (ids al) -> ~ In x l -> In x (ids (filter (fun e => negb (memZ (eid e) l)) al)).
Proof.
  unfold ids. intros H Hn. apply in_map_iff in H. destruct H as [e [E He]]. apply in_map_iff.
  exists e. split; [exact E|]. apply filter_In. split; [exact He|].
  apply negb_true_iff. apply memZ_false. congruence.
Qed.

(* ------------------------------------------------------------------ the invariant *)
Definition acc_inv (n : Z) (A0 : list Z) (a : acc) : Prop :=
  NoDup (a_res a) /\ NoDup (ids (a_alloc a))
  /\ (forall x, In x (a_res a) -> ~ In x (ids (a_alloc a)))
  /\ incl (a_res a) A0 /\ incl (ids (a_alloc a)) A0
  /\ lenZ (a_res a) + a_need a = n
  /\ a_need a <= lenZ (a_alloc a).

Lemma acc_take_inv c n A0 a l :
  acc_inv n A0 a -> good a l -> acc_inv n A0 (acc_take c a l).
Proof.
  intros [Hr [Ha [Hd [Hi1 [Hi2 [Hn Hle]]]]]] [Hl Hinc].
  assert (Hdis : forall x, In x l -> ~ In x (a_res a)).
  { intros x Hx Hxr. apply (Hd x Hxr). apply Hinc. exact Hx. }
  unfold acc_inv, acc_take. cbn [a_res a_alloc a_need].
  rewrite (set_union_disjoint _ _ Hl Hdis).
  split; [apply NoDup_app_intro; [exact Hr|exact Hl|intros x Hx Hx'; exact (Hdis x Hx' Hx)]|].
  split; [unfold ids; apply NoDup_map_filter; exact Ha|].
  split.
  { intros x Hx Hx'. apply ids_after_take in Hx'. destruct Hx' as [Hx1 Hx2].
    apply in_app_or in Hx. destruct Hx as [Hx|Hx]; [exact (Hd x Hx Hx1)|exact (Hx2 Hx)]. }
  split; [intros x Hx; apply in_app_or in Hx; destruct Hx as [Hx|Hx]; [apply Hi1; exact Hx|apply Hi2; apply Hinc; exact Hx]|].
  split; [intros x Hx; apply ids_after_take in Hx; apply Hi2; tauto|].
  split; [rewrite lenZ_app; lia|].
  rewrite (take_count _ _ Ha Hl Hinc). lia.
Qed.

Lemma acc_take_need c a l : a_need (acc_take c a l) = a_need a - lenZ l.
Proof. reflexivity. Qed.

Lemma acc_take_alloc c a l : a_alloc (acc_take c a l) = filter (fun e => negb (memZ (eid e) l)) (a_alloc a).
Proof. reflexivity. Qed.

Lemma satisfied_spec a : satisfied a = true <-> a_need a < 1.
Proof. unfold satisfied. apply Z.ltb_lt. Qed.

Lemma first_fit_spec need ls l : first_fit need ls = Some l -> In l ls /\ need <= lenZ l.
Proof.
  unfold first_fit. intros H. apply find_some in H. destruct H as [H1 H2]. apply Z.leb_le in H2. auto.
Qed.

Lemma firstnZ_good a k l : good a l -> good a (firstnZ k l).
Proof.
  intros [H1 H2]. unfold firstnZ. split; [apply firstn_NoDup; exact H1|].
  intros x Hx. apply H2. eapply firstn_In. exact Hx.
Qed.

Lemma take_fit c n A0 a l :
  acc_inv n A0 a -> 1 <= a_need a -> good a l -> a_need a <= lenZ l ->
  acc_inv n A0 (acc_take c a (firstnZ (a_need a) l))
  /\ a_need (acc_take c a (firstnZ (a_need a) l)) = 0.
Proof.
  intros Hinv Hn Hg Hle. split; [apply acc_take_inv; [exact Hinv|apply firstnZ_good; exact Hg]|].
  rewrite acc_take_need, firstnZ_length; lia.
Qed.

(* lists that stay allocatable after a disjoint take *)
Lemma incl_after_take c a l F :
  (forall x, In x F -> ~ In x l) -> incl F (ids (a_alloc a)) ->
  incl F (ids (a_alloc (acc_take c a l))).
Proof.
  intros Hd Hi x Hx. rewrite acc_take_alloc. apply ids_after_take_intro; [apply Hi; exact Hx|apply Hd; exact Hx].
Qed.

Lemma concat_perm {A} (ls ls' : list (list A)) :
  Permutation ls ls' -> Permutation (concat ls) (concat ls').
Proof.
  induction 1; cbn [concat].
  - constructor.
  - apply Permutation_app_head. assumption.
  - rewrite !app_assoc. apply Permutation_app_tail. apply Permutation_app_comm.
  - eapply perm_trans; eassumption.
Qed.

Lemma In_concat {A} (l : list A) ls x : In l ls -> In x l -> In x (concat ls).
Proof. intros H1 H2. apply in_concat. exists l. auto. Qed.

(* ------------------------------------------------------------------ phase A.3 *)
Lemma phaseA3_spec c n A0 : forall socks a unsat a' unsat' r,
  phaseA3 c a socks unsat = (a', unsat', r) ->
  acc_inv n A0 a -> 1 <= a_need a ->
  NoDup (concat (unsat ++ socks)) -> incl (concat (unsat ++ socks)) (ids (a_alloc a)) ->
  acc_inv n A0 a'
  /\ (if r then a_need a' = 0 else 1 <= a_need a')
  /\ NoDup (concat unsat') /\ incl (concat unsat') (ids (a_alloc a'))
  /\ (forall l, In l unsat' -> In l unsat \/ In l socks)
  /\ (forall k, (k | a_need a) -> (forall l, In l socks -> (k | lenZ l)) -> (k | a_need a')).
Proof.
  induction socks as [|l t IH]; intros a unsat a' unsat' r H Hinv Hn Hnd Hinc; cbn [phaseA3] in H.
  - inversion H; subst. rewrite app_nil_r in *.
    splits; auto.
  - destruct (negb (needs a (lenZ l))) eqn:En.
    + specialize (IH a (unsat ++ [l]) a' unsat' r H Hinv Hn).
      rewrite <- app_assoc in IH. cbn [app] in IH. specialize (IH Hnd Hinc).
      destruct IH as [I1 [I2 [I3 [I4 [I5 I6]]]]].
      splits; auto.
      * intros l0 Hl0. destruct (I5 l0 Hl0) as [Hx|Hx]; [|right; right; exact Hx].
        apply in_app_or in Hx. destruct Hx as [Hx|[Hx|[]]]; [left; exact Hx|right; left; exact Hx].
      * intros k Hk Hall. apply I6; [exact Hk|]. intros l0 Hl0. apply Hall. right. exact Hl0.
    + apply negb_false_iff in En. unfold needs in En. apply Z.leb_le in En.
      assert (Hg : good a l).
      { split.
        - rewrite concat_app in Hnd. apply NoDup_app_inv in Hnd. destruct Hnd as [_ [Hnd _]].
          cbn [concat] in Hnd. apply NoDup_app_inv in Hnd. tauto.
        - intros x Hx. apply Hinc. rewrite concat_app. apply in_or_app. right. cbn [concat].
          apply in_or_app. left. exact Hx. }
      pose proof (acc_take_inv c n A0 a l Hinv Hg) as Hinv'.
      destruct (satisfied (acc_take c a l)) eqn:Es.
      * inversion H; subst. apply satisfied_spec in Es. rewrite acc_take_need in *.
        assert (Hd : forall x, In x (concat unsat') -> ~ In x l).
        { intros x Hx Hxl. rewrite concat_app in Hnd. apply NoDup_app_inv in Hnd.
          destruct Hnd as [_ [_ Hd]]. apply (Hd x Hx). cbn [concat]. apply in_or_app. left. exact Hxl. }
        splits; auto; try lia.
        -- rewrite concat_app in Hnd. apply NoDup_app_inv in Hnd. tauto.
        -- apply incl_after_take; [exact Hd|]. intros x Hx. apply Hinc. rewrite concat_app.
           apply in_or_app. left. exact Hx.
        -- intros k Hk Hall. apply Z.divide_sub_r; [exact Hk|apply Hall; left; reflexivity].
      * assert (Hs : 1 <= a_need (acc_take c a l)).
        { destruct (Z.lt_ge_cases (a_need (acc_take c a l)) 1) as [Hlt|Hge]; [|exact Hge].
          apply satisfied_spec in Hlt. congruence. }
        assert (Hnd' : NoDup (concat (unsat ++ t))).
        { rewrite concat_app in *. cbn [concat] in Hnd. apply NoDup_app_inv in Hnd.
          destruct Hnd as [H1 [H2 H3]]. apply NoDup_app_inv in H2. destruct H2 as [_ [H2 _]].
          apply NoDup_app_intro; [exact H1|exact H2|].
          intros x Hx Hx'. apply (H3 x Hx). apply in_or_app. right. exact Hx'. }
        assert (Hinc' : incl (concat (unsat ++ t)) (ids (a_alloc (acc_take c a l)))).
        { apply incl_after_take.
          - intros x Hx Hxl. rewrite concat_app in *. cbn [concat] in Hnd.
            apply NoDup_app_inv in Hnd. destruct Hnd as [H1 [H2 H3]].
            apply in_app_or in Hx. destruct Hx as [Hx|Hx].
            + apply (H3 x Hx). apply in_or_app. left. exact Hxl.
            + apply NoDup_app_inv in H2. destruct H2 as [_ [_ H2]]. exact (H2 x Hxl Hx).
          - intros x Hx. apply Hinc. rewrite concat_app in *. cbn [concat].
            apply in_app_or in Hx. apply in_or_app. destruct Hx as [Hx|Hx]; [left; exact Hx|].
            right. apply in_or_app. right. exact Hx. }
        destruct (IH _ _ _ _ _ H Hinv' Hs Hnd' Hinc') as [I1 [I2 [I3 [I4 [I5 I6]]]]].
        splits; auto.
        -- intros l0 Hl0. destruct (I5 l0 Hl0) as [Hx|Hx]; [left; exact Hx|right; right; exact Hx].
        -- intros k Hk Hall. apply I6.
           ++ rewrite acc_take_need. apply Z.divide_sub_r; [exact Hk|apply Hall; left; reflexivity].
           ++ intros l0 Hl0. apply Hall. right. exact Hl0.
Qed.
