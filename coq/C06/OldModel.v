(* C06 — the takeCPUs model as it was BEFORE fix 43d7136 (the socket loop of the
   "remaining physical cores" phase did not re-check [needs] between sockets). Kept only as
   the subject of the regression Example c06_take_exact_old_refuted. *)
From Coq Require Import List ZArith Bool.
From Verif Require Import C06.Model.
Import ListNotations.
Open Scope Z_scope.

Fixpoint phaseA4_old (c : cfg) (a : acc) (socks : list (list Z)) : acc * bool :=
  match socks with
  | [] => (a, false)
  | l :: t => let '(a', r) := phaseA4_inner c (length l) a l in
              if r then (a', true) else phaseA4_old c a' t
  end.

Definition phaseA_old (c : cfg) (a : acc) : acc * bool :=
  let T := c_topo c in
  let need := a_need a in
  match (if need <=? cpn T
         then or_else (first_fit need (free_cores_in_node c a true))
                      (first_fit need (free_cores_in_node c a false))
         else None) with
  | Some l => (acc_take c a (firstnZ need l), true)
  | None =>
    match (if need <=? cps T then first_fit need (free_cores_in_socket c a) else None) with
    | Some l => (acc_take c a (firstnZ need l), true)
    | None =>
      let socks := sort_by (fun x y => lenZ y <=? lenZ x) (free_cores_in_socket c a) in
      let '(a1, unsat, r) := phaseA3 c a socks [] in
      if r then (a1, true)
      else if needs a1 (cpc T)
           then phaseA4_old c a1 (sort_by (fun x y => lenZ x <=? lenZ y) unsat)
           else (a1, false)
    end
  end.

Definition take_cpus_old (c : cfg) (avail : list Z) (allocated : list ainfo) (n bind : Z) : option (list Z) :=
  let a0 := new_acc c avail allocated n in
  if satisfied a0 then Some (a_res a0)
  else if lenZ (a_alloc a0) <? a_need a0 then None
  else
    let full := bind =? 1 in
    let '(a1, r) := if full || (cpc (c_topo c) =? 1) then phaseA_old c a0 else (a0, false) in
    option_map a_res
      (if r then Some a1 else or_else (if full then None else phaseB c a1) (phaseC c a1)).
