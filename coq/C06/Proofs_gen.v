(* C06 — the candidate generators of the cpuAccumulator return duplicate-free lists of
   allocatable CPU ids (and, for the per-socket generator, pairwise disjoint lists). *)
From Coq Require Import List ZArith Bool Lia Permutation.
From Verif Require Import C06.Model C06.Spec C06.Proofs_base.
Import ListNotations.
Open Scope Z_scope.

(* ------------------------------------------------------------------ generic facts *)
Lemma NoDup_map_inj {A B} (f : A -> B) l a b :
  NoDup (map f l) -> In a l -> In b l -> f a = f b -> a = b.
Proof.
  induction l as [|x l IH]; intros Hnd Ha Hb E; [destruct Ha|].
  cbn [map] in Hnd. inversion Hnd as [|? ? Hx Hnd']; subst.
  destruct Ha as [Ha|Ha], Hb as [Hb|Hb]; subst; auto.
  - exfalso. apply Hx. rewrite E. apply in_map. exact Hb.
  - exfalso. apply Hx. rewrite <- E. apply in_map. exact Ha.
Qed.

(* a family of lists indexed by distinct keys is duplicate free when every member is and
   every element determines its key *)
Lemma flat_map_NoDup {K} (h : K -> list Z) (P : Z -> K -> Prop) (ks : list K) :
  NoDup ks ->
  (forall k, In k ks -> NoDup (h k)) ->
  (forall k x, In k ks -> In x (h k) -> P x k) ->
  (forall x k k', P x k -> P x k' -> k = k') ->
  NoDup (flat_map h ks).
Proof.
  intros Hks Hnd HP Hfun. induction ks as [|k ks IH]; cbn [flat_map]; [constructor|].
  inversion Hks as [|? ? Hk Hks']; subst.
  apply NoDup_app_intro.
  - apply Hnd. left. reflexivity.
  - apply IH; [exact Hks'| |].
    + intros k' Hk'. apply Hnd. right. exact Hk'.
    + intros k' x Hk' Hx. apply HP; [right; exact Hk'|exact Hx].
  - intros x Hx Hin. apply in_flat_map in Hin. destruct Hin as [k' [Hk' Hx']].
    assert (k = k').
    { apply (Hfun x); [apply HP; [left; reflexivity|exact Hx]|apply HP; [right; exact Hk'|exact Hx']]. }
    subst. contradiction.
Qed.

Lemma Permutation_flat_map_ext {K B} (f g : K -> list B) ks :
  (forall k, In k ks -> Permutation (f k) (g k)) -> Permutation (flat_map f ks) (flat_map g ks).
Proof.
  induction ks as [|k ks IH]; intros H; cbn [flat_map]; [constructor|].
  apply Permutation_app; [apply H; left; reflexivity|apply IH; intros k' Hk'; apply H; right; exact Hk'].
Qed.

Lemma map_flat_map {K A B} (f : A -> B) (g : K -> list A) ks :
  map f (flat_map g ks) = flat_map (fun k => map f (g k)) ks.
Proof.
  induction ks as [|k ks IH]; cbn [flat_map]; [reflexivity|]. rewrite map_app, IH. reflexivity.
Qed.

Lemma filter_or_perm {A} (p q : A -> bool) l :
  (forall x, In x l -> p x = true -> q x = false) ->
  Permutation (filter p l ++ filter q l) (filter (fun x => p x || q x) l).
Proof.
  induction l as [|x l IH]; intros H; cbn [filter]; [constructor|].
  assert (IH' : Permutation (filter p l ++ filter q l) (filter (fun x => p x || q x) l))
    by (apply IH; intros y Hy; apply H; right; exact Hy).
  destruct (p x) eqn:Ep; cbn [orb].
  - rewrite (H x (or_introl eq_refl) Ep). cbn [app]. apply perm_skip. exact IH'.
  - destruct (q x) eqn:Eq.
    + apply Permutation_sym. eapply perm_trans; [apply perm_skip; apply Permutation_sym; exact IH'|].
      apply Permutation_middle.
    + exact IH'.
Qed.

(* grouping by a key is a partition *)
Lemma group_partition {A} (kf : A -> Z) (L : list A) : forall ks,
  NoDup ks ->
  Permutation (flat_map (fun k => filter (fun e => kf e =? k) L) ks)
              (filter (fun e => memZ (kf e) ks) L).
Proof.
  induction ks as [|k ks IH]; intros Hnd; cbn [flat_map].
  - unfold memZ. cbn [existsb]. clear. induction L; cbn [filter]; auto.
  - inversion Hnd as [|? ? Hk Hnd']; subst.
    eapply perm_trans; [apply Permutation_app_head; apply IH; exact Hnd'|].
    eapply perm_trans; [apply filter_or_perm|].
    + intros x _ Hx. apply Z.eqb_eq in Hx. rewrite Hx. apply memZ_false. exact Hk.
    + unfold memZ. cbn [existsb]. apply Permutation_refl.
Qed.

Lemma group_partition_all {A} (kf : A -> Z) (L : list A) :
  Permutation (flat_map (fun k => filter (fun e => kf e =? k) L) (dedup (map kf L))) L.
Proof.
  eapply perm_trans; [apply group_partition; apply dedup_NoDup|].
  rewrite filter_all_true; [apply Permutation_refl|].
  intros x Hx. apply memZ_In. apply dedup_In. apply in_map. exact Hx.
Qed.

(* ------------------------------------------------------------------ entries *)
Section Entries.
Variable L : list entry.                 (* the candidates *)
Hypothesis HL : NoDup (ids L).

Lemma ids_group_NoDup kf k : NoDup (ids (group kf L k)).
Proof. unfold ids, group. apply NoDup_map_filter. exact HL. Qed.

Lemma group_In kf k e : In e (group kf L k) <-> In e L /\ kf e = k.
Proof. unfold group. rewrite filter_In, Z.eqb_eq. reflexivity. Qed.

Lemma eid_inj a b : In a L -> In b L -> eid a = eid b -> a = b.
Proof. intros Ha Hb E. exact (NoDup_map_inj eid L a b HL Ha Hb E). Qed.

(* flat_map over distinct keys of sub-permutations of the groups *)
Lemma groups_NoDup (kf : entry -> Z) (g : Z -> list entry) ks :
  NoDup ks ->
  (forall k, Permutation (g k) (group kf L k)) ->
  NoDup (flat_map (fun k => ids (g k)) ks).
Proof.
  intros Hks Hg.
  apply (flat_map_NoDup _ (fun x k => exists e, In e L /\ eid e = x /\ kf e = k)); [exact Hks| | |].
  - intros k _. unfold ids. eapply Permutation_NoDup;
      [apply Permutation_map; apply Permutation_sym; apply Hg|apply ids_group_NoDup].
  - intros k x _ Hx. unfold ids in Hx. apply in_map_iff in Hx. destruct Hx as [e [E He]].
    apply (Permutation_in _ (Hg k)) in He. apply group_In in He. exists e. tauto.
  - intros x k k' [e [He [E1 E2]]] [e' [He' [E1' E2']]].
    assert (e = e') by (apply eid_inj; auto; congruence). subst. reflexivity.
Qed.

Lemma groups_incl (kf : entry -> Z) (g : Z -> list entry) ks x :
  (forall k, Permutation (g k) (group kf L k)) ->
  In x (flat_map (fun k => ids (g k)) ks) -> In x (ids L).
Proof.
  intros Hg Hx. apply in_flat_map in Hx. destruct Hx as [k [_ Hx]].
  unfold ids in *. apply in_map_iff in Hx. destruct Hx as [e [E He]].
  apply (Permutation_in _ (Hg k)) in He. apply group_In in He. apply in_map_iff. exists e. tauto.
Qed.

End Entries.

(* ------------------------------------------------------------------ by_ref / extract_cpu / spread *)
Lemma by_ref_perm c l : Permutation (by_ref c l) l.
Proof. unfold by_ref. destruct (1 <? c_maxref c); [apply sort_on_perm|apply Permutation_refl]. Qed.

Lemma extract_cpu_In seen l e : In e (extract_cpu seen l) -> In e l.
Proof.
  revert seen. induction l as [|x l IH]; intros seen H; cbn [extract_cpu] in H; [destruct H|].
  destruct (memZ (ecore x) seen); [right; eapply IH; exact H|].
  destruct H as [H|H]; [left; exact H|right; eapply IH; exact H].
Qed.

Lemma extract_cpu_NoDup seen l : NoDup (ids l) -> NoDup (ids (extract_cpu seen l)).
Proof.
  revert seen. induction l as [|x l IH]; intros seen H; cbn [extract_cpu]; [constructor|].
  cbn [ids map] in H. inversion H as [|? ? Hx Hnd]; subst.
  destruct (memZ (ecore x) seen); [apply IH; exact Hnd|].
  cbn [ids map]. constructor; [|apply IH; exact Hnd].
  intros Hin. apply Hx. unfold ids in *. apply in_map_iff in Hin. destruct Hin as [e [E He]].
  apply in_map_iff. exists e. split; [exact E|eapply extract_cpu_In; exact He].
Qed.

Lemma inner_cpus_good c fx l :
  NoDup (ids l) -> NoDup (inner_cpus c fx l) /\ incl (inner_cpus c fx l) (ids l).
Proof.
  intros H. unfold inner_cpus.
  assert (Hb : NoDup (ids (by_ref c l))).
  { unfold ids. eapply Permutation_NoDup; [apply Permutation_map; apply Permutation_sym; apply by_ref_perm|exact H]. }
  destruct fx.
  - split; [apply extract_cpu_NoDup; exact Hb|].
    intros x Hx. unfold ids in *. apply in_map_iff in Hx. destruct Hx as [e [E He]].
    apply extract_cpu_In in He. apply (Permutation_in _ (by_ref_perm c l)) in He.
    apply in_map_iff. exists e. auto.
  - split; [exact Hb|]. intros x Hx. unfold ids in *.
    eapply Permutation_in; [apply Permutation_map; apply by_ref_perm|exact Hx].
Qed.

Lemma spread_round_perm T : forall l seen a b,
  spread_round T seen l = (a, b) -> Permutation (a ++ b) l.
Proof.
  induction l as [|x l IH]; intros seen a b H; cbn [spread_round] in H.
  - inversion H; subst. constructor.
  - destruct (memZ (ccore (find_cpu T x)) seen).
    + destruct (spread_round T seen l) as [a1 b1] eqn:E. inversion H; subst.
      eapply perm_trans; [apply Permutation_sym; apply Permutation_middle|].
      apply perm_skip. eapply IH. exact E.
    + destruct (spread_round T (ccore (find_cpu T x) :: seen) l) as [a1 b1] eqn:E. inversion H; subst.
      cbn [app]. apply perm_skip. eapply IH. exact E.
Qed.

Lemma spread_loop_perm T : forall fuel l, Permutation (spread_loop T fuel l) l.
Proof.
  induction fuel as [|f IH]; intros l; cbn [spread_loop]; [apply Permutation_refl|].
  destruct l as [|x l]; [constructor|].
  destruct (spread_round T [] (x :: l)) as [a b] eqn:E.
  eapply perm_trans; [apply Permutation_app_head; apply IH|].
  eapply spread_round_perm. exact E.
Qed.

Lemma spread_perm c l : Permutation (spread c l) l.
Proof.
  unfold spread. destruct (lenZ l <=? cpc (c_topo c)); [apply Permutation_refl|apply spread_loop_perm].
Qed.

(* ------------------------------------------------------------------ the generators *)
Definition good (a : acc) (l : list Z) : Prop := NoDup l /\ incl l (ids (a_alloc a)).

Lemma ids_filter_incl (f : entry -> bool) l : incl (ids (filter f l)) (ids l).
Proof.
  intros x Hx. unfold ids in *. apply in_map_iff in Hx. destruct Hx as [e [E He]].
  apply filter_In in He. apply in_map_iff. exists e. tauto.
Qed.

Lemma full_cores_NoDup c cands : NoDup (full_cores c cands).
Proof. unfold full_cores. apply NoDup_filter. apply dedup_NoDup. Qed.

Lemma filter_cands_ok (f : entry -> bool) (al : list entry) :
  NoDup (ids al) -> NoDup (ids (filter f al)) /\ incl (ids (filter f al)) (ids al).
Proof.
  intros H. split; [unfold ids; apply NoDup_map_filter; exact H|apply ids_filter_incl].
Qed.

Section Gen.
Variables (c : cfg) (a : acc) (cands : list entry).
Hypothesis Hc : NoDup (ids cands).
Hypothesis Hsub : incl (ids cands) (ids (a_alloc a)).

Lemma cores_cpus_good gf g : good a (cores_cpus c a cands gf g).
Proof.
  unfold cores_cpus. split.
  - apply (groups_NoDup cands Hc ecore (fun k => group ecore cands k)).
    + apply sort_on_NoDup. apply NoDup_filter. apply full_cores_NoDup.
    + intros k. apply Permutation_refl.
  - intros x Hx. apply Hsub.
    eapply (groups_incl cands ecore (fun k => group ecore cands k)); [intros k; apply Permutation_refl|exact Hx].
Qed.

(* the lists of distinct groups are pairwise disjoint: their concatenation is duplicate free *)
Lemma cores_cpus_concat_NoDup gf gs :
  NoDup gs -> NoDup (flat_map (cores_cpus c a cands gf) gs).
Proof.
  intros Hgs.
  apply (flat_map_NoDup _ (fun x g => exists e, In e cands /\ eid e = x
                                       /\ first_of gf (group ecore cands (ecore e)) = g)); [exact Hgs| | |].
  - intros g _. apply cores_cpus_good.
  - intros g x _ Hx. unfold cores_cpus in Hx. apply in_flat_map in Hx. destruct Hx as [k [Hk Hx]].
    apply sort_on_In in Hk. apply filter_In in Hk. destruct Hk as [_ Hk]. apply Z.eqb_eq in Hk.
    unfold ids in Hx. apply in_map_iff in Hx. destruct Hx as [e [E He]].
    apply group_In in He. destruct He as [He Hek]. exists e. subst k. auto.
  - intros x g g' [e [He [E1 E2]]] [e' [He' [E1' E2']]].
    assert (e = e') by (apply (eid_inj cands Hc); auto; congruence). subst. reflexivity.
Qed.

Lemma inner_group_good fx kf k : good a (inner_cpus c fx (group kf cands k)).
Proof.
  destruct (inner_cpus_good c fx (group kf cands k) (ids_group_NoDup cands Hc kf k)) as [H1 H2].
  split; [exact H1|]. intros x Hx. apply Hsub. apply H2 in Hx.
  unfold group in Hx. eapply ids_filter_incl. exact Hx.
Qed.

Lemma free_cpus_body_good (key : Z -> list Z) :
  good a (flat_map (fun k => ids (by_ref c (group ecore cands k))) (sort_on key (dedup (map ecore cands)))).
Proof.
  split.
  - apply (groups_NoDup cands Hc ecore (fun k => by_ref c (group ecore cands k))).
    + apply sort_on_NoDup. apply dedup_NoDup.
    + intros k. apply by_ref_perm.
  - intros x Hx. apply Hsub.
    eapply (groups_incl cands ecore (fun k => by_ref c (group ecore cands k))); [intros k; apply by_ref_perm|exact Hx].
Qed.

Lemma free_cpus_body_perm (key : Z -> list Z) :
  Permutation (flat_map (fun k => ids (by_ref c (group ecore cands k))) (sort_on key (dedup (map ecore cands))))
              (ids cands).
Proof.
  eapply perm_trans; [apply Permutation_flat_map; apply sort_on_perm|].
  eapply perm_trans.
  { apply (Permutation_flat_map_ext _ (fun k => ids (group ecore cands k))).
    intros k _. unfold ids. apply Permutation_map. apply by_ref_perm. }
  unfold ids. rewrite <- map_flat_map. apply Permutation_map. unfold group. apply group_partition_all.
Qed.
End Gen.

Section Gens.
Variables (c : cfg) (a : acc).
Hypothesis Halloc : NoDup (ids (a_alloc a)).

Lemma free_cores_in_node_good fx l : In l (free_cores_in_node c a fx) -> good a l.
Proof.
  unfold free_cores_in_node. intros H. apply in_map_iff in H. destruct H as [nd [E _]]. subst l.
  destruct (filter_cands_ok (fun e => negb (fx && xnuma c a e)) (a_alloc a) Halloc) as [H1 H2].
  apply cores_cpus_good; assumption.
Qed.

Lemma free_cores_in_socket_good :
  NoDup (concat (free_cores_in_socket c a)) /\ incl (concat (free_cores_in_socket c a)) (ids (a_alloc a)).
Proof.
  unfold free_cores_in_socket. rewrite <- flat_map_concat_map. split.
  - apply cores_cpus_concat_NoDup; [exact Halloc|apply incl_refl|].
    apply sort_on_NoDup. unfold core_groups. apply dedup_NoDup.
  - intros x Hx. apply in_flat_map in Hx. destruct Hx as [s [_ Hx]].
    destruct (cores_cpus_good c a (a_alloc a) Halloc (incl_refl _) esock s) as [_ Hi]. apply Hi. exact Hx.
Qed.

Lemma free_cores_in_socket_each l : In l (free_cores_in_socket c a) -> good a l.
Proof.
  unfold free_cores_in_socket. intros H. apply in_map_iff in H. destruct H as [s [E _]]. subst l.
  apply cores_cpus_good; [exact Halloc|apply incl_refl].
Qed.

Lemma free_cpus_in_node_good fx l : In l (free_cpus_in_node c a fx) -> good a l.
Proof.
  unfold free_cpus_in_node. intros H. apply in_map_iff in H. destruct H as [nd [E _]]. subst l.
  destruct (filter_cands_ok (fun e => negb (fx && (xpcpu c a e || xnuma c a e))) (a_alloc a) Halloc) as [H1 H2].
  apply inner_group_good; assumption.
Qed.

Lemma free_cpus_in_socket_good fx l : In l (free_cpus_in_socket c a fx) -> good a l.
Proof.
  unfold free_cpus_in_socket. intros H. apply in_map_iff in H. destruct H as [nd [E _]]. subst l.
  destruct (filter_cands_ok (fun e => negb (fx && xpcpu c a e)) (a_alloc a) Halloc) as [H1 H2].
  apply inner_group_good; assumption.
Qed.

Lemma free_cpus_good fx : good a (free_cpus c a fx).
Proof.
  unfold free_cpus.
  destruct (filter_cands_ok (fun e => negb (fx && (xpcpu c a e || xnuma c a e))) (a_alloc a) Halloc) as [H1 H2].
  apply free_cpus_body_good; assumption.
Qed.

(* without the exclusive filter every allocatable CPU is a candidate *)
Lemma free_cpus_all : Permutation (free_cpus c a false) (ids (a_alloc a)).
Proof.
  unfold free_cpus.
  assert (Hf : filter (fun e => negb (false && (xpcpu c a e || xnuma c a e))) (a_alloc a) = a_alloc a)
    by (apply filter_all_true; reflexivity).
  rewrite Hf. apply free_cpus_body_perm.
Qed.

Lemma spread_good l : good a l -> good a (spread c l).
Proof.
  intros [H1 H2]. split.
  - eapply Permutation_NoDup; [apply Permutation_sym; apply spread_perm|exact H1].
  - intros x Hx. apply H2. eapply Permutation_in; [apply spread_perm|exact Hx].
Qed.

End Gens.
