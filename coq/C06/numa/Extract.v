(* C06, stream "numa" — tryBestToDistributeEvenly as a pure function over three resources
   (cpu in milli, memory and one extended resource in units).
   input : bindreq required bind cpc  H bits*H  reqcpu reqmem reqext  N (present cpu mem ext)*N
           (-1 = key absent; node slot j has id j; hint bits are in 0..7)
   observable: reason_cpu reason_mem reason_ext, then for node 0..7: cpu mem ext *)
From Coq Require Import List ZArith Bool.
From Verif Require Import Lib.Wire C06.Model C06.Spec.
Import ListNotations.
Open Scope Z_scope.

Record numa_in := mkNI { ni_kind : Z; ni_cpc : Z; ni_hint : list Z; ni_req : list Z;
                         ni_av : list (list Z) }.   (* per node slot: [present; cpu; mem; ext] *)

Fixpoint chunk4 (k : nat) (l : list Z) : list (list Z) :=
  match k, l with
  | S k', a :: b :: c :: d :: t => [a; b; c; d] :: chunk4 k' t
  | _, _ => []
  end.

Definition decode (inp : list Z) : numa_in :=
  match inp with
  | bindreq :: required :: bind :: k :: t =>
    let '(hint, t1) := take_list t in
    match t1 with
    | rc :: rm :: re :: n :: t2 =>
      mkNI (if negb (zb bindreq) then 0 else if zb required && (bind =? 1) then 2 else 1)
           k hint [rc; rm; re] (chunk4 (Z.to_nat n) t2)
    | _ => mkNI 0 1 [] [] []
    end
  | _ => mkNI 0 1 [] [] []
  end.

(* free amount of resource r (1 cpu, 2 mem, 3 ext) on node nd; 0 when unknown *)
Definition av_of (i : numa_in) (r : nat) (nd : Z) : Z :=
  let rec := nth (Z.to_nat nd) (ni_av i) [] in
  if (nd <? 0) || negb (zb (nth 0 rec 0)) then 0 else Z.max 0 (nth r rec 0).
Definition tracked (i : numa_in) (r : nat) : bool :=
  existsb (fun rec => zb (nth 0 rec 0) && (0 <=? nth r rec 0)) (ni_av i).
Definition hav_of (i : numa_in) (r : nat) : list (Z * Z) := map (fun nd => (nd, av_of i r nd)) (ni_hint i).
Definition kind_of (i : numa_in) (r : nat) : Z := if Nat.eqb r 1 then ni_kind i else 0.

(* (amount per node slot 0..7, reason) *)
Definition run_res (i : numa_in) (r : nat) : list Z * bool :=
  let req := nth (r - 1) (ni_req i) (-1) in
  if (req <? 0) || negb (tracked i r) then (map (fun _ => 0) (seq 0 8), false)
  else let '(got, q) := distribute1 (kind_of i r) (ni_cpc i) req (hav_of i r) in
       (map (fun k => lookupZ (Z.of_nat k) got) (seq 0 8), negb (q =? 0)).

Fixpoint interleave3 (a b c : list Z) : list Z :=
  match a, b, c with
  | x :: a', y :: b', z :: c' => x :: y :: z :: interleave3 a' b' c'
  | _, _, _ => []
  end.

Definition run_case (inp : list Z) : list Z :=
  let i := decode inp in
  let '(g1, r1) := run_res i 1%nat in
  let '(g2, r2) := run_res i 2%nat in
  let '(g3, r3) := run_res i 3%nat in
  [bz r1; bz r2; bz r3] ++ interleave3 g1 g2 g3.

Fixpoint every3 (off : nat) (l : list Z) : list Z :=
  match l with
  | a :: b :: c :: t => nth off [a; b; c] 0 :: every3 off t
  | _ => []
  end.

Definition prop_case (inp obs : list Z) : Z :=
  let i := decode inp in
  match obs with
  | r1 :: r2 :: r3 :: t =>
    if negb (Nat.eqb (length t) 24) then 99
    else
      let code (r : nat) (reason : Z) :=
        res_code (kind_of i r) (nth (r - 1) (ni_req i) (-1)) (tracked i r) (hav_of i r)
                 (every3 (r - 1) t) (zb reason) in
      let c1 := code 1%nat r1 in
      if negb (c1 =? 0) then c1
      else let c2 := code 2%nat r2 in
           if negb (c2 =? 0) then 100 + c2
           else let c3 := code 3%nat r3 in if negb (c3 =? 0) then 200 + c3 else 0
  | _ => 99
  end.

(* non-trivial: at least two hinted nodes and a tracked, positive request that no single
   hinted node can serve alone *)
Definition nontrivial_case (inp : list Z) : bool :=
  let i := decode inp in
  (2 <=? lenZ (ni_hint i))
  && existsb (fun r => let req := nth (r - 1) (ni_req i) (-1) in
                       (0 <? req) && tracked i r
                       && forallb (fun p => snd p <? req) (hav_of i r)) [1%nat; 2%nat; 3%nat].

Definition finding_sig (inp obs : list Z) : Z := 0.

Require Extraction.
Require Import ExtrOcamlBasic.
Extraction "model.ml" run_case prop_case nontrivial_case finding_sig.
