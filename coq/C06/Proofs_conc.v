(* C06 — concurrency at lock-section granularity: resourceManager.Update is ONE critical section
   (release + addPodAllocation under NodeAllocation.lock). Whatever the interleaving of Update
   calls that re-record a live pod, at every point between two critical sections the ledger is
   exact and the pod is in it, so an Allocate reading the ledger there is never offered a CPU
   whose reference count (which includes that pod) has reached the sharing limit. *)
From Coq Require Import List ZArith Bool Lia.
From Verif Require Import Lib.Interleave C06.Model C06.Spec C06.Proofs_base C06.Proofs_ledger
  C06.Proofs_take C06.Proofs_hist.
Import ListNotations.
Open Scope Z_scope.

Definition astep (o : nopts) (st : lstate) (x : op) : lstate := fst (step o st x).

Lemma live_ref_pos st p i :
  linv st -> In p (l_pods st) -> In i (p_cpus p) -> 1 <= ref_in (l_cpus st) i.
Proof.
  intros [_ [_ [_ [Hcpu _]]]] Hp Hi. rewrite Hcpu. unfold ref_of_pods. clear Hcpu.
  apply memZ_In in Hi. revert Hp. generalize (l_pods st). intros ps. induction ps as [|q ps IH]; intros Hp; [destruct Hp|].
  cbn [filter]. destruct Hp as [Hp|Hp].
  - subst q. rewrite Hi. rewrite lenZ_cons. pose proof (lenZ_nonneg (filter (fun p0 => memZ i (p_cpus p0)) ps)). lia.
  - specialize (IH Hp). destruct (memZ i (p_cpus q)); [rewrite lenZ_cons|]; lia.
Qed.

Lemma conc_update_inv o st0 p ts l :
  wf_opts o -> linv st0 -> palloc_wf p -> palloc_empty p = false -> In p (l_pods st0) ->
  interleaving ts l -> (forall t a, In t ts -> In a t -> a = OUpdate p) ->
  forall pre suf, l = pre ++ suf ->
  linv (exec (astep o) st0 pre) /\ In p (l_pods (exec (astep o) st0 pre)).
Proof.
  intros Ho Hinv Hp He Hin Hil Hact pre suf Hl.
  assert (Hpres : forall t a s, In t ts -> In a t ->
                    (linv s /\ In p (l_pods s)) -> (linv (astep o s a) /\ In p (l_pods (astep o s a)))).
  { intros t a s Ht Ha [Hs1 Hs2]. rewrite (Hact t a Ht Ha). unfold astep. split.
    - apply step_linv; [exact Ho|exact Hp|exact Hs1].
    - cbn [step fst]. rewrite He. rewrite update_pods. apply in_or_app. right. left. reflexivity. }
  exact (interleaving_inv_prefix (astep o) (fun s => linv s /\ In p (l_pods s)) ts l Hil Hpres
           st0 (conj Hinv Hin) pre suf Hl).
Qed.

(* what an Allocate that reads the ledger between two critical sections can be given *)
Lemma conc_update_allocate o st0 p ts l :
  wf_opts o -> linv st0 -> palloc_wf p -> palloc_empty p = false -> In p (l_pods st0) ->
  interleaving ts l -> (forall t a, In t ts -> In a t -> a = OUpdate p) ->
  forall pre suf, l = pre ++ suf ->
  forall rq q,
    match r_hint rq with Some h => NoDup h | None => True end ->
    r_pref rq = [] -> r_preempt rq = [] ->
    allocate o (exec (astep o) st0 pre) rq = Some q ->
    (forall i, In i (p_cpus q) -> ref_in (l_cpus (exec (astep o) st0 pre)) i < o_maxref o)
    /\ (forall i, In i (p_cpus p) -> 1 <= ref_in (l_cpus (exec (astep o) st0 pre)) i)
    /\ (o_maxref o = 1 -> forall i, In i (p_cpus q) -> ~ In i (p_cpus p)).
Proof.
  intros Ho Hinv Hp He Hin Hil Hact pre suf Hl rq q Hh E1 E2 Hal.
  destruct (conc_update_inv o st0 p ts l Ho Hinv Hp He Hin Hil Hact pre suf Hl) as [Hs Hps].
  set (s := exec (astep o) st0 pre) in *.
  pose proof Ho as [HT Hm].
  destruct (allocate_wf o s rq q HT Hh Hal) as [_ Hinc].
  assert (H1 : forall i, In i (p_cpus q) -> ref_in (l_cpus s) i < o_maxref o).
  { intros i Hi. apply (avail_ref_lt o s rq i E1 E2 Hm); [destruct Hs; assumption|apply Hinc; exact Hi]. }
  assert (H2 : forall i, In i (p_cpus p) -> 1 <= ref_in (l_cpus s) i)
    by (intros i Hi; apply (live_ref_pos s p i Hs Hps Hi)).
  split; [exact H1|]. split; [exact H2|].
  intros Hone i Hq Hpi. specialize (H1 i Hq). specialize (H2 i Hpi). lia.
Qed.
