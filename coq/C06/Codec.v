(* C06 — wire decoding / encoding shared by the "ledger" and "conc" streams (no proofs).
   header : maxref most  K (id sock node corelocal)*K  R (lo hi style)*R  C (node capcpu capmem)*C
            reserved CPUs are the union of the ranges lo..hi (the harness spells them as a cpu
            list string in the node-reservation annotation: style 0 always "lo-hi", even "8-8")
   ops    : M op*M
     op 1 uid n bindreq bind required excl hintflag H bits*H cpu mem      Allocate (+ Update on success)
     op 2 uid                                                             Release
     op 3 uid excl k ids*k m (node cpu mem)*m                             pod event (annotations -> Update)
     op 4 uid n bindreq bind required excl hintflag H bits*H cpu mem hostflag host victimflag victim
          Allocate with give-backs (Spec.concretize); on success Release(victim) and Update
     op 5 kind uid assigned oldassigned phase bad excl k ids*k m (node cpu mem)*m
          informer event delivered to the real podEventHandler (Model.podev): kind 0 OnAdd,
          1 OnUpdate, 2 OnDelete(a pod), 3 OnDelete(tombstone of the pod), 4 OnDelete(tombstone of
          another object), 5 OnAdd(not a pod), 6 the ForgetPod hook, 7 OnUpdate(not a pod, pod);
          phase 0 Pending 1 Running 2 Succeeded 3 Failed; bad 1 resource-status is not JSON,
          2 the cpuset string does not parse, 3 resource-spec is not JSON
     op 6 uid
          the informer echoes pod uid as bound: the allocation Allocate returned for it (or the
          last event spelled) is written to a pod by the real Plugin.preBindObject and delivered
          by OnUpdate; nothing is delivered when the history has no live allocation for uid
   observable, per op: ok  k ids*k  m (node cpu mem)*m   L (id ref excl)*L   V avail*V
                       then (cpu mem) of allocatedResources for node 0..7 *)
From Coq Require Import List ZArith Bool.
From Verif Require Import Lib.Wire C06.Model C06.Spec.
Import ListNotations.
Open Scope Z_scope.

Definition dec_cpu (l : list Z) : cpu * list Z :=
  match l with
  | i :: s :: n :: k :: t => (mkCpu i (s * 65536 + k) n s, t)
  | _ => (mkCpu 0 0 0 0, [])
  end.
Definition dec_nres (l : list Z) : nres * list Z :=
  match l with
  | n :: c :: m :: t => ((n, (c, m)), t)
  | _ => ((0, (0, 0)), [])
  end.
Definition dec_range (l : list Z) : list Z * list Z :=
  match l with
  | lo :: hi :: _ :: t => (map (fun k => lo + Z.of_nat k) (seq 0 (Z.to_nat (hi - lo + 1))), t)
  | _ => ([], [])
  end.

Definition dec_op (l : list Z) : op * list Z :=
  match l with
  | 1 :: uid :: n :: bindreq :: bind :: required :: excl :: hf :: t =>
    let '(bits, t1) := take_list t in
    match t1 with
    | c :: m :: t2 =>
      (OAlloc (mkR uid n (zb bindreq) bind (zb required) excl (if zb hf then Some bits else None) c m [] []), t2)
    | _ => (ORelease (-1), [])
    end
  | 4 :: uid :: n :: bindreq :: bind :: required :: excl :: hf :: t =>
    let '(bits, t1) := take_list t in
    match t1 with
    | c :: m :: hof :: ho :: vf :: v :: t2 =>
      (OAllocR (mkR uid n (zb bindreq) bind (zb required) excl (if zb hf then Some bits else None) c m [] [])
               (if zb hof then Some ho else None) (if zb vf then Some v else None), t2)
    | _ => (ORelease (-1), [])
    end
  | 2 :: uid :: t => (ORelease uid, t)
  | 3 :: uid :: excl :: t =>
    let '(cpus, t1) := take_list t in
    let '(nr, t2) := decode_seq dec_nres t1 in
    (OUpdate (mkP uid (dedup cpus) excl nr), t2)
  | _ => (ORelease (-1), [])
  end.

Definition dec_item (l : list Z) : item * list Z :=
  match l with
  | 5 :: kind :: uid :: assigned :: oldassigned :: phase :: bad :: excl :: t =>
    let '(cpus, t1) := take_list t in
    let '(nr, t2) := decode_seq dec_nres t1 in
    (IEvent (mkEv kind (zb assigned) (zb oldassigned) (2 <=? phase) (zb bad)
                  (mkP uid (dedup cpus) excl nr)), t2)
  | 6 :: uid :: t => (IEcho uid, t)
  | _ => let '(x, t) := dec_op l in (IOp x, t)
  end.

(* header and operation list; the rest of the input is returned *)
Definition decode_hist (inp : list Z) : nopts * list item * list Z :=
  match inp with
  | maxref :: most :: t =>
    let '(T, t1) := decode_seq dec_cpu t in
    let '(rsv, t2) := decode_seq dec_range t1 in
    let '(cap, t3) := decode_seq dec_nres t2 in
    let '(ops, t4) := decode_seq dec_item t3 in
    (mkO T maxref (dedup (concat rsv)) (zb most) cap, ops, t4)
  | _ => (mkO [] 1 [] false [], [], [])
  end.

Definition sortZ (l : list Z) : list Z := sort_by Z.leb l.
Definition enc_nres (l : list nres) : list Z :=
  Z.of_nat (length l) :: flat_map (fun e => [fst e; fst (snd e); snd (snd e)]) l.

Definition dump (o : nopts) (st : lstate) : list Z :=
  let cs := sort_on (fun a => [aid a]) (l_cpus st) in
  (Z.of_nat (length cs) :: flat_map (fun a => [aid a; aref a; aexcl a]) cs)
  ++ encode_list (fst (available (o_topo o) (o_maxref o) (o_reserved o) (l_cpus st) []))
  ++ flat_map (fun k => let r := lookup_res (Z.of_nat k) (l_numa st) in [fst r; snd r]) (seq 0 8).

Definition enc_result (r : option palloc) : list Z :=
  match r with
  | Some p => [1] ++ encode_list (sortZ (p_cpus p)) ++ enc_nres (p_numa p)
  | None => [0; 0; 0]
  end.

Definition obs_step (o : nopts) (st : lstate) (es : list edge) (x0 : op) : lstate * list edge * list Z :=
  let x := match x0 with
           | OAllocR rq0 h0 v0 => let '(rq, h, v) := concretize (l_pods st) es rq0 h0 v0 in OAllocR rq h v
           | _ => x0
           end in
  let '(st', r) := step o st x in
  let head :=
    match x with
    | OAlloc _ | OAllocR _ _ _ => enc_result r
    | _ => [1; 0; 0]
    end in
  let es' :=
    match x, r with
    | OAlloc rq, Some _ => edges_del es (r_uid rq)
    | OAllocR rq h v, Some p => edges_alloc es rq h v (p_cpus p)
    | ORelease uid, _ => edges_del es uid
    | OUpdate p, _ => if palloc_empty p then es else edges_del es (p_uid p)
    | _, None => es
    end in
  (st', es', head ++ dump o st').

(* an informer event is observed as the resourceManager call the handler turns it into *)
Definition obs_istep (o : nopts) (st : lstate) (es : list edge) (h : item) : lstate * list edge * list Z :=
  match h, lower (l_pods st) h with
  | IEcho _, Some x => let st' := fst (step o st x) in (st', es, [1; 0; 0] ++ dump o st')
  | _, Some x => obs_step o st es x
  | _, None => (st, es, [1; 0; 0] ++ dump o st)
  end.

Fixpoint run_ops (o : nopts) (st : lstate) (es : list edge) (ops : list item) : lstate * list edge * list Z :=
  match ops with
  | [] => (st, es, [])
  | x :: t => let '(st', es', out) := obs_istep o st es x in
              let '(st'', es'', out') := run_ops o st' es' t in (st'', es'', out ++ out')
  end.

(* ---- parsing the implementation's observable ---- *)
Definition dec_led (l : list Z) : (Z * Z) * list Z :=
  match l with
  | i :: r :: _ :: t => ((i, r), t)
  | _ => ((0, 0), [])
  end.
Fixpoint pairs (k : nat) (l : list Z) : list res2 * list Z :=
  match k with
  | O => ([], l)
  | S k' => match l with
            | a :: b :: t => let '(r, rest) := pairs k' t in ((a, b) :: r, rest)
            | _ => ([], [])
            end
  end.
(* result part only: ok k ids m numa *)
Definition dec_result (l : list Z) : lobs * list Z :=
  match l with
  | ok :: t =>
    let '(cpus, t1) := take_list t in
    let '(nr, t2) := decode_seq dec_nres t1 in
    (mkLO (zb ok) cpus nr [] [] [], t2)
  | [] => (lo_init, [])
  end.
(* dump part only *)
Definition dec_dump (l : list Z) : lobs * list Z :=
  let '(led, t3) := decode_seq dec_led l in
  let '(av, t4) := take_list t3 in
  let '(nl, t5) := pairs 8 t4 in
  (mkLO true [] [] led av nl, t5).
Definition dec_lobs (l : list Z) : lobs * list Z :=
  let '(r, t) := dec_result l in
  let '(d, t') := dec_dump t in
  (mkLO (lo_ok r) (lo_cpus r) (lo_numa r) (lo_ledger d) (lo_avail d) (lo_nled d), t').
