(* C06 — the dump clauses (21–25) of the decision procedure hold of the model's own dump in
   every state that satisfies the ledger invariant, hence after every history of scheduler calls
   and informer events, judged against the live pods recomputed from that history; and the wire
   encoding of the dump decodes to the record the clauses are evaluated on. *)
From Coq Require Import List ZArith Bool Lia Permutation Sorted.
From Verif Require Import Lib.Wire C06.Model C06.Spec C06.Codec C06.Proofs_base C06.Proofs_ledger
  C06.Proofs_take C06.Proofs_hist C06.Proofs_event.
Import ListNotations.
Open Scope Z_scope.

(* the dump as the record the decision procedure reads *)
Definition dump_lobs (o : nopts) (st : lstate) : lobs :=
  mkLO true [] []
       (map (fun a => (aid a, aref a)) (sort_on (fun a => [aid a]) (l_cpus st)))
       (fst (available (o_topo o) (o_maxref o) (o_reserved o) (l_cpus st) []))
       (map (fun k => lookup_res (Z.of_nat k) (l_numa st)) (seq 0 8)).

(* ---- sorting by a one-element key vector sorts by that key ---- *)
Lemma insert_by_ext {A} (l1 l2 : A -> A -> bool) x l :
  (forall y, In y l -> l1 x y = l2 x y) -> insert_by l1 x l = insert_by l2 x l.
Proof.
  induction l as [|y l IH]; intros H; [reflexivity|]. cbn [insert_by].
  rewrite (H y (or_introl eq_refl)). destruct (l2 x y); [reflexivity|].
  f_equal. apply IH. intros z Hz. apply H. right. exact Hz.
Qed.

Lemma sort_by_ext {A} (l1 l2 : A -> A -> bool) l :
  (forall x y, In x l -> In y l -> l1 x y = l2 x y) -> sort_by l1 l = sort_by l2 l.
Proof.
  unfold sort_by. induction l as [|x l IH]; intros H; [reflexivity|]. cbn [fold_right].
  rewrite IH by (intros a b Ha Hb; apply H; right; assumption).
  apply insert_by_ext. intros y Hy. apply H; [left; reflexivity|right].
  apply (sort_by_In l2 l y). exact Hy.
Qed.

Lemma lex_leb_single a b : lex_leb [a] [b] = (a <=? b).
Proof.
  cbn [lex_leb]. destruct (a <? b) eqn:E1.
  - apply Z.ltb_lt in E1. symmetry. apply Z.leb_le. lia.
  - destruct (b <? a) eqn:E2.
    + apply Z.ltb_lt in E2. symmetry. apply Z.leb_gt. lia.
    + apply Z.ltb_ge in E1, E2. symmetry. apply Z.leb_le. lia.
Qed.

Lemma sort_on_single_sorted {A} (k : A -> Z) l :
  StronglySorted (fun a b => k a <= k b) (sort_on (fun x => [k x]) l).
Proof.
  unfold sort_on.
  set (L := map (fun x => ([k x], x)) l).
  assert (HL : forall p, In p L -> fst p = [k (snd p)]).
  { intros p Hp. unfold L in Hp. apply in_map_iff in Hp. destruct Hp as [x [E _]]. subst p. reflexivity. }
  rewrite (sort_by_ext _ (key_leb (fun p : list Z * A => k (snd p))) L).
  2:{ intros x y Hx Hy. rewrite (HL x Hx), (HL y Hy). unfold key_leb. apply lex_leb_single. }
  pose proof (sort_by_sorted (fun p : list Z * A => k (snd p)) L) as Hs.
  induction Hs as [|p t Hst IH Hall]; cbn [map]; constructor; [exact IH|].
  rewrite Forall_forall in *. intros z Hz. apply in_map_iff in Hz. destruct Hz as [q [Eq Hq]]. subst z.
  apply Hall. exact Hq.
Qed.

Lemma sorted_nodup_strict (l : list Z) :
  StronglySorted Z.le l -> NoDup l -> strictly_asc l = true.
Proof.
  induction 1 as [|x l Hs IH Hall]; intros Hnd; [reflexivity|].
  inversion Hnd as [|? ? Hx Hnd']; subst. cbn [strictly_asc]. destruct l as [|y l]; [reflexivity|].
  rewrite IH by exact Hnd'. rewrite andb_true_r. apply Z.ltb_lt.
  inversion Hall as [|? ? Hxy _]; subst.
  assert (x <> y) by (intros ->; apply Hx; left; reflexivity). lia.
Qed.

Lemma sorted_map {A} (k : A -> Z) l :
  StronglySorted (fun a b => k a <= k b) l -> StronglySorted Z.le (map k l).
Proof.
  induction 1 as [|x l Hs IH Hall]; cbn [map]; constructor; [exact IH|].
  rewrite Forall_forall in *. intros z Hz. apply in_map_iff in Hz. destruct Hz as [y [<- Hy]]. apply Hall. exact Hy.
Qed.

(* ---- reference counts are invariant under reordering the entries ---- *)
Lemma ref_in_perm cs cs' i :
  Permutation cs cs' -> NoDup (map aid cs) -> ref_in cs i = ref_in cs' i.
Proof.
  induction 1 as [|a l l' Hp IH|a b l|l l' l'' Hp1 IH1 Hp2 IH2]; intros Hnd.
  - reflexivity.
  - rewrite !ref_in_cons. cbn [map] in Hnd. inversion Hnd; subst. rewrite IH by assumption. reflexivity.
  - rewrite !ref_in_cons. cbn [map] in Hnd. inversion Hnd as [|? ? Hb _]; subst.
    destruct (aid a =? i) eqn:Ea; destruct (aid b =? i) eqn:Eb; try reflexivity.
    apply Z.eqb_eq in Ea, Eb. exfalso. apply Hb. left. congruence.
  - rewrite IH1 by exact Hnd. apply IH2.
    eapply Permutation_NoDup; [apply Permutation_map; exact Hp1|exact Hnd].
Qed.

Lemma lookupZ_ledger cs i : lookupZ i (map (fun a => (aid a, aref a)) cs) = ref_in cs i.
Proof.
  induction cs as [|a cs IH]; [reflexivity|]. cbn [map lookupZ]. rewrite ref_in_cons, IH. reflexivity.
Qed.

(* ---- the free CPUs are those whose recomputed reference count is below the limit ---- *)
Lemma busy_iff cs maxref i :
  1 <= maxref -> cs_wf cs ->
  memZ i (map aid (filter (fun a => maxref <=? aref a) cs)) = (maxref <=? Z.max 0 (ref_in cs i)).
Proof.
  intros Hm [Hnd Hpos].
  destruct (memZ i (map aid (filter (fun a => maxref <=? aref a) cs))) eqn:E.
  - apply memZ_In in E. apply in_map_iff in E. destruct E as [a [Ea Ha]]. apply filter_In in Ha.
    destruct Ha as [Ha Hle]. subst i. rewrite (ref_in_entry cs a Hnd Ha). apply Z.leb_le in Hle.
    symmetry. apply Z.leb_le. lia.
  - symmetry. apply Z.leb_gt. apply memZ_false in E.
    destruct (has_id i cs) eqn:Eh.
    + apply has_id_In in Eh. apply in_map_iff in Eh. destruct Eh as [a [Ea Ha]]. subst i.
      rewrite (ref_in_entry cs a Hnd Ha).
      destruct (Z.lt_ge_cases (aref a) maxref) as [Hlt|Hge]; [lia|].
      exfalso. apply E. apply in_map. apply filter_In. split; [exact Ha|apply Z.leb_le; lia].
    + rewrite ref_in_absent by exact Eh. lia.
Qed.

Lemma eq_listZ_refl l : eq_listZ l l = true.
Proof. induction l as [|x l IH]; [reflexivity|]. cbn [eq_listZ]. rewrite Z.eqb_refl. exact IH. Qed.

Lemma available_is_spec o st :
  wf_opts o -> linv st ->
  fst (available (o_topo o) (o_maxref o) (o_reserved o) (l_cpus st) []) = avail_spec o (l_pods st) [].
Proof.
  intros [_ Hm] [Hcs [_ [_ [Hcpu _]]]]. unfold available, avail_spec. cbn [fold_left fst].
  apply filter_ext. intros i. rewrite (busy_iff _ _ i Hm Hcs), Hcpu.
  unfold giveback_count. cbn [map sumZ fold_right]. rewrite Z.sub_0_r. reflexivity.
Qed.

(* ---- clauses 21–25 ---- *)
Lemma forallb_true {A} (f : A -> bool) l : (forall x, In x l -> f x = true) -> forallb f l = true.
Proof. intros H. apply forallb_forall. exact H. Qed.

Lemma dump_model_passes o st es :
  wf_opts o -> linv st -> dump_code o (l_pods st) es false (dump_lobs o st) = 0.
Proof.
  intros Ho Hinv. pose proof Hinv as [Hcs [Hnd [Hpw [Hcpu Hnuma]]]]. destruct Hcs as [Hids Hpos].
  unfold dump_code, dump_lobs. cbn [lo_ledger lo_avail lo_nled andb].
  set (cs' := sort_on (fun a => [aid a]) (l_cpus st)).
  assert (Hperm : Permutation cs' (l_cpus st)) by apply sort_on_perm.
  (* 21 *)
  rewrite map_map. cbn [fst]. change (fun x : ainfo => aid x) with aid.
  assert (H21 : strictly_asc (map aid cs') = true).
  { apply sorted_nodup_strict.
    - apply sorted_map. apply sort_on_single_sorted.
    - eapply Permutation_NoDup; [apply Permutation_sym; apply Permutation_map; exact Hperm|exact Hids]. }
  rewrite H21. cbn [negb].
  (* 22 *)
  rewrite forallb_true.
  2:{ intros i _. apply Z.eqb_eq. rewrite lookupZ_ledger.
      rewrite <- (ref_in_perm _ _ i (Permutation_sym Hperm)).
      - apply Hcpu.
      - exact Hids. }
  cbn [negb].
  (* 23 *)
  rewrite forallb_true.
  2:{ intros p Hp. apply in_map_iff in Hp. destruct Hp as [a [<- Ha]]. cbn [snd]. apply Z.ltb_lt.
      apply Hpos. apply (Permutation_in _ Hperm). exact Ha. }
  cbn [negb].
  (* 24 *)
  rewrite forallb_true.
  2:{ intros k Hk. rewrite map_length, seq_length in Hk. apply in_seq in Hk.
      rewrite (nth_indep _ (0, 0) (lookup_res (Z.of_nat 0) (l_numa st))) by (rewrite map_length, seq_length; lia).
      rewrite (map_nth (fun k => lookup_res (Z.of_nat k) (l_numa st))), seq_nth by lia.
      cbn [Nat.add]. rewrite Hnuma, !Z.eqb_refl. reflexivity. }
  cbn [negb].
  (* 25 *)
  rewrite (available_is_spec o st Ho Hinv), eq_listZ_refl. reflexivity.
Qed.

(* after every history, against the live pods recomputed from the history *)
Lemma ihist_dump_passes o hs es :
  wf_opts o -> Forall item_wf hs ->
  dump_code o (live_hist o l_init [] hs) es false (dump_lobs o (irun o hs)) = 0.
Proof.
  intros Ho Hhs. rewrite <- ihist_live. apply dump_model_passes; [exact Ho|apply ihist_linv; assumption].
Qed.

(* ---- the wire encoding of the dump decodes to that record ---- *)
Lemma decode_many_ledger cs rest :
  decode_many dec_led (length cs) (flat_map (fun a => [aid a; aref a; aexcl a]) cs ++ rest)
  = (map (fun a => (aid a, aref a)) cs, rest).
Proof.
  induction cs as [|a cs IH]; [reflexivity|]. cbn [length flat_map app decode_many dec_led].
  rewrite IH. reflexivity.
Qed.

Lemma take_list_encode l rest : take_list (encode_list l ++ rest) = (l, rest).
Proof.
  unfold take_list, encode_list, take_n. cbn [app]. rewrite Nat2Z.id.
  rewrite firstn_app, skipn_app, Nat.sub_diag, firstn_all, skipn_all. cbn [firstn skipn app].
  rewrite app_nil_r. reflexivity.
Qed.

Lemma dec_dump_dump o st : dec_dump (dump o st) = (dump_lobs o st, []).
Proof.
  unfold dec_dump, dump, dump_lobs.
  set (cs := sort_on (fun a => [aid a]) (l_cpus st)).
  cbn [app decode_seq]. rewrite Nat2Z.id. rewrite decode_many_ledger.
  rewrite take_list_encode. cbn [seq flat_map app pairs map].
  repeat match goal with |- context [lookup_res ?k ?m] =>
    let r := fresh "r" in let E := fresh "E" in remember (lookup_res k m) as r eqn:E; clear E; destruct r as [? ?] end.
  reflexivity.
Qed.
