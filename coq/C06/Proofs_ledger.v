(* C06 — the per-node ledger (addPodAllocation / release / update): the incrementally
   maintained maps equal the from-scratch recomputation over the live pods. *)
From Coq Require Import List ZArith Bool Lia Permutation.
From Verif Require Import C06.Model C06.Spec C06.Proofs_base.
Import ListNotations.
Open Scope Z_scope.

(* ------------------------------------------------------------------ CPU reference counts *)
Definition cs_wf (cs : list ainfo) : Prop :=
  NoDup (map aid cs) /\ forall a, In a cs -> 0 < aref a.

Lemma ref_in_cons a cs j : ref_in (a :: cs) j = if aid a =? j then aref a else ref_in cs j.
Proof. unfold ref_in. cbn [find]. destruct (aid a =? j); reflexivity. Qed.

Lemma ref_in_nil j : ref_in [] j = 0.
Proof. reflexivity. Qed.

Definition has_id (i : Z) (cs : list ainfo) : bool := existsb (fun a => aid a =? i) cs.

Lemma has_id_In i cs : has_id i cs = true <-> In i (map aid cs).
Proof.
  unfold has_id. rewrite existsb_exists, in_map_iff. split.
  - intros [a [Ha E]]. apply Z.eqb_eq in E. exists a. auto.
  - intros [a [E Ha]]. exists a. split; [exact Ha|apply Z.eqb_eq; exact E].
Qed.

Lemma ref_in_absent cs j : has_id j cs = false -> ref_in cs j = 0.
Proof.
  induction cs as [|a cs IH]; intros H; [reflexivity|].
  unfold has_id in H. cbn [existsb] in H. apply orb_false_iff in H. destruct H as [H1 H2].
  rewrite ref_in_cons, H1. apply IH. exact H2.
Qed.

Lemma ref_in_pos cs j : cs_wf cs -> has_id j cs = true -> 0 < ref_in cs j.
Proof.
  intros [_ Hpos]. induction cs as [|a cs IH]; intros H; [discriminate|].
  rewrite ref_in_cons. destruct (aid a =? j) eqn:E.
  - apply Hpos. left. reflexivity.
  - unfold has_id in H. cbn [existsb] in H. rewrite E in H. cbn [orb] in H.
    apply IH; [intros b Hb; apply Hpos; right; exact Hb|exact H].
Qed.

Lemma ref_in_nonneg cs j : cs_wf cs -> 0 <= ref_in cs j.
Proof.
  intros H. destruct (has_id j cs) eqn:E.
  - pose proof (ref_in_pos cs j H E). lia.
  - rewrite ref_in_absent by exact E. lia.
Qed.

Lemma ref_in_app cs l j :
  ref_in (cs ++ l) j = if has_id j cs then ref_in cs j else ref_in l j.
Proof.
  induction cs as [|a cs IH]; [reflexivity|].
  cbn [app]. rewrite !ref_in_cons. unfold has_id. cbn [existsb].
  destruct (aid a =? j); cbn [orb]; [reflexivity|exact IH].
Qed.

Lemma ref_in_inc_map e i cs j :
  ref_in (map (fun a => if aid a =? i then mkA i (aref a + 1) e else a) cs) j
  = ref_in cs j + (if (i =? j) && has_id i cs then 1 else 0).
Proof.
  induction cs as [|a cs IH]; [cbn; rewrite andb_false_r; reflexivity|].
  cbn [map]. rewrite !ref_in_cons. unfold has_id. cbn [existsb]. fold (has_id i cs).
  destruct (aid a =? i) eqn:E1.
  - apply Z.eqb_eq in E1. cbn [aid aref orb]. rewrite andb_true_r.
    destruct (i =? j) eqn:E2.
    + apply Z.eqb_eq in E2. subst. rewrite Z.eqb_refl. reflexivity.
    + assert (aid a =? j = false) as -> by (apply Z.eqb_neq; apply Z.eqb_neq in E2; lia).
      rewrite IH. cbn [andb]. lia.
  - cbn [orb]. destruct (aid a =? j) eqn:E3.
    + destruct (i =? j) eqn:E2; [|cbn [andb]; lia].
      apply Z.eqb_eq in E2. apply Z.eqb_eq in E3. apply Z.eqb_neq in E1. lia.
    + exact IH.
Qed.

Lemma ref_in_cpu_inc e cs i j :
  ref_in (cpu_inc e cs i) j = ref_in cs j + (if i =? j then 1 else 0).
Proof.
  unfold cpu_inc. fold (has_id i cs). destruct (has_id i cs) eqn:E.
  - rewrite ref_in_inc_map, E, andb_true_r. reflexivity.
  - rewrite ref_in_app. destruct (i =? j) eqn:E2.
    + apply Z.eqb_eq in E2. subst. rewrite E. rewrite ref_in_cons. cbn [aid aref].
      rewrite Z.eqb_refl. rewrite ref_in_absent by exact E. reflexivity.
    + destruct (has_id j cs) eqn:E3; [lia|].
      rewrite ref_in_cons. cbn [aid]. rewrite E2. rewrite ref_in_nil, ref_in_absent by exact E3. lia.
Qed.

Lemma cpu_inc_wf e cs i : cs_wf cs -> cs_wf (cpu_inc e cs i).
Proof.
  intros [Hnd Hpos]. unfold cpu_inc. fold (has_id i cs). destruct (has_id i cs) eqn:E.
  - split.
    + rewrite map_map.
      replace (map (fun x => aid (if aid x =? i then mkA i (aref x + 1) e else x)) cs) with (map aid cs); [exact Hnd|].
      apply map_ext_in. intros a _. destruct (aid a =? i) eqn:E1; [apply Z.eqb_eq in E1; cbn; lia|reflexivity].
    + intros a Ha. apply in_map_iff in Ha. destruct Ha as [b [Eb Hb]]. specialize (Hpos b Hb).
      destruct (aid b =? i); subst; cbn [aref]; lia.
  - split.
    + rewrite map_app. cbn [map aid]. apply NoDup_app_intro; [exact Hnd|repeat constructor; intros []|].
      intros x Hx [Hin|[]]. subst. apply has_id_In in Hx. congruence.
    + intros a Ha. apply in_app_or in Ha. destruct Ha as [Ha|[Ha|[]]]; [apply Hpos; exact Ha|subst; cbn; lia].
Qed.

Lemma cpu_dec_absent cs i : has_id i cs = false -> cpu_dec cs i = cs.
Proof.
  induction cs as [|a cs IH]; intros H; [reflexivity|].
  unfold has_id in H. cbn [existsb] in H. apply orb_false_iff in H. destruct H as [H1 H2].
  unfold cpu_dec. cbn [flat_map]. rewrite H1. cbn [app]. f_equal. apply IH. exact H2.
Qed.

Lemma cpu_dec_spec cs i :
  cs_wf cs ->
  cs_wf (cpu_dec cs i)
  /\ (forall j, ref_in (cpu_dec cs i) j = if i =? j then Z.max 0 (ref_in cs i - 1) else ref_in cs j)
  /\ (forall x, In x (map aid (cpu_dec cs i)) -> In x (map aid cs)).
Proof.
  induction cs as [|a cs IH]; intros [Hnd Hpos].
  - split; [split; [constructor|intros a []]|]. split; [|intros x []].
    intros j. cbn. destruct (i =? j); reflexivity.
  - cbn [map] in Hnd. inversion Hnd as [|? ? Hx Hnd']; subst.
    assert (Hwf : cs_wf cs) by (split; [exact Hnd'|intros b Hb; apply Hpos; right; exact Hb]).
    destruct (IH Hwf) as [[IHnd IHpos] [IHref IHin]].
    unfold cpu_dec. cbn [flat_map]. fold (cpu_dec cs i).
    destruct (aid a =? i) eqn:E.
    + apply Z.eqb_eq in E.
      assert (Hab : has_id i cs = false).
      { destruct (has_id i cs) eqn:E'; [|reflexivity]. apply has_id_In in E'. subst. contradiction. }
      rewrite (cpu_dec_absent cs i Hab).
      assert (Hra : 0 < aref a) by (apply Hpos; left; reflexivity).
      destruct (aref a - 1 =? 0) eqn:E0; cbn [app].
      * apply Z.eqb_eq in E0. split; [exact Hwf|]. split; [|intros x Hx0; right; exact Hx0].
        intros j. rewrite !ref_in_cons. subst i. rewrite Z.eqb_refl.
        destruct (aid a =? j) eqn:Ej; [|reflexivity].
        apply Z.eqb_eq in Ej. subst j. rewrite ref_in_absent by exact Hab. lia.
      * apply Z.eqb_neq in E0. split; [|split].
        -- split; [cbn [map aid]; subst i; exact Hnd|].
           intros b [Hb|Hb]; [subst b; cbn [aref]; lia|apply Hpos; right; exact Hb].
        -- intros j. rewrite !ref_in_cons. cbn [aid aref]. subst i. rewrite Z.eqb_refl.
           destruct (aid a =? j); [lia|reflexivity].
        -- intros x Hx0. cbn [map aid] in Hx0. cbn [map]. subst i. exact Hx0.
    + cbn [app]. split; [|split].
      * split.
        -- cbn [map]. constructor; [|exact IHnd]. intros Hin. apply Hx. apply IHin. exact Hin.
        -- intros b [Hb|Hb]; [subst b; apply Hpos; left; reflexivity|apply IHpos; exact Hb].
      * intros j. rewrite !ref_in_cons. rewrite E. rewrite IHref.
        destruct (aid a =? j) eqn:Ej; [|reflexivity].
        destruct (i =? j) eqn:Eij; [|reflexivity].
        apply Z.eqb_eq in Ej. apply Z.eqb_eq in Eij. apply Z.eqb_neq in E. lia.
      * intros x [Hx'|Hx']; [left; exact Hx'|right; apply IHin; exact Hx'].
Qed.

Lemma fold_inc_spec e : forall l cs,
  NoDup l -> cs_wf cs ->
  cs_wf (fold_left (cpu_inc e) l cs)
  /\ forall j, ref_in (fold_left (cpu_inc e) l cs) j = ref_in cs j + (if memZ j l then 1 else 0).
Proof.
  induction l as [|i l IH]; intros cs Hnd Hwf; cbn [fold_left].
  - split; [exact Hwf|]. intros j. cbn. lia.
  - inversion Hnd as [|? ? Hi Hnd']; subst.
    destruct (IH (cpu_inc e cs i) Hnd' (cpu_inc_wf e cs i Hwf)) as [H1 H2].
    split; [exact H1|]. intros j. rewrite H2, ref_in_cpu_inc.
    unfold memZ at 2. cbn [existsb]. fold (memZ j l).
    rewrite (Z.eqb_sym j i).
    destruct (i =? j) eqn:E; cbn [orb]; [|lia].
    apply Z.eqb_eq in E. subst. apply memZ_false in Hi. rewrite Hi. lia.
Qed.

Lemma fold_dec_spec : forall l cs,
  NoDup l -> cs_wf cs ->
  cs_wf (fold_left cpu_dec l cs)
  /\ forall j, ref_in (fold_left cpu_dec l cs) j
               = if memZ j l then Z.max 0 (ref_in cs j - 1) else ref_in cs j.
Proof.
  induction l as [|i l IH]; intros cs Hnd Hwf; cbn [fold_left].
  - split; [exact Hwf|]. intros j. reflexivity.
  - inversion Hnd as [|? ? Hi Hnd']; subst.
    destruct (cpu_dec_spec cs i Hwf) as [Hwf' [Href _]].
    destruct (IH (cpu_dec cs i) Hnd' Hwf') as [H1 H2].
    split; [exact H1|]. intros j. rewrite H2, !Href.
    unfold memZ at 2. cbn [existsb]. fold (memZ j l). rewrite (Z.eqb_sym j i).
    destruct (i =? j) eqn:E; cbn [orb].
    + apply Z.eqb_eq in E. subst. apply memZ_false in Hi. rewrite Hi. reflexivity.
    + reflexivity.
Qed.

(* ------------------------------------------------------------------ recomputation over pods *)
Lemma ref_of_pods_app ps p i :
  ref_of_pods (ps ++ [p]) i = ref_of_pods ps i + (if memZ i (p_cpus p) then 1 else 0).
Proof.
  unfold ref_of_pods. rewrite filter_app, lenZ_app. cbn [filter].
  destruct (memZ i (p_cpus p)); reflexivity.
Qed.

Lemma filter_uid_absent uid ps :
  ~ In uid (map p_uid ps) -> filter (fun q => negb (p_uid q =? uid)) ps = ps.
Proof.
  intros H. apply filter_all_true. intros q Hq. apply negb_true_iff. apply Z.eqb_neq.
  intros E. apply H. apply in_map_iff. exists q. auto.
Qed.

Lemma find_pod_Some uid ps p : find_pod uid ps = Some p -> In p ps /\ p_uid p = uid.
Proof.
  unfold find_pod. intros H. apply find_some in H. destruct H as [H1 H2].
  apply Z.eqb_eq in H2. auto.
Qed.

Lemma find_pod_None uid ps : find_pod uid ps = None -> ~ In uid (map p_uid ps).
Proof.
  unfold find_pod. intros H Hin. apply in_map_iff in Hin. destruct Hin as [q [E Hq]].
  pose proof (find_none _ _ H q Hq) as Hn. cbn in Hn. apply Z.eqb_neq in Hn. congruence.
Qed.

Lemma ref_of_pods_remove : forall ps uid p i,
  NoDup (map p_uid ps) -> find_pod uid ps = Some p ->
  ref_of_pods (filter (fun q => negb (p_uid q =? uid)) ps) i
  = ref_of_pods ps i - (if memZ i (p_cpus p) then 1 else 0).
Proof.
  induction ps as [|q ps IH]; intros uid p i Hnd Hf; [discriminate|].
  cbn [map] in Hnd. inversion Hnd as [|? ? Hq Hnd']; subst.
  unfold find_pod in Hf. cbn [find] in Hf. cbn [filter].
  destruct (p_uid q =? uid) eqn:E.
  - inversion Hf; subst. apply Z.eqb_eq in E. subst uid. cbn [negb].
    rewrite filter_uid_absent by exact Hq.
    unfold ref_of_pods. cbn [filter]. destruct (memZ i (p_cpus p)); [rewrite lenZ_cons|]; lia.
  - cbn [negb]. unfold ref_of_pods in *. cbn [filter].
    specialize (IH uid p i Hnd' Hf).
    destruct (memZ i (p_cpus q)); [rewrite !lenZ_cons|]; lia.
Qed.

(* ------------------------------------------------------------------ NUMA amounts *)
Definition radd (a b : res2) : res2 := (fst a + fst b, snd a + snd b).
Definition rsubc (a b : res2) : res2 := (Z.max 0 (fst a - fst b), Z.max 0 (snd a - snd b)).
Definition rle (a b : res2) : Prop := fst a <= fst b /\ snd a <= snd b.
Definition r0 : res2 := (0, 0).

Definition has_node (nd : Z) (m : list nres) : bool := existsb (fun e => fst e =? nd) m.

Lemma lookup_res_cons e m nd :
  lookup_res nd (e :: m) = if fst e =? nd then snd e else lookup_res nd m.
Proof. destruct e as [a v]. reflexivity. Qed.

Lemma lookup_res_absent m nd : has_node nd m = false -> lookup_res nd m = r0.
Proof.
  induction m as [|e m IH]; intros H; [reflexivity|].
  unfold has_node in H. cbn [existsb] in H. apply orb_false_iff in H. destruct H as [H1 H2].
  rewrite lookup_res_cons, H1. apply IH. exact H2.
Qed.

Lemma lookup_res_app m l nd :
  lookup_res nd (m ++ l) = if has_node nd m then lookup_res nd m else lookup_res nd l.
Proof.
  induction m as [|e m IH]; [reflexivity|].
  cbn [app]. rewrite !lookup_res_cons. unfold has_node. cbn [existsb].
  destruct (fst e =? nd); cbn [orb]; [reflexivity|exact IH].
Qed.

Lemma lookup_numa_add_map r m nd :
  lookup_res nd (map (fun e => if fst e =? fst r
                               then (fst e, (fst (snd e) + fst (snd r), snd (snd e) + snd (snd r)))
                               else e) m)
  = if (fst r =? nd) && has_node (fst r) m then radd (lookup_res nd m) (snd r) else lookup_res nd m.
Proof.
  induction m as [|e m IH]; cbn [map].
  - rewrite andb_false_r. reflexivity.
  - rewrite !lookup_res_cons. unfold has_node. cbn [existsb]. fold (has_node (fst r) m).
    destruct (fst e =? fst r) eqn:E1; cbn [fst snd orb].
    + rewrite andb_true_r. apply Z.eqb_eq in E1.
      destruct (fst e =? nd) eqn:E2.
      * apply Z.eqb_eq in E2. assert (fst r =? nd = true) as -> by (apply Z.eqb_eq; lia). reflexivity.
      * assert (fst r =? nd = false) as Hr by (apply Z.eqb_neq; apply Z.eqb_neq in E2; lia).
        rewrite IH, Hr. reflexivity.
    + destruct (fst e =? nd) eqn:E2.
      * assert (fst r =? nd = false) as -> by
          (apply Z.eqb_neq; apply Z.eqb_neq in E1; apply Z.eqb_eq in E2; lia). reflexivity.
      * exact IH.
Qed.

Lemma radd_r0_l a : radd r0 a = a.
Proof. destruct a. reflexivity. Qed.

Lemma lookup_numa_add m r nd :
  lookup_res nd (numa_add m r) = if fst r =? nd then radd (lookup_res nd m) (snd r) else lookup_res nd m.
Proof.
  unfold numa_add. fold (has_node (fst r) m). destruct (has_node (fst r) m) eqn:E.
  - rewrite lookup_numa_add_map, E, andb_true_r. reflexivity.
  - rewrite lookup_res_app. destruct (fst r =? nd) eqn:E2.
    + apply Z.eqb_eq in E2. subst nd. rewrite E. rewrite lookup_res_cons, Z.eqb_refl.
      rewrite lookup_res_absent by exact E. rewrite radd_r0_l. reflexivity.
    + destruct (has_node nd m) eqn:E3; [reflexivity|].
      rewrite lookup_res_cons, E2. cbn [lookup_res]. rewrite lookup_res_absent by exact E3. reflexivity.
Qed.

Lemma lookup_numa_sub m r nd :
  lookup_res nd (numa_sub m r)
  = if (fst r =? nd) && has_node nd m then rsubc (lookup_res nd m) (snd r) else lookup_res nd m.
Proof.
  unfold numa_sub. induction m as [|e m IH]; cbn [map].
  - rewrite andb_false_r. reflexivity.
  - rewrite !lookup_res_cons. unfold has_node. cbn [existsb]. fold (has_node nd m).
    destruct (fst e =? fst r) eqn:E1; cbn [fst snd].
    + apply Z.eqb_eq in E1. destruct (fst e =? nd) eqn:E2; cbn [orb].
      * apply Z.eqb_eq in E2. assert (fst r =? nd = true) as -> by (apply Z.eqb_eq; lia). reflexivity.
      * assert (fst r =? nd = false) as Hr by (apply Z.eqb_neq; apply Z.eqb_neq in E2; lia).
        rewrite IH, Hr. reflexivity.
    + destruct (fst e =? nd) eqn:E2; cbn [orb].
      * assert (fst r =? nd = false) as -> by
          (apply Z.eqb_neq; apply Z.eqb_neq in E1; apply Z.eqb_eq in E2; lia). reflexivity.
      * exact IH.
Qed.

(* sum of the entries of one pod (or one NUMANodeResources list) on a node *)
Definition numa_sum (l : list nres) (nd : Z) : res2 :=
  fold_right (fun e acc => if fst e =? nd then (fst (snd e) + fst acc, snd (snd e) + snd acc) else acc)
             (0, 0) l.

Lemma numa_of_pod_sum p nd : numa_of_pod p nd = numa_sum (p_numa p) nd.
Proof. reflexivity. Qed.

Definition nres_nonneg (l : list nres) : Prop :=
  forall e, In e l -> 0 <= fst (snd e) /\ 0 <= snd (snd e).

Lemma numa_sum_nonneg l nd : nres_nonneg l -> rle r0 (numa_sum l nd).
Proof.
  induction l as [|e l IH]; intros H; [cbn; unfold rle; cbn; lia|].
  cbn [numa_sum fold_right]. fold (numa_sum l nd).
  assert (Hl : rle r0 (numa_sum l nd)) by (apply IH; intros x Hx; apply H; right; exact Hx).
  destruct (H e (or_introl eq_refl)) as [H1 H2]. unfold rle, r0 in *. cbn [fst snd] in *.
  destruct (fst e =? nd); cbn [fst snd]; lia.
Qed.

Lemma res2_eq (a b : res2) : fst a = fst b -> snd a = snd b -> a = b.
Proof. destruct a, b. cbn. intros; subst; reflexivity. Qed.

Lemma fold_numa_add_spec : forall l m nd,
  lookup_res nd (fold_left numa_add l m) = radd (lookup_res nd m) (numa_sum l nd).
Proof.
  induction l as [|e l IH]; intros m nd; cbn [fold_left].
  - cbn. apply res2_eq; cbn; lia.
  - rewrite IH, lookup_numa_add. cbn [numa_sum fold_right]. fold (numa_sum l nd).
    destruct (fst e =? nd); apply res2_eq; unfold radd; cbn [fst snd]; lia.
Qed.

Lemma fold_numa_sub_spec : forall l m nd,
  nres_nonneg l -> rle (numa_sum l nd) (lookup_res nd m) ->
  radd (lookup_res nd (fold_left numa_sub l m)) (numa_sum l nd) = lookup_res nd m.
Proof.
  induction l as [|e l IH]; intros m nd Hnn Hle; cbn [fold_left].
  - cbn. apply res2_eq; cbn; lia.
  - assert (Hnn' : nres_nonneg l) by (intros x Hx; apply Hnn; right; exact Hx).
    pose proof (numa_sum_nonneg l nd Hnn') as Hl0.
    destruct (Hnn e (or_introl eq_refl)) as [He1 He2].
    cbn [numa_sum fold_right] in *. fold (numa_sum l nd) in *.
    assert (Hstep : lookup_res nd (numa_sub m e)
                    = if fst e =? nd then (fst (lookup_res nd m) - fst (snd e), snd (lookup_res nd m) - snd (snd e))
                      else lookup_res nd m).
    { rewrite lookup_numa_sub. destruct (fst e =? nd) eqn:E; cbn [andb]; [|reflexivity].
      unfold rle, r0 in *. cbn [fst snd] in *.
      destruct (has_node nd m) eqn:E2.
      - unfold rsubc. apply res2_eq; cbn [fst snd]; lia.
      - rewrite lookup_res_absent in * by exact E2. unfold r0 in *. cbn [fst snd] in *.
        apply res2_eq; cbn [fst snd]; lia. }
    specialize (IH (numa_sub m e) nd Hnn').
    rewrite Hstep in IH. unfold rle, r0, radd in *.
    destruct (fst e =? nd); cbn [fst snd] in *.
    + assert (Hpre : fst (numa_sum l nd) <= fst (lookup_res nd m) - fst (snd e)
                     /\ snd (numa_sum l nd) <= snd (lookup_res nd m) - snd (snd e)) by lia.
      specialize (IH Hpre). apply (f_equal fst) in IH as IH1. apply (f_equal snd) in IH as IH2.
      cbn [fst snd] in *. apply res2_eq; cbn [fst snd]; lia.
    + apply IH. exact Hle.
Qed.

Lemma numa_of_pods_app ps p nd :
  numa_of_pods (ps ++ [p]) nd = radd (numa_of_pods ps nd) (numa_of_pod p nd).
Proof.
  unfold numa_of_pods. induction ps as [|q ps IH]; cbn [app fold_right].
  - apply res2_eq; unfold radd; cbn [fst snd]; lia.
  - rewrite IH. apply res2_eq; unfold radd; cbn [fst snd]; lia.
Qed.

Lemma numa_of_pods_remove : forall ps uid p nd,
  NoDup (map p_uid ps) -> find_pod uid ps = Some p ->
  radd (numa_of_pods (filter (fun q => negb (p_uid q =? uid)) ps) nd) (numa_of_pod p nd)
  = numa_of_pods ps nd.
Proof.
  induction ps as [|q ps IH]; intros uid p nd Hnd Hf; [discriminate|].
  cbn [map] in Hnd. inversion Hnd as [|? ? Hq Hnd']; subst.
  unfold find_pod in Hf. cbn [find] in Hf. cbn [filter].
  destruct (p_uid q =? uid) eqn:E.
  - inversion Hf; subst. apply Z.eqb_eq in E. subst uid. cbn [negb].
    rewrite filter_uid_absent by exact Hq.
    unfold numa_of_pods. cbn [fold_right]. apply res2_eq; unfold radd; cbn [fst snd]; lia.
  - cbn [negb]. specialize (IH uid p nd Hnd' Hf).
    unfold numa_of_pods in *. cbn [fold_right].
    apply (f_equal fst) in IH as IH1. apply (f_equal snd) in IH as IH2. unfold radd in *. cbn [fst snd] in *.
    apply res2_eq; cbn [fst snd]; lia.
Qed.

(* ------------------------------------------------------------------ the ledger invariant *)
Definition palloc_wf (p : palloc) : Prop := NoDup (p_cpus p) /\ nres_nonneg (p_numa p).

Definition linv (st : lstate) : Prop :=
  cs_wf (l_cpus st)
  /\ NoDup (map p_uid (l_pods st))
  /\ (forall p, In p (l_pods st) -> palloc_wf p)
  /\ ledger_exact st.

Lemma linv_init : linv l_init.
Proof.
  split; [split; [constructor|intros a []]|]. split; [constructor|]. split; [intros p []|].
  split; intros; reflexivity.
Qed.

Lemma add_pod_inv st p : linv st -> palloc_wf p -> linv (add_pod st p).
Proof.
  intros Hinv [Hpc Hpn]. pose proof Hinv as [Hcs [Hnd [Hwf [Hcpu Hnuma]]]]. unfold add_pod.
  destruct (find_pod (p_uid p) (l_pods st)) eqn:E; [exact Hinv|].
  destruct (fold_inc_spec (p_excl p) (p_cpus p) (l_cpus st) Hpc Hcs) as [Hcs' Href].
  split; [exact Hcs'|]. cbn [l_pods l_cpus l_numa]. split; [|split; [|split]].
  - rewrite map_app. cbn [map]. apply NoDup_app_intro; [exact Hnd|repeat constructor; intros []|].
    intros x Hx [Hin|[]]. subst. apply (find_pod_None _ _ E). exact Hx.
  - intros q Hq. apply in_app_or in Hq. destruct Hq as [Hq|[Hq|[]]]; [apply Hwf; exact Hq|subst; split; assumption].
  - cbn [l_cpus l_pods]. intros i. rewrite Href, ref_of_pods_app, Hcpu. reflexivity.
  - cbn [l_numa l_pods]. intros nd. rewrite fold_numa_add_spec, numa_of_pods_app, Hnuma. reflexivity.
Qed.

Lemma release_inv st uid : linv st -> linv (release st uid).
Proof.
  intros Hinv. pose proof Hinv as [Hcs [Hnd [Hwf [Hcpu Hnuma]]]]. unfold release.
  destruct (find_pod uid (l_pods st)) as [p|] eqn:E; [|exact Hinv].
  destruct (find_pod_Some _ _ _ E) as [Hin Huid].
  destruct (Hwf p Hin) as [Hpc Hpn].
  destruct (fold_dec_spec (p_cpus p) (l_cpus st) Hpc Hcs) as [Hcs' Href].
  split; [exact Hcs'|]. cbn [l_pods l_cpus l_numa]. split; [|split; [|split]].
  - apply NoDup_map_filter. exact Hnd.
  - intros q Hq. apply filter_In in Hq. apply Hwf. tauto.
  - cbn [l_cpus l_pods]. intros i. rewrite Href, (ref_of_pods_remove _ _ _ i Hnd E), Hcpu.
    destruct (memZ i (p_cpus p)) eqn:Em; [|lia].
    assert (1 <= ref_of_pods (l_pods st) i); [|lia].
    unfold ref_of_pods. clear - Hin Em. induction (l_pods st) as [|q ps IH]; [destruct Hin|].
    cbn [filter]. destruct Hin as [Hq|Hq].
    + subst q. rewrite Em. rewrite lenZ_cons. pose proof (lenZ_nonneg (filter (fun p0 => memZ i (p_cpus p0)) ps)). lia.
    + specialize (IH Hq). destruct (memZ i (p_cpus q)); [rewrite lenZ_cons|]; lia.
  - cbn [l_numa l_pods]. intros nd.
    pose proof (numa_of_pods_remove _ _ _ nd Hnd E) as Hrem.
    assert (Hle : rle (numa_sum (p_numa p) nd) (lookup_res nd (l_numa st))).
    { rewrite Hnuma, <- Hrem, numa_of_pod_sum.
      assert (H0 : rle r0 (numa_of_pods (filter (fun q => negb (p_uid q =? uid)) (l_pods st)) nd)).
      { clear - Hwf. unfold numa_of_pods.
        induction (l_pods st) as [|q ps IH]; cbn [filter fold_right]; [unfold rle, r0; cbn; lia|].
        assert (IH' : rle r0 (fold_right (fun p acc => let r := numa_of_pod p nd in (fst r + fst acc, snd r + snd acc))
                               (0, 0) (filter (fun q0 => negb (p_uid q0 =? uid)) ps)))
          by (apply IH; intros x Hx; apply Hwf; right; exact Hx).
        destruct (negb (p_uid q =? uid)); cbn [fold_right]; [|exact IH'].
        destruct (Hwf q (or_introl eq_refl)) as [_ Hqn].
        pose proof (numa_sum_nonneg (p_numa q) nd Hqn) as Hq0. rewrite <- numa_of_pod_sum in Hq0.
        unfold rle, r0 in *. cbn [fst snd] in *. lia. }
      unfold rle, radd, r0 in *. cbn [fst snd] in *. lia. }
    pose proof (fold_numa_sub_spec (p_numa p) (l_numa st) nd Hpn Hle) as Hsub.
    rewrite Hnuma, <- Hrem, numa_of_pod_sum in Hsub.
    apply (f_equal fst) in Hsub as H1. apply (f_equal snd) in Hsub as H2.
    unfold radd in *. cbn [fst snd] in *. apply res2_eq; lia.
Qed.

Lemma update_inv st p : linv st -> palloc_wf p -> linv (update st p).
Proof. intros H Hp. unfold update. apply add_pod_inv; [apply release_inv; exact H|exact Hp]. Qed.

(* ------------------------------------------------------------------ effect on the live pods *)
Lemma release_pods st uid :
  l_pods (release st uid) = filter (fun q => negb (p_uid q =? uid)) (l_pods st).
Proof.
  unfold release. destruct (find_pod uid (l_pods st)) eqn:E; [reflexivity|].
  symmetry. apply filter_uid_absent. apply find_pod_None. exact E.
Qed.

Lemma update_pods st p :
  l_pods (update st p) = filter (fun q => negb (p_uid q =? p_uid p)) (l_pods st) ++ [p].
Proof.
  unfold update, add_pod. rewrite release_pods.
  destruct (find_pod (p_uid p) (filter (fun q => negb (p_uid q =? p_uid p)) (l_pods st))) eqn:E; [|reflexivity].
  exfalso. destruct (find_pod_Some _ _ _ E) as [Hin Hu]. apply filter_In in Hin.
  destruct Hin as [_ Hn]. rewrite Hu, Z.eqb_refl in Hn. discriminate.
Qed.
